#!/bin/sh
# confirm_seed.sh <worktree> <outdir/mN> <dest-name> [cargo feature args]
# Confirms a seeded change independently: the patch applies to the clean worktree, the complete existing
# suite passes with it, the demonstration fails with it and passes without it.  Then copies it to seeded/.
set -u
WT=$1; SRC=$2; NAME=$3; FEAT=${4:-}
export CARGO_NET_OFFLINE=true
cd "$WT" || exit 2
git checkout -q -- . ; rm -f tests/demo_seeded.rs
git apply --check "$SRC/patch.diff" || { echo "$NAME: patch does not apply"; exit 1; }
# clean tree: demo passes
cp "$SRC/demo.rs" tests/demo_seeded.rs
cargo test --offline $FEAT --test demo_seeded >/tmp/seed/confirm_$NAME.clean.log 2>&1; CLEAN=$?
rm -f tests/demo_seeded.rs
git apply "$SRC/patch.diff"
# patched tree: existing suite passes
cargo test --offline $FEAT >/tmp/seed/confirm_$NAME.suite.log 2>&1; SUITE=$?
FAILED=$(grep -c "test result: FAILED" /tmp/seed/confirm_$NAME.suite.log)
PASSED=$(grep "test result: ok" /tmp/seed/confirm_$NAME.suite.log | sed 's/.*ok\. \([0-9]*\) passed.*/\1/' | paste -sd+ | bc)
cp "$SRC/demo.rs" tests/demo_seeded.rs
cargo test --offline $FEAT --test demo_seeded >/tmp/seed/confirm_$NAME.patched.log 2>&1; PATCHED=$?
rm -f tests/demo_seeded.rs; git checkout -q -- .
echo "$NAME: demo-on-clean=$CLEAN suite-with-patch=$SUITE (passed $PASSED, failed-suites $FAILED) demo-with-patch=$PATCHED"
if [ "$CLEAN" = 0 ] && [ "$SUITE" = 0 ] && [ "$PATCHED" != 0 ]; then
  D=/verif/seeded/$NAME; mkdir -p "$D"; cp "$SRC/patch.diff" "$SRC/demo.rs" "$D/"
  python3 - "$SRC/meta.json" "$D/meta.json" "$PASSED" <<'PY'
import json,sys
m=json.load(open(sys.argv[1]))
m["properties"]=[m.get("property")]
m["confirmed"]="confirmed independently in a scratch worktree by tools/confirm_seed.sh: patch applies to the clean tree; cargo test --offline with the patch: %s tests passed, 0 failed; demo passes on the clean tree and fails with the patch" % sys.argv[3]
json.dump(m,open(sys.argv[2],"w"),indent=1)
PY
  echo "$NAME: KEPT"
else
  echo "$NAME: REJECTED"
fi
