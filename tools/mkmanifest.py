#!/usr/bin/env python3
"""Regenerates MANIFEST.json from tools/registry.py (run after editing the registry)."""
import json
import os
import sys

ROOT = os.path.dirname(os.path.dirname(os.path.abspath(__file__)))
sys.path.insert(0, os.path.join(ROOT, "tools"))
import registry  # noqa: E402

ALL = [json.loads(l)["id"] for l in open(os.path.join(ROOT, "properties.jsonl"))]
checks = []
for pid in ALL:
    if pid not in registry.PROPS or not registry.PROPS[pid]["theorems"]:
        continue
    info = registry.PROPS[pid]
    checks.append({
        "property_id": pid,
        "quick_cmd": f"python3 tools/vcheck.py {pid} --tier quick",
        "thorough_cmd": f"python3 tools/vcheck.py {pid} --tier thorough",
        "evidence_file": f"/verif/evidence/{pid}.json",
        "replay_cmd_template": f"python3 tools/vcheck.py {pid} --replay {{path}}",
        "engine": "coq-proof+correspondence",
        "level_claimed": {
            "category": "proof",
            "text": info["level_text"],
            "design_ref": info.get("design_ref", f"DESIGN.md §5 {pid}"),
        },
        "level_note": info["level_note"],
        "technique": info.get("technique", "Coq theorems over a hand-written Gallina model; model tied to the code by a differential correspondence check (extracted OCaml model vs the Rust implementation) and a source translator"),
    })
na = [{"property_id": pid, "reason": registry.NOT_APPLICABLE.get(pid, "check not built yet in this revision of /verif (work in progress); no claim is made")}
      for pid in ALL if pid not in registry.PROPS or not registry.PROPS[pid]["theorems"]]
manifest = {
    "version": 1,
    "setup_cmd": "sh tools/setup.sh",
    "hooks": {
        "guard": "proguard_verif",
        "enable": "no hook is needed: every observation point is reachable through the public API; the guard name is reserved and unused",
        "baseline_off_cmd": "cd /repo && cargo test --offline --no-fail-fast",
        "source_commits": [],
        "add_only": True,
    },
    "engines": [{
        "name": "coq-proof+correspondence",
        "path": "tools/vcheck.py",
        "serves_properties": [c["property_id"] for c in checks],
        "kind_free_text": "Coq 8.16.1 development (coq/) with per-property theorem files; executable model extracted to OCaml (model/) and compared with the Rust implementation (harness/) on generated and corpus cases; translator tools/extract_facts.py regenerates coq/gen/Extracted.v from /repo/src on every run",
    }],
    "checks": checks,
    "notes": "See DESIGN.md. `fix:` commits in /repo and open findings are listed in KNOWN_FINDINGS.txt.",
    "not_applicable": na,
}
with open(os.path.join(ROOT, "MANIFEST.json"), "w") as f:
    json.dump(manifest, f, indent=1)
print(f"MANIFEST.json: {len(checks)} checks, {len(na)} not claimed")
