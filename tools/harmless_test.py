#!/usr/bin/env python3
"""harmless_test.py <dir-with-rN/patch.diff> [--props C01,C02,...] — applies each behaviour-preserving
patch to /repo, runs quick checks (all claimed, or the given ones) and reports every VIOLATION as a
false alarm.  Restores /repo afterwards."""
import json, os, subprocess, sys
ROOT = os.path.dirname(os.path.dirname(os.path.abspath(__file__)))
def sh(cmd, **kw):
    return subprocess.run(cmd, shell=True, stdout=subprocess.PIPE, stderr=subprocess.STDOUT, **kw)
def main():
    base = sys.argv[1]
    props = None
    if "--props" in sys.argv:
        props = sys.argv[sys.argv.index("--props") + 1].split(",")
    manifest = json.load(open(os.path.join(ROOT, "MANIFEST.json")))
    claimed = props or [c["property_id"] for c in manifest["checks"]]
    assert sh("git -C /repo status --porcelain --untracked-files=no").stdout.strip() == b"", "/repo is not clean"
    for name in sorted(os.listdir(base)):
        pf = os.path.join(base, name, "patch.diff")
        if not os.path.exists(pf):
            continue
        r = sh(f"git -C /repo apply {pf}")
        if r.returncode != 0:
            print(name, "patch does not apply"); continue
        alarms = {}
        try:
            for p in claimed:
                out = sh(f"timeout 900 python3 tools/vcheck.py {p} --tier quick", cwd=ROOT).stdout.decode()
                v = [l for l in out.splitlines() if l.startswith("VIOLATION") or l.startswith("BROKEN-OBLIGATION")]
                if v:
                    alarms[p] = v[:2]
        finally:
            sh("git -C /repo checkout -- .")
        print(name, "FALSE ALARMS: " + json.dumps(alarms)[:600] if alarms else "quiet", flush=True)
if __name__ == "__main__":
    main()
