#!/usr/bin/env python3
"""Translator: re-reads /repo/src on every run and regenerates coq/gen/Extracted.v.

Only `Definition`s are emitted.  The Coq development is parameterised by them
(cache version, magic) or proves guard equalities against them (layouts, string
constants, primitive table, is_valid window, interior-mutability scan), so the
theorems are re-checked against what the code says now.  If a fact cannot be read
the script exits 2 and names the fact: that is a broken translator obligation.
"""
import os
import re
import sys

REPO = os.environ.get("VERIF_REPO", "/repo")
OUT = os.path.join(os.path.dirname(os.path.abspath(__file__)), "..", "coq", "gen", "Extracted.v")


class Missing(Exception):
    pass


def strip_comments(src):
    # remove // comments (incl. doc comments) and /* */ blocks, keep string literals intact enough
    out = []
    i = 0
    n = len(src)
    in_str = False
    raw_hashes = None
    while i < n:
        c = src[i]
        if raw_hashes is not None:
            end = '"' + '#' * raw_hashes
            j = src.find(end, i)
            if j < 0:
                out.append(src[i:])
                break
            out.append(src[i:j + len(end)])
            i = j + len(end)
            raw_hashes = None
            continue
        if in_str:
            out.append(c)
            if c == '\\':
                out.append(src[i + 1])
                i += 2
                continue
            if c == '"':
                in_str = False
            i += 1
            continue
        m = re.match(r'b?r(#*)"', src[i:])
        if m and (i == 0 or not (src[i - 1].isalnum() or src[i - 1] == '_')):
            out.append(m.group(0))
            raw_hashes = len(m.group(1))
            i += len(m.group(0))
            continue
        if c == '"':
            in_str = True
            out.append(c)
            i += 1
            continue
        if c == "'" and i + 2 < n and (src[i + 2] == "'" or (src[i + 1] == '\\' and src.find("'", i + 2) - i <= 4)):
            j = src.find("'", i + 2) if src[i + 1] == '\\' else i + 2
            out.append(src[i:j + 1])
            i = j + 1
            continue
        if src.startswith('//', i):
            j = src.find('\n', i)
            i = n if j < 0 else j
            continue
        if src.startswith('/*', i):
            j = src.find('*/', i)
            i = n if j < 0 else j + 2
            continue
        out.append(c)
        i += 1
    return ''.join(out)


def read(rel):
    p = os.path.join(REPO, rel)
    try:
        with open(p, encoding='utf-8') as f:
            return f.read()
    except OSError as e:
        raise Missing(f"cannot read {rel}: {e}")


def non_test(src):
    i = src.find('#[cfg(test)]')
    return src if i < 0 else src[:i]


def coq_bytes(b):
    return '[' + '; '.join(str(x) for x in b) + ']'


def coq_string(s):
    return '"' + s.replace('"', '""') + '"'


def unescape_rust(s):
    # enough for the literals in this code base
    return bytes(s, 'utf-8').decode('unicode_escape').encode('latin-1') if '\\' in s else s.encode('utf-8')


def const_table(*sources):
    """named constants with literal values: NAME -> bytes (strings) or int"""
    tab = {}
    for src in sources:
        for m in re.finditer(r'const\s+([A-Z_][A-Z0-9_]*)\s*:\s*[^=]+?=\s*(b?r(#*)"(.*?)"\3|b?"((?:[^"\\]|\\.)*)"|[0-9][0-9_]*)\s*;', src, re.S):
            name = m.group(1)
            if m.group(4) is not None and m.group(2).lstrip('b').startswith('r'):
                tab[name] = m.group(4).encode('utf-8')
            elif m.group(5) is not None:
                tab[name] = unescape_rust(m.group(5))
            else:
                tab[name] = int(m.group(2).replace('_', ''))
    return tab


def resolve(tok, tab):
    """a string literal or a named constant -> bytes, else None"""
    tok = tok.strip()
    m = re.fullmatch(r'b?"((?:[^"\\]|\\.)*)"', tok)
    if m:
        return unescape_rust(m.group(1))
    m = re.fullmatch(r'(?:Self::|self::|crate::[a-z_:]*)?([A-Z_][A-Z0-9_]*)', tok)
    if m and isinstance(tab.get(m.group(1)), bytes):
        return tab[m.group(1)]
    return None


def struct_fields(src, name):
    m = re.search(r'((?:#\[[^\]]*\]\s*)*)pub(?:\(crate\))?\s+struct\s+' + name + r'\s*\{([^}]*)\}', src)
    if not m:
        raise Missing(f"struct {name} not found in src/cache/raw.rs")
    attrs, body = m.group(1), m.group(2)
    if 'repr(C)' not in attrs:
        raise Missing(f"struct {name} is no longer #[repr(C)]")
    fields = []
    for fm in re.finditer(r'(?:pub(?:\([a-z]+\))?\s+)?([a-z_0-9]+)\s*:\s*([A-Za-z0-9_<>\[\]; ]+?)\s*,', body):
        fields.append((fm.group(1), fm.group(2)))
    if not fields:
        raise Missing(f"struct {name} has no readable fields")
    for f, t in fields:
        if t != 'u32':
            raise Missing(f"struct {name}: field {f} has type {t}, not u32")
    return [f for f, _ in fields]


def main():
    facts = []
    raw = strip_comments(non_test(read('src/cache/raw.rs')))
    cmod = strip_comments(non_test(read('src/cache/mod.rs')))
    mapping = strip_comments(non_test(read('src/mapping.rs')))
    mapper = strip_comments(non_test(read('src/mapper.rs')))
    java = strip_comments(non_test(read('src/java.rs')))
    stack = strip_comments(non_test(read('src/stacktrace.rs')))

    # ---- hard facts: format version and magic.  Read from the source; when the source spells them in a way
    # the translator does not understand, they are OBSERVED instead: `vharness facts` writes an empty mapping
    # with the implementation and reports the first two words of the file.
    version = None
    mb = None
    m = re.search(r'const\s+PRGCACHE_VERSION\s*:\s*u32\s*=\s*([0-9_]+)\s*;', raw)
    if m:
        version = int(m.group(1).replace('_', ''))
    m = re.search(r'const\s+PRGCACHE_MAGIC_BYTES\s*:\s*\[u8;\s*4\]\s*=\s*\*b"((?:[^"\\]|\\.)*)"\s*;', raw)
    if m and len(unescape_rust(m.group(1))) == 4 and \
            re.search(r'const\s+PRGCACHE_MAGIC\s*:\s*u32\s*=\s*u32::from_le_bytes\(PRGCACHE_MAGIC_BYTES\)', raw):
        mb = unescape_rust(m.group(1))
    source = "source"
    if version is None or mb is None:
        harness = os.path.join(os.path.dirname(os.path.abspath(__file__)), "..", "build", "target", "release", "vharness")
        try:
            import subprocess
            out = subprocess.run([harness, "facts"], stdout=subprocess.PIPE, timeout=60).stdout.decode()
            om = re.search(r'magic_bytes=(\d+),(\d+),(\d+),(\d+)', out)
            ov = re.search(r'version=(\d+)', out)
            if om and ov:
                mb = bytes(int(x) for x in om.groups())
                version = int(ov.group(1))
                source = "observed (vharness facts)"
        except Exception as e:  # noqa: BLE001
            raise Missing(f"PRGCACHE_VERSION / PRGCACHE_MAGIC_BYTES unreadable in the source and not observable: {e}")
    if version is None or mb is None:
        raise Missing("PRGCACHE_VERSION / PRGCACHE_MAGIC_BYTES")
    facts.append(f"(* format constants: {source} *)")
    facts.append(f"Definition cache_version : N := {version}.")
    facts.append(f"Definition cache_magic_bytes : list N := {coq_bytes(mb)}.")

    for name, coqname in (("Header", "header_fields"), ("Class", "class_fields"), ("Member", "member_fields")):
        try:
            fs = struct_fields(raw, name)
            facts.append(f"Definition {coqname} : option (list string) := Some ([" + '; '.join(coq_string(f) for f in fs) + "]).")
        except Missing as e:
            facts.append(f"Definition {coqname} : option (list string) := None.  (* {e} *)")

    # the sentinel defaults of Class (u32::MAX or a named constant for it)
    tab0 = const_table(raw, cmod)
    for mm in re.finditer(r'const\s+([A-Z_][A-Z0-9_]*)\s*:\s*u32\s*=\s*u32::MAX\s*;', raw + cmod):
        tab0[mm.group(1)] = 4294967295
    defaults = None
    m = re.search(r'impl\s+Default\s+for\s+Class\s*\{.*?Self\s*\{(.*?)\}', raw, re.S)
    if m:
        defaults = []
        for fm in re.finditer(r'([a-z_]+)\s*:\s*([A-Za-z0-9_:]+)\s*,', m.group(1)):
            v = fm.group(2)
            if v == 'u32::MAX':
                val = 4294967295
            elif re.fullmatch(r'[0-9_]+', v):
                val = int(v.replace('_', ''))
            elif isinstance(tab0.get(v.split('::')[-1]), int):
                val = tab0[v.split('::')[-1]]
            else:
                defaults = None
                break
            defaults.append(f"({coq_string(fm.group(1))}, {val})")
    facts.append("Definition class_defaults : option (list (string * N)) := " +
                 ("Some ([" + '; '.join(defaults) + "])" if defaults else "None") + ".")

    tab = const_table(raw, cmod, mapping, mapper, java, stack)

    # ---- soft facts: `Some v` when the translator can read them, `None` otherwise.  A fact that cannot
    # be read is not an alarm (the literal may have moved in a harmless refactoring); a fact that is read
    # and differs from the model's constant breaks the guard lemma.  Either way the correspondence check
    # compares behaviour.
    def soft(name, ty, value):
        facts.append(f"Definition {name} : option ({ty}) := " + (f"Some ({value})" if value is not None else "None") + ".")

    pb = tab.get('SOURCE_FILE_PREFIX')
    soft("source_file_prefix", "list N", coq_bytes(pb) if isinstance(pb, bytes) else None)

    prims = []
    for pm in re.finditer(r"'([A-Z])'\s*(?:=>\s*Some\(|,)\s*\"([a-z]+)\"", java):
        prims.append((ord(pm.group(1)), pm.group(2).encode()))
    soft("jvm_primitives", "list (N * list N)",
         ("[" + '; '.join(f"({c}, {coq_bytes(v)})" for c, v in prims) + "]") if prims else None)

    window = None
    m = re.search(r'fn\s+is_valid\s*\(&self\)\s*->\s*bool\s*\{(.*?)\n    \}', mapping, re.S)
    if m:
        tm = re.search(r'\.take\(\s*([A-Za-z_:0-9]+)\s*\)', m.group(1))
        if tm:
            a = tm.group(1)
            if re.fullmatch(r'[0-9_]+', a):
                window = int(a.replace('_', ''))
            else:
                v = tab.get(a.split('::')[-1])
                window = v if isinstance(v, int) else None
    soft("is_valid_window", "N", window)

    def resolved_set(src, pat):
        out = set()
        for mm in re.finditer(pat, src):
            v = resolve(mm.group(1), tab)
            if v is not None:
                out.add(v)
        return out
    synth = resolved_set(mapper, r'file_name\s*==\s*([A-Za-z_:0-9"$]+)') | resolved_set(cmod, r'file_name\s*==\s*([A-Za-z_:0-9"$]+)')
    soft("synthetic_file_names", "list (list N)",
         ("[" + '; '.join(coq_bytes(x) for x in sorted(synth)) + "]") if synth else None)
    caused = set()
    for src in (mapper, cmod, stack):
        for v in resolved_set(src, r'strip_prefix\(\s*([A-Za-z_:0-9" ]+?)\s*\)'):
            if v.lower().startswith(b'caused'):
                caused.add(v)
    soft("cause_prefixes", "list (list N)",
         ("[" + '; '.join(coq_bytes(x) for x in sorted(caused)) + "]") if caused else None)
    keys = resolved_set(mapper, r'key\s*==\s*([A-Za-z_:0-9"]+)') | resolved_set(raw, r'key\s*==\s*([A-Za-z_:0-9"]+)') | \
        resolved_set(mapping, r'key:\s*([A-Za-z_:0-9"]+)\s*,')
    soft("source_file_keys", "list (list N)",
         ("[" + '; '.join(coq_bytes(x) for x in sorted(keys)) + "]") if keys else None)

    # C20: interior mutability / non-Send/Sync ingredients in the library sources
    pat = re.compile(r'\b(Cell|RefCell|OnceCell|OnceLock|LazyCell|LazyLock|Lazy|Mutex|RwLock|Condvar|Atomic[A-Z][A-Za-z0-9]*|Rc|UnsafeCell|thread_local|static\s+mut)\b')
    hits = []
    for name, src in (("mapper.rs", mapper), ("cache/raw.rs", raw), ("cache/mod.rs", cmod),
                      ("mapping.rs", mapping), ("stacktrace.rs", stack), ("java.rs", java)):
        # the uuid namespace lazy_static is a Sync, initialise-once static
        for h in pat.finditer(src):
            hits.append(f"{name}:{h.group(1)}")
    facts.append("Definition interior_mutability_found : bool := " + ("true" if hits else "false") + ".")
    facts.append("(* interior mutability scan hits: " + (', '.join(hits) if hits else 'none') + " *)")

    text = ("(* GENERATED by tools/extract_facts.py from /repo/src on every run — do not edit. *)\n"
            "From Coq Require Import List NArith String.\nImport ListNotations.\nOpen Scope N_scope.\nOpen Scope string_scope.\n\n"
            + '\n'.join(facts) + '\n')
    os.makedirs(os.path.dirname(OUT), exist_ok=True)
    old = None
    if os.path.exists(OUT):
        with open(OUT, encoding='utf-8') as f:
            old = f.read()
    if old != text:
        with open(OUT, 'w', encoding='utf-8') as f:
            f.write(text)
        print("Extracted.v rewritten")
    else:
        print("Extracted.v unchanged")


if __name__ == '__main__':
    try:
        main()
    except Missing as e:
        print(f"TRANSLATOR-OBLIGATION-BROKEN: {e}")
        sys.exit(2)
