#!/usr/bin/env python3
"""Translator: re-reads /repo/src on every run and regenerates coq/gen/Extracted.v.

Only `Definition`s are emitted.  The Coq development is parameterised by them
(cache version, magic) or proves guard equalities against them (layouts, string
constants, primitive table, is_valid window, interior-mutability scan), so the
theorems are re-checked against what the code says now.  If a fact cannot be read
the script exits 2 and names the fact: that is a broken translator obligation.
"""
import os
import re
import sys

REPO = os.environ.get("VERIF_REPO", "/repo")
OUT = os.path.join(os.path.dirname(os.path.abspath(__file__)), "..", "coq", "gen", "Extracted.v")


class Missing(Exception):
    pass


def strip_comments(src):
    # remove // comments (incl. doc comments) and /* */ blocks, keep string literals intact enough
    out = []
    i = 0
    n = len(src)
    in_str = False
    raw_hashes = None
    while i < n:
        c = src[i]
        if raw_hashes is not None:
            end = '"' + '#' * raw_hashes
            j = src.find(end, i)
            if j < 0:
                out.append(src[i:])
                break
            out.append(src[i:j + len(end)])
            i = j + len(end)
            raw_hashes = None
            continue
        if in_str:
            out.append(c)
            if c == '\\':
                out.append(src[i + 1])
                i += 2
                continue
            if c == '"':
                in_str = False
            i += 1
            continue
        m = re.match(r'b?r(#*)"', src[i:])
        if m and (i == 0 or not (src[i - 1].isalnum() or src[i - 1] == '_')):
            out.append(m.group(0))
            raw_hashes = len(m.group(1))
            i += len(m.group(0))
            continue
        if c == '"':
            in_str = True
            out.append(c)
            i += 1
            continue
        if c == "'" and i + 2 < n and (src[i + 2] == "'" or (src[i + 1] == '\\' and src.find("'", i + 2) - i <= 4)):
            j = src.find("'", i + 2) if src[i + 1] == '\\' else i + 2
            out.append(src[i:j + 1])
            i = j + 1
            continue
        if src.startswith('//', i):
            j = src.find('\n', i)
            i = n if j < 0 else j
            continue
        if src.startswith('/*', i):
            j = src.find('*/', i)
            i = n if j < 0 else j + 2
            continue
        out.append(c)
        i += 1
    return ''.join(out)


def read(rel):
    p = os.path.join(REPO, rel)
    try:
        with open(p, encoding='utf-8') as f:
            return f.read()
    except OSError as e:
        raise Missing(f"cannot read {rel}: {e}")


def non_test(src):
    i = src.find('#[cfg(test)]')
    return src if i < 0 else src[:i]


def coq_bytes(b):
    return '[' + '; '.join(str(x) for x in b) + ']'


def coq_string(s):
    return '"' + s.replace('"', '""') + '"'


def unescape_rust(s):
    # enough for the literals in this code base
    return bytes(s, 'utf-8').decode('unicode_escape').encode('latin-1') if '\\' in s else s.encode('utf-8')


def struct_fields(src, name):
    m = re.search(r'((?:#\[[^\]]*\]\s*)*)pub(?:\(crate\))?\s+struct\s+' + name + r'\s*\{([^}]*)\}', src)
    if not m:
        raise Missing(f"struct {name} not found in src/cache/raw.rs")
    attrs, body = m.group(1), m.group(2)
    if 'repr(C)' not in attrs:
        raise Missing(f"struct {name} is no longer #[repr(C)]")
    fields = []
    for fm in re.finditer(r'(?:pub(?:\([a-z]+\))?\s+)?([a-z_0-9]+)\s*:\s*([A-Za-z0-9_<>\[\]; ]+?)\s*,', body):
        fields.append((fm.group(1), fm.group(2)))
    if not fields:
        raise Missing(f"struct {name} has no readable fields")
    for f, t in fields:
        if t != 'u32':
            raise Missing(f"struct {name}: field {f} has type {t}, not u32")
    return [f for f, _ in fields]


def main():
    facts = []
    raw = strip_comments(non_test(read('src/cache/raw.rs')))
    cmod = strip_comments(non_test(read('src/cache/mod.rs')))
    mapping = strip_comments(non_test(read('src/mapping.rs')))
    mapper = strip_comments(non_test(read('src/mapper.rs')))
    java = strip_comments(non_test(read('src/java.rs')))
    stack = strip_comments(non_test(read('src/stacktrace.rs')))

    m = re.search(r'const\s+PRGCACHE_VERSION\s*:\s*u32\s*=\s*([0-9_]+)\s*;', raw)
    if not m:
        raise Missing("PRGCACHE_VERSION")
    facts.append(f"Definition cache_version : N := {int(m.group(1).replace('_', ''))}.")

    m = re.search(r'const\s+PRGCACHE_MAGIC_BYTES\s*:\s*\[u8;\s*4\]\s*=\s*\*b"((?:[^"\\]|\\.)*)"\s*;', raw)
    if not m:
        raise Missing("PRGCACHE_MAGIC_BYTES")
    mb = unescape_rust(m.group(1))
    if len(mb) != 4:
        raise Missing("PRGCACHE_MAGIC_BYTES is not 4 bytes")
    if not re.search(r'const\s+PRGCACHE_MAGIC\s*:\s*u32\s*=\s*u32::from_le_bytes\(PRGCACHE_MAGIC_BYTES\)', raw):
        raise Missing("PRGCACHE_MAGIC is no longer u32::from_le_bytes(PRGCACHE_MAGIC_BYTES)")
    if not re.search(r'const\s+PRGCACHE_MAGIC_FLIPPED\s*:\s*u32\s*=\s*PRGCACHE_MAGIC\.swap_bytes\(\)', raw):
        raise Missing("PRGCACHE_MAGIC_FLIPPED is no longer PRGCACHE_MAGIC.swap_bytes()")
    facts.append(f"Definition cache_magic_bytes : list N := {coq_bytes(mb)}.")

    for name, coqname in (("Header", "header_fields"), ("Class", "class_fields"), ("Member", "member_fields")):
        fs = struct_fields(raw, name)
        facts.append(f"Definition {coqname} : list string := [" + '; '.join(coq_string(f) for f in fs) + "].")

    # the u32::MAX sentinel defaults of Class
    m = re.search(r'impl\s+Default\s+for\s+Class\s*\{.*?Self\s*\{(.*?)\}', raw, re.S)
    if not m:
        raise Missing("impl Default for Class")
    defaults = []
    for fm in re.finditer(r'([a-z_]+)\s*:\s*([A-Za-z0-9_:]+)\s*,', m.group(1)):
        v = fm.group(2)
        if v == 'u32::MAX':
            val = 4294967295
        elif re.fullmatch(r'[0-9_]+', v):
            val = int(v.replace('_', ''))
        else:
            raise Missing(f"Class::default field {fm.group(1)} = {v}")
        defaults.append(f"({coq_string(fm.group(1))}, {val})")
    facts.append("Definition class_defaults : list (string * N) := [" + '; '.join(defaults) + "].")

    m = re.search(r'const\s+SOURCE_FILE_PREFIX\s*:\s*&\[u8;\s*(\d+)\]\s*=\s*br(#*)"(.*?)"\2\s*;', mapping, re.S)
    if not m:
        raise Missing("SOURCE_FILE_PREFIX")
    pb = m.group(3).encode('utf-8')
    if len(pb) != int(m.group(1)):
        raise Missing("SOURCE_FILE_PREFIX length annotation")
    facts.append(f"Definition source_file_prefix : list N := {coq_bytes(pb)}.")

    m = re.search(r'fn\s+java_base_types\s*\([^)]*\)[^{]*\{\s*match\s+\w+\s*\{(.*?)\n\s*\}\s*\}', java, re.S)
    if not m:
        raise Missing("java_base_types")
    prims = []
    for pm in re.finditer(r"'(.)'\s*=>\s*Some\(\"([a-z]+)\"\)", m.group(1)):
        prims.append((ord(pm.group(1)), pm.group(2).encode()))
    if not prims or not re.search(r'_\s*=>\s*None', m.group(1)):
        raise Missing("java_base_types arms")
    facts.append("Definition jvm_primitives : list (N * list N) := [" +
                 '; '.join(f"({c}, {coq_bytes(s)})" for c, s in prims) + "].")

    m = re.search(r'fn\s+is_valid\s*\(&self\)\s*->\s*bool\s*\{(.*?)\n    \}', mapping, re.S)
    if not m:
        raise Missing("is_valid")
    tm = re.search(r'self\.iter\(\)\.take\((\d+)\)', m.group(1))
    if not tm:
        raise Missing("is_valid: self.iter().take(N)")
    facts.append(f"Definition is_valid_window : N := {int(tm.group(1))}.")

    # string constants compared against in the remapping code
    def lits(src, pat, what):
        found = sorted(set(re.findall(pat, src)))
        if not found:
            raise Missing(what)
        return found
    synth = set(lits(mapper, r'file_name\s*==\s*"([^"]*)"', "synthetic class literal (mapper.rs)")) | \
        set(lits(cmod, r'file_name\s*==\s*"([^"]*)"', "synthetic class literal (cache/mod.rs)"))
    facts.append("Definition synthetic_file_names : list (list N) := [" +
                 '; '.join(coq_bytes(s.encode()) for s in sorted(synth)) + "].")
    caused = set(lits(mapper, r'strip_prefix\("([^"]*)"\)', "cause prefix (mapper.rs)")) | \
        set(lits(cmod, r'strip_prefix\("([^"]*)"\)', "cause prefix (cache/mod.rs)")) | \
        set(lits(stack, r'strip_prefix\("([^"]*)"\)', "cause prefix (stacktrace.rs)")) | \
        set(lits(mapper, r'writeln!\(stacktrace,\s*"([^"{]*)\{\}",\s*cause\)', "cause prefix in format_cause")) | \
        set(lits(stack, r'write!\(f,\s*"([^"{]+)\{\}",\s*cause\)', "cause prefix in Display"))
    facts.append("Definition cause_prefixes : list (list N) := [" +
                 '; '.join(coq_bytes(s.encode()) for s in sorted(caused)) + "].")
    srcfile_keys = set(lits(mapper, r'key\s*==\s*"([^"]*)"', "sourceFile key (mapper.rs)")) | \
        set(lits(raw, r'key\s*==\s*"([^"]*)"', "sourceFile key (cache/raw.rs)")) | \
        set(lits(mapping, r'key:\s*"([^"]*)"', "sourceFile key (mapping.rs)"))
    facts.append("Definition source_file_keys : list (list N) := [" +
                 '; '.join(coq_bytes(s.encode()) for s in sorted(srcfile_keys)) + "].")

    # C20: interior mutability / non-Send/Sync ingredients in the library sources
    pat = re.compile(r'\b(Cell|RefCell|OnceCell|Mutex|RwLock|Atomic[A-Z][A-Za-z0-9]*|Rc|UnsafeCell|thread_local|static\s+mut)\b')
    hits = []
    for name, src in (("mapper.rs", mapper), ("cache/raw.rs", raw), ("cache/mod.rs", cmod),
                      ("mapping.rs", mapping), ("stacktrace.rs", stack), ("java.rs", java)):
        # the uuid namespace lazy_static is a Sync, initialise-once static
        for h in pat.finditer(src):
            hits.append(f"{name}:{h.group(1)}")
    facts.append("Definition interior_mutability_found : bool := " + ("true" if hits else "false") + ".")
    facts.append("(* interior mutability scan hits: " + (', '.join(hits) if hits else 'none') + " *)")

    text = ("(* GENERATED by tools/extract_facts.py from /repo/src on every run — do not edit. *)\n"
            "From Coq Require Import List NArith String.\nImport ListNotations.\nOpen Scope N_scope.\nOpen Scope string_scope.\n\n"
            + '\n'.join(facts) + '\n')
    os.makedirs(os.path.dirname(OUT), exist_ok=True)
    old = None
    if os.path.exists(OUT):
        with open(OUT, encoding='utf-8') as f:
            old = f.read()
    if old != text:
        with open(OUT, 'w', encoding='utf-8') as f:
            f.write(text)
        print("Extracted.v rewritten")
    else:
        print("Extracted.v unchanged")


if __name__ == '__main__':
    try:
        main()
    except Missing as e:
        print(f"TRANSLATOR-OBLIGATION-BROKEN: {e}")
        sys.exit(2)
