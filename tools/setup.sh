#!/bin/sh
# setup: build the whole framework from files on disk (offline).
set -e
cd "$(dirname "$0")/.."
export CARGO_NET_OFFLINE=true
(cd harness && [ -f Cargo.lock ] || cp /repo/Cargo.lock Cargo.lock; cargo build --release --offline 2>&1 | tail -1)
python3 tools/extract_facts.py
cd coq
coq_makefile -f _CoqProject -o Makefile >/dev/null
timeout 3000 make -j16
cd ..
python3 - <<'PY'
import sys
sys.path.insert(0, "tools")
import vcheck
print("driver:", vcheck.step_driver())
print("harness:", vcheck.step_harness())
PY
