#!/bin/sh
# setup: build the whole framework from files on disk (offline).
set -e
cd "$(dirname "$0")/.."
export CARGO_NET_OFFLINE=true
python3 tools/extract_facts.py
cd coq
coq_makefile -f _CoqProject -o Makefile >/dev/null
timeout 3000 make -j16
cd ..
python3 - <<'PY'
import sys
sys.path.insert(0, "tools")
import vcheck
print("driver:", vcheck.step_driver())
print("harness:", vcheck.step_harness())
PY
