#!/usr/bin/env python3
"""vcheck.py <ID> [--tier quick|thorough] [--replay FILE]

Runner of every check (DESIGN.md §3.3/§4):
  1. translator: regenerate coq/gen/Extracted.v from /repo/src
  2. build the Coq closure of the property's theorem file; Print Assumptions must be closed
  3. audit: no Admitted / Axiom / ... anywhere in the development
  4. rebuild the extracted model driver and the Rust harness (against /repo's working tree)
  5. corpus cases, then generated cases: implementation vs model vs specification
  6. decide, write evidence/<ID>.json, print VIOLATION / KNOWN-FINDING lines
"""
import fcntl
import hashlib
import json
import os
import re
import shutil
import subprocess
import sys
import time

ROOT = os.path.dirname(os.path.dirname(os.path.abspath(__file__)))
BUILD = os.path.join(ROOT, "build")
COQ = os.path.join(ROOT, "coq")
sys.path.insert(0, os.path.join(ROOT, "tools"))
import registry  # noqa: E402

ENV = dict(os.environ, CARGO_NET_OFFLINE="true", CARGO_TERM_COLOR="never")


def sh(cmd, cwd=None, timeout=3600, stdin=None, env=None):
    p = subprocess.run(cmd, cwd=cwd, stdout=subprocess.PIPE, stderr=subprocess.STDOUT, timeout=timeout,
                       input=stdin, env=env or ENV, shell=isinstance(cmd, str))
    return p.returncode, p.stdout.decode("utf-8", "replace")


class Lock:
    def __init__(self, name):
        os.makedirs(BUILD, exist_ok=True)
        self.path = os.path.join(BUILD, name + ".lock")

    def __enter__(self):
        self.f = open(self.path, "w")
        fcntl.flock(self.f, fcntl.LOCK_EX)

    def __exit__(self, *a):
        fcntl.flock(self.f, fcntl.LOCK_UN)
        self.f.close()


class Broken(Exception):
    """a proof / translator / build obligation that no longer checks"""

    def __init__(self, what, detail=""):
        super().__init__(what)
        self.what = what
        self.detail = detail


# ---------------------------------------------------------------- steps 1-4
def step_translator():
    rc, out = sh([sys.executable, os.path.join(ROOT, "tools", "extract_facts.py")])
    if rc != 0:
        raise Broken("translator obligation (tools/extract_facts.py)", out.strip())
    return out.strip()


def ensure_makefile():
    mk = os.path.join(COQ, "Makefile")
    cp = os.path.join(COQ, "_CoqProject")
    if not os.path.exists(mk) or os.path.getmtime(mk) < os.path.getmtime(cp):
        rc, out = sh(["coq_makefile", "-f", "_CoqProject", "-o", "Makefile"], cwd=COQ)
        if rc != 0:
            raise Broken("coq_makefile", out)


def step_coq(prop):
    """build the .vo closure of the property file and read Print Assumptions of its theorems"""
    info = registry.PROPS[prop]
    target = f"theories/Prop{prop}.vo"
    with Lock("coq"):
        ensure_makefile()
        rc, out = sh(f"timeout 1500 make -j16 {target}", cwd=COQ, timeout=1600)
        if rc != 0:
            m = re.findall(r'File "([^"]+)", line (\d+).*?\n(Error:.*?)(?:\n\n|\Z)', out, re.S)
            detail = "; ".join(f"{f}:{l}: {e.splitlines()[0]} {' '.join(e.splitlines()[1:3])}" for f, l, e in m) or out[-800:]
            raise Broken(f"Coq build of {target}", detail)
        theorems = info["theorems"]
        adir = os.path.join(BUILD, "assum")
        os.makedirs(adir, exist_ok=True)
        src = os.path.join(adir, f"Assum{prop}.v")
        with open(src, "w") as f:
            f.write(f"From PG Require Import Prop{prop}.\n")
            for t in theorems:
                f.write(f'Print Assumptions {t}.\n')
        rc, out = sh(["timeout", "300", "coqc", "-noglob", "-Q", os.path.join(COQ, "theories"), "PG", "-Q",
                      os.path.join(COQ, "gen"), "PG.Gen", src], cwd=adir)
        if rc != 0:
            raise Broken(f"Print Assumptions for {prop}", out[-800:])
    blocks = [b.strip() for b in re.split(r'\n(?=Closed under|Axioms:)', "\n" + out.strip()) if b.strip()]
    closed = sum(1 for b in blocks if b.startswith("Closed under the global context"))
    axioms = [b for b in blocks if b.startswith("Axioms:")]
    allowed = info.get("allowed_axioms", [])
    bad = []
    for a in axioms:
        names = re.findall(r'^\s*([A-Za-z_][\w.\']*)\s*:', a, re.M)
        for n in names:
            if n not in allowed:
                bad.append(n)
    if bad or closed + len(axioms) != len(theorems):
        raise Broken(f"Print Assumptions of Prop{prop}: {len(theorems)} theorems, {closed} closed, axioms {bad}", out[-800:])
    return {"theorems": theorems, "closed": closed, "axioms": sorted(set(re.findall(r'^\s*([A-Za-z_][\w.\']*)\s*:', "\n".join(axioms), re.M)))}


def step_coqchk(prop):
    """thorough tier: independent re-check of the compiled closure of the property file"""
    with Lock("coq"):
        rc, out = sh(["timeout", "1500", "coqchk", "-silent", "-o", "-Q", "theories", "PG", "-Q", "gen", "PG.Gen",
                      f"PG.Prop{prop}"], cwd=COQ, timeout=1600)
    if rc != 0:
        raise Broken(f"coqchk of Prop{prop}", out[-600:])
    report = {}
    for key, pat in (("axioms", r'\* Axioms:(.*?)(?=\n\* |\Z)'), ("type_in_type", r'type-in-type:(.*?)(?=\n\* |\Z)'),
                     ("unsafe_fixpoints", r'unsafe \(co\)fixpoints:(.*?)(?=\n\* |\Z)'),
                     ("assumed_positivity", r'positivity is assumed:(.*?)(?=\n\* |\Z)')):
        m = re.search(pat, out, re.S)
        report[key] = " ".join(m.group(1).split()) if m else "?"
    bad = {k: v for k, v in report.items() if v != "<none>"}
    if bad:
        raise Broken(f"coqchk of Prop{prop} reports {bad}", out[-600:])
    return report


AUDIT_PAT = re.compile(
    r'\b(Admitted|admit|Axiom|Axioms|Parameter|Parameters|Conjecture|Conjectures|Admit Obligations)\b'
    r'|Unset\s+Guard\s+Checking|Unset\s+Positivity\s+Checking|Unset\s+Universe\s+Checking|bypass_check|type-in-type|impredicative-set')
TOPLEVEL_VAR = re.compile(r'^\s*(Variable|Variables|Hypothesis|Hypotheses|Context)\b')


def strip_coq_comments(src):
    out, depth, i = [], 0, 0
    while i < len(src):
        if src.startswith("(*", i):
            depth += 1
            i += 2
        elif src.startswith("*)", i) and depth:
            depth -= 1
            i += 2
        else:
            if depth == 0:
                out.append(src[i])
            elif src[i] == "\n":
                out.append("\n")
            i += 1
    return "".join(out)


def step_audit():
    problems = []
    files = []
    for d in ("theories", "gen"):
        for fn in sorted(os.listdir(os.path.join(COQ, d))):
            if fn.endswith(".v"):
                files.append(os.path.join(COQ, d, fn))
    files.append(os.path.join(ROOT, "model", "Extract.v"))
    for path in files:
        src = strip_coq_comments(open(path, encoding="utf-8").read())
        section = 0
        for ln, line in enumerate(src.splitlines(), 1):
            if re.match(r'^\s*Section\b', line):
                section += 1
            if re.match(r'^\s*End\b', line) and section:
                section -= 1
            if AUDIT_PAT.search(line):
                problems.append(f"{os.path.relpath(path, ROOT)}:{ln}: {line.strip()}")
            if section == 0 and TOPLEVEL_VAR.match(line):
                problems.append(f"{os.path.relpath(path, ROOT)}:{ln}: {line.strip()} (outside a section)")
    cp = open(os.path.join(COQ, "_CoqProject")).read()
    if re.search(r'type-in-type|impredicative-set|-vos|-vok', cp):
        problems.append("_CoqProject passes a forbidden flag")
    if problems:
        raise Broken("audit (Admitted/Axiom/flags)", "; ".join(problems[:10]))
    return len(files)


def file_hash(paths):
    h = hashlib.sha256()
    for p in paths:
        with open(p, "rb") as f:
            h.update(f.read())
    return h.hexdigest()


def step_driver():
    """extract the model to OCaml and compile the driver (only when a model file changed)"""
    mdir = os.path.join(BUILD, "model")
    os.makedirs(mdir, exist_ok=True)
    with Lock("driver"):
        with Lock("coq"):
            ensure_makefile()
            rc, out = sh("timeout 1500 make -j16 " + " ".join(registry.MODEL_VOS), cwd=COQ, timeout=1600)
            if rc != 0:
                raise Broken("Coq build of the model files", out[-800:])
        srcs = [os.path.join(ROOT, "model", "Extract.v"), os.path.join(ROOT, "model", "driver.ml")] + \
               [os.path.join(COQ, v.replace(".vo", ".v")) for v in registry.MODEL_VOS]
        stamp = os.path.join(mdir, "stamp")
        hv = file_hash(srcs)
        if os.path.exists(stamp) and open(stamp).read() == hv and os.path.exists(os.path.join(mdir, "driver")):
            return "cached"
        shutil.copy(os.path.join(ROOT, "model", "Extract.v"), mdir)
        shutil.copy(os.path.join(ROOT, "model", "driver.ml"), mdir)
        rc, out = sh(["timeout", "600", "coqc", "-noglob", "-Q", os.path.join(COQ, "theories"), "PG", "-Q",
                      os.path.join(COQ, "gen"), "PG.Gen", "Extract.v"], cwd=mdir)
        if rc != 0:
            raise Broken("extraction (model/Extract.v)", out[-800:])
        rc, out = sh("timeout 600 ocamlfind ocamlopt -O3 -w -a -package str model.mli model.ml driver.ml -o driver", cwd=mdir)
        if rc != 0:
            raise Broken("OCaml build of the model driver", out[-800:])
        with open(stamp, "w") as f:
            f.write(hv)
        return "rebuilt"


def step_harness():
    hdir = os.path.join(ROOT, "harness")
    with Lock("cargo"):
        lock = os.path.join(hdir, "Cargo.lock")
        if not os.path.exists(lock):
            shutil.copy("/repo/Cargo.lock", lock)
        rc, out = sh("timeout 1500 cargo build --release --offline", cwd=hdir, timeout=1600)
        if rc != 0:
            errs = re.findall(r'^error.*?(?=^\S|\Z)', out, re.M | re.S)
            raise Broken("harness build against /repo", " | ".join(e.strip().replace("\n", " ")[:300] for e in errs[:3]) or out[-800:])
    return os.path.join(BUILD, "target", "release", "vharness")


def step_harness_debug():
    """the same harness in cargo's dev profile (no optimisation): stack-depth probes only (registry.extra_checks)"""
    hdir = os.path.join(ROOT, "harness")
    with Lock("cargo"):
        rc, out = sh("timeout 1500 cargo build --offline", cwd=hdir, timeout=1600)
        if rc != 0:
            raise Broken("unoptimised harness build against /repo", out[-800:])
    return os.path.join(BUILD, "target", "debug", "vharness")


# ---------------------------------------------------------------- step 5
def _run_model_one(text):
    rc, out = sh("ulimit -s unlimited 2>/dev/null; exec " + os.path.join(BUILD, "model", "driver"),
                 stdin=text.encode(), timeout=3000)
    if rc != 0:
        raise Broken("model driver crashed", out[-400:])
    return out.split("\n")


def run_model(cases_text, jobs=None):
    """Runs the extracted model on the cases.  The driver's only state is the current mapping (M) or
    buffer (X), so the case list is cut at M / X lines into contiguous chunks that are answered by
    parallel driver processes; the answers are concatenated in order (one answer line per case line)."""
    lines = cases_text.split("\n")
    if lines and lines[-1] == "":
        lines.pop()
    jobs = jobs or int(os.environ.get("VERIF_MODEL_JOBS", "12"))
    # sweep blocks (E1/E5/E6 <block>) are stateless and heavy: weighted, and a cut may precede them
    # (the generators put them where no mapping-dependent operation follows without a new M line)
    weight = lambda l: 40_000 if re.match(r'E\d ', l) else len(l) + 1
    total = sum(weight(l) for l in lines)
    if jobs <= 1 or total < 200_000:
        return _run_model_one(cases_text)
    target = total // (jobs * 4) + 1
    # a cut is allowed before an M / X line, and before a stateless operation when only stateless
    # operations follow up to the next M / X line (so no operation is separated from its mapping)
    free = {"R", "FR", "TH", "HU", "HT", "HL", "HC", "HP", "HN", "HB", "HE", "HD", "HW", "A", "V", "E1", "E5", "E6", "NOP"}
    is_ctx = lambda l: l.startswith("M ") or l.startswith("X ")
    safe = [False] * (len(lines) + 1)
    safe[len(lines)] = True
    for i in range(len(lines) - 1, -1, -1):
        l = lines[i]
        if is_ctx(l):
            safe[i] = True
        else:
            safe[i] = l.split(" ", 1)[0] in free and safe[i + 1]
    chunks, cur, size = [], [], 0
    for i, l in enumerate(lines):
        if safe[i] and size >= target:
            chunks.append(cur)
            cur, size = [], 0
        cur.append(l)
        size += weight(l)
    if cur:
        chunks.append(cur)
    from concurrent.futures import ThreadPoolExecutor
    with ThreadPoolExecutor(max_workers=jobs) as ex:
        outs = list(ex.map(lambda c: _run_model_one("\n".join(c) + "\n"), chunks))
    res = []
    for c, o in zip(chunks, outs):
        if o and o[-1] == "":
            o = o[:-1]
        if len(o) != len(c):
            raise Broken("model driver answered %d lines for %d cases" % (len(o), len(c)), "")
        res += o
    return res + [""]


def run_impl(harness, cases_text, mode="run"):
    p = subprocess.run([harness] + mode.split(), input=cases_text.encode(), stdout=subprocess.PIPE,
                       stderr=subprocess.PIPE, timeout=7200, env=ENV)
    return p.returncode, p.stdout.decode("utf-8", "replace").split("\n"), p.stderr.decode("utf-8", "replace")


def kv(line):
    d = {}
    for part in line.split(";"):
        if "=" in part:
            k, v = part.split("=", 1)
            d[k] = v
    return d


def corpus_cases(prop):
    d = os.path.join(ROOT, "corpus", prop)
    text = []
    if os.path.isdir(d):
        for fn in sorted(os.listdir(d)):
            if fn.endswith(".cases"):
                text += [l for l in open(os.path.join(d, fn)).read().split("\n") if l and not l.startswith("//")]
    return text


def context_of(cases, idx):
    """the M / X line governing case idx"""
    for j in range(idx, -1, -1):
        if cases[j].startswith("M ") or cases[j].startswith("X "):
            return j
    return None


def write_replay(prop, seed, n, cases, idx, impl, model, why, extra=None):
    os.makedirs(os.path.join(ROOT, "replays"), exist_ok=True)
    path = os.path.join(ROOT, "replays", f"{prop}-{seed}-{n}.json")
    ctx = context_of(cases, idx)
    lines = ([cases[ctx]] if ctx is not None and ctx != idx else []) + [cases[idx]]
    rep = {"property": prop, "why": why, "cases": lines, "implementation": impl, "model": model,
           "replay_cmd": f"python3 tools/vcheck.py {prop} --replay {os.path.relpath(path, ROOT)}"}
    if extra:
        rep.update(extra)
    with open(path, "w") as f:
        json.dump(rep, f, indent=1)
    return path


def unhex(tok):
    try:
        return bytes.fromhex(tok[1:]).decode("utf-8", "replace")
    except Exception:
        return tok


def describe(line):
    toks = line.split(" ")
    return toks[0] + " " + " ".join(repr(unhex(t)) if t.startswith("x") else t for t in toks[1:])


def shrink(prop, harness, cases, idx, checker):
    """line-wise shrinking of the mapping of a failing case while it keeps failing"""
    ctx = context_of(cases, idx)
    if ctx is None or ctx == idx or not cases[ctx].startswith("M "):
        return None
    try:
        mapping = bytes.fromhex(cases[ctx][3:])
    except ValueError:
        return None
    op = cases[idx]

    info = registry.PROPS[prop]
    mode = info.get("modes", ["run"])[0]

    def fails(mbytes):
        mline = "M x" + mbytes.hex()
        text = mline + "\n" + op + "\n"
        rc, impl, _ = run_impl(harness, text, mode)
        if info.get("model_lines"):
            model = run_model("\n".join(info["model_lines"](c) for c in (mline, op)) + "\n")
        else:
            model = run_model(text) if info.get("model", True) else ["", "", ""]
        if len(impl) < 2 or len(model) < 2:
            return False
        ctx = {"mode": mode, "mapping": mbytes, "mapping_line": mline,
               "stats": {"evaluations": 0, "nontrivial": set(), "ops": {}, "kinds": {}}}
        return bool(checker(prop, op, impl[1], model[1], ctx))

    parts = re.split(rb'(?<=\n)', mapping)
    if len(parts) > 400 or not fails(mapping):
        return None
    changed = True
    rounds = 0
    while changed and rounds < 6:
        changed = False
        rounds += 1
        i = 0
        while i < len(parts):
            cand = parts[:i] + parts[i + 1:]
            if cand and fails(b"".join(cand)):
                parts = cand
                changed = True
            else:
                i += 1
    return ["M x" + b"".join(parts).hex(), op]


def step_correspondence(prop, tier, seed, harness, replay=None):
    info = registry.PROPS[prop]
    t0 = time.time()
    if replay:
        rep = json.load(open(replay))
        cases = rep["cases"]
        ncorpus = 0
    else:
        cases = corpus_cases(prop)
        ncorpus = len(cases)
        rc, out = sh([harness, "gen", info.get("gen", prop), str(seed), tier], timeout=3600)
        if rc != 0:
            raise Broken("case generator", out[-400:])
        cases += [l for l in out.split("\n") if l]
    text = "\n".join(cases) + "\n"
    results = {}
    for mode in info.get("modes", ["run"]):
        rc, impl, err = run_impl(harness, text, mode)
        results[mode] = (rc, impl, err)
    if info.get("model_lines"):
        # only some operations are answered by the model (the others are replaced by a no-op)
        model = run_model("\n".join(info["model_lines"](c) for c in cases) + "\n")
    else:
        model = run_model(text) if info.get("model", True) else [""] * (len(cases) + 1)
    stats = {"evaluations": 0, "nontrivial": set(), "ops": {}, "kinds": {}, "corpus_cases": ncorpus}
    failures = []
    cur_mapping = None
    for mode, (rc, impl, err) in results.items():
        if rc != 0 or len(impl) < len(cases):
            # the harness process died: find the first case without an answer
            k = min(len(impl) - 1, len(cases) - 1)
            failures.append((max(k, 0), f"implementation runner ({mode}) died with status {rc}: {err.strip()[-300:]}", "", ""))
            continue
        for i, c in enumerate(cases):
            if c.startswith("M "):
                cur_mapping = c
                continue
            op = c.split(" ", 1)[0]
            stats["evaluations"] += 1
            stats["ops"][op] = stats["ops"].get(op, 0) + 1
            ml = model[i] if i < len(model) else ""
            probs = registry.check_case(prop, c, impl[i], ml, {"mode": mode, "mapping_line": cur_mapping, "stats": stats})
            if probs:
                failures.append((i, "; ".join(probs), impl[i], ml))
    # a differing E1 digest is expanded into its explicit cases to find the concrete input
    expanded = 0
    for (i, why, il, ml) in list(failures):
        if cases[i].startswith("E1 ") and il.startswith("dg=") and expanded < 3:
            expanded += 1
            rc, out = sh([harness, "expand", "E1", cases[i].split(" ")[1]], timeout=600)
            sub = [l for l in out.split("\n") if l]
            stext = "\n".join(sub) + "\n"
            rc2, simpl, _ = run_impl(harness, stext)
            smodel = run_model(stext)
            cm = None
            for j, c in enumerate(sub):
                if c.startswith("M "):
                    cm = c
                    continue
                if j >= len(simpl) or j >= len(smodel):
                    break
                pr = registry.check_case(prop, c, simpl[j], smodel[j], {"mode": "run", "mapping_line": cm, "stats": {"evaluations": 0, "nontrivial": set(), "ops": {}, "kinds": {}}})
                if pr:
                    base = len(cases)
                    cases += [cm, c]
                    first = info.get("modes", ["run"])[0]
                    results[first][1][base:base] = []  # keep list object
                    while len(results[first][1]) < base:
                        results[first][1].append("")
                    results[first][1][base:] = ["M", simpl[j]]
                    while len(model) < base:
                        model.append("")
                    model[base:] = ["M", smodel[j]]
                    failures.append((base + 1, "E1 block %s: %s" % (cases[i].split(" ")[1], "; ".join(pr)), simpl[j], smodel[j]))
                    break
    if info.get("validate_bytes"):
        # C09: the independent layout decoder (extracted from Layout.v) on the IMPLEMENTATION's bytes
        rc0, impl0, _ = results[info.get("modes", ["run"])[0]]
        vidx, vlines = [], []
        for i, c in enumerate(cases):
            if c == "W" and i < len(impl0):
                wv = kv(impl0[i]).get("w", "")
                # the extracted decoder is quadratic (7 min for 540 kB): files up to 300 kB are decoded
                if wv.startswith("x") and len(wv) <= 600_000:
                    vidx.append(i)
                    vlines.append("V " + wv)
        if vlines:
            vout = run_model("\n".join(vlines) + "\n")
            bad = 0
            for i, o in zip(vidx, vout):
                stats["kinds"]["layout_ok" if o == "ok=1" else "layout_bad"] = stats["kinds"].get("layout_ok" if o == "ok=1" else "layout_bad", 0) + 1
                if o != "ok=1":
                    bad += 1
                    failures.append((i, "the written bytes do not decode under the documented layout (independent decoder layout_ok)", impl0[i][:400], o))
    primary = results[info.get("modes", ["run"])[0]][1]
    return cases, primary, model, failures, stats, time.time() - t0


# ---------------------------------------------------------------- known findings
def known_findings():
    path = os.path.join(ROOT, "KNOWN_FINDINGS.txt")
    known = []
    if os.path.exists(path):
        for line in open(path):
            line = line.strip()
            m = re.match(r'known:\s+property=(\S+)\s+class=(\S+)\s+(.*)', line)
            if m:
                known.append({"property": m.group(1), "class": m.group(2), "what": m.group(3)})
    return known


# ---------------------------------------------------------------- main
def main():
    args = sys.argv[1:]
    if not args:
        print(__doc__)
        sys.exit(2)
    prop = args[0]
    tier = os.environ.get("VERIF_TIER", "quick")
    replay = None
    i = 1
    while i < len(args):
        if args[i] == "--tier":
            tier = args[i + 1]
            i += 2
        elif args[i] == "--replay":
            replay = args[i + 1]
            i += 2
        else:
            i += 1
    seed = int(os.environ.get("VERIF_SEED", "1"))
    if prop not in registry.PROPS:
        print(f"unknown property {prop}")
        sys.exit(2)
    info = registry.PROPS[prop]
    t0 = time.time()
    broken = []
    proof = {"theorems": info["theorems"], "closed": 0, "axioms": []}
    notes = []
    harness = None
    try:
        harness = step_harness()
    except Broken as e:
        broken.append(e)
    try:
        notes.append(step_translator())
    except Broken as e:
        broken.append(e)
    if not any("translator" in b.what for b in broken):
        try:
            proof = step_coq(prop)
        except Broken as e:
            broken.append(e)
        try:
            nfiles = step_audit()
            notes.append(f"audit: {nfiles} files clean")
        except Broken as e:
            broken.append(e)
        if tier == "thorough" and not broken and not replay:
            try:
                notes.append("coqchk: " + json.dumps(step_coqchk(prop)))
            except Broken as e:
                broken.append(e)
    try:
        notes.append("driver " + step_driver())
    except Broken as e:
        broken.append(e)

    failures, cases, impl, model, stats, corr_s = [], [], [], [], {"evaluations": 0, "nontrivial": set(), "ops": {}, "kinds": {}, "corpus_cases": 0}, 0.0
    search_note = ""
    if harness and os.path.exists(os.path.join(BUILD, "model", "driver")):
        # when an obligation is broken the search runs with a larger budget (thorough tier: the thorough budget)
        eff_tier = ("thorough" if tier == "thorough" else "search") if (broken and not replay) else tier
        try:
            cases, impl, model, failures, stats, corr_s = step_correspondence(prop, eff_tier, seed, harness, replay)
            if broken:
                search_note = f"search at {eff_tier} budget: {stats['evaluations']} cases"
        except Broken as e:
            broken.append(e)
        except subprocess.TimeoutExpired as e:
            broken.append(Broken("correspondence run timed out", str(e)))
    # special, property-specific extra checks (subprocess probes etc.)
    extra_lines = []
    if harness and not replay:
        try:
            if prop in registry.DEBUG_PROBE_PROPS:
                step_harness_debug()
            extra_failures, extra_lines, extra_stats = registry.extra_checks(prop, tier, seed, harness, sh)
            for ef in extra_failures:
                failures.append(ef)
            for k, v in extra_stats.items():
                stats["kinds"][k] = v
        except Broken as e:
            broken.append(e)

    known = [k for k in known_findings() if k["property"] == prop]
    violations = 0
    out_lines = []
    reported_classes = set()
    nrep = 0
    corr_only = []
    for item in failures:
        idx, why, il, ml = item[0], item[1], item[2], item[3]
        cls = registry.classify(prop, cases[idx] if isinstance(idx, int) and idx < len(cases) else "", why)
        kn = [k for k in known if k["class"] == cls]
        if kn:
            if cls not in reported_classes:
                reported_classes.add(cls)
                out_lines.append(f"KNOWN-FINDING: property={prop} {kn[0]['what']}")
            continue
        if why and all(part.startswith(registry.CORR) for part in why.split("; ") if part):
            # implementation and model differ, but none of the property's own clauses fails on this input
            corr_only.append((idx, why, il, ml))
            continue
        violations += 1
        if nrep < 5:
            nrep += 1
            extra = None
            if isinstance(idx, int) and idx < len(cases) and harness and not replay and not os.environ.get("VERIF_NO_SHRINK"):
                try:
                    small = shrink(prop, harness, cases, idx, registry.check_case)
                    if small:
                        extra = {"shrunk_cases": small, "shrunk_readable": [describe(x) for x in small]}
                except Exception as e:  # shrinking is best effort
                    extra = {"shrink_error": str(e)}
            if isinstance(idx, int) and idx < len(cases):
                path = write_replay(prop, seed, nrep, cases, idx, il, ml, why, extra)
            else:
                os.makedirs(os.path.join(ROOT, "replays"), exist_ok=True)
                path = os.path.join(ROOT, "replays", f"{prop}-{seed}-x{nrep}.json")
                json.dump({"property": prop, "why": why, "detail": il}, open(path, "w"), indent=1)
            out_lines.append(f"VIOLATION property={prop} replay={os.path.relpath(path, ROOT)}")
    if corr_only:
        # the correspondence no longer checks: reported once, with the first differing cases as the replay
        os.makedirs(os.path.join(ROOT, "replays"), exist_ok=True)
        path = os.path.join(ROOT, "replays", f"{prop}-{seed}-correspondence.json")
        first = []
        for (idx, why, il, ml) in corr_only[:5]:
            ctxi = context_of(cases, idx) if isinstance(idx, int) and idx < len(cases) else None
            first.append({"case": cases[idx] if isinstance(idx, int) and idx < len(cases) else str(idx),
                          "context": cases[ctxi][:20000] if ctxi is not None and ctxi != idx else None,
                          "why": why, "implementation": il[:2000], "model": ml[:2000]})
        json.dump({"property": prop, "broken_correspondence": "implementation and model differ on %d cases; none of them "
                   "violates a clause of the property itself" % len(corr_only), "first_cases": first,
                   "search": "no failing input found by the generators and corpus of this property"}, open(path, "w"), indent=1)
        out_lines.append(f"VIOLATION property={prop} replay={os.path.relpath(path, ROOT)} no-failing-input-found")
        violations += 1
    if broken and violations == 0:
        os.makedirs(os.path.join(ROOT, "replays"), exist_ok=True)
        path = os.path.join(ROOT, "replays", f"{prop}-{seed}-obligation.json")
        json.dump({"property": prop, "broken_obligations": [{"what": b.what, "detail": b.detail} for b in broken],
                   "search": search_note or "no failing input found by the generators and corpus of this property"},
                  open(path, "w"), indent=1)
        out_lines.append(f"VIOLATION property={prop} replay={os.path.relpath(path, ROOT)} no-failing-input-found")
        violations += 1
    for b in broken:
        print(f"BROKEN-OBLIGATION: {b.what}: {b.detail[:500]}")

    # ---- evidence
    samples = []
    for i, c in enumerate(cases):
        if not c.startswith("M ") and len(samples) < 4 and i < len(impl):
            ctx = context_of(cases, i)
            samples.append({"case": describe(c)[:300],
                            "context": (describe(cases[ctx])[:300] if ctx is not None and ctx != i else None),
                            "implementation": impl[i][:300], "model": (model[i][:300] if i < len(model) else "")})
    for t in info["theorems"][:3]:
        samples.append({"obligation": t, "file": f"coq/theories/Prop{prop}.v"})
    coverage = {
        "obligations": len(info["theorems"]),
        "discharged": proof["closed"] + len(proof["axioms"]) if not any("Coq" in b.what or "Assumptions" in b.what or "audit" in b.what for b in broken) else 0,
        "checker_cmd": f"make -C coq theories/Prop{prop}.vo && coqc Assum{prop}.v (Print Assumptions of every theorem)",
        "trusted_base": registry.TRUSTED_BASE + info.get("trusted_extra", []),
        "theorems": info["theorems"],
        "axioms_reported": proof["axioms"],
        "statement_status": info.get("status", ""),
        "evaluations": max(stats["evaluations"], 0),
        "distinct_nontrivial": len(stats["nontrivial"]),
        "rule": info.get("rule", ""),
        "samples": samples,
        "ops": stats["ops"],
        "result_kinds": stats["kinds"],
        "corpus_cases": stats["corpus_cases"],
        "correspondence_wall_s": round(corr_s, 2),
        "notes": notes + ([search_note] if search_note else []),
        "extra": extra_lines,
    }
    ev = {"property_id": prop, "tier": tier, "seed": seed, "level": "proof", "coverage": coverage,
          "assumptions": info.get("assumptions", []), "wall_s": round(time.time() - t0, 2), "violations": violations}
    os.makedirs(os.path.join(ROOT, "evidence"), exist_ok=True)
    with open(os.path.join(ROOT, "evidence", f"{prop}.json"), "w") as f:
        json.dump(ev, f, indent=1, default=lambda o: sorted(o) if isinstance(o, set) else str(o))
    for l in out_lines:
        print(l)
    print(f"{prop} {tier}: theorems {proof['closed']}/{len(info['theorems'])} closed; "
          f"{stats['evaluations']} cases, {len(stats['nontrivial'])} distinct non-trivial; "
          f"violations {violations}; {round(time.time() - t0, 1)} s")
    sys.exit(1 if violations else 0)


if __name__ == "__main__":
    main()
