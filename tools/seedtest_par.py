#!/usr/bin/env python3
"""seedtest_par.py <workers> [name ...] — like seedtest.py, but never touches /repo: every worker owns a
scratch git worktree of /repo (/tmp/stp/r<k>) and a scratch copy of /verif (/tmp/stp/v<k>) whose harness
and translator point at that worktree.  Only for measuring which seeded changes the quick checks
catch while /repo must stay untouched (e.g. during a long `vp run`); the registered checks themselves
always run against /repo.  Scratch directories are removed at the end."""
import json, os, subprocess, sys, shutil, threading, queue

ROOT = os.path.dirname(os.path.dirname(os.path.abspath(__file__)))
BASE = "/tmp/stp%d" % os.getpid()
DIR = "seeded"
ALL = None


def sh(cmd, **kw):
    return subprocess.run(cmd, shell=True, stdout=subprocess.PIPE, stderr=subprocess.STDOUT, **kw)


def setup(k):
    r, v = f"{BASE}/r{k}", f"{BASE}/v{k}"
    sh(f"git -C /repo worktree remove --force {r}"); shutil.rmtree(v, ignore_errors=True)
    assert sh(f"git -C /repo worktree add -q {r} HEAD").returncode == 0
    sh(f"mkdir -p {v} && rsync -a --exclude .git --exclude build/target --exclude replays --exclude seeded --exclude harmless {ROOT}/ {v}/")
    for f in ["harness/Cargo.toml", "harness/src/gen.rs", "tools/vcheck.py", "tools/setup.sh"]:
        p = f"{v}/{f}"; s = open(p).read().replace("/repo", r); open(p, "w").write(s)
    return r, v


def worker(k, q, results, tier):
    r, v = setup(k)
    env = dict(os.environ, VERIF_REPO=r, VERIF_NO_SHRINK="1")
    while True:
        try:
            name = q.get_nowait()
        except queue.Empty:
            break
        d = os.path.join(ROOT, DIR, name)
        meta = json.load(open(os.path.join(d, "meta.json")))
        props = ALL or [p for p in meta.get("properties", [meta.get("property")]) if p]
        a = sh(f"git -C {r} apply {d}/patch.diff")
        if a.returncode != 0:
            results[name] = {"error": a.stdout.decode()[-200:]}; print(name, "patch does not apply", flush=True); continue
        res = {}
        for p in props:
            out = sh(f"python3 tools/vcheck.py {p} --tier {tier}", cwd=v, env=env).stdout.decode()
            viol = [l for l in out.splitlines() if l.startswith("VIOLATION")]
            res[p] = {"caught": bool(viol), "lines": viol[:2], "tail": out.strip().splitlines()[-1][:200] if out.strip() else ""}
        sh(f"git -C {r} checkout -- .")
        results[name] = res
        print(name, {p: ("CAUGHT" if x["caught"] else "missed") for p, x in res.items()}, flush=True)
    sh(f"git -C /repo worktree remove --force {r}"); shutil.rmtree(v, ignore_errors=True)


def main():
    tier = "quick"
    args = [a for a in sys.argv[1:] if not a.startswith("--")]
    global DIR, ALL
    for a in sys.argv[1:]:
        if a.startswith("--dir="):
            DIR = a[6:]
        if a == "--all":
            ALL = [c["property_id"] for c in json.load(open(os.path.join(ROOT, "MANIFEST.json")))["checks"]]
        if a.startswith("--props="):
            ALL = a[8:].split(",")
    n = int(args[0]); names = args[1:] or sorted(os.listdir(os.path.join(ROOT, DIR)))
    q = queue.Queue()
    for nm in names:
        q.put(nm)
    results = {}
    os.makedirs(BASE, exist_ok=True)
    ts = [threading.Thread(target=worker, args=(k, q, results, tier)) for k in range(n)]
    [t.start() for t in ts]; [t.join() for t in ts]
    os.makedirs(os.path.join(ROOT, "build"), exist_ok=True)
    json.dump(results, open(os.path.join(ROOT, "build", "seedtest_par_%s.json" % DIR), "w"), indent=1)
    sh("git -C /repo worktree prune"); shutil.rmtree(BASE, ignore_errors=True)


if __name__ == "__main__":
    main()
