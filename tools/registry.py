"""Per-property registry: theorem names, comparison rules, extra probes, finding classes."""
import os
import re

MODEL_VOS = ["theories/Base.vo", "theories/Mapping.vo", "theories/Spec.vo", "theories/Mapper.vo",
             "theories/CacheWriter.vo", "theories/CacheReader.vo", "theories/Stacktrace.vo", "theories/Java.vo",
             "theories/Metadata.vo", "theories/Sink.vo", "theories/Uuid.vo", "theories/Layout.vo", "theories/Domain.vo", "theories/PinnedModel.vo"]

TRUSTED_BASE = [
    "Coq 8.16.1 kernel (coqc), vm_compute for finite checks and witnesses; no native_compute",
    "axioms: none declared; Print Assumptions of every property theorem must be 'Closed under the global context'",
    "translator tools/extract_facts.py (regex reading of constants, struct layouts, literals from /repo/src)",
    "extraction: ExtrOcamlBasic only (bool, option, unit, list, prod, sumbool, sumor -> OCaml types; andb/orb inlined); "
    "N, positive, nat stay Coq datatypes; OCaml 4.13.1; model/driver.ml glue (hex, int<->N, printing)",
    "correspondence check: harness/ (Rust, rebuilt against /repo on every run; overflow-checks, catch_unwind, "
    "8-aligned buffers) and tools/vcheck.py + tools/registry.py (comparison rules)",
    "modelled, not verified: the Rust source (correspondence is sampled), std semantics written into the model "
    "(HashMap/BTreeMap as finite maps, slice::binary_search_by of this toolchain, str::{lines,trim,parse,cmp}, from_utf8, "
    "char::is_numeric, write_all), watto 0.1.0 (Pod casts = LE decode on aligned buffers, StringTable), leb128 0.2.5; "
    "the hand-written std / dependency functions are themselves compared with the real ones (ops HU HT HL HC HP HN HB HE HD HW "
    "in the C04, C06, C07, C09, C12 checks); x86_64 little-endian 64-bit",
]


def kv(line):
    d = {}
    for part in line.split(";"):
        if "=" in part:
            k, v = part.split("=", 1)
            d[k] = v
    return d


def hexbytes(tok):
    return bytes.fromhex(tok[1:]) if tok.startswith("x") else b""


def _eq(probs, what, a, b):
    if a != b:
        probs.append(f"{what}: implementation {a[:200]!r} expected {b[:200]!r}")


def _nontrivial(ctx, case, flag):
    if flag:
        ctx["stats"]["nontrivial"].add(hash((ctx.get("mapping_line"), case)))


def _kind(ctx, k):
    ctx["stats"]["kinds"][k] = ctx["stats"]["kinds"].get(k, 0) + 1


def items_no_terminator(line):
    """C06 clause checked on the implementation's own output: no yielded component contains CR/LF"""
    bad = []
    for it in line.split(";"):
        f = it.split("|")
        if f[0] in ("H", "C", "F", "M"):
            for tok in f[1:]:
                if tok.startswith("x"):
                    b = hexbytes(tok)
                    if b"\n" in b or b"\r" in b:
                        bad.append(it)
    return bad


def check_xver(case, il, ctx, ml=""):
    """C10: files of either release, read by either reader: WrongVersion or identical answers"""
    probs = []
    I = kv(il)
    if il == "WRITE-FAILED":
        return ["a writer failed on a representable mapping"]
    for a, b, who in (("pp", "pc", "file written by the pinned release"), ("cc", "cp", "file written by the current tree")):
        x, y = I.get(a), I.get(b)
        other = y if a == "pp" else y
        if other == "WrongVersion":
            _kind(ctx, "xver:WrongVersion")
            continue
        if x != y:
            pr, cr = I.get('pp' if a == 'pp' else 'cp', ''), I.get('pc' if a == 'pp' else 'cc', '')
            k = next((j for j in range(min(len(pr), len(cr))) if pr[j] != cr[j]), min(len(pr), len(cr)))
            k = max(1, (k - 60) | 1)   # a window around the first difference (odd offset: whole hex bytes after the 'x')
            probs.append(f"{who}: pinned reader {pr[:1] + pr[k:k + 140]!r} current reader "
                         f"{cr[:1] + cr[k:k + 140]!r} (answers shown from offset {k // 2})")
        if "PANIC" in (x or "") or "PANIC" in (y or "") or "ERR:" in (y or ""):
            probs.append(f"{who}: reader failed: {x[:80]} / {y[:80]}")
    if case.split(" ")[0] == "W" and "app" in I:
        # where the file lies in memory must not make the releases disagree about accepting it
        if I.get("app") != I.get("apc"):
            probs.append(f"file written by the pinned release: accepted at addresses modulo 8 by the pinned reader {I.get('app')} / by the current reader {I.get('apc')}")
        if I.get("acp") != I.get("acc"):
            probs.append(f"file written by the current tree: accepted at addresses modulo 8 by the pinned reader {I.get('acp')} / by the current reader {I.get('acc')}")
    if case.split(" ")[0] == "W" and ml and ml != "w=SKIPPED":
        # the bytes each release writes, against the model of that release's writer (Pinned.v / CacheWriter.v)
        Mm = kv(ml)
        if I.get("wc") != Mm.get("w"):
            probs.append(f"bytes written by the current tree differ from the model writer: {I.get('wc', '')[:120]} / {Mm.get('w', '')[:120]}")
        if I.get("wp") != Mm.get("wp"):
            probs.append(f"bytes written by the pinned release differ from the model of the pinned writer (Pinned.v): {I.get('wp', '')[:120]} / {Mm.get('wp', '')[:120]}")
        _kind(ctx, "xver:writer-models")
    ans = I.get("cc", "")
    _nontrivial(ctx, case, ans not in ("~", "[]", "", "none"))
    _kind(ctx, "xver:same-bytes" if I.get("samebytes") == "1" else "xver:bytes-differ")
    return probs


# Properties that do not say "the answer equals the specification's" but constrain the implementation's own
# behaviour (no panic, only a prefix delivered, same bytes twice, same answer under threads, one item per
# byte ...).  For them a difference between implementation and model is a broken CORRESPONDENCE — the
# property is then no longer shown to hold — but not by itself an input on which the property fails; such
# differences are reported once, as `no-failing-input-found`, unless one of the property's own clauses
# (evaluated on the implementation's answers) fails too.
CORRESPONDENCE_PROPS = {"C06", "C12", "C13", "C14", "C15", "C20"}
CORR = "CORRESPONDENCE: "
_MODEL_CMP = re.compile(r"( model |: implementation .* expected |^MODEL-LAYER|record stream differs|digests differ|cache bytes)")


def check_case(prop, case, il, ml, ctx):
    probs = _check_case(prop, case, il, ml, ctx)
    if prop in CORRESPONDENCE_PROPS:
        probs = [(CORR + p) if _MODEL_CMP.search(p) and not p.startswith(CORR) else p for p in probs]
    return probs


def _check_case(prop, case, il, ml, ctx):
    """returns a list of problems (empty = the case agrees)"""
    op = case.split(" ", 1)[0]
    if op in ("KI", "TI", "LI", "PI"):
        op = op[0]     # implementation-only variants: same comparison rules, the model answers SKIPPED
    probs = []
    if ctx.get("mode") == "run-xver":
        return check_xver(case, il, ctx, ml)
    I, M = kv(il), kv(ml)
    expected = [t[1:] for t in case.split(" ")[1:] if t.startswith("=")]
    mode = PROPS[prop].get("oracle", "spec")
    if ml.startswith("MODEL-") or ml.startswith("UNKNOWN-OP"):
        return [f"model driver: {ml}"]
    if op == "DOM":
        ctx["stats"]["cur_dom"] = (ml == "dom=1")
        _kind(ctx, "domain:" + ("representable" if ml == "dom=1" else "outside") + ("" if il == ml else "/generator-disagrees"))
        return []
    if mode == "spec" and PROPS[prop].get("needs_domain", True) and ctx["stats"].get("cur_dom") is False \
            and op in ("K", "T", "L", "P", "S", "Y", "G", "W"):
        # the cache theorems (and hence cache = mapper = spec) are stated on the representable domain only
        _kind(ctx, "skipped:outside-domain")
        return []
    if "PANIC" in (il.replace("test=PANIC", "") if mode == "model" else il):
        probs.append("implementation panicked")
        _kind(ctx, "PANIC")
    if "FMTERR" in il or "WRITEERR" in il:
        probs.append("implementation returned an error")
    if op == "SEC":
        if I.get("sec") != "1":
            probs.append("a section taken after its parent was queried does not behave as the mapping of its own bytes (records, summary, validity, line info or cache bytes differ from a fresh mapping)")
        if I.get("parent") != "1":
            probs.append("taking and using a section changed what the parent mapping writes")
        _nontrivial(ctx, case, True)
        _kind(ctx, "SEC")
        return probs
    if op == "I":
        if il.endswith(";ITERATOR-PROTOCOL"):
            il = il[:-len(";ITERATOR-PROTOCOL")]
            probs.append("nth / skip / step_by / last / count of the record iterator do not walk the stream that next() yields")
        if il != ml:
            probs.append(f"record stream differs: implementation {il[:300]!r} model {ml[:300]!r}")
        for b in items_no_terminator(il):
            probs.append(f"yielded component contains a line terminator: {b[:120]}")
        n_items = 0 if il == "" else il.count(";") + 1
        mlen = (len(ctx["mapping_line"]) - 3) // 2 if ctx.get("mapping_line") else 0
        if n_items > mlen:
            probs.append(f"{n_items} items from {mlen} bytes")
        if expected and expected[0] not in il.split(";"):
            probs.append(f"the printed line's record {expected[0][:160]} is not in the record stream {il[:300]}")
        _nontrivial(ctx, case, "|" in il)
        _kind(ctx, "items:ok" if re.search(r'(^|;)[HCFM]\|', il) else "items:errors-only")
        _kind(ctx, "items:with-error" if "E|" in il else "items:no-error")
    elif op in ("R", "D", "FR", "TH"):
        if il != ml:
            probs.append(f"{op}: implementation {il[:300]!r} model {ml[:300]!r}")
        if expected and il != expected[0]:
            probs.append(f"{op}: implementation {il[:300]!r} but the grammar says {expected[0][:300]!r}")
        _nontrivial(ctx, case, not il.startswith("E|") and il != "~")
        _kind(ctx, op + ":" + (il.split("|", 1)[0] if op == "R" else "x"))
    elif op in ("K", "T", "L", "P", "S", "G"):
        want = M.get("s") if mode == "spec" else None
        for key in ("m", "n", "c", "f"):
            if key not in I:
                continue
            exp = want if want is not None else M.get(key if key not in ("n", "f") or key in M else "m")
            if exp is None or exp == "SKIPPED":
                continue
            _eq(probs, f"{op}/{key}", I[key], exp)
        if mode == "spec":
            # the model's own layers must agree with the specification (model = spec theorems)
            for key in ("m", "n", "c"):
                if key in M and M[key] != M["s"] and M[key] != "SKIPPED" and M["s"] != "SKIPPED":
                    probs.append(f"MODEL-LAYER {key} differs from spec: {M[key][:120]!r} vs {M['s'][:120]!r}")
        if mode == "spec" and "m" in I and "c" in I and I["m"] != I["c"]:
            probs.append(f"{op}: cache answer differs from mapper answer: {I['c'][:160]!r} vs {I['m'][:160]!r}")
        if mode == "spec" and "m" in I and "n" in I and I["m"] != I["n"]:
            probs.append(f"{op}: mapper answers differ with/without parameter index")
        if "m" in I and "f" in I and I["m"] != I["f"]:
            probs.append(f"{op}: the mapper built by From<(&str, bool)> answers {I['f'][:120]!r}, the one built by new_with_param_mapping {I['m'][:120]!r}")
        ans = I.get("m", "")
        _nontrivial(ctx, case, ans not in ("~", "[]", "") and not (op == "S" and ans == case.split(" ")[1]))
        _kind(ctx, f"{op}:" + ("hit" if ans not in ("~", "[]") else "miss"))
    elif op == "Y":
        if il == "none" or ml == "none":
            if il != ml:
                probs.append(f"Y: parse result differs: {il[:100]!r} vs {ml[:100]!r}")
            _kind(ctx, "Y:none")
        else:
            _eq(probs, "Y/depth", I.get("d", ""), M.get("d", ""))
            _eq(probs, "Y/print", I.get("p", ""), M.get("p", ""))
            if mode == "spec":
                _eq(probs, "Y/typed mapper", I.get("m", ""), M.get("s", ""))
                _eq(probs, "Y/typed cache", I.get("c", ""), M.get("s", ""))
                _eq(probs, "Y/text of print", I.get("x", ""), M.get("x", ""))
            # the property's own statement on the implementation
            if mode == "spec" and "m" in I and "/" in I["m"]:
                d, h = I["m"].split("/", 1)
                if d != I.get("d"):
                    probs.append(f"typed remapping changed the cause-chain depth: {I.get('d')} -> {d}")
                if h != I.get("x"):
                    probs.append("printing the typed result differs from the text API on the printed input")
            _nontrivial(ctx, case, I.get("m", "").split("/")[-1] != I.get("p"))
            _kind(ctx, "Y:parsed")
    elif op in ("HU", "HT", "HL", "HC", "HP", "HN", "HB", "HE", "HD", "HW"):
        if il != ml:
            probs.append(f"std semantics {op}: Rust {il[:200]!r} model {ml[:200]!r} on {case[:200]}")
        _kind(ctx, "std:" + op)
    elif op in ("E5", "E6", "E1"):
        if il != ml:
            probs.append(f"{op} block {case.split(' ')[1]}: digests differ: implementation {il} model {ml} "
                         f"(re-run the block verbosely to find the input)")
        ctx["stats"]["evaluations"] += max(int(I.get("n", "1")) - 1, 0)
        _nontrivial(ctx, case, True)
        _kind(ctx, op + ":block")
    elif op in ("Z", "ZI"):
        if ml != "SKIPPED" and il != ml:
            probs.append(f"Z: implementation {il[:160]!r} model {ml[:160]!r}")
        # the property's own two implications on the implementation's answer
        if I.get("r") == "ok" and I.get("full") != "1":
            probs.append("write reported success but the sink did not receive the canonical bytes")
        if I.get("pfx") != "1":
            probs.append("the sink received bytes that are not a prefix of the canonical serialisation")
        first = {}
        for t in case.split(" ")[2:]:
            if ":" in t:
                first.setdefault(int(t.split(":")[0]), t.split(":")[1])
        failed = [i for i, r in first.items() if r == "F"]
        if I.get("r") == "ok" and failed:
            calls = int(I.get("calls", "0"))
            if any(i < calls for i in failed):
                probs.append("a non-retryable sink failure was consumed but write reported success")
        _nontrivial(ctx, case, I.get("r") != "ok" or "max=0" not in case)
        _kind(ctx, "Z:" + I.get("r", "?"))
    elif op == "US":
        if il != ml:
            probs.append(f"US: section uuid {il[:120]!r} but the bytes of the section give {ml[:120]!r}")
        _nontrivial(ctx, case, True)
        _kind(ctx, "US")
    elif op == "U":
        if I.get("u") != M.get("u") or "u" not in I:
            probs.append(f"U: implementation {il!r} independent SHA-1 computation {ml!r}")
        if I.get("inplace", "1") != "1":
            probs.append("U: the uuid of a buffer whose content was replaced in place (same address, same length) is not the uuid of its current bytes")
        _nontrivial(ctx, case, True)
        _kind(ctx, "U")
    elif op == "YA":
        for key in ("m", "n", "c"):
            if I.get(key, "1") != "1":
                probs.append(f"typed remapping ({key}) of a trace built from constructors is not the node-by-node remapping of its elements")
        if I.get("mc", "1") != "1" and mode == "spec" and ctx["stats"].get("cur_dom") is not False:
            probs.append("typed remapping: cache and mapper disagree on a trace built from constructors")
        if "PANIC" in il:
            probs.append("typed remapping panicked")
        _nontrivial(ctx, case, " p:" in case)
        _kind(ctx, "YA:" + ("with-params" if " p:" in case else "lines-only"))
    elif op == "A":
        _eq(probs, "A/print", I.get("p", ""), M.get("p", ""))
        if I.get("rt") != "1":
            probs.append("parsing the printed trace does not return an equal trace")
        if I.get("rp") != "1":
            probs.append("printing the re-parsed trace does not return the same text")
        if M.get("rt") != "1" or M.get("rp") != "1":
            probs.append("MODEL: the trace does not round-trip in the model (outside wf_trace?)")
        _nontrivial(ctx, case, " c " in case or " f:" in case)
        _kind(ctx, "A:depth" + str(case.count(" c ")))
    elif op == "W":
        if M.get("w") != "SKIPPED":
            _eq(probs, "cache bytes", I.get("w", ""), M.get("w", ""))
        wb = hexbytes(I.get("w", "x")) if I.get("w", "").startswith("x") else b""
        if len(wb) >= 24:
            nc, nm, np_, sb = (int.from_bytes(wb[8 + 4 * k:12 + 4 * k], "little") for k in range(4))
            al = lambda x: (x + 7) // 8 * 8
            implied = al(al(al(24 + 28 * nc) + 36 * nm) + 36 * np_) + sb
            if implied != len(wb):
                probs.append(f"length {len(wb)} differs from the length {implied} implied by the header")
        if I.get("al", "1") != "1":
            probs.append("the cache bytes depend on the address (alignment modulo 8) of the mapping bytes")
        if mode == "spec" and I.get("test") != "ok":
            probs.append(f"self test: {I.get('test')}")
        _nontrivial(ctx, case, len(I.get("w", "")) > 60)
        _kind(ctx, "W")
    elif op == "X" or op in ("k", "t", "l", "p", "s", "g"):
        # the same bytes at the other addresses modulo 8 (implementation only)
        # A panic is a violation for every buffer (C12); an address-dependent answer only for valid files and
        # their strict prefixes (C11: rejected, or answered exactly like the full file) — a corrupted or
        # header-edited buffer may legitimately be read differently when its sections land elsewhere.
        st = ctx["stats"].setdefault("xstate", {"kind": None, "ref": {}, "accepted": False})
        kind_now = (expected[0] if expected else None) if op == "X" else st["kind"]
        strict = kind_now in ("full", "prefix")
        if ";mis=" in il:
            il, flags = il.split(";mis=", 1)
            for fl in flags.split(","):
                if fl.endswith("P"):
                    probs.append("parse panicked on the buffer placed at address %s modulo 8" % fl[:-1])
                elif strict:
                    probs.append("the buffer at address %s modulo 8 is accepted although the aligned buffer with the same bytes is rejected" % fl[:-1])
        if ";misdiff=" in il:
            il, flags = il.split(";misdiff=", 1)
            if strict:
                probs.append(f"the buffer at address {flags} modulo 8 is accepted but answers this query differently from the aligned buffer")
        I = kv(il)
        if op == "X":
            st["kind"] = expected[0] if expected else None
            st["accepted"] = (il == "r=ok")
            if st["kind"] == "full":
                st["ref"] = {}
            if st["kind"] and st["kind"].startswith("expect:") and il != "r=" + st["kind"][7:]:
                probs.append(f"edited header: implementation answered {il} but the property requires {st['kind'][7:]}")
            if prop == "C11" and st["kind"] == "prefix":
                # the property's own disjunction: rejected, or every query answered as by the full file;
                # agreement of the error kind with the model is checked for rejected prefixes only
                if il != "r=ok" and il != ml:
                    probs.append(f"X: implementation {il[:200]!r} model {ml[:200]!r}")
            elif il != ml:
                probs.append(f"X: implementation {il[:200]!r} model {ml[:200]!r}")
        else:
            if st["kind"] == "full":
                st["ref"][case] = il
            if prop == "C11" and st["kind"] == "prefix":
                if st["accepted"] and st["ref"].get(case) is not None and st["ref"][case] != il:
                    probs.append(f"an accepted strict prefix answers {il[:160]!r} where the full file answers {st['ref'][case][:160]!r}")
            elif il != ml:
                probs.append(f"{op}: implementation {il[:200]!r} model {ml[:200]!r}")
        _nontrivial(ctx, case, il not in ("c=~", "c=[]", "c=noparse"))
        _kind(ctx, (il[:40] if op == "X" else op + ":" + ("hit" if il not in ("c=~", "c=[]", "c=noparse") else "miss")))
    else:
        if il != ml:
            probs.append(f"{op}: implementation {il[:200]!r} model {ml[:200]!r}")
    return probs


def classify(prop, case, why):
    """finding class of a failure (matched against KNOWN_FINDINGS.txt)"""
    if "stack overflow" in why and "cause chain" in why:
        return "deep-cause-chain-recursion"
    return "unclassified"


# properties whose extra probes also run on the unoptimised (cargo dev profile) build of the harness: a
# recursion per line / per chain element that optimisation turns into a loop overflows the stack only there
DEBUG_PROBE_PROPS = ("C06", "C13")


def extra_checks(prop, tier, seed, harness, sh):
    """property specific probes beyond the case protocol: returns (failures, lines, stats)"""
    failures, lines, stats = [], [], {}
    if prop == "C13":
        # stack depth of the recursive typed API (runtime behaviour outside the Gallina model)
        for depth, must_pass in ((1000, True), (200000, True)):
            rc, out = sh([harness, "deep", str(depth)], timeout=600)
            ok = rc == 0 and "dropped" in out and "same_as_text=true" in out
            lines.append(f"deep cause chain n={depth}: {'ok' if ok else 'process died / wrong (status %d)' % rc}")
            stats[f"deep{depth}:{'ok' if ok else 'died'}"] = 1
            if not ok:
                if must_pass:
                    failures.append(("deep", f"typed remapping of a cause chain of depth {depth} failed (status {rc}): {out[-200:]}",
                                     f"vharness deep {depth}", ""))
                else:
                    failures.append(("deep", f"stack overflow in the recursive typed API on a cause chain of depth {depth} "
                                     f"(process status {rc})", f"vharness deep {depth}", ""))
    if prop in DEBUG_PROBE_PROPS:
        # stack depth per blank line / bad line / chain element / array dimension, optimised and unoptimised
        dbg = harness.replace(os.sep + "release" + os.sep, os.sep + "debug" + os.sep)
        probes = [(harness, "opt", "deepnl", 200000), (dbg, "unopt", "deepnl", 200000)]
        if prop == "C13":
            probes += [(dbg, "unopt", "deep", 200000), (dbg, "unopt", "deepsig", 200000)]
        for exe, label, cmd, n in probes:
            rc, out = sh([exe, cmd, str(n)], timeout=900)
            if cmd == "deepnl":
                ok = rc == 0 and "done" in out and out.count("=true") == 4 * 6 + 2 and "=false" not in out
            elif cmd == "deep":
                ok = rc == 0 and "dropped" in out and "same_as_text=true" in out
            else:
                ok = rc == 0 and "done" in out and out.count("same=true some=true") == 2
            lines.append(f"{cmd} n={n} ({label} build): {'ok' if ok else 'process died / wrong (status %d)' % rc}")
            stats[f"{cmd}{n}-{label}:{'ok' if ok else 'died'}"] = 1
            if not ok:
                what = {"deepnl": f"a mapping with runs of {n} consecutive line terminators / {n} bad lines",
                        "deep": f"typed remapping of a cause chain of depth {n}",
                        "deepsig": f"a descriptor with {n} array dimensions / parameters"}[cmd]
                failures.append((cmd, f"{what} kills or changes the result of the library in the {label} build "
                                 f"(status {rc}): {out[-200:]}", f"{os.path.basename(os.path.dirname(exe))}/vharness {cmd} {n}", ""))
    if prop in ("C12", "C13", "C16"):
        # descriptors with very many array dimensions / parameters (the model's formatter is quadratic there)
        for n in ((3000, 200000) if prop != "C16" or tier != "quick" else (3000,)):
            rc, out = sh([harness, "deepsig", str(n)], timeout=600)
            ok = rc == 0 and "done" in out and out.count("same=true some=true") == 2
            lines.append(f"descriptor with {n} dimensions / parameters: {'ok' if ok else 'process died / wrong (status %d)' % rc}")
            stats[f"deepsig{n}:{'ok' if ok else 'died'}"] = 1
            if not ok:
                failures.append(("deepsig", f"deobfuscate_signature on a descriptor with {n} array dimensions / parameters failed "
                                 f"(status {rc}): {out[-200:]}", f"vharness deepsig {n}", ""))
    return failures, lines, stats


NOT_APPLICABLE = {}

NOTE_STD = ("Trusted: Coq 8.16.1 kernel, extraction (ExtrOcamlBasic only), model/driver.ml, the Rust harness and "
            "tools/vcheck.py+registry.py; the model-equals-code step is a sampled differential correspondence, not a "
            "proof. No axioms (Print Assumptions: closed).")


def P(theorems, text, rule, status, **kw):
    d = {"theorems": theorems, "level_text": text, "level_note": kw.pop("note", NOTE_STD), "rule": rule, "status": status}
    d.update(kw)
    return d


PROPS = {
    "C01": P(["C01_mapper", "C01_mapper_file", "C01_cache", "C01_index_irrelevant", "C01_unknown_class", "C01_terminator_style", "C01_noise_line", "C01_block_order_irrelevant", "C01_spec_shape", "C01_spec_applies", "C01_spec_range_offset", "C01_file_records", "C01_file_independent", "C01_synthetic_file_shapes", "C01_synthetic_file_no_separator", "C01_synthetic_file_dollar_first"],
             "Theorems: the mapper model returns exactly the declarative specification Sline for every record list "
             "(all classes, methods, lines, files), with or without parameter index; the records - hence the answer - "
             "do not depend on terminator style or unparseable lines. Mapper, mapper-without-index and cache of the "
             "implementation are compared with the extracted specification on generated and corpus mappings.",
             "grammar mappings in the representable domain (inline groups, duplicate class names, sourceFile headers, "
             "zero/inverted/overlapping ranges, noise, LF/CRLF/CR) x frames over the file's name universe x lines "
             "(range boundaries +-1, interiors, 0..66 sample, extremes) x file present/absent; non-trivial = answer "
             "has at least one frame; distinct by (mapping, query)",
             "mapper side and cache side (bytes -> structure -> specification) proved at full strength"),
    "C03": P(["C03_mapper", "C03_cache", "C03_spec_properties", "C03_file_independent"],
             "Theorems: the mapper built with parameter index answers parameter queries exactly as the specification "
             "Sparams (non-inlined entries, de-duplicated per class block by (obf,args,orig), file order); the "
             "specification itself has no duplicates, no inlined callees and depends only on the class block. "
             "Mapper and cache of the implementation are compared with the extracted Sparams.",
             "grammar mappings (inline groups, overloads, repeated entries across classes, empty argument lists) x all "
             "(class, method, params) triples of the file plus unknown values; typed traces built from constructors with parameter frames next to their overloads (YA); non-trivial = non-empty answer",
             "mapper side and cache side proved at full strength"),
    "C04": P(["C04_class_mapper", "C04_method_mapper", "C04_class_cache", "C04_method_cache", "C04_consistent", "C04_file_independent"],
             "Theorems: class lookup = original name of the last class line with exactly that obfuscated name, else "
             "nothing; method lookup answers iff all entries agree, and then every line-based frame carries that "
             "method name. Mapper and cache are compared with the extracted Sclass/Smethod.",
             "grammar mappings, every 10th with up to 150 classes over adversarially similar names (prefixes, $ and . "
             "variants, non-ASCII, duplicates) x every name in the file, sort neighbours, unknown names; "
             "mappers built through From<(&str, bool)> as well; non-trivial = lookup succeeds",
             "mapper side and cache side proved at full strength"),
    "C05": P(["C05_line_roundtrip", "C05_line_in_file", "C05_missing_class_colon", "C05_unspaced_arrow",
              "C05_wrong_indentation", "C05_start_without_end", "C05_missing_return_type", "C05_file_records", "C05_file_last_unterminated"],
             "Theorems: every line printed from the grammar AST (headers, sourceFile header, class, field, method with "
             "every optional group) parses to exactly record_of(AST), alone with any of the four terminators and as "
             "part of a file; the five documented malformations give errors carrying the line. The implementation is "
             "compared with the model and with the generator's own expectation on AST-generated lines and on every "
             "corpus line.",
             "lines printed from random record ASTs (identifier alphabets with $ < > - [] digits non-ASCII, numbers to "
             "2^40, all optional groups, terminators none/LF/CRLF/LFLF), their documented malformations, lines inside "
             "3-line files, and corpus lines; non-trivial = parses to a record",
             "all clauses proved; wf_line is the (liberal) boolean domain of the theorem"),
    "C06": P(["C06_progress", "C06_items_bound", "C06_no_terminator", "C06_isolation"],
             "Theorems about the slice-based parser model for EVERY byte string: the iterator always advances, yields "
             "at most one item per byte, no yielded component contains CR/LF, and records(A + newline + B) = "
             "records(A) ++ records(B) for LF, CR and CRLF. The model is tied to src/mapping.rs by comparing complete "
             "record streams.",
             "byte strings from the grammar generator (wild domain), token mutator, token soups, raw bytes; "
             "non-trivial = the record stream contains at least one item; distinct by input bytes",
             "all four clauses proved at full strength"),
    "C07": P(["C07_line_by_line", "C07_unknown_classes_identity", "C07_empty_mapping_identity", "C07_frame_slice_in_bounds"],
             "Theorems about the text remapping loop (one function of the two lookups): the output is the in-order "
             "concatenation of one chunk per input line, each chunk being the line itself, a remapped throwable (first "
             "line or behind 'Caused by: '), or the remapped frames; with lookups that know none of the trace's classes "
             "the output is the input with normalised terminators. Mapper and cache outputs are compared with the model "
             "instantiated with the specification lookups.",
             "representable mappings x trace-like texts (cause chains, tab/space indentation, '... n more', Native "
             "Method frames, messages with ': ' or frame-like text, blank lines, Unicode whitespace, CRLF, missing final "
             "newline); non-trivial = output differs from the input text",
             "all clauses proved"),
    "C08": P(["C08_same_depth", "C08_node_by_node", "C08_typed_print_is_text", "C08_typed_print_is_text_b", "C08_typed_print_is_text_wf", "C08_iterative_code", "C08_levels_preserved"],
             "Theorems: typed remapping preserves the cause-chain depth, maps node by node (exception remapped or kept, "
             "each frame replaced by its remapped frames or kept), and for canonical printed traces printing the typed "
             "result equals the text API's output. Mapper and cache are compared with the model, and the property's own "
             "clauses are evaluated on the implementation's answers.",
             "representable mappings x canonical traces (depth 0..4, mapped/unmapped throwables with/without message, "
             "mapped/unmapped frames); typed traces built through the constructors with frames by parameters and repeated call sites (YA: node-wise clause on the implementation); non-trivial = typed output differs from the input print",
             "all clauses proved"),
    "C11": P(["C11_prefix_rejected", "C11_magic_flipped", "C11_magic_other", "C11_version_other",
              "C11_accepted_iff_long_enough", "C11_short_buffer", "C11_roundtrip"],
             "Theorems about the byte layer: every strict prefix of a written file is rejected with the error kind of "
             "the first section that does not fit; flipped magic / other magic / other version give the endianness / "
             "format / version error for any buffer; a buffer is accepted iff it is as long as its header implies. "
             "The implementation's ProguardCache::parse is compared with the model on every prefix and header edit.",
             "generated cache files (quick: <= 2 KB) x every prefix length x every single-field header edit (0, +-1, "
             "+1000, 2^31, 2^32-1, byte-swapped); oracle on the implementation = the property's disjunction (rejected, or "
             "answers as the full file), error kinds compared with the model; every buffer additionally parsed at the seven other addresses modulo 8; non-trivial = buffer rejected with a kind",
             "all clauses proved (model theorem is the stronger 'every strict prefix is rejected')",
             assumptions=["buffers are 8-aligned (the harness always passes aligned buffers)"]),
    "C16": P(["C16_valid_descriptor", "C16_formatted", "C16_invalid_no_open_paren", "C16_invalid_no_close_paren",
              "C16_invalid_no_return", "C16_invalid_unterminated", "C16_lookups_agree"],
             "Theorems: every valid descriptor (primitives, objects, nested arrays, any number of parameters) yields one "
             "rendered Java type per parameter and the return type; format_signature is '(' params joined by ', ' ')' plus "
             "': ret' unless void; strings without parentheses, without return type or with an unterminated object type "
             "yield nothing; the result depends on the mapping only through the class lookup. Both Rust copies are "
             "compared with the model.",
             "representable mappings x descriptors over primitive, object (mapped, unmapped, names like I, Lib, x/Long, "
             "non-ASCII) and nested array types with 0..6 parameters, single-edit corruptions, hand-written invalid "
             "strings; non-trivial = descriptor accepted",
             "all clauses proved"),
    "C17": P(["C17_frame_roundtrip", "C17_throwable_roundtrip", "C17_trace_roundtrip", "C17_reprint_same_text",
              "C17_throwable_condition", "C17_print_loop"],
             "Theorems: parse(print t) = t and print(parse(print t)) = print t for every well-formed trace of any depth "
             "and frame count, and for single frames and throwables. The implementation builds the trace through the "
             "public constructors, prints, parses and reprints; text and round-trip flags are compared with the model.",
             "trace ASTs (depth 0..4, 0..20 frames, lines 0..2^64-1, top-level exception present/absent, messages "
             "containing ': ', 'Caused by: ', frame-like text, <init>, non-ASCII, $) plus single frame / throwable lines; "
             "non-trivial = trace with a frame or a cause",
             "all clauses proved; wf_trace is the boolean domain (necessity of each condition shown by counterexamples)"),
    "C02": P(["C02_bytes_roundtrip", "C02_class", "C02_method", "C02_frame_by_line", "C02_frame_by_params",
              "C02_signature", "C02_index_irrelevant", "C02_text_trace", "C02_typed_trace", "C02_domain_of_parsed_bytes", "C02_from_bytes", "C02_sizes_from_length"],
             "Theorems (refinement chain): the bytes written from a representable record list parse back to exactly the "
             "written structure; the reader on that structure answers class, method, line and parameter queries exactly "
             "as the specification (sorted sections + exact binary search + string-table injectivity), and so does the "
             "mapper; hence cache = mapper on every query; signature deobfuscation agrees because it is one function of "
             "the class lookup. Both implementations are compared with each other, with the specification, and the "
             "written bytes with the model's bytes.",
             "representable grammar mappings, token mutations that stay representable, corpus files x the complete query "
             "universe of each (class, method, line, params, text trace, typed trace, signature); non-trivial = "
             "non-empty answer",
             "all clauses proved, including text and typed trace remapping (one loop, lookups proved equal) and the "
             "reduction of the domain for parsed bytes; that each Rust copy of the loop is this loop is the correspondence"),
    "C09": P(["C09_struct_wf", "C09_classes_sorted", "C09_ranges_tile", "C09_strings_readable", "C09_length", "C09_decoder_accepts", "C09_self_test_accepts"],
             "Theorems about the written structure (whose bytes read back to exactly it): class entries strictly sorted "
             "by readable obfuscated name; member and by-params ranges tile their sections in class order; every "
             "referenced offset is a readable string or the sentinel where absence is allowed; words fit 32 bits and "
             "header counts are true counts; the file length is the one implied by the header. The independent decoder "
             "layout_ok (Layout.v, written from the documentation only, extracted) is run on the IMPLEMENTATION's bytes, "
             "the bytes are compared with the model's, and ProguardCache::test is called.",
             "representable grammar mappings (every 25th up to 120 classes; classes without members, members without "
             "by-params entries, shared strings, non-ASCII, names > 127 bytes) and corpus files; non-trivial = at least "
             "one class",
             "all clauses proved, including: the independent decoder layout_ok accepts the bytes of every written file, "
             "and the model of the library's self-test accepts it",
             validate_bytes=True, gen="C09"),
    "C12": P(["C12_search_index_in_bounds", "C12_search_terminates", "C12_class_is_buffer_slice",
              "C12_method_is_buffer_slice", "C12_frames_are_buffer_slices", "C12_params_frames_are_buffer_slices"],
             "Theorems for EVERY buffer: the reader model has no panic path (checked arithmetic, get-style slicing); the "
             "binary-search index used for members[..mid] / members[mid..] is in bounds and the search terminates on "
             "arbitrary (unsorted, corrupted) data; every string of every answer is a contiguous piece of the buffer or "
             "the query's own file. The implementation is run on corrupted caches under catch_unwind with overflow "
             "checks and compared with the model answer by answer.",
             "valid caches with any 32-bit field set to boundary values, swapped / duplicated records, bit flips, damaged "
             "length prefixes and UTF-8, random bodies behind a valid header x class / method / line (incl. 0 and "
             "2^64-1) / params / text / signature queries; every buffer additionally parsed at the seven other addresses modulo 8 (panic clause); descriptors with 3000 and 200000 dimensions / parameters; non-trivial = buffer accepted and query answered",
             "all clauses proved; memory safety of watto's unsafe casts on aligned buffers is assumed",
             assumptions=["buffers are 8-aligned", "watto's Pod casts are sound (unsafe code not modelled)"]),
    "C13": P(["C13_mapper_never_panics", "C13_writer_counts_do_not_wrap", "C13_writer_counts_exact", "C13_pipeline_total"],
             "Partial (runtime stack depth is probed, not proved). Theorems: for the records of EVERY byte string the mapper's only unchecked "
             "subtraction is unreachable (no Panic outcome); the writer's 32-bit counters cannot wrap; for every byte "
             "string below 2 GiB the written structure is well-formed and its bytes parse back to exactly it "
             "(C13_pipeline_total, no domain restriction); the cache reader is panic-free for every buffer (C12). The whole pipeline is run on wild-domain "
             "inputs (numbers around 2^32 and 2^64, empty names, invalid UTF-8) with overflow checks under catch_unwind, "
             "and every layer is compared with the model.",
             "wild grammar mappings, token mutations, token soups, raw bytes x record stream, metadata, cache bytes, class "
             "/ method / line (0, boundaries, 2^32, 2^64-1) / params queries, Unicode trace texts and signatures; "
             "non-trivial = non-empty answer",
             "panic-freedom proved for the modelled arithmetic; stack depth is runtime behaviour outside the model: the "
             "typed API used to recurse on the cause chain (finding F8, fixed by 5c75dfb) and is probed with chains of "
             "1000 and 200000 causes on an 8 MiB stack",
             oracle="model"),
    "C10": P(["C10_layout_or_version_bump", "C10_other_version_rejected", "C10_written_version", "C10_current_files_same_answers", "C10_pinned_files_parse", "C10_pinned_files_same_answers", "C10_writers_differ_in_class_rows_only", "C10_domain_needed", "C10_snapshot_bytes_same_answers", "C10_snapshot_bytes_parse"],
             "Theorems: the record layouts, sentinel defaults and magic read from the current source equal the pinned "
             "release's unless the version constant differs (guard re-proved against the regenerated Extracted.v on "
             "every run); any buffer with another version word is rejected with the version error; with the pinned "
             "release's writer (F1 offsets) and reader (F5 unchecked line arithmetic) modelled in Pinned.v, every file "
             "written by either writer from an in-domain mapping parses and is answered by the pinned reader exactly as "
             "by the current reader for every frame query and every line, the two writers' files differ only in the "
             "class rows, and outside the domain the releases do differ (witness). The harness links the vendored pinned "
             "release: files written by each release are answered by both readers, and every answer must be "
             "WrongVersion or identical (typed traces: identical once a throwable of an unmapped class, which the "
             "pinned release drops — its defect F3, repaired in the current tree — is shown as the input's throwable "
             "in both releases' answers); the bytes each release writes are compared with the model of that release's "
             "writer (PinnedModel.v: the complete pinned writer with F1, F2, F7; CacheWriter.v).",
             "representable grammar mappings and corpus files x {pinned 5.5.0, current tree} writers x both readers x "
             "class / method / line / params / text-trace / signature queries over the file's universe; non-trivial = "
             "query answered with a non-empty result. Typed traces (Y) are compared with one normalisation applied to "
             "both releases' answers: a throwable whose class is not in the mapping, which the pinned release drops "
             "(its defect F3, repaired in the current tree) is shown as the input's throwable; frames, mapped "
             "throwables, order and chain depth are compared as they are",
             "guard, version and reader-equality clauses proved for the models of both releases; that the vendored pinned "
             "release behaves as its model is established by the cross-release run",
             modes=["run-xver"], model_lines=lambda l: l if l.startswith("M ") else ("WP" if l == "W" else "NOP"),
             trusted_extra=["pinned/proguard-5.5.0: vendored sources of the pinned snapshot f3fcb84 (package renamed)"]),
    "C14": P(["C14_length_implied_by_header", "C14_function_of_bytes"],
             "Partial. Theorems: the output length equals the length implied by the header counts; the model writer is a "
             "function of the mapping bytes. The property's runtime content (no dependence on hash seeds, threads, "
             "addresses) is sampled: every mapping is written twice per process, by 8 separately started processes and "
             "from 8 concurrent threads, and every output must equal the model's bytes and its own header-implied length.",
             "representable grammar mappings (every 25th with up to 120 classes) and corpus files, two writes each, in 8 "
             "processes and 8 threads, and re-written from the same bytes placed at each of the 8 addresses modulo 8; non-trivial = file with at least one class; distinct by mapping",
             "partial: determinism of the real process is sampled, not proved",
             modes=["run", "run p2", "run p3", "run p4", "run p5", "run p6", "run p7", "run p8", "run-threads 8"]),
    "C15": P(["C15_canonical", "C15_success_means_canonical", "C15_failure_reported", "C15_only_a_prefix",
              "C15_retry_and_short_writes", "C15_model_total"],
             "Theorems about std's write_all loop over any scripted sink and the writer's chunk sequence: success implies "
             "the sink received exactly the canonical bytes; a consumed non-retryable failure implies an error with only a "
             "prefix delivered; interrupted calls are retried and short writes completed. ProguardCache::write is run "
             "against scripted sinks and compared (result kind, accepted bytes, number of calls) with the model; the "
             "property's two implications are also evaluated on the implementation's answer directly.",
             "representable mappings x sinks accepting at most k bytes per call (k = 0..16), short once / zero-length / "
             "failing / interrupted at call i for every i, and random scripts; gathering sinks (write_vectored) with 1..200 bytes of room per call; non-trivial = limited or scripted sink",
             "all clauses proved"),
    "C18": P(["C18_definition", "C18_namespace", "C18_version_and_variant", "C18_sixteen_bytes"],
             "Partial. Theorems: the identifier is v5(v5(DNS, 'guardsquare.com'), bytes) with namespace "
             "4f44f30f-24be-53d0-bab6-f47c7120ad6c, version nibble 5 and variant bits 10 for every input. "
             "ProguardMapping::uuid is compared with this independent SHA-1 computation (FIPS 180-4 model in Coq, "
             "validated by test vectors) on empty, corpus, LF/CRLF and random inputs.",
             "empty file, corpus files and their CRLF variants, grammar mappings, random bytes with lengths around the "
             "SHA-1 block and padding boundaries (thorough: up to 1 MiB), each also hashed in a buffer that held a one-byte-different text of the same length before (in-place overwrite), sections of hashed mappings; non-trivial = every case; distinct by bytes",
             "partial: equality of the uuid/sha1_smol code with the model is sampled"),
    "C19": P(["C19_has_line_info", "C19_summary", "C19_last_header", "C19_is_valid", "C19_window_is_50", "C19_has_line_info_concat", "C19_summary_concat"],
             "Theorems: has_line_info = exists a method record with line mapping anywhere in the complete stream; summary "
             "counts = numbers of class / method records, compiler / version / min-api = value of the last header with "
             "that key; is_valid = a class record followed by a member record within the first 50 items (the window is "
             "re-read from the source on every run). The three methods are compared with the model.",
             "position dependent files (first line-mapped method after thousands of unmapped ones, after error lines, in "
             "the last line without newline; repeated / malformed headers; 48..51 leading noise lines), wild grammar "
             "mappings, mutations, soups, corpus; non-trivial = has_line_info or is_valid true or a summary field set",
             "all clauses proved"),
    "C20": P(["C20_schedule_independent", "C20_any_prefix", "C20_no_interior_mutability"],
             "Partial. Theorem: under every interleaving of threads querying one shared immutable value, each thread "
             "receives exactly the answers it gets alone. The premises are checked: Send + Sync assertions for all public "
             "handle, iterator and result types are compiled into the harness, the translator scans the sources for "
             "interior mutability, and query batches are run from 2, 5 and 16 threads against one shared mapper and cache "
             "and compared with the single-threaded answers and the model.",
             "representable mappings x up to 400 queries of every kind split randomly over 2 / 5 / 16 threads with random "
             "yields; non-trivial = non-empty answer",
             "partial: auto traits are decided by rustc, the memory model and unsafe dependencies are outside the model",
             modes=["run", "run-threads 2", "run-threads 5", "run-threads 16"]),
}
