"""Per-property registry: theorem names, comparison rules, extra probes, finding classes."""
import os
import re

MODEL_VOS = ["theories/Base.vo", "theories/Mapping.vo", "theories/Spec.vo", "theories/Mapper.vo",
             "theories/CacheWriter.vo", "theories/CacheReader.vo", "theories/Stacktrace.vo", "theories/Java.vo",
             "theories/Metadata.vo"]

TRUSTED_BASE = [
    "Coq 8.16.1 kernel (coqc), vm_compute for finite checks and witnesses; no native_compute",
    "axioms: none declared; Print Assumptions of every property theorem must be 'Closed under the global context'",
    "translator tools/extract_facts.py (regex reading of constants, struct layouts, literals from /repo/src)",
    "extraction: ExtrOcamlBasic only (bool, option, unit, list, prod, sumbool, sumor -> OCaml types; andb/orb inlined); "
    "N, positive, nat stay Coq datatypes; OCaml 4.13.1; model/driver.ml glue (hex, int<->N, printing)",
    "correspondence check: harness/ (Rust, rebuilt against /repo on every run; overflow-checks, catch_unwind, "
    "8-aligned buffers) and tools/vcheck.py + tools/registry.py (comparison rules)",
    "modelled, not verified: the Rust source (correspondence is sampled), std semantics written into the model "
    "(HashMap/BTreeMap as finite maps, slice::binary_search_by of this toolchain, str::{lines,trim,parse}, write_all), "
    "watto 0.1.0 (Pod casts = LE decode on aligned buffers, StringTable), leb128 0.2.5; x86_64 little-endian 64-bit",
]


def kv(line):
    d = {}
    for part in line.split(";"):
        if "=" in part:
            k, v = part.split("=", 1)
            d[k] = v
    return d


def hexbytes(tok):
    return bytes.fromhex(tok[1:]) if tok.startswith("x") else b""


def _eq(probs, what, a, b):
    if a != b:
        probs.append(f"{what}: implementation {a[:200]!r} expected {b[:200]!r}")


def _nontrivial(ctx, case, flag):
    if flag:
        ctx["stats"]["nontrivial"].add(hash((ctx.get("mapping_line"), case)))


def _kind(ctx, k):
    ctx["stats"]["kinds"][k] = ctx["stats"]["kinds"].get(k, 0) + 1


def items_no_terminator(line):
    """C06 clause checked on the implementation's own output: no yielded component contains CR/LF"""
    bad = []
    for it in line.split(";"):
        f = it.split("|")
        if f[0] in ("H", "C", "F", "M"):
            for tok in f[1:]:
                if tok.startswith("x"):
                    b = hexbytes(tok)
                    if b"\n" in b or b"\r" in b:
                        bad.append(it)
    return bad


def check_case(prop, case, il, ml, ctx):
    """returns a list of problems (empty = the case agrees)"""
    op = case.split(" ", 1)[0]
    probs = []
    I, M = kv(il), kv(ml)
    expected = [t[1:] for t in case.split(" ")[1:] if t.startswith("=")]
    mode = PROPS[prop].get("oracle", "spec")
    if ml.startswith("MODEL-") or ml.startswith("UNKNOWN-OP"):
        return [f"model driver: {ml}"]
    if "PANIC" in (il.replace("test=PANIC", "") if mode == "model" else il):
        probs.append("implementation panicked")
        _kind(ctx, "PANIC")
    if "FMTERR" in il or "WRITEERR" in il:
        probs.append("implementation returned an error")
    if op == "I":
        if il != ml:
            probs.append(f"record stream differs: implementation {il[:300]!r} model {ml[:300]!r}")
        for b in items_no_terminator(il):
            probs.append(f"yielded component contains a line terminator: {b[:120]}")
        n_items = 0 if il == "" else il.count(";") + 1
        mlen = (len(ctx["mapping_line"]) - 3) // 2 if ctx.get("mapping_line") else 0
        if n_items > mlen:
            probs.append(f"{n_items} items from {mlen} bytes")
        if expected and expected[0] not in il.split(";"):
            probs.append(f"the printed line's record {expected[0][:160]} is not in the record stream {il[:300]}")
        _nontrivial(ctx, case, "|" in il)
        _kind(ctx, "items:ok" if re.search(r'(^|;)[HCFM]\|', il) else "items:errors-only")
        _kind(ctx, "items:with-error" if "E|" in il else "items:no-error")
    elif op in ("R", "D", "FR", "TH"):
        if il != ml:
            probs.append(f"{op}: implementation {il[:300]!r} model {ml[:300]!r}")
        if expected and il != expected[0]:
            probs.append(f"{op}: implementation {il[:300]!r} but the grammar says {expected[0][:300]!r}")
        _nontrivial(ctx, case, not il.startswith("E|") and il != "~")
        _kind(ctx, op + ":" + (il.split("|", 1)[0] if op == "R" else "x"))
    elif op in ("K", "T", "L", "P", "S", "G"):
        want = M.get("s") if mode == "spec" else None
        for key in ("m", "n", "c"):
            if key not in I:
                continue
            exp = want if want is not None else M.get(key if key != "n" or "n" in M else "m")
            if exp is None:
                continue
            _eq(probs, f"{op}/{key}", I[key], exp)
        if mode == "spec":
            # the model's own layers must agree with the specification (model = spec theorems)
            for key in ("m", "n", "c"):
                if key in M and M[key] != M["s"]:
                    probs.append(f"MODEL-LAYER {key} differs from spec: {M[key][:120]!r} vs {M['s'][:120]!r}")
        if mode == "spec" and "m" in I and "c" in I and I["m"] != I["c"]:
            probs.append(f"{op}: cache answer differs from mapper answer: {I['c'][:160]!r} vs {I['m'][:160]!r}")
        if mode == "spec" and "m" in I and "n" in I and I["m"] != I["n"]:
            probs.append(f"{op}: mapper answers differ with/without parameter index")
        ans = I.get("m", "")
        _nontrivial(ctx, case, ans not in ("~", "[]", "") and not (op == "S" and ans == case.split(" ")[1]))
        _kind(ctx, f"{op}:" + ("hit" if ans not in ("~", "[]") else "miss"))
    elif op == "Y":
        if il == "none" or ml == "none":
            if il != ml:
                probs.append(f"Y: parse result differs: {il[:100]!r} vs {ml[:100]!r}")
            _kind(ctx, "Y:none")
        else:
            _eq(probs, "Y/depth", I.get("d", ""), M.get("d", ""))
            _eq(probs, "Y/print", I.get("p", ""), M.get("p", ""))
            if mode == "spec":
                _eq(probs, "Y/typed mapper", I.get("m", ""), M.get("s", ""))
                _eq(probs, "Y/typed cache", I.get("c", ""), M.get("s", ""))
                _eq(probs, "Y/text of print", I.get("x", ""), M.get("x", ""))
            # the property's own statement on the implementation
            if mode == "spec" and "m" in I and "/" in I["m"]:
                d, h = I["m"].split("/", 1)
                if d != I.get("d"):
                    probs.append(f"typed remapping changed the cause-chain depth: {I.get('d')} -> {d}")
                if h != I.get("x"):
                    probs.append("printing the typed result differs from the text API on the printed input")
            _nontrivial(ctx, case, I.get("m", "").split("/")[-1] != I.get("p"))
            _kind(ctx, "Y:parsed")
    elif op == "W":
        _eq(probs, "cache bytes", I.get("w", ""), M.get("w", ""))
        if mode == "spec" and I.get("test") != "ok":
            probs.append(f"self test: {I.get('test')}")
        _nontrivial(ctx, case, len(I.get("w", "")) > 60)
        _kind(ctx, "W")
    elif op == "X" or op in ("k", "t", "l", "p", "s", "g"):
        st = ctx["stats"].setdefault("xstate", {"kind": None, "ref": {}, "accepted": False})
        if op == "X":
            st["kind"] = expected[0] if expected else None
            st["accepted"] = (il == "r=ok")
            if st["kind"] == "full":
                st["ref"] = {}
            if st["kind"] and st["kind"].startswith("expect:") and il != "r=" + st["kind"][7:]:
                probs.append(f"edited header: implementation answered {il} but the property requires {st['kind'][7:]}")
            if prop == "C11" and st["kind"] == "prefix":
                # the property's own disjunction: rejected, or every query answered as by the full file;
                # agreement of the error kind with the model is checked for rejected prefixes only
                if il != "r=ok" and il != ml:
                    probs.append(f"X: implementation {il[:200]!r} model {ml[:200]!r}")
            elif il != ml:
                probs.append(f"X: implementation {il[:200]!r} model {ml[:200]!r}")
        else:
            if st["kind"] == "full":
                st["ref"][case] = il
            if prop == "C11" and st["kind"] == "prefix":
                if st["accepted"] and st["ref"].get(case) is not None and st["ref"][case] != il:
                    probs.append(f"an accepted strict prefix answers {il[:160]!r} where the full file answers {st['ref'][case][:160]!r}")
            elif il != ml:
                probs.append(f"{op}: implementation {il[:200]!r} model {ml[:200]!r}")
        _nontrivial(ctx, case, il not in ("c=~", "c=[]", "c=noparse"))
        _kind(ctx, (il[:40] if op == "X" else op + ":" + ("hit" if il not in ("c=~", "c=[]", "c=noparse") else "miss")))
    else:
        if il != ml:
            probs.append(f"{op}: implementation {il[:200]!r} model {ml[:200]!r}")
    return probs


def classify(prop, case, why):
    """finding class of a failure (matched against KNOWN_FINDINGS.txt)"""
    if "stack overflow" in why and "cause chain" in why:
        return "deep-cause-chain-recursion"
    return "unclassified"


def extra_checks(prop, tier, seed, harness, sh):
    """property specific probes beyond the case protocol: returns (failures, lines, stats)"""
    return [], [], {}


NOT_APPLICABLE = {}

PROPS = {
    "C06": {
        "theorems": ["C06_progress", "C06_items_bound", "C06_no_terminator", "C06_isolation"],
        "level_text": "Theorems about the slice-based parser model (progress of the iterator, at most one item per byte; "
                      "isolation and terminator-freedom as they are added) hold for every byte string; the model is tied to "
                      "src/mapping.rs by comparing complete record streams on generated inputs.",
        "level_note": "Trusted: Coq kernel, extraction (ExtrOcamlBasic), model/driver.ml, harness, the sampled "
                      "correspondence model = code. No axioms.",
        "rule": "byte strings from the grammar generator (wild domain), token mutator, token soups, raw bytes; "
                "non-trivial = the record stream contains at least one item; distinct by input bytes",
        "status": "all four clauses proved at full strength (progress, item bound, no terminator in any yielded component, isolation on Ok-records for LF/CR/CRLF)",
        "assumptions": ["the slice based parser model equals src/mapping.rs (checked by the record-stream correspondence)"],
    },
    "C05": {"theorems": [], "level_text": "", "level_note": "", "rule": ""},
    "C11": {"theorems": [], "level_text": "", "level_note": "", "rule": ""},
    "C12": {"theorems": [], "level_text": "", "level_note": "", "rule": ""},
    "C13": {"theorems": [], "level_text": "", "level_note": "", "rule": "", "oracle": "model"},
    "C07": {"theorems": [], "level_text": "", "level_note": "", "rule": ""},
    "C08": {"theorems": [], "level_text": "", "level_note": "", "rule": ""},
    "C16": {"theorems": [], "level_text": "", "level_note": "", "rule": ""},
    "C01": {"theorems": [], "level_text": "", "level_note": "", "rule": ""},
    "C02": {"theorems": [], "level_text": "", "level_note": "", "rule": ""},
    "C03": {"theorems": [], "level_text": "", "level_note": "", "rule": ""},
    "C04": {"theorems": [], "level_text": "", "level_note": "", "rule": ""},
    "C19": {"theorems": [], "level_text": "", "level_note": "", "rule": ""},
}
