#!/usr/bin/env python3
"""seedtest.py [name ...] — applies each seeded change (seeded/<name>/patch.diff) to /repo, runs the
quick checks of the properties it is meant to break (meta.json "properties"; --all: every claimed
check), records which checks raise a VIOLATION, and restores /repo.  Never commits anything."""
import json
import os
import subprocess
import sys

ROOT = os.path.dirname(os.path.dirname(os.path.abspath(__file__)))


def sh(cmd, **kw):
    return subprocess.run(cmd, shell=True, stdout=subprocess.PIPE, stderr=subprocess.STDOUT, **kw)


def main():
    args = [a for a in sys.argv[1:] if not a.startswith("--")]
    run_all = "--all" in sys.argv
    names = args or sorted(os.listdir(os.path.join(ROOT, "seeded")))
    manifest = json.load(open(os.path.join(ROOT, "MANIFEST.json")))
    claimed = [c["property_id"] for c in manifest["checks"]]
    assert sh("git -C /repo status --porcelain --untracked-files=no").stdout.strip() == b"", "/repo is not clean"
    results = {}
    for name in names:
        d = os.path.join(ROOT, "seeded", name)
        if not os.path.exists(os.path.join(d, "patch.diff")):
            continue
        meta = json.load(open(os.path.join(d, "meta.json")))
        props = claimed if run_all else [p for p in meta.get("properties", [meta.get("property")]) if p in claimed]
        r = sh(f"git -C /repo apply {d}/patch.diff")
        if r.returncode != 0:
            results[name] = {"error": "patch does not apply: " + r.stdout.decode()[-200:]}
            continue
        try:
            res = {}
            for p in props:
                out = sh(f"python3 tools/vcheck.py {p} --tier quick", cwd=ROOT).stdout.decode()
                viol = [l for l in out.splitlines() if l.startswith("VIOLATION")]
                res[p] = {"caught": bool(viol), "lines": viol[:2], "tail": out.strip().splitlines()[-1][:200] if out.strip() else ""}
            results[name] = res
        finally:
            sh("git -C /repo checkout -- .")
        print(name, {p: ("CAUGHT" if v["caught"] else "missed") for p, v in results[name].items()}, flush=True)
    json.dump(results, open(os.path.join(ROOT, "build", "seedtest.json"), "w"), indent=1)


if __name__ == "__main__":
    main()
