(* BtLemmas.v — the BTreeMap helpers of CacheWriter.v ([bt_insert], [bt_push]) keep association lists
   strictly sorted and behave like a finite map; generic in a comparison satisfying the order laws of
   LexOrder.v (Section Order), instantiated for [lex_cmp] and [pair_cmp]. *)
From Coq Require Import Lia Sorted.
From PG Require Import Base Mapping Spec CacheWriter CacheReader BinSearchProofs LexOrder.

Lemma find_app {A} (f : A -> bool) (a b : list A) :
  find f (a ++ b) = match find f a with Some x => Some x | None => find f b end.
Proof.
  induction a as [|x a IH]; cbn [app find]; [reflexivity|]. destruct (f x); [reflexivity|exact IH].
Qed.

Lemma is_eq_true c : is_eq c = true <-> c = Eq.
Proof. destruct c; cbn [is_eq]; split; congruence. Qed.

Section BT.
Context {K : Type} (cmp : K -> K -> comparison).
Hypothesis cmp_eq : forall a b, cmp a b = Eq -> a = b.
Hypothesis cmp_antisym : forall a b, cmp a b = CompOpp (cmp b a).
Hypothesis cmp_trans : forall a b c, cmp a b = Lt -> cmp b c = Lt -> cmp a c = Lt.

Local Lemma cmp_refl a : cmp a a = Eq.
Proof. assert (H := cmp_antisym a a). destruct (cmp a a); cbn [CompOpp] in H; congruence. Qed.

Local Lemma cmp_gt_lt a b : cmp a b = Gt -> cmp b a = Lt.
Proof. intros H. rewrite cmp_antisym, H. reflexivity. Qed.

Local Lemma cmp_two_eq k k' t : cmp k k' = Gt -> cmp k t = Eq -> cmp k' t = Eq -> False.
Proof.
  intros H1 H2 H3. apply cmp_eq in H2. apply cmp_eq in H3. subst. rewrite cmp_refl in H1. discriminate.
Qed.

Definition ksorted {V} (l : list (K * V)) : Prop :=
  StronglySorted (fun a b => cmp (fst a) (fst b) = Lt) l.

Definition bt_find {V} (t : K) (l : list (K * V)) : option (K * V) :=
  find (fun g => is_eq (cmp (fst g) t)) l.

(* ---------------- bt_insert ---------------- *)
Lemma bt_insert_In {V} k (v : V) l x : In x (bt_insert cmp k v l) -> x = (k, v) \/ In x l.
Proof.
  induction l as [|[k' v'] r IH]; cbn [bt_insert].
  - intros [<-|[]]. left. reflexivity.
  - destruct (cmp k k').
    + intros [<-|H]; [left; reflexivity|right; right; exact H].
    + intros [<-|H]; [left; reflexivity|right; exact H].
    + intros [<-|H]; [right; left; reflexivity|].
      destruct (IH H) as [E|E]; [left; exact E|right; right; exact E].
Qed.

Lemma bt_insert_sorted {V} k (v : V) l : ksorted l -> ksorted (bt_insert cmp k v l).
Proof.
  unfold ksorted. intros H. induction H as [|[k' v'] r Hs IH Hall]; cbn [bt_insert].
  - constructor; constructor.
  - destruct (cmp k k') eqn:E.
    + apply cmp_eq in E. subst k'. constructor; [exact Hs|exact Hall].
    + constructor; [constructor; assumption|].
      constructor; [exact E|].
      eapply Forall_impl; [|exact Hall]. intros y Hy. cbn [fst] in *. eapply cmp_trans; eassumption.
    + constructor; [exact IH|]. apply Forall_forall. intros x Hx.
      apply bt_insert_In in Hx. destruct Hx as [->|Hx].
      * cbn [fst]. apply cmp_gt_lt. exact E.
      * exact (proj1 (Forall_forall _ _) Hall x Hx).
Qed.

Lemma bt_find_insert {V} t k (v : V) l :
  bt_find t (bt_insert cmp k v l) = if is_eq (cmp k t) then Some (k, v) else bt_find t l.
Proof.
  unfold bt_find. induction l as [|[k' v'] r IH]; cbn [bt_insert find fst].
  - destruct (is_eq (cmp k t)); reflexivity.
  - destruct (cmp k k') eqn:E; cbn [find fst].
    + apply cmp_eq in E. subst k'. destruct (is_eq (cmp k t)); reflexivity.
    + reflexivity.
    + rewrite IH. destruct (is_eq (cmp k' t)) eqn:E1; destruct (is_eq (cmp k t)) eqn:E2; try reflexivity.
      exfalso. apply is_eq_true in E1, E2. eapply cmp_two_eq; eassumption.
Qed.

(* inserting a list of values under their keys, in order *)
Section InsAll.
Context {V : Type} (key : V -> K).
Definition ins_all (cs : list V) (L : list (K * V)) : list (K * V) :=
  fold_left (fun L c => bt_insert cmp (key c) c L) cs L.

Lemma ins_all_sorted cs : forall L, ksorted L -> ksorted (ins_all cs L).
Proof.
  induction cs as [|c cs IH]; intros L H; cbn [ins_all fold_left]; [exact H|].
  apply IH. apply bt_insert_sorted. exact H.
Qed.

Lemma ins_all_In cs : forall L x, In x (ins_all cs L) -> In x L \/ (In (snd x) cs /\ fst x = key (snd x)).
Proof.
  induction cs as [|c cs IH]; intros L x H; cbn [ins_all fold_left] in H; [left; exact H|].
  apply IH in H. destruct H as [H|[H1 H2]].
  - apply bt_insert_In in H. destruct H as [->|H]; [right|left; exact H].
    cbn [fst snd]. split; [left; reflexivity|reflexivity].
  - right. split; [right; exact H1|exact H2].
Qed.

Lemma bt_find_ins_all t cs : forall L,
  bt_find t (ins_all cs L) =
  match find (fun c => is_eq (cmp (key c) t)) (rev cs) with
  | Some c => Some (key c, c)
  | None => bt_find t L
  end.
Proof.
  induction cs as [|c cs IH]; intros L; cbn [ins_all fold_left rev]; [reflexivity|].
  fold (ins_all cs (bt_insert cmp (key c) c L)). rewrite IH, find_app.
  destruct (find (fun c0 => is_eq (cmp (key c0) t)) (rev cs)); [reflexivity|].
  rewrite bt_find_insert. cbn [find]. destruct (is_eq (cmp (key c) t)); reflexivity.
Qed.
End InsAll.

(* in a sorted list the found element splits the list into smaller / equal / greater keys *)
Lemma bt_find_split {V} t (l : list (K * V)) : ksorted l ->
  match bt_find t l with
  | Some x => exists lo hi, l = lo ++ [x] ++ hi /\ Forall (fun y => cmp (fst y) t = Lt) lo /\
                            cmp (fst x) t = Eq /\ Forall (fun y => cmp (fst y) t = Gt) hi
  | None => forall y, In y l -> cmp (fst y) t <> Eq
  end.
Proof.
  intros Hs.
  destruct (sorted_split_key cmp cmp_eq cmp_antisym cmp_trans fst t l Hs)
    as (lo & eq & hi & -> & Hlo & Heq & Hhi & Hlen).
  assert (Hflo : forall rest, bt_find t (lo ++ rest) = bt_find t rest).
  { intros rest. unfold bt_find. rewrite find_app.
    replace (find (fun g : K * V => is_eq (cmp (fst g) t)) lo) with (@None (K * V)); [reflexivity|].
    symmetry. clear -Hlo. induction Hlo as [|y lo Hy _ IH]; cbn [find]; [reflexivity|].
    rewrite Hy. exact IH. }
  assert (Hfhi : bt_find t hi = None).
  { unfold bt_find. clear -Hhi. induction Hhi as [|y hi Hy _ IH]; cbn [find]; [reflexivity|].
    rewrite Hy. exact IH. }
  rewrite Hflo. destruct eq as [|x [|x' eq']]; cbn [length] in Hlen; [| |lia].
  - cbn [app]. rewrite Hfhi. intros y Hy. apply in_app_or in Hy. destruct Hy as [Hy|Hy].
    + rewrite (proj1 (Forall_forall _ _) Hlo y Hy). discriminate.
    + rewrite (proj1 (Forall_forall _ _) Hhi y Hy). discriminate.
  - inversion Heq as [|x0 eq0 Hx _]; subst. unfold bt_find. cbn [app find]. rewrite Hx. cbn [is_eq].
    exists lo, hi. repeat split; assumption.
Qed.

(* ---------------- bt_push ---------------- *)
Lemma bt_push_In {V} k (v : V) G k' vs x :
  In (k', vs) (bt_push cmp k v G) -> In x vs ->
  (k' = k /\ x = v) \/ exists vs0, In (k', vs0) G /\ In x vs0.
Proof.
  induction G as [|[k0 vs0] r IH]; cbn [bt_push].
  - intros [H|[]] Hx. inversion H; subst. destruct Hx as [<-|[]]. left. split; reflexivity.
  - destruct (cmp k k0) eqn:E.
    + intros [H|H] Hx.
      * inversion H; subst. apply in_app_or in Hx. destruct Hx as [Hx|[<-|[]]].
        -- right. exists vs0. split; [left; reflexivity|exact Hx].
        -- left. apply cmp_eq in E. split; [symmetry; exact E|reflexivity].
      * right. exists vs. split; [right; exact H|exact Hx].
    + intros [H|H] Hx.
      * inversion H; subst. destruct Hx as [<-|[]]. left. split; reflexivity.
      * right. exists vs. split; [exact H|exact Hx].
    + intros [H|H] Hx.
      * inversion H; subst. right. exists vs. split; [left; reflexivity|exact Hx].
      * destruct (IH H Hx) as [E1|(vs1 & H1 & H2)]; [left; exact E1|].
        right. exists vs1. split; [right; exact H1|exact H2].
Qed.

Lemma bt_push_keys {V} k (v : V) G x : In x (bt_push cmp k v G) -> fst x = k \/ exists y, In y G /\ fst y = fst x.
Proof.
  induction G as [|[k0 vs0] r IH]; cbn [bt_push].
  - intros [<-|[]]. left. reflexivity.
  - destruct (cmp k k0) eqn:E.
    + intros [<-|H]; right; [exists (k0, vs0)|exists x]; (split; [|reflexivity]); [left; reflexivity|right; exact H].
    + intros [<-|H]; [left; reflexivity|]. right. exists x. split; [exact H|reflexivity].
    + intros [<-|H]; [right; exists (k0, vs0); split; [left; reflexivity|reflexivity]|].
      destruct (IH H) as [E1|(y & H1 & H2)]; [left; exact E1|].
      right. exists y. split; [right; exact H1|exact H2].
Qed.

Lemma bt_push_sorted {V} k (v : V) G : ksorted G -> ksorted (bt_push cmp k v G).
Proof.
  unfold ksorted. intros H. induction H as [|[k' vs'] r Hs IH Hall]; cbn [bt_push].
  - constructor; constructor.
  - destruct (cmp k k') eqn:E.
    + constructor; [exact Hs|exact Hall].
    + constructor; [constructor; assumption|].
      constructor; [exact E|].
      eapply Forall_impl; [|exact Hall]. intros y Hy. cbn [fst] in *. eapply cmp_trans; eassumption.
    + constructor; [exact IH|]. apply Forall_forall. intros x Hx.
      apply bt_push_keys in Hx. destruct Hx as [Hx|(y & Hy & Hxy)]; cbn [fst].
      * rewrite Hx. apply cmp_gt_lt. exact E.
      * rewrite <- Hxy. exact (proj1 (Forall_forall _ _) Hall y Hy).
Qed.

Lemma group_of_push {V} t k (v : V) G : ksorted G ->
  group_of cmp t (bt_push cmp k v G) =
  if is_eq (cmp k t) then group_of cmp t G ++ [v] else group_of cmp t G.
Proof.
  unfold ksorted. intros H. induction H as [|[k' vs'] r Hs IH Hall].
  - unfold group_of. cbn [bt_push find fst]. destruct (is_eq (cmp k t)); reflexivity.
  - cbn [bt_push]. destruct (cmp k k') eqn:E.
    + unfold group_of. cbn [find fst snd]. apply cmp_eq in E. subst k'. destruct (is_eq (cmp k t)); reflexivity.
    + destruct (is_eq (cmp k t)) eqn:E2.
      * apply is_eq_true in E2. apply cmp_eq in E2. subst t.
        rewrite (group_of_all_gt cmp k ((k', vs') :: r)).
        -- unfold group_of. cbn [find fst snd]. rewrite cmp_refl. reflexivity.
        -- constructor; [cbn [fst]; rewrite cmp_antisym, E; reflexivity|].
           eapply Forall_impl; [|exact Hall]. intros y Hy. cbn [fst] in *.
           rewrite cmp_antisym, (cmp_trans _ _ _ E Hy). reflexivity.
      * unfold group_of. cbn [find fst snd]. rewrite E2. reflexivity.
    + unfold group_of in *. cbn [find fst snd]. destruct (is_eq (cmp k' t)) eqn:E1.
      * destruct (is_eq (cmp k t)) eqn:E2; [|reflexivity].
        exfalso. apply is_eq_true in E1, E2. eapply cmp_two_eq; eassumption.
      * exact IH.
Qed.

Lemma bt_push_length {V} k (v : V) G :
  length (concat (map snd (bt_push cmp k v G))) = S (length (concat (map snd G))).
Proof.
  induction G as [|[k' vs'] r IH]; cbn [bt_push map concat snd]; [reflexivity|].
  destruct (cmp k k'); cbn [map concat snd].
  - rewrite !app_length. cbn [length]. lia.
  - reflexivity.
  - rewrite !app_length, IH. lia.
Qed.

Lemma bt_push_nonempty {V} k (v : V) G :
  Forall (fun g => snd g <> []) G -> Forall (fun g => snd g <> []) (bt_push cmp k v G).
Proof.
  intros H. induction H as [|[k' vs'] r Hg Hr IH]; cbn [bt_push].
  - constructor; [discriminate|constructor].
  - destruct (cmp k k').
    + constructor; [|exact Hr]. cbn [snd]. intros E. apply app_eq_nil in E. destruct E as [_ E]. discriminate.
    + constructor; [discriminate|]. constructor; assumption.
    + constructor; assumption.
Qed.

(* pushing a list of elements [e] under key [key e], storing [f e] *)
Section PushAll.
Context {E V : Type} (key : E -> K) (f : E -> V).
Definition push_all (es : list E) (G : list (K * list V)) : list (K * list V) :=
  fold_left (fun G e => bt_push cmp (key e) (f e) G) es G.

Lemma push_all_app a b G : push_all (a ++ b) G = push_all b (push_all a G).
Proof. unfold push_all. apply fold_left_app. Qed.

Lemma push_all_sorted es : forall G, ksorted G -> ksorted (push_all es G).
Proof.
  induction es as [|e es IH]; intros G H; cbn [push_all fold_left]; [exact H|].
  apply IH. apply bt_push_sorted. exact H.
Qed.

Lemma push_all_group t es : forall G, ksorted G ->
  group_of cmp t (push_all es G) =
  group_of cmp t G ++ map f (filter (fun e => is_eq (cmp (key e) t)) es).
Proof.
  induction es as [|e es IH]; intros G H; cbn [push_all fold_left filter map].
  - rewrite app_nil_r. reflexivity.
  - fold (push_all es (bt_push cmp (key e) (f e) G)).
    rewrite IH by (apply bt_push_sorted; exact H). rewrite group_of_push by exact H.
    destruct (is_eq (cmp (key e) t)); [|reflexivity].
    cbn [map]. rewrite <- app_assoc. reflexivity.
Qed.

Lemma push_all_In es : forall G k vs x, In (k, vs) (push_all es G) -> In x vs ->
  (exists e, In e es /\ key e = k /\ x = f e) \/ exists vs0, In (k, vs0) G /\ In x vs0.
Proof.
  induction es as [|e es IH]; intros G k vs x H Hx; cbn [push_all fold_left] in H.
  - right. exists vs. split; assumption.
  - destruct (IH _ _ _ _ H Hx) as [(e' & H1 & H2 & H3)|(vs0 & H1 & H2)].
    + left. exists e'. repeat split; [right; exact H1|exact H2|exact H3].
    + destruct (bt_push_In _ _ _ _ _ _ H1 H2) as [[-> ->]|Hr].
      * left. exists e. repeat split. left. reflexivity.
      * right. exact Hr.
Qed.

Lemma push_all_length es : forall G,
  length (concat (map snd (push_all es G))) = (length es + length (concat (map snd G)))%nat.
Proof.
  induction es as [|e es IH]; intros G; cbn [push_all fold_left length]; [reflexivity|].
  fold (push_all es (bt_push cmp (key e) (f e) G)). rewrite IH, bt_push_length. lia.
Qed.

Lemma push_all_nonempty es : forall G,
  Forall (fun g => snd g <> []) G -> Forall (fun g => snd g <> []) (push_all es G).
Proof.
  induction es as [|e es IH]; intros G H; cbn [push_all fold_left]; [exact H|].
  apply IH. apply bt_push_nonempty. exact H.
Qed.

(* from the empty map *)
Lemma push_all_nil_sorted es : ksorted (push_all es []).
Proof. apply push_all_sorted. constructor. Qed.

Lemma push_all_nil_group t es :
  group_of cmp t (push_all es []) = map f (filter (fun e => is_eq (cmp (key e) t)) es).
Proof. rewrite push_all_group by constructor. reflexivity. Qed.

Lemma push_all_nil_In es k vs x : In (k, vs) (push_all es []) -> In x vs ->
  exists e, In e es /\ key e = k /\ x = f e.
Proof.
  intros H Hx. destruct (push_all_In es [] k vs x H Hx) as [H1|(vs0 & [] & _)]. exact H1.
Qed.

Lemma push_all_nil_length es : length (concat (map snd (push_all es []))) = length es.
Proof. rewrite push_all_length. cbn [map concat length]. lia. Qed.
End PushAll.

End BT.

(* mapping the stored values of a grouped list *)
Definition gmap {K V W} (f : V -> W) (G : list (K * list V)) : list (K * list W) :=
  map (fun g => (fst g, map f (snd g))) G.

Lemma gmap_concat {K V W} (f : V -> W) (G : list (K * list V)) :
  concat (map snd (gmap f G)) = map f (concat (map snd G)).
Proof.
  induction G as [|g G IH]; cbn [gmap map concat snd]; [reflexivity|].
  rewrite map_app. f_equal. exact IH.
Qed.

Lemma gmap_sorted {K V W} (cmp : K -> K -> comparison) (f : V -> W) (G : list (K * list V)) :
  ksorted cmp G -> ksorted cmp (gmap f G).
Proof.
  unfold ksorted, gmap. intros H. induction H as [|g G Hs IH Hall]; cbn [map]; constructor; [exact IH|].
  apply Forall_map. eapply Forall_impl; [|exact Hall]. intros y Hy. exact Hy.
Qed.

Lemma gmap_group {K V W} (cmp : K -> K -> comparison) (f : V -> W) t (G : list (K * list V)) :
  group_of cmp t (gmap f G) = map f (group_of cmp t G).
Proof.
  unfold group_of, gmap. induction G as [|g G IH]; cbn [map find fst]; [reflexivity|].
  destruct (is_eq (cmp (fst g) t)); [reflexivity|exact IH].
Qed.

Lemma gmap_In {K V W} (f : V -> W) (G : list (K * list V)) k ws :
  In (k, ws) (gmap f G) -> exists vs, In (k, vs) G /\ ws = map f vs.
Proof.
  unfold gmap. intros H. apply in_map_iff in H. destruct H as ([k' vs] & H1 & H2).
  cbn [fst snd] in H1. inversion H1; subst. exists vs. split; [exact H2|reflexivity].
Qed.

Lemma is_eq_lex a b : is_eq (lex_cmp a b) = str_eqb a b.
Proof.
  destruct (str_eqb a b) eqn:E.
  - apply lex_cmp_eqb in E. rewrite E. reflexivity.
  - destruct (lex_cmp a b) eqn:E2; try reflexivity. apply lex_cmp_eqb in E2. congruence.
Qed.

Lemma is_eq_pair a1 a2 b1 b2 : is_eq (pair_cmp (a1, a2) (b1, b2)) = str_eqb a1 b1 && str_eqb a2 b2.
Proof.
  unfold pair_cmp. cbn [fst snd]. rewrite <- !is_eq_lex.
  destruct (lex_cmp a1 b1); cbn [is_eq andb]; reflexivity.
Qed.
