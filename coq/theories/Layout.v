(* Layout.v — property C09: an INDEPENDENT decoder of the documented cache layout
   (module documentation of src/cache/mod.rs:1-34 and the record definitions of
   src/cache/raw.rs:22-100), written without reference to the writer or reader models.
   [layout_ok bytes] checks: header (magic, version, counts); class entries strictly sorted by
   obfuscated name; member and by-params ranges tiling their sections in class order; members
   sorted by name within a class, by (name, params) in the by-params section; 8-aligned sections
   with zero padding; a string section of exactly the declared length; every referenced offset a
   valid length-prefixed UTF-8 string or, where absence is allowed, the sentinel. *)
From PG Require Import Base.
From PG.Gen Require Extracted.

Definition sentinel : N := 4294967295.
Definition is_some {A} (o : option A) : bool := match o with Some _ => true | None => false end.

(* own little-endian and LEB128 decoding *)
Fixpoint l_take {A} (n : nat) (l : list A) : option (list A * list A) :=
  match n with
  | O => Some ([], l)
  | S k => match l with
           | [] => None
           | x :: r => match l_take k r with Some (a, b) => Some (x :: a, b) | None => None end
           end
  end.
Definition l_word (l : list N) : option (N * list N) :=
  match l_take 4 l with
  | Some ([a; b; c; d], r) => Some (a + 256 * (b + 256 * (c + 256 * d)), r)
  | _ => None
  end.
Fixpoint l_words (k : nat) (l : list N) : option (list N * list N) :=
  match k with
  | O => Some ([], l)
  | S k' => match l_word l with
            | Some (w, r) => match l_words k' r with Some (ws, r') => Some (w :: ws, r') | None => None end
            | None => None
            end
  end.
Fixpoint l_records (width : nat) (n : nat) (l : list N) : option (list (list N) * list N) :=
  match n with
  | O => Some ([], l)
  | S n' => match l_words width l with
            | Some (ws, r) => match l_records width n' r with Some (rs, r') => Some (ws :: rs, r') | None => None end
            | None => None
            end
  end.
(* zero padding up to the next multiple of 8 of the absolute position *)
Definition l_pad (pos : N) (l : list N) : option (N * list N) :=
  let p := (8 - pos mod 8) mod 8 in
  match l_take (N.to_nat p) l with
  | Some (z, r) => if forallb (fun b => b =? 0) z then Some (pos + p, r) else None
  | None => None
  end.

(* a length-prefixed (unsigned LEB128) UTF-8 string at an offset of the string section *)
Fixpoint l_leb (fuel : nat) (shift : N) (l : list N) : option (N * list N) :=
  match fuel with
  | O => None
  | S f => match l with
           | [] => None
           | b :: r => if b <? 128 then Some (b * 2 ^ shift, r)
                       else match l_leb f (shift + 7) r with
                            | Some (v, r') => Some ((b - 128) * 2 ^ shift + v, r')
                            | None => None
                            end
           end
  end.
Definition l_string (strings : list N) (off : N) : option (list N) :=
  if lenN strings <? off then None else
  match l_leb 5 0 (skipn (N.to_nat off) strings) with
  | Some (len, r) => match l_take (N.to_nat len) r with
                     | Some (s, _) => if utf8_valid s && negb (is_empty s) then Some s else None
                     | None => None
                     end
  | None => None
  end.
Definition l_string_or_absent (strings : list N) (off : N) : bool :=
  (off =? sentinel) || is_some (l_string strings off).

Definition wd (r : list N) (i : nat) : N := nth i r 0.

Fixpoint strictly_increasing (cmp : list N -> list N -> comparison) (l : list (list N)) : bool :=
  match l with
  | a :: ((b :: _) as rest) => (match cmp a b with Lt => true | _ => false end) && strictly_increasing cmp rest
  | _ => true
  end.
Fixpoint non_decreasing {K} (cmp : K -> K -> comparison) (l : list K) : bool :=
  match l with
  | a :: ((b :: _) as rest) => (match cmp a b with Gt => false | _ => true end) && non_decreasing cmp rest
  | _ => true
  end.

Definition opt_all {A} (l : list (option A)) : option (list A) :=
  fold_right (fun o acc => match o, acc with Some x, Some xs => Some (x :: xs) | _, _ => None end) (Some []) l.

(* class ranges tile a section: offsets are the running sum of the lengths *)
Fixpoint tiles (off_idx len_idx : nat) (pos : N) (classes : list (list N)) : option N :=
  match classes with
  | [] => Some pos
  | c :: rest => if wd c off_idx =? pos then tiles off_idx len_idx (pos + wd c len_idx) rest else None
  end.

Definition range {A} (l : list A) (start len : N) : list A := firstn (N.to_nat len) (skipn (N.to_nat start) l).

Definition member_ok (strings : list N) (m : list N) : bool :=
  is_some (l_string strings (wd m 0)) && is_some (l_string strings (wd m 5)) &&
  l_string_or_absent strings (wd m 3) && l_string_or_absent strings (wd m 4) && l_string_or_absent strings (wd m 8).

Definition name_of (strings : list N) (off : N) : list N :=
  match l_string strings off with Some s => s | None => [] end.

Definition magic_word : N :=
  match Extracted.cache_magic_bytes with
  | [a; b; c; d] => a + 256 * (b + 256 * (c + 256 * d))
  | _ => 0
  end.

Definition layout_ok (bytes : list N) : bool :=
  match l_words 6 bytes with
  | None => false
  | Some (hdr, rest) =>
    let nc := wd hdr 2 in let nm := wd hdr 3 in let np := wd hdr 4 in let sb := wd hdr 5 in
    (wd hdr 0 =? magic_word) && (wd hdr 1 =? Extracted.cache_version) &&
    match l_pad 24 rest with
    | None => false
    | Some (pos, rest) =>
      match l_records 7 (N.to_nat nc) rest with
      | None => false
      | Some (classes, rest) =>
        match l_pad (pos + 28 * nc) rest with
        | None => false
        | Some (pos, rest) =>
          match l_records 9 (N.to_nat nm) rest with
          | None => false
          | Some (members, rest) =>
            match l_pad (pos + 36 * nm) rest with
            | None => false
            | Some (pos, rest) =>
              match l_records 9 (N.to_nat np) rest with
              | None => false
              | Some (byparams, rest) =>
                match l_pad (pos + 36 * np) rest with
                | None => false
                | Some (_, strings) =>
                  (* the string section has exactly the declared length *)
                  (lenN strings =? sb) &&
                  (* class entries: readable names, optional file, strictly sorted *)
                  forallb (fun c => is_some (l_string strings (wd c 0)) && is_some (l_string strings (wd c 1))
                                    && l_string_or_absent strings (wd c 2)) classes &&
                  strictly_increasing lex_cmp (map (fun c => name_of strings (wd c 0)) classes) &&
                  (* ranges tile both sections exactly, in class order *)
                  (match tiles 3 4 0 classes with Some e => e =? nm | None => false end) &&
                  (match tiles 5 6 0 classes with Some e => e =? np | None => false end) &&
                  (* member entries: strings, and the order inside every class range *)
                  forallb (member_ok strings) members && forallb (member_ok strings) byparams &&
                  forallb (fun c =>
                    non_decreasing lex_cmp (map (fun m => name_of strings (wd m 0)) (range members (wd c 3) (wd c 4))) &&
                    non_decreasing pair_cmp
                      (map (fun m => (name_of strings (wd m 0),
                                      if wd m 8 =? sentinel then [] else name_of strings (wd m 8)))
                           (range byparams (wd c 5) (wd c 6)))) classes
                end
              end
            end
          end
        end
      end
    end
  end.
