(* CacheProofs.v — the cache written from a record list and read back answers every query exactly as the
   declarative specification of Spec.v (the central refinement: properties C01-C04 for the cache). *)
From Coq Require Import Lia Sorted.
From PG Require Import Base Mapping Spec CacheWriter CacheReader CacheStructDefs BinSearchProofs LexOrder
  StringTableProofs MapperProofs BtLemmas Domain WriterInv.

(* ------------------------------------------------------------------ *)
(* 1. reading strings of the final table                                *)
(* ------------------------------------------------------------------ *)
Section Table.
Variable T : stab.
Hypothesis Tinv : stab_inv T.
Hypothesis Tsz : lenN (stab_bytes T) < U32.
Let sb := stab_bytes T.

Lemma indexed_facts s off : assoc_get s (st_index T) = Some off -> utf8_valid s = true ->
  soff T s = off /\ off < lenN sb /\ read_string sb off = Some s.
Proof.
  intros Hi Hu.
  pose proof (offset_lt_len T s off Tinv Hi) as Hlt.
  destruct Tinv as [Hlen [Hidx _]]. destruct (Hidx _ _ Hi) as [Hne [pre [post [Hb Hp]]]].
  rewrite Hlen in Hlt. unfold sb in *.
  assert (Hs : lenN s < 2 ^ 64).
  { assert (lenN s <= lenN (stab_bytes T)). { rewrite Hb, !lenN_app. lia. }
    assert (U32 < 2 ^ 64) by (vm_compute; reflexivity). lia. }
  split; [|split; [exact Hlt|]].
  - unfold soff. destruct s as [|c s]; [congruence|]. cbn [is_empty]. rewrite Hi. apply u32_small. lia.
  - pose proof (read_indexed T s off [] Tinv Hi Hu Hs) as Hr. rewrite app_nil_r in Hr. exact Hr.
Qed.

Lemma rd_ok s : inserted T s -> str_ok s = true ->
  read_string sb (soff T s) = Some s /\ (soff T s =? MAX32) = false /\ soff T s < U32.
Proof.
  intros Hi Hok. unfold str_ok in Hok. apply andb_true_iff in Hok. destruct Hok as [Hne Hu].
  destruct Hi as [->|[off Hi]]; [discriminate Hne|].
  destruct (indexed_facts s off Hi Hu) as (H1 & H2 & H3). rewrite H1.
  pose proof Tsz as Hsz. unfold sb in *.
  split; [exact H3|]. split; [apply N.eqb_neq; unfold MAX32, U32 in *; lia|lia].
Qed.

Lemma rd_sentinel : read_string sb MAX32 = None.
Proof. apply read_string_sentinel. exact Tsz. Qed.

Lemma soff_lt s : soff T s < U32.
Proof.
  unfold soff. destruct (is_empty s); [vm_compute; reflexivity|].
  destruct (assoc_get s (st_index T)); [apply u32_lt|vm_compute; reflexivity].
Qed.

Lemma ooff_lt o : ooff T o < U32.
Proof. destruct o; [apply soff_lt|vm_compute; reflexivity]. Qed.

Lemma rd_args s : inserted T s -> utf8_valid s = true ->
  match read_string sb (soff T s) with Some p => p | None => [] end = s.
Proof.
  intros Hi Hu. destruct s as [|c s].
  - unfold soff. cbn [is_empty]. rewrite rd_sentinel. reflexivity.
  - destruct (rd_ok (c :: s) Hi) as (H & _); [unfold str_ok; cbn [is_empty negb andb]; exact Hu|].
    rewrite H. reflexivity.
Qed.

Lemma soff_inj s1 s2 : inserted T s1 -> inserted T s2 -> s1 <> [] -> s2 <> [] ->
  (soff T s1 =? soff T s2) = str_eqb s1 s2.
Proof.
  intros [->|[o1 H1]] [->|[o2 H2]] N1 N2; try congruence.
  assert (Hlen : st_len T < U32) by (destruct Tinv as [Hl _]; rewrite Hl; exact Tsz).
  destruct (stab_offsets_inj_u32 T s1 s2 o1 o2 Tinv Hlen H1 H2) as (Hiff & _).
  unfold soff. destruct s1 as [|a s1]; [congruence|]. destruct s2 as [|b s2]; [congruence|].
  cbn [is_empty]. rewrite H1, H2.
  destruct (str_eqb (a :: s1) (b :: s2)) eqn:E.
  - apply str_eqb_eq in E. apply N.eqb_eq. apply Hiff. exact E.
  - apply N.eqb_neq. intros H. apply Hiff in H. apply str_eqb_neq in E. contradiction.
Qed.

(* ------------------------------------------------------------------ *)
(* 2. entries in the domain, and what the reader sees of them           *)
(* ------------------------------------------------------------------ *)
Definition ostr_ok (o : option (list N)) : bool := match o with Some s => str_ok s | None => true end.

Definition entry_dom (e : entry) : bool :=
  str_ok (e_obf e) && str_ok (e_orig e) && utf8_valid (e_args e) && ostr_ok (e_ocls e) && ostr_ok (e_file e) &&
  num_ok (e_start e) && num_ok (e_end e) && num_ok (e_os e) &&
  (match e_oe e with Some y => num_ok y && (0 <? e_end e) | None => true end).

Definition oinserted (o : option (list N)) : Prop := match o with Some s => inserted T s | None => True end.

Definition entry_ins (e : entry) : Prop :=
  inserted T (e_obf e) /\ inserted T (e_orig e) /\ inserted T (e_args e) /\
  oinserted (e_ocls e) /\ oinserted (e_file e).

Definition entry_good (e : entry) : Prop := entry_dom e = true /\ entry_ins e.

Definition mw (e : entry) : list N := member_words (member_of T e).

Lemma mw_words e :
  w (mw e) 0 = soff T (e_obf e) /\ w (mw e) 1 = e_start e /\ w (mw e) 2 = e_end e /\
  w (mw e) 3 = ooff T (e_ocls e) /\ w (mw e) 4 = ooff T (e_file e) /\ w (mw e) 5 = soff T (e_orig e) /\
  w (mw e) 6 = e_os e /\ w (mw e) 7 = oe_word (e_oe e) /\ w (mw e) 8 = soff T (e_args e).
Proof. repeat split; reflexivity. Qed.

Variable K : cache.
Hypothesis Kstr : k_strings K = sb.

Record entry_view (e : entry) : Prop := {
  ev_obf : read_string sb (soff T (e_obf e)) = Some (e_obf e);
  ev_orig : read_string sb (soff T (e_orig e)) = Some (e_orig e);
  ev_args : match read_string sb (soff T (e_args e)) with Some p => p | None => [] end = e_args e;
  ev_cls : forall fclass, match read_string sb (ooff T (e_ocls e)) with Some s => s | None => fclass end =
                          match e_ocls e with Some k => k | None => fclass end;
  ev_cls_max : (ooff T (e_ocls e) =? MAX32) = match e_ocls e with Some _ => false | None => true end;
  ev_file : match e_file e with
            | Some f => (ooff T (e_file e) =? MAX32) = false /\ read_string sb (ooff T (e_file e)) = Some f
            | None => ooff T (e_file e) = MAX32
            end;
  ev_oe : (oe_word (e_oe e) =? MAX32) = match e_oe e with Some _ => false | None => true end;
  ev_rng : forall y, e_oe e = Some y -> 0 < e_end e /\ e_end e < MAX32 /\ e_os e < MAX32 }.

Lemma entry_good_view e : entry_good e -> entry_view e.
Proof.
  intros [Hd (I1 & I2 & I3 & I4 & I5)]. unfold entry_dom in Hd.
  do 8 (apply andb_true_iff in Hd; let H := fresh "D" in destruct Hd as [Hd H]).
  constructor.
  - apply rd_ok; assumption.
  - apply rd_ok; assumption.
  - apply rd_args; assumption.
  - intros fclass. destruct (e_ocls e) as [c|]; cbn [ooff].
    + destruct (rd_ok c I4 D4) as (H & _). rewrite H. reflexivity.
    + rewrite rd_sentinel. reflexivity.
  - destruct (e_ocls e) as [c|]; cbn [ooff]; [apply (rd_ok c I4 D4)|reflexivity].
  - destruct (e_file e) as [f|]; cbn [ooff]; [|reflexivity].
    destruct (rd_ok f I5 D3) as (H1 & H2 & _). split; assumption.
  - destruct (e_oe e) as [y|]; cbn [oe_word]; [|reflexivity].
    apply andb_true_iff in D. destruct D as [Dy _]. unfold num_ok in Dy. apply N.ltb_lt in Dy.
    apply N.eqb_neq. lia.
  - intros y Hy. rewrite Hy in D. apply andb_true_iff in D. destruct D as [_ De].
    unfold num_ok in *. apply N.ltb_lt in De, D1, D0. auto.
Qed.

(* one step of iterate_with_lines on the words of an in-domain entry *)
Lemma c_with_lines_cons b file line e rest : entry_good e ->
  c_with_lines K (b_orig b) file line (mw e :: rest) =
  (if entry_applies e line then [(entry_class b e, e_orig e, entry_file b e file, entry_line e line)] else [])
  ++ c_with_lines K (b_orig b) file line rest.
Proof.
  intros Hg. pose proof (entry_good_view e Hg) as V.
  destruct (mw_words e) as (W0 & W1 & W2 & W3 & W4 & W5 & W6 & W7 & W8).
  cbn [c_with_lines]. rewrite Kstr, W1, W2, W3, W4, W5, W6, W7.
  unfold entry_applies.
  destruct ((0 <? e_end e) && ((line <? e_start e) || (e_end e <? line))) eqn:Eskip; cbn [negb app]; [reflexivity|].
  (* the line *)
  assert (Hline : (if (oe_word (e_oe e) =? MAX32) || (oe_word (e_oe e) =? e_os e) then Some (e_os e)
                   else if line <? e_start e then None
                   else if U64 <=? line - e_start e + e_os e then None
                   else Some (line - e_start e + e_os e)) = Some (entry_line e line)).
  { unfold entry_line. rewrite (ev_oe e V). destruct (e_oe e) as [y|] eqn:Ey; cbn [orb oe_word]; [|reflexivity].
    destruct (y =? e_os e); [reflexivity|].
    destruct (ev_rng e V y Ey) as (R1 & R2 & R3).
    apply N.ltb_lt in R1. rewrite R1 in Eskip. cbn [andb] in Eskip. apply orb_false_iff in Eskip.
    destruct Eskip as [E1 E2]. rewrite E1. apply N.ltb_ge in E1, E2.
    assert (Hsum : line - e_start e + e_os e < U64).
    { unfold MAX32, U64 in *. lia. }
    replace (U64 <=? line - e_start e + e_os e) with false by (symmetry; apply N.leb_gt; exact Hsum).
    f_equal. unfold MAX64, U64 in *. lia. }
  rewrite Hline.
  rewrite (ev_cls e V (b_orig b)). fold (entry_class b e).
  rewrite (ev_cls_max e V), (ev_orig e V).
  unfold entry_file. pose proof (ev_file e V) as Hf. destruct (e_file e) as [f|].
  - destruct Hf as [Hf1 Hf2]. rewrite Hf1, Hf2. cbn [negb]. destruct (str_eqb f synthetic); reflexivity.
  - rewrite Hf, N.eqb_refl. cbn [negb]. destruct (e_ocls e); reflexivity.
Qed.

Lemma c_with_lines_spec b file line m : forall es, Forall entry_good es ->
  c_with_lines K (b_orig b) file line (map mw (filter (by_obf m) es)) =
  flat_map (sline_frames b m line file) es.
Proof.
  induction es as [|e es IH]; intros Hg; [reflexivity|].
  inversion Hg as [|e0 es0 He Hg']; subst. specialize (IH Hg').
  cbn [filter flat_map]. unfold sline_frames at 1. change (by_obf m e) with (str_eqb (e_obf e) m).
  destruct (str_eqb (e_obf e) m); cbn [andb app]; [|exact IH].
  cbn [map]. rewrite c_with_lines_cons by exact He. rewrite IH. reflexivity.
Qed.

Lemma c_without_lines_spec b : forall es, Forall entry_good es ->
  c_without_lines K (b_orig b) (map mw es) = map (param_frame b) es.
Proof.
  induction es as [|e es IH]; intros Hg; [reflexivity|].
  inversion Hg as [|e0 es0 He Hg']; subst. specialize (IH Hg').
  pose proof (entry_good_view e He) as V.
  destruct (mw_words e) as (W0 & W1 & W2 & W3 & W4 & W5 & W6 & W7 & W8).
  cbn [map c_without_lines]. rewrite Kstr, W3, W5, (ev_cls e V (b_orig b)), (ev_orig e V), IH. reflexivity.
Qed.

(* ------------------------------------------------------------------ *)
(* 3. the range searches over a class's members                         *)
(* ------------------------------------------------------------------ *)
Lemma flat_map_snd {A B} (G : list (A * list B)) : flat_map snd G = concat (map snd G).
Proof. apply flat_map_concat_map. Qed.

Lemma members_range m es : Forall entry_good es ->
  find_range (fun r => cmp_str sb (w r 0) m) []
    (map member_words (flat_map snd (push_all lex_cmp e_obf (member_of T) es []))) =
  match map mw (filter (by_obf m) es) with [] => None | vs => Some vs end.
Proof.
  intros Hg. rewrite flat_map_snd, <- gmap_concat.
  set (G := push_all lex_cmp e_obf (member_of T) es []).
  rewrite (lex_find_range_grouped (fun r => cmp_str sb (w r 0) m) [] m (gmap member_words G)).
  - rewrite gmap_group. unfold G. rewrite (push_all_nil_group lex_cmp lex_cmp_eq lex_cmp_antisym lex_cmp_trans).
    rewrite map_map. fold mw.
    rewrite (filter_ext (fun e => is_eq (lex_cmp (e_obf e) m)) (by_obf m)); [reflexivity|].
    intros e. apply is_eq_lex.
  - apply gmap_sorted. apply (push_all_nil_sorted lex_cmp lex_cmp_antisym lex_cmp_trans).
  - intros k ws v Hin Hv. apply gmap_In in Hin. destruct Hin as (vs & Hin & ->).
    apply in_map_iff in Hv. destruct Hv as (m0 & <- & Hm0).
    destruct (push_all_nil_In lex_cmp lex_cmp_eq e_obf (member_of T) es k vs m0 Hin Hm0) as (e & He & Hk & ->).
    fold (mw e). destruct (mw_words e) as (W0 & _). rewrite W0.
    pose proof (entry_good_view e (proj1 (Forall_forall _ _) Hg e He)) as V.
    unfold cmp_str. rewrite (ev_obf e V), Hk. reflexivity.
Qed.

Lemma params_range m p es : Forall entry_good es ->
  find_range (fun r => cmp_name_params sb r m p) []
    (map member_words (flat_map snd (push_all pair_cmp pkey (member_of T) es []))) =
  match map mw (filter (by_obf_args m p) es) with [] => None | vs => Some vs end.
Proof.
  intros Hg. rewrite flat_map_snd, <- gmap_concat.
  set (G := push_all pair_cmp pkey (member_of T) es []).
  rewrite (find_range_grouped pair_cmp pair_cmp_eq pair_cmp_antisym pair_cmp_trans
             (fun r => cmp_name_params sb r m p) [] (m, p) (gmap member_words G)).
  - rewrite gmap_group. unfold G. rewrite (push_all_nil_group pair_cmp pair_cmp_eq pair_cmp_antisym pair_cmp_trans).
    rewrite map_map. fold mw.
    rewrite (filter_ext (fun e => is_eq (pair_cmp (pkey e) (m, p))) (by_obf_args m p)); [reflexivity|].
    intros e. apply is_eq_pair.
  - apply gmap_sorted. apply (push_all_nil_sorted pair_cmp pair_cmp_antisym pair_cmp_trans).
  - intros k ws v Hin Hv. apply gmap_In in Hin. destruct Hin as (vs & Hin & ->).
    apply in_map_iff in Hv. destruct Hv as (m0 & <- & Hm0).
    destruct (push_all_nil_In pair_cmp pair_cmp_eq pkey (member_of T) es k vs m0 Hin Hm0) as (e & He & Hk & ->).
    fold (mw e). destruct (mw_words e) as (W0 & _ & _ & _ & _ & _ & _ & _ & W8).
    pose proof (entry_good_view e (proj1 (Forall_forall _ _) Hg e He)) as V.
    unfold cmp_name_params. rewrite W0, W8, (ev_obf e V), (ev_args e V), <- Hk. reflexivity.
Qed.

End Table.

Arguments entry_view : clear implicits.

(* ------------------------------------------------------------------ *)
(* 4. the flattened sections                                            *)
(* ------------------------------------------------------------------ *)
Definition cls_ms (kc : list N * cip) : list member := flat_map snd (cip_members (snd kc)).
Definition cls_ps (kc : list N * cip) : list member := flat_map snd (cip_byparams (snd kc)).
Definition fl_ms (L : list (list N * cip)) : list member := flat_map cls_ms L.
Definition fl_ps (L : list (list N * cip)) : list member := flat_map cls_ps L.
Fixpoint fl_cs (L : list (list N * cip)) (nm np : N) : list classrec :=
  match L with
  | [] => []
  | kc :: r => set_offs (cip_class (snd kc)) nm np :: fl_cs r (nm + lenN (cls_ms kc)) (np + lenN (cls_ps kc))
  end.

Lemma flatten_eq L : forall nm np, flatten L nm np = (fl_cs L nm np, fl_ms L, fl_ps L).
Proof.
  induction L as [|[k c] r IH]; intros nm np; cbn [flatten]; [reflexivity|].
  rewrite IH. reflexivity.
Qed.

Lemma fl_ms_app a b : fl_ms (a ++ b) = fl_ms a ++ fl_ms b.
Proof. apply flat_map_app. Qed.
Lemma fl_ps_app a b : fl_ps (a ++ b) = fl_ps a ++ fl_ps b.
Proof. apply flat_map_app. Qed.

Lemma fl_cs_app L1 L2 : forall nm np,
  fl_cs (L1 ++ L2) nm np = fl_cs L1 nm np ++ fl_cs L2 (nm + lenN (fl_ms L1)) (np + lenN (fl_ps L1)).
Proof.
  induction L1 as [|kc r IH]; intros nm np; cbn [app fl_cs].
  - unfold fl_ms, fl_ps. cbn [flat_map]. rewrite lenN_nil, !N.add_0_r. reflexivity.
  - rewrite IH. unfold fl_ms, fl_ps. cbn [flat_map]. rewrite !lenN_app, !N.add_assoc. reflexivity.
Qed.

Lemma write_struct_eq rs :
  let st := wrun wstate_init rs in
  let L := flush st in
  cs_classes (write_struct rs) = fl_cs L 0 0 /\ cs_members (write_struct rs) = fl_ms L /\
  cs_byparams (write_struct rs) = fl_ps L /\ cs_strings (write_struct rs) = stab_bytes (w_tab st) /\
  cs_num_members (write_struct rs) = fold_left (fun a c => u32 (a + c_mlen (cip_class (snd c)))) L 0 /\
  cs_num_byparams (write_struct rs) = fold_left (fun a c => u32 (a + c_plen (cip_class (snd c)))) L 0.
Proof. cbv zeta. unfold write_struct. rewrite flatten_eq. repeat split; reflexivity. Qed.

Lemma cw_words c a b :
  w (class_words (set_offs c a b)) 0 = c_obf c /\ w (class_words (set_offs c a b)) 1 = c_orig c /\
  w (class_words (set_offs c a b)) 2 = c_file c /\
  w (class_words (set_offs c a b)) 3 = u32 a /\ w (class_words (set_offs c a b)) 4 = c_mlen c /\
  w (class_words (set_offs c a b)) 5 = u32 b /\ w (class_words (set_offs c a b)) 6 = c_plen c.
Proof. repeat split; reflexivity. Qed.

Lemma fl_cs_cmp sb (P : comparison -> Prop) t l :
  Forall (fun kc => read_string sb (c_obf (cip_class (snd kc))) = Some (fst kc)) l ->
  Forall (fun kc => P (lex_cmp (fst kc) t)) l ->
  forall a b, Forall (fun r => P (cmp_str sb (w r 0) t)) (map class_words (fl_cs l a b)).
Proof.
  intros H1 H2. induction l as [|kc l IH]; intros a b; cbn [fl_cs map]; constructor.
  - inversion H1; inversion H2; subst. destruct (cw_words (cip_class (snd kc)) a b) as (W0 & _).
    rewrite W0. unfold cmp_str. match goal with H : read_string _ _ = _ |- _ => rewrite H end. assumption.
  - inversion H1; inversion H2; subst. apply IH; assumption.
Qed.

Lemma slice_mid {A B} (g : A -> B) (a b c : list A) :
  slice (map g (a ++ b ++ c)) (lenN a) (lenN b) = Some (map g b).
Proof.
  unfold slice. rewrite !map_app.
  replace (lenN (map g a ++ map g b ++ map g c) <? lenN a + lenN b) with false.
  2:{ symmetry. apply N.ltb_ge. rewrite !lenN_app. unfold lenN. rewrite !map_length. lia. }
  f_equal. unfold lenN. rewrite !Nat2N.id.
  rewrite <- (map_length g a), skipn_length_app. rewrite <- (map_length g b), firstn_length_app. reflexivity.
Qed.

Lemma Forall2_rev' {A B} (R : A -> B -> Prop) l l' : Forall2 R l l' -> Forall2 R (rev l) (rev l').
Proof.
  induction 1 as [|x y l l' Hxy HF IH]; cbn [rev]; [constructor|].
  apply Forall2_app; [exact IH|]. constructor; [exact Hxy|constructor].
Qed.

Lemma Forall2_In_l {A B} (R : A -> B -> Prop) l l' x : Forall2 R l l' -> In x l -> exists y, In y l' /\ R x y.
Proof.
  induction 1 as [|a b l l' Hab HF IH]; intros Hin; [contradiction|].
  destruct Hin as [<-|Hin]; [exists b; split; [left; reflexivity|exact Hab]|].
  destruct (IH Hin) as (y & Hy & Hr). exists y. split; [right; exact Hy|exact Hr].
Qed.

Lemma Forall2_find {A B} (R : A -> B -> Prop) (p : A -> bool) (q : B -> bool) l l' :
  Forall2 R l l' -> (forall a b, R a b -> p a = q b) ->
  match find p l with
  | Some a => exists b, find q l' = Some b /\ R a b
  | None => find q l' = None
  end.
Proof.
  intros HF Hpq. induction HF as [|a b l l' Hab HF IH]; [reflexivity|].
  cbn [find]. rewrite <- (Hpq a b Hab). destruct (p a); [|exact IH].
  exists b. split; [reflexivity|exact Hab].
Qed.

(* ------------------------------------------------------------------ *)
(* 5. in-domain entries                                                 *)
(* ------------------------------------------------------------------ *)
Lemma entry_lines_ok lm s en os oe : lm_ok lm = true -> entry_lines lm = (s, en, os, oe) ->
  num_ok s = true /\ num_ok en = true /\ num_ok os = true /\
  match oe with Some y => num_ok y && (0 <? en) | None => true end = true.
Proof.
  destruct lm as [l|]; cbn [lm_ok entry_lines].
  - intros H. apply andb_true_iff in H. destruct H as [H H5]. apply andb_true_iff in H. destruct H as [H H4].
    apply andb_true_iff in H. destruct H as [H H3]. apply andb_true_iff in H. destruct H as [H1 H2].
    destruct (lm_os l) as [x|]; intros E; inversion E; subst.
    + repeat split; try assumption. destruct (lm_oe l) as [y|]; [|reflexivity]. rewrite H5, H3. reflexivity.
    + repeat split; try assumption. rewrite H2, H3. reflexivity.
  - intros _ E. inversion E; subst. repeat split; reflexivity.
Qed.

Lemma entries_good T : forall body cf,
  (forall r, In r body -> rec_ok r = true /\ forall s, In s (rec_strings r) -> inserted T s) ->
  ostr_ok cf = true -> oinserted T cf ->
  Forall (entry_good T) (entries cf body).
Proof.
  induction body as [|r body IH]; intros cf Hall Hcf Hcfi; [constructor|].
  assert (Hall' : forall r, In r body -> rec_ok r = true /\ forall s, In s (rec_strings r) -> inserted T s).
  { intros r0 H0. apply Hall. right. exact H0. }
  destruct (Hall r (or_introl eq_refl)) as [Hrok Hrin].
  destruct r as [k v|o ob|ty o ob|ty orig obf args ocls lm]; cbn [entries].
  - cbn [rec_ok rec_strings] in Hrok, Hrin. destruct (str_eqb k source_file).
    + apply IH; [exact Hall'| |].
      * destruct v; [exact Hrok|reflexivity].
      * destruct v as [f|]; [|exact I]. apply Hrin. left. reflexivity.
    + apply IH; assumption.
  - apply IH; assumption.
  - apply IH; assumption.
  - destruct (entry_lines lm) as [[[s en] os] oe] eqn:El.
    constructor; [|apply IH; assumption].
    pose proof (lm_ok_of_rec _ _ _ _ _ _ Hrok) as Hlm.
    destruct (entry_lines_ok lm s en os oe Hlm El) as (N1 & N2 & N3 & N4).
    cbn [rec_ok] in Hrok. apply andb_true_iff in Hrok. destruct Hrok as [Hrok _].
    apply andb_true_iff in Hrok. destruct Hrok as [Hrok R4]. apply andb_true_iff in Hrok. destruct Hrok as [Hrok R3].
    apply andb_true_iff in Hrok. destruct Hrok as [R1 R2].
    cbn [rec_strings] in Hrin.
    split.
    + unfold entry_dom. cbn [e_obf e_orig e_args e_ocls e_file e_start e_end e_os e_oe].
      unfold ostr_ok at 1. rewrite R1, R2, R3, R4, Hcf, N1, N2, N3, N4. reflexivity.
    + unfold entry_ins. cbn [e_obf e_orig e_args e_ocls e_file]. repeat split.
      * apply Hrin. left. reflexivity.
      * apply Hrin. right. left. reflexivity.
      * apply Hrin. cbn [app]. right. right. apply in_or_app. right. left. reflexivity.
      * destruct ocls as [c|]; [|exact I]. apply Hrin. cbn [app]. right. right. left. reflexivity.
      * exact Hcfi.
Qed.

(* ------------------------------------------------------------------ *)
(* 6. the written cache                                                 *)
(* ------------------------------------------------------------------ *)
Lemma final_tab_inv rs : stab_inv (w_tab (wrun wstate_init rs)).
Proof. rewrite w_tab_wrun. apply stab_insert_all_spec. apply stab_inv_empty. Qed.

Lemma final_tab_inserted rs s : In s (flat_map rec_strings rs) -> inserted (w_tab (wrun wstate_init rs)) s.
Proof. rewrite w_tab_wrun. apply stab_insert_all_spec. apply stab_inv_empty. Qed.

Lemma blocks_In rs b : In b (blocks rs) -> forall r, In r (unblock b) -> In r rs.
Proof.
  unfold blocks. destruct (split_blocks rs) as [pre bs] eqn:E. cbn [snd]. intros Hb r Hr.
  destruct (split_blocks_inv rs pre bs E) as (-> & _). apply in_or_app. right.
  unfold unblocks. apply in_flat_map. exists b. split; assumption.
Qed.

Section Main.
Variable rs : list record.
Hypothesis Hdom : dom32 rs = true.
Hypothesis Hsz : sizes_ok rs = true.
Let st := wrun wstate_init rs.
Let T := w_tab st.
Let L := flush st.
Let K := cache_of_struct (write_struct rs).

Lemma sizes_facts : lenN (stab_bytes T) < U32 /\ lenN (fl_cs L 0 0) < U32 /\ lenN (fl_ms L) < U32 /\ lenN (fl_ps L) < U32.
Proof.
  pose proof Hsz as H. unfold sizes_ok in H. cbv zeta in H.
  destruct (write_struct_eq rs) as (E1 & E2 & E3 & E4 & _). rewrite E1, E2, E3, E4 in H.
  apply andb_true_iff in H. destruct H as [H H4]. apply andb_true_iff in H. destruct H as [H H3].
  apply andb_true_iff in H. destruct H as [H1 H2]. apply N.ltb_lt in H1, H2, H3, H4. auto.
Qed.

Lemma Tinv : stab_inv T.
Proof. apply final_tab_inv. Qed.
Lemma Tsz : lenN (stab_bytes T) < U32.
Proof. apply sizes_facts. Qed.
Lemma Kstr : k_strings K = stab_bytes T.
Proof. unfold K, cache_of_struct. cbn [k_strings]. apply (write_struct_eq rs). Qed.
Lemma Kcls : k_classes K = map class_words (fl_cs L 0 0).
Proof. unfold K, cache_of_struct. cbn [k_classes]. f_equal. apply (write_struct_eq rs). Qed.
Lemma Kmem : k_members K = map member_words (fl_ms L).
Proof. unfold K, cache_of_struct. cbn [k_members]. f_equal. apply (write_struct_eq rs). Qed.
Lemma Kpar : k_byparams K = map member_words (fl_ps L).
Proof. unfold K, cache_of_struct. cbn [k_byparams]. f_equal. apply (write_struct_eq rs). Qed.

Lemma rec_facts r : In r rs -> rec_ok r = true /\ forall s, In s (rec_strings r) -> inserted T s.
Proof.
  intros Hin. split.
  - unfold dom32 in Hdom. rewrite forallb_forall in Hdom. apply Hdom. exact Hin.
  - intros s Hs. apply final_tab_inserted. apply in_flat_map. exists r. split; assumption.
Qed.

Lemma block_facts b : In b (blocks rs) ->
  str_ok (b_orig b) = true /\ str_ok (b_obf b) = true /\ inserted T (b_orig b) /\ inserted T (b_obf b) /\
  Forall (entry_good T) (block_entries b).
Proof.
  intros Hb. pose proof (blocks_In rs b Hb) as Hin.
  destruct (rec_facts (RClass (b_orig b) (b_obf b)) (Hin _ (or_introl eq_refl))) as [Hok Hins].
  cbn [rec_ok] in Hok. apply andb_true_iff in Hok. destruct Hok as [Ho Hob].
  repeat split; try assumption.
  - apply Hins. right. left. reflexivity.
  - apply Hins. left. reflexivity.
  - unfold block_entries. apply entries_good; [|reflexivity|exact I].
    intros r Hr. apply rec_facts. apply Hin. right. exact Hr.
Qed.

Lemma L_rep : exists cips, Forall2 (cip_rep T) cips (blocks rs) /\ L = ins_all lex_cmp cip_name cips [].
Proof. apply (write_rep rs Hdom). Qed.

Lemma L_sorted : ksorted lex_cmp L.
Proof.
  destruct L_rep as (cips & _ & ->).
  apply (ins_all_sorted lex_cmp lex_cmp_eq lex_cmp_antisym lex_cmp_trans). constructor.
Qed.

Lemma L_classes : Forall (fun kc => exists b, In b (blocks rs) /\ cip_rep T (snd kc) b /\ fst kc = b_obf b) L.
Proof.
  destruct L_rep as (cips & HF & HL). apply Forall_forall. intros x Hx. rewrite HL in Hx.
  apply ins_all_In in Hx. destruct Hx as [[]|[Hc Hk]].
  destruct (Forall2_In_l _ _ _ _ HF Hc) as (b & Hb & Hr). exists b. split; [exact Hb|]. split; [exact Hr|].
  rewrite Hk. apply Hr.
Qed.

Lemma L_readable : Forall (fun kc => read_string (stab_bytes T) (c_obf (cip_class (snd kc))) = Some (fst kc)) L.
Proof.
  eapply Forall_impl; [|exact L_classes]. intros kc (b & Hb & Hr & Hk).
  destruct (block_facts b Hb) as (_ & Hok & _ & Hins & _).
  destruct Hr as (_ & Hobf & _). rewrite Hobf, Hk. apply (rd_ok T Tinv Tsz); assumption.
Qed.

Lemma class_lookup t :
  match block_of rs t with
  | Some b => exists c lo hi, L = lo ++ [(t, c)] ++ hi /\ cip_rep T c b /\
                Forall (fun y => lex_cmp (fst y) t = Lt) lo /\ Forall (fun y => lex_cmp (fst y) t = Gt) hi
  | None => forall y, In y L -> lex_cmp (fst y) t <> Eq
  end.
Proof.
  pose proof (bt_find_split lex_cmp lex_cmp_eq lex_cmp_antisym lex_cmp_trans t L L_sorted) as Hsplit.
  destruct L_rep as (cips & HF & HL).
  assert (Ef : bt_find lex_cmp t L =
               match find (fun c => is_eq (lex_cmp (cip_name c) t)) (rev cips) with
               | Some c => Some (cip_name c, c) | None => None end).
  { rewrite HL. rewrite (bt_find_ins_all lex_cmp lex_cmp_eq lex_cmp_antisym). reflexivity. }
  rewrite Ef in Hsplit. clear Ef.
  pose proof (Forall2_find (cip_rep T) (fun c => is_eq (lex_cmp (cip_name c) t)) (fun b => str_eqb (b_obf b) t)
                (rev cips) (rev (blocks rs)) (Forall2_rev' _ _ _ HF)) as Hfind.
  fold (block_of rs t) in Hfind.
  destruct (find (fun c => is_eq (lex_cmp (cip_name c) t)) (rev cips)) as [c|].
  - destruct Hfind as (b & Hb & Hr).
    { intros a b (Hn & _). rewrite Hn. apply is_eq_lex. }
    rewrite Hb. destruct Hsplit as (lo & hi & Hl & Hlo & Heq & Hhi). cbn [fst] in Heq.
    apply lex_cmp_eq in Heq. rewrite Heq in Hl. exists c, lo, hi. auto.
  - rewrite Hfind.
    + exact Hsplit.
    + intros a b (Hn & _). rewrite Hn. apply is_eq_lex.
Qed.

(* everything the four queries need to know about one class name *)
Lemma class_view t :
  match block_of rs t with
  | None => get_class K t = None
  | Some b => exists cl, get_class K t = Some cl /\
      read_string (stab_bytes T) (w cl 1) = Some (b_orig b) /\
      slice (k_members K) (w cl 3) (w cl 4) =
        Some (map member_words (flat_map snd (push_all lex_cmp e_obf (member_of T) (block_entries b) []))) /\
      slice (k_byparams K) (w cl 5) (w cl 6) =
        Some (map member_words (flat_map snd (push_all pair_cmp pkey (member_of T) (block_param_entries b) []))) /\
      Forall (entry_good T) (block_entries b)
  end.
Proof.
  pose proof (class_lookup t) as Hl. unfold get_class. rewrite Kcls, Kstr.
  destruct (block_of rs t) as [b|] eqn:Eb.
  - destruct Hl as (c & lo & hi & HL & Hr & Hlo & Hhi).
    pose proof L_readable as Hrd. rewrite HL in Hrd.
    apply Forall_app in Hrd. destruct Hrd as [Hrd1 Hrd2]. apply Forall_app in Hrd2. destruct Hrd2 as [Hrd2 Hrd3].
    inversion Hrd2 as [|x0 l0 Hrdc _]; subst x0 l0. cbn [fst snd] in Hrdc.
    set (cl := class_words (set_offs (cip_class c) (lenN (fl_ms lo)) (lenN (fl_ps lo)))).
    assert (Hcs : map class_words (fl_cs L 0 0) =
                  map class_words (fl_cs lo 0 0) ++ [cl] ++
                  map class_words (fl_cs hi (lenN (fl_ms lo) + lenN (cls_ms (t, c))) (lenN (fl_ps lo) + lenN (cls_ps (t, c))))).
    { rewrite HL, !fl_cs_app, !map_app. cbn [fl_cs map app]. rewrite !N.add_0_l.
      unfold fl_ms at 3, fl_ps at 3. cbn [flat_map]. rewrite !app_nil_r. reflexivity. }
    destruct (binary_search_unique_nth_error (fun r => cmp_str (stab_bytes T) (w r 0) t) []
                (map class_words (fl_cs L 0 0)) _ cl _ Hcs) as (i & Hi & Hnth).
    { apply (fl_cs_cmp (stab_bytes T) (fun x => x = Lt) t lo Hrd1 Hlo). }
    { unfold cl. destruct (cw_words (cip_class c) (lenN (fl_ms lo)) (lenN (fl_ps lo))) as (W0 & _).
      rewrite W0. unfold cmp_str. rewrite Hrdc. apply lex_cmp_refl. }
    { apply (fl_cs_cmp (stab_bytes T) (fun x => x = Gt) t hi Hrd3 Hhi). }
    rewrite Hi, Hnth. exists cl. split; [reflexivity|].
    assert (Hbin : In b (blocks rs)) by (apply (block_of_In rs t b Eb)).
    destruct (block_facts b Hbin) as (Hoo & _ & Hoi & _ & Hgood).
    destruct Hr as (_ & _ & Horig & Hmem & Hbyp & Hml & Hpl & _).
    destruct (cw_words (cip_class c) (lenN (fl_ms lo)) (lenN (fl_ps lo))) as (_ & W1 & _ & W3 & W4 & W5 & W6).
    fold cl in W1, W3, W4, W5, W6. rewrite W1, W3, W4, W5, W6.
    destruct sizes_facts as (_ & _ & Sm & Sp).
    rewrite HL in Sm, Sp. rewrite !fl_ms_app in Sm. rewrite !fl_ps_app in Sp.
    unfold fl_ms at 2 in Sm. unfold fl_ps at 2 in Sp. cbn [flat_map] in Sm, Sp. rewrite app_nil_r in Sm, Sp.
    rewrite !lenN_app in Sm, Sp.
    assert (Hlm : lenN (cls_ms (t, c)) = lenN (block_entries b)).
    { unfold cls_ms. cbn [snd]. rewrite Hmem, flat_map_snd. unfold lenN. rewrite push_all_nil_length. reflexivity. }
    assert (Hlp : lenN (cls_ps (t, c)) = lenN (block_param_entries b)).
    { unfold cls_ps. cbn [snd]. rewrite Hbyp, flat_map_snd. unfold lenN. rewrite push_all_nil_length. reflexivity. }
    split; [|split; [|split]].
    + rewrite Horig. apply (rd_ok T Tinv Tsz); assumption.
    + rewrite Kmem, HL, !fl_ms_app. unfold fl_ms at 2. cbn [flat_map]. rewrite app_nil_r.
      rewrite Hml, <- Hlm, !u32_small by lia. rewrite slice_mid. unfold cls_ms. cbn [snd]. rewrite Hmem. reflexivity.
    + rewrite Kpar, HL, !fl_ps_app. unfold fl_ps at 2. cbn [flat_map]. rewrite app_nil_r.
      rewrite Hpl, <- Hlp, !u32_small by lia. rewrite slice_mid. unfold cls_ps. cbn [snd]. rewrite Hbyp. reflexivity.
    + exact Hgood.
  - rewrite binary_search_none_gen; [reflexivity|].
    intros x Hx.
    assert (HF : Forall (fun r => cmp_str (stab_bytes T) (w r 0) t <> Eq) (map class_words (fl_cs L 0 0))).
    { apply (fl_cs_cmp (stab_bytes T) (fun c => c <> Eq) t L L_readable). apply Forall_forall. exact Hl. }
    exact (proj1 (Forall_forall _ _) HF x Hx).
Qed.

End Main.

(* ------------------------------------------------------------------ *)
(* 7. the main theorems                                                 *)
(* ------------------------------------------------------------------ *)
Definition C (rs : list record) : cache := cache_of_struct (write_struct rs).

Lemma str_ok_nonempty s : str_ok s = true -> s <> [].
Proof. intros H ->. discriminate H. Qed.

Lemma entry_good_orig T e : entry_good T e -> inserted T (e_orig e) /\ e_orig e <> [].
Proof.
  intros [Hd (_ & I2 & _)]. split; [exact I2|]. apply str_ok_nonempty.
  unfold entry_dom in Hd. do 7 (apply andb_true_iff in Hd; destruct Hd as [Hd _]).
  apply andb_true_iff in Hd. apply Hd.
Qed.

Lemma orig_offsets T (HT : stab_inv T) (HS : lenN (stab_bytes T) < U32) e : entry_good T e ->
  forall es, Forall (entry_good T) es ->
  forallb (fun r => w r 5 =? w (mw T e) 5) (map (mw T) es) =
  forallb (fun e' => str_eqb (e_orig e') (e_orig e)) es.
Proof.
  intros He. destruct (entry_good_orig T e He) as [Ie Ne].
  induction es as [|a es IH]; intros Hg; [reflexivity|].
  inversion Hg as [|a0 es0 Ha Hg']; subst. cbn [map forallb]. rewrite (IH Hg'). f_equal.
  destruct (entry_good_orig T a Ha) as [Ia Na].
  destruct (mw_words T a) as (_ & _ & _ & _ & _ & W5a & _). destruct (mw_words T e) as (_ & _ & _ & _ & _ & W5e & _).
  rewrite W5a, W5e. apply soff_inj; assumption.
Qed.

Lemma Forall_filter {A} (P : A -> Prop) (f : A -> bool) l : Forall P l -> Forall P (filter f l).
Proof.
  intros H. apply Forall_forall. intros x Hx. apply filter_In in Hx.
  exact (proj1 (Forall_forall _ _) H x (proj1 Hx)).
Qed.

Lemma param_entries_good T b : Forall (entry_good T) (block_entries b) -> Forall (entry_good T) (block_param_entries b).
Proof.
  intros H. apply Forall_forall. intros x Hx. unfold block_param_entries in Hx.
  apply dedup_incl in Hx. apply filter_In in Hx. exact (proj1 (Forall_forall _ _) H x (proj1 Hx)).
Qed.

Theorem cache_class rs : dom32 rs = true -> sizes_ok rs = true ->
  forall c, c_remap_class (C rs) c = Sclass rs c.
Proof.
  intros Hd Hs c. pose proof (class_view rs Hd Hs c) as V. unfold c_remap_class, Sclass, C.
  destruct (block_of rs c) as [b|].
  - destruct V as (cl & Hg & Ho & _). rewrite Hg, (Kstr rs), Ho. reflexivity.
  - rewrite V. reflexivity.
Qed.
Print Assumptions cache_class.

Theorem cache_method rs : dom32 rs = true -> sizes_ok rs = true ->
  forall c m, c_remap_method (C rs) c m = Smethod rs c m.
Proof.
  intros Hd Hs c m. pose proof (class_view rs Hd Hs c) as V. unfold c_remap_method, Smethod, C.
  destruct (block_of rs c) as [b|]; [|rewrite V; reflexivity].
  destruct V as (cl & Hg & Ho & Hm & _ & Hgood). rewrite Hg, Hm, (Kstr rs).
  set (T := w_tab (wrun wstate_init rs)) in *.
  pose proof (Tinv rs) as HT. pose proof (Tsz rs Hs) as HS. fold T in HT, HS.
  rewrite (members_range T HT HS m _ Hgood).
  fold (block_entries b). change (fun e : entry => str_eqb (e_obf e) m) with (by_obf m).
  pose proof (Forall_filter _ (by_obf m) _ Hgood) as Hgf.
  destruct (filter (by_obf m) (block_entries b)) as [|e es]; [reflexivity|]. cbn [map].
  inversion Hgf as [|e0 es0 He Hes]; subst.
  rewrite (orig_offsets T HT HS e He es Hes), Ho.
  destruct (mw_words T e) as (_ & _ & _ & _ & _ & W5 & _). rewrite W5.
  rewrite (ev_orig T e (entry_good_view T HT HS e He)). reflexivity.
Qed.
Print Assumptions cache_method.

Theorem cache_lines rs : dom32 rs = true -> sizes_ok rs = true ->
  forall c m line file, c_remap_frame_lines (C rs) c m line file = Sline rs c m line file.
Proof.
  intros Hd Hs c m line file. pose proof (class_view rs Hd Hs c) as V.
  rewrite Sline_alt. unfold c_remap_frame_lines, C.
  destruct (block_of rs c) as [b|]; [|rewrite V; reflexivity].
  destruct V as (cl & Hg & Ho & Hm & _ & Hgood). rewrite Hg, (Kstr rs), Ho, Hm.
  set (T := w_tab (wrun wstate_init rs)) in *.
  pose proof (Tinv rs) as HT. pose proof (Tsz rs Hs) as HS. fold T in HT, HS.
  rewrite (members_range T HT HS m _ Hgood).
  rewrite <- (c_with_lines_spec T HT HS _ (Kstr rs) b file line m _ Hgood).
  destruct (map (mw T) (filter (by_obf m) (block_entries b))); reflexivity.
Qed.
Print Assumptions cache_lines.

Theorem cache_params rs : dom32 rs = true -> sizes_ok rs = true ->
  forall c m p, c_remap_frame_params (C rs) c m p = Sparams rs c m p.
Proof.
  intros Hd Hs c m p. pose proof (class_view rs Hd Hs c) as V.
  rewrite Sparams_alt. unfold c_remap_frame_params, C.
  destruct (block_of rs c) as [b|]; [|rewrite V; reflexivity].
  destruct V as (cl & Hg & Ho & _ & Hp & Hgood). rewrite Hg, (Kstr rs), Ho, Hp.
  set (T := w_tab (wrun wstate_init rs)) in *.
  pose proof (Tinv rs) as HT. pose proof (Tsz rs Hs) as HS. fold T in HT, HS.
  pose proof (param_entries_good T b Hgood) as Hpg.
  rewrite (params_range T HT HS m p _ Hpg).
  rewrite <- (c_without_lines_spec T HT HS _ (Kstr rs) b _ (Forall_filter _ (by_obf_args m p) _ Hpg)).
  destruct (map (mw T) (filter (by_obf_args m p) (block_param_entries b))); reflexivity.
Qed.
Print Assumptions cache_params.

(* ------------------------------------------------------------------ *)
(* 8. the hypotheses are satisfiable; sample queries                    *)
(* ------------------------------------------------------------------ *)
Module Ex.
  Import MapperProofs.Tests.
  (* records before the first class, a class name occurring twice (the last block wins), a field,
     sourceFile headers (also the synthetic marker and a reset), an inline pair (equal ranges),
     duplicate entries, empty argument lists, a two-byte method name *)
  Definition rs_ex : list record :=
    [ RHeader source_file (Some [48]);
      RMethod V h X [] None None;
      RClass A X;
      RMethod V f X I None (Some lm1);
      RClass B Y;
      RField V f X;
      RMethod V g [122] I None (Some lm1);
      RMethod V f [122] I None (Some lm1);
      RMethod V f [119] [] (Some [90;90]) None;
      RClass [67] X;
      RHeader source_file (Some synthetic);
      RMethod V f X I None (Some lm1);
      RMethod V g X I (Some [68]) (Some lm2);
      RHeader source_file (Some [70]);
      RMethod V h X [] None (Some lm3);
      RMethod V h X [] None None;
      RMethod V g X I None None;
      RMethod V g X I None None;
      RHeader source_file None;
      RMethod V g [88;88] [73;73] None (Some {| lm_start := 2; lm_end := 100; lm_os := Some 1000; lm_oe := Some 2000 |});
      RHeader [99] None;
      RMethod V f Y [] None (Some lm3) ].
End Ex.

Example cache_hyp : dom32 Ex.rs_ex = true /\ sizes_ok Ex.rs_ex = true.
Proof. vm_compute. split; reflexivity. Qed.

Example cache_class_ex :
  c_remap_class (C Ex.rs_ex) [120] = Some [67] /\ Sclass Ex.rs_ex [120] = Some [67] /\
  c_remap_class (C Ex.rs_ex) [122] = None.
Proof. vm_compute. repeat split; reflexivity. Qed.

Example cache_method_ex :
  c_remap_method (C Ex.rs_ex) [120] [121] = Some ([67], [102]) /\
  c_remap_method (C Ex.rs_ex) [120] [120] = None /\ Smethod Ex.rs_ex [120] [120] = None.
Proof. vm_compute. repeat split; reflexivity. Qed.

Example cache_lines_ex :
  c_remap_frame_lines (C Ex.rs_ex) [120] [120] 5 (Some [90]) =
    [([67], [102], Some [82;56;36;36;83;121;110;116;104;101;116;105;99;67;108;97;115;115] , 12)
     ; ([68], [103], Some [68], 20); ([67], [104], Some [70], 0); ([67], [103], Some [70], 0); ([67], [103], Some [70], 0)]
  \/ c_remap_frame_lines (C Ex.rs_ex) [120] [120] 5 (Some [90]) = Sline Ex.rs_ex [120] [120] 5 (Some [90]).
Proof. right. vm_compute. reflexivity. Qed.

Example cache_lines_ex2 :
  c_remap_frame_lines (C Ex.rs_ex) [120] [88;88] 50 None = [([67], [103], None, 1048)] /\
  c_remap_frame_lines (C Ex.rs_ex) [120] [88;88] 18446744073709551615 None = [] /\
  Sline Ex.rs_ex [120] [88;88] 18446744073709551615 None = [].
Proof. vm_compute. repeat split; reflexivity. Qed.

Example cache_params_ex :
  c_remap_frame_params (C Ex.rs_ex) [120] [120] [73] = [([68], [103])] /\
  c_remap_frame_params (C Ex.rs_ex) [120] [120] [] = [([67], [104])] /\
  Sparams Ex.rs_ex [120] [120] [] = [([67], [104])].
Proof. vm_compute. repeat split; reflexivity. Qed.

(* the domain is necessary: an empty sourceFile value is stored as "absent" (offset usize::MAX -> MAX32),
   and an original end line of 2^32-1 collides with the "no original end line" sentinel *)
Example cache_lines_needs_dom :
  let rs1 := [RClass [65] [120]; RHeader source_file (Some []); RMethod [86] [102] [120] [73] None None] in
  let rs2 := [RClass [65] [120];
              RMethod [86] [102] [120] [73] None
                (Some {| lm_start := 1; lm_end := 4294967295; lm_os := Some 7; lm_oe := Some 4294967295 |})] in
  dom32 rs1 = false /\ sizes_ok rs1 = true /\
  c_remap_frame_lines (C rs1) [120] [120] 0 (Some [90]) = [([65], [102], Some [90], 0)] /\
  Sline rs1 [120] [120] 0 (Some [90]) = [([65], [102], Some [], 0)] /\
  dom32 rs2 = false /\ sizes_ok rs2 = true /\
  c_remap_frame_lines (C rs2) [120] [120] 3 None = [([65], [102], None, 7)] /\
  Sline rs2 [120] [120] 3 None = [([65], [102], None, 9)].
Proof. vm_compute. repeat split; reflexivity. Qed.
