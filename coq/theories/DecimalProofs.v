(* DecimalProofs.v — decimal printing / parsing round trip:
   parse_uint U64 (print_dec n) = Some n for n < 2^64; print_dec n is a non-empty string of ASCII digits. *)
From Coq Require Import Lia.
From PG Require Import Base.

Definition dec_val (ds : list N) : N := fold_left (fun v d => v * 10 + (d - 48)) ds 0.

Lemma dec_fold_shift : forall l v,
  fold_left (fun v d => v * 10 + (d - 48)) l v =
  v * 10 ^ N.of_nat (length l) + fold_left (fun v d => v * 10 + (d - 48)) l 0.
Proof.
  induction l as [|x l IHl]; intros v; cbn [fold_left length].
  - change (N.of_nat 0) with 0. rewrite N.pow_0_r. lia.
  - rewrite IHl. rewrite (IHl (0 * 10 + (x - 48))). rewrite Nat2N.inj_succ, N.pow_succ_r'. lia.
Qed.

Lemma dec_acc_app a ds r :
  forallb is_digit ds = true ->
  dec_acc a (ds ++ r) = dec_acc (a * 10 ^ N.of_nat (length ds) + dec_val ds) r.
Proof.
  unfold dec_val.
  revert a. induction ds as [|d ds IH]; intros a H; cbn [app length fold_left].
  - change (N.of_nat 0) with 0. rewrite N.pow_0_r. f_equal. lia.
  - cbn [forallb] in H. apply andb_prop in H as [Hd Hds]. cbn [dec_acc]. rewrite Hd.
    rewrite IH by assumption. f_equal.
    rewrite Nat2N.inj_succ, N.pow_succ_r'.
    rewrite (dec_fold_shift ds (0 * 10 + (d - 48))). lia.
Qed.

Lemma dec_digits_spec fuel : forall n acc, n < 10 ^ N.of_nat fuel -> (0 < fuel)%nat ->
  exists ds, dec_digits fuel n acc = ds ++ acc /\ ds <> [] /\ forallb is_digit ds = true /\
             dec_val ds = n.
Proof.
  unfold dec_val.
  induction fuel as [|fuel IH]; intros n acc Hn Hf; [lia|].
  cbn [dec_digits].
  pose proof (N.div_mod n 10 ltac:(lia)) as Hdm.
  pose proof (N.mod_lt n 10 ltac:(lia)) as Hm.
  assert (Hlt : n / 10 < 10 ^ N.of_nat fuel).
  { rewrite Nat2N.inj_succ, N.pow_succ_r' in Hn. apply N.div_lt_upper_bound; lia. }
  set (q := n / 10) in *. set (m := n mod 10) in *. clearbody q m.
  assert (Hdig : is_digit (48 + m) = true).
  { unfold is_digit, inr. apply andb_true_intro; split; apply N.leb_le; lia. }
  destruct (q =? 0) eqn:E.
  - apply N.eqb_eq in E. exists [48 + m]. repeat split; try discriminate.
    + cbn [forallb]. rewrite Hdig. reflexivity.
    + cbn [fold_left]. lia.
  - apply N.eqb_neq in E.
    assert (Hf' : (0 < fuel)%nat).
    { destruct fuel; [|lia]. change (N.of_nat 0) with 0 in Hlt. rewrite N.pow_0_r in Hlt. lia. }
    destruct (IH q ((48 + m) :: acc) Hlt Hf') as (ds & Hds & Hne & Hall & Hval).
    exists (ds ++ [48 + m]). repeat split.
    + rewrite Hds, <- app_assoc. reflexivity.
    + destruct ds; discriminate.
    + rewrite forallb_app, Hall. cbn [forallb]. rewrite Hdig. reflexivity.
    + rewrite fold_left_app, Hval. cbn [fold_left]. lia.
Qed.

Lemma pow10_64 : U64 < 10 ^ N.of_nat 64. Proof. vm_compute. reflexivity. Qed.

Lemma print_dec_spec n : n < U64 ->
  print_dec n <> [] /\ forallb is_digit (print_dec n) = true /\ dec_val (print_dec n) = n.
Proof.
  intros Hn. unfold print_dec.
  destruct (dec_digits_spec 64 n [] ltac:(pose proof pow10_64; lia) ltac:(lia)) as (ds & Hds & Hne & Hall & Hval).
  rewrite app_nil_r in Hds. rewrite Hds. auto.
Qed.

Theorem print_dec_nonempty n : n < U64 -> print_dec n <> [].
Proof. intros H. apply (print_dec_spec n H). Qed.

Theorem print_dec_digits n : n < U64 -> forallb is_digit (print_dec n) = true.
Proof. intros H. apply (print_dec_spec n H). Qed.

Lemma is_digit_range d : is_digit d = true -> 48 <= d <= 57.
Proof. unfold is_digit, inr. intros H. apply andb_prop in H as [H1 H2]. apply N.leb_le in H1, H2. lia. Qed.

Lemma strip_plus_digit d ds : is_digit d = true -> strip_plus (d :: ds) = d :: ds.
Proof.
  intros H. apply is_digit_range in H. unfold strip_plus.
  replace (d =? 43) with false by (symmetry; apply N.eqb_neq; lia). reflexivity.
Qed.

Lemma parse_uint_digits bound ds : ds <> [] -> forallb is_digit ds = true -> dec_val ds < bound ->
  parse_uint bound ds = Some (dec_val ds).
Proof.
  intros Hne Hall Hlt. destruct ds as [|d ds']; [congruence|].
  unfold parse_uint. rewrite strip_plus_digit.
  2:{ cbn [forallb] in Hall. apply andb_prop in Hall as [Hd _]. exact Hd. }
  unfold parse_dec.
  pose proof (dec_acc_app 0 (d :: ds') [] Hall) as Hacc. rewrite app_nil_r in Hacc. rewrite Hacc.
  cbn [dec_acc]. rewrite N.mul_0_l, N.add_0_l.
  destruct (dec_val (d :: ds') <? bound) eqn:E; [reflexivity|]. apply N.ltb_ge in E. lia.
Qed.

Theorem parse_print_dec n : n < U64 -> parse_uint U64 (print_dec n) = Some n.
Proof.
  intros Hn. destruct (print_dec_spec n Hn) as (Hne & Hall & Hval).
  rewrite parse_uint_digits; auto; rewrite Hval; [reflexivity|exact Hn].
Qed.
Print Assumptions parse_print_dec.
Print Assumptions print_dec_nonempty.
Print Assumptions print_dec_digits.

Example parse_print_dec_max : parse_uint U64 (print_dec MAX64) = Some MAX64.
Proof. vm_compute. reflexivity. Qed.
Example print_dec_0 : print_dec 0 = [48]. Proof. vm_compute. reflexivity. Qed.
