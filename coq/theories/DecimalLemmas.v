(* DecimalProofs.v — decimal printing/parsing round trip (print_dec / parse_dec / parse_uint / parse_usize)
   and the generic [span] stopping lemmas they rest on. *)
From Coq Require Import Lia.
From PG Require Import Base Mapping.

(* ---------- span stops at the first byte satisfying the predicate ---------- *)
Lemma span_stop p a x r :
  forallb (fun c => negb (p c)) a = true -> p x = true -> span p (a ++ x :: r) = (a, x :: r).
Proof.
  intros Ha Hx. induction a as [|y a IH]; cbn [app span].
  - rewrite Hx. reflexivity.
  - cbn [forallb] in Ha. apply andb_prop in Ha as [Hy Ha]. apply negb_true_iff in Hy. rewrite Hy.
    rewrite (IH Ha). reflexivity.
Qed.

Lemma span_end p a :
  forallb (fun c => negb (p c)) a = true -> span p a = (a, []).
Proof.
  intros Ha. induction a as [|y a IH]; cbn [span]; [reflexivity|].
  cbn [forallb] in Ha. apply andb_prop in Ha as [Hy Ha]. apply negb_true_iff in Hy. rewrite Hy.
  rewrite (IH Ha). reflexivity.
Qed.

(* the rest is empty or starts with a byte satisfying p *)
Definition hd_sat (p : byte -> bool) (r : str) : bool :=
  match r with [] => true | x :: _ => p x end.

Lemma span_hd p a r :
  forallb (fun c => negb (p c)) a = true -> hd_sat p r = true -> span p (a ++ r) = (a, r).
Proof.
  intros Ha Hr. destruct r as [|x r].
  - rewrite app_nil_r. apply span_end. exact Ha.
  - apply span_stop; assumption.
Qed.

(* ---------- ASCII strings are valid UTF-8 ---------- *)
Lemma utf8_valid_ascii l : forallb (fun c => c <? 128) l = true -> utf8_valid l = true.
Proof.
  induction l as [|c l IH]; intros H; [reflexivity|].
  cbn [forallb] in H. apply andb_prop in H as [Hc Hl].
  cbn [utf8_valid]. rewrite Hc. apply IH. exact Hl.
Qed.

Lemma is_digit_range d : is_digit d = true <-> 48 <= d <= 57.
Proof.
  unfold is_digit, inr. rewrite andb_true_iff, !N.leb_le. reflexivity.
Qed.

Lemma is_digit_ascii d : is_digit d = true -> (d <? 128) = true.
Proof. intros H. apply is_digit_range in H. apply N.ltb_lt. lia. Qed.

Lemma is_digit_numeric d : is_digit d = true -> is_numeric d = true.
Proof. unfold is_digit, is_numeric. intros H. rewrite H. reflexivity. Qed.

Lemma digits_ascii ds : forallb is_digit ds = true -> forallb (fun c => c <? 128) ds = true.
Proof.
  induction ds as [|d ds IH]; intros H; [reflexivity|].
  cbn [forallb] in *. apply andb_prop in H as [Hd Hds]. rewrite (is_digit_ascii d Hd), (IH Hds). reflexivity.
Qed.

Lemma digits_utf8 ds : forallb is_digit ds = true -> utf8_valid ds = true.
Proof. intros H. apply utf8_valid_ascii, digits_ascii, H. Qed.

Lemma digits_numeric ds :
  forallb is_digit ds = true -> forallb (fun c => negb (negb (is_numeric c))) ds = true.
Proof.
  induction ds as [|d ds IH]; intros H; [reflexivity|].
  cbn [forallb] in *. apply andb_prop in H as [Hd Hds].
  rewrite (is_digit_numeric d Hd), (IH Hds). reflexivity.
Qed.

(* ---------- value of a digit string ---------- *)
Definition dec_val (ds : str) : N := fold_left (fun v d => v * 10 + (d - 48)) ds 0.

Lemma dec_fold_start l : forall v,
  fold_left (fun v d => v * 10 + (d - 48)) l v = v * 10 ^ N.of_nat (length l) + dec_val l.
Proof.
  unfold dec_val. induction l as [|x l IHl]; intros v; cbn [fold_left length].
  - change (N.of_nat 0) with 0. rewrite N.pow_0_r. lia.
  - rewrite IHl. rewrite (IHl (0 * 10 + (x - 48))). rewrite Nat2N.inj_succ, N.pow_succ_r'. lia.
Qed.

Lemma dec_acc_app a ds r :
  forallb is_digit ds = true ->
  dec_acc a (ds ++ r) = dec_acc (a * 10 ^ N.of_nat (length ds) + dec_val ds) r.
Proof.
  revert a. induction ds as [|d ds IH]; intros a H; cbn [app length].
  - unfold dec_val. cbn [fold_left]. change (N.of_nat 0) with 0. rewrite N.pow_0_r. f_equal. lia.
  - cbn [forallb] in H. apply andb_prop in H as [Hd Hds]. cbn [dec_acc]. rewrite Hd.
    rewrite IH by assumption. f_equal.
    rewrite Nat2N.inj_succ, N.pow_succ_r'.
    unfold dec_val at 2. cbn [fold_left]. rewrite dec_fold_start. lia.
Qed.

Lemma dec_digits_spec fuel : forall n acc, n < 10 ^ N.of_nat fuel -> (0 < fuel)%nat ->
  exists ds, dec_digits fuel n acc = ds ++ acc /\ ds <> [] /\ forallb is_digit ds = true /\ dec_val ds = n.
Proof.
  induction fuel as [|fuel IH]; intros n acc Hn Hf; [lia|].
  cbn [dec_digits].
  pose proof (N.div_mod n 10 ltac:(lia)) as Hdm.
  pose proof (N.mod_lt n 10 ltac:(lia)) as Hm.
  assert (Hlt : n / 10 < 10 ^ N.of_nat fuel).
  { rewrite Nat2N.inj_succ, N.pow_succ_r' in Hn. apply N.div_lt_upper_bound; lia. }
  set (q := n / 10) in *. set (m := n mod 10) in *. clearbody q m.
  assert (Hdig : is_digit (48 + m) = true) by (apply is_digit_range; lia).
  destruct (q =? 0) eqn:E.
  - apply N.eqb_eq in E. exists [48 + m]. repeat split; try discriminate.
    + cbn [forallb]. rewrite Hdig. reflexivity.
    + unfold dec_val. cbn [fold_left]. lia.
  - apply N.eqb_neq in E.
    assert (Hf' : (0 < fuel)%nat).
    { destruct fuel; [|lia]. change (N.of_nat 0) with 0 in Hlt. rewrite N.pow_0_r in Hlt. lia. }
    destruct (IH q ((48 + m) :: acc) Hlt Hf') as (ds & Hds & Hne & Hall & Hval).
    exists (ds ++ [48 + m]). repeat split.
    + rewrite Hds, <- app_assoc. reflexivity.
    + destruct ds; discriminate.
    + rewrite forallb_app, Hall. cbn [forallb]. rewrite Hdig. reflexivity.
    + unfold dec_val in *. rewrite fold_left_app, Hval. cbn [fold_left]. lia.
Qed.

Lemma pow10_64 : U64 < 10 ^ N.of_nat 64. Proof. vm_compute. reflexivity. Qed.

(* the printed form of any n < 10^64: non-empty, ASCII digits, value n *)
Lemma print_dec_spec n : n < 10 ^ N.of_nat 64 ->
  print_dec n <> [] /\ forallb is_digit (print_dec n) = true /\ dec_val (print_dec n) = n.
Proof.
  intros Hn. unfold print_dec.
  destruct (dec_digits_spec 64 n [] Hn ltac:(lia)) as (ds & Hds & Hne & Hall & Hval).
  rewrite app_nil_r in Hds. rewrite Hds. auto.
Qed.

Lemma print_dec_nonempty n : n < U64 -> print_dec n <> [].
Proof. intros Hn. apply print_dec_spec. pose proof pow10_64. lia. Qed.

Lemma print_dec_digits n : n < U64 -> forallb is_digit (print_dec n) = true.
Proof. intros Hn. apply print_dec_spec. pose proof pow10_64. lia. Qed.

Lemma parse_dec_digits ds : ds <> [] -> forallb is_digit ds = true -> parse_dec ds = Some (dec_val ds).
Proof.
  intros Hne Hall. unfold parse_dec. destruct ds as [|d ds']; [congruence|].
  pose proof (dec_acc_app 0 (d :: ds') [] Hall) as Hacc. rewrite app_nil_r in Hacc. rewrite Hacc.
  cbn [dec_acc]. rewrite N.mul_0_l, N.add_0_l. reflexivity.
Qed.

Lemma strip_plus_digits ds : forallb is_digit ds = true -> strip_plus ds = ds.
Proof.
  destruct ds as [|d ds']; intros H; [reflexivity|].
  cbn [forallb] in H. apply andb_prop in H as [Hd _]. apply is_digit_range in Hd.
  cbn [strip_plus]. replace (d =? 43) with false by (symmetry; apply N.eqb_neq; lia). reflexivity.
Qed.

Theorem parse_dec_print_dec n : n < 10 ^ N.of_nat 64 -> parse_dec (print_dec n) = Some n.
Proof.
  intros Hn. destruct (print_dec_spec n Hn) as (Hne & Hall & Hval).
  rewrite parse_dec_digits by assumption. rewrite Hval. reflexivity.
Qed.

Theorem parse_uint_print_dec_bound bound n :
  n < 10 ^ N.of_nat 64 -> n < bound -> parse_uint bound (print_dec n) = Some n.
Proof.
  intros Hn Hb. destruct (print_dec_spec n Hn) as (Hne & Hall & Hval).
  unfold parse_uint. rewrite strip_plus_digits by assumption. rewrite parse_dec_print_dec by assumption.
  destruct (n <? bound) eqn:E; [reflexivity|]. apply N.ltb_ge in E. lia.
Qed.

Theorem parse_uint_print_dec n : n < U64 -> parse_uint U64 (print_dec n) = Some n.
Proof. intros Hn. apply parse_uint_print_dec_bound; [pose proof pow10_64; lia|exact Hn]. Qed.

Theorem parse_uint32_print_dec n : n < U32 -> parse_uint U32 (print_dec n) = Some n.
Proof.
  intros Hn. apply parse_uint_print_dec_bound; [|exact Hn].
  pose proof pow10_64. assert (U32 < U64) by (vm_compute; reflexivity). lia.
Qed.

Lemma parse_uint_nil bound : parse_uint bound [] = None.
Proof. reflexivity. Qed.

(* ---------- parse_usize (mapping.rs) ---------- *)
Definition hd_not_numeric (l : str) : bool := hd_sat (fun c => negb (is_numeric c)) l.

(* a printed number followed by a non-numeric byte (or the end of input) *)
Theorem parse_usize_print_dec n r :
  n < U64 -> hd_not_numeric r = true -> parse_usize (print_dec n ++ r) = Some (n, r).
Proof.
  intros Hn Hr. unfold parse_usize.
  pose proof (print_dec_digits n Hn) as Hd.
  rewrite (span_hd _ (print_dec n) r (digits_numeric _ Hd) Hr).
  rewrite (digits_utf8 _ Hd). rewrite (parse_uint_print_dec n Hn). reflexivity.
Qed.

(* no leading numeric byte: no number (a '+' is not numeric, so it is not consumed either) *)
Theorem parse_usize_none r : hd_not_numeric r = true -> parse_usize r = None.
Proof.
  intros Hr. unfold parse_usize.
  pose proof (span_hd (fun c => negb (is_numeric c)) [] r eq_refl Hr) as Hs. cbn [app] in Hs.
  rewrite Hs. reflexivity.
Qed.

Example parse_usize_plus : parse_usize [43;49;50;58] = None.
Proof. vm_compute. reflexivity. Qed.
Example parse_usize_ex : parse_usize (print_dec 1016 ++ [58;49]) = Some (1016, [58;49]).
Proof. vm_compute. reflexivity. Qed.

Print Assumptions parse_uint_print_dec.
Print Assumptions parse_usize_print_dec.
