(* RoundtripProofs.v — C05: well-formed lines of the documented grammar parse back to their parts;
   documented malformations are reported as errors carrying the offending line. *)
From Coq Require Import Lia.
From PG Require Import Base Mapping MappingProofs DecimalLemmas Roundtrip.

(* ====================================================================== *)
(* 1. generic helpers                                                       *)
(* ====================================================================== *)

Lemma strip_prefix_same p r : strip_prefix p (p ++ r) = Some r.
Proof.
  induction p as [|x p IH]; cbn [app strip_prefix]; [reflexivity|].
  rewrite N.eqb_refl. exact IH.
Qed.

Lemma first_not_numeric_hd l : first_not_numeric l = hd_not_numeric l.
Proof. reflexivity. Qed.

Lemma hd_not_numeric_app a c X :
  first_not_numeric a = true -> is_numeric c = false -> hd_not_numeric (a ++ c :: X) = true.
Proof.
  intros Ha Hc. destruct a as [|x a]; cbn [app].
  - unfold hd_not_numeric. cbn [hd_sat]. rewrite Hc. reflexivity.
  - exact Ha.
Qed.

(* the rest of the input after a line: empty or starting with CR / LF *)
Definition nl_or_end (r : str) : bool := hd_sat is_nl r.

Lemma drop_nl_id l : hd_sat (fun c => negb (is_nl c)) l = true -> drop_nl l = l.
Proof.
  destruct l as [|x l]; intros H; [reflexivity|].
  cbn [hd_sat] in H. apply negb_true_iff in H. cbn [drop_nl]. rewrite H. reflexivity.
Qed.

Lemma drop_nl_all nl r : forallb is_nl nl = true -> drop_nl (nl ++ r) = drop_nl r.
Proof.
  induction nl as [|x nl IH]; intros H; [reflexivity|].
  cbn [forallb] in H. apply andb_prop in H as [Hx Hnl]. cbn [app drop_nl]. rewrite Hx. apply IH. exact Hnl.
Qed.

Lemma drop_nl_hd l : hd_sat (fun c => negb (is_nl c)) (drop_nl l) = true.
Proof.
  induction l as [|x l IH]; [reflexivity|].
  cbn [drop_nl]. destruct (is_nl x) eqn:E; [exact IH|]. cbn [hd_sat]. rewrite E. reflexivity.
Qed.

Lemma drop_nl_idem l : drop_nl (drop_nl l) = drop_nl l.
Proof. apply drop_nl_id, drop_nl_hd. Qed.

Lemma forallb_nor (p q : byte -> bool) a :
  forallb (fun c => negb (p c)) a = true -> forallb (fun c => negb (q c)) a = true ->
  forallb (fun c => negb (p c || q c)) a = true.
Proof.
  induction a as [|x a IH]; intros Hp Hq; [reflexivity|].
  cbn [forallb] in *. apply andb_prop in Hp as [Hx Hp]. apply andb_prop in Hq as [Hy Hq].
  apply negb_true_iff in Hx. apply negb_true_iff in Hy. rewrite Hx, Hy. cbn [orb negb andb].
  apply IH; assumption.
Qed.

Lemma text_utf8 l : text l = true -> utf8_valid l = true.
Proof. unfold text. intros H. apply andb_prop in H as [H _]. exact H. Qed.
Lemma text_no_nl l : text l = true -> no_nl l = true.
Proof. unfold text. intros H. apply andb_prop in H as [_ H]. exact H. Qed.

Lemma lacks_app c a b : lacks c (a ++ b) = lacks c a && lacks c b.
Proof. unfold lacks. apply forallb_app. Qed.
Lemma no_nl_app a b : no_nl (a ++ b) = no_nl a && no_nl b.
Proof. unfold no_nl. apply forallb_app. Qed.

(* ---------- parse_until / parse_until_no_newline on a component followed by its delimiter ---------- *)
Lemma parse_until_hd p a r :
  forallb (fun c => negb (p c)) a = true -> utf8_valid a = true -> hd_sat p r = true ->
  parse_until p (a ++ r) = Some (a, r).
Proof.
  intros Ha Hu Hr. unfold parse_until. rewrite (span_hd p a r Ha Hr). rewrite Hu. reflexivity.
Qed.

Lemma parse_until_nn_stop p a x r :
  text a = true -> forallb (fun c => negb (p c)) a = true -> p x = true -> is_nl x = false ->
  parse_until_no_newline p (a ++ x :: r) = Some (a, x :: r).
Proof.
  intros Ht Ha Hx Hnl. unfold parse_until_no_newline.
  rewrite (parse_until_hd (fun c => is_nl c || p c) a (x :: r)).
  - cbn [bind head_is_nl]. rewrite Hnl. reflexivity.
  - apply forallb_nor; [apply text_no_nl; exact Ht|exact Ha].
  - apply text_utf8. exact Ht.
  - cbn [hd_sat]. rewrite Hx. apply orb_true_r.
Qed.

(* the component runs to the end of the input *)
Lemma parse_until_nn_end p a :
  forallb (fun c => negb (p c)) a = true -> no_nl a = true ->
  parse_until_no_newline p a = (if utf8_valid a then Some (a, []) else None).
Proof.
  intros Ha Hn. unfold parse_until_no_newline, parse_until.
  rewrite (span_end (fun c => is_nl c || p c) a) by (apply forallb_nor; assumption).
  destruct (utf8_valid a); reflexivity.
Qed.

(* ---------- UTF-8 validity of concatenations ---------- *)
Lemma utf8_valid_app_aux n : forall a b,
  (length a <= n)%nat -> utf8_valid a = true -> utf8_valid (a ++ b) = utf8_valid b.
Proof.
  induction n as [|n IH]; intros a b Hl Ha.
  - destruct a; [reflexivity|cbn [length] in Hl; lia].
  - destruct a as [|b0 r0]; [reflexivity|]. cbn [length] in Hl.
    destruct (b0 <? 128) eqn:E0.
    { cbn [app utf8_valid] in Ha |- *. rewrite E0 in Ha |- *. apply IH; [lia|exact Ha]. }
    destruct r0 as [|b1 r1]; [cbn [utf8_valid] in Ha; rewrite E0 in Ha; discriminate Ha|]. cbn [length] in Hl.
    destruct (inr 194 223 b0) eqn:E1.
    { cbn [app utf8_valid] in Ha |- *. rewrite E0, E1 in Ha |- *.
      apply andb_prop in Ha as [H1 Ha]. rewrite H1. cbn [andb]. apply IH; [lia|exact Ha]. }
    destruct r1 as [|b2 r2]; [cbn [utf8_valid] in Ha; rewrite E0, E1 in Ha; discriminate Ha|]. cbn [length] in Hl.
    destruct (b0 =? 224) eqn:E2.
    { cbn [app utf8_valid] in Ha |- *. rewrite E0, E1, E2 in Ha |- *.
      apply andb_prop in Ha as [H1 Ha]. rewrite H1. cbn [andb]. apply IH; [lia|exact Ha]. }
    destruct (inr 225 236 b0 || inr 238 239 b0) eqn:E3.
    { cbn [app utf8_valid] in Ha |- *. rewrite E0, E1, E2, E3 in Ha |- *.
      apply andb_prop in Ha as [H1 Ha]. rewrite H1. cbn [andb]. apply IH; [lia|exact Ha]. }
    destruct (b0 =? 237) eqn:E4.
    { cbn [app utf8_valid] in Ha |- *. rewrite E0, E1, E2, E3, E4 in Ha |- *.
      apply andb_prop in Ha as [H1 Ha]. rewrite H1. cbn [andb]. apply IH; [lia|exact Ha]. }
    destruct r2 as [|b3 r3];
      [cbn [utf8_valid] in Ha; rewrite E0, E1, E2, E3, E4 in Ha; discriminate Ha|]. cbn [length] in Hl.
    destruct (b0 =? 240) eqn:E5.
    { cbn [app utf8_valid] in Ha |- *. rewrite E0, E1, E2, E3, E4, E5 in Ha |- *.
      apply andb_prop in Ha as [H1 Ha]. rewrite H1. cbn [andb]. apply IH; [lia|exact Ha]. }
    destruct (inr 241 243 b0) eqn:E6.
    { cbn [app utf8_valid] in Ha |- *. rewrite E0, E1, E2, E3, E4, E5, E6 in Ha |- *.
      apply andb_prop in Ha as [H1 Ha]. rewrite H1. cbn [andb]. apply IH; [lia|exact Ha]. }
    destruct (b0 =? 244) eqn:E7.
    { cbn [app utf8_valid] in Ha |- *. rewrite E0, E1, E2, E3, E4, E5, E6, E7 in Ha |- *.
      apply andb_prop in Ha as [H1 Ha]. rewrite H1. cbn [andb]. apply IH; [lia|exact Ha]. }
    cbn [utf8_valid] in Ha. rewrite E0, E1, E2, E3, E4, E5, E6, E7 in Ha. discriminate Ha.
Qed.

Lemma utf8_valid_app a b : utf8_valid a = true -> utf8_valid (a ++ b) = utf8_valid b.
Proof. intros H. apply (utf8_valid_app_aux (length a)); [lia|exact H]. Qed.

Lemma utf8_valid_ascii_cons c l : (c <? 128) = true -> utf8_valid (c :: l) = utf8_valid l.
Proof. intros H. cbn [utf8_valid]. rewrite H. reflexivity. Qed.

Lemma text_app a b : text a = true -> text b = true -> text (a ++ b) = true.
Proof.
  intros Ha Hb. unfold text. rewrite utf8_valid_app by (apply text_utf8; exact Ha).
  rewrite (text_utf8 b Hb), no_nl_app, (text_no_nl a Ha), (text_no_nl b Hb). reflexivity.
Qed.

(* ---------- trim ---------- *)
Lemma trim_start_fuel_id l : is_none (strip_ws_front l) = true -> trim_start_fuel (length l) l = l.
Proof.
  intros H. destruct (length l) as [|n]; cbn [trim_start_fuel]; [reflexivity|].
  destruct (strip_ws_front l); [discriminate H|reflexivity].
Qed.

Lemma trim_end_id l : is_none (strip_ws_back_rev (rev l)) = true -> trim_end l = l.
Proof.
  intros H. unfold trim_end. destruct (length l) as [|n]; cbn [trim_end_rev_fuel].
  - apply rev_involutive.
  - destruct (strip_ws_back_rev (rev l)); [discriminate H|apply rev_involutive].
Qed.

(* str::trim is the identity on strings without leading / trailing whitespace *)
Lemma trim_id l : trimmed l = true -> trim l = l.
Proof.
  unfold trimmed, trim. intros H. apply andb_prop in H as [H1 H2].
  unfold trim_start. rewrite (trim_start_fuel_id l H1). apply trim_end_id. exact H2.
Qed.

(* ... and removes the single space the printer puts in front of keys and values *)
Lemma trim_sp l : trimmed l = true -> trim (32 :: l) = l.
Proof.
  unfold trimmed, trim. intros H. apply andb_prop in H as [H1 H2].
  unfold trim_start. cbn [length trim_start_fuel strip_ws_front]. change (ws1 32) with true. cbv iota.
  rewrite (trim_start_fuel_id l H1). apply trim_end_id. exact H2.
Qed.

(* a simple sufficient condition: first and last byte are printable ASCII (33..126) *)
Definition graph (c : byte) : bool := inr 33 126 c.
Definition graph_ends (l : str) : bool :=
  match l with [] => true | x :: _ => graph x && graph (last l 0) end.

Lemma strip_ws_front_graph x l : graph x = true -> strip_ws_front (x :: l) = None.
Proof.
  unfold graph, inr. intros H. apply andb_prop in H as [H1 H2]. apply N.leb_le in H1, H2.
  unfold strip_ws_front, ws1, ws2, ws3, inr.
  replace (9 <=? x) with true by (symmetry; apply N.leb_le; lia).
  replace (x <=? 13) with false by (symmetry; apply N.leb_gt; lia).
  replace (x =? 32) with false by (symmetry; apply N.eqb_neq; lia).
  replace (x =? 194) with false by (symmetry; apply N.eqb_neq; lia).
  replace (x =? 225) with false by (symmetry; apply N.eqb_neq; lia).
  replace (x =? 226) with false by (symmetry; apply N.eqb_neq; lia).
  replace (x =? 227) with false by (symmetry; apply N.eqb_neq; lia).
  cbn [andb orb]. destruct l as [|b [|c l]]; reflexivity.
Qed.

Lemma strip_ws_back_graph x l : graph x = true -> strip_ws_back_rev (x :: l) = None.
Proof.
  unfold graph, inr. intros H. apply andb_prop in H as [H1 H2]. apply N.leb_le in H1, H2.
  unfold strip_ws_back_rev, ws1, ws2, ws3, inr.
  replace (9 <=? x) with true by (symmetry; apply N.leb_le; lia).
  replace (x <=? 13) with false by (symmetry; apply N.leb_gt; lia).
  replace (x =? 32) with false by (symmetry; apply N.eqb_neq; lia).
  replace (x =? 133) with false by (symmetry; apply N.eqb_neq; lia).
  replace (x =? 160) with false by (symmetry; apply N.eqb_neq; lia).
  replace (x =? 128) with false by (symmetry; apply N.eqb_neq; lia).
  replace (128 <=? x) with false by (symmetry; apply N.leb_gt; lia).
  replace (x =? 168) with false by (symmetry; apply N.eqb_neq; lia).
  replace (x =? 169) with false by (symmetry; apply N.eqb_neq; lia).
  replace (x =? 175) with false by (symmetry; apply N.eqb_neq; lia).
  replace (x =? 159) with false by (symmetry; apply N.eqb_neq; lia).
  cbn [andb orb]. destruct l as [|b [|a l]]; cbn [andb orb]; rewrite ?andb_false_r; reflexivity.
Qed.

Lemma rev_last_cons x l : rev (x :: l) = last (x :: l) 0 :: rev (removelast (x :: l)).
Proof.
  destruct (exists_last (l := x :: l) ltac:(discriminate)) as (l' & y & E). rewrite E.
  rewrite rev_unit, last_last, removelast_last. reflexivity.
Qed.

Lemma graph_ends_trimmed l : graph_ends l = true -> trimmed l = true.
Proof.
  destruct l as [|x l]; intros H; [reflexivity|].
  unfold graph_ends in H. apply andb_prop in H as [H1 H2]. unfold trimmed.
  rewrite (strip_ws_front_graph x l H1). rewrite rev_last_cons. rewrite (strip_ws_back_graph _ _ H2). reflexivity.
Qed.

(* ---------- split_last_dot ---------- *)
Lemma split_last_dot_none l : forall acc, lacks 46 l = true -> split_last_dot acc l = None.
Proof.
  induction l as [|c l IH]; intros acc H; [reflexivity|].
  cbn [lacks forallb] in H. apply andb_prop in H as [Hc Hl]. apply negb_true_iff in Hc.
  cbn [split_last_dot]. rewrite (IH (acc ++ [c]) Hl). rewrite Hc. reflexivity.
Qed.

Lemma split_last_dot_some cls name : forall acc,
  lacks 46 name = true -> split_last_dot acc (cls ++ 46 :: name) = Some (acc ++ cls, name).
Proof.
  induction cls as [|c cls IH]; intros acc H; cbn [app split_last_dot].
  - rewrite (split_last_dot_none name (acc ++ [46]) H). rewrite N.eqb_refl, app_nil_r. reflexivity.
  - rewrite (IH (acc ++ [c]) H). rewrite <- app_assoc. reflexivity.
Qed.

(* ====================================================================== *)
(* 2. headers                                                               *)
(* ====================================================================== *)

(* peel one byte off k in a goal [strip_prefix (c :: p) (k ++ r) = None]; leaves the case k = [] first *)
Ltac peel k H :=
  let x := fresh "x" in let Hx := fresh "Hx" in let E := fresh "E" in
  destruct k as [|x k];
  [ cbn [app]
  | cbn [lacks forallb] in H; apply andb_prop in H as [Hx H]; cbn [app strip_prefix];
    match goal with
    | |- (if ?c =? x then _ else _) = None =>
        destruct (c =? x) eqn:E;
        [ apply N.eqb_eq in E; subst x | reflexivity ]
    end ].

(* goal [strip_prefix (c :: p) r = None] (unfolded) where r is empty or starts with a newline *)
Ltac endcase r Hr :=
  let y := fresh "y" in let E := fresh "E" in
  destruct r as [|y r]; [reflexivity|]; cbv iota;
  match goal with
  | |- (if ?c =? y then _ else _) = None =>
      destruct (c =? y) eqn:E;
      [ apply N.eqb_eq in E; subst y; vm_compute in Hr; discriminate Hr | reflexivity ]
  end.

(* a `# key: value` header is never taken for the sourceFile JSON header: the key has no ':' and the
   printer puts a space after the ':' *)
Lemma sfp_none_colon k X :
  lacks 58 k = true -> strip_prefix source_file_prefix (32 :: k ++ 58 :: 32 :: X) = None.
Proof.
  intros H. unfold source_file_prefix. cbn [strip_prefix]. rewrite N.eqb_refl.
  peel k H; [reflexivity|]. peel k H; [reflexivity|]. peel k H; [reflexivity|].
  peel k H; [reflexivity|]. peel k H; [reflexivity|]. peel k H; [reflexivity|].
  match goal with Hc : negb (58 =? 58) = true |- _ => vm_compute in Hc; discriminate Hc end.
Qed.

Lemma sfp_none_end k r :
  lacks 58 k = true -> nl_or_end r = true -> strip_prefix source_file_prefix (32 :: k ++ r) = None.
Proof.
  intros H Hr. unfold source_file_prefix. cbn [strip_prefix]. rewrite N.eqb_refl.
  peel k H; [endcase r Hr|]. peel k H; [endcase r Hr|]. peel k H; [endcase r Hr|].
  peel k H; [endcase r Hr|]. peel k H; [endcase r Hr|]. peel k H; [endcase r Hr|].
  match goal with Hc : negb (58 =? 58) = true |- _ => vm_compute in Hc; discriminate Hc end.
Qed.

Lemma key_stop k :
  no_nl k = true -> lacks 58 k = true ->
  forallb (fun c => negb ((c =? 58) || is_nl c)) (32 :: k) = true.
Proof.
  intros Hn Hl. cbn [forallb]. change (negb ((32 =? 58) || is_nl 32)) with true. cbn [andb].
  apply forallb_nor; assumption.
Qed.

Lemma parse_header_kv k v r :
  text k = true -> lacks 58 k = true -> trimmed k = true -> text v = true -> trimmed v = true ->
  nl_or_end r = true ->
  parse_header (35 :: 32 :: k ++ 58 :: 32 :: v ++ r) = Some (RHeader k (Some v), drop_nl r).
Proof.
  intros Hk Hkc Hkt Hv Hvt Hr. unfold parse_header.
  cbn [strip_prefix]. rewrite N.eqb_refl. cbn [bind].
  rewrite (sfp_none_colon k _ Hkc).
  change (32 :: k ++ 58 :: 32 :: v ++ r) with ((32 :: k) ++ 58 :: 32 :: v ++ r).
  rewrite (parse_until_hd (fun c => (c =? 58) || is_nl c) (32 :: k) (58 :: 32 :: v ++ r)).
  2:{ apply key_stop; [apply text_no_nl; exact Hk|exact Hkc]. }
  2:{ rewrite utf8_valid_ascii_cons by reflexivity. apply text_utf8. exact Hk. }
  2:{ reflexivity. }
  cbn [bind strip_prefix]. rewrite N.eqb_refl.
  change (32 :: v ++ r) with ((32 :: v) ++ r).
  rewrite (parse_until_hd is_nl (32 :: v) r).
  2:{ cbn [forallb]. change (negb (is_nl 32)) with true. cbn [andb]. apply text_no_nl. exact Hv. }
  2:{ rewrite utf8_valid_ascii_cons by reflexivity. apply text_utf8. exact Hv. }
  2:{ exact Hr. }
  cbn [bind option_map]. rewrite (trim_sp k Hkt), (trim_sp v Hvt). reflexivity.
Qed.

Lemma nl_or_end_not_colon r : nl_or_end r = true -> strip_prefix [58] r = None.
Proof.
  intros Hr. destruct r as [|x r]; [reflexivity|]. cbn [strip_prefix].
  destruct (58 =? x) eqn:E; [|reflexivity]. apply N.eqb_eq in E. subst x. vm_compute in Hr. discriminate Hr.
Qed.

Lemma parse_header_k k r :
  text k = true -> lacks 58 k = true -> trimmed k = true -> nl_or_end r = true ->
  parse_header (35 :: 32 :: k ++ r) = Some (RHeader k None, drop_nl r).
Proof.
  intros Hk Hkc Hkt Hr. unfold parse_header.
  change (35 :: 32 :: k ++ r) with ([35] ++ 32 :: k ++ r). rewrite strip_prefix_same. cbn [bind].
  rewrite (sfp_none_end k r Hkc Hr).
  change (32 :: k ++ r) with ((32 :: k) ++ r).
  rewrite (parse_until_hd (fun c => (c =? 58) || is_nl c) (32 :: k) r).
  2:{ apply key_stop; [apply text_no_nl; exact Hk|exact Hkc]. }
  2:{ rewrite utf8_valid_ascii_cons by reflexivity. apply text_utf8. exact Hk. }
  2:{ destruct r as [|x r]; [reflexivity|]. unfold nl_or_end in Hr. cbn [hd_sat] in Hr |- *. rewrite Hr. apply orb_true_r. }
  cbn [bind]. rewrite (nl_or_end_not_colon r Hr). cbn [bind option_map]. rewrite (trim_sp k Hkt). reflexivity.
Qed.

Lemma parse_header_sf f r :
  text f = true -> lacks 34 f = true ->
  parse_header (35 :: source_file_prefix ++ f ++ 34 :: 125 :: r) = Some (RHeader source_file (Some f), drop_nl r).
Proof.
  intros Hf Hq. unfold parse_header.
  cbn [strip_prefix]. rewrite N.eqb_refl. cbn [bind].
  rewrite strip_prefix_same.
  rewrite (parse_until_nn_stop (fun c => c =? 34) f 34 (125 :: r) Hf Hq eq_refl eq_refl).
  cbn [bind strip_prefix]. rewrite !N.eqb_refl. cbn [bind]. reflexivity.
Qed.

(* ====================================================================== *)
(* 3. class lines                                                           *)
(* ====================================================================== *)

Lemma parse_class_ok o b r :
  text o = true -> lacks 32 o = true -> text b = true -> lacks 58 b = true ->
  parse_class (o ++ 32 :: 45 :: 62 :: 32 :: b ++ 58 :: r) = Some (RClass o b, drop_nl r).
Proof.
  intros Ho Hos Hb Hbc. unfold parse_class.
  rewrite (parse_until_nn_stop (fun c => c =? 32) o 32 _ Ho Hos eq_refl eq_refl).
  cbn [bind]. unfold arrow. cbn [strip_prefix]. rewrite !N.eqb_refl. cbn [bind].
  rewrite (parse_until_nn_stop (fun c => c =? 58) b 58 r Hb Hbc eq_refl eq_refl).
  cbn [bind strip_prefix]. rewrite N.eqb_refl. cbn [bind]. reflexivity.
Qed.

(* a class line is dispatched to the class parser *)
Lemma class_dispatch o X :
  lacks 32 o = true -> first_not 35 o = true ->
  starts_with [35] (o ++ 32 :: 45 :: X) = false /\ starts_with four_spaces (o ++ 32 :: 45 :: X) = false.
Proof.
  intros Hs Hh. destruct o as [|x o]; cbn [app].
  - split; reflexivity.
  - cbn [first_not] in Hh. apply negb_true_iff in Hh. apply N.eqb_neq in Hh.
    cbn [lacks forallb] in Hs. apply andb_prop in Hs as [Hx _]. apply negb_true_iff in Hx. apply N.eqb_neq in Hx.
    unfold starts_with, four_spaces. cbn [strip_prefix].
    replace (35 =? x) with false by (symmetry; apply N.eqb_neq; congruence).
    replace (32 =? x) with false by (symmetry; apply N.eqb_neq; congruence).
    split; reflexivity.
Qed.

(* ====================================================================== *)
(* 4. member lines                                                          *)
(* ====================================================================== *)

Lemma strip1_same c X : strip_prefix [c] (c :: X) = Some X.
Proof. cbn [strip_prefix]. rewrite N.eqb_refl. reflexivity. Qed.
Lemma strip1_diff c x X : (c =? x) = false -> strip_prefix [c] (x :: X) = None.
Proof. intros H. cbn [strip_prefix]. rewrite H. reflexivity. Qed.
Lemma strip_arrow X : strip_prefix arrow (32 :: 45 :: 62 :: 32 :: X) = Some X.
Proof. apply (strip_prefix_same arrow X). Qed.

(* the two halves of parse_member: the optional `startline:endline:` prefix and the rest *)
Definition member_head (l : str) : option (option N * option N * str) :=
  match parse_usize l with
  | Some (v, l1) =>
      l2 <- strip_prefix [58] l1 ;;
      '(e, l3) <- parse_usize l2 ;;
      l4 <- strip_prefix [58] l3 ;;
      Some (Some v, Some e, l4)
  | None => Some (None, None, l)
  end.

Definition member_rest (startline endline : option N) (l : str) : option (record * str) :=
  '(ty, l) <- parse_until_no_newline (fun c => c =? 32) l ;;
  l <- strip_prefix [32] l ;;
  '(original, l) <- parse_until_no_newline (fun c => (c =? 32) || (c =? 40)) l ;;
  '(arguments, l) <- match strip_prefix [40] l with
                     | Some l' => '(a, l'') <- parse_until_no_newline (fun c => c =? 41) l' ;;
                                  l'' <- strip_prefix [41] l'' ;;
                                  Some (Some a, l'')
                     | None => Some (None, l)
                     end ;;
  '(os, l) <- opt_colon_usize (is_some arguments) l ;;
  '(oe, l) <- opt_colon_usize (is_some os) l ;;
  l <- strip_prefix arrow l ;;
  '(obf, l) <- parse_until is_nl l ;;
  match arguments with
  | Some args =>
      let '(ocls, orig) := match split_last_dot [] original with
                           | Some (c, o) => (Some c, o)
                           | None => (None, original)
                           end in
      Some (RMethod ty orig obf args ocls (mk_line_mapping startline endline os oe), drop_nl l)
  | None => Some (RField ty original obf, drop_nl l)
  end.

Lemma parse_member_split l :
  parse_member l =
  (l0 <- strip_prefix four_spaces l ;; '(s, e, l1) <- member_head l0 ;; member_rest s e l1).
Proof.
  unfold parse_member, member_head.
  destruct (strip_prefix four_spaces l) as [l0|]; cbn [bind]; [|reflexivity].
  destruct (parse_usize l0) as [[v l1]|]; [|reflexivity].
  destruct (strip_prefix [58] l1) as [l2|]; cbn [bind]; [|reflexivity].
  destruct (parse_usize l2) as [[e l3]|]; cbn [bind]; [|reflexivity].
  destruct (strip_prefix [58] l3) as [l4|]; cbn [bind]; reflexivity.
Qed.

Lemma member_head_none l : hd_not_numeric l = true -> member_head l = Some (None, None, l).
Proof. intros H. unfold member_head. rewrite (parse_usize_none l H). reflexivity. Qed.

Lemma member_head_some s e l :
  s < U64 -> e < U64 ->
  member_head (print_dec s ++ 58 :: print_dec e ++ 58 :: l) = Some (Some s, Some e, l).
Proof.
  intros Hs He. unfold member_head.
  rewrite (parse_usize_print_dec s (58 :: print_dec e ++ 58 :: l) Hs eq_refl).
  rewrite strip1_same. cbn [bind].
  rewrite (parse_usize_print_dec e (58 :: l) He eq_refl). cbn [bind].
  rewrite strip1_same. reflexivity.
Qed.

(* `startline:` not followed by `endline:` *)
Lemma member_head_noend s l :
  s < U64 -> hd_not_numeric l = true -> member_head (print_dec s ++ 58 :: l) = None.
Proof.
  intros Hs Hl. unfold member_head.
  rewrite (parse_usize_print_dec s (58 :: l) Hs eq_refl).
  rewrite strip1_same. cbn [bind]. rewrite (parse_usize_none l Hl). reflexivity.
Qed.

Lemma opt_colon_sp en X : opt_colon_usize en (32 :: X) = Some (None, 32 :: X).
Proof. destruct en; reflexivity. Qed.

Lemma opt_colon_some n X :
  n < U64 -> hd_not_numeric X = true -> opt_colon_usize true (58 :: print_dec n ++ X) = Some (Some n, X).
Proof.
  intros Hn HX. unfold opt_colon_usize. rewrite strip1_same.
  rewrite (parse_usize_print_dec n X Hn HX). reflexivity.
Qed.

Lemma opt_colon_some_sp n X :
  n < U64 -> opt_colon_usize true (58 :: print_dec n ++ 32 :: X) = Some (Some n, 32 :: X).
Proof. intros Hn. apply opt_colon_some; [exact Hn|reflexivity]. Qed.
Lemma opt_colon_some_colon n X :
  n < U64 -> opt_colon_usize true (58 :: print_dec n ++ 58 :: X) = Some (Some n, 58 :: X).
Proof. intros Hn. apply opt_colon_some; [exact Hn|reflexivity]. Qed.

Lemma name_stop n :
  lacks 32 n = true -> lacks 40 n = true ->
  forallb (fun c => negb ((c =? 32) || (c =? 40))) n = true.
Proof. intros H1 H2. apply forallb_nor; assumption. Qed.

Lemma member_rest_field s e ty n b r :
  text ty = true -> lacks 32 ty = true ->
  text n = true -> lacks 32 n = true -> lacks 40 n = true ->
  text b = true -> nl_or_end r = true ->
  member_rest s e (ty ++ 32 :: n ++ 32 :: 45 :: 62 :: 32 :: b ++ r) = Some (RField ty n b, drop_nl r).
Proof.
  intros Hty Htys Hn Hns Hnp Hb Hr. unfold member_rest.
  rewrite (parse_until_nn_stop (fun c => c =? 32) ty 32 _ Hty Htys eq_refl eq_refl). cbn [bind].
  rewrite strip1_same. cbn [bind].
  rewrite (parse_until_nn_stop (fun c => (c =? 32) || (c =? 40)) n 32 _ Hn (name_stop n Hns Hnp) eq_refl eq_refl).
  cbn [bind]. rewrite (strip1_diff 40 32 _ eq_refl). cbn [bind is_some].
  rewrite opt_colon_sp. cbn [bind is_some]. rewrite opt_colon_sp. cbn [bind].
  rewrite strip_arrow. cbn [bind].
  rewrite (parse_until_hd is_nl b r (text_no_nl b Hb) (text_utf8 b Hb) Hr). cbn [bind]. reflexivity.
Qed.

(* `[cls.]name` as one token *)
Lemma print_orig_ok ocls n :
  match ocls with Some c => text c && lacks 32 c && lacks 40 c | None => true end = true ->
  text n = true -> lacks 32 n = true -> lacks 40 n = true ->
  text (print_orig ocls n) = true /\ lacks 32 (print_orig ocls n) = true /\ lacks 40 (print_orig ocls n) = true.
Proof.
  intros Hc Hn Hns Hnp. destruct ocls as [c|]; cbn [print_orig]; [|auto].
  apply andb_prop in Hc as [Hc Hcp]. apply andb_prop in Hc as [Hc Hcs].
  repeat split.
  - apply text_app; [exact Hc|]. apply (text_app [46] n); [reflexivity|exact Hn].
  - rewrite !lacks_app, Hcs, Hns. reflexivity.
  - rewrite !lacks_app, Hcp, Hnp. reflexivity.
Qed.

Lemma split_orig ocls n :
  lacks 46 n = true ->
  match split_last_dot [] (print_orig ocls n) with Some (c, o) => (Some c, o) | None => (None, print_orig ocls n) end
  = (ocls, n).
Proof.
  intros H. destruct ocls as [c|]; cbn [print_orig app].
  - rewrite (split_last_dot_some c n [] H). reflexivity.
  - rewrite (split_last_dot_none n [] H). reflexivity.
Qed.

Lemma member_rest_method s e ty ocls n args ol b r :
  text ty = true -> lacks 32 ty = true ->
  match ocls with Some c => text c && lacks 32 c && lacks 40 c | None => true end = true ->
  text n = true -> lacks 32 n = true -> lacks 40 n = true -> lacks 46 n = true ->
  text args = true -> lacks 41 args = true ->
  wf_ol ol = true -> text b = true -> nl_or_end r = true ->
  member_rest s e (ty ++ 32 :: print_orig ocls n ++ 40 :: args ++ 41 :: print_ol ol ++ 32 :: 45 :: 62 :: 32 :: b ++ r)
  = Some (RMethod ty n b args ocls (mk_line_mapping s e (os_of ol) (oe_of ol)), drop_nl r).
Proof.
  intros Hty Htys Hc Hn Hns Hnp Hnd Ha Hap Hol Hb Hr.
  destruct (print_orig_ok ocls n Hc Hn Hns Hnp) as (Ho & Hos & Hop).
  unfold member_rest.
  rewrite (parse_until_nn_stop (fun c => c =? 32) ty 32 _ Hty Htys eq_refl eq_refl). cbn [bind].
  rewrite strip1_same. cbn [bind].
  rewrite (parse_until_nn_stop (fun c => (c =? 32) || (c =? 40)) (print_orig ocls n) 40 _ Ho
             (name_stop _ Hos Hop) eq_refl eq_refl).
  cbn [bind]. rewrite strip1_same.
  rewrite (parse_until_nn_stop (fun c => c =? 41) args 41 _ Ha Hap eq_refl eq_refl). cbn [bind].
  rewrite strip1_same. cbn [bind is_some].
  assert (Htail : forall os oe,
    (l <- strip_prefix arrow (32 :: 45 :: 62 :: 32 :: b ++ r) ;;
     '(obf, l) <- parse_until is_nl l ;;
     (let '(ocls0, orig) := match split_last_dot [] (print_orig ocls n) with
                            | Some (c, o) => (Some c, o)
                            | None => (None, print_orig ocls n)
                            end in
      Some (RMethod ty orig obf args ocls0 (mk_line_mapping s e os oe), drop_nl l)))
    = Some (RMethod ty n b args ocls (mk_line_mapping s e os oe), drop_nl r)).
  { intros os oe. rewrite strip_arrow. cbn [bind].
    rewrite (parse_until_hd is_nl b r (text_no_nl b Hb) (text_utf8 b Hb) Hr). cbn [bind].
    rewrite (split_orig ocls n Hnd). reflexivity. }
  destruct ol as [|os|os oe]; cbn [print_ol os_of oe_of wf_ol] in *.
  - cbn [app]. rewrite opt_colon_sp. cbn [bind is_some]. rewrite opt_colon_sp. cbn [bind]. apply Htail.
  - cbn [app]. apply N.ltb_lt in Hol.
    rewrite (opt_colon_some_sp os _ Hol). cbn [bind is_some].
    rewrite opt_colon_sp. cbn [bind]. apply Htail.
  - apply andb_prop in Hol as [Hos' Hoe']. apply N.ltb_lt in Hos', Hoe'.
    rewrite <- !app_assoc. cbn [app].
    rewrite (opt_colon_some_colon os _ Hos'). cbn [bind is_some].
    rewrite (opt_colon_some_sp oe _ Hoe'). cbn [bind]. apply Htail.
Qed.

(* ====================================================================== *)
(* 5. every well-formed line: dispatch, parse_record                        *)
(* ====================================================================== *)

Lemma starts_with_hash X : starts_with [35] (35 :: X) = true.
Proof. unfold starts_with. rewrite strip1_same. reflexivity. Qed.
Lemma starts_with_hash_member X : starts_with [35] (four_spaces ++ X) = false.
Proof. reflexivity. Qed.
Lemma starts_with_four X : starts_with four_spaces (four_spaces ++ X) = true.
Proof. unfold starts_with. rewrite strip_prefix_same. reflexivity. Qed.

Lemma dispatch_header_kv k v r :
  wf_line (LHeader k (Some v)) = true -> nl_or_end r = true ->
  dispatch (print_line (LHeader k (Some v)) ++ r) = Some (record_of (LHeader k (Some v)), drop_nl r).
Proof.
  intros H Hr. cbn [wf_line] in H. rewrite !andb_true_iff in H.
  destruct H as (((Hk & Hkc) & Hkt) & (Hv & Hvt)).
  cbn [print_line record_of]. rewrite <- !app_assoc. cbn [app].
  unfold dispatch. rewrite starts_with_hash. apply parse_header_kv; assumption.
Qed.

Lemma dispatch_header_k k r :
  wf_line (LHeader k None) = true -> nl_or_end r = true ->
  dispatch (print_line (LHeader k None) ++ r) = Some (record_of (LHeader k None), drop_nl r).
Proof.
  intros H Hr. cbn [wf_line] in H. rewrite !andb_true_iff in H.
  destruct H as (((Hk & Hkc) & Hkt) & _).
  cbn [print_line record_of]. rewrite <- !app_assoc. cbn [app].
  unfold dispatch. rewrite starts_with_hash. apply parse_header_k; assumption.
Qed.

Lemma dispatch_source_file f r :
  wf_line (LSourceFile f) = true ->
  dispatch (print_line (LSourceFile f) ++ r) = Some (record_of (LSourceFile f), drop_nl r).
Proof.
  intros H. cbn [wf_line] in H. rewrite !andb_true_iff in H. destruct H as (Hf & Hq).
  cbn [print_line record_of]. rewrite <- !app_assoc. cbn [app].
  unfold dispatch. rewrite starts_with_hash. apply parse_header_sf; assumption.
Qed.

Lemma dispatch_class o b r :
  wf_line (LClass o b) = true ->
  dispatch (print_line (LClass o b) ++ r) = Some (record_of (LClass o b), drop_nl r).
Proof.
  intros H. cbn [wf_line] in H. rewrite !andb_true_iff in H.
  destruct H as ((((Ho & Hos) & Hoh) & Hb) & Hbc).
  cbn [print_line record_of]. unfold arrow. rewrite <- !app_assoc. cbn [app].
  unfold dispatch. destruct (class_dispatch o (62 :: 32 :: b ++ 58 :: r) Hos Hoh) as [E1 E2].
  rewrite E1, E2. apply parse_class_ok; assumption.
Qed.

Lemma dispatch_field ty n b r :
  wf_line (LField ty n b) = true -> nl_or_end r = true ->
  dispatch (print_line (LField ty n b) ++ r) = Some (record_of (LField ty n b), drop_nl r).
Proof.
  intros H Hr. cbn [wf_line] in H. rewrite !andb_true_iff in H.
  destruct H as ((((((Hty & Htys) & Htyn) & Hn) & Hns) & Hnp) & Hb).
  cbn [print_line member_body record_of]. unfold arrow. rewrite <- !app_assoc. cbn [app].
  unfold dispatch. rewrite starts_with_hash_member, starts_with_four.
  rewrite parse_member_split, strip_prefix_same. cbn [bind].
  rewrite member_head_none by (apply hd_not_numeric_app; [exact Htyn|reflexivity]).
  cbn [bind]. apply member_rest_field; assumption.
Qed.

Lemma dispatch_method lines ty ocls n args ol b r :
  wf_line (LMethod lines ty ocls n args ol b) = true -> nl_or_end r = true ->
  dispatch (print_line (LMethod lines ty ocls n args ol b) ++ r)
  = Some (record_of (LMethod lines ty ocls n args ol b), drop_nl r).
Proof.
  intros H Hr. cbn [wf_line] in H. rewrite !andb_true_iff in H.
  destruct H as (((((((((((Hl & Hty) & Htys) & Hc) & Hn) & Hns) & Hnp) & Hnd) & Ha) & Hap) & Hol) & Hb).
  destruct lines as [[s e]|]; cbn [print_line member_body print_lines record_of lm_of];
    unfold arrow; rewrite <- !app_assoc; cbn [app];
    unfold dispatch; rewrite starts_with_hash_member, starts_with_four;
    rewrite parse_member_split, strip_prefix_same; cbn [bind].
  - apply andb_prop in Hl as [Hs He]. apply N.ltb_lt in Hs, He.
    rewrite (member_head_some s e _ Hs He). cbn [bind].
    rewrite (member_rest_method (Some s) (Some e) ty ocls n args ol b r) by assumption. reflexivity.
  - rewrite member_head_none by (apply hd_not_numeric_app; [exact Hl|reflexivity]).
    cbn [bind].
    rewrite (member_rest_method None None ty ocls n args ol b r) by assumption. reflexivity.
Qed.

Theorem dispatch_print a r :
  wf_line a = true -> nl_or_end r = true ->
  dispatch (print_line a ++ r) = Some (record_of a, drop_nl r).
Proof.
  intros H Hr. destruct a as [k [v|]|f|o b|ty n b|lines ty ocls n args ol b].
  - apply dispatch_header_kv; assumption.
  - apply dispatch_header_k; assumption.
  - apply dispatch_source_file; assumption.
  - apply dispatch_class; assumption.
  - apply dispatch_field; assumption.
  - apply dispatch_method; assumption.
Qed.

(* a printed line is non-empty and does not begin with a line terminator *)
Lemma print_line_hd a :
  wf_line a = true -> exists x l, print_line a = x :: l /\ is_nl x = false.
Proof.
  intros H. destruct a as [k [v|]|f|o b|ty n b|lines ty ocls n args ol b]; cbn [print_line app].
  - eexists _, _. split; reflexivity.
  - eexists _, _. split; reflexivity.
  - eexists _, _. split; reflexivity.
  - cbn [wf_line] in H. rewrite !andb_true_iff in H. destruct H as ((((Ho & _) & _) & _) & _).
    destruct o as [|x o]; cbn [app].
    + eexists _, _. split; reflexivity.
    + apply text_no_nl in Ho. cbn [no_nl forallb] in Ho. apply andb_prop in Ho as [Hx _].
      apply negb_true_iff in Hx. eexists _, _. split; [reflexivity|exact Hx].
  - eexists _, _. split; reflexivity.
  - eexists _, _. split; reflexivity.
Qed.

Theorem parse_record_print a r :
  wf_line a = true -> nl_or_end r = true ->
  parse_record (print_line a ++ r) = (IOk (record_of a), drop_nl r).
Proof.
  intros H Hr. unfold parse_record.
  destruct (print_line_hd a H) as (x & l & E & Hx).
  rewrite drop_nl_id by (rewrite E; cbn [app hd_sat]; rewrite Hx; reflexivity).
  rewrite (dispatch_print a r H Hr). reflexivity.
Qed.

(* ====================================================================== *)
(* 6. main theorems                                                         *)
(* ====================================================================== *)

Theorem C05_roundtrip : forall a t, wf_line a = true -> In t [[]; [10]; [13;10]; [10;10]] ->
  try_parse (print_line a ++ t) = IOk (record_of a).
Proof.
  intros a t H Ht. unfold try_parse.
  assert (Hr : nl_or_end t = true /\ drop_nl t = []).
  { cbn [In] in Ht. destruct Ht as [E|[E|[E|[E|[]]]]]; subst t; split; reflexivity. }
  destruct Hr as [Hr Hd]. rewrite (parse_record_print a t H Hr). rewrite Hd. reflexivity.
Qed.

Theorem C05_in_file : forall a nl rest, wf_line a = true -> In nl [[10]; [13]; [13;10]] ->
  items (print_line a ++ nl ++ rest) = IOk (record_of a) :: items (drop_nl rest).
Proof.
  intros a nl rest H Hnl.
  assert (Hr : nl_or_end (nl ++ rest) = true /\ forallb is_nl nl = true).
  { cbn [In] in Hnl. destruct Hnl as [E|[E|[E|[]]]]; subst nl; split; reflexivity. }
  destruct Hr as [Hr Hall].
  rewrite items_cons.
  2:{ destruct (print_line_hd a H) as (x & l & E & _). rewrite E. discriminate. }
  rewrite (parse_record_print a (nl ++ rest) H Hr). cbn [fst snd].
  rewrite (drop_nl_all nl rest Hall). reflexivity.
Qed.

(* [items (drop_nl rest)] and [items rest] agree unless rest is a non-empty run of line terminators
   (for which the iterator yields one phantom error item) *)
Lemma parse_record_drop_nl l : parse_record (drop_nl l) = parse_record l.
Proof. unfold parse_record. rewrite drop_nl_idem. reflexivity. Qed.

Lemma items_drop_nl rest : drop_nl rest <> [] -> items (drop_nl rest) = items rest.
Proof.
  intros Hne. assert (Hr : rest <> []) by (intros E; subst rest; apply Hne; reflexivity).
  rewrite (items_cons (drop_nl rest) Hne), (items_cons rest Hr), parse_record_drop_nl. reflexivity.
Qed.

Example items_only_newlines : items (drop_nl [10]) = [] /\ items [10] = [IErr []].
Proof. split; vm_compute; reflexivity. Qed.

Corollary C05_in_file' : forall a nl rest, wf_line a = true -> In nl [[10]; [13]; [13;10]] ->
  rest = [] \/ drop_nl rest <> [] ->
  items (print_line a ++ nl ++ rest) = IOk (record_of a) :: items rest.
Proof.
  intros a nl rest H Hnl Hrest. rewrite (C05_in_file a nl rest H Hnl).
  destruct Hrest as [E|Hne]; [subst rest; reflexivity|]. rewrite (items_drop_nl rest Hne). reflexivity.
Qed.

(* ====================================================================== *)
(* 7. documented malformations are errors carrying the offending line      *)
(* ====================================================================== *)

(* a line without terminator that no sub-parser accepts is reported whole *)
Lemma try_parse_err l : no_nl l = true -> dispatch l = None -> try_parse l = IErr l.
Proof.
  intros Hn Hd. unfold try_parse, parse_record.
  rewrite drop_nl_id.
  2:{ destruct l as [|x l]; [reflexivity|]. cbn [no_nl forallb] in Hn. apply andb_prop in Hn as [Hx _]. exact Hx. }
  rewrite Hd. unfold split_line. rewrite (span_end is_nl l Hn). reflexivity.
Qed.

Lemma forallb_impl (p q : byte -> bool) l :
  (forall x, p x = true -> q x = true) -> forallb p l = true -> forallb q l = true.
Proof.
  intros Hpq. induction l as [|x l IH]; intros H; [reflexivity|].
  cbn [forallb] in *. apply andb_prop in H as [Hx Hl]. rewrite (Hpq x Hx), (IH Hl). reflexivity.
Qed.

Lemma digits_no_nl ds : forallb is_digit ds = true -> no_nl ds = true.
Proof.
  apply forallb_impl. intros x Hx. apply is_digit_range in Hx. unfold is_nl.
  replace (x =? 13) with false by (symmetry; apply N.eqb_neq; lia).
  replace (x =? 10) with false by (symmetry; apply N.eqb_neq; lia). reflexivity.
Qed.

Lemma digits_lacks c ds : is_digit c = false -> forallb is_digit ds = true -> lacks c ds = true.
Proof.
  intros Hc. apply forallb_impl. intros x Hx. apply negb_true_iff. apply N.eqb_neq. intros E. subst x. congruence.
Qed.

Lemma print_dec_text n : n < U64 -> text (print_dec n) = true.
Proof.
  intros Hn. pose proof (print_dec_digits n Hn) as Hd. unfold text.
  rewrite (digits_utf8 _ Hd), (digits_no_nl _ Hd). reflexivity.
Qed.

Lemma print_dec_lacks c n : is_digit c = false -> n < U64 -> lacks c (print_dec n) = true.
Proof. intros Hc Hn. apply digits_lacks; [exact Hc|apply print_dec_digits; exact Hn]. Qed.

Lemma print_dec_hd n : n < U64 -> exists d ds, print_dec n = d :: ds /\ is_digit d = true.
Proof.
  intros Hn. pose proof (print_dec_digits n Hn) as Hd. pose proof (print_dec_nonempty n Hn) as Hne.
  destruct (print_dec n) as [|d ds]; [congruence|]. cbn [forallb] in Hd. apply andb_prop in Hd as [Hd _].
  exists d, ds. split; [reflexivity|exact Hd].
Qed.

Lemma print_ol_text ol : wf_ol ol = true -> text (print_ol ol) = true /\ lacks 32 (print_ol ol) = true.
Proof.
  intros H. destruct ol as [|os|os oe]; cbn [print_ol wf_ol] in *.
  - split; reflexivity.
  - apply N.ltb_lt in H. split.
    + apply (text_app [58]); [reflexivity|apply print_dec_text; exact H].
    + rewrite lacks_app, (print_dec_lacks 32 os eq_refl H). reflexivity.
  - apply andb_prop in H as [H1 H2]. apply N.ltb_lt in H1, H2. split.
    + apply (text_app [58]); [reflexivity|]. apply text_app; [apply print_dec_text; exact H1|].
      apply (text_app [58]); [reflexivity|apply print_dec_text; exact H2].
    + rewrite !lacks_app, (print_dec_lacks 32 os eq_refl H1), (print_dec_lacks 32 oe eq_refl H2). reflexivity.
Qed.

Lemma print_lines_text lines :
  match lines with Some (s, e) => lt64 s && lt64 e | None => true end = true ->
  text (print_lines lines) = true.
Proof.
  intros H. destruct lines as [[s e]|]; cbn [print_lines]; [|reflexivity].
  apply andb_prop in H as [H1 H2]. apply N.ltb_lt in H1, H2.
  apply text_app; [apply print_dec_text; exact H1|]. apply (text_app [58]); [reflexivity|].
  apply text_app; [apply print_dec_text; exact H2|reflexivity].
Qed.

(* `name(args)[:os[:oe]]` *)
Definition method_sig (ocls : option str) (n args : str) (ol : olines) : str :=
  print_orig ocls n ++ [40] ++ args ++ [41] ++ print_ol ol.

Lemma method_sig_text ocls n args ol :
  match ocls with Some c => text c && lacks 32 c && lacks 40 c | None => true end = true ->
  text n = true -> lacks 32 n = true -> lacks 40 n = true ->
  text args = true -> wf_ol ol = true ->
  text (method_sig ocls n args ol) = true.
Proof.
  intros Hc Hn Hns Hnp Ha Hol. destruct (print_orig_ok ocls n Hc Hn Hns Hnp) as (Ho & _ & _).
  destruct (print_ol_text ol Hol) as (Hot & _). unfold method_sig.
  apply text_app; [exact Ho|]. apply (text_app [40]); [reflexivity|].
  apply text_app; [exact Ha|]. apply (text_app [41]); [reflexivity|exact Hot].
Qed.

Lemma member_body_text a : is_member a = true -> wf_line a = true -> text (member_body a) = true.
Proof.
  intros Hm H. destruct a as [k v|f|o b|ty n b|lines ty ocls n args ol b]; try discriminate Hm;
    cbn [wf_line] in H; rewrite !andb_true_iff in H; cbn [member_body].
  - destruct H as ((((((Hty & Htys) & Htyn) & Hn) & Hns) & Hnp) & Hb).
    apply text_app; [exact Hty|]. apply (text_app [32]); [reflexivity|].
    apply text_app; [exact Hn|]. apply (text_app arrow); [reflexivity|exact Hb].
  - destruct H as (((((((((((Hl & Hty) & Htys) & Hc) & Hn) & Hns) & Hnp) & Hnd) & Ha) & Hap) & Hol) & Hb).
    pose proof (method_sig_text ocls n args ol Hc Hn Hns Hnp Ha Hol) as Hsig. unfold method_sig in Hsig.
    apply text_app.
    { apply print_lines_text. destruct lines as [[s e]|]; [exact Hl|reflexivity]. }
    apply text_app; [exact Hty|]. apply (text_app [32]); [reflexivity|].
    replace (print_orig ocls n ++ [40] ++ args ++ [41] ++ print_ol ol ++ arrow ++ b)
      with ((print_orig ocls n ++ [40] ++ args ++ [41] ++ print_ol ol) ++ arrow ++ b)
      by (rewrite <- !app_assoc; reflexivity).
    apply text_app; [exact Hsig|]. apply (text_app arrow); [reflexivity|exact Hb].
Qed.

(* ---------- class line without the trailing colon ---------- *)
Theorem bad_class_nocolon o b :
  wf_line (LClass o b) = true ->
  try_parse (print_bad_class_nocolon o b) = IErr (print_bad_class_nocolon o b).
Proof.
  intros H. cbn [wf_line] in H. rewrite !andb_true_iff in H.
  destruct H as ((((Ho & Hos) & Hoh) & Hb) & Hbc).
  apply try_parse_err.
  - unfold print_bad_class_nocolon. rewrite !no_nl_app, (text_no_nl o Ho), (text_no_nl b Hb). reflexivity.
  - unfold print_bad_class_nocolon, arrow. cbn [app].
    unfold dispatch. destruct (class_dispatch o (62 :: 32 :: b) Hos Hoh) as [E1 E2]. rewrite E1, E2.
    unfold parse_class.
    rewrite (parse_until_nn_stop (fun c => c =? 32) o 32 _ Ho Hos eq_refl eq_refl). cbn [bind].
    rewrite strip_arrow. cbn [bind].
    rewrite (parse_until_nn_end (fun c => c =? 58) b Hbc (text_no_nl b Hb)). rewrite (text_utf8 b Hb).
    reflexivity.
Qed.

(* ---------- class line with "->" instead of " -> " ---------- *)
Theorem bad_class_arrow o b :
  wf_line (LClass o b) = true -> lacks 32 b = true ->
  try_parse (print_bad_class_arrow o b) = IErr (print_bad_class_arrow o b).
Proof.
  intros H Hbs. cbn [wf_line] in H. rewrite !andb_true_iff in H.
  destruct H as ((((Ho & Hos) & Hoh) & Hb) & Hbc).
  assert (Hn : no_nl (print_bad_class_arrow o b) = true).
  { unfold print_bad_class_arrow. rewrite !no_nl_app, (text_no_nl o Ho), (text_no_nl b Hb). reflexivity. }
  assert (Hs : lacks 32 (print_bad_class_arrow o b) = true).
  { unfold print_bad_class_arrow. rewrite !lacks_app, Hos, Hbs. reflexivity. }
  apply try_parse_err; [exact Hn|].
  assert (Hd : dispatch (print_bad_class_arrow o b) = parse_class (print_bad_class_arrow o b)).
  { unfold dispatch, print_bad_class_arrow. destruct o as [|x o]; cbn [app]; [reflexivity|].
    cbn [first_not] in Hoh. apply negb_true_iff in Hoh. apply N.eqb_neq in Hoh.
    cbn [lacks forallb] in Hos. apply andb_prop in Hos as [Hx _]. apply negb_true_iff in Hx. apply N.eqb_neq in Hx.
    unfold starts_with, four_spaces. cbn [strip_prefix].
    replace (35 =? x) with false by (symmetry; apply N.eqb_neq; congruence).
    replace (32 =? x) with false by (symmetry; apply N.eqb_neq; congruence). reflexivity. }
  rewrite Hd. unfold parse_class.
  rewrite (parse_until_nn_end (fun c => c =? 32) _ Hs Hn).
  destruct (utf8_valid (print_bad_class_arrow o b)); reflexivity.
Qed.

(* ---------- member line indented by two spaces ---------- *)
Lemma bad_indent_gen X :
  no_nl X = true -> starts_with [32; 32] X = false ->
  try_parse ([32; 32] ++ X) = IErr ([32; 32] ++ X).
Proof.
  intros Hn Hs. apply try_parse_err.
  - rewrite no_nl_app, Hn. reflexivity.
  - cbn [app]. unfold dispatch.
    change (starts_with [35] (32 :: 32 :: X)) with false.
    change (starts_with four_spaces (32 :: 32 :: X)) with (starts_with [32; 32] X). rewrite Hs.
    unfold parse_class.
    change (32 :: 32 :: X) with ([] ++ 32 :: 32 :: X).
    rewrite (parse_until_nn_stop (fun c => c =? 32) [] 32 (32 :: X) eq_refl eq_refl eq_refl eq_refl).
    reflexivity.
Qed.

Lemma not_two_spaces x X : (32 =? x) = false -> starts_with [32; 32] (x :: X) = false.
Proof. intros H. unfold starts_with. cbn [strip_prefix]. rewrite H. reflexivity. Qed.

Lemma lacks_hd c x l : lacks c (x :: l) = true -> (c =? x) = false.
Proof.
  intros H. cbn [lacks forallb] in H. apply andb_prop in H as [Hx _]. apply negb_true_iff in Hx.
  rewrite N.eqb_sym. exact Hx.
Qed.

Theorem bad_indent a :
  is_member a = true -> wf_line a = true -> member_nonblank a = true ->
  try_parse (print_bad_indent a) = IErr (print_bad_indent a).
Proof.
  intros Hm H Hnb. unfold print_bad_indent. apply bad_indent_gen.
  - apply text_no_nl, member_body_text; assumption.
  - destruct a as [k v|f|o b|ty n b|lines ty ocls n args ol b]; try discriminate Hm;
      cbn [wf_line] in H; rewrite !andb_true_iff in H; cbn [member_body member_nonblank] in *.
    + destruct H as ((((((Hty & Htys) & Htyn) & Hn) & Hns) & Hnp) & Hb).
      destruct ty as [|x ty]; [discriminate Hnb|]. cbn [app].
      apply not_two_spaces. apply (lacks_hd 32 x ty Htys).
    + destruct H as (((((((((((Hl & Hty) & Htys) & Hc) & Hn) & Hns) & Hnp) & Hnd) & Ha) & Hap) & Hol) & Hb).
      destruct lines as [[s e]|]; cbn [print_lines is_some orb] in *.
      * apply andb_prop in Hl as [Hs _]. apply N.ltb_lt in Hs.
        destruct (print_dec_hd s Hs) as (d & ds & E & Hd). rewrite E. cbn [app].
        apply not_two_spaces. apply is_digit_range in Hd. apply N.eqb_neq. lia.
      * destruct ty as [|x ty]; [discriminate Hnb|]. cbn [app].
        apply not_two_spaces. apply (lacks_hd 32 x ty Htys).
Qed.

(* the side condition is needed: with an empty type and name the two-space line can be a valid field line *)
Example bad_indent_needs_nonblank :
  let a := LField [] [] [97; 32; 45; 62; 32; 98] in
  wf_line a = true /\ try_parse (print_bad_indent a) = IOk (RField [45; 62] [97] [98]).
Proof. split; vm_compute; reflexivity. Qed.

(* ---------- member line with `startline:` but no `endline:` ---------- *)
Lemma member_body_not_numeric a :
  is_member a = true -> wf_line a = true -> no_line_prefix a = true -> hd_not_numeric (member_body a) = true.
Proof.
  intros Hm H Hp. destruct a as [k v|f|o b|ty n b|lines ty ocls n args ol b]; try discriminate Hm;
    cbn [wf_line] in H; rewrite !andb_true_iff in H; cbn [member_body no_line_prefix] in *.
  - destruct H as ((((((Hty & Htys) & Htyn) & Hn) & Hns) & Hnp) & Hb).
    apply hd_not_numeric_app; [exact Htyn|reflexivity].
  - destruct H as (((((((((((Hl & Hty) & Htys) & Hc) & Hn) & Hns) & Hnp) & Hnd) & Ha) & Hap) & Hol) & Hb).
    destruct lines as [[s e]|]; [discriminate Hp|]. cbn [print_lines app].
    apply hd_not_numeric_app; [exact Hl|reflexivity].
Qed.

Theorem bad_noend s a :
  is_member a = true -> wf_line a = true -> no_line_prefix a = true -> s < U64 ->
  try_parse (print_bad_noend s a) = IErr (print_bad_noend s a).
Proof.
  intros Hm H Hp Hs. apply try_parse_err.
  - unfold print_bad_noend. rewrite !no_nl_app.
    rewrite (text_no_nl _ (print_dec_text s Hs)), (text_no_nl _ (member_body_text a Hm H)). reflexivity.
  - unfold print_bad_noend. cbn [app].
    unfold dispatch. rewrite starts_with_hash_member, starts_with_four.
    rewrite parse_member_split, strip_prefix_same. cbn [bind].
    rewrite (member_head_noend s _ Hs (member_body_not_numeric a Hm H Hp)). reflexivity.
Qed.

(* the bound on s is needed: an overlong number is simply not a line prefix, and becomes part of the type *)
Example bad_noend_needs_bound :
  let a := LMethod None [118] None [102] [] ONone [120] in
  wf_line a = true /\
  exists r, try_parse (print_bad_noend 99999999999999999999 a) = IOk r.
Proof. split; [vm_compute; reflexivity|]. eexists. vm_compute. reflexivity. Qed.

(* ---------- method line without return type ---------- *)
(* generic form: after the indentation a single token T, then the arrow *)
Lemma bad_single_token T b :
  text T = true -> lacks 32 T = true -> first_not_numeric T = true ->
  no_nl b = true -> starts_with [45; 62; 32] b = false ->
  try_parse (four_spaces ++ T ++ arrow ++ b) = IErr (four_spaces ++ T ++ arrow ++ b).
Proof.
  intros HT HTs HTn Hb Hbs. apply try_parse_err.
  - rewrite !no_nl_app, (text_no_nl T HT), Hb. reflexivity.
  - unfold dispatch. rewrite starts_with_hash_member, starts_with_four.
    rewrite parse_member_split, strip_prefix_same. cbn [bind].
    unfold arrow. cbn [app].
    rewrite member_head_none by (apply hd_not_numeric_app; [exact HTn|reflexivity]). cbn [bind].
    unfold member_rest.
    rewrite (parse_until_nn_stop (fun c => c =? 32) T 32 _ HT HTs eq_refl eq_refl). cbn [bind].
    rewrite strip1_same. cbn [bind].
    change (45 :: 62 :: 32 :: b) with ([45; 62] ++ 32 :: b).
    rewrite (parse_until_nn_stop (fun c => (c =? 32) || (c =? 40)) [45; 62] 32 b eq_refl eq_refl eq_refl eq_refl).
    cbn [bind]. rewrite (strip1_diff 40 32 _ eq_refl). cbn [bind is_some].
    rewrite opt_colon_sp. cbn [bind is_some]. rewrite opt_colon_sp. cbn [bind].
    change (strip_prefix arrow (32 :: b)) with (strip_prefix [45; 62; 32] b).
    unfold starts_with in Hbs. destruct (strip_prefix [45; 62; 32] b); [discriminate Hbs|]. reflexivity.
Qed.

Theorem bad_noret lines ty ocls n args ol b :
  wf_line (LMethod lines ty ocls n args ol b) = true ->
  lacks 32 args = true -> first_not_numeric (print_orig ocls n) = true -> starts_with [45; 62; 32] b = false ->
  try_parse (print_bad_noret ocls n args ol b) = IErr (print_bad_noret ocls n args ol b).
Proof.
  intros H Has Hon Hbs. cbn [wf_line] in H. rewrite !andb_true_iff in H.
  destruct H as (((((((((((Hl & Hty) & Htys) & Hc) & Hn) & Hns) & Hnp) & Hnd) & Ha) & Hap) & Hol) & Hb).
  assert (E : print_bad_noret ocls n args ol b = four_spaces ++ method_sig ocls n args ol ++ arrow ++ b).
  { unfold print_bad_noret, method_sig. rewrite <- !app_assoc. reflexivity. }
  rewrite E. apply bad_single_token.
  - apply method_sig_text; assumption.
  - destruct (print_orig_ok ocls n Hc Hn Hns Hnp) as (_ & Hos & _). destruct (print_ol_text ol Hol) as (_ & Hols).
    unfold method_sig. rewrite !lacks_app, Hos, Has, Hols. reflexivity.
  - unfold method_sig. cbn [app]. rewrite first_not_numeric_hd. apply hd_not_numeric_app; [exact Hon|reflexivity].
  - apply text_no_nl. exact Hb.
  - exact Hbs.
Qed.

(* the side conditions are needed *)
Example bad_noret_needs_obf :
  let b := [45; 62; 32; 120] in
  wf_line (LMethod None [118] None [102] [] ONone b) = true /\
  try_parse (print_bad_noret None [102] [] ONone b) = IOk (RField [102; 40; 41] [45; 62] [120]).
Proof. split; vm_compute; reflexivity. Qed.
Example bad_noret_needs_args :
  let args := [120; 32; 121; 32; 45; 62; 32; 122] in
  wf_line (LMethod None [118] None [102] args ONone [119]) = true /\
  exists r, try_parse (print_bad_noret None [102] args ONone [119]) = IOk r.
Proof. split; [vm_compute; reflexivity|]. eexists. vm_compute. reflexivity. Qed.

(* ====================================================================== *)
(* 8. examples: the hypotheses are satisfiable on realistic lines           *)
(* ====================================================================== *)

(* `    1016:1016:void com.example1.domain.MyBean.doWork():16:16 -> buttonClicked` *)
Definition ex_method : line_ast :=
  LMethod (Some (1016, 1016)) [118;111;105;100]
    (Some [99;111;109;46;101;120;97;109;112;108;101;49;46;100;111;109;97;105;110;46;77;121;66;101;97;110])
    [100;111;87;111;114;107] [] (OStartEnd 16 16)
    [98;117;116;116;111;110;67;108;105;99;107;101;100].
(* `    java.lang.Object putIfAbsent(java.lang.Object,java.lang.Object) -> b` *)
Definition ex_method2 : line_ast :=
  LMethod None [106;97;118;97;46;108;97;110;103;46;79;98;106;101;99;116] None
    [112;117;116;73;102;65;98;115;101;110;116]
    [106;97;118;97;46;108;97;110;103;46;79;98;106;101;99;116;44;106;97;118;97;46;108;97;110;103;46;79;98;106;101;99;116]
    ONone [98].
(* `    android.arch.core.executor.ArchTaskExecutor sInstance -> a` *)
Definition ex_field : line_ast :=
  LField [97;110;100;114;111;105;100;46;97;114;99;104;46;99;111;114;101;46;101;120;101;99;117;116;111;114;46;
          65;114;99;104;84;97;115;107;69;120;101;99;117;116;111;114]
         [115;73;110;115;116;97;110;99;101] [97].
(* `android.arch.core.executor.ArchTaskExecutor -> a.a.a.a.c:` *)
Definition ex_class : line_ast :=
  LClass [97;110;100;114;111;105;100;46;97;114;99;104;46;99;111;114;101;46;101;120;101;99;117;116;111;114;46;
          65;114;99;104;84;97;115;107;69;120;101;99;117;116;111;114]
         [97;46;97;46;97;46;97;46;99].
(* `# compiler: R8`   `# common_typos_disable`   `# {"id":"sourceFile","fileName":"Foo.java"}` *)
Definition ex_header : line_ast := LHeader [99;111;109;112;105;108;101;114] (Some [82;56]).
Definition ex_header2 : line_ast :=
  LHeader [99;111;109;109;111;110;95;116;121;112;111;115;95;100;105;115;97;98;108;101] None.
Definition ex_source_file : line_ast := LSourceFile [70;111;111;46;106;97;118;97].
(* a class name in non-ASCII UTF-8 ("é.B -> a:") *)
Definition ex_class_utf8 : line_ast := LClass [195;169;46;66] [97].

Example ex_print_method :
  print_line ex_method =
  [32;32;32;32;49;48;49;54;58;49;48;49;54;58;118;111;105;100;32;99;111;109;46;101;120;97;109;112;108;101;49;46;
   100;111;109;97;105;110;46;77;121;66;101;97;110;46;100;111;87;111;114;107;40;41;58;49;54;58;49;54;32;45;62;32;
   98;117;116;116;111;110;67;108;105;99;107;101;100].
Proof. vm_compute. reflexivity. Qed.

Example ex_wf_all :
  forallb wf_line [ex_method; ex_method2; ex_field; ex_class; ex_header; ex_header2; ex_source_file; ex_class_utf8] = true.
Proof. vm_compute. reflexivity. Qed.

Example ex_record_method :
  record_of ex_method =
  RMethod [118;111;105;100] [100;111;87;111;114;107] [98;117;116;116;111;110;67;108;105;99;107;101;100] []
    (Some [99;111;109;46;101;120;97;109;112;108;101;49;46;100;111;109;97;105;110;46;77;121;66;101;97;110])
    (Some {| lm_start := 1016; lm_end := 1016; lm_os := Some 16; lm_oe := Some 16 |}).
Proof. vm_compute. reflexivity. Qed.

(* C05_roundtrip / C05_in_file: hypotheses hold, and the instance agrees with direct computation *)
Example ex_roundtrip : wf_line ex_method = true /\ In [13; 10] [[]; [10]; [13;10]; [10;10]] /\
  try_parse (print_line ex_method ++ [13; 10]) = IOk (record_of ex_method).
Proof. split; [vm_compute; reflexivity|]. split; [cbn [In]; auto|]. vm_compute. reflexivity. Qed.

Example ex_in_file :
  items (print_line ex_class ++ [10] ++ print_line ex_method ++ [13; 10] ++ print_line ex_field)
  = [IOk (record_of ex_class); IOk (record_of ex_method); IOk (record_of ex_field)].
Proof.
  rewrite (C05_in_file ex_class [10] _ eq_refl ltac:(cbn [In]; auto)).
  rewrite drop_nl_id by reflexivity.
  rewrite (C05_in_file ex_method [13; 10] _ eq_refl ltac:(cbn [In]; auto)).
  rewrite drop_nl_id by reflexivity.
  pose proof (C05_roundtrip ex_field [] eq_refl ltac:(cbn [In]; auto)) as Hf. rewrite app_nil_r in Hf.
  rewrite items_cons by discriminate.
  unfold try_parse in Hf. destruct (parse_record (print_line ex_field)) as [[r|e] rest] eqn:E; [|discriminate Hf].
  cbn [fst snd]. destruct rest; [|discriminate Hf]. inversion Hf. reflexivity.
Qed.

(* a zero start line: the line parses, but carries no line mapping *)
Example ex_zero_line :
  let a := LMethod (Some (0, 5)) [118] None [102] [] (OStart 7) [120] in
  wf_line a = true /\ record_of a = RMethod [118] [102] [120] [] None None.
Proof. split; vm_compute; reflexivity. Qed.

(* malformed-line theorems: hypotheses satisfiable *)
Example ex_bad_class : wf_line ex_class = true /\ lacks 32 [97;46;97;46;97;46;97;46;99] = true.
Proof. split; vm_compute; reflexivity. Qed.
Example ex_bad_indent :
  is_member ex_method = true /\ wf_line ex_method = true /\ member_nonblank ex_method = true /\
  is_member ex_field = true /\ wf_line ex_field = true /\ member_nonblank ex_field = true.
Proof. repeat split; vm_compute; reflexivity. Qed.
Example ex_bad_noend :
  is_member ex_method2 = true /\ wf_line ex_method2 = true /\ no_line_prefix ex_method2 = true /\ 5 < U64 /\
  is_member ex_field = true /\ wf_line ex_field = true /\ no_line_prefix ex_field = true.
Proof. repeat split; vm_compute; reflexivity. Qed.
Example ex_bad_noret :
  match ex_method with
  | LMethod lines ty ocls n args ol b =>
      lacks 32 args = true /\ first_not_numeric (print_orig ocls n) = true /\ starts_with [45; 62; 32] b = false
  | _ => False
  end.
Proof. repeat split; vm_compute; reflexivity. Qed.
Example ex_bad_noret_line :
  print_bad_noret None [102;111;111] [105;110;116] ONone [120]
  = [32;32;32;32;102;111;111;40;105;110;116;41;32;45;62;32;120].
Proof. vm_compute. reflexivity. Qed.

(* graph_ends: the simple sufficient condition for `trimmed` *)
Example ex_graph_ends : graph_ends [99;111;109;112;105;108;101;114] = true /\ trimmed [82;32;56] = true.
Proof. split; vm_compute; reflexivity. Qed.

Print Assumptions C05_roundtrip.
Print Assumptions C05_in_file.
Print Assumptions C05_in_file'.
Print Assumptions bad_class_nocolon.
Print Assumptions bad_class_arrow.
Print Assumptions bad_indent.
Print Assumptions bad_noend.
Print Assumptions bad_noret.
