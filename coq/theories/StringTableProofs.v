(* StringTableProofs.v — the string table of the cache format.
   Writer side: CacheWriter.stab / stab_insert / stab_bytes / leb128 (watto::StringTable::insert,
   leb128::write::unsigned).  Reader side: CacheReader.read_string / leb_read / skipn_exact
   (watto::StringTable::read, leb128::read::unsigned).
   Main results:
     leb128_roundtrip, leb128_bytes_lt_256, leb128_nonempty          (1)
     stab_inv, stab_inv_empty, stab_insert_inv, stab_insert_bytes_mono (2)
     read_after_insert, read_indexed, stab_insert_empty               (3)
     stab_offsets_inj, offset_lt_len, u32_offset, u32_MAX64           (4)
     read_string_beyond, read_string_sentinel                         (5)
     inserted, stab_insert_inserted, stab_insert_index_stable         (6) *)
From PG Require Import Base Mapping Spec CacheWriter CacheReader.
From Coq Require Import Lia Arith.

(* ------------------------------------------------------------------ *)
(* 0. small list / N helpers                                           *)
(* ------------------------------------------------------------------ *)

Lemma str_eqb_refl a : str_eqb a a = true.
Proof. induction a as [|x a IH]; cbn [str_eqb]; [reflexivity|]. rewrite N.eqb_refl, IH. reflexivity. Qed.

Lemma str_eqb_eq a b : str_eqb a b = true <-> a = b.
Proof.
  split; [|intros ->; apply str_eqb_refl].
  revert b. induction a as [|x a IH]; intros [|y b] H; cbn [str_eqb] in H; try discriminate; [reflexivity|].
  apply andb_true_iff in H. destruct H as [H1 H2]. apply N.eqb_eq in H1. apply IH in H2. subst. reflexivity.
Qed.

Lemma str_eqb_neq a b : str_eqb a b = false <-> a <> b.
Proof.
  split.
  - intros H E. subst. rewrite str_eqb_refl in H. discriminate.
  - intros H. destruct (str_eqb a b) eqn:E; [|reflexivity]. apply str_eqb_eq in E. contradiction.
Qed.

Lemma lenN_app {A} (a b : list A) : lenN (a ++ b) = lenN a + lenN b.
Proof. unfold lenN. rewrite app_length, Nat2N.inj_add. reflexivity. Qed.

Lemma lenN_nil {A} : lenN (@nil A) = 0.
Proof. reflexivity. Qed.

Lemma lenN_cons {A} (x : A) l : lenN (x :: l) = 1 + lenN l.
Proof. unfold lenN. cbn [length]. rewrite Nat2N.inj_succ. lia. Qed.

Lemma lenN_pos {A} (l : list A) : l <> [] -> 0 < lenN l.
Proof. destruct l as [|x l]; [congruence|]. intros _. rewrite lenN_cons. lia. Qed.

Lemma skipn_length_app {A} (pre x : list A) : skipn (length pre) (pre ++ x) = x.
Proof. induction pre as [|p pre IH]; cbn [length skipn app]; [reflexivity|exact IH]. Qed.

Lemma firstn_length_app {A} (a b : list A) : firstn (length a) (a ++ b) = a.
Proof. induction a as [|p a IH]; cbn [length firstn app]; [reflexivity|]. rewrite IH. reflexivity. Qed.

Lemma app_eq_length_inv {A} (a1 a2 b1 b2 : list A) :
  a1 ++ b1 = a2 ++ b2 -> length a1 = length a2 -> a1 = a2 /\ b1 = b2.
Proof.
  revert a2. induction a1 as [|x a1 IH]; intros [|y a2] H L; cbn [length app] in *; try discriminate.
  - split; [reflexivity|exact H].
  - injection H as Hx Hr. injection L as L. destruct (IH _ Hr L) as [E1 E2]. subst. split; reflexivity.
Qed.

Lemma skipn_exact_app {A} (pre x : list A) : skipn_exact (lenN pre) (pre ++ x) = Some x.
Proof.
  unfold skipn_exact. rewrite lenN_app.
  replace (lenN pre + lenN x <? lenN pre) with false by (symmetry; apply N.ltb_ge; lia).
  unfold lenN. rewrite Nat2N.id, skipn_length_app. reflexivity.
Qed.

Lemma skipn_exact_beyond {A} (n : N) (l : list A) : lenN l < n -> skipn_exact n l = None.
Proof. intros H. unfold skipn_exact. apply N.ltb_lt in H. rewrite H. reflexivity. Qed.

(* ------------------------------------------------------------------ *)
(* 1. LEB128                                                           *)
(* ------------------------------------------------------------------ *)

Lemma leb128_fuel_nonempty f v : leb128_fuel (S f) v <> [].
Proof. cbn [leb128_fuel]. destruct (v / 128 =? 0); discriminate. Qed.

Theorem leb128_nonempty v : leb128 v <> [].
Proof. apply leb128_fuel_nonempty. Qed.
Print Assumptions leb128_nonempty.

Lemma leb128_fuel_bytes f : forall v, Forall (fun b => b < 256) (leb128_fuel f v).
Proof.
  induction f as [|f IH]; intros v; cbn [leb128_fuel]; [constructor|].
  pose proof (N.mod_lt v 128 ltac:(lia)) as Hm.
  destruct (v / 128 =? 0).
  - constructor; [lia|constructor].
  - constructor; [lia|apply IH].
Qed.

Theorem leb128_bytes_lt_256 v : Forall (fun b => b < 256) (leb128 v).
Proof. apply leb128_fuel_bytes. Qed.
Print Assumptions leb128_bytes_lt_256.

Lemma leb128_length_pos v : 0 < lenN (leb128 v).
Proof. apply lenN_pos, leb128_nonempty. Qed.

(* The generalised round trip.  Writer fuel [f] suffices for [v] (v < 128^f), reader fuel [g >= f],
   the shift is a multiple of 7 below 64, and the value still to be written fits in the remaining
   bits of a u64: v * 2^shift < 2^64.  The last condition is what makes the 10th byte 0 or 1. *)
Lemma leb_roundtrip_gen : forall f g v k acc r,
  (0 < f)%nat -> (f <= g)%nat ->
  v < 128 ^ N.of_nat f ->
  k <= 9 ->
  v * 2 ^ (7 * k) < 2 ^ 64 ->
  leb_read g (7 * k) acc (leb128_fuel f v ++ r) = Some (acc + v * 2 ^ (7 * k), r).
Proof.
  induction f as [|f IH]; intros g v k acc r Hf Hg Hv Hk Hfit; [lia|].
  destruct g as [|g]; [lia|].
  cbn [leb128_fuel leb_read].
  pose proof (N.div_mod v 128 ltac:(lia)) as Hdm.
  pose proof (N.mod_lt v 128 ltac:(lia)) as Hm.
  set (q := v / 128) in *. set (b := v mod 128) in *. clearbody q b.
  set (P := 2 ^ (7 * k)) in *.
  assert (HP : 0 < P) by (apply N.neq_0_lt_0, N.pow_nonzero; lia).
  (* at shift 63 the value is 0 or 1 *)
  assert (H63 : 7 * k = 63 -> q = 0 /\ (b = 0 \/ b = 1)).
  { intros E. unfold P in Hfit. rewrite E in Hfit.
    change (2 ^ 63) with 9223372036854775808 in Hfit.
    change (2 ^ 64) with 18446744073709551616 in Hfit. lia. }
  destruct (N.eqb_spec q 0) as [Hq|Hq].
  - (* last byte *)
    cbn [app].
    assert (Hchk : (7 * k =? 63) && negb (b =? 0) && negb (b =? 1) = false).
    { destruct (N.eqb_spec (7 * k) 63) as [E|E]; [|reflexivity].
      destruct (H63 E) as [_ [Hb|Hb]]; subst b; reflexivity. }
    rewrite Hchk.
    replace (b <? 128) with true by (symmetry; apply N.ltb_lt; lia).
    rewrite (N.mod_small b 128) by lia.
    replace v with b by lia. reflexivity.
  - (* continuation byte *)
    cbn [app].
    assert (Hk9 : 7 * k <> 63) by (intros E; destruct (H63 E) as [E0 _]; contradiction).
    replace (7 * k =? 63) with false by (symmetry; apply N.eqb_neq; exact Hk9).
    cbn [andb].
    replace (b + 128 <? 128) with false by (symmetry; apply N.ltb_ge; lia).
    replace ((b + 128) mod 128) with b.
    2:{ symmetry. rewrite <- (N.mul_1_l 128) at 1. rewrite N.mod_add by lia. apply N.mod_small; lia. }
    replace (7 * k + 7) with (7 * (k + 1)) by lia.
    assert (Hf' : (0 < f)%nat).
    { destruct f as [|f']; [|lia]. change (128 ^ N.of_nat 1) with 128 in Hv. lia. }
    assert (HP' : 2 ^ (7 * (k + 1)) = P * 128).
    { replace (7 * (k + 1)) with (7 * k + 7) by lia. rewrite N.pow_add_r. reflexivity. }
    assert (Hle : q * (P * 128) <= v * P).
    { replace (q * (P * 128)) with ((128 * q) * P) by lia. apply N.mul_le_mono_r. lia. }
    rewrite IH.
    + f_equal. f_equal. rewrite HP'. fold P. subst v. lia.
    + exact Hf'.
    + lia.
    + rewrite Nat2N.inj_succ, N.pow_succ_r' in Hv. lia.
    + lia.
    + rewrite HP'. lia.
Qed.

(* (1) round trip of leb128::write::unsigned / leb128::read::unsigned on every u64 *)
Theorem leb128_roundtrip : forall v r, v < 2 ^ 64 -> leb_read 11 0 0 (leb128 v ++ r) = Some (v, r).
Proof.
  intros v r Hv. unfold leb128.
  pose proof (leb_roundtrip_gen 10 11 v 0 0 r) as H.
  change (7 * 0) with 0 in H. change (2 ^ 0) with 1 in H.
  rewrite N.mul_1_r, N.add_0_l in H. apply H; try lia.
Qed.
Print Assumptions leb128_roundtrip.

Example leb128_roundtrip_ex :
  leb128 300 = [172; 2] /\ leb_read 11 0 0 (leb128 300 ++ [7; 8]) = Some (300, [7; 8]) /\
  leb128 MAX64 = [255; 255; 255; 255; 255; 255; 255; 255; 255; 1] /\
  leb_read 11 0 0 (leb128 MAX64 ++ [9]) = Some (MAX64, [9]).
Proof. vm_compute. repeat split. Qed.

(* the bound is what the reader enforces: a 10th byte other than 0/1 is rejected,
   so 2^64 itself (10th byte = 2) does not round-trip. *)
Example leb128_roundtrip_sharp : leb_read 11 0 0 (leb128 (2 ^ 64)) = None.
Proof. vm_compute. reflexivity. Qed.

(* ------------------------------------------------------------------ *)
(* 2. reading an encoded string at its offset                          *)
(* ------------------------------------------------------------------ *)

(* (5) an offset beyond the buffer cannot be read *)
Theorem read_string_beyond sb off : lenN sb < off -> read_string sb off = None.
Proof. intros H. unfold read_string. rewrite skipn_exact_beyond by exact H. reflexivity. Qed.
Print Assumptions read_string_beyond.

(* slightly stronger: an offset AT the end of the buffer fails too (nothing to decode).  This is needed
   for the sentinel: [lenN sb < U32] allows [lenN sb = MAX32]. *)
Theorem read_string_at_end sb off : lenN sb <= off -> read_string sb off = None.
Proof.
  intros H. destruct (N.eq_dec (lenN sb) off) as [E|E]; [|apply read_string_beyond; lia].
  unfold read_string, skipn_exact. subst off. rewrite N.ltb_irrefl.
  unfold lenN. rewrite Nat2N.id, skipn_all. reflexivity.
Qed.
Print Assumptions read_string_at_end.

Theorem read_string_sentinel sb : lenN sb < U32 -> read_string sb MAX32 = None.
Proof. intros H. apply read_string_at_end. unfold U32 in H. unfold MAX32. lia. Qed.
Print Assumptions read_string_sentinel.

Example read_string_sentinel_ex :
  lenN [1; 97] < U32 /\ read_string [1; 97] MAX32 = None /\ read_string [1; 97] 3 = None
  /\ read_string [1; 97] 2 = None (* off = length: skip succeeds, the leb read fails *).
Proof. vm_compute. repeat split. Qed.

(* the central reader lemma: [leb128 (len s) ++ s] placed after [pre] reads back as [s] at offset |pre| *)
Lemma read_string_at pre s post :
  utf8_valid s = true -> lenN s < 2 ^ 64 ->
  read_string (pre ++ leb128 (lenN s) ++ s ++ post) (lenN pre) = Some s.
Proof.
  intros Hu Hl. unfold read_string.
  rewrite skipn_exact_app, leb128_roundtrip by exact Hl.
  rewrite lenN_app.
  replace (lenN s + lenN post <? lenN s) with false by (symmetry; apply N.ltb_ge; lia).
  replace (N.to_nat (lenN s)) with (length s) by (unfold lenN; rewrite Nat2N.id; reflexivity).
  cbv zeta. rewrite firstn_length_app, Hu. reflexivity.
Qed.

(* ------------------------------------------------------------------ *)
(* 3. the table invariant                                              *)
(* ------------------------------------------------------------------ *)

Definition stab_inv (t : stab) : Prop :=
  st_len t = lenN (stab_bytes t) /\
  (forall s off, assoc_get s (st_index t) = Some off ->
       s <> [] /\ exists pre post, stab_bytes t = pre ++ leb128 (lenN s) ++ s ++ post /\ lenN pre = off) /\
  (forall s1 s2 off, assoc_get s1 (st_index t) = Some off -> assoc_get s2 (st_index t) = Some off -> s1 = s2).

(* membership of a string in the table, as seen by later lookups *)
Definition inserted (t : stab) (s : list N) : Prop :=
  s = [] \/ exists off, assoc_get s (st_index t) = Some off.

(* reachability from the empty table *)
Inductive stab_reach : stab -> Prop :=
| reach_empty : stab_reach stab_empty
| reach_insert t s : stab_reach t -> stab_reach (fst (stab_insert t s)).

Theorem stab_inv_empty : stab_inv stab_empty.
Proof.
  unfold stab_inv, stab_empty, stab_bytes. cbn [st_len st_rev st_index rev assoc_get].
  repeat split; intros; discriminate.
Qed.
Print Assumptions stab_inv_empty.

(* every indexed offset is strictly inside the byte buffer *)
Theorem offset_lt_len t s off : stab_inv t -> assoc_get s (st_index t) = Some off -> off < st_len t.
Proof.
  intros [Hlen [Hidx _]] H. destruct (Hidx _ _ H) as [_ [pre [post [Hb Hp]]]].
  rewrite Hlen, Hb, !lenN_app. pose proof (leb128_length_pos (lenN s)). lia.
Qed.
Print Assumptions offset_lt_len.

(* the three possible outcomes of an insertion *)
Lemma stab_insert_cases t s t' off :
  stab_insert t s = (t', off) ->
  (s = [] /\ t' = t /\ off = MAX64) \/
  (s <> [] /\ t' = t /\ assoc_get s (st_index t) = Some off) \/
  (s <> [] /\ assoc_get s (st_index t) = None /\ off = st_len t /\
   t' = {| st_index := (s, st_len t) :: st_index t;
           st_rev := rev_append (leb128 (lenN s) ++ s) (st_rev t);
           st_len := st_len t + lenN (leb128 (lenN s) ++ s) |}).
Proof.
  unfold stab_insert. destruct s as [|x s]; cbn [is_empty].
  - intros H. injection H as <- <-. left. repeat split.
  - destruct (assoc_get (x :: s) (st_index t)) as [o|] eqn:E; intros H; injection H as <- <-.
    + right. left. repeat split. discriminate.
    + right. right. repeat split. discriminate.
Qed.

Lemma stab_bytes_fresh t enc idx n :
  stab_bytes {| st_index := idx; st_rev := rev_append enc (st_rev t); st_len := n |} = stab_bytes t ++ enc.
Proof.
  unfold stab_bytes. cbn [st_rev]. rewrite rev_append_rev, rev_app_distr, rev_involutive. reflexivity.
Qed.

(* (2) append-only *)
Theorem stab_insert_bytes_mono t s t' off :
  stab_insert t s = (t', off) -> exists extra, stab_bytes t' = stab_bytes t ++ extra.
Proof.
  intros H. destruct (stab_insert_cases _ _ _ _ H) as [[_ [-> _]]|[[_ [-> _]]|[_ [_ [_ ->]]]]].
  - exists []. rewrite app_nil_r. reflexivity.
  - exists []. rewrite app_nil_r. reflexivity.
  - exists (leb128 (lenN s) ++ s). apply stab_bytes_fresh.
Qed.
Print Assumptions stab_insert_bytes_mono.

(* the precise increment: nothing for the empty string or a duplicate, the encoding otherwise *)
Theorem stab_insert_bytes_exact t s t' off :
  stab_insert t s = (t', off) ->
  stab_bytes t' = stab_bytes t ++
     (if is_empty s then [] else match assoc_get s (st_index t) with Some _ => [] | None => leb128 (lenN s) ++ s end).
Proof.
  intros H. destruct (stab_insert_cases _ _ _ _ H) as [[-> [-> _]]|[[Hs [-> E]]|[Hs [E [_ ->]]]]].
  - cbn [is_empty]. rewrite app_nil_r. reflexivity.
  - destruct s as [|x s]; [congruence|]. cbn [is_empty]. rewrite E, app_nil_r. reflexivity.
  - destruct s as [|x s]; [congruence|]. cbn [is_empty]. rewrite E. apply stab_bytes_fresh.
Qed.
Print Assumptions stab_insert_bytes_exact.

(* (2) preservation *)
Theorem stab_insert_inv t s t' off : stab_inv t -> stab_insert t s = (t', off) -> stab_inv t'.
Proof.
  intros Hinv H.
  destruct (stab_insert_cases _ _ _ _ H) as [[_ [-> _]]|[[_ [-> _]]|[Hs [Hnone [_ ->]]]]];
    [exact Hinv|exact Hinv|].
  pose proof (offset_lt_len t) as Hlt. specialize (fun x o => Hlt x o Hinv).
  destruct Hinv as [Hlen [Hidx Hinj]].
  unfold stab_inv. rewrite stab_bytes_fresh. cbn [st_len st_index].
  split; [|split].
  - rewrite !lenN_app, Hlen. reflexivity.
  - intros x o Hx. cbn [assoc_get] in Hx. destruct (str_eqb x s) eqn:Ex.
    + apply str_eqb_eq in Ex. subst x. injection Hx as <-. split; [exact Hs|].
      exists (stab_bytes t), []. split; [|symmetry; exact Hlen].
      rewrite app_nil_r. reflexivity.
    + destruct (Hidx _ _ Hx) as [Hne [pre [post [Hb Hp]]]]. split; [exact Hne|].
      exists pre, (post ++ leb128 (lenN s) ++ s). split; [|exact Hp].
      rewrite Hb, <- !app_assoc. reflexivity.
  - intros s1 s2 o H1 H2. cbn [assoc_get] in H1, H2.
    destruct (str_eqb s1 s) eqn:E1; destruct (str_eqb s2 s) eqn:E2.
    + apply str_eqb_eq in E1, E2. congruence.
    + injection H1 as <-. apply Hlt in H2. lia.
    + injection H2 as <-. apply Hlt in H1. lia.
    + eapply Hinj; eassumption.
Qed.
Print Assumptions stab_insert_inv.

Theorem stab_reach_inv t : stab_reach t -> stab_inv t.
Proof.
  induction 1 as [|t s _ IH]; [apply stab_inv_empty|].
  destruct (stab_insert t s) as [t' off] eqn:E. cbn [fst]. eapply stab_insert_inv; eassumption.
Qed.
Print Assumptions stab_reach_inv.

(* ------------------------------------------------------------------ *)
(* 4. the run lemma: index lookups are stable                          *)
(* ------------------------------------------------------------------ *)

(* (6) an indexed string keeps the SAME offset under later insertions *)
Theorem stab_insert_index_stable t s t' off x o :
  stab_insert t s = (t', off) ->
  assoc_get x (st_index t) = Some o -> assoc_get x (st_index t') = Some o.
Proof.
  intros H Hx. destruct (stab_insert_cases _ _ _ _ H) as [[_ [-> _]]|[[_ [-> _]]|[_ [Hnone [_ ->]]]]];
    [exact Hx|exact Hx|].
  cbn [st_index assoc_get]. destruct (str_eqb x s) eqn:E; [|exact Hx].
  apply str_eqb_eq in E. subst x. rewrite Hnone in Hx. discriminate.
Qed.
Print Assumptions stab_insert_index_stable.

(* (6) a non-empty string is indexed, at the returned offset, right after its insertion *)
Theorem stab_insert_indexed t s t' off :
  stab_insert t s = (t', off) -> s <> [] -> assoc_get s (st_index t') = Some off.
Proof.
  intros H Hs. destruct (stab_insert_cases _ _ _ _ H) as [[E _]|[[_ [-> E]]|[_ [_ [-> ->]]]]].
  - contradiction.
  - exact E.
  - cbn [st_index assoc_get]. rewrite str_eqb_refl. reflexivity.
Qed.
Print Assumptions stab_insert_indexed.

Theorem stab_insert_inserted t s t' off : stab_insert t s = (t', off) -> inserted t' s.
Proof.
  intros H. destruct s as [|c s]; [left; reflexivity|].
  right. exists off. eapply stab_insert_indexed; [exact H|discriminate].
Qed.
Print Assumptions stab_insert_inserted.

Theorem stab_insert_inserted_mono t s t' off x :
  stab_insert t s = (t', off) -> inserted t x -> inserted t' x.
Proof.
  intros H [Hx|[o Hx]]; [left; exact Hx|]. right. exists o. eapply stab_insert_index_stable; eassumption.
Qed.
Print Assumptions stab_insert_inserted_mono.

(* (3) the empty string is not stored; its offset is usize::MAX *)
Theorem stab_insert_empty t : stab_insert t [] = (t, MAX64).
Proof. reflexivity. Qed.
Print Assumptions stab_insert_empty.

(* ------------------------------------------------------------------ *)
(* 5. read after insert                                                *)
(* ------------------------------------------------------------------ *)

(* any indexed string is readable at its offset, whatever follows the table bytes *)
Theorem read_indexed t s off more :
  stab_inv t -> assoc_get s (st_index t) = Some off ->
  utf8_valid s = true -> lenN s < 2 ^ 64 ->
  read_string (stab_bytes t ++ more) off = Some s.
Proof.
  intros [_ [Hidx _]] H Hu Hl. destruct (Hidx _ _ H) as [_ [pre [post [Hb <-]]]].
  rewrite Hb. replace ((pre ++ leb128 (lenN s) ++ s ++ post) ++ more)
    with (pre ++ leb128 (lenN s) ++ s ++ (post ++ more)) by (rewrite <- !app_assoc; reflexivity).
  apply read_string_at; assumption.
Qed.
Print Assumptions read_indexed.

(* (3) read after insert *)
Theorem read_after_insert t s t' off more :
  stab_inv t -> stab_insert t s = (t', off) -> s <> [] -> utf8_valid s = true -> lenN s < 2 ^ 64 ->
  read_string (stab_bytes t' ++ more) off = Some s /\ off < st_len t'.
Proof.
  intros Hinv H Hs Hu Hl.
  pose proof (stab_insert_inv _ _ _ _ Hinv H) as Hinv'.
  pose proof (stab_insert_indexed _ _ _ _ H Hs) as Hi.
  split; [apply read_indexed; assumption|eapply offset_lt_len; eassumption].
Qed.
Print Assumptions read_after_insert.

(* ... and it stays readable at the same offset after any further insertion *)
Theorem read_after_later_insert t s off x t' offx more :
  stab_inv t -> assoc_get s (st_index t) = Some off ->
  utf8_valid s = true -> lenN s < 2 ^ 64 ->
  stab_insert t x = (t', offx) ->
  read_string (stab_bytes t' ++ more) off = Some s.
Proof.
  intros Hinv Hi Hu Hl H.
  apply read_indexed; [eapply stab_insert_inv; eassumption| |assumption|assumption].
  eapply stab_insert_index_stable; eassumption.
Qed.
Print Assumptions read_after_later_insert.

(* ------------------------------------------------------------------ *)
(* 6. offsets identify strings; u32 narrowing                          *)
(* ------------------------------------------------------------------ *)

(* (4) the reader compares offsets instead of strings *)
Theorem stab_offsets_inj t s1 s2 off1 off2 :
  stab_inv t ->
  assoc_get s1 (st_index t) = Some off1 -> assoc_get s2 (st_index t) = Some off2 ->
  (off1 = off2 <-> s1 = s2).
Proof.
  intros [_ [_ Hinj]] H1 H2. split.
  - intros <-. eapply Hinj; eassumption.
  - intros <-. congruence.
Qed.
Print Assumptions stab_offsets_inj.

Theorem u32_offset off n : off < n -> n < U32 -> u32 off = off /\ u32 off <> MAX32.
Proof.
  intros H1 H2. unfold u32. unfold U32 in *. rewrite N.mod_small by lia. unfold MAX32. lia.
Qed.
Print Assumptions u32_offset.

Theorem u32_MAX64 : u32 MAX64 = MAX32.
Proof. vm_compute. reflexivity. Qed.
Print Assumptions u32_MAX64.

(* the u32-narrowed offsets still identify strings, and never collide with the sentinel *)
Theorem stab_offsets_inj_u32 t s1 s2 off1 off2 :
  stab_inv t -> st_len t < U32 ->
  assoc_get s1 (st_index t) = Some off1 -> assoc_get s2 (st_index t) = Some off2 ->
  (u32 off1 = u32 off2 <-> s1 = s2) /\ u32 off1 <> MAX32 /\ u32 off1 <> u32 MAX64.
Proof.
  intros Hinv Hn H1 H2.
  destruct (u32_offset off1 (st_len t) (offset_lt_len _ _ _ Hinv H1) Hn) as [E1 N1].
  destruct (u32_offset off2 (st_len t) (offset_lt_len _ _ _ Hinv H2) Hn) as [E2 _].
  rewrite u32_MAX64. repeat split; try exact N1.
  - rewrite E1, E2. apply (stab_offsets_inj t s1 s2 off1 off2 Hinv H1 H2).
  - intros <-. congruence.
Qed.
Print Assumptions stab_offsets_inj_u32.

(* without the size bound the narrowing is NOT injective in general: two offsets 2^32 apart collide,
   and offset 2^32-1 would collide with the sentinel. *)
Example u32_collision : u32 5 = u32 (5 + U32) /\ u32 MAX32 = u32 MAX64.
Proof. vm_compute. split; reflexivity. Qed.

(* ------------------------------------------------------------------ *)
(* 7. many insertions: the extension preorder                          *)
(* ------------------------------------------------------------------ *)

(* [t'] extends [t]: bytes are appended, index entries keep their offsets *)
Definition stab_ext (t t' : stab) : Prop :=
  (exists extra, stab_bytes t' = stab_bytes t ++ extra) /\
  (forall x o, assoc_get x (st_index t) = Some o -> assoc_get x (st_index t') = Some o).

Lemma stab_ext_refl t : stab_ext t t.
Proof. split; [exists []; rewrite app_nil_r; reflexivity|auto]. Qed.

Lemma stab_ext_trans a b c : stab_ext a b -> stab_ext b c -> stab_ext a c.
Proof.
  intros [[e1 H1] I1] [[e2 H2] I2]. split; [|auto].
  exists (e1 ++ e2). rewrite H2, H1, app_assoc. reflexivity.
Qed.

Theorem stab_insert_ext t s t' off : stab_insert t s = (t', off) -> stab_ext t t'.
Proof.
  intros H. split; [eapply stab_insert_bytes_mono; exact H|].
  intros x o. eapply stab_insert_index_stable; exact H.
Qed.
Print Assumptions stab_insert_ext.

Lemma stab_ext_inserted t t' x : stab_ext t t' -> inserted t x -> inserted t' x.
Proof. intros [_ I] [Hx|[o Hx]]; [left; exact Hx|right; exists o; auto]. Qed.

(* a string indexed in [t] is readable, at the same offset, from the bytes of every extension *)
Theorem read_indexed_ext t t' s off more :
  stab_inv t' -> stab_ext t t' -> assoc_get s (st_index t) = Some off ->
  utf8_valid s = true -> lenN s < 2 ^ 64 ->
  read_string (stab_bytes t' ++ more) off = Some s.
Proof. intros Hinv [_ I] H Hu Hl. apply read_indexed; auto. Qed.
Print Assumptions read_indexed_ext.

(* inserting a whole list *)
Definition stab_insert_all (t : stab) (l : list (list N)) : stab :=
  fold_left (fun t s => fst (stab_insert t s)) l t.

Theorem stab_insert_all_spec l : forall t,
  stab_inv t ->
  stab_inv (stab_insert_all t l) /\ stab_ext t (stab_insert_all t l) /\
  (forall s, In s l -> inserted (stab_insert_all t l) s).
Proof.
  induction l as [|s l IH]; intros t Hinv; unfold stab_insert_all; cbn [fold_left].
  - split; [exact Hinv|]. split; [apply stab_ext_refl|]. intros s [].
  - destruct (stab_insert t s) as [t1 off] eqn:E. cbn [fst].
    pose proof (stab_insert_inv _ _ _ _ Hinv E) as Hinv1.
    destruct (IH t1 Hinv1) as [A [B C]]. fold (stab_insert_all t1 l).
    split; [exact A|]. split; [eapply stab_ext_trans; [eapply stab_insert_ext; exact E|exact B]|].
    intros x [<-|Hx]; [|apply C; exact Hx].
    eapply stab_ext_inserted; [exact B|]. eapply stab_insert_inserted; exact E.
Qed.
Print Assumptions stab_insert_all_spec.

(* ------------------------------------------------------------------ *)
(* 8. examples                                                         *)
(* ------------------------------------------------------------------ *)

Definition s_a : list N := [97].
Definition s_bc : list N := [98; 99].

(* insert "a", "bc", "a", "" *)
Definition ex_t1 := stab_insert stab_empty s_a.
Definition ex_t2 := stab_insert (fst ex_t1) s_bc.
Definition ex_t3 := stab_insert (fst ex_t2) s_a.
Definition ex_t4 := stab_insert (fst ex_t3) [].
Definition ex_tab := fst ex_t4.

Example ex_offsets : (snd ex_t1, snd ex_t2, snd ex_t3, snd ex_t4) = (0, 2, 0, MAX64).
Proof. vm_compute. reflexivity. Qed.

Example ex_bytes : stab_bytes ex_tab = [1; 97; 2; 98; 99] /\ st_len ex_tab = 5 /\
                   st_index ex_tab = [(s_bc, 2); (s_a, 0)].
Proof. vm_compute. repeat split. Qed.

Example ex_reads :
  read_string (stab_bytes ex_tab) 0 = Some s_a /\
  read_string (stab_bytes ex_tab) 2 = Some s_bc /\
  read_string (stab_bytes ex_tab ++ [3; 100; 101; 102]) 2 = Some s_bc /\
  read_string (stab_bytes ex_tab) (u32 MAX64) = None /\
  read_string (stab_bytes ex_tab) 5 = None /\
  read_string (stab_bytes ex_tab) 1 = None (* 97 = length prefix beyond the buffer *).
Proof. vm_compute. repeat split. Qed.

Example ex_reach : stab_reach ex_tab.
Proof. unfold ex_tab, ex_t4, ex_t3, ex_t2, ex_t1. repeat apply reach_insert. apply reach_empty. Qed.

Example ex_inv : stab_inv ex_tab.
Proof. apply stab_reach_inv, ex_reach. Qed.

(* hypotheses of stab_insert_inv / read_after_insert / stab_insert_index_stable on a concrete table *)
Example ex_insert_hyps :
  let t := fst ex_t1 in
  stab_inv t /\ stab_insert t s_bc = (fst ex_t2, 2) /\ s_bc <> [] /\ utf8_valid s_bc = true /\
  lenN s_bc < 2 ^ 64 /\ assoc_get s_a (st_index t) = Some 0 /\
  read_string (stab_bytes (fst ex_t2) ++ [7]) 2 = Some s_bc /\ 2 < st_len (fst ex_t2).
Proof.
  cbv zeta. split.
  - apply stab_reach_inv. unfold ex_t1. apply reach_insert, reach_empty.
  - vm_compute. repeat split; discriminate.
Qed.

(* hypotheses of stab_offsets_inj / stab_offsets_inj_u32 / offset_lt_len *)
Example ex_inj_hyps :
  stab_inv ex_tab /\ st_len ex_tab < U32 /\
  assoc_get s_a (st_index ex_tab) = Some 0 /\ assoc_get s_bc (st_index ex_tab) = Some 2 /\
  u32 0 = 0 /\ u32 2 = 2 /\ u32 2 <> MAX32.
Proof. split; [apply ex_inv|]. vm_compute. repeat split; discriminate. Qed.

Example ex_inserted : inserted ex_tab s_a /\ inserted ex_tab s_bc /\ inserted ex_tab [] /\
                      assoc_get [100] (st_index ex_tab) = None.
Proof.
  split; [right; exists 0; reflexivity|]. split; [right; exists 2; reflexivity|].
  split; [left; reflexivity|reflexivity].
Qed.

(* a 200-byte string: two-byte length prefix [200; 1] *)
Definition s_200 : list N := repeat 97 200.
Definition ex_big := stab_insert (fst ex_t1) s_200.

Example ex_big_prefix : leb128 (lenN s_200) = [200; 1].
Proof. vm_compute. reflexivity. Qed.

Example ex_big_read :
  snd ex_big = 2 /\ st_len (fst ex_big) = 204 /\
  firstn 5 (stab_bytes (fst ex_big)) = [1; 97; 200; 1; 97] /\
  read_string (stab_bytes (fst ex_big)) 2 = Some s_200 /\
  read_string (stab_bytes (fst ex_big)) 0 = Some s_a /\
  (* a later insertion keeps both readable at the same offsets *)
  read_string (stab_bytes (fst (stab_insert (fst ex_big) s_bc))) 2 = Some s_200 /\
  snd (stab_insert (fst ex_big) s_bc) = 204 /\
  read_string (stab_bytes (fst (stab_insert (fst ex_big) s_bc))) 204 = Some s_bc /\
  (* truncating the buffer makes the read fail *)
  read_string (firstn 203 (stab_bytes (fst ex_big))) 2 = None.
Proof. vm_compute. repeat split. Qed.

(* a 16384-byte string exercises a three-byte prefix [128; 128; 1] *)
Example ex_huge_read :
  let s := repeat 98 (N.to_nat 16384) in
  let r := stab_insert (fst ex_t1) s in
  leb128 (lenN s) = [128; 128; 1] /\ read_string (stab_bytes (fst r)) (snd r) = Some s.
Proof. vm_compute. split; reflexivity. Qed.

(* stab_insert_all *)
Example ex_insert_all :
  stab_bytes (stab_insert_all stab_empty [s_a; s_bc; s_a; []]) = [1; 97; 2; 98; 99].
Proof. vm_compute. reflexivity. Qed.

(* invalid UTF-8 is stored by the writer model but rejected by the reader: the utf8 hypothesis of
   read_after_insert is necessary *)
Example ex_utf8_needed :
  let r := stab_insert stab_empty [255] in
  stab_bytes (fst r) = [1; 255] /\ read_string (stab_bytes (fst r)) (snd r) = None.
Proof. vm_compute. split; reflexivity. Qed.
