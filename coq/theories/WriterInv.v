(* WriterInv.v — the invariant of the cache writer (CacheWriter.v): after [wrun], the flushed class map is
   the sorted map "obfuscated class name -> representation of the LAST block with that name", where the
   representation is a function of the block's entries (Spec.v) and of the FINAL string table. *)
From Coq Require Import Lia Sorted.
From PG Require Import Base Mapping Spec CacheWriter CacheReader CacheStructDefs Domain BinSearchProofs LexOrder
  StringTableProofs MapperProofs BtLemmas.

(* ------------------------------------------------------------------ *)
(* the domain                                                           *)
(* ------------------------------------------------------------------ *)
(* str_ok, num_ok, lm_ok, rec_ok, dom32, sizes_ok: see Domain.v (definitions only, extracted for the
   correspondence check) *)

(* ------------------------------------------------------------------ *)
(* the words stored for strings, as a function of the final table       *)
(* ------------------------------------------------------------------ *)
Definition soff (T : stab) (s : list N) : N :=
  if is_empty s then MAX32
  else match assoc_get s (st_index T) with Some o => u32 o | None => MAX32 end.
Definition ooff (T : stab) (o : option (list N)) : N := match o with Some s => soff T s | None => MAX32 end.
Definition oe_word (oe : option N) : N := match oe with Some y => y | None => MAX32 end.

Definition member_of (T : stab) (e : entry) : member :=
  {| m_obf := soff T (e_obf e); m_start := e_start e; m_end := e_end e; m_ocls := ooff T (e_ocls e);
     m_ofile := ooff T (e_file e); m_oname := soff T (e_orig e); m_os := e_os e;
     m_oe := oe_word (e_oe e); m_params := soff T (e_args e) |}.

Lemma ins_soff t s t' off T : stab_insert t s = (t', off) -> stab_ext t' T -> u32 off = soff T s.
Proof.
  intros H [_ I]. destruct s as [|c s].
  - rewrite stab_insert_empty in H. inversion H. apply u32_MAX64.
  - assert (Hi : assoc_get (c :: s) (st_index t') = Some off).
    { eapply stab_insert_indexed; [exact H|discriminate]. }
    apply I in Hi. unfold soff. cbn [is_empty]. rewrite Hi. reflexivity.
Qed.

Lemma u32_small n : n < U32 -> u32 n = n.
Proof. intros H. unfold u32. apply N.mod_small. exact H. Qed.

Lemma num_ok_u32 n : num_ok n = true -> u32 n = n.
Proof. unfold num_ok. intros H. apply N.ltb_lt in H. apply u32_small. unfold MAX32, U32 in *. lia. Qed.

Lemma lm_ok_of_rec ty orig obf args ocls lm : rec_ok (RMethod ty orig obf args ocls lm) = true -> lm_ok lm = true.
Proof. cbn [rec_ok]. intros H. apply andb_true_iff in H. destruct H as [_ H]. exact H. Qed.

Lemma member_lines_ok lm : lm_ok lm = true ->
  member_lines lm = let '(s, e, os, oe) := entry_lines lm in (s, e, os, oe_word oe).
Proof.
  destruct lm as [l|]; [|reflexivity]. cbn [lm_ok]. intros H.
  apply andb_true_iff in H. destruct H as [H H5]. apply andb_true_iff in H. destruct H as [H H4].
  apply andb_true_iff in H. destruct H as [H H3]. apply andb_true_iff in H. destruct H as [H1 H2].
  unfold member_lines, entry_lines. rewrite (num_ok_u32 _ H1), (num_ok_u32 _ H2).
  destruct (lm_os l) as [x|]; [|reflexivity]. rewrite (num_ok_u32 _ H4).
  destruct (lm_oe l) as [y|]; [|reflexivity]. rewrite (num_ok_u32 _ H5). reflexivity.
Qed.

(* ------------------------------------------------------------------ *)
(* the string table along the run                                       *)
(* ------------------------------------------------------------------ *)
Definition rec_strings (r : record) : list (list N) :=
  match r with
  | RHeader k v => if str_eqb k source_file then match v with Some f => [f] | None => [] end else []
  | RClass orig obf => [obf; orig]
  | RField _ _ _ => []
  | RMethod _ orig obf args ocls _ => [obf; orig] ++ match ocls with Some c => [c] | None => [] end ++ [args]
  end.

Lemma stab_insert_all_app t a b : stab_insert_all t (a ++ b) = stab_insert_all (stab_insert_all t a) b.
Proof. unfold stab_insert_all. apply fold_left_app. Qed.

Lemma stab_insert_all_ext l : forall t, stab_ext t (stab_insert_all t l).
Proof.
  induction l as [|s l IH]; intros t; unfold stab_insert_all; cbn [fold_left]; [apply stab_ext_refl|].
  destruct (stab_insert t s) as [t1 off] eqn:E. cbn [fst]. fold (stab_insert_all t1 l).
  eapply stab_ext_trans; [eapply stab_insert_ext; exact E|apply IH].
Qed.

Lemma w_tab_wstep st r next : w_tab (wstep st r next) = stab_insert_all (w_tab st) (rec_strings r).
Proof.
  destruct r as [k v|o ob|ty o ob|ty orig obf args ocls lm]; cbn [wstep rec_strings].
  - destruct (str_eqb k source_file); [|reflexivity]. destruct v as [f|]; [|reflexivity].
    unfold stab_insert_all. cbn [fold_left]. destruct (stab_insert (w_tab st) f) as [t off]. reflexivity.
  - unfold stab_insert_all. cbn [fold_left].
    destruct (stab_insert (w_tab st) ob) as [t1 o1]. cbn [fst].
    destruct (stab_insert t1 o) as [t2 o2]. reflexivity.
  - reflexivity.
  - destruct (member_lines lm) as [[[s en] os] oe].
    unfold stab_insert_all. cbn [app fold_left].
    destruct (stab_insert (w_tab st) obf) as [t1 o1]. cbn [fst].
    destruct (stab_insert t1 orig) as [t2 o2]. cbn [fst].
    destruct ocls as [c|]; cbn [app fold_left].
    + destruct (stab_insert t2 c) as [t3 o3]. cbn [fst].
      destruct (stab_insert t3 args) as [t4 o4]. cbn [fst].
      match goal with |- w_tab (if ?b then _ else _) = _ => destruct b end; reflexivity.
    + destruct (stab_insert t2 args) as [t4 o4]. cbn [fst].
      match goal with |- w_tab (if ?b then _ else _) = _ => destruct b end; reflexivity.
Qed.

Lemma w_tab_wrun rs : forall st, w_tab (wrun st rs) = stab_insert_all (w_tab st) (flat_map rec_strings rs).
Proof.
  induction rs as [|r rs IH]; intros st; cbn [wrun flat_map]; [reflexivity|].
  rewrite IH, w_tab_wstep, stab_insert_all_app. reflexivity.
Qed.

(* the run with a lookahead tail *)
Fixpoint wrun_la (st : wstate) (rs tail : list record) : wstate :=
  match rs with
  | [] => st
  | r :: rest => wrun_la (wstep st r (hd_error (rest ++ tail))) rest tail
  end.

Lemma wrun_app a b : forall st, wrun st (a ++ b) = wrun (wrun_la st a b) b.
Proof. induction a as [|r a IH]; intros st; cbn [app wrun wrun_la]; [reflexivity|]. apply IH. Qed.

Lemma w_tab_wrun_la rs tail : forall st,
  w_tab (wrun_la st rs tail) = stab_insert_all (w_tab st) (flat_map rec_strings rs).
Proof.
  induction rs as [|r rs IH]; intros st; cbn [wrun_la flat_map]; [reflexivity|].
  rewrite IH, w_tab_wstep, stab_insert_all_app. reflexivity.
Qed.

Lemma wstep_ext st r next : stab_ext (w_tab st) (w_tab (wstep st r next)).
Proof. rewrite w_tab_wstep. apply stab_insert_all_ext. Qed.
Lemma wrun_la_ext st rs tail : stab_ext (w_tab st) (w_tab (wrun_la st rs tail)).
Proof. rewrite w_tab_wrun_la. apply stab_insert_all_ext. Qed.
Lemma wrun_ext st rs : stab_ext (w_tab st) (w_tab (wrun st rs)).
Proof. rewrite w_tab_wrun. apply stab_insert_all_ext. Qed.

(* ------------------------------------------------------------------ *)
(* one method record                                                    *)
(* ------------------------------------------------------------------ *)
Lemma existsb_key3w e seen :
  existsb (key3_eqb (key_of e)) (map key_of seen) = existsb (key_eqb e) seen.
Proof. induction seen as [|s seen IH]; cbn [map existsb]; [reflexivity|]. rewrite IH. reflexivity. Qed.

Definition pkey (e : entry) : list N * list N := (e_obf e, e_args e).

Lemma wstep_method T st ty orig obf args ocls lm next cf :
  let st' := wstep st (RMethod ty orig obf args ocls lm) next in
  let e := mk_entry cf orig obf args ocls lm (next_same_range lm (la next)) in
  let cur := w_cur st in let cur' := w_cur st' in
  stab_ext (w_tab st') T -> lm_ok lm = true ->
  c_file (cip_class cur) = ooff T cf ->
  w_classes st' = w_classes st /\ cip_name cur' = cip_name cur /\
  c_obf (cip_class cur') = c_obf (cip_class cur) /\ c_orig (cip_class cur') = c_orig (cip_class cur) /\
  c_file (cip_class cur') = c_file (cip_class cur) /\
  cip_members cur' = bt_push lex_cmp (e_obf e) (member_of T e) (cip_members cur) /\
  c_mlen (cip_class cur') = u32 (c_mlen (cip_class cur) + 1) /\
  (if e_inlined e || existsb (key3_eqb (key_of e)) (cip_unique cur)
   then cip_byparams cur' = cip_byparams cur /\ cip_unique cur' = cip_unique cur /\
        c_plen (cip_class cur') = c_plen (cip_class cur)
   else cip_byparams cur' = bt_push pair_cmp (pkey e) (member_of T e) (cip_byparams cur) /\
        cip_unique cur' = key_of e :: cip_unique cur /\
        c_plen (cip_class cur') = u32 (c_plen (cip_class cur) + 1)).
Proof.
  cbv zeta. unfold wstep, mk_entry, la. intros Hext Hlm Hcf.
  rewrite (member_lines_ok lm Hlm) in *. destruct (entry_lines lm) as [[[s en] os] oe].
  destruct (stab_insert (w_tab st) obf) as [t1 o1] eqn:E1.
  destruct (stab_insert t1 orig) as [t2 o2] eqn:E2.
  set (X := match ocls with
            | Some c => let '(t', o) := stab_insert t2 c in (t', u32 o)
            | None => (t2, MAX32)
            end) in *.
  destruct X as [t3 w3] eqn:E3.
  destruct (stab_insert t3 args) as [t4 o4] eqn:E4.
  set (skip := next_same_range lm match next with Some n => [n] | None => [] end
               || existsb (key3_eqb (obf, args, orig)) (cip_unique (w_cur st))) in *.
  assert (Hext4 : stab_ext t4 T) by (destruct skip; exact Hext). clear Hext.
  assert (Hext3 : stab_ext t3 T) by (eapply stab_ext_trans; [eapply stab_insert_ext; exact E4|exact Hext4]).
  assert (Hw3 : w3 = ooff T ocls /\ stab_ext t2 T).
  { subst X. destruct ocls as [c|].
    - destruct (stab_insert t2 c) as [t3' o3] eqn:E3'. inversion E3; subst t3' w3. split.
      + eapply ins_soff; eassumption.
      + eapply stab_ext_trans; [eapply stab_insert_ext; exact E3'|exact Hext3].
    - inversion E3; subst. split; [reflexivity|exact Hext3]. }
  destruct Hw3 as [Hw3 Hext2].
  assert (Hext1 : stab_ext t1 T) by (eapply stab_ext_trans; [eapply stab_insert_ext; exact E2|exact Hext2]).
  pose proof (ins_soff _ _ _ _ _ E1 Hext1) as Ho1.
  pose proof (ins_soff _ _ _ _ _ E2 Hext2) as Ho2.
  pose proof (ins_soff _ _ _ _ _ E4 Hext4) as Ho4.
  unfold member_of, key_of, pkey.
  cbn [e_obf e_start e_end e_os e_oe e_ocls e_file e_orig e_args e_inlined].
  rewrite <- Ho1, <- Ho2, <- Ho4, <- Hw3, <- Hcf. fold skip.
  destruct skip; cbn [w_classes w_cur cip_name cip_class cip_members cip_byparams cip_unique];
    unfold bump_p, bump_m; cbn [c_obf c_orig c_file c_mlen c_plen]; repeat split; reflexivity.
Qed.

(* ------------------------------------------------------------------ *)
(* a class body                                                         *)
(* ------------------------------------------------------------------ *)
Lemma u32_lt n : u32 n < U32.
Proof. unfold u32. apply N.mod_lt. discriminate. Qed.

Lemma u32_add_l a b : u32 (u32 a + b) = u32 (a + b).
Proof. unfold u32. apply N.add_mod_idemp_l. discriminate. Qed.

(* the source file in force after a body *)
Fixpoint last_file (cf : option (list N)) (body : list record) : option (list N) :=
  match body with
  | [] => cf
  | RHeader k v :: rest => last_file (if str_eqb k source_file then v else cf) rest
  | _ :: rest => last_file cf rest
  end.

Definition cur_same (c c' : cip) : Prop :=
  cip_name c' = cip_name c /\ c_obf (cip_class c') = c_obf (cip_class c) /\
  c_orig (cip_class c') = c_orig (cip_class c).

Lemma wbody_run T tail : tail_ok tail = true -> forall body st seen cf,
  no_class body = true -> forallb rec_ok body = true ->
  stab_ext (w_tab (wrun_la st body tail)) T ->
  c_file (cip_class (w_cur st)) = ooff T cf ->
  cip_unique (w_cur st) = map key_of seen ->
  let st' := wrun_la st body tail in
  let es := entries cf body in
  let ps := dedup seen (filter not_inlined es) in
  w_classes st' = w_classes st /\ cur_same (w_cur st) (w_cur st') /\
  cip_members (w_cur st') = push_all lex_cmp e_obf (member_of T) es (cip_members (w_cur st)) /\
  cip_byparams (w_cur st') = push_all pair_cmp pkey (member_of T) ps (cip_byparams (w_cur st)) /\
  u32 (c_mlen (cip_class (w_cur st'))) = u32 (c_mlen (cip_class (w_cur st)) + lenN es) /\
  u32 (c_plen (cip_class (w_cur st'))) = u32 (c_plen (cip_class (w_cur st)) + lenN ps) /\
  (c_mlen (cip_class (w_cur st)) < U32 -> c_mlen (cip_class (w_cur st')) < U32) /\
  (c_plen (cip_class (w_cur st)) < U32 -> c_plen (cip_class (w_cur st')) < U32) /\
  c_file (cip_class (w_cur st')) = ooff T (last_file cf body).
Proof.
  intros Ht. induction body as [|r body IH]; intros st seen cf Hnc Hok Hext Hcf Hu; cbv zeta.
  - cbn [wrun_la entries filter dedup push_all fold_left]. rewrite lenN_nil, !N.add_0_r.
    unfold cur_same. repeat split; try reflexivity; try exact Hcf; intros H; exact H.
  - cbn [no_class forallb] in Hnc. apply andb_true_iff in Hnc. destruct Hnc as [Hr Hnc].
    fold (no_class body) in Hnc.
    cbn [forallb] in Hok. apply andb_true_iff in Hok. destruct Hok as [Hrok Hok].
    cbn [wrun_la] in *.
    set (st1 := wstep st r (hd_error (body ++ tail))) in *.
    assert (Hext1 : stab_ext (w_tab st1) T).
    { eapply stab_ext_trans; [apply (wrun_la_ext st1 body tail)|exact Hext]. }
    destruct r as [k v|o ob|ty o ob|ty orig obf args ocls lm]; [| discriminate Hr | |].
    + (* header *)
      cbn [entries last_file]. cbn [rec_ok] in Hrok. subst st1. cbn [wstep] in *.
      destruct (str_eqb k source_file).
      * destruct v as [f|].
        -- destruct (stab_insert (w_tab st) f) as [t off] eqn:E.
           match type of Hext with stab_ext (w_tab (wrun_la ?s _ _)) _ => set (st1 := s) in * end.
           assert (Hcf1 : c_file (cip_class (w_cur st1)) = ooff T (Some f)).
           { subst st1. cbn [w_cur with_class cip_class set_file c_file ooff].
             eapply ins_soff; [exact E|exact Hext1]. }
           specialize (IH st1 seen (Some f) Hnc Hok Hext Hcf1 Hu). cbv zeta in IH. exact IH.
        -- match type of Hext with stab_ext (w_tab (wrun_la ?s _ _)) _ => set (st1 := s) in * end.
           assert (Hcf1 : c_file (cip_class (w_cur st1)) = ooff T None) by reflexivity.
           specialize (IH st1 seen None Hnc Hok Hext Hcf1 Hu). cbv zeta in IH. exact IH.
      * apply (IH st seen cf Hnc Hok Hext Hcf Hu).
    + (* field *)
      cbn [entries last_file]. apply (IH st seen cf Hnc Hok Hext Hcf Hu).
    + (* method *)
      rewrite entries_method. cbn [last_file].
      pose proof (wstep_method T st ty orig obf args ocls lm (hd_error (body ++ tail)) cf) as Hs.
      cbv zeta in Hs. fold st1 in Hs. rewrite (nsr_la lm body tail Ht) in Hs.
      specialize (Hs Hext1 (lm_ok_of_rec _ _ _ _ _ _ Hrok) Hcf).
      set (e := mk_entry cf orig obf args ocls lm (next_same_range lm body)) in *.
      destruct Hs as (Hc & Hn & Hob & Hor & Hf & Hmem & Hml & Hbyp).
      rewrite Hu, existsb_key3w in Hbyp.
      assert (Hcf1 : c_file (cip_class (w_cur st1)) = ooff T cf) by congruence.
      cbn [filter]. change (not_inlined e) with (negb (e_inlined e)).
      destruct (e_inlined e) eqn:Einl; cbn [orb negb] in *.
      * destruct Hbyp as (Hb1 & Hu1 & Hp1).
        specialize (IH st1 seen cf Hnc Hok Hext Hcf1 Hu1). cbv zeta in IH.
        destruct IH as (Hc' & (Hn' & Hob' & Hor') & Hmem' & Hbyp' & Hml' & Hpl' & Hmlt' & Hplt' & Hlf').
        assert (HA : c_mlen (cip_class (w_cur st)) < U32 -> c_mlen (cip_class (w_cur (wrun_la st1 body tail))) < U32)
          by (intros _; apply Hmlt'; rewrite Hml; apply u32_lt).
        assert (HB : c_plen (cip_class (w_cur st)) < U32 -> c_plen (cip_class (w_cur (wrun_la st1 body tail))) < U32)
          by (intros Hlt; apply Hplt'; rewrite Hp1; exact Hlt).
        unfold cur_same. refine (conj _ (conj (conj _ (conj _ _)) (conj _ (conj _ (conj _ (conj _ (conj HA (conj HB Hlf')))))))); try congruence.
        -- rewrite Hmem', Hmem. reflexivity.
        -- rewrite Hml', Hml, u32_add_l, lenN_cons. f_equal. lia.
      * destruct (existsb (key_eqb e) seen) eqn:Eseen.
        -- destruct Hbyp as (Hb1 & Hu1 & Hp1).
           specialize (IH st1 seen cf Hnc Hok Hext Hcf1 Hu1). cbv zeta in IH.
           destruct IH as (Hc' & (Hn' & Hob' & Hor') & Hmem' & Hbyp' & Hml' & Hpl' & Hmlt' & Hplt' & Hlf').
           cbn [dedup]. rewrite Eseen.
           assert (HA : c_mlen (cip_class (w_cur st)) < U32 -> c_mlen (cip_class (w_cur (wrun_la st1 body tail))) < U32)
          by (intros _; apply Hmlt'; rewrite Hml; apply u32_lt).
        assert (HB : c_plen (cip_class (w_cur st)) < U32 -> c_plen (cip_class (w_cur (wrun_la st1 body tail))) < U32)
          by (intros Hlt; apply Hplt'; rewrite Hp1; exact Hlt).
        unfold cur_same. refine (conj _ (conj (conj _ (conj _ _)) (conj _ (conj _ (conj _ (conj _ (conj HA (conj HB Hlf')))))))); try congruence.
           ++ rewrite Hmem', Hmem. reflexivity.
           ++ rewrite Hml', Hml, u32_add_l, lenN_cons. f_equal. lia.
        -- destruct Hbyp as (Hb1 & Hu1 & Hp1).
           change (key_of e :: map key_of seen) with (map key_of (e :: seen)) in Hu1.
           specialize (IH st1 (e :: seen) cf Hnc Hok Hext Hcf1 Hu1). cbv zeta in IH.
           destruct IH as (Hc' & (Hn' & Hob' & Hor') & Hmem' & Hbyp' & Hml' & Hpl' & Hmlt' & Hplt' & Hlf').
           cbn [dedup]. rewrite Eseen.
           assert (HA : c_mlen (cip_class (w_cur st)) < U32 -> c_mlen (cip_class (w_cur (wrun_la st1 body tail))) < U32)
          by (intros _; apply Hmlt'; rewrite Hml; apply u32_lt).
        assert (HB : c_plen (cip_class (w_cur st)) < U32 -> c_plen (cip_class (w_cur (wrun_la st1 body tail))) < U32)
          by (intros _; apply Hplt'; rewrite Hp1; apply u32_lt).
        unfold cur_same. refine (conj _ (conj (conj _ (conj _ _)) (conj _ (conj _ (conj _ (conj _ (conj HA (conj HB Hlf')))))))); try congruence.
           ++ rewrite Hmem', Hmem. reflexivity.
           ++ rewrite Hbyp', Hb1. reflexivity.
           ++ rewrite Hml', Hml, u32_add_l, lenN_cons. f_equal. lia.
           ++ rewrite Hpl', Hp1, u32_add_l, lenN_cons. f_equal. lia.
Qed.

(* ------------------------------------------------------------------ *)
(* the class blocks                                                     *)
(* ------------------------------------------------------------------ *)
Definition cip_rep (T : stab) (c : cip) (b : block) : Prop :=
  cip_name c = b_obf b /\ c_obf (cip_class c) = soff T (b_obf b) /\ c_orig (cip_class c) = soff T (b_orig b) /\
  cip_members c = push_all lex_cmp e_obf (member_of T) (block_entries b) [] /\
  cip_byparams c = push_all pair_cmp pkey (member_of T) (block_param_entries b) [] /\
  c_mlen (cip_class c) = u32 (lenN (block_entries b)) /\
  c_plen (cip_class c) = u32 (lenN (block_param_entries b)) /\
  c_file (cip_class c) = ooff T (last_file None (b_body b)).

Lemma forallb_app' {A} (f : A -> bool) a b : forallb f (a ++ b) = true -> forallb f a = true /\ forallb f b = true.
Proof. rewrite forallb_app. apply andb_true_iff. Qed.

Lemma wblocks_run T bs :
  Forall (fun b => no_class (b_body b) = true) bs -> forallb rec_ok (unblocks bs) = true ->
  forall st, stab_ext (w_tab (wrun st (unblocks bs))) T ->
  exists cips, Forall2 (cip_rep T) cips bs /\
    flush (wrun st (unblocks bs)) = ins_all lex_cmp cip_name cips (flush st).
Proof.
  induction bs as [|b bs IH]; intros Hnc Hok st Hext.
  - exists []. split; [constructor|reflexivity].
  - inversion Hnc as [|b0 bs0 Hnb Hnc']; subst.
    cbn [unblocks flat_map] in *. fold (unblocks bs) in *. unfold unblock in Hok, Hext |- *.
    cbn [app forallb] in Hok. apply andb_true_iff in Hok. destruct Hok as [Hcok Hok].
    apply forallb_app' in Hok. destruct Hok as [Hbok Hok].
    cbn [rec_ok] in Hcok. apply andb_true_iff in Hcok. destruct Hcok as [Hoo Hobf].
    cbn [app wrun] in *. rewrite wrun_app in *.
    set (st1 := wstep st (RClass (b_orig b) (b_obf b)) (hd_error (b_body b ++ unblocks bs))) in *.
    set (st2 := wrun_la st1 (b_body b) (unblocks bs)) in *.
    assert (Hext2 : stab_ext (w_tab st2) T).
    { eapply stab_ext_trans; [apply (wrun_ext st2 (unblocks bs))|exact Hext]. }
    assert (Hext1 : stab_ext (w_tab st1) T).
    { eapply stab_ext_trans; [apply (wrun_la_ext st1 (b_body b) (unblocks bs))|exact Hext2]. }
    (* the class line *)
    assert (Hst1 : w_classes st1 = flush st /\ cip_name (w_cur st1) = b_obf b /\
                   c_obf (cip_class (w_cur st1)) = soff T (b_obf b) /\
                   c_orig (cip_class (w_cur st1)) = soff T (b_orig b) /\
                   c_file (cip_class (w_cur st1)) = MAX32 /\ c_mlen (cip_class (w_cur st1)) = 0 /\
                   c_plen (cip_class (w_cur st1)) = 0 /\ cip_members (w_cur st1) = [] /\
                   cip_byparams (w_cur st1) = [] /\ cip_unique (w_cur st1) = []).
    { subst st1. cbn [wstep] in *.
      destruct (stab_insert (w_tab st) (b_obf b)) as [t1 o1] eqn:E1.
      destruct (stab_insert t1 (b_orig b)) as [t2 o2] eqn:E2.
      cbn [w_tab w_classes w_cur cip_name cip_class c_obf c_orig c_file c_mlen c_plen cip_members cip_byparams cip_unique] in *.
      repeat split; try reflexivity.
      - eapply ins_soff; [exact E1|]. eapply stab_ext_trans; [eapply stab_insert_ext; exact E2|exact Hext1].
      - eapply ins_soff; [exact E2|exact Hext1]. }
    destruct Hst1 as (Hc1 & Hn1 & Hob1 & Hor1 & Hf1 & Hm1 & Hp1 & Hmem1 & Hbyp1 & Hu1).
    pose proof (wbody_run T (unblocks bs) (tail_ok_unblocks bs) (b_body b) st1 [] None Hnb Hbok Hext2 Hf1 Hu1) as Hb.
    cbv zeta in Hb. fold st2 in Hb.
    destruct Hb as (Hc2 & (Hn2 & Hob2 & Hor2) & Hmem2 & Hbyp2 & Hml2 & Hpl2 & Hmlt2 & Hplt2 & Hlf2).
    rewrite Hm1 in Hmlt2. rewrite Hp1 in Hplt2.
    rewrite (u32_small _ (Hmlt2 eq_refl)) in Hml2. rewrite (u32_small _ (Hplt2 eq_refl)) in Hpl2.
    destruct (IH Hnc' Hok st2 Hext) as (cips & HF & HL).
    exists (w_cur st2 :: cips). split.
    + constructor; [|exact HF]. unfold cip_rep, block_entries, block_param_entries.
      rewrite Hn2, Hob2, Hor2, Hmem2, Hbyp2, Hml2, Hpl2, Hlf2, Hn1, Hob1, Hor1, Hmem1, Hbyp1, Hm1, Hp1, !N.add_0_l.
      repeat split; reflexivity.
    + rewrite HL. cbn [ins_all fold_left]. f_equal.
      unfold flush at 1. rewrite Hn2, Hn1, Hc2, Hc1.
      unfold str_ok in Hobf. apply andb_true_iff in Hobf. destruct Hobf as [Hne _].
      apply negb_true_iff in Hne. rewrite Hne. reflexivity.
Qed.

(* the whole run *)
Theorem write_rep rs : dom32 rs = true ->
  let st := wrun wstate_init rs in
  exists cips, Forall2 (cip_rep (w_tab st)) cips (blocks rs) /\
    flush st = ins_all lex_cmp cip_name cips [].
Proof.
  intros Hdom. cbv zeta. unfold blocks. destruct (split_blocks rs) as [pre bs] eqn:E. cbn [snd].
  destruct (split_blocks_inv rs pre bs E) as (Hrs & Hpre & Hbs).
  unfold dom32 in Hdom. rewrite Hrs in Hdom. apply forallb_app' in Hdom. destruct Hdom as [Hpok Hbok].
  set (T := w_tab (wrun wstate_init rs)).
  assert (HT : T = w_tab (wrun wstate_init (pre ++ unblocks bs))) by (unfold T; rewrite Hrs at 1; reflexivity).
  rewrite Hrs. rewrite wrun_app in *.
  set (st0 := wrun_la wstate_init pre (unblocks bs)) in *.
  assert (Hext : stab_ext (w_tab (wrun st0 (unblocks bs))) T) by (rewrite HT; apply stab_ext_refl).
  assert (Hext0 : stab_ext (w_tab st0) T).
  { eapply stab_ext_trans; [apply (wrun_ext st0 (unblocks bs))|exact Hext]. }
  assert (Hf0 : c_file (cip_class (w_cur wstate_init)) = ooff T None) by reflexivity.
  assert (Hu0 : cip_unique (w_cur wstate_init) = map key_of []) by reflexivity.
  pose proof (wbody_run T (unblocks bs) (tail_ok_unblocks bs) pre wstate_init [] None Hpre Hpok Hext0 Hf0 Hu0) as Hb.
  cbv zeta in Hb. fold st0 in Hb. destruct Hb as (Hc0 & (Hn0 & _) & _).
  destruct (wblocks_run T bs Hbs Hbok st0 Hext) as (cips & HF & HL).
  exists cips. split; [exact HF|]. rewrite HL. f_equal.
  unfold flush. rewrite Hn0, Hc0. reflexivity.
Qed.
