(* CacheWriter.v — L2/L3 writer: model of ProguardCache::write (src/cache/raw.rs) with
   watto::StringTable and leb128::write.  BTreeMap = association list kept sorted
   under the byte-lexicographic order of its keys. *)
From PG Require Import Base Mapping Spec.
From PG.Gen Require Extracted.

(* ---- watto::StringTable ---- *)
Record stab := { st_index : list (str * N); st_rev : list byte; st_len : N }.
Definition stab_empty := {| st_index := []; st_rev := []; st_len := 0 |}.

(* leb128::write::unsigned *)
Fixpoint leb128_fuel (f : nat) (v : N) : list byte :=
  match f with
  | O => []
  | S f' => let b := v mod 128 in let v' := v / 128 in
            if v' =? 0 then [b] else (b + 128) :: leb128_fuel f' v'
  end.
Definition leb128 (v : N) : list byte := leb128_fuel 10 v.

(* returns the usize offset; usize::MAX for the empty string *)
Definition stab_insert (t : stab) (s : str) : stab * N :=
  if is_empty s then (t, MAX64)
  else match assoc_get s (st_index t) with
       | Some off => (t, off)
       | None =>
         let enc := leb128 (lenN s) ++ s in
         ({| st_index := (s, st_len t) :: st_index t;
             st_rev := rev_append enc (st_rev t);
             st_len := st_len t + lenN enc |}, st_len t)
       end.
Definition stab_bytes (t : stab) : list byte := rev (st_rev t).

(* ---- raw::Member / raw::Class ---- *)
Record member := { m_obf : N; m_start : N; m_end : N; m_ocls : N; m_ofile : N; m_oname : N;
                   m_os : N; m_oe : N; m_params : N }.
Record classrec := { c_obf : N; c_orig : N; c_file : N; c_moff : N; c_mlen : N; c_poff : N; c_plen : N }.

Record cip := {   (* ClassInProgress *)
  cip_name : str; cip_class : classrec;
  cip_members : list (str * list member);            (* BTreeMap<&str, Vec<Member>> *)
  cip_byparams : list ((str * str) * list member);   (* BTreeMap<(&str,&str), Vec<Member>> *)
  cip_unique : list (str * str * str) }.             (* HashSet *)
Definition class_default :=
  {| c_obf := MAX32; c_orig := MAX32; c_file := MAX32; c_moff := MAX32; c_mlen := 0; c_poff := MAX32; c_plen := 0 |}.
Definition cip_default :=
  {| cip_name := []; cip_class := class_default; cip_members := []; cip_byparams := []; cip_unique := [] |}.

(* BTreeMap: entry(k).or_default().push(v) *)
Fixpoint bt_push {K V} (cmp : K -> K -> comparison) (k : K) (v : V) (l : list (K * list V)) : list (K * list V) :=
  match l with
  | [] => [(k, [v])]
  | (k', vs) :: r => match cmp k k' with
                     | Lt => (k, [v]) :: l
                     | Eq => (k', vs ++ [v]) :: r
                     | Gt => (k', vs) :: bt_push cmp k v r
                     end
  end.
(* BTreeMap::insert (replace) *)
Fixpoint bt_insert {K V} (cmp : K -> K -> comparison) (k : K) (v : V) (l : list (K * V)) : list (K * V) :=
  match l with
  | [] => [(k, v)]
  | (k', v') :: r => match cmp k k' with
                     | Lt => (k, v) :: l
                     | Eq => (k, v) :: r
                     | Gt => (k', v') :: bt_insert cmp k v r
                     end
  end.

Definition key3_eqb (a b : str * str * str) : bool :=
  let '(a1, a2, a3) := a in let '(b1, b2, b3) := b in
  str_eqb a1 b1 && str_eqb a2 b2 && str_eqb a3 b3.

Record wstate := { w_tab : stab; w_classes : list (str * cip); w_cur : cip }.
Definition wstate_init := {| w_tab := stab_empty; w_classes := []; w_cur := cip_default |}.

Definition set_file (c : classrec) (f : N) : classrec :=
  {| c_obf := c_obf c; c_orig := c_orig c; c_file := f; c_moff := c_moff c; c_mlen := c_mlen c;
     c_poff := c_poff c; c_plen := c_plen c |}.
Definition bump_m (c : classrec) : classrec :=
  {| c_obf := c_obf c; c_orig := c_orig c; c_file := c_file c; c_moff := c_moff c; c_mlen := u32 (c_mlen c + 1);
     c_poff := c_poff c; c_plen := c_plen c |}.
Definition bump_p (c : classrec) : classrec :=
  {| c_obf := c_obf c; c_orig := c_orig c; c_file := c_file c; c_moff := c_moff c; c_mlen := c_mlen c;
     c_poff := c_poff c; c_plen := u32 (c_plen c + 1) |}.
Definition set_offs (c : classrec) (mo po : N) : classrec :=
  {| c_obf := c_obf c; c_orig := c_orig c; c_file := c_file c; c_moff := u32 mo; c_mlen := c_mlen c;
     c_poff := u32 po; c_plen := c_plen c |}.

Definition with_class (cur : cip) (c : classrec) : cip :=
  {| cip_name := cip_name cur; cip_class := c; cip_members := cip_members cur;
     cip_byparams := cip_byparams cur; cip_unique := cip_unique cur |}.

Definition flush (st : wstate) : list (str * cip) :=
  if is_empty (cip_name (w_cur st)) then w_classes st
  else bt_insert lex_cmp (cip_name (w_cur st)) (w_cur st) (w_classes st).

(* the (start, end, original start, original end) words of a member *)
Definition member_lines (lm : option line_mapping) : N * N * N * N :=
  match lm with
  | None => (0, 0, 0, MAX32)
  | Some l => match lm_os l with
              | Some x => (u32 (lm_start l), u32 (lm_end l), u32 x,
                           match lm_oe l with Some y => u32 y | None => MAX32 end)
              | None => (u32 (lm_start l), u32 (lm_end l), u32 (lm_start l), u32 (lm_end l))
              end
  end.

Definition wstep (st : wstate) (r : record) (next : option record) : wstate :=
  match r with
  | RHeader k v =>
      if str_eqb k source_file then
        match v with
        | Some f => let '(t, off) := stab_insert (w_tab st) f in
                    {| w_tab := t; w_classes := w_classes st;
                       w_cur := with_class (w_cur st) (set_file (cip_class (w_cur st)) (u32 off)) |}
        | None => {| w_tab := w_tab st; w_classes := w_classes st;
                     w_cur := with_class (w_cur st) (set_file (cip_class (w_cur st)) MAX32) |}
        end
      else st
  | RClass orig obf =>
      let classes := flush st in
      let '(t, o1) := stab_insert (w_tab st) obf in
      let '(t, o2) := stab_insert t orig in
      {| w_tab := t; w_classes := classes;
         w_cur := {| cip_name := obf;
                     cip_class := {| c_obf := u32 o1; c_orig := u32 o2; c_file := MAX32; c_moff := MAX32;
                                     c_mlen := 0; c_poff := MAX32; c_plen := 0 |};
                     cip_members := []; cip_byparams := []; cip_unique := [] |} |}
  | RField _ _ _ => st
  | RMethod _ orig obf args ocls lm =>
      let '(s, e, os, oe) := member_lines lm in
      let '(t, o_obf) := stab_insert (w_tab st) obf in
      let '(t, o_orig) := stab_insert t orig in
      let '(t, o_cls) := match ocls with
                         | Some c => let '(t', o) := stab_insert t c in (t', u32 o)
                         | None => (t, MAX32)
                         end in
      let '(t, o_par) := stab_insert t args in
      let cur := w_cur st in
      let m := {| m_obf := u32 o_obf; m_start := s; m_end := e; m_ocls := o_cls;
                  m_ofile := c_file (cip_class cur); m_oname := u32 o_orig;
                  m_os := os; m_oe := oe; m_params := u32 o_par |} in
      let members := bt_push lex_cmp obf m (cip_members cur) in
      let cls := bump_m (cip_class cur) in
      let skip := next_same_range lm (match next with Some n => [n] | None => [] end)
                  || existsb (key3_eqb (obf, args, orig)) (cip_unique cur) in
      if skip then
        {| w_tab := t; w_classes := w_classes st;
           w_cur := {| cip_name := cip_name cur; cip_class := cls; cip_members := members;
                       cip_byparams := cip_byparams cur; cip_unique := cip_unique cur |} |}
      else
        {| w_tab := t; w_classes := w_classes st;
           w_cur := {| cip_name := cip_name cur; cip_class := bump_p cls; cip_members := members;
                       cip_byparams := bt_push pair_cmp (obf, args) m (cip_byparams cur);
                       cip_unique := (obf, args, orig) :: cip_unique cur |} |}
  end.

Fixpoint wrun (st : wstate) (rs : list record) : wstate :=
  match rs with
  | [] => st
  | r :: rest => wrun (wstep st r (hd_error rest)) rest
  end.

(* flatten classes (BTreeMap::into_values), assigning section offsets *)
Fixpoint flatten (cs : list (str * cip)) (nm np : N) : list classrec * list member * list member :=
  match cs with
  | [] => ([], [], [])
  | (_, c) :: r =>
      let ms := flat_map snd (cip_members c) in
      let ps := flat_map snd (cip_byparams c) in
      let cr := set_offs (cip_class c) nm np in
      let '(crs, mss, pss) := flatten r (nm + lenN ms) (np + lenN ps) in
      (cr :: crs, ms ++ mss, ps ++ pss)
  end.

(* ---- L2: the structure the writer emits ---- *)
Record cache_struct := {
  cs_num_members : N; cs_num_byparams : N;     (* header counts as the writer computes them *)
  cs_classes : list classrec; cs_members : list member; cs_byparams : list member;
  cs_strings : list byte }.

Definition write_struct (rs : list record) : cache_struct :=
  let st := wrun wstate_init rs in
  let classes := flush st in
  let nm := fold_left (fun a c => u32 (a + c_mlen (cip_class (snd c)))) classes 0 in
  let np := fold_left (fun a c => u32 (a + c_plen (cip_class (snd c)))) classes 0 in
  let '(crs, ms, ps) := flatten classes 0 0 in
  {| cs_num_members := nm; cs_num_byparams := np;
     cs_classes := crs; cs_members := ms; cs_byparams := ps;
     cs_strings := stab_bytes (w_tab st) |}.

(* ---- L3: bytes ---- *)
Definition le32 (n : N) : list byte :=
  [n mod 256; (n / 256) mod 256; (n / 65536) mod 256; (n / 16777216) mod 256].
Definition class_words (c : classrec) : list N :=
  [c_obf c; c_orig c; c_file c; c_moff c; c_mlen c; c_poff c; c_plen c].
Definition member_words (m : member) : list N :=
  [m_obf m; m_start m; m_end m; m_ocls m; m_ofile m; m_oname m; m_os m; m_oe m; m_params m].
Definition ser_words (ws : list N) : list byte := flat_map le32 ws.
Definition pad_len (pos : N) : N := (8 - pos mod 8) mod 8.
Definition pad8 (pos : N) : list byte := repeat 0 (N.to_nat (pad_len pos)).

(* u32::from_le_bytes(PRGCACHE_MAGIC_BYTES) *)
Definition magic_of (b : list N) : N :=
  nth 0 b 0 + 256 * nth 1 b 0 + 65536 * nth 2 b 0 + 16777216 * nth 3 b 0.
Definition cache_magic : N := magic_of Extracted.cache_magic_bytes.
Definition cache_magic_flipped : N := magic_of (rev Extracted.cache_magic_bytes).
Definition cache_version : N := Extracted.cache_version.

Definition header_words (s : cache_struct) : list N :=
  [cache_magic; cache_version; u32 (lenN (cs_classes s)); cs_num_members s; cs_num_byparams s;
   u32 (lenN (cs_strings s))].

(* the chunks handed to write_all, in order (padding chunks may be empty) *)
Definition chunks (s : cache_struct) : list (list byte) :=
  let h := ser_words (header_words s) in
  let p1 := lenN h in
  let c := map (fun c => ser_words (class_words c)) (cs_classes s) in
  let p2 := p1 + lenN (pad8 p1) + lenN (concat c) in
  let m := ser_words (flat_map member_words (cs_members s)) in
  let p3 := p2 + lenN (pad8 p2) + lenN m in
  let p := ser_words (flat_map member_words (cs_byparams s)) in
  let p4 := p3 + lenN (pad8 p3) + lenN p in
  [h; pad8 p1] ++ c ++ [[]; pad8 p2; m; pad8 p3; p; pad8 p4; cs_strings s].

Definition ser (s : cache_struct) : list byte := concat (chunks s).

Definition write (rs : list record) : list byte := ser (write_struct rs).
Definition write_bytes (b : str) : list byte := write (recs b).
