(* LayoutProofs.v — property C09 for the INDEPENDENT layout decoder of Layout.v:
   every file the writer emits (in the 32-bit domain) is accepted by [layout_ok], and by the
   model [self_test] of ProguardCache::test (src/cache/raw.rs:374-408).

   1. byte level: l_take / l_word / l_words / l_records / l_pad / l_leb against
      le32 / ser_words / ser_recs / pad8 / leb128 of the writer;
   2. strings: [l_string] reads a string placed by the writer ([placed]); agreement with
      [read_string] at such offsets ([agree]);
   3. decoding: [layout_ok] on the bytes of a well-formed structure = [struct_checks] on the
      structure (theorem [layout_ok_ser]);
   4. order / tiling / range lemmas turning the Prop invariants of CacheLayout.v into the
      decoder's boolean checks;
   5. [struct_checks s = true] for an arbitrary structure under explicit structural hypotheses
      (theorem [struct_checks_ok]);
   6. the writer: the hypotheses hold for [write_struct rs], hence [C09_layout_ok];
   7. [self_test] (model of ProguardCache::test) and [C09_selftest]. *)
From Coq Require Import Lia Sorted Arith.
From PG Require Import Base Mapping Spec CacheWriter CacheReader CacheStructDefs CacheBytesProofs
  LexOrder StringTableProofs MapperProofs BtLemmas Domain WriterInv CacheProofs CacheLayout Layout.
From PG.Gen Require Extracted.

(* ------------------------------------------------------------------ *)
(** * 1. Byte level                                                     *)
(* ------------------------------------------------------------------ *)

Lemma l_take_app {A} (a r : list A) : l_take (length a) (a ++ r) = Some (a, r).
Proof.
  induction a as [|x a IH]; [reflexivity|]. cbn [length app l_take]. rewrite IH. reflexivity.
Qed.

Lemma l_take_lenN {A} (a r : list A) : l_take (N.to_nat (lenN a)) (a ++ r) = Some (a, r).
Proof. rewrite CacheBytesProofs.to_nat_lenN. apply l_take_app. Qed.

(* the nested little-endian formula of the decoder against the flat one of the reader *)
Lemma le_nested_flat a b c d : a + 256 * (b + 256 * (c + 256 * d)) = a + 256 * b + 65536 * c + 16777216 * d.
Proof. lia. Qed.

Lemma l_word_rd32 l : l_word l = rd32 l.
Proof.
  unfold l_word, rd32.
  destruct l as [|a [|b [|c [|d r]]]]; try reflexivity.
  cbn [l_take]. rewrite le_nested_flat. reflexivity.
Qed.

Lemma l_word_le32 w r : w < U32 -> l_word (le32 w ++ r) = Some (w, r).
Proof. intros H. rewrite l_word_rd32. apply rd32_le32. exact H. Qed.

Lemma l_words_rd_words k : forall l, l_words k l = rd_words k l.
Proof.
  induction k as [|k IH]; intros l; [reflexivity|].
  cbn [l_words rd_words]. rewrite l_word_rd32. destruct (rd32 l) as [[w r]|]; [|reflexivity].
  rewrite IH. reflexivity.
Qed.

Lemma l_records_rd_recs wpr n : forall l, l_records wpr n l = rd_recs wpr n l.
Proof.
  induction n as [|n IH]; intros l; [reflexivity|].
  cbn [l_records rd_recs]. rewrite l_words_rd_words. destruct (rd_words wpr l) as [[ws r]|]; [|reflexivity].
  rewrite IH. reflexivity.
Qed.

Lemma l_words_ser_words ws r : forallb word_ok ws = true ->
  l_words (length ws) (ser_words ws ++ r) = Some (ws, r).
Proof. intros H. rewrite l_words_rd_words. apply rd_words_ser_words. exact H. Qed.

Lemma l_records_ser_recs wpr recs r : recs_ok wpr recs = true ->
  l_records wpr (length recs) (ser_recs recs ++ r) = Some (recs, r).
Proof. intros H. rewrite l_records_rd_recs. apply rd_recs_ser_recs. exact H. Qed.

Lemma l_records_ser_recs' wpr recs r : recs_ok wpr recs = true ->
  l_records wpr (N.to_nat (lenN recs)) (ser_recs recs ++ r) = Some (recs, r).
Proof. rewrite CacheBytesProofs.to_nat_lenN. apply l_records_ser_recs. Qed.

Lemma forallb_zero_repeat n : forallb (fun b => b =? 0) (repeat 0 n) = true.
Proof. induction n as [|n IH]; [reflexivity|]. cbn [repeat forallb]. rewrite IH. reflexivity. Qed.

Lemma l_pad_pad8 pos r : l_pad pos (pad8 pos ++ r) = Some (pos + pad_len pos, r).
Proof.
  unfold l_pad. cbv zeta. fold (pad_len pos). rewrite <- pad8_length, l_take_app.
  unfold pad8. rewrite forallb_zero_repeat. reflexivity.
Qed.

(* the padding really is checked: a non-zero padding byte is rejected *)
Example l_pad_nonzero : l_pad 28 [0; 0; 1; 0; 7] = None /\ l_pad 28 [0; 0; 0; 0; 7] = Some (32, [7]).
Proof. vm_compute. split; reflexivity. Qed.

(* LEB128: the decoder's 5-byte reader on the writer's canonical encoding *)
Lemma l_leb_leb128_gen : forall g f v sh r,
  (g <= f)%nat -> v < 128 ^ N.of_nat g ->
  (0 < g)%nat ->
  l_leb g sh (leb128_fuel f v ++ r) = Some (v * 2 ^ sh, r).
Proof.
  induction g as [|g IH]; intros f v sh r Hgf Hv Hg; [lia|].
  destruct f as [|f]; [lia|].
  cbn [leb128_fuel l_leb].
  pose proof (N.div_mod v 128 ltac:(lia)) as Hdm.
  pose proof (N.mod_lt v 128 ltac:(lia)) as Hm.
  set (q := v / 128) in *. set (b := v mod 128) in *. clearbody q b.
  destruct (N.eqb_spec q 0) as [Hq|Hq].
  - cbn [app]. replace (b <? 128) with true by (symmetry; apply N.ltb_lt; lia).
    replace v with b by lia. reflexivity.
  - cbn [app]. replace (b + 128 <? 128) with false by (symmetry; apply N.ltb_ge; lia).
    rewrite Nat2N.inj_succ, N.pow_succ_r' in Hv.
    assert (Hq' : q < 128 ^ N.of_nat g) by lia.
    assert (Hg' : (0 < g)%nat).
    { destruct g as [|g']; [|lia]. change (128 ^ N.of_nat 0) with 1 in Hq'. lia. }
    rewrite (IH f q (sh + 7) r); [|lia|exact Hq'|exact Hg'].
    f_equal. f_equal. rewrite N.pow_add_r. change (2 ^ 7) with 128.
    replace (b + 128 - 128) with b by lia. subst v. lia.
Qed.

Lemma l_leb_leb128 n r : n < U32 -> l_leb 5 0 (leb128 n ++ r) = Some (n, r).
Proof.
  intros H. unfold leb128. rewrite (l_leb_leb128_gen 5 10 n 0 r); [|lia| |lia].
  - change (2 ^ 0) with 1. rewrite N.mul_1_r. reflexivity.
  - change (128 ^ N.of_nat 5) with 34359738368. unfold U32 in H. lia.
Qed.

Example l_leb_ex :
  l_leb 5 0 (leb128 300 ++ [7; 8]) = Some (300, [7; 8]) /\
  l_leb 5 0 (leb128 MAX32 ++ [9]) = Some (MAX32, [9]) /\ leb128 MAX32 = [255; 255; 255; 255; 15].
Proof. vm_compute. repeat split; reflexivity. Qed.

(* ------------------------------------------------------------------ *)
(** * 2. Strings                                                        *)
(* ------------------------------------------------------------------ *)

(* [s] is stored, with its canonical length prefix, at offset [off] of [sb] *)
Definition placed (sb : list N) (off : N) (s : list N) : Prop :=
  exists pre post, sb = pre ++ leb128 (lenN s) ++ s ++ post /\ lenN pre = off.

Lemma l_string_at pre s post :
  utf8_valid s = true -> s <> [] -> lenN s < U32 ->
  l_string (pre ++ leb128 (lenN s) ++ s ++ post) (lenN pre) = Some s.
Proof.
  intros Hu Hne Hl. unfold l_string.
  replace (lenN (pre ++ leb128 (lenN s) ++ s ++ post) <? lenN pre) with false
    by (symmetry; apply N.ltb_ge; rewrite CacheBytesProofs.lenN_app; lia).
  rewrite CacheBytesProofs.to_nat_lenN, skipn_length_app, (l_leb_leb128 _ _ Hl), l_take_lenN, Hu.
  destruct s as [|c s]; [congruence|]. reflexivity.
Qed.

Lemma placed_len sb off s : placed sb off s -> lenN s <= lenN sb.
Proof. intros (pre & post & -> & _). rewrite !CacheBytesProofs.lenN_app. lia. Qed.

Lemma l_string_placed sb off s :
  placed sb off s -> lenN sb < U32 -> utf8_valid s = true -> s <> [] -> l_string sb off = Some s.
Proof.
  intros Hp Hsb Hu Hne. pose proof (placed_len _ _ _ Hp) as Hle.
  destruct Hp as (pre & post & -> & <-). apply l_string_at; [exact Hu|exact Hne|lia].
Qed.

Lemma read_string_placed sb off s :
  placed sb off s -> lenN sb < U32 -> utf8_valid s = true -> read_string sb off = Some s.
Proof.
  intros Hp Hsb Hu. pose proof (placed_len _ _ _ Hp) as Hle.
  destruct Hp as (pre & post & -> & <-). apply read_string_at; [exact Hu|].
  assert (U32 < 2 ^ 64) by (vm_compute; reflexivity). lia.
Qed.

(* the two string readers agree at an offset *)
Definition agree (sb : list N) (off : N) : Prop := l_string sb off = read_string sb off.

Lemma agree_placed sb off s :
  placed sb off s -> lenN sb < U32 -> utf8_valid s = true -> s <> [] -> agree sb off.
Proof.
  intros Hp Hsb Hu Hne. unfold agree.
  rewrite (l_string_placed _ _ _ Hp Hsb Hu Hne), (read_string_placed _ _ _ Hp Hsb Hu). reflexivity.
Qed.

Lemma l_leb_nil f sh : l_leb f sh [] = None.
Proof. destruct f; reflexivity. Qed.

Lemma l_string_at_end sb off : lenN sb <= off -> l_string sb off = None.
Proof.
  intros H. unfold l_string. destruct (lenN sb <? off) eqn:E; [reflexivity|].
  apply N.ltb_ge in E. assert (off = lenN sb) by lia. subst off.
  rewrite CacheBytesProofs.to_nat_lenN, skipn_all, l_leb_nil. reflexivity.
Qed.

Lemma sentinel_MAX32 : sentinel = MAX32.
Proof. reflexivity. Qed.

Lemma agree_sentinel sb : lenN sb < U32 -> agree sb MAX32.
Proof.
  intros H. unfold agree. rewrite (read_string_sentinel sb H).
  apply l_string_at_end. unfold U32 in H. unfold MAX32. lia.
Qed.

(* the general agreement is FALSE: the decoder accepts only length prefixes of at most 5 bytes,
   the reader (leb128::read) up to 10, also non-canonical ones *)
Example agree_not_general :
  read_string [129; 128; 128; 128; 128; 0; 97] 0 = Some [97] /\
  l_string [129; 128; 128; 128; 128; 0; 97] 0 = None.
Proof. vm_compute. split; reflexivity. Qed.

Lemma name_of_agree sb off : agree sb off -> name_of sb off = rd_name sb off.
Proof. unfold agree, name_of, rd_name. intros ->. reflexivity. Qed.

Lemma is_some_agree sb off : agree sb off -> off_ok sb off -> is_some (l_string sb off) = true.
Proof. unfold agree. intros -> [s0 ->]. reflexivity. Qed.

Lemma or_absent_agree sb off : agree sb off -> off_opt sb off -> l_string_or_absent sb off = true.
Proof.
  intros Ha [->|Hok]; unfold l_string_or_absent.
  - rewrite sentinel_MAX32, N.eqb_refl. reflexivity.
  - rewrite (is_some_agree _ _ Ha Hok). apply orb_true_r.
Qed.

(* the by-params key of the decoder against the reader's *)
Lemma params_key_agree sb off : lenN sb < U32 -> agree sb off ->
  (if off =? sentinel then [] else name_of sb off) = rd_name sb off.
Proof.
  intros Hsb Ha. rewrite sentinel_MAX32. destruct (N.eqb_spec off MAX32) as [->|_].
  - unfold rd_name. rewrite (read_string_sentinel sb Hsb). reflexivity.
  - apply name_of_agree. exact Ha.
Qed.

(* ------------------------------------------------------------------ *)
(** * 3. Decoding the bytes of a well-formed structure                  *)
(* ------------------------------------------------------------------ *)

Lemma magic_word_eq : magic_word = cache_magic.
Proof. vm_compute. reflexivity. Qed.

(* the checks [layout_ok] performs once the four sections are decoded *)
Definition checks (classes members byparams : list (list N)) (strings : list N) (nm np sb : N) : bool :=
  (lenN strings =? sb) &&
  forallb (fun c => is_some (l_string strings (wd c 0)) && is_some (l_string strings (wd c 1))
                    && l_string_or_absent strings (wd c 2)) classes &&
  strictly_increasing lex_cmp (map (fun c => name_of strings (wd c 0)) classes) &&
  (match Layout.tiles 3 4 0 classes with Some e => e =? nm | None => false end) &&
  (match Layout.tiles 5 6 0 classes with Some e => e =? np | None => false end) &&
  forallb (member_ok strings) members && forallb (member_ok strings) byparams &&
  forallb (fun c =>
    non_decreasing lex_cmp (map (fun m => name_of strings (wd m 0)) (range members (wd c 3) (wd c 4))) &&
    non_decreasing pair_cmp
      (map (fun m => (name_of strings (wd m 0),
                      if wd m 8 =? sentinel then [] else name_of strings (wd m 8)))
           (range byparams (wd c 5) (wd c 6)))) classes.

Theorem layout_ok_layout cls ms ps strs sb :
  recs_ok 7 cls = true -> recs_ok 9 ms = true -> recs_ok 9 ps = true ->
  lenN cls < U32 -> lenN ms < U32 -> lenN ps < U32 -> sb < U32 ->
  layout_ok (ser_words [cache_magic; cache_version; lenN cls; lenN ms; lenN ps; sb]
             ++ layout_body cls ms ps strs)
  = checks cls ms ps strs (lenN ms) (lenN ps) sb.
Proof.
  intros Hc Hm Hp Lc Lm Lp Lsb. unfold layout_ok.
  set (hdr := [cache_magic; cache_version; lenN cls; lenN ms; lenN ps; sb]).
  assert (Hh : forallb word_ok hdr = true).
  { unfold hdr, word_ok. cbn [forallb]. rewrite !andb_true_iff.
    pose proof cache_magic_lt. pose proof cache_version_lt.
    repeat split; apply N.ltb_lt; assumption. }
  change 6%nat with (length hdr). rewrite (l_words_ser_words hdr _ Hh).
  unfold hdr. cbv zeta. cbn [wd nth].
  rewrite magic_word_eq, N.eqb_refl. unfold cache_version. rewrite N.eqb_refl. cbn [andb].
  unfold layout_body. cbv zeta.
  rewrite l_pad_pad8, pad_len_24, N.add_0_r.
  rewrite (l_records_ser_recs' 7 cls _ Hc).
  rewrite l_pad_pad8.
  rewrite (l_records_ser_recs' 9 ms _ Hm).
  fold (end_classes (lenN cls)). fold (pos_members (lenN cls)). fold (end_members (lenN cls) (lenN ms)).
  rewrite l_pad_pad8.
  rewrite (l_records_ser_recs' 9 ps _ Hp).
  fold (pos_byparams (lenN cls) (lenN ms)). fold (end_byparams (lenN cls) (lenN ms) (lenN ps)).
  rewrite l_pad_pad8.
  reflexivity.
Qed.

Definition struct_checks (s : cache_struct) : bool :=
  checks (map class_words (cs_classes s)) (map member_words (cs_members s))
         (map member_words (cs_byparams s)) (cs_strings s)
         (lenN (cs_members s)) (lenN (cs_byparams s)) (lenN (cs_strings s)).

(* (a) on the bytes of ANY well-formed structure the decoder computes exactly [struct_checks] *)
Theorem layout_ok_ser s : struct_wf s = true -> layout_ok (ser s) = struct_checks s.
Proof.
  intros H. rewrite ser_eq, (header_words_wf s H).
  destruct (struct_wf_inv s H) as (Hc & Hm & Hp & _ & Lc & Ls & _ & Lm & _ & Lp).
  unfold body, struct_checks.
  rewrite <- (CacheBytesProofs.lenN_map class_words (cs_classes s)),
          <- (CacheBytesProofs.lenN_map member_words (cs_members s)),
          <- (CacheBytesProofs.lenN_map member_words (cs_byparams s)).
  apply layout_ok_layout; try assumption; rewrite CacheBytesProofs.lenN_map; assumption.
Qed.
Print Assumptions layout_ok_ser.

(* ------------------------------------------------------------------ *)
(** * 4. Order, tiling and range lemmas (Prop invariants -> boolean checks) *)
(* ------------------------------------------------------------------ *)

Lemma strictly_increasing_sorted cmp (l : list (list N)) :
  StronglySorted (fun a b => cmp a b = Lt) l -> strictly_increasing cmp l = true.
Proof.
  intros H. induction H as [|a l Hs IH Hall]; [reflexivity|].
  cbn [strictly_increasing]. destruct l as [|b rest]; [reflexivity|].
  inversion Hall as [|b0 r0 Hab _]; subst. rewrite Hab, IH. reflexivity.
Qed.

Lemma non_decreasing_sorted {K} (cmp : K -> K -> comparison) (l : list K) :
  StronglySorted (fun a b => cmp a b <> Gt) l -> non_decreasing cmp l = true.
Proof.
  intros H. induction H as [|a l Hs IH Hall]; [reflexivity|].
  cbn [non_decreasing]. destruct l as [|b rest]; [reflexivity|].
  inversion Hall as [|b0 r0 Hab _]; subst. rewrite IH.
  destruct (cmp a b); [reflexivity|reflexivity|congruence].
Qed.

Lemma StronglySorted_app {A} (R : A -> A -> Prop) (a b : list A) :
  StronglySorted R a -> StronglySorted R b -> (forall x y, In x a -> In y b -> R x y) ->
  StronglySorted R (a ++ b).
Proof.
  intros Ha Hb Hx. induction Ha as [|x a Hs IH Hall]; [exact Hb|].
  cbn [app]. constructor.
  - apply IH. intros x0 y H0 Hy. apply Hx; [right; exact H0|exact Hy].
  - apply Forall_app. split; [exact Hall|].
    apply Forall_forall. intros y Hy. apply Hx; [left; reflexivity|exact Hy].
Qed.

Lemma const_keys_sorted {K V} (cmp : K -> K -> comparison) (key : V -> K) (k : K) (vs : list V) :
  (forall a, cmp a a = Eq) -> Forall (fun m => key m = k) vs ->
  StronglySorted (fun a b => cmp a b <> Gt) (map key vs).
Proof.
  intros Hrefl H. induction H as [|m vs Hm Hall IH]; [constructor|].
  cbn [map]. constructor; [exact IH|].
  apply Forall_forall. intros y Hy. apply in_map_iff in Hy. destruct Hy as (m' & <- & Hin).
  rewrite Hm, (proj1 (Forall_forall _ _) Hall m' Hin), Hrefl. discriminate.
Qed.

(* the keys of a grouped section (groups strictly sorted by key, every element of a group
   carrying the group's key) are non-decreasing *)
Lemma grouped_keys_sorted {K V} (cmp : K -> K -> comparison) (key : V -> K) (G : list (K * list V)) :
  (forall a, cmp a a = Eq) ->
  StronglySorted (fun a b => cmp (fst a) (fst b) = Lt) G ->
  Forall (fun g => Forall (fun m => key m = fst g) (snd g)) G ->
  StronglySorted (fun a b => cmp a b <> Gt) (map key (concat (map snd G))).
Proof.
  intros Hrefl HS HG. induction HS as [|g G HS IH Hlt]; [constructor|].
  inversion HG as [|g0 G0 Hg HG']; subst.
  cbn [map concat]. rewrite map_app. apply StronglySorted_app.
  - apply (const_keys_sorted cmp key (fst g)); assumption.
  - apply IH. exact HG'.
  - intros x y Hx Hy.
    apply in_map_iff in Hx. destruct Hx as (m & <- & Hm).
    apply in_map_iff in Hy. destruct Hy as (m' & <- & Hm').
    apply in_concat in Hm'. destruct Hm' as (vs & Hvs & Hm').
    apply in_map_iff in Hvs. destruct Hvs as (g' & <- & Hg').
    rewrite (proj1 (Forall_forall _ _) Hg m Hm).
    rewrite (proj1 (Forall_forall _ _) (proj1 (Forall_forall _ _) HG' g' Hg') m' Hm').
    rewrite (proj1 (Forall_forall _ _) Hlt g' Hg'). discriminate.
Qed.

Lemma grouped_non_decreasing {K V} (cmp : K -> K -> comparison) (key : V -> K) (G : list (K * list V)) :
  (forall a, cmp a a = Eq) ->
  StronglySorted (fun a b => cmp (fst a) (fst b) = Lt) G ->
  Forall (fun g => Forall (fun m => key m = fst g) (snd g)) G ->
  non_decreasing cmp (map key (concat (map snd G))) = true.
Proof. intros H1 H2 H3. apply non_decreasing_sorted, grouped_keys_sorted; assumption. Qed.

Lemma tiles_members_dec cl : forall a total,
  CacheLayout.tiles (map (fun c => (c_moff c, c_mlen c)) cl) a total ->
  Layout.tiles 3 4 a (map class_words cl) = Some total.
Proof.
  induction cl as [|c cl IH]; intros a total H; cbn [map CacheLayout.tiles Layout.tiles] in *.
  - rewrite H. reflexivity.
  - destruct H as [H1 H2]. unfold wd, class_words. cbn [nth]. rewrite H1, N.eqb_refl. apply IH. exact H2.
Qed.

Lemma tiles_params_dec cl : forall a total,
  CacheLayout.tiles (map (fun c => (c_poff c, c_plen c)) cl) a total ->
  Layout.tiles 5 6 a (map class_words cl) = Some total.
Proof.
  induction cl as [|c cl IH]; intros a total H; cbn [map CacheLayout.tiles Layout.tiles] in *.
  - rewrite H. reflexivity.
  - destruct H as [H1 H2]. unfold wd, class_words. cbn [nth]. rewrite H1, N.eqb_refl. apply IH. exact H2.
Qed.

Lemma range_map {A B} (f : A -> B) l a n : range (map f l) a n = map f (range l a n).
Proof. unfold range. rewrite skipn_map, firstn_map. reflexivity. Qed.

Lemma slice_range {A} (l : list A) a n x : slice l a n = Some x -> range l a n = x.
Proof. unfold slice, range. destruct (lenN l <? a + n); [discriminate|]. intros H. injection H as <-. reflexivity. Qed.

Lemma range_incl {A} (l : list A) a n x : In x (range l a n) -> In x l.
Proof.
  unfold range. intros H.
  rewrite <- (firstn_skipn (N.to_nat a) l). apply in_or_app. right.
  rewrite <- (firstn_skipn (N.to_nat n) (skipn (N.to_nat a) l)). apply in_or_app. left. exact H.
Qed.

Lemma slice_incl {A} (l : list A) a n x y : slice l a n = Some x -> In y x -> In y l.
Proof. intros H Hy. apply slice_range in H. subst x. eapply range_incl. exact Hy. Qed.

(* ------------------------------------------------------------------ *)
(** * 5. [struct_checks] from structural hypotheses on an arbitrary structure *)
(* ------------------------------------------------------------------ *)

Definition class_agree (sb : list N) (c : classrec) : Prop :=
  agree sb (c_obf c) /\ agree sb (c_orig c) /\ agree sb (c_file c).
Definition member_agree (sb : list N) (m : member) : Prop :=
  agree sb (m_obf m) /\ agree sb (m_oname m) /\ agree sb (m_ocls m) /\ agree sb (m_ofile m) /\
  agree sb (m_params m).

(* the grouping of the two ranges of a class (the conclusion of CacheLayout.layout_groups,
   without the writer-specific parts) *)
Definition class_grouped (s : cache_struct) (cr : classrec) : Prop :=
  exists (G : list (list N * list member)) (P : list ((list N * list N) * list member)),
    slice (cs_members s) (c_moff cr) (c_mlen cr) = Some (concat (map snd G)) /\
    slice (cs_byparams s) (c_poff cr) (c_plen cr) = Some (concat (map snd P)) /\
    StronglySorted (fun a b => lex_cmp (fst a) (fst b) = Lt) G /\
    StronglySorted (fun a b => pair_cmp (fst a) (fst b) = Lt) P /\
    Forall (fun g => Forall (fun m => read_string (cs_strings s) (m_obf m) = Some (fst g)) (snd g)) G /\
    Forall (fun g => Forall (fun m => read_string (cs_strings s) (m_obf m) = Some (fst (fst g)) /\
                                      rd_name (cs_strings s) (m_params m) = snd (fst g)) (snd g)) P.

Lemma member_ok_of sb m : member_agree sb m -> member_strings_ok sb m -> member_ok sb (member_words m) = true.
Proof.
  intros (A1 & A2 & A3 & A4 & A5) (S1 & S2 & S3 & S4 & S5).
  unfold member_ok, wd, member_words. cbn [nth].
  rewrite (is_some_agree _ _ A1 S1), (is_some_agree _ _ A2 S2),
          (or_absent_agree _ _ A3 S3), (or_absent_agree _ _ A4 S4), (or_absent_agree _ _ A5 S5).
  reflexivity.
Qed.

Theorem struct_checks_ok s :
  let sb := cs_strings s in
  lenN sb < U32 ->
  Forall (class_agree sb) (cs_classes s) ->
  Forall (member_agree sb) (cs_members s) -> Forall (member_agree sb) (cs_byparams s) ->
  Forall (class_strings_ok sb) (cs_classes s) ->
  Forall (member_strings_ok sb) (cs_members s) -> Forall (member_strings_ok sb) (cs_byparams s) ->
  StronglySorted (fun a b => lex_cmp a b = Lt) (map (fun c => rd_name sb (c_obf c)) (cs_classes s)) ->
  CacheLayout.tiles (map (fun c => (c_moff c, c_mlen c)) (cs_classes s)) 0 (lenN (cs_members s)) ->
  CacheLayout.tiles (map (fun c => (c_poff c, c_plen c)) (cs_classes s)) 0 (lenN (cs_byparams s)) ->
  (forall cr, In cr (cs_classes s) -> class_grouped s cr) ->
  struct_checks s = true.
Proof.
  intros sb Hsb Ac Am Ap Sc Sm Sp Hsorted Tm Tp Hgr.
  rewrite Forall_forall in Ac, Am, Ap, Sc, Sm, Sp.
  unfold struct_checks, checks. fold sb.
  repeat (apply andb_true_iff; split).
  - apply N.eqb_refl.
  - apply forallb_forall. intros c Hc. apply in_map_iff in Hc. destruct Hc as (cr & <- & Hcr).
    destruct (Ac cr Hcr) as (A1 & A2 & A3). destruct (Sc cr Hcr) as (S1 & S2 & S3).
    unfold wd, class_words. cbn [nth].
    rewrite (is_some_agree _ _ A1 S1), (is_some_agree _ _ A2 S2), (or_absent_agree _ _ A3 S3). reflexivity.
  - rewrite map_map. apply strictly_increasing_sorted.
    rewrite (map_ext_in _ (fun c => rd_name sb (c_obf c))); [exact Hsorted|].
    intros cr Hcr. unfold wd, class_words. cbn [nth]. apply name_of_agree. apply (Ac cr Hcr).
  - rewrite (tiles_members_dec _ _ _ Tm). apply N.eqb_refl.
  - rewrite (tiles_params_dec _ _ _ Tp). apply N.eqb_refl.
  - apply forallb_forall. intros c Hc. apply in_map_iff in Hc. destruct Hc as (m & <- & Hm).
    apply member_ok_of; [apply (Am m Hm)|apply (Sm m Hm)].
  - apply forallb_forall. intros c Hc. apply in_map_iff in Hc. destruct Hc as (m & <- & Hm).
    apply member_ok_of; [apply (Ap m Hm)|apply (Sp m Hm)].
  - apply forallb_forall. intros c Hc. apply in_map_iff in Hc. destruct Hc as (cr & <- & Hcr).
    destruct (Hgr cr Hcr) as (G & P & Hsm & Hsp & HG & HP & HGk & HPk). fold sb in Hsm, Hsp, HGk, HPk.
    replace (wd (class_words cr) 3) with (c_moff cr) by reflexivity.
    replace (wd (class_words cr) 4) with (c_mlen cr) by reflexivity.
    replace (wd (class_words cr) 5) with (c_poff cr) by reflexivity.
    replace (wd (class_words cr) 6) with (c_plen cr) by reflexivity.
    rewrite !range_map, !map_map.
    pose proof (slice_range _ _ _ _ Hsm) as Rm. pose proof (slice_range _ _ _ _ Hsp) as Rp.
    apply andb_true_iff. split.
    + rewrite Rm. apply grouped_non_decreasing; [apply lex_cmp_refl|exact HG|].
      apply Forall_forall. intros g Hg. apply Forall_forall. intros m Hm.
      assert (Hin : In m (cs_members s)).
      { apply (slice_incl _ _ _ _ m Hsm). apply in_concat. exists (snd g). split; [apply in_map; exact Hg|exact Hm]. }
      destruct (Am m Hin) as (A1 & _).
      replace (wd (member_words m) 0) with (m_obf m) by reflexivity.
      rewrite (name_of_agree _ _ A1). unfold rd_name.
      rewrite (proj1 (Forall_forall _ _) (proj1 (Forall_forall _ _) HGk g Hg) m Hm). reflexivity.
    + rewrite Rp. apply grouped_non_decreasing; [apply pair_cmp_refl|exact HP|].
      apply Forall_forall. intros g Hg. apply Forall_forall. intros m Hm.
      assert (Hin : In m (cs_byparams s)).
      { apply (slice_incl _ _ _ _ m Hsp). apply in_concat. exists (snd g). split; [apply in_map; exact Hg|exact Hm]. }
      destruct (Ap m Hin) as (A1 & _ & _ & _ & A5).
      replace (wd (member_words m) 0) with (m_obf m) by reflexivity.
      replace (wd (member_words m) 8) with (m_params m) by reflexivity.
      rewrite (name_of_agree _ _ A1), (params_key_agree _ _ Hsb A5).
      destruct (proj1 (Forall_forall _ _) (proj1 (Forall_forall _ _) HPk g Hg) m Hm) as [K1 K2].
      unfold rd_name at 1. rewrite K1, K2. destruct g as [[k1 k2] vs]. reflexivity.
Qed.
Print Assumptions struct_checks_ok.

(* ------------------------------------------------------------------ *)
(** * 6. The writer                                                     *)
(* ------------------------------------------------------------------ *)

(* strings of the final table: placed at their stored offset *)
Section TableL.
Variable T : stab.
Hypothesis Tinv : stab_inv T.
Hypothesis Tsz : lenN (stab_bytes T) < U32.
Let sb := stab_bytes T.

Lemma placed_soff s : inserted T s -> s <> [] -> utf8_valid s = true -> placed sb (soff T s) s.
Proof.
  intros [->|[off Hi]] Hne Hu; [congruence|].
  destruct (indexed_facts T Tinv Tsz s off Hi Hu) as (E & _ & _). rewrite E.
  destruct Tinv as [_ [Hidx _]]. destruct (Hidx _ _ Hi) as [_ Hp]. exact Hp.
Qed.

(* the decoder's counterpart of CacheProofs.rd_ok *)
Lemma l_rd_ok s : inserted T s -> str_ok s = true -> l_string sb (soff T s) = Some s.
Proof.
  intros Hi Hok. pose proof (str_ok_nonempty s Hok) as Hne. pose proof (str_ok_utf8 s Hok) as Hu.
  apply l_string_placed; [apply placed_soff; assumption|exact Tsz|exact Hu|exact Hne].
Qed.

Lemma agree_soff s : inserted T s -> utf8_valid s = true -> agree sb (soff T s).
Proof.
  intros Hi Hu. destruct s as [|c s].
  - unfold soff. cbn [is_empty]. apply agree_sentinel. exact Tsz.
  - apply (agree_placed sb _ (c :: s)); [apply placed_soff; [exact Hi|discriminate|exact Hu]|exact Tsz|exact Hu|discriminate].
Qed.

Lemma agree_ooff o : oinserted T o -> ostr_ok o = true -> agree sb (ooff T o).
Proof.
  destruct o as [s|]; cbn [oinserted ostr_ok ooff]; intros Hi Hok.
  - apply agree_soff; [exact Hi|apply str_ok_utf8; exact Hok].
  - apply agree_sentinel. exact Tsz.
Qed.

Lemma member_of_agree e : entry_good T e -> member_agree sb (member_of T e).
Proof.
  intros [Hd (I1 & I2 & I3 & I4 & I5)]. unfold entry_dom in Hd.
  do 8 (apply andb_true_iff in Hd; let H := fresh "D" in destruct Hd as [Hd H]).
  unfold member_agree, member_of. cbn [m_obf m_ocls m_ofile m_oname m_params].
  split; [|split; [|split; [|split]]].
  - apply agree_soff; [exact I1|apply str_ok_utf8; exact Hd].
  - apply agree_soff; [exact I2|apply str_ok_utf8; exact D6].
  - apply agree_ooff; assumption.
  - apply agree_ooff; assumption.
  - apply agree_soff; assumption.
Qed.
End TableL.

Section WriterL.
Variable rs : list record.
Hypothesis Hdom : dom32 rs = true.
Hypothesis Hsz : sizes_ok rs = true.
Let st := wrun wstate_init rs.
Let T := w_tab st.
Let L := flush st.
Let s := write_struct rs.
Let sb := stab_bytes T.

Local Lemma HT' : stab_inv T.
Proof. apply Tinv. Qed.
Local Lemma HS' : lenN (stab_bytes T) < U32.
Proof. apply (Tsz rs Hsz). Qed.

Lemma layout_agree :
  Forall (class_agree (cs_strings s)) (cs_classes s) /\
  Forall (member_agree (cs_strings s)) (cs_members s) /\
  Forall (member_agree (cs_strings s)) (cs_byparams s).
Proof.
  destruct (write_struct_eq rs) as (E1 & E2 & E3 & E4 & _). cbv zeta in *. unfold s. rewrite E1, E2, E3, E4.
  split; [|split].
  - apply Forall_forall. intros cr Hcr. apply fl_cs_In in Hcr. destruct Hcr as (kc & a & b0 & Hkc & ->).
    destruct (kc_facts rs Hdom Hsz kc Hkc) as (b & Hb & Hr & _).
    destruct Hr as (_ & Ho & Hor & _ & _ & _ & _ & Hf).
    destruct (block_facts rs Hdom b Hb) as (Hoo & Hobo & Hoi & Hobi & _).
    destruct (file_facts rs Hdom b Hb) as (Hfo & Hfi).
    unfold class_agree. cbn [set_offs c_obf c_orig c_file]. rewrite Ho, Hor, Hf. split; [|split].
    + apply (agree_soff T HT' HS'); [exact Hobi|apply str_ok_utf8; exact Hobo].
    + apply (agree_soff T HT' HS'); [exact Hoi|apply str_ok_utf8; exact Hoo].
    + apply (agree_ooff T HT' HS'); assumption.
  - apply Forall_forall. intros m Hm. destruct (member_in_ms rs Hdom Hsz m Hm) as (b & e & Hb & He & ->).
    apply (member_of_agree T HT' HS'). eapply entry_in_good; eassumption.
  - apply Forall_forall. intros m Hm. destruct (member_in_ps rs Hdom Hsz m Hm) as (b & e & Hb & He & ->).
    apply (member_of_agree T HT' HS'). eapply entry_in_good; eassumption.
Qed.

Lemma writer_grouped cr : In cr (cs_classes s) -> class_grouped s cr.
Proof.
  intros Hcr. destruct (layout_groups rs Hdom Hsz cr Hcr) as (b & _ & _ & H). cbv zeta in H.
  destruct H as (Hsm & Hsp & HG & HP & HGk & HPk & _).
  eexists. eexists. split; [exact Hsm|]. split; [exact Hsp|]. split; [exact HG|]. split; [exact HP|]. split.
  - apply Forall_forall. intros g Hg. apply (proj1 (Forall_forall _ _) HGk g Hg).
  - apply Forall_forall. intros g Hg. apply (proj1 (Forall_forall _ _) HPk g Hg).
Qed.

(* (b) the structure the writer emits passes all the decoder's checks *)
Theorem writer_struct_checks : struct_checks s = true.
Proof.
  destruct layout_agree as (Ac & Am & Ap).
  destruct (layout_strings rs Hdom Hsz) as (Sc & Sm & Sp).
  destruct (layout_classes_sorted rs Hdom Hsz) as (_ & Hsorted).
  destruct (layout_tiling rs Hdom Hsz) as (Tm & Tp).
  apply struct_checks_ok; try assumption.
  - unfold s. rewrite (proj1 (proj2 (proj2 (proj2 (write_struct_eq rs))))). exact HS'.
  - exact writer_grouped.
Qed.

Theorem C09_layout_ok_sec : layout_ok (ser s) = true.
Proof.
  rewrite (layout_ok_ser s (cache_struct_wf rs Hdom Hsz)). exact writer_struct_checks.
Qed.
End WriterL.

Theorem C09_layout_ok : forall rs, dom32 rs = true -> sizes_ok rs = true ->
  layout_ok (ser (write_struct rs)) = true.
Proof. exact C09_layout_ok_sec. Qed.
Print Assumptions C09_layout_ok.

Example C09_layout_ok_hyp :
  dom32 Ex.rs_ex = true /\ sizes_ok Ex.rs_ex = true /\ layout_ok (ser (write_struct Ex.rs_ex)) = true /\
  lenN (ser (write_struct Ex.rs_ex)) = 752.
Proof. vm_compute. repeat split; reflexivity. Qed.

(* more in-domain inputs: a 200-byte name (two-byte length prefix), classes without members, a class
   name occurring twice (the last block wins), multi-byte UTF-8 names, the empty record list *)
Module MoreEx.
  Import MapperProofs.Tests.
  Definition n200 : list N := repeat 97 200.
  Definition rs2 : list record :=
    [ RClass A n200; RClass B Y; RClass [67] n200; RMethod V f n200 I None (Some lm1);
      RMethod V f n200 I None (Some lm1); RClass [68] [65]; RClass [69] [65; 65];
      RMethod V n200 X I (Some n200) None; RClass [70] Y ].
  Definition rs3 : list record :=
    [ RClass [195; 169] [226; 130; 172]; RMethod V [240; 159; 152; 128] [195; 169] [] None None;
      RMethod V [240; 159; 152; 128] [195; 169] [76; 59] None None; RMethod V [65] [195; 169] [76; 59] None None ].
  Example more :
    dom32 rs2 = true /\ sizes_ok rs2 = true /\ layout_ok (ser (write_struct rs2)) = true /\
    map class_words (cs_classes (write_struct rs2)) =
      [ [202; 214; 4294967295; 0; 0; 0; 0]; [216; 219; 4294967295; 0; 1; 0; 1];
        [0; 208; 4294967295; 1; 2; 1; 1]; [204; 223; 4294967295; 3; 0; 2; 0] ] /\
    dom32 rs3 = true /\ sizes_ok rs3 = true /\ layout_ok (ser (write_struct rs3)) = true /\
    dom32 [] = true /\ sizes_ok [] = true /\ layout_ok (ser (write_struct [])) = true.
  Proof. vm_compute. repeat split; reflexivity. Qed.
End MoreEx.

(* the checks are not vacuous: swapping the two class entries, un-tiling a range, a non-zero
   padding byte, a dangling string offset, a wrong declared string length are all rejected *)
Module LayoutEx.
  Definition s0 : cache_struct := write_struct Ex.rs_ex.
  Definition with_classes (cl : list classrec) : cache_struct :=
    {| cs_num_members := cs_num_members s0; cs_num_byparams := cs_num_byparams s0; cs_classes := cl;
       cs_members := cs_members s0; cs_byparams := cs_byparams s0; cs_strings := cs_strings s0 |}.
  Definition bump_moff (c : classrec) : classrec :=
    {| c_obf := c_obf c; c_orig := c_orig c; c_file := c_file c; c_moff := c_moff c + 1; c_mlen := c_mlen c;
       c_poff := c_poff c; c_plen := c_plen c |}.
  Definition dangling (c : classrec) : classrec :=
    {| c_obf := c_obf c; c_orig := 100000; c_file := c_file c; c_moff := c_moff c; c_mlen := c_mlen c;
       c_poff := c_poff c; c_plen := c_plen c |}.
  Example rejects :
    struct_checks s0 = true /\
    layout_ok (ser (with_classes (rev (cs_classes s0)))) = false /\
    layout_ok (ser (with_classes (map bump_moff (cs_classes s0)))) = false /\
    layout_ok (ser (with_classes (map dangling (cs_classes s0)))) = false /\
    layout_ok (ser s0 ++ [0]) = false /\
    layout_ok (removelast (ser s0)) = false /\
    (* the class section of this file ends at 24 + 2*28 = 80, a multiple of 8; its member section at
       80 + 11*36 = 476, so bytes 476..479 are padding *)
    nth 476 (ser s0) 9 = 0 /\
    layout_ok (firstn 476 (ser s0) ++ [1] ++ skipn 477 (ser s0)) = false.
  Proof. vm_compute. repeat split; reflexivity. Qed.
End LayoutEx.

(* ------------------------------------------------------------------ *)
(** * 7. The self test (ProguardCache::test, src/cache/raw.rs:374-408)  *)
(* ------------------------------------------------------------------ *)

(* assert!(self.read_string(off).is_ok()) *)
Definition rd_is_ok (c : cache) (off : N) : bool := is_some (read_string (k_strings c) off).
(* if off != u32::MAX { assert!(self.read_string(off).is_ok()) } *)
Definition rd_opt_ok (c : cache) (off : N) : bool := (off =? MAX32) || rd_is_ok c off.

(* the body of the inner loop, in source order: obfuscated name, original name, params,
   original class, original file *)
Definition member_test (c : cache) (m : list N) : bool :=
  rd_is_ok c (w m 0) && rd_is_ok c (w m 5) && rd_opt_ok c (w m 8) && rd_opt_ok c (w m 3) && rd_opt_ok c (w m 4).

(* the outer loop with its running [prev_end : u32].  [prev_end += class.members_len] is a u32
   addition: it panics on overflow under debug assertions and wraps otherwise; the model counts an
   overflow as a failure, so [self_test c = true] means the test passes in both build modes.
   [get_class_members] is [slice] (CacheReader.v); [None] means `continue`. *)
Fixpoint self_test_loop (c : cache) (prev_end : N) (cls : list (list N)) : bool :=
  match cls with
  | [] => true
  | cl :: rest =>
    rd_is_ok c (w cl 0) && rd_is_ok c (w cl 1) && rd_opt_ok c (w cl 2) &&
    (w cl 3 =? prev_end) &&
    (let prev_end' := prev_end + w cl 4 in
     (prev_end' <? U32) &&
     (prev_end' <=? lenN (k_members c)) &&
     (match slice (k_members c) (w cl 3) (w cl 4) with
      | None => true
      | Some ms => forallb (member_test c) ms
      end) &&
     self_test_loop c prev_end' rest)
  end.

Definition self_test (c : cache) : bool := self_test_loop c 0 (k_classes c).

Definition class_test (c : cache) (cl : list N) : bool :=
  rd_is_ok c (w cl 0) && rd_is_ok c (w cl 1) && rd_opt_ok c (w cl 2).

Lemma tiles_le l : forall a total, CacheLayout.tiles l a total -> a <= total.
Proof.
  induction l as [|[o n] l IH]; intros a total H; cbn [CacheLayout.tiles] in H; [lia|].
  destruct H as [_ H]. apply IH in H. lia.
Qed.

Lemma self_test_loop_ok c total : total <= lenN (k_members c) -> total < U32 ->
  forallb (member_test c) (k_members c) = true ->
  forall cls a, CacheLayout.tiles (map (fun cl => (w cl 3, w cl 4)) cls) a total ->
    forallb (class_test c) cls = true -> self_test_loop c a cls = true.
Proof.
  intros Hle Hlt Hmem. induction cls as [|cl cls IH]; intros a Ht Hc; [reflexivity|].
  cbn [map CacheLayout.tiles] in Ht. destruct Ht as [Ho Ht].
  cbn [forallb] in Hc. apply andb_true_iff in Hc. destruct Hc as [Hcl Hc].
  pose proof (tiles_le _ _ _ Ht) as Hend.
  cbn [self_test_loop]. cbv zeta. unfold class_test in Hcl. rewrite Hcl, Ho, N.eqb_refl.
  replace (a + w cl 4 <? U32) with true by (symmetry; apply N.ltb_lt; lia).
  replace (a + w cl 4 <=? lenN (k_members c)) with true by (symmetry; apply N.leb_le; lia).
  rewrite (IH _ Ht Hc). cbn [andb]. rewrite andb_true_r.
  destruct (slice (k_members c) a (w cl 4)) as [ms|] eqn:Es; [|reflexivity].
  apply forallb_forall. intros m Hm. rewrite forallb_forall in Hmem. apply Hmem.
  exact (slice_incl _ _ _ _ m Es Hm).
Qed.

Lemma rd_is_ok_of c off : off_ok (k_strings c) off -> rd_is_ok c off = true.
Proof. intros [s0 H]. unfold rd_is_ok. rewrite H. reflexivity. Qed.
Lemma rd_opt_ok_of c off : off_opt (k_strings c) off -> rd_opt_ok c off = true.
Proof.
  unfold rd_opt_ok. intros [->|H]; [rewrite N.eqb_refl; reflexivity|].
  rewrite (rd_is_ok_of _ _ H). apply orb_true_r.
Qed.

(* for an arbitrary structure: readable strings and tiling member ranges suffice *)
Theorem self_test_struct s :
  lenN (cs_members s) < U32 ->
  Forall (class_strings_ok (cs_strings s)) (cs_classes s) ->
  Forall (member_strings_ok (cs_strings s)) (cs_members s) ->
  CacheLayout.tiles (map (fun c => (c_moff c, c_mlen c)) (cs_classes s)) 0 (lenN (cs_members s)) ->
  self_test (cache_of_struct s) = true.
Proof.
  intros Hlt Sc Sm Tm. rewrite Forall_forall in Sc, Sm.
  unfold self_test. set (c := cache_of_struct s).
  assert (Km : k_members c = map member_words (cs_members s)) by reflexivity.
  assert (Kc : k_classes c = map class_words (cs_classes s)) by reflexivity.
  assert (Ks : cs_strings s = k_strings c) by reflexivity.
  rewrite Ks in Sc, Sm. clearbody c.
  apply (self_test_loop_ok c (lenN (cs_members s))).
  - rewrite Km, CacheBytesProofs.lenN_map. lia.
  - exact Hlt.
  - rewrite Km. apply forallb_forall. intros mw Hmw.
    apply in_map_iff in Hmw. destruct Hmw as (m & <- & Hm).
    destruct (Sm m Hm) as (S1 & S2 & S3 & S4 & S5).
    unfold member_test, w, member_words. cbn [nth].
    rewrite (rd_is_ok_of _ _ S1), (rd_is_ok_of _ _ S2), (rd_opt_ok_of _ _ S3), (rd_opt_ok_of _ _ S4),
            (rd_opt_ok_of _ _ S5). reflexivity.
  - rewrite Kc, map_map.
    rewrite (map_ext _ (fun c0 => (c_moff c0, c_mlen c0))); [exact Tm|]. intros c0. reflexivity.
  - rewrite Kc. apply forallb_forall. intros cw Hcw.
    apply in_map_iff in Hcw. destruct Hcw as (cr & <- & Hcr).
    destruct (Sc cr Hcr) as (S1 & S2 & S3).
    unfold class_test, w, class_words. cbn [nth].
    rewrite (rd_is_ok_of _ _ S1), (rd_is_ok_of _ _ S2), (rd_opt_ok_of _ _ S3). reflexivity.
Qed.
Print Assumptions self_test_struct.

Theorem C09_selftest : forall rs, dom32 rs = true -> sizes_ok rs = true ->
  self_test (cache_of_struct (write_struct rs)) = true.
Proof.
  intros rs Hdom Hsz.
  destruct (layout_strings rs Hdom Hsz) as (Sc & Sm & _).
  destruct (layout_tiling rs Hdom Hsz) as (Tm & _).
  destruct (struct_wf_inv _ (cache_struct_wf rs Hdom Hsz)) as (_ & _ & _ & _ & _ & _ & _ & Lm & _).
  apply self_test_struct; assumption.
Qed.
Print Assumptions C09_selftest.

(* ... and on the parsed bytes, which is what the Rust test runs on *)
Corollary C09_selftest_parsed : forall rs, dom32 rs = true -> sizes_ok rs = true ->
  exists c, parse (write rs) = POk c /\ self_test c = true.
Proof.
  intros rs Hdom Hsz. exists (cache_of_struct (write_struct rs)). split.
  - unfold write. apply parse_ser. apply cache_struct_wf; assumption.
  - apply C09_selftest; assumption.
Qed.
Print Assumptions C09_selftest_parsed.

Example C09_selftest_hyp :
  dom32 Ex.rs_ex = true /\ sizes_ok Ex.rs_ex = true /\ self_test (cache_of_struct (write_struct Ex.rs_ex)) = true /\
  (* the self test rejects un-tiled ranges and dangling offsets (it does not look at the order of
     names, at the by-params ranges, or at the padding) *)
  self_test (cache_of_struct (LayoutEx.with_classes (map LayoutEx.bump_moff (cs_classes LayoutEx.s0)))) = false /\
  self_test (cache_of_struct (LayoutEx.with_classes (map LayoutEx.dangling (cs_classes LayoutEx.s0)))) = false.
Proof. vm_compute. repeat split; reflexivity. Qed.

Check C09_layout_ok.
Check C09_selftest.
Check layout_ok_ser.
Check struct_checks_ok.
