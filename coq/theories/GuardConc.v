From PG.Gen Require Extracted.
(* the translator's scan of the library sources found no Cell/RefCell/Mutex/RwLock/Atomic*/Rc/
   UnsafeCell/thread_local/static mut *)
Lemma guard_no_interior_mutability : Extracted.interior_mutability_found = false.
Proof. reflexivity. Qed.
