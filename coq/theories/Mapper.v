(* Mapper.v — L1: model of src/mapper.rs (ProguardMapper), shaped like the code.
   HashMap = association list where [assoc_get] returns the most recent binding
   (insert = cons, which is "insert or replace" for every lookup; the code never
   iterates a HashMap). *)
From PG Require Import Base Mapping Spec.

Record member_mapping := {
  mm_start : N; mm_end : N; mm_ocls : option str; mm_ofile : option str;
  mm_orig : str; mm_os : N; mm_oe : option N }.

Record class_members := {
  cm_all : list member_mapping;                       (* Vec, push = append *)
  cm_byparams : list (str * list member_mapping) }.   (* HashMap<&str, Vec<_>> *)

Record class_mapping := {
  cl_orig : str; cl_obf : str; cl_file : option str;
  cl_members : list (str * class_members) }.           (* HashMap<&str, ClassMembers> *)

Notation mapper := (list (str * class_mapping)) (only parsing).   (* HashMap<&str, ClassMapping> *)

Record bstate := {
  bs_classes : list (str * class_mapping);
  bs_class : class_mapping;
  bs_unique : list (str * str * str) }.                (* HashSet<(&str,&str,&str)> *)

Definition class_empty := {| cl_orig := []; cl_obf := []; cl_file := None; cl_members := [] |}.
Definition bstate_init := {| bs_classes := []; bs_class := class_empty; bs_unique := [] |}.

Definition key3_eqb (a b : str * str * str) : bool :=
  let '(a1, a2, a3) := a in let '(b1, b2, b3) := b in
  str_eqb a1 b1 && str_eqb a2 b2 && str_eqb a3 b3.

Definition flush_class (st : bstate) : list (str * class_mapping) :=
  if is_empty (cl_orig (bs_class st)) then bs_classes st
  else (cl_obf (bs_class st), bs_class st) :: bs_classes st.

Definition set_file (c : class_mapping) (f : option str) : class_mapping :=
  {| cl_orig := cl_orig c; cl_obf := cl_obf c; cl_file := f; cl_members := cl_members c |}.
Definition set_members (c : class_mapping) (m : list (str * class_members)) : class_mapping :=
  {| cl_orig := cl_orig c; cl_obf := cl_obf c; cl_file := cl_file c; cl_members := m |}.

Definition cm_empty := {| cm_all := []; cm_byparams := [] |}.

Section Build.
Variable with_params : bool.   (* initialize_param_mapping *)

Definition build_step (st : bstate) (r : record) (next : option record) : bstate :=
  match r with
  | RHeader k v =>
      if str_eqb k source_file
      then {| bs_classes := bs_classes st; bs_class := set_file (bs_class st) v; bs_unique := bs_unique st |}
      else st
  | RClass orig obf =>
      {| bs_classes := flush_class st;
         bs_class := {| cl_orig := orig; cl_obf := obf; cl_file := None; cl_members := [] |};
         bs_unique := [] |}
  | RField _ _ _ => st
  | RMethod _ orig obf args ocls lm =>
      let '(s, e, os, oe) := entry_lines lm in
      let cls := bs_class st in
      let members := match assoc_get obf (cl_members cls) with Some m => m | None => cm_empty end in
      let mm := {| mm_start := s; mm_end := e; mm_ocls := ocls; mm_ofile := cl_file cls;
                   mm_orig := orig; mm_os := os; mm_oe := oe |} in
      let all' := cm_all members ++ [mm] in
      let skip := negb with_params
                  || next_same_range lm (match next with Some n => [n] | None => [] end)
                  || existsb (key3_eqb (obf, args, orig)) (bs_unique st) in
      if skip then
        (* the unique set is only touched when the entry is not an inlined callee *)
        {| bs_classes := bs_classes st;
           bs_class := set_members cls ((obf, {| cm_all := all'; cm_byparams := cm_byparams members |}) :: cl_members cls);
           bs_unique := bs_unique st |}
      else
        let bp := match assoc_get args (cm_byparams members) with Some l => l | None => [] end in
        {| bs_classes := bs_classes st;
           bs_class := set_members cls ((obf, {| cm_all := all';
                                                 cm_byparams := (args, bp ++ [mm]) :: cm_byparams members |})
                                        :: cl_members cls);
           bs_unique := (obf, args, orig) :: bs_unique st |}
  end.

Fixpoint build_run (st : bstate) (rs : list record) : bstate :=
  match rs with
  | [] => st
  | r :: rest => build_run (build_step st r (hd_error rest)) rest
  end.

Definition build (rs : list record) : list (str * class_mapping) :=
  flush_class (build_run bstate_init rs).
End Build.

(* ---- queries ---- *)
Definition m_remap_class (m : list (str * class_mapping)) (c : str) : option str :=
  option_map cl_orig (assoc_get c m).

Definition m_remap_method (m : list (str * class_mapping)) (c meth : str) : option (str * str) :=
  match assoc_get c m with
  | None => None
  | Some cls =>
    match assoc_get meth (cl_members cls) with
    | None => None
    | Some ms =>
      match cm_all ms with
      | [] => None
      | first :: rest =>
          if forallb (fun mm => str_eqb (mm_orig mm) (mm_orig first)) rest
          then Some (cl_orig cls, mm_orig first) else None
      end
    end
  end.

(* iterate_with_lines, collected.  [fclass] is frame.class after it was replaced by the
   class's original name.  The subtraction is usize arithmetic: Panic on underflow. *)
Fixpoint m_with_lines (fclass : str) (ffile : option str) (line : N) (ms : list member_mapping)
  : outcome (list frame) :=
  match ms with
  | [] => Ok []
  | mm :: rest =>
    if (0 <? mm_end mm) && ((line <? mm_start mm) || (mm_end mm <? line)) then m_with_lines fclass ffile line rest
    else
      let lineo : outcome N :=
        match mm_oe mm with
        | None => Ok (mm_os mm)
        | Some oe => if oe =? mm_os mm then Ok (mm_os mm)
                     else if line <? mm_start mm then Panic
                     else Ok (N.min MAX64 (mm_os mm + (line - mm_start mm)))   (* saturating_add *)
        end in
      match lineo with
      | Panic => Panic
      | Ok ln =>
        let cls := match mm_ocls mm with Some k => k | None => fclass end in
        let fl := match mm_ofile mm with
                  | Some f => if str_eqb f synthetic then Some (outer_simple_name cls) else Some f
                  | None => match mm_ocls mm with Some _ => None | None => ffile end
                  end in
        match m_with_lines fclass ffile line rest with
        | Panic => Panic
        | Ok fs => Ok ((cls, mm_orig mm, fl, ln) :: fs)
        end
      end
  end.

Definition m_without_lines (fclass : str) (ms : list member_mapping) : list (str * str) :=
  map (fun mm => (match mm_ocls mm with Some k => k | None => fclass end, mm_orig mm)) ms.

Definition m_remap_frame_lines (m : list (str * class_mapping)) (c meth : str) (line : N) (file : option str)
  : outcome (list frame) :=
  match assoc_get c m with
  | None => Ok []
  | Some cls =>
    match assoc_get meth (cl_members cls) with
    | None => Ok []
    | Some ms => m_with_lines (cl_orig cls) file line (cm_all ms)
    end
  end.

Definition m_remap_frame_params (m : list (str * class_mapping)) (c meth p : str) : list (str * str) :=
  match assoc_get c m with
  | None => []
  | Some cls =>
    match assoc_get meth (cl_members cls) with
    | None => []
    | Some ms =>
      match assoc_get p (cm_byparams ms) with
      | None => []
      | Some l => m_without_lines (cl_orig cls) l
      end
    end
  end.
