(* BridgeC08.v — bridge (2): the syntactic well-formedness predicate of the round-trip theorems
   (C17, StacktraceRoundtrip.wf_trace) plus "no CR in any component" implies the parse-equation
   predicate [canonical] under which the typed and the text remapping agree (C08_print). *)
From Coq Require Import Lia.
From PG Require Import Base Mapping Spec Stacktrace MappingProofs DecimalLemmas StacktraceRoundtrip RemapProofs.

(* ------------------------------------------------------------------ *)
(* no CR in any component                                               *)
(* ------------------------------------------------------------------ *)
Definition nocr_frame (f : frame) : bool :=
  let '(c, m, fl, _) := f in
  lacks 13 c && lacks 13 m && match fl with Some fi => lacks 13 fi | None => true end.

Definition nocr_throwable (t : throwable) : bool :=
  lacks 13 (fst t) && match snd t with Some m => lacks 13 m | None => true end.

Fixpoint nocr_trace (t : trace) : bool :=
  match t with
  | Trace exc fs cause =>
      match exc with Some e => nocr_throwable e | None => true end
      && forallb nocr_frame fs
      && match cause with Some c => nocr_trace c | None => true end
  end.

Definition wf_trace_nocr (t : trace) : bool := wf_trace t && nocr_trace t.

(* ------------------------------------------------------------------ *)
(* nl_free = no LF and no CR                                            *)
(* ------------------------------------------------------------------ *)
Lemma nl_free_lacks l : nl_free l = lacks 10 l && lacks 13 l.
Proof.
  unfold nl_free, lacks. induction l as [|x l IH]; [reflexivity|]. cbn [forallb]. rewrite IH.
  unfold is_nl. destruct (x =? 13), (x =? 10); cbn [orb negb andb]; try reflexivity;
    rewrite ?andb_false_r; reflexivity.
Qed.

(* ------------------------------------------------------------------ *)
(* the parse equations of the lines                                     *)
(* ------------------------------------------------------------------ *)
Lemma frame_ok_wf f : wf_frame_t f = true -> nocr_frame f = true ->
  frame_ok f /\ frame_first_ok f.
Proof.
  intros Hw Hcr. pose proof (frame_line_facts f Hw) as (L10 & _ & _).
  destruct (wf_frame_t_some f Hw) as (c & m & fi & n & -> & Hwf & _ & _ & _ & _ & _ & _ & Hn).
  unfold frame_line in L10. rewrite lacks_app in L10. apply andb_prop in L10 as [_ L10].
  split; [split|].
  - rewrite nl_free_lacks, L10. cbn [andb].
    unfold nocr_frame in Hcr. apply andb_prop in Hcr as [Hcr H3]. apply andb_prop in Hcr as [H1 H2].
    unfold print_frame. rewrite !lacks_app, H1, H2, H3.
    rewrite (digits_lacks 13 (print_dec n) eq_refl (print_dec_digits n Hn)). reflexivity.
  - apply C17_frame_indent. exact Hwf.
  - unfold frame_first_ok. apply parse_throwable_frame_line.
Qed.

Lemma exc_ok_wf e : wf_throwable_t e = true -> nocr_throwable e = true -> exc_ok e /\ cause_ok e.
Proof.
  intros Hw Hcr. destruct (wf_throwable_t_facts e Hw) as (Hwt & L10 & _ & _).
  assert (He : exc_ok e).
  { split.
    - rewrite nl_free_lacks, L10. cbn [andb]. unfold nocr_throwable in Hcr. apply andb_prop in Hcr as [H1 H2].
      destruct e as [c [m|]]; unfold print_throwable; cbn [fst snd] in *; [|exact H1].
      rewrite !lacks_app, H1, H2. reflexivity.
    - apply C17_throwable. exact Hwt. }
  split; [exact He|]. split; [exact He|]. apply parse_frame_C.
Qed.

Lemma frames_ok_wf fs : forallb wf_frame_t fs = true -> forallb nocr_frame fs = true -> Forall frame_ok fs.
Proof.
  induction fs as [|f fs IH]; intros Hw Hcr; [constructor|]. cbn [forallb] in Hw, Hcr.
  apply andb_prop in Hw as [Hf Hw]. apply andb_prop in Hcr as [Hcf Hcr].
  constructor; [exact (proj1 (frame_ok_wf f Hf Hcf))|exact (IH Hw Hcr)].
Qed.

Lemma canonical_cause_wf t : has_exc t = true -> wf_rec t = true -> nocr_trace t = true -> canonical_cause t.
Proof.
  induction t as [e fs|e fs c IH] using RemapProofs.trace_ind'; intros Hx Hw Hcr.
  - cbn [wf_rec nocr_trace] in Hw, Hcr. rewrite !andb_true_r in Hw, Hcr.
    apply andb_prop in Hw as [He Hfs]. apply andb_prop in Hcr as [Hce Hcfs].
    destruct e as [e|]; [|discriminate Hx]. cbn [canonical_cause].
    split; [exact (proj2 (exc_ok_wf e He Hce))|]. split; [exact (frames_ok_wf fs Hfs Hcfs)|exact I].
  - cbn [wf_rec nocr_trace] in Hw, Hcr.
    apply andb_prop in Hw as [Hw Hc]. apply andb_prop in Hw as [He Hfs]. apply andb_prop in Hc as [Hxc Hc].
    apply andb_prop in Hcr as [Hcr Hcc]. apply andb_prop in Hcr as [Hce Hcfs].
    destruct e as [e|]; [|discriminate Hx]. cbn [canonical_cause].
    split; [exact (proj2 (exc_ok_wf e He Hce))|]. split; [exact (frames_ok_wf fs Hfs Hcfs)|].
    exact (IH Hxc Hc Hcc).
Qed.

Theorem wf_trace_nocr_canonical t : wf_trace_nocr t = true -> canonical t.
Proof.
  unfold wf_trace_nocr, wf_trace. intros H. apply andb_prop in H as [H Hcr]. apply andb_prop in H as [Hw Hne].
  destruct t as [e fs c]. cbn [wf_rec nocr_trace] in Hw, Hcr.
  apply andb_prop in Hw as [Hw Hc]. apply andb_prop in Hw as [He Hfs].
  apply andb_prop in Hcr as [Hcr Hcc]. apply andb_prop in Hcr as [Hce Hcfs].
  cbn [canonical]. split; [|split].
  - destruct e as [e|].
    + exact (proj1 (exc_ok_wf e He Hce)).
    + destruct fs as [|f fs]; [discriminate Hne|]. cbn [forallb] in Hfs, Hcfs.
      apply andb_prop in Hfs as [Hf _]. apply andb_prop in Hcfs as [Hcf _].
      exact (proj2 (frame_ok_wf f Hf Hcf)).
  - exact (frames_ok_wf fs Hfs Hcfs).
  - destruct c as [c|]; [|exact I]. apply andb_prop in Hc as [Hxc Hc].
    exact (canonical_cause_wf c Hxc Hc Hcc).
Qed.
Print Assumptions wf_trace_nocr_canonical.

Theorem C08_print_wf t : wf_trace_nocr t = true -> forall rc rf,
  print_trace (remap_typed rc rf t) = remap_text rc rf (print_trace t).
Proof. intros H rc rf. apply C08_print. apply wf_trace_nocr_canonical. exact H. Qed.
Print Assumptions C08_print_wf.

(* a well-formed CR-free trace is also read back by the parser (C17), so on such a trace
   parse, typed remapping, printing and text remapping commute *)
Corollary C08_C17_square t : wf_trace_nocr t = true -> forall rc rf,
  option_map (fun t' => print_trace (remap_typed rc rf t')) (parse_trace (print_trace t))
  = Some (remap_text rc rf (print_trace t)).
Proof.
  intros H rc rf. pose proof H as H'. unfold wf_trace_nocr in H'. apply andb_prop in H' as [Hw _].
  rewrite (C17_trace t Hw). cbn [option_map]. f_equal. apply C08_print_wf. exact H.
Qed.
Print Assumptions C08_C17_square.

(* ------------------------------------------------------------------ *)
(* examples                                                             *)
(* ------------------------------------------------------------------ *)
Module Examples.
  Import RemapProofs.Examples.
  Import Coq.Strings.String.
  (* depth 2, a cause without frames, a message that looks like a frame / a cause line, a frame
     split into two by rf, a class that rc maps *)
  Definition t1 : trace :=
    Trace (Some (b "a.b", Some (b "x: Caused by: at y.z(w:3)")))
          [ (b "a.b", b "m", Some (b "F (gen).java"), 7); (b "", b "run", Some (b ""), 0) ]
          (Some (Trace (Some (b "java.io.IOException", None)) []
            (Some (Trace (Some (b "a.b", Some (b "m"))) [ (b "a b.", b "m)", Some (b "<unknown>"), 7) ] None)))).
  Example t1_wf : wf_trace_nocr t1 = true. Proof. vm_compute. reflexivity. Qed.
  Example t1_agree : print_trace (remap_typed rc rf t1) = remap_text rc rf (print_trace t1)
                     /\ remap_typed rc rf t1 <> t1.
  Proof. split; [apply C08_print_wf; exact t1_wf|vm_compute; discriminate]. Qed.

  (* no top-level exception *)
  Definition t2 : trace :=
    Trace None [ (b "a.b", b "c", Some (b "B.java"), 12) ] (Some (Trace (Some (b "E", Some (b "m"))) [] None)).
  Example t2_wf : wf_trace_nocr t2 = true. Proof. vm_compute. reflexivity. Qed.

  (* a CR inside a message: wf_trace holds (C17 round trip), [canonical] as stated (nl_free) does
     not; the conclusion still holds on this instance because [lines] splits at LF only *)
  Definition t_cr : trace := Trace (Some (b "a.b", Some (b "x" ++ [13] ++ b "y"))) [] None.
  Example t_cr_wf : wf_trace t_cr = true /\ wf_trace_nocr t_cr = false /\ canonicalb t_cr = false.
  Proof. vm_compute. repeat split; reflexivity. Qed.
  Example t_cr_agree : print_trace (remap_typed rc rf t_cr) = remap_text rc rf (print_trace t_cr).
  Proof. vm_compute. reflexivity. Qed.
End Examples.
