(* RemapProofs.v — properties C07 (text stack-trace remapping) and C08 (typed stack-trace
   remapping) of the model in Stacktrace.v, Section Remap.  The two lookups
   [rc : str -> option str] (class lookup) and [rf : str -> str -> N -> option str -> list frame]
   (frame remapping) are arbitrary functions throughout: every theorem holds for the
   mapper-backed and for the cache-backed instance alike. *)
From Coq Require Import Lia Arith.
From Coq Require String Ascii.
From PG Require Import Base Mapping Spec Stacktrace MappingProofs.

(* ================================================================================== *)
(* 0. Facts about [lines] (str::lines)                                                *)
(* ================================================================================== *)

(* no LF and no CR *)
Definition nl_free (l : str) : bool := forallb (fun b => negb (is_nl b)) l.
(* the text obtained by terminating every line with LF *)
Definition join_lines (ls : list str) : str := flat_map (fun l => l ++ [10]) ls.

Lemma nl_free_not_In l : nl_free l = true -> ~ In 10 l /\ ~ In 13 l.
Proof.
  unfold nl_free. rewrite forallb_forall. intros H. split; intros Hin; apply H in Hin; discriminate Hin.
Qed.

Lemma nl_free_app a b : nl_free (a ++ b) = nl_free a && nl_free b.
Proof. unfold nl_free. apply forallb_app. Qed.

Lemma strip_cr_rev_id cur : ~ In 13 cur -> strip_cr_rev cur = cur.
Proof.
  destruct cur as [|c cur']; intros H; cbn [strip_cr_rev]; [reflexivity|].
  destruct (c =? 13) eqn:E; [|reflexivity].
  apply N.eqb_eq in E. subst c. exfalso. apply H. left. reflexivity.
Qed.

Lemma strip_cr_rev_incl cur x : In x (strip_cr_rev cur) -> In x cur.
Proof.
  destruct cur as [|c cur']; cbn [strip_cr_rev]; [tauto|].
  destruct (c =? 13); [right; assumption | tauto].
Qed.

(* the central unfolding of str::lines: an LF-free prefix followed by LF is one line *)
Lemma split_nl_app cur l rest :
  ~ In 10 l ->
  split_nl cur (l ++ 10 :: rest) = rev (strip_cr_rev (rev l ++ cur)) :: split_nl [] rest.
Proof.
  revert cur. induction l as [|x l IH]; intros cur Hl.
  - cbn [app split_nl rev]. rewrite N.eqb_refl. reflexivity.
  - cbn [app split_nl]. destruct (x =? 10) eqn:E.
    + apply N.eqb_eq in E. subst x. exfalso. apply Hl. left. reflexivity.
    + rewrite IH by (intros Hin; apply Hl; right; exact Hin).
      cbn [rev]. rewrite <- app_assoc. reflexivity.
Qed.

Lemma lines_cons l rest : nl_free l = true -> lines (l ++ 10 :: rest) = l :: lines rest.
Proof.
  intros H. apply nl_free_not_In in H. destruct H as [H10 H13].
  unfold lines. rewrite split_nl_app by exact H10. rewrite app_nil_r.
  rewrite strip_cr_rev_id by (rewrite <- in_rev; exact H13).
  rewrite rev_involutive. reflexivity.
Qed.

Lemma lines_cons' l rest : nl_free l = true -> lines ((l ++ [10]) ++ rest) = l :: lines rest.
Proof. intros H. rewrite <- app_assoc. cbn [app]. apply lines_cons. exact H. Qed.

Lemma lines_nil : lines [] = [].
Proof. reflexivity. Qed.

Lemma lines_join_lines ls : Forall (fun l => nl_free l = true) ls -> lines (join_lines ls) = ls.
Proof.
  induction 1 as [|l ls Hl _ IH]; [reflexivity|].
  unfold join_lines in *. cbn [flat_map]. rewrite lines_cons' by exact Hl. rewrite IH. reflexivity.
Qed.

(* every line returned by [lines] is LF-free *)
Lemma split_nl_lf_free cur l : ~ In 10 cur -> Forall (fun x => ~ In 10 x) (split_nl cur l).
Proof.
  revert cur. induction l as [|c r IH]; intros cur Hc; cbn [split_nl].
  - destruct cur as [|c0 cur']; constructor; [|constructor].
    rewrite <- in_rev. exact Hc.
  - destruct (c =? 10) eqn:E.
    + constructor.
      * rewrite <- in_rev. intros Hin. apply Hc. apply strip_cr_rev_incl. exact Hin.
      * apply IH. intros [].
    + apply IH. intros [Hin|Hin]; [|exact (Hc Hin)].
      subst c. rewrite N.eqb_refl in E. discriminate E.
Qed.

Theorem lines_lf_free input : Forall (fun l => ~ In 10 l) (lines input).
Proof. apply split_nl_lf_free. intros []. Qed.

(* a CR in a line returned by [lines] is never the byte directly before the LF that ended it:
   [lines] strips exactly one CR there (so "a\r\r\n" gives "a\r").  We only need the
   normalisation statement: without CR, joining the lines gives the input back. *)
Lemma join_split_nl_lf cur l :
  ~ In 13 cur -> ~ In 13 l -> ends_with 10 l = true ->
  join_lines (split_nl cur l) = rev cur ++ l.
Proof.
  revert cur. induction l as [|c r IH]; intros cur Hc Hl He; [discriminate He|].
  assert (Hr : ~ In 13 r) by (intros Hin; apply Hl; right; exact Hin).
  cbn [split_nl]. destruct (c =? 10) eqn:E.
  - apply N.eqb_eq in E. subst c. rewrite strip_cr_rev_id by exact Hc.
    unfold join_lines. cbn [flat_map]. rewrite <- app_assoc. cbn [app]. f_equal. f_equal.
    destruct r as [|y r']; [reflexivity|].
    cbn [ends_with] in He. specialize (IH [] ltac:(intros []) Hr He). exact IH.
  - destruct r as [|y r'].
    + cbn [ends_with] in He. rewrite He in E. discriminate E.
    + cbn [ends_with] in He. rewrite IH; [|intros [Hin|Hin]; [subst c; apply Hl; left; reflexivity | exact (Hc Hin)]|exact Hr|exact He].
      cbn [rev]. rewrite <- app_assoc. reflexivity.
Qed.

Lemma join_split_nl_nolf cur l :
  ~ In 13 cur -> ~ In 13 l -> ends_with 10 l = false -> rev cur ++ l <> [] ->
  join_lines (split_nl cur l) = rev cur ++ l ++ [10].
Proof.
  revert cur. induction l as [|c r IH]; intros cur Hc Hl He Hne.
  - cbn [split_nl]. destruct cur as [|c0 cur'].
    + exfalso. apply Hne. reflexivity.
    + unfold join_lines. cbn [flat_map app]. rewrite app_nil_r. reflexivity.
  - assert (Hr : ~ In 13 r) by (intros Hin; apply Hl; right; exact Hin).
    cbn [split_nl]. destruct (c =? 10) eqn:E.
    + apply N.eqb_eq in E. subst c. rewrite strip_cr_rev_id by exact Hc.
      unfold join_lines. cbn [flat_map]. rewrite <- app_assoc. cbn [app]. f_equal. f_equal.
      destruct r as [|y r']; [cbn [ends_with] in He; rewrite N.eqb_refl in He; discriminate He|].
      cbn [ends_with] in He.
      specialize (IH [] ltac:(intros []) Hr He ltac:(discriminate)). exact IH.
    + destruct r as [|y r'].
      * cbn [split_nl]. unfold join_lines. cbn [flat_map rev app]. rewrite app_nil_r.
        rewrite <- app_assoc. reflexivity.
      * cbn [ends_with] in He.
        rewrite IH; [|intros [Hin|Hin]; [subst c; apply Hl; left; reflexivity | exact (Hc Hin)]|exact Hr|exact He|].
        -- cbn [rev]. rewrite <- app_assoc. reflexivity.
        -- intros Hnil. apply app_eq_nil in Hnil. destruct Hnil as [_ Hnil]. discriminate Hnil.
Qed.

(* [lines] followed by LF-termination is the identity on LF-terminated, CR-free text *)
Theorem lines_join input :
  ~ In 13 input -> (input = [] \/ ends_with 10 input = true) ->
  join_lines (lines input) = input.
Proof.
  intros H13 [H|H].
  - subst. reflexivity.
  - unfold lines. rewrite join_split_nl_lf; [reflexivity|intros []|exact H13|exact H].
Qed.

(* ... and adds the missing final LF otherwise *)
Theorem lines_join_nolf input :
  ~ In 13 input -> input <> [] -> ends_with 10 input = false ->
  join_lines (lines input) = input ++ [10].
Proof.
  intros H13 Hne H. unfold lines. rewrite join_split_nl_nolf; [reflexivity|intros []|exact H13|exact H|exact Hne].
Qed.

Lemma ends_with_last c l : ends_with c l = true -> l = removelast l ++ [c].
Proof.
  induction l as [|x r IH]; intros H; [discriminate H|].
  destruct r as [|y r'].
  - cbn [ends_with] in H. apply N.eqb_eq in H. subst. reflexivity.
  - cbn [ends_with] in H. specialize (IH H).
    change (removelast (x :: y :: r')) with (x :: removelast (y :: r')).
    cbn [app]. f_equal. exact IH.
Qed.

Lemma ends_with_app_last c p : ends_with c (p ++ [c]) = true.
Proof.
  induction p as [|x p IH]; cbn [app ends_with]; [apply N.eqb_refl|].
  destruct (p ++ [c]) eqn:E; [destruct p; discriminate E|]. exact IH.
Qed.

Print Assumptions lines_lf_free.
Print Assumptions lines_join.
Print Assumptions lines_join_nolf.

(* ================================================================================== *)
(* 1. C07: text remapping                                                              *)
(* ================================================================================== *)

(* the frame lines emitted for a non-empty remapping result *)
Definition frame_lines (fs : list frame) : str := flat_map (fun f => indent ++ print_frame f ++ [10]) fs.

(* the only possible outputs for one input line [l]; [first] says whether it is the
   first line of the input *)
Inductive line_out (rc : str -> option str) (rf : str -> str -> N -> option str -> list frame)
          (first : bool) (l : str) : str -> Prop :=
| out_verbatim : line_out rc rf first l (l ++ [10])
| out_throwable t t' :
    first = true -> parse_throwable l = Some t -> remap_throwable rc t = Some t' ->
    line_out rc rf first l (print_throwable t' ++ [10])
| out_cause rest t t' :
    first = false -> parse_frame l = None -> strip_prefix caused_by l = Some rest ->
    parse_throwable rest = Some t -> remap_throwable rc t = Some t' ->
    line_out rc rf first l (caused_by ++ print_throwable t' ++ [10])
| out_frames f fs :
    parse_frame l = Some f -> do_frame rf f = fs -> fs <> [] ->
    (first = true -> parse_throwable l = None) ->
    line_out rc rf first l (frame_lines fs).

Section C07.
Variable rc : str -> option str.
Variable rf : str -> str -> N -> option str -> list frame.

Lemma fmt_frames_nil l : fmt_frames l [] = l ++ [10].
Proof. reflexivity. Qed.

Lemma fmt_frames_cons l f fs : fmt_frames l (f :: fs) = frame_lines (f :: fs).
Proof. reflexivity. Qed.

Lemma fmt_frames_out first l f :
  parse_frame l = Some f -> (first = true -> parse_throwable l = None) ->
  line_out rc rf first l (fmt_frames l (do_frame rf f)).
Proof.
  intros Hf Hn. destruct (do_frame rf f) as [|g gs] eqn:E.
  - apply out_verbatim.
  - rewrite fmt_frames_cons. eapply out_frames; [exact Hf|exact E|discriminate|exact Hn].
Qed.

Lemma first_line_out l : line_out rc rf true l (first_line rc rf l).
Proof.
  unfold first_line. destruct (parse_throwable l) as [t|] eqn:Et.
  - destruct (remap_throwable rc t) as [t'|] eqn:Er.
    + eapply out_throwable; [reflexivity|exact Et|exact Er].
    + apply out_verbatim.
  - destruct (parse_frame l) as [f|] eqn:Ef.
    + apply fmt_frames_out; [exact Ef|intros _; exact Et].
    + apply out_verbatim.
Qed.

Lemma later_line_out l : line_out rc rf false l (later_line rc rf l).
Proof.
  unfold later_line. destruct (parse_frame l) as [f|] eqn:Ef.
  - apply fmt_frames_out; [exact Ef|discriminate].
  - destruct (strip_prefix caused_by l) as [rest|] eqn:Es; [|apply out_verbatim].
    destruct (parse_throwable rest) as [t|] eqn:Et; [|apply out_verbatim].
    destruct (remap_throwable rc t) as [t'|] eqn:Er; [|apply out_verbatim].
    eapply out_cause; [reflexivity|exact Ef|exact Es|exact Et|exact Er].
Qed.

(* --- exactly when is a line passed through verbatim, and what is it rewritten to --- *)

Lemma remap_throwable_none t : rc (fst t) = None -> remap_throwable rc t = None.
Proof. unfold remap_throwable. intros H. rewrite H. reflexivity. Qed.

Lemma remap_throwable_some t c : rc (fst t) = Some c -> remap_throwable rc t = Some (c, snd t).
Proof. unfold remap_throwable. intros H. rewrite H. reflexivity. Qed.

Lemma remap_throwable_inv t t' :
  remap_throwable rc t = Some t' -> exists c, rc (fst t) = Some c /\ t' = (c, snd t).
Proof.
  unfold remap_throwable. destruct (rc (fst t)) as [c|]; [|discriminate].
  intros H. inversion H. exists c. split; reflexivity.
Qed.

(* later lines *)
Lemma later_line_verbatim l :
  parse_frame l = None ->
  (forall rest t, strip_prefix caused_by l = Some rest -> parse_throwable rest = Some t -> rc (fst t) = None) ->
  later_line rc rf l = l ++ [10].
Proof.
  intros Hf H. unfold later_line. rewrite Hf.
  destruct (strip_prefix caused_by l) as [rest|]; [|reflexivity].
  destruct (parse_throwable rest) as [t|] eqn:Et; [|reflexivity].
  rewrite remap_throwable_none; [reflexivity|]. eapply H; [reflexivity|exact Et].
Qed.

Lemma later_line_frame_verbatim l f :
  parse_frame l = Some f -> do_frame rf f = [] -> later_line rc rf l = l ++ [10].
Proof. intros Hf Hd. unfold later_line. rewrite Hf, Hd. reflexivity. Qed.

Lemma later_line_frame l f :
  parse_frame l = Some f -> do_frame rf f <> [] -> later_line rc rf l = frame_lines (do_frame rf f).
Proof.
  intros Hf Hd. unfold later_line. rewrite Hf. destruct (do_frame rf f); [congruence|reflexivity].
Qed.

Lemma later_line_cause l rest t c :
  parse_frame l = None -> strip_prefix caused_by l = Some rest -> parse_throwable rest = Some t ->
  rc (fst t) = Some c ->
  later_line rc rf l = caused_by ++ print_throwable (c, snd t) ++ [10].
Proof.
  intros Hf Hs Ht Hc. unfold later_line. rewrite Hf, Hs, Ht, (remap_throwable_some _ _ Hc). reflexivity.
Qed.

(* first line *)
Lemma first_line_verbatim l :
  (forall t, parse_throwable l = Some t -> rc (fst t) = None) ->
  (forall f, parse_throwable l = None -> parse_frame l = Some f -> do_frame rf f = []) ->
  first_line rc rf l = l ++ [10].
Proof.
  intros Ht Hf. unfold first_line. destruct (parse_throwable l) as [t|].
  - rewrite remap_throwable_none; [reflexivity|]. apply Ht. reflexivity.
  - destruct (parse_frame l) as [f|]; [|reflexivity].
    rewrite (Hf f eq_refl eq_refl). reflexivity.
Qed.

Lemma first_line_throwable l t c :
  parse_throwable l = Some t -> rc (fst t) = Some c ->
  first_line rc rf l = print_throwable (c, snd t) ++ [10].
Proof. intros Ht Hc. unfold first_line. rewrite Ht, (remap_throwable_some _ _ Hc). reflexivity. Qed.

Lemma first_line_frame l f :
  parse_throwable l = None -> parse_frame l = Some f -> do_frame rf f <> [] ->
  first_line rc rf l = frame_lines (do_frame rf f).
Proof.
  intros Ht Hf Hd. unfold first_line. rewrite Ht, Hf. destruct (do_frame rf f); [congruence|reflexivity].
Qed.

(* exhaustive and mutually exclusive classification of a later line, with its output *)
Lemma later_line_cases l :
  (exists f, parse_frame l = Some f /\ do_frame rf f = [] /\ later_line rc rf l = l ++ [10]) \/
  (exists f, parse_frame l = Some f /\ do_frame rf f <> [] /\ later_line rc rf l = frame_lines (do_frame rf f)) \/
  (parse_frame l = None /\
   exists rest t c, strip_prefix caused_by l = Some rest /\ parse_throwable rest = Some t /\ rc (fst t) = Some c /\
                    later_line rc rf l = caused_by ++ print_throwable (c, snd t) ++ [10]) \/
  (parse_frame l = None /\
   (forall rest t, strip_prefix caused_by l = Some rest -> parse_throwable rest = Some t -> rc (fst t) = None) /\
   later_line rc rf l = l ++ [10]).
Proof.
  destruct (parse_frame l) as [f|] eqn:Ef.
  - destruct (do_frame rf f) as [|g gs] eqn:Ed.
    + left. exists f. repeat split; [exact Ed|]. eapply later_line_frame_verbatim; eassumption.
    + right. left. exists f. split; [reflexivity|]. rewrite Ed. split; [discriminate|].
      rewrite <- Ed. apply later_line_frame; [exact Ef|rewrite Ed; discriminate].
  - right. right.
    destruct (strip_prefix caused_by l) as [rest|] eqn:Es.
    + destruct (parse_throwable rest) as [t|] eqn:Et.
      * destruct (rc (fst t)) as [c|] eqn:Ec.
        -- left. split; [reflexivity|]. exists rest, t, c. repeat split; try assumption.
           eapply later_line_cause; eassumption.
        -- right. split; [reflexivity|].
           assert (H : forall rest0 t0, Some rest = Some rest0 -> parse_throwable rest0 = Some t0 -> rc (fst t0) = None).
           { intros rest0 t0 H1 H2. inversion H1; subst rest0. rewrite Et in H2. inversion H2; subst t0. exact Ec. }
           split; [exact H|]. apply later_line_verbatim; [exact Ef|]. rewrite Es. exact H.
      * right. split; [reflexivity|].
        assert (H : forall rest0 t0, Some rest = Some rest0 -> parse_throwable rest0 = Some t0 -> rc (fst t0) = None).
        { intros rest0 t0 H1 H2. inversion H1; subst rest0. rewrite Et in H2. discriminate H2. }
        split; [exact H|]. apply later_line_verbatim; [exact Ef|]. rewrite Es. exact H.
    + right. split; [reflexivity|].
      assert (H : forall rest0 t0, @None str = Some rest0 -> parse_throwable rest0 = Some t0 -> rc (fst t0) = None)
        by (intros rest0 t0 H1; discriminate H1).
      split; [exact H|]. apply later_line_verbatim; [exact Ef|]. rewrite Es. exact H.
Qed.

Lemma first_line_cases l :
  (exists t c, parse_throwable l = Some t /\ rc (fst t) = Some c /\
               first_line rc rf l = print_throwable (c, snd t) ++ [10]) \/
  (exists t, parse_throwable l = Some t /\ rc (fst t) = None /\ first_line rc rf l = l ++ [10]) \/
  (parse_throwable l = None /\ exists f, parse_frame l = Some f /\ do_frame rf f <> [] /\
               first_line rc rf l = frame_lines (do_frame rf f)) \/
  (parse_throwable l = None /\ exists f, parse_frame l = Some f /\ do_frame rf f = [] /\ first_line rc rf l = l ++ [10]) \/
  (parse_throwable l = None /\ parse_frame l = None /\ first_line rc rf l = l ++ [10]).
Proof.
  destruct (parse_throwable l) as [t|] eqn:Et.
  - destruct (rc (fst t)) as [c|] eqn:Ec.
    + left. exists t, c. repeat split; [exact Ec|]. eapply first_line_throwable; eassumption.
    + right. left. exists t. repeat split; [exact Ec|].
      unfold first_line. rewrite Et, (remap_throwable_none _ Ec). reflexivity.
  - right. right. destruct (parse_frame l) as [f|] eqn:Ef.
    + destruct (do_frame rf f) as [|g gs] eqn:Ed.
      * right. left. split; [reflexivity|]. exists f. repeat split; [exact Ed|].
        unfold first_line. rewrite Et, Ef, Ed. reflexivity.
      * left. split; [reflexivity|]. exists f. split; [reflexivity|]. rewrite Ed. split; [discriminate|].
        rewrite <- Ed. apply first_line_frame; [exact Et|exact Ef|rewrite Ed; discriminate].
    + right. right. repeat split. unfold first_line. rewrite Et, Ef. reflexivity.
Qed.

(* converse direction of the verbatim characterisation is not an equivalence (a remapped
   line may coincide with the input line, e.g. rc c = Some c); the classification by
   [line_out] together with the six lemmas above is exhaustive. *)

(* --- decomposition: one output chunk per input line, in order --- *)

Definition line_outs (ls : list str) : list str :=
  match ls with
  | [] => []
  | l0 :: ls' => first_line rc rf l0 :: map (later_line rc rf) ls'
  end.

Definition indexed {A} (l : list A) : list (nat * A) := combine (seq 0 (length l)) l.

Lemma remap_text_concat input : remap_text rc rf input = concat (line_outs (lines input)).
Proof.
  unfold remap_text, line_outs. destruct (lines input) as [|l0 ls]; [reflexivity|].
  cbn [concat]. rewrite flat_map_concat_map. reflexivity.
Qed.

Lemma later_outs_Forall2 ls n :
  Forall2 (fun il o => line_out rc rf (Nat.eqb (fst il) 0) (snd il) o)
          (combine (seq (S n) (length ls)) ls) (map (later_line rc rf) ls).
Proof.
  revert n. induction ls as [|l ls IH]; intros n; cbn [length seq combine map]; constructor.
  - cbn [fst snd Nat.eqb]. apply later_line_out.
  - apply IH.
Qed.

Lemma line_outs_Forall2 ls :
  Forall2 (fun il o => line_out rc rf (Nat.eqb (fst il) 0) (snd il) o) (indexed ls) (line_outs ls).
Proof.
  unfold indexed, line_outs. destruct ls as [|l0 ls]; cbn [length seq combine]; constructor.
  - cbn [fst snd Nat.eqb]. apply first_line_out.
  - apply later_outs_Forall2.
Qed.

Theorem C07_decomposition input : exists outs,
  remap_text rc rf input = concat outs /\
  Forall2 (fun il o => line_out rc rf (Nat.eqb (fst il) 0) (snd il) o) (indexed (lines input)) outs.
Proof.
  exists (line_outs (lines input)). split; [apply remap_text_concat|apply line_outs_Forall2].
Qed.

Lemma indexed_length {A} (l : list A) : length (indexed l) = length l.
Proof. unfold indexed. rewrite combine_length, seq_length. apply Nat.min_id. Qed.

Lemma flat_map_ext_in {A B} (f g : A -> list B) l :
  (forall a, In a l -> f a = g a) -> flat_map f l = flat_map g l.
Proof.
  induction l as [|x l IH]; intros H; cbn [flat_map]; [reflexivity|].
  rewrite (H x (or_introl eq_refl)), IH; [reflexivity|].
  intros a Ha. apply H. right. exact Ha.
Qed.

Lemma Forall2_length {A B} (R : A -> B -> Prop) l l' : Forall2 R l l' -> length l = length l'.
Proof. induction 1 as [|x y l l' _ _ IH]; cbn [length]; [reflexivity|f_equal; exact IH]. Qed.

(* explicit count: exactly one chunk per line *)
Corollary C07_chunk_count input : exists outs,
  remap_text rc rf input = concat outs /\ length outs = length (lines input).
Proof.
  destruct (C07_decomposition input) as [outs [H1 H2]]. exists outs. split; [exact H1|].
  apply Forall2_length in H2. rewrite indexed_length in H2. symmetry. exact H2.
Qed.

(* --- identity --- *)

(* weak form: the lookups fail on what actually occurs in the input.  The hypotheses are
   quantified over the lines of the input exactly the way the loop classifies them:
   the first line as throwable, else frame; every later line as frame, else cause. *)
Theorem C07_identity_weak input :
  (forall l0 ls t, lines input = l0 :: ls -> parse_throwable l0 = Some t -> rc (fst t) = None) ->
  (forall l0 ls l rest t, lines input = l0 :: ls -> In l ls -> parse_frame l = None ->
      strip_prefix caused_by l = Some rest -> parse_throwable rest = Some t -> rc (fst t) = None) ->
  (forall l c m fl n, In l (lines input) -> parse_frame l = Some (c, m, fl, n) -> rf c m n fl = []) ->
  remap_text rc rf input = join_lines (lines input).
Proof.
  intros H1 H2 H3. unfold remap_text, join_lines.
  destruct (lines input) as [|l0 ls] eqn:E; [reflexivity|].
  cbn [flat_map]. f_equal.
  - apply first_line_verbatim.
    + intros t Ht. eapply H1; [reflexivity|exact Ht].
    + intros [[[c m] fl] n] _ Hf. cbn [do_frame]. eapply H3; [left; reflexivity|exact Hf].
  - apply flat_map_ext_in. intros l Hl.
    destruct (parse_frame l) as [[[[c m] fl] n]|] eqn:Ef.
    + eapply later_line_frame_verbatim; [exact Ef|]. cbn [do_frame].
      eapply H3; [right; exact Hl|exact Ef].
    + apply later_line_verbatim; [exact Ef|].
      intros rest t Hs Ht. eapply H2; [reflexivity|exact Hl|exact Ef|exact Hs|exact Ht].
Qed.

(* strong hypothesis: the lookups know nothing at all *)
Theorem C07_identity input :
  (forall c, rc c = None) -> (forall c m l f, rf c m l f = []) ->
  remap_text rc rf input = join_lines (lines input).
Proof.
  intros Hc Hf. apply C07_identity_weak.
  - intros. apply Hc.
  - intros. apply Hc.
  - intros. apply Hf.
Qed.

(* on LF-terminated CR-free input the identity is literal *)
Corollary C07_identity_literal input :
  (forall c, rc c = None) -> (forall c m l f, rf c m l f = []) ->
  ~ In 13 input -> (input = [] \/ ends_with 10 input = true) ->
  remap_text rc rf input = input.
Proof.
  intros Hc Hf H13 He. rewrite C07_identity by assumption. apply lines_join; assumption.
Qed.

End C07.

Print Assumptions C07_decomposition.
Print Assumptions later_line_cases.
Print Assumptions first_line_cases.
Print Assumptions C07_identity_weak.
Print Assumptions C07_identity.

(* --- C07_total: [remap_text] is a Gallina function, hence total; the only partial operation
   in the Rust code on this path is the slice line[3..line.len()-1] in parse_frame.
   It is in bounds: --- *)
Theorem parse_frame_slice_in_bounds l rest :
  strip_prefix at_space l = Some rest -> ends_with 41 l = true ->
  rest <> [] /\ l = at_space ++ removelast rest ++ [41] /\ (3 <= length l - 1)%nat.
Proof.
  intros Hs He. apply strip_prefix_app in Hs. subst l.
  destruct rest as [|r rest'].
  - vm_compute in He. discriminate He.
  - split; [discriminate|]. unfold at_space in *. cbn [app ends_with] in He.
    split.
    + cbn [app]. do 3 f_equal. apply ends_with_last. exact He.
    + cbn [app length]. lia.
Qed.

(* the slice taken by the model, [removelast rest], is the line without its first three
   bytes and without its last byte *)
Corollary parse_frame_slice l rest :
  strip_prefix at_space l = Some rest -> ends_with 41 l = true ->
  removelast rest = firstn (length l - 4) (skipn 3 l).
Proof.
  intros Hs He. destruct (parse_frame_slice_in_bounds l rest Hs He) as [_ [Hl _]].
  rewrite Hl. unfold at_space. cbn [app skipn length].
  rewrite app_length. cbn [length].
  replace (S (S (S (length (removelast rest) + 1))) - 4)%nat with (length (removelast rest) + 0)%nat by lia.
  rewrite firstn_app_2. cbn [firstn]. rewrite app_nil_r. reflexivity.
Qed.

Print Assumptions parse_frame_slice_in_bounds.


(* ================================================================================== *)
(* 2. C08: typed remapping                                                             *)
(* ================================================================================== *)

(* [trace] is nested through [option]; the generated induction principle has no hypothesis
   for the cause. *)
Fixpoint trace_ind' (P : trace -> Prop)
    (Hnone : forall e fs, P (Trace e fs None))
    (Hsome : forall e fs c, P c -> P (Trace e fs (Some c)))
    (t : trace) : P t :=
  match t with
  | Trace e fs None => Hnone e fs
  | Trace e fs (Some c) => Hsome e fs c (trace_ind' P Hnone Hsome c)
  end.

(* the chain of (exception, frames) from the top level down the causes *)
Fixpoint nodes (t : trace) : list (option throwable * list frame) :=
  match t with
  | Trace e fs c => (e, fs) :: match c with Some c' => nodes c' | None => [] end
  end.

Section C08.
Variable rc : str -> option str.
Variable rf : str -> str -> N -> option str -> list frame.

(* what the typed API does to one exception / one frame *)
Definition keep_exc (e : throwable) : throwable :=
  match remap_throwable rc e with Some e' => e' | None => e end.
Definition keep_frame (f : frame) : list frame :=
  match do_frame rf f with [] => [f] | fs' => fs' end.

Lemma remap_typed_eq e fs c :
  remap_typed rc rf (Trace e fs c) =
  Trace (option_map keep_exc e) (flat_map keep_frame fs) (option_map (remap_typed rc rf) c).
Proof. reflexivity. Qed.

Theorem C08_depth t : depth (remap_typed rc rf t) = depth t.
Proof.
  induction t as [e fs|e fs c IH] using trace_ind'.
  - reflexivity.
  - rewrite remap_typed_eq. cbn [option_map depth]. f_equal. exact IH.
Qed.

Lemma nodes_length t : length (nodes t) = S (depth t).
Proof.
  induction t as [e fs|e fs c IH] using trace_ind'; cbn [nodes depth length]; [reflexivity|].
  f_equal. exact IH.
Qed.

Theorem C08_shape t :
  nodes (remap_typed rc rf t) =
  map (fun '(e, fs) =>
         (option_map (fun e => match remap_throwable rc e with Some e' => e' | None => e end) e,
          flat_map (fun f => match do_frame rf f with [] => [f] | fs' => fs' end) fs))
      (nodes t).
Proof.
  induction t as [e fs|e fs c IH] using trace_ind'.
  - reflexivity.
  - rewrite remap_typed_eq. cbn [option_map nodes map]. f_equal. exact IH.
Qed.

(* --- corollaries --- *)

(* an exception is present in the output iff it is present in the input, node by node *)
Corollary C08_exceptions_kept t :
  map (fun n => is_some (fst n)) (nodes (remap_typed rc rf t)) = map (fun n => is_some (fst n)) (nodes t).
Proof.
  rewrite C08_shape, map_map. apply map_ext. intros [[e|] fs]; reflexivity.
Qed.

(* the class of a kept exception is the looked-up one, or the original; the message is unchanged *)
Lemma keep_exc_spec e :
  snd (keep_exc e) = snd e /\
  ((rc (fst e) = None /\ keep_exc e = e) \/ (exists c, rc (fst e) = Some c /\ keep_exc e = (c, snd e))).
Proof.
  unfold keep_exc, remap_throwable. destruct (rc (fst e)) as [c|].
  - split; [reflexivity|]. right. exists c. split; reflexivity.
  - split; [reflexivity|]. left. split; reflexivity.
Qed.

Lemma keep_frame_nonempty f : keep_frame f <> [].
Proof. unfold keep_frame. destruct (do_frame rf f); discriminate. Qed.

(* every input frame appears unchanged or is replaced by its non-empty remapping *)
Lemma keep_frame_spec f :
  (do_frame rf f = [] /\ keep_frame f = [f]) \/ (do_frame rf f <> [] /\ keep_frame f = do_frame rf f).
Proof.
  unfold keep_frame. destruct (do_frame rf f) as [|g gs].
  - left. split; reflexivity.
  - right. split; [discriminate|reflexivity].
Qed.

Lemma flat_map_nonempty_length {A B} (f : A -> list B) l :
  (forall a, f a <> []) -> (length l <= length (flat_map f l))%nat.
Proof.
  intros H. induction l as [|x l IH]; cbn [flat_map length]; [lia|].
  rewrite app_length. specialize (H x). destruct (f x); [congruence|]. cbn [length]. lia.
Qed.

(* the number of frames of a node never decreases *)
Corollary C08_frames_not_fewer t :
  Forall2 (fun n n' => (length (snd n) <= length (snd n'))%nat) (nodes t) (nodes (remap_typed rc rf t)).
Proof.
  rewrite C08_shape. induction (nodes t) as [|[e fs] ns IH]; cbn [map]; constructor; [|exact IH].
  cbn [snd]. apply (flat_map_nonempty_length keep_frame). apply keep_frame_nonempty.
Qed.

(* node [i] of the output is node [i] of the input, transformed *)
Corollary C08_node t i e fs :
  nth_error (nodes t) i = Some (e, fs) ->
  nth_error (nodes (remap_typed rc rf t)) i = Some (option_map keep_exc e, flat_map keep_frame fs).
Proof. intros H. rewrite C08_shape. erewrite map_nth_error by exact H. reflexivity. Qed.

Corollary C08_node_inv t i e' fs' :
  nth_error (nodes (remap_typed rc rf t)) i = Some (e', fs') ->
  exists e fs, nth_error (nodes t) i = Some (e, fs) /\ e' = option_map keep_exc e /\ fs' = flat_map keep_frame fs.
Proof.
  intros H. destruct (nth_error (nodes t) i) as [[e fs]|] eqn:E.
  - rewrite (C08_node _ _ _ _ E) in H. inversion H. exists e, fs. repeat split.
  - apply nth_error_None in E. assert (Hl : length (nodes (remap_typed rc rf t)) = length (nodes t))
      by (rewrite !nodes_length, C08_depth; reflexivity).
    rewrite <- Hl in E. apply nth_error_None in E. rewrite E in H. discriminate H.
Qed.

(* an output frame comes from some input frame of the same node: it is that frame (unresolved)
   or one of its remapped frames *)
Corollary C08_frame_origin t i e' fs' g :
  nth_error (nodes (remap_typed rc rf t)) i = Some (e', fs') -> In g fs' ->
  exists e fs f, nth_error (nodes t) i = Some (e, fs) /\ In f fs /\
                 ((do_frame rf f = [] /\ g = f) \/ In g (do_frame rf f)).
Proof.
  intros H Hg. destruct (C08_node_inv _ _ _ _ H) as [e [fs [Hn [_ Hfs]]]]. subst fs'.
  apply in_flat_map in Hg. destruct Hg as [f [Hf Hg]]. exists e, fs, f. split; [exact Hn|]. split; [exact Hf|].
  destruct (keep_frame_spec f) as [[Hd Hk]|[Hd Hk]]; rewrite Hk in Hg.
  - left. destruct Hg as [Hg|[]]. split; [exact Hd|symmetry; exact Hg].
  - right. exact Hg.
Qed.

(* ... and conversely every input frame is represented in the same node of the output: unchanged
   if unresolved, else by all of its (non-empty) remapped frames *)
Corollary C08_frame_kept t i e fs f :
  nth_error (nodes t) i = Some (e, fs) -> In f fs ->
  exists e' fs', nth_error (nodes (remap_typed rc rf t)) i = Some (e', fs') /\
    ((do_frame rf f = [] /\ In f fs') \/ (do_frame rf f <> [] /\ incl (do_frame rf f) fs')).
Proof.
  intros Hn Hf. exists (option_map keep_exc e), (flat_map keep_frame fs). split; [apply C08_node; exact Hn|].
  destruct (keep_frame_spec f) as [[Hd Hk]|[Hd Hk]].
  - left. split; [exact Hd|]. apply in_flat_map. exists f. split; [exact Hf|]. rewrite Hk. left. reflexivity.
  - right. split; [exact Hd|]. intros g Hg. apply in_flat_map. exists f. split; [exact Hf|]. rewrite Hk. exact Hg.
Qed.

(* --- C08_print: agreement with the text API on canonical prints --- *)

(* The hypotheses are "parse equations": the printed line is classified by the executable
   parsers the way it was printed (C17 derives them from syntactic well-formedness). *)
Definition exc_ok (e : throwable) : Prop :=
  nl_free (print_throwable e) = true /\ parse_throwable (print_throwable e) = Some e.
Definition cause_ok (e : throwable) : Prop :=
  exc_ok e /\ parse_frame (caused_by ++ print_throwable e) = None.
Definition frame_ok (f : frame) : Prop :=
  nl_free (print_frame f) = true /\ parse_frame (indent ++ print_frame f) = Some f.
(* only for a frame that is the first line of the text (no top-level exception) *)
Definition frame_first_ok (f : frame) : Prop :=
  parse_throwable (indent ++ print_frame f) = None.

Fixpoint canonical_cause (t : trace) : Prop :=
  match t with
  | Trace exc fs c =>
      match exc with Some e => cause_ok e | None => False end /\
      Forall frame_ok fs /\
      match c with Some c' => canonical_cause c' | None => True end
  end.

Definition canonical (t : trace) : Prop :=
  match t with
  | Trace exc fs c =>
      match exc with
      | Some e => exc_ok e
      | None => match fs with f :: _ => frame_first_ok f | [] => False end
      end /\
      Forall frame_ok fs /\
      match c with Some c' => canonical_cause c' | None => True end
  end.

(* the text loop after the first line *)
Definition remap_rest (s : str) : str := flat_map (later_line rc rf) (lines s).

Lemma remap_text_cons l rest :
  nl_free l = true -> remap_text rc rf ((l ++ [10]) ++ rest) = first_line rc rf l ++ remap_rest rest.
Proof. intros H. unfold remap_text, remap_rest. rewrite lines_cons' by exact H. reflexivity. Qed.

Lemma remap_rest_cons l rest :
  nl_free l = true -> remap_rest ((l ++ [10]) ++ rest) = later_line rc rf l ++ remap_rest rest.
Proof. intros H. unfold remap_rest. rewrite lines_cons' by exact H. reflexivity. Qed.

Lemma remap_rest_nil : remap_rest [] = [].
Proof. reflexivity. Qed.

Lemma nl_free_indent l : nl_free (indent ++ l) = nl_free l.
Proof. reflexivity. Qed.
Lemma nl_free_caused_by l : nl_free (caused_by ++ l) = nl_free l.
Proof. reflexivity. Qed.

Lemma strip_prefix_self pre l : strip_prefix pre (pre ++ l) = Some l.
Proof.
  induction pre as [|p ps IH]; cbn [app strip_prefix]; [reflexivity|]. rewrite N.eqb_refl. exact IH.
Qed.

(* one frame line: the text API emits exactly what printing the kept frames gives *)
Lemma fmt_frames_keep f :
  fmt_frames (indent ++ print_frame f) (do_frame rf f) = frame_lines (keep_frame f).
Proof.
  unfold keep_frame. destruct (do_frame rf f) as [|g gs]; [|reflexivity].
  unfold fmt_frames, frame_lines. cbn [flat_map]. rewrite app_nil_r, <- app_assoc. reflexivity.
Qed.

Lemma later_line_frame_ok f :
  frame_ok f -> later_line rc rf (indent ++ print_frame f) = frame_lines (keep_frame f).
Proof. intros [_ Hp]. unfold later_line. rewrite Hp. apply fmt_frames_keep. Qed.

Lemma first_line_frame_ok f :
  frame_ok f -> frame_first_ok f -> first_line rc rf (indent ++ print_frame f) = frame_lines (keep_frame f).
Proof. intros [_ Hp] Ht. unfold first_line. rewrite Ht, Hp. apply fmt_frames_keep. Qed.

Lemma first_line_exc_ok e :
  exc_ok e -> first_line rc rf (print_throwable e) = print_throwable (keep_exc e) ++ [10].
Proof.
  intros [_ Hp]. unfold first_line, keep_exc. rewrite Hp.
  destruct (remap_throwable rc e); reflexivity.
Qed.

Lemma later_line_cause_ok e :
  cause_ok e ->
  later_line rc rf (caused_by ++ print_throwable e) = caused_by ++ print_throwable (keep_exc e) ++ [10].
Proof.
  intros [[_ Hp] Hf]. unfold later_line, keep_exc. rewrite Hf, strip_prefix_self, Hp.
  destruct (remap_throwable rc e); [reflexivity|]. rewrite <- app_assoc. reflexivity.
Qed.

Lemma frame_lines_app a b : frame_lines (a ++ b) = frame_lines a ++ frame_lines b.
Proof. apply flat_map_app. Qed.

(* a block of frame lines *)
Lemma remap_rest_frames fs rest :
  Forall frame_ok fs ->
  remap_rest (frame_lines fs ++ rest) = frame_lines (flat_map keep_frame fs) ++ remap_rest rest.
Proof.
  induction 1 as [|f fs Hf _ IH]; [reflexivity|].
  unfold frame_lines at 1. cbn [flat_map]. fold (frame_lines fs).
  replace (((indent ++ print_frame f ++ [10]) ++ frame_lines fs) ++ rest)
    with (((indent ++ print_frame f) ++ [10]) ++ (frame_lines fs ++ rest))
    by (rewrite <- !app_assoc; reflexivity).
  rewrite remap_rest_cons by (rewrite nl_free_indent; exact (proj1 Hf)).
  rewrite IH, later_line_frame_ok by exact Hf.
  rewrite frame_lines_app, <- app_assoc. reflexivity.
Qed.

Lemma print_trace_eq e fs c :
  print_trace (Trace e fs c) =
  (match e with Some e' => print_throwable e' ++ [10] | None => [] end) ++ frame_lines fs ++
  (match c with Some c' => caused_by ++ print_trace c' | None => [] end).
Proof. reflexivity. Qed.

(* a cause and everything below it *)
Lemma remap_rest_cause c :
  canonical_cause c ->
  remap_rest (caused_by ++ print_trace c) = caused_by ++ print_trace (remap_typed rc rf c).
Proof.
  induction c as [e fs|e fs c IH] using trace_ind'; intros [He [Hfs Hc]];
    (destruct e as [e|]; [|destruct He]);
    rewrite remap_typed_eq, !print_trace_eq; cbn [option_map].
  - replace (caused_by ++ (print_throwable e ++ [10]) ++ frame_lines fs ++ [])
      with (((caused_by ++ print_throwable e) ++ [10]) ++ (frame_lines fs ++ []))
      by (rewrite <- !app_assoc; reflexivity).
    rewrite remap_rest_cons by (rewrite nl_free_caused_by; exact (proj1 (proj1 He))).
    rewrite later_line_cause_ok by exact He.
    rewrite remap_rest_frames by exact Hfs. rewrite remap_rest_nil.
    rewrite <- !app_assoc. reflexivity.
  - replace (caused_by ++ (print_throwable e ++ [10]) ++ frame_lines fs ++ caused_by ++ print_trace c)
      with (((caused_by ++ print_throwable e) ++ [10]) ++ (frame_lines fs ++ caused_by ++ print_trace c))
      by (rewrite <- !app_assoc; reflexivity).
    rewrite remap_rest_cons by (rewrite nl_free_caused_by; exact (proj1 (proj1 He))).
    rewrite later_line_cause_ok by exact He.
    rewrite remap_rest_frames by exact Hfs. rewrite IH by exact Hc.
    rewrite <- !app_assoc. reflexivity.
Qed.

Lemma remap_rest_tail c :
  match c with Some c' => canonical_cause c' | None => True end ->
  remap_rest (match c with Some c' => caused_by ++ print_trace c' | None => [] end) =
  match option_map (remap_typed rc rf) c with Some c' => caused_by ++ print_trace c' | None => [] end.
Proof.
  destruct c as [c|]; intros H; cbn [option_map]; [apply remap_rest_cause; exact H|reflexivity].
Qed.

Theorem C08_print t :
  canonical t -> print_trace (remap_typed rc rf t) = remap_text rc rf (print_trace t).
Proof.
  destruct t as [e fs c]. intros [He [Hfs Hc]].
  rewrite remap_typed_eq, !print_trace_eq. destruct e as [e|]; cbn [option_map].
  - rewrite remap_text_cons by exact (proj1 He).
    rewrite first_line_exc_ok by exact He.
    rewrite remap_rest_frames by exact Hfs. rewrite remap_rest_tail by exact Hc. reflexivity.
  - destruct fs as [|f fs]; [destruct He|].
    inversion Hfs as [|f0 fs0 Hf Hfs']; subst f0 fs0.
    cbn [app]. unfold frame_lines at 2. cbn [flat_map]. fold (frame_lines fs).
    replace (((indent ++ print_frame f ++ [10]) ++ frame_lines fs)
            ++ match c with Some c' => caused_by ++ print_trace c' | None => [] end)
      with (((indent ++ print_frame f) ++ [10]) ++
            (frame_lines fs ++ match c with Some c' => caused_by ++ print_trace c' | None => [] end))
      by (rewrite <- !app_assoc; reflexivity).
    rewrite remap_text_cons by (rewrite nl_free_indent; exact (proj1 Hf)).
    rewrite first_line_frame_ok by assumption.
    rewrite remap_rest_frames by exact Hfs'. rewrite remap_rest_tail by exact Hc.
    rewrite frame_lines_app, <- app_assoc. reflexivity.
Qed.

End C08.

Print Assumptions C08_depth.
Print Assumptions C08_shape.
Print Assumptions C08_exceptions_kept.
Print Assumptions C08_frames_not_fewer.
Print Assumptions C08_frame_origin.
Print Assumptions C08_frame_kept.
Print Assumptions C08_print.

(* --- executable form of [canonical] (for the test harness) and its soundness --- *)

Lemma str_eqb_eq a b : str_eqb a b = true -> a = b.
Proof.
  revert b. induction a as [|x a IH]; intros [|y b] H; cbn [str_eqb] in H; try discriminate H; [reflexivity|].
  apply andb_true_iff in H. destruct H as [H1 H2]. apply N.eqb_eq in H1. subst y. f_equal. apply IH. exact H2.
Qed.

Definition opt_str_eqb (a b : option str) : bool :=
  match a, b with
  | Some x, Some y => str_eqb x y
  | None, None => true
  | _, _ => false
  end.
Lemma opt_str_eqb_eq a b : opt_str_eqb a b = true -> a = b.
Proof.
  destruct a as [x|], b as [y|]; cbn [opt_str_eqb]; intros H; try discriminate H; [|reflexivity].
  f_equal. apply str_eqb_eq. exact H.
Qed.

Definition throwable_eqb (a b : throwable) : bool := str_eqb (fst a) (fst b) && opt_str_eqb (snd a) (snd b).
Lemma throwable_eqb_eq a b : throwable_eqb a b = true -> a = b.
Proof.
  destruct a as [a1 a2], b as [b1 b2]. unfold throwable_eqb. cbn [fst snd]. intros H.
  apply andb_true_iff in H. destruct H as [H1 H2].
  apply str_eqb_eq in H1. apply opt_str_eqb_eq in H2. subst. reflexivity.
Qed.

Definition frame_eqb (a b : frame) : bool :=
  let '(c, m, fl, n) := a in let '(c', m', fl', n') := b in
  str_eqb c c' && str_eqb m m' && opt_str_eqb fl fl' && (n =? n').
Lemma frame_eqb_eq a b : frame_eqb a b = true -> a = b.
Proof.
  destruct a as [[[c m] fl] n], b as [[[c' m'] fl'] n']. unfold frame_eqb. intros H.
  apply andb_true_iff in H. destruct H as [H H4].
  apply andb_true_iff in H. destruct H as [H H3].
  apply andb_true_iff in H. destruct H as [H1 H2].
  apply str_eqb_eq in H1. apply str_eqb_eq in H2. apply opt_str_eqb_eq in H3. apply N.eqb_eq in H4.
  subst. reflexivity.
Qed.

Definition exc_okb (e : throwable) : bool :=
  nl_free (print_throwable e) &&
  match parse_throwable (print_throwable e) with Some e' => throwable_eqb e' e | None => false end.
Definition cause_okb (e : throwable) : bool :=
  exc_okb e && match parse_frame (caused_by ++ print_throwable e) with None => true | Some _ => false end.
Definition frame_okb (f : frame) : bool :=
  nl_free (print_frame f) &&
  match parse_frame (indent ++ print_frame f) with Some f' => frame_eqb f' f | None => false end.
Definition frame_first_okb (f : frame) : bool :=
  match parse_throwable (indent ++ print_frame f) with None => true | Some _ => false end.

Fixpoint canonical_causeb (t : trace) : bool :=
  match t with
  | Trace exc fs c =>
      match exc with Some e => cause_okb e | None => false end &&
      forallb frame_okb fs &&
      match c with Some c' => canonical_causeb c' | None => true end
  end.
Definition canonicalb (t : trace) : bool :=
  match t with
  | Trace exc fs c =>
      match exc with
      | Some e => exc_okb e
      | None => match fs with f :: _ => frame_first_okb f | [] => false end
      end &&
      forallb frame_okb fs &&
      match c with Some c' => canonical_causeb c' | None => true end
  end.

Lemma exc_okb_ok e : exc_okb e = true -> exc_ok e.
Proof.
  unfold exc_okb, exc_ok. intros H. apply andb_true_iff in H. destruct H as [H1 H2].
  split; [exact H1|]. destruct (parse_throwable (print_throwable e)) as [e'|]; [|discriminate H2].
  f_equal. apply throwable_eqb_eq. exact H2.
Qed.
Lemma cause_okb_ok e : cause_okb e = true -> cause_ok e.
Proof.
  unfold cause_okb, cause_ok. intros H. apply andb_true_iff in H. destruct H as [H1 H2].
  split; [apply exc_okb_ok; exact H1|].
  destruct (parse_frame (caused_by ++ print_throwable e)); [discriminate H2|reflexivity].
Qed.
Lemma frame_okb_ok f : frame_okb f = true -> frame_ok f.
Proof.
  unfold frame_okb, frame_ok. intros H. apply andb_true_iff in H. destruct H as [H1 H2].
  split; [exact H1|]. destruct (parse_frame (indent ++ print_frame f)) as [f'|]; [|discriminate H2].
  f_equal. apply frame_eqb_eq. exact H2.
Qed.
Lemma frames_okb_ok fs : forallb frame_okb fs = true -> Forall frame_ok fs.
Proof.
  rewrite forallb_forall, Forall_forall. intros H f Hf. apply frame_okb_ok. apply H. exact Hf.
Qed.
Lemma canonical_causeb_ok t : canonical_causeb t = true -> canonical_cause t.
Proof.
  induction t as [e fs|e fs c IH] using trace_ind'; cbn [canonical_causeb canonical_cause]; intros H;
    apply andb_true_iff in H; destruct H as [H H3]; apply andb_true_iff in H; destruct H as [H1 H2];
    (split; [destruct e as [e|]; [apply cause_okb_ok; exact H1|discriminate H1]|]);
    (split; [apply frames_okb_ok; exact H2|]).
  - exact I.
  - apply IH. exact H3.
Qed.
Theorem canonicalb_ok t : canonicalb t = true -> canonical t.
Proof.
  destruct t as [e fs c]. cbn [canonicalb canonical]. intros H.
  apply andb_true_iff in H. destruct H as [H H3]. apply andb_true_iff in H. destruct H as [H1 H2].
  split; [|split].
  - destruct e as [e|]; [apply exc_okb_ok; exact H1|].
    destruct fs as [|f fs]; [discriminate H1|].
    unfold frame_first_okb in H1. unfold frame_first_ok.
    destruct (parse_throwable (indent ++ print_frame f)); [discriminate H1|reflexivity].
  - apply frames_okb_ok. exact H2.
  - destruct c as [c|]; [apply canonical_causeb_ok; exact H3|exact I].
Qed.

Corollary C08_print_b rc rf t :
  canonicalb t = true -> print_trace (remap_typed rc rf t) = remap_text rc rf (print_trace t).
Proof. intros H. apply C08_print. apply canonicalb_ok. exact H. Qed.

Print Assumptions C08_print_b.

(* ================================================================================== *)
(* 3. Examples                                                                         *)
(* ================================================================================== *)
Module Examples.
Import String Ascii.

Definition b (s : string) : str := map N_of_ascii (list_ascii_of_string s).

Definition Main := b "com.example.Main".

(* class lookup knowing one class *)
Definition rc (c : str) : option str := if str_eqb c (b "a.b") then Some Main else None.
(* frame remapping expanding a.b.c into two frames (an inlined call), knowing nothing else *)
Definition rf (c m : str) (l : N) (fl : option str) : list frame :=
  if str_eqb c (b "a.b") && str_eqb m (b "c")
  then [(Main, b "inlined", Some (b "Main.java"), 20); (Main, b "run", Some (b "Main.java"), 10)]
  else [].
Definition rc0 (c : str) : option str := None.
Definition rf0 (c m : str) (l : N) (fl : option str) : list frame := [].

(* a two-level trace *)
Definition tr : trace :=
  Trace (Some (b "a.b", Some (b "Crash")))
        [(b "a.b", b "c", Some (b "SourceFile"), 3); (b "x.Y", b "z", Some (b "Y.java"), 7)]
        (Some (Trace (Some (b "q.r", None))
                     [(b "a.b", b "d", Some (b "SourceFile"), 9)]
                     None)).
(* a trace without top-level exception whose cause is mapped *)
Definition tr2 : trace :=
  Trace None [(b "a.b", b "c", Some (b "SourceFile"), 3)]
        (Some (Trace (Some (b "a.b", Some (b "inner: msg"))) [] None)).

Definition text : str := print_trace tr.

Example text_is : text = b ("a.b: Crash" ++ String "010" "    at a.b.c(SourceFile:3)" ++ String "010"
   "    at x.Y.z(Y.java:7)" ++ String "010" "Caused by: q.r" ++ String "010"
   "    at a.b.d(SourceFile:9)" ++ String "010" "").
Proof. vm_compute. reflexivity. Qed.

Example remapped_text_is : remap_text rc rf text =
  b ("com.example.Main: Crash" ++ String "010" "    at com.example.Main.inlined(Main.java:20)" ++ String "010"
     "    at com.example.Main.run(Main.java:10)" ++ String "010"
     "    at x.Y.z(Y.java:7)" ++ String "010" "Caused by: q.r" ++ String "010"
     "    at a.b.d(SourceFile:9)" ++ String "010" "").
Proof. vm_compute. reflexivity. Qed.

(* lines facts *)
Example ex_lines_join : ~ In 13 text /\ ends_with 10 text = true /\ join_lines (lines text) = text.
Proof.
  split; [|split]; [|reflexivity|vm_compute; reflexivity].
  intros H. vm_compute in H. repeat (destruct H as [H|H]; [discriminate H|]). exact H.
Qed.
Example ex_lines_crlf : lines (b ("a" ++ String "013" (String "010" "b"))) = [b "a"; b "b"].
Proof. vm_compute. reflexivity. Qed.
(* without the side conditions joining does not give the input back *)
Example ex_lines_join_needs_no_cr :
  join_lines (lines (b ("a" ++ String "013" (String "010" "")))) <> b ("a" ++ String "013" (String "010" "")).
Proof. vm_compute. discriminate. Qed.

(* C07_decomposition: the chunks of the example *)
Example ex_decomposition :
  line_outs rc rf (lines text) =
  [ b ("com.example.Main: Crash" ++ String "010" "");
    b ("    at com.example.Main.inlined(Main.java:20)" ++ String "010"
       "    at com.example.Main.run(Main.java:10)" ++ String "010" "");
    b ("    at x.Y.z(Y.java:7)" ++ String "010" "");
    b ("Caused by: q.r" ++ String "010" "");
    b ("    at a.b.d(SourceFile:9)" ++ String "010" "") ].
Proof. vm_compute. reflexivity. Qed.

(* each constructor of line_out occurs *)
Example ex_out_throwable : line_out rc rf true (b "a.b: Crash") (b ("com.example.Main: Crash" ++ String "010" "")).
Proof.
  apply (out_throwable rc rf true (b "a.b: Crash") (b "a.b", Some (b "Crash")) (Main, Some (b "Crash")));
    vm_compute; reflexivity.
Qed.
Example ex_out_cause : line_out rc rf false (b "Caused by: a.b: x") (b ("Caused by: com.example.Main: x" ++ String "010" "")).
Proof.
  apply (out_cause rc rf false (b "Caused by: a.b: x") (b "a.b: x") (b "a.b", Some (b "x")) (Main, Some (b "x")));
    vm_compute; reflexivity.
Qed.
Example ex_out_frames : line_out rc rf false (b "    at a.b.c(SourceFile:3)")
    (b ("    at com.example.Main.inlined(Main.java:20)" ++ String "010"
        "    at com.example.Main.run(Main.java:10)" ++ String "010" "")).
Proof.
  apply (out_frames rc rf false (b "    at a.b.c(SourceFile:3)") (b "a.b", b "c", Some (b "SourceFile"), 3)
           (rf (b "a.b") (b "c") 3 (Some (b "SourceFile")))); try (vm_compute; reflexivity).
  vm_compute. discriminate.
Qed.
(* a first line that is a frame: parse_throwable fails on it *)
Example ex_first_frame : first_line rc rf (b "    at a.b.c(SourceFile:3)") =
    b ("    at com.example.Main.inlined(Main.java:20)" ++ String "010"
       "    at com.example.Main.run(Main.java:10)" ++ String "010" "").
Proof. vm_compute. reflexivity. Qed.
(* a first line "Caused by: a.b" is NOT remapped (it is neither a throwable nor a frame) *)
Example ex_first_cause_verbatim : first_line rc rf (b "Caused by: a.b") = b ("Caused by: a.b" ++ String "010" "").
Proof. vm_compute. reflexivity. Qed.

(* C07_identity / C07_identity_weak: hypotheses satisfiable *)
Example ex_identity : remap_text rc0 rf0 text = text.
Proof.
  apply C07_identity_literal; try reflexivity.
  - exact (proj1 ex_lines_join).
  - right. reflexivity.
Qed.
(* the weak form applies to rc/rf (which know a.b) on a trace that does not mention a.b *)
Definition other : str := b ("x.Y: boom" ++ String "010" "    at x.Y.z(Y.java:7)" ++ String "010"
                             "Caused by: q.r" ++ String "010" "some other line" ++ String "010" "").
Example ex_identity_weak : remap_text rc rf other = join_lines (lines other).
Proof.
  apply C07_identity_weak.
  - intros l0 ls t E Ht. vm_compute in E. inversion E; subst l0 ls.
    vm_compute in Ht. inversion Ht; subst t. reflexivity.
  - intros l0 ls l rest t E Hin Hf Hs Ht. vm_compute in E. inversion E; subst l0 ls.
    repeat (destruct Hin as [Hin|Hin]; [subst l; vm_compute in Hs; try discriminate Hs|]); [|destruct Hin].
    inversion Hs; subst rest. vm_compute in Ht. inversion Ht; subst t. reflexivity.
  - intros l c m fl n Hin Hf. vm_compute in Hin.
    repeat (destruct Hin as [Hin|Hin]; [subst l; vm_compute in Hf; try discriminate Hf|]); [|destruct Hin].
    inversion Hf; subst. reflexivity.
Qed.

(* slice bounds *)
Example ex_slice :
  strip_prefix at_space (b "at a.b.c(F:1)") = Some (b "a.b.c(F:1)") /\ ends_with 41 (b "at a.b.c(F:1)") = true /\
  removelast (b "a.b.c(F:1)") = b "a.b.c(F:1".
Proof. vm_compute. repeat split. Qed.
(* the shortest line reaching the slice: "at )" gives the empty slice 3..3 *)
Example ex_slice_min : parse_frame (b "at )") = None /\ removelast [41] = [].
Proof. vm_compute. split; reflexivity. Qed.

(* C08 *)
Example ex_canonical : canonical tr.
Proof. apply canonicalb_ok. vm_compute. reflexivity. Qed.
Example ex_canonical2 : canonical tr2.
Proof. apply canonicalb_ok. vm_compute. reflexivity. Qed.

Example ex_typed : remap_typed rc rf tr =
  Trace (Some (Main, Some (b "Crash")))
        [(Main, b "inlined", Some (b "Main.java"), 20); (Main, b "run", Some (b "Main.java"), 10);
         (b "x.Y", b "z", Some (b "Y.java"), 7)]
        (Some (Trace (Some (b "q.r", None)) [(b "a.b", b "d", Some (b "SourceFile"), 9)] None)).
Proof. vm_compute. reflexivity. Qed.

Example ex_depth : depth tr = 1%nat /\ depth (remap_typed rc rf tr) = 1%nat.
Proof. split; reflexivity. Qed.
Example ex_nodes : List.length (nodes tr) = 2%nat.
Proof. reflexivity. Qed.

Example ex_print : print_trace (remap_typed rc rf tr) = remap_text rc rf (print_trace tr).
Proof. apply C08_print. exact ex_canonical. Qed.
Example ex_print2 : print_trace (remap_typed rc rf tr2) = remap_text rc rf (print_trace tr2).
Proof. apply C08_print. exact ex_canonical2. Qed.
Example ex_print2_is : print_trace (remap_typed rc rf tr2) =
  b ("    at com.example.Main.inlined(Main.java:20)" ++ String "010"
     "    at com.example.Main.run(Main.java:10)" ++ String "010"
     "Caused by: com.example.Main: inner: msg" ++ String "010" "").
Proof. vm_compute. reflexivity. Qed.

(* the hypotheses of C08_print cannot be dropped: *)
(* (a) a top level without exception and without frame: the "Caused by" line is the first line
       of the text and is not remapped by the text API, but the typed API remaps the cause *)
Definition bad_top : trace := Trace None [] (Some (Trace (Some (b "a.b", None)) [] None)).
Example ex_bad_top : print_trace (remap_typed rc rf bad_top) <> remap_text rc rf (print_trace bad_top).
Proof. vm_compute. discriminate. Qed.
(* (b) a cause without exception *)
Definition bad_cause : trace :=
  Trace (Some (b "x.Y", None)) [] (Some (Trace None [(b "a.b", b "c", Some (b "SourceFile"), 3)] None)).
Example ex_bad_cause : print_trace (remap_typed rc rf bad_cause) <> remap_text rc rf (print_trace bad_cause).
Proof. vm_compute. discriminate. Qed.
(* (c) a message containing LF whose continuation looks like a frame *)
Definition bad_nl : trace :=
  Trace (Some (b "x.Y", Some (b ("m" ++ String "010" "at a.b.c(SourceFile:3)")))) [] None.
Example ex_bad_nl : print_trace (remap_typed rc rf bad_nl) <> remap_text rc rf (print_trace bad_nl).
Proof. vm_compute. discriminate. Qed.
(* (d) a class name with a space: the throwable line does not re-parse, the text API leaves it *)
Definition rc_sp (c : str) : option str := if str_eqb c (b "a b") then Some Main else None.
Definition bad_sp : trace := Trace (Some (b "a b", None)) [] None.
Example ex_bad_sp : print_trace (remap_typed rc_sp rf bad_sp) <> remap_text rc_sp rf (print_trace bad_sp).
Proof. vm_compute. discriminate. Qed.

End Examples.
