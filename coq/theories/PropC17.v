(* PropC17.v — property C17: printing a stack trace and parsing it back is lossless. *)
From PG Require Import Base Spec Stacktrace StacktraceRoundtrip Iterative.

Theorem C17_frame_roundtrip : forall f, wf_frame f = true -> parse_frame (print_frame f) = Some f.
Proof. exact C17_frame. Qed.
Theorem C17_throwable_roundtrip : forall t, wf_throwable t = true -> parse_throwable (print_throwable t) = Some t.
Proof. exact C17_throwable. Qed.
Theorem C17_trace_roundtrip : forall t, wf_trace t = true -> parse_trace (print_trace t) = Some t.
Proof. exact C17_trace. Qed.
Theorem C17_reprint_same_text : forall t, wf_trace t = true ->
  option_map print_trace (parse_trace (print_trace t)) = Some (print_trace t).
Proof. exact C17_reprint. Qed.
(* the simple sufficient condition of the property text: class without spaces, printed line
   without surrounding whitespace *)
Theorem C17_throwable_condition : forall t,
  lacks 32 (fst t) = true -> edges_ok (print_throwable t) = true -> wf_throwable t = true.
Proof. exact wf_throwable_edges. Qed.

(* Display for StackTrace as written since fix 5c75dfb (a loop over the cause chain) prints what the
   recursive model prints *)
Theorem C17_print_loop : forall t, print_levels (levels t) = print_trace t.
Proof. exact print_iter_correct. Qed.

Check C17_frame_roundtrip : forall f, wf_frame f = true -> parse_frame (print_frame f) = Some f.
Check C17_trace_roundtrip : forall t, wf_trace t = true -> parse_trace (print_trace t) = Some t.
