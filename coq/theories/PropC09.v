(* PropC09.v — property C09: written cache files conform to the documented layout and ordering
   invariants.  Stated on the structure the writer emits (whose bytes read back to exactly this
   structure, and whose length is the one implied by the header: CacheBytesProofs). *)
From Coq Require Import Sorted.
From PG Require Import Base Mapping Spec CacheWriter CacheReader CacheStructDefs CacheBytesProofs
  Domain WriterInv CacheProofs CacheLayout Layout LayoutProofs.

Theorem C09_struct_wf : forall rs, dom32 rs = true -> sizes_ok rs = true -> struct_wf (write_struct rs) = true.
Proof. exact cache_struct_wf. Qed.

(* class entries strictly sorted by (readable) obfuscated name *)
Theorem C09_classes_sorted : forall rs, dom32 rs = true -> sizes_ok rs = true ->
  let s := write_struct rs in
  Forall (fun c => off_ok (cs_strings s) (c_obf c)) (cs_classes s) /\
  StronglySorted (fun a b => lex_cmp a b = Lt) (map (fun c => rd_name (cs_strings s) (c_obf c)) (cs_classes s)).
Proof. exact layout_classes_sorted. Qed.

(* member and by-params ranges tile their sections exactly, in class order *)
Theorem C09_ranges_tile : forall rs, dom32 rs = true -> sizes_ok rs = true ->
  let s := write_struct rs in
  CacheLayout.tiles (map (fun c => (c_moff c, c_mlen c)) (cs_classes s)) 0 (lenN (cs_members s)) /\
  CacheLayout.tiles (map (fun c => (c_poff c, c_plen c)) (cs_classes s)) 0 (lenN (cs_byparams s)).
Proof. exact layout_tiling. Qed.

(* every referenced offset is a readable string or, where absence is allowed, the sentinel *)
Theorem C09_strings_readable : forall rs, dom32 rs = true -> sizes_ok rs = true ->
  let s := write_struct rs in
  Forall (class_strings_ok (cs_strings s)) (cs_classes s) /\
  Forall (member_strings_ok (cs_strings s)) (cs_members s) /\
  Forall (member_strings_ok (cs_strings s)) (cs_byparams s).
Proof. exact layout_strings. Qed.

(* bytes: the file has the length implied by its header and reads back to the structure *)
Theorem C09_length : forall rs, dom32 rs = true -> sizes_ok rs = true ->
  let s := write_struct rs in
  lenN (ser s) = implied_length (lenN (cs_classes s)) (lenN (cs_members s)) (lenN (cs_byparams s)) (lenN (cs_strings s)).
Proof. intros rs Hd Hs s. apply ser_length. apply cache_struct_wf; assumption. Qed.

(* the independent decoder of the documented layout (Layout.v) accepts every written file *)
Theorem C09_decoder_accepts : forall rs, dom32 rs = true -> sizes_ok rs = true ->
  layout_ok (ser (write_struct rs)) = true.
Proof. exact C09_layout_ok. Qed.

(* the library's own integrity self-test (model of ProguardCache::test) accepts it *)
Theorem C09_self_test_accepts : forall rs, dom32 rs = true -> sizes_ok rs = true ->
  exists c, parse (write rs) = POk c /\ self_test c = true.
Proof. exact C09_selftest_parsed. Qed.

Check C09_decoder_accepts : forall rs, dom32 rs = true -> sizes_ok rs = true ->
  layout_ok (ser (write_struct rs)) = true.
