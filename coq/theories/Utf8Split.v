(* Utf8Split.v — UTF-8 validity of prefixes / suffixes cut at a character boundary, and of the
   results of trim and split_last_dot (used by BridgeUtf8.v). *)
From Coq Require Import Lia.
From PG Require Import Base Mapping MappingProofs StacktraceRoundtrip.

(* ------------------------------------------------------------------ *)
(* ranges                                                               *)
(* ------------------------------------------------------------------ *)
Lemma inr_true lo hi c : inr lo hi c = true <-> lo <= c /\ c <= hi.
Proof. unfold inr. rewrite andb_true_iff, !N.leb_le. reflexivity. Qed.

Lemma inr_false lo hi c : inr lo hi c = false <-> c < lo \/ hi < c.
Proof.
  unfold inr. rewrite andb_false_iff, !N.leb_gt. reflexivity.
Qed.

(* continuation bytes *)
Definition is_cont (c : N) : bool := inr 128 191 c.

Lemma inr_sub lo hi c : 128 <= lo -> hi <= 191 -> inr lo hi c = true -> is_cont c = true.
Proof. unfold is_cont. rewrite !inr_true. lia. Qed.

Lemma not_cont_iff c : is_cont c = false <-> c < 128 \/ 192 <= c.
Proof. unfold is_cont. rewrite inr_false. lia. Qed.

(* ------------------------------------------------------------------ *)
(* cutting a valid string before a byte that is not a continuation byte  *)
(* ------------------------------------------------------------------ *)
Ltac crunch H :=
  repeat match type of H with
  | (if ?b then _ else _) = true => destruct b
  | (match ?l with [] => _ | _ :: _ => _ end) = true => destruct l
  | false = true => discriminate H
  end.
Ltac split_ands :=
  repeat match goal with H : _ && _ = true |- _ => apply andb_prop in H; destruct H end.
Ltac cont_contra :=
  exfalso;
  match goal with
  | Hc : is_cont ?c = false, H : inr ?lo ?hi ?c = true |- _ =>
      apply (inr_sub lo hi c) in H; [rewrite H in Hc; discriminate Hc|lia|lia]
  end.
Ltac step IH Hc H :=
  let H1 := fresh "H1" in let H2 := fresh "H2" in
  apply andb_prop in H as [H1 H2]; rewrite H1; cbn [andb]; eapply IH; [lia|exact Hc|exact H2].

Lemma utf8_prefix_aux n : forall p c r, (length p <= n)%nat -> is_cont c = false ->
  utf8_valid (p ++ c :: r) = true -> utf8_valid p = true.
Proof.
  induction n as [|n IH]; intros p c r Hl Hc H.
  - destruct p; [reflexivity|]. cbn [length] in Hl. lia.
  - destruct p as [|b0 p0]; [reflexivity|].
    cbn [length] in Hl. cbn [app utf8_valid] in H |- *.
    destruct (b0 <? 128). { eapply IH; [lia|exact Hc|exact H]. }
    destruct p0 as [|b1 p1].
    { cbn [app] in H. crunch H; split_ands; cont_contra. }
    cbn [app length] in *.
    destruct (inr 194 223 b0). { step IH Hc H. }
    destruct p1 as [|b2 p2].
    { cbn [app] in H. crunch H; split_ands; cont_contra. }
    cbn [app length] in *.
    destruct (b0 =? 224). { step IH Hc H. }
    destruct (inr 225 236 b0 || inr 238 239 b0). { step IH Hc H. }
    destruct (b0 =? 237). { step IH Hc H. }
    destruct p2 as [|b3 p3].
    { cbn [app] in H. crunch H; split_ands; cont_contra. }
    cbn [app length] in *.
    destruct (b0 =? 240). { step IH Hc H. }
    destruct (inr 241 243 b0). { step IH Hc H. }
    destruct (b0 =? 244). { step IH Hc H. }
    discriminate H.
Qed.

(* the statement of the task: a lead byte (ASCII or >= 194; more generally any byte that is not
   a continuation byte) starts a new character *)
Theorem utf8_valid_split_nc p c r : is_cont c = false -> utf8_valid (p ++ c :: r) = true ->
  utf8_valid p = true /\ utf8_valid (c :: r) = true.
Proof.
  intros Hc H. assert (Hp : utf8_valid p = true) by (apply (utf8_prefix_aux (length p) p c r); [lia|exact Hc|exact H]).
  split; [exact Hp|]. rewrite <- (utf8_valid_app p (c :: r) Hp). exact H.
Qed.

Corollary utf8_valid_split p c r : utf8_valid (p ++ c :: r) = true -> (c < 128 \/ 194 <= c) ->
  utf8_valid p = true /\ utf8_valid (c :: r) = true.
Proof. intros H Hc. apply utf8_valid_split_nc; [apply not_cont_iff; lia|exact H]. Qed.
Print Assumptions utf8_valid_split.

(* a valid prefix can be cancelled *)
Lemma utf8_valid_suffix a b : utf8_valid a = true -> utf8_valid (a ++ b) = true -> utf8_valid b = true.
Proof. intros Ha H. rewrite <- (utf8_valid_app a b Ha). exact H. Qed.

(* ------------------------------------------------------------------ *)
(* the whitespace encodings                                             *)
(* ------------------------------------------------------------------ *)
Lemma ws1_ascii a : ws1 a = true -> a < 128.
Proof.
  unfold ws1. intros H. apply orb_prop in H as [H|H]; [apply inr_true in H; lia|apply N.eqb_eq in H; lia].
Qed.

Lemma ws1_valid a : ws1 a = true -> utf8_valid [a] = true.
Proof. intros H. apply ws1_ascii in H. cbn [utf8_valid]. apply N.ltb_lt in H. rewrite H. reflexivity. Qed.

Lemma ws2_valid a b : ws2 a b = true -> a = 194 /\ utf8_valid [a; b] = true.
Proof.
  unfold ws2. intros H. apply andb_prop in H as [Ha Hb]. apply N.eqb_eq in Ha. subst a. split; [reflexivity|].
  apply orb_prop in Hb as [Hb|Hb]; apply N.eqb_eq in Hb; subst b; reflexivity.
Qed.

Lemma utf8_e2_80 c : inr 128 191 c = true -> utf8_valid [226; 128; c] = true.
Proof.
  intros H. cbn [utf8_valid]. change (226 <? 128) with false. change (inr 194 223 226) with false.
  change (226 =? 224) with false. change (inr 225 236 226 || inr 238 239 226) with true.
  change (inr 128 191 128) with true. rewrite H. reflexivity.
Qed.

Lemma ws3_valid a b c : ws3 a b c = true -> 225 <= a /\ utf8_valid [a; b; c] = true.
Proof.
  unfold ws3. intros H.
  repeat match type of H with _ || _ = true => apply orb_prop in H as [H|H] end.
  - apply andb_prop in H as [H Hc]. apply andb_prop in H as [Ha Hb].
    apply N.eqb_eq in Ha, Hb, Hc. subst. split; [lia|reflexivity].
  - apply andb_prop in H as [H Hc]. apply andb_prop in H as [Ha Hb].
    apply N.eqb_eq in Ha, Hb. subst. split; [lia|]. apply utf8_e2_80.
    repeat match type of Hc with _ || _ = true => apply orb_prop in Hc as [Hc|Hc] end;
      try (apply N.eqb_eq in Hc; subst c; reflexivity).
    apply inr_true in Hc. apply inr_true. lia.
  - apply andb_prop in H as [H Hc]. apply andb_prop in H as [Ha Hb].
    apply N.eqb_eq in Ha, Hb, Hc. subst. split; [lia|reflexivity].
  - apply andb_prop in H as [H Hc]. apply andb_prop in H as [Ha Hb].
    apply N.eqb_eq in Ha, Hb, Hc. subst. split; [lia|reflexivity].
Qed.

(* a whitespace character: its encoding is valid and starts with a lead byte *)
Inductive ws_char : list N -> Prop :=
| Ws1 a : ws1 a = true -> ws_char [a]
| Ws2 a b : ws2 a b = true -> ws_char [a; b]
| Ws3 a b c : ws3 a b c = true -> ws_char [a; b; c].

Lemma ws_char_valid w : ws_char w -> utf8_valid w = true.
Proof.
  intros [a H|a b H|a b c H]; [apply ws1_valid; exact H|apply ws2_valid; exact H|apply ws3_valid; exact H].
Qed.

Lemma ws_char_head w : ws_char w -> exists c w', w = c :: w' /\ (c < 128 \/ 194 <= c).
Proof.
  intros [a H|a b H|a b c H].
  - exists a, []. split; [reflexivity|]. left. apply ws1_ascii. exact H.
  - exists a, [b]. split; [reflexivity|]. right. apply ws2_valid in H. lia.
  - exists a, [b; c]. split; [reflexivity|]. right. apply ws3_valid in H. lia.
Qed.

Lemma strip_ws_front_char l r : strip_ws_front l = Some r -> exists w, ws_char w /\ l = w ++ r.
Proof.
  unfold strip_ws_front. destruct l as [|a r1]; [discriminate|].
  destruct (ws1 a) eqn:E1. { intros H. injection H as ->. exists [a]. split; [apply Ws1; exact E1|reflexivity]. }
  destruct r1 as [|b r2]; [discriminate|].
  destruct (ws2 a b) eqn:E2. { intros H. injection H as ->. exists [a; b]. split; [apply Ws2; exact E2|reflexivity]. }
  destruct r2 as [|c r3]; [discriminate|].
  destruct (ws3 a b c) eqn:E3; [|discriminate].
  intros H. injection H as ->. exists [a; b; c]. split; [apply Ws3; exact E3|reflexivity].
Qed.

Lemma strip_ws_back_rev_char l r : strip_ws_back_rev l = Some r -> exists w, ws_char w /\ rev l = rev r ++ w.
Proof.
  unfold strip_ws_back_rev. destruct l as [|c r1]; [discriminate|].
  destruct (ws1 c) eqn:E1. { intros H. injection H as ->. exists [c]. split; [apply Ws1; exact E1|reflexivity]. }
  destruct r1 as [|b r2]; [discriminate|].
  destruct (ws2 b c) eqn:E2.
  { intros H. injection H as ->. exists [b; c]. split; [apply Ws2; exact E2|]. cbn [rev]. rewrite <- app_assoc. reflexivity. }
  destruct r2 as [|a r3]; [discriminate|].
  destruct (ws3 a b c) eqn:E3; [|discriminate].
  intros H. injection H as ->. exists [a; b; c]. split; [apply Ws3; exact E3|]. cbn [rev]. rewrite <- !app_assoc. reflexivity.
Qed.

(* ------------------------------------------------------------------ *)
(* trim                                                                 *)
(* ------------------------------------------------------------------ *)
Lemma utf8_trim_start_fuel f : forall l, utf8_valid l = true -> utf8_valid (trim_start_fuel f l) = true.
Proof.
  induction f as [|f IH]; intros l H; cbn [trim_start_fuel]; [exact H|].
  destruct (strip_ws_front l) as [r|] eqn:E; [|exact H].
  apply IH. destruct (strip_ws_front_char l r E) as (w & Hw & ->).
  apply (utf8_valid_suffix w r); [apply ws_char_valid; exact Hw|exact H].
Qed.

Lemma utf8_trim_start l : utf8_valid l = true -> utf8_valid (trim_start l) = true.
Proof. apply utf8_trim_start_fuel. Qed.

Lemma utf8_trim_end_rev_fuel f : forall l, utf8_valid (rev l) = true -> utf8_valid (rev (trim_end_rev_fuel f l)) = true.
Proof.
  induction f as [|f IH]; intros l H; cbn [trim_end_rev_fuel]; [exact H|].
  destruct (strip_ws_back_rev l) as [r|] eqn:E; [|exact H].
  apply IH. destruct (strip_ws_back_rev_char l r E) as (w & Hw & Hl).
  destruct (ws_char_head w Hw) as (c & w' & -> & Hc). rewrite Hl in H.
  exact (proj1 (utf8_valid_split (rev r) c w' H Hc)).
Qed.

Lemma utf8_trim_end l : utf8_valid l = true -> utf8_valid (trim_end l) = true.
Proof. intros H. unfold trim_end. apply utf8_trim_end_rev_fuel. rewrite rev_involutive. exact H. Qed.

Theorem utf8_trim l : utf8_valid l = true -> utf8_valid (trim l) = true.
Proof. intros H. unfold trim. apply utf8_trim_end, utf8_trim_start, H. Qed.
Print Assumptions utf8_trim.

(* ------------------------------------------------------------------ *)
(* split_last_dot                                                       *)
(* ------------------------------------------------------------------ *)
Lemma split_last_dot_app l : forall acc c o, split_last_dot acc l = Some (c, o) ->
  exists pre, c = acc ++ pre /\ l = pre ++ 46 :: o.
Proof.
  induction l as [|x r IH]; intros acc c o H; cbn [split_last_dot] in H; [discriminate|].
  destruct (split_last_dot (acc ++ [x]) r) as [[c' o']|] eqn:E.
  - injection H as -> ->. destruct (IH _ _ _ E) as (pre & Hc & Hr). exists (x :: pre). split.
    + rewrite Hc, <- app_assoc. reflexivity.
    + rewrite Hr. reflexivity.
  - destruct (x =? 46) eqn:Ex; [|discriminate]. injection H as -> ->. apply N.eqb_eq in Ex. subst x.
    exists []. split; [rewrite app_nil_r; reflexivity|reflexivity].
Qed.

Theorem utf8_split_last_dot l c o : split_last_dot [] l = Some (c, o) -> utf8_valid l = true ->
  utf8_valid c = true /\ utf8_valid o = true.
Proof.
  intros H Hl. destruct (split_last_dot_app l [] c o H) as (pre & Hc & ->). cbn [app] in Hc. subst pre.
  destruct (utf8_valid_split c 46 o Hl ltac:(lia)) as [Hc Ho]. split; [exact Hc|].
  cbn [utf8_valid] in Ho. change (46 <? 128) with true in Ho. exact Ho.
Qed.
Print Assumptions utf8_split_last_dot.

(* ------------------------------------------------------------------ *)
(* examples                                                             *)
(* ------------------------------------------------------------------ *)
(* U+3000, "é", U+2003, U+0085 | "é" ".", "x" | trailing NBSP and tab *)
Example utf8_trim_ex :
  let l := [227;128;128; 195;169; 226;128;131; 194;133; 120; 194;160; 9] in
  utf8_valid l = true /\ trim l = [195;169; 226;128;131; 194;133; 120].
Proof. vm_compute. split; reflexivity. Qed.

Example utf8_split_last_dot_ex :
  split_last_dot [] [195;169; 46; 226;130;172; 46; 120] = Some ([195;169; 46; 226;130;172], [120]).
Proof. vm_compute. reflexivity. Qed.

(* the side condition on c is needed: cutting inside a character loses validity *)
Example utf8_split_needs_lead : utf8_valid ([195] ++ 169 :: []) = true /\ utf8_valid [195] = false.
Proof. vm_compute. split; reflexivity. Qed.
