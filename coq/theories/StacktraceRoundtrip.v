(* StacktraceRoundtrip.v — C17: printing a stack trace and parsing it back is lossless
   (model: Stacktrace.v, of src/stacktrace.rs). *)
From Coq Require Import Lia.
From Coq Require String Ascii.
From PG Require Import Base Mapping Spec Stacktrace DecimalProofs.

(* ================================================================== *)
(** * Generic string lemmas *)

Definition lacks (c : N) (l : list N) : bool := forallb (fun x => negb (x =? c)) l.

Lemma lacks_app c a b : lacks c (a ++ b) = lacks c a && lacks c b.
Proof. apply forallb_app. Qed.

Lemma lacks_cons c x l : lacks c (x :: l) = negb (x =? c) && lacks c l.
Proof. reflexivity. Qed.

Lemma lacks_rev c l : lacks c (rev l) = lacks c l.
Proof.
  unfold lacks. induction l as [|x l IH]; [reflexivity|]. cbn [rev forallb].
  rewrite forallb_app, IH. cbn [forallb]. rewrite andb_true_r, andb_comm. reflexivity.
Qed.

Lemma contains_lacks c l : lacks c l = true -> contains c l = false.
Proof.
  unfold lacks, contains. induction l as [|x l IH]; intros H; [reflexivity|].
  cbn [forallb existsb] in *. apply andb_prop in H as [Hx Hl]. apply negb_true_iff in Hx.
  rewrite Hx, (IH Hl). reflexivity.
Qed.

Lemma str_eqb_eq a : forall b, str_eqb a b = true -> a = b.
Proof.
  induction a as [|x a IH]; intros [|y b] H; cbn [str_eqb] in H; try discriminate; [reflexivity|].
  apply andb_prop in H as [Hx Hr]. apply N.eqb_eq in Hx. subst y. f_equal. apply IH. exact Hr.
Qed.

Lemma str_eqb_refl a : str_eqb a a = true.
Proof. induction a as [|x a IH]; [reflexivity|]. cbn [str_eqb]. rewrite N.eqb_refl, IH. reflexivity. Qed.

Lemma split_once_app c a b : lacks c a = true -> split_once c (a ++ c :: b) = Some (a, b).
Proof.
  induction a as [|x a IH]; intros H; cbn [app split_once].
  - rewrite N.eqb_refl. reflexivity.
  - rewrite lacks_cons in H. apply andb_prop in H as [Hx Ha]. apply negb_true_iff in Hx. rewrite Hx.
    rewrite (IH Ha). reflexivity.
Qed.

Lemma rsplit_once_app c a b : lacks c b = true -> rsplit_once c (a ++ c :: b) = Some (a, b).
Proof.
  intros H. unfold rsplit_once.
  replace (rev (a ++ c :: b)) with (rev b ++ c :: rev a).
  2:{ rewrite rev_app_distr. cbn [rev]. rewrite <- app_assoc. reflexivity. }
  rewrite split_once_app by (rewrite lacks_rev; exact H). rewrite !rev_involutive. reflexivity.
Qed.

Lemma ends_with_app_last c l x : ends_with c (l ++ [x]) = (x =? c).
Proof.
  induction l as [|y l IH]; cbn [app ends_with]; [reflexivity|].
  destruct (l ++ [x]) eqn:E; [destruct l; discriminate|]. exact IH.
Qed.

Lemma ends_with_last c l : ends_with c (l ++ [c]) = true.
Proof. rewrite ends_with_app_last. apply N.eqb_refl. Qed.

Lemma ends_with_rev c l : ends_with c l = match rev l with [] => false | x :: _ => x =? c end.
Proof.
  destruct l as [|y l'] using rev_ind; [reflexivity|].
  rewrite ends_with_app_last, rev_unit. reflexivity.
Qed.

(* find_sub with the two-byte pattern ": " *)
Lemma find_sub_colon_space_app c : forall acc m, lacks 32 c = true ->
  find_sub colon_space acc (c ++ 58 :: 32 :: m) = Some (rev acc ++ c, m).
Proof.
  unfold colon_space.
  induction c as [|x c IH]; intros acc m H.
  - cbn [app find_sub strip_prefix]. rewrite !N.eqb_refl. rewrite app_nil_r. reflexivity.
  - rewrite lacks_cons in H. apply andb_prop in H as [Hx Hc]. apply negb_true_iff in Hx.
    cbn [app find_sub].
    assert (Hp : strip_prefix [58; 32] (x :: c ++ 58 :: 32 :: m) = None).
    { cbn [strip_prefix]. destruct (58 =? x); [|reflexivity].
      destruct c as [|y c']; cbn [app].
      - reflexivity.
      - rewrite lacks_cons in Hc. apply andb_prop in Hc as [Hy _]. apply negb_true_iff in Hy.
        rewrite N.eqb_sym, Hy. reflexivity. }
    rewrite Hp. rewrite (IH (x :: acc) m Hc). cbn [rev]. rewrite <- app_assoc. reflexivity.
Qed.

Lemma find_sub_colon_space_none c : forall acc, lacks 32 c = true -> find_sub colon_space acc c = None.
Proof.
  unfold colon_space.
  induction c as [|x c IH]; intros acc H; [reflexivity|].
  rewrite lacks_cons in H. apply andb_prop in H as [Hx Hc].
  cbn [find_sub].
  assert (Hp : strip_prefix [58; 32] (x :: c) = None).
  { cbn [strip_prefix]. destruct (58 =? x); [|reflexivity].
    destruct c as [|y c']; [reflexivity|].
    rewrite lacks_cons in Hc. apply andb_prop in Hc as [Hy _]. apply negb_true_iff in Hy.
    rewrite N.eqb_sym, Hy. reflexivity. }
  rewrite Hp. apply IH. exact Hc.
Qed.

Lemma find_sub_acc pat l : forall acc a b, find_sub pat acc l = Some (a, b) -> exists x, a = rev acc ++ x.
Proof.
  induction l as [|c l IH]; intros acc a b H; cbn [find_sub] in H.
  - destruct (strip_prefix pat []); [|discriminate]. inversion H; subst. exists []. rewrite app_nil_r. reflexivity.
  - destruct (strip_prefix pat (c :: l)).
    + inversion H; subst. exists []. rewrite app_nil_r. reflexivity.
    + apply IH in H. destruct H as [x Hx]. exists (c :: x). rewrite Hx. cbn [rev]. rewrite <- app_assoc. reflexivity.
Qed.

(* ================================================================== *)
(** * trim *)

Lemma trim_start_fuel_none f l : strip_ws_front l = None -> trim_start_fuel f l = l.
Proof. intros H. destruct f; cbn [trim_start_fuel]; [reflexivity|]. rewrite H. reflexivity. Qed.

Lemma trim_end_rev_fuel_none f l : strip_ws_back_rev l = None -> trim_end_rev_fuel f l = l.
Proof. intros H. destruct f; cbn [trim_end_rev_fuel]; [reflexivity|]. rewrite H. reflexivity. Qed.

(* a string on which no whitespace character can be stripped at either end is fixed by trim *)
Lemma trim_fixed l : strip_ws_front l = None -> strip_ws_back_rev (rev l) = None -> trim l = l.
Proof.
  intros Hf Hb. unfold trim, trim_start. rewrite (trim_start_fuel_none _ _ Hf).
  unfold trim_end. rewrite (trim_end_rev_fuel_none _ _ Hb). apply rev_involutive.
Qed.

Lemma trim_start_32 l : trim_start (32 :: l) = trim_start l.
Proof. reflexivity. Qed.

Lemma trim_32 l : trim (32 :: l) = trim l.
Proof. unfold trim. rewrite trim_start_32. reflexivity. Qed.

Lemma trim_indent l : trim (indent ++ l) = trim l.
Proof. unfold indent. cbn [app]. rewrite !trim_32. reflexivity. Qed.

Definition ascii_nonws (x : N) : bool := (x <? 128) && negb (ws1 x).

Lemma strip_ws_front_ascii x l : ascii_nonws x = true -> strip_ws_front (x :: l) = None.
Proof.
  unfold ascii_nonws. intros H. apply andb_prop in H as [Hx Hw]. apply negb_true_iff in Hw.
  apply N.ltb_lt in Hx. unfold strip_ws_front. rewrite Hw.
  assert (H1 : x =? 194 = false) by (apply N.eqb_neq; lia).
  assert (H2 : x =? 225 = false) by (apply N.eqb_neq; lia).
  assert (H3 : x =? 226 = false) by (apply N.eqb_neq; lia).
  assert (H4 : x =? 227 = false) by (apply N.eqb_neq; lia).
  destruct l as [|b [|c r]]; try reflexivity; unfold ws2, ws3; rewrite ?H1, ?H2, ?H3, ?H4; reflexivity.
Qed.

Lemma strip_ws_back_ascii x l : ascii_nonws x = true -> strip_ws_back_rev (x :: l) = None.
Proof.
  unfold ascii_nonws. intros H. apply andb_prop in H as [Hx Hw]. apply negb_true_iff in Hw.
  apply N.ltb_lt in Hx. unfold strip_ws_back_rev. rewrite Hw.
  assert (H1 : x =? 133 = false) by (apply N.eqb_neq; lia).
  assert (H2 : x =? 160 = false) by (apply N.eqb_neq; lia).
  assert (H3 : x =? 128 = false) by (apply N.eqb_neq; lia).
  assert (H4 : x =? 159 = false) by (apply N.eqb_neq; lia).
  assert (H5 : x =? 168 = false) by (apply N.eqb_neq; lia).
  assert (H6 : x =? 169 = false) by (apply N.eqb_neq; lia).
  assert (H7 : x =? 175 = false) by (apply N.eqb_neq; lia).
  assert (H8 : inr 128 138 x = false).
  { unfold inr. replace (128 <=? x) with false by (symmetry; apply N.leb_gt; lia). reflexivity. }
  destruct l as [|b [|a r]]; try reflexivity; unfold ws2, ws3;
    rewrite ?H1, ?H2, ?H3, ?H4, ?H5, ?H6, ?H7, ?H8; cbn [orb]; rewrite ?andb_false_r; reflexivity.
Qed.

(* sufficient condition for [trim l = l]: first and last byte are non-whitespace ASCII *)
Definition edges_ok (l : list N) : bool :=
  match l with [] => true | x :: _ => ascii_nonws x end &&
  match rev l with [] => true | y :: _ => ascii_nonws y end.

Lemma edges_ok_trim l : edges_ok l = true -> trim l = l.
Proof.
  unfold edges_ok. intros H. apply andb_prop in H as [Hf Hb].
  destruct l as [|x l']; [reflexivity|].
  apply trim_fixed.
  - apply strip_ws_front_ascii. exact Hf.
  - destruct (rev (x :: l')) as [|y r] eqn:E.
    + apply (f_equal (@length N)) in E. rewrite rev_length in E. discriminate.
    + apply strip_ws_back_ascii. exact Hb.
Qed.

(* trim_start returns a suffix, trim_end a prefix *)
Lemma strip_ws_front_suffix l r : strip_ws_front l = Some r -> exists s, l = s ++ r.
Proof.
  unfold strip_ws_front. destruct l as [|a r1]; [discriminate|].
  destruct (ws1 a). { intros H; inversion H; subst. exists [a]. reflexivity. }
  destruct r1 as [|b r2]; [discriminate|].
  destruct (ws2 a b). { intros H; inversion H; subst. exists [a; b]. reflexivity. }
  destruct r2 as [|c r3]; [discriminate|].
  destruct (ws3 a b c); [|discriminate]. intros H; inversion H; subst. exists [a; b; c]. reflexivity.
Qed.

Lemma strip_ws_back_rev_suffix l r : strip_ws_back_rev l = Some r -> exists s, l = s ++ r.
Proof.
  unfold strip_ws_back_rev. destruct l as [|c r1]; [discriminate|].
  destruct (ws1 c). { intros H; inversion H; subst. exists [c]. reflexivity. }
  destruct r1 as [|b r2]; [discriminate|].
  destruct (ws2 b c). { intros H; inversion H; subst. exists [c; b]. reflexivity. }
  destruct r2 as [|a r3]; [discriminate|].
  destruct (ws3 a b c); [|discriminate]. intros H; inversion H; subst. exists [c; b; a]. reflexivity.
Qed.

Lemma trim_start_fuel_suffix f : forall l, exists s, l = s ++ trim_start_fuel f l.
Proof.
  induction f as [|f IH]; intros l; cbn [trim_start_fuel]; [exists []; reflexivity|].
  destruct (strip_ws_front l) as [r|] eqn:E; [|exists []; reflexivity].
  apply strip_ws_front_suffix in E. destruct E as [s Hs]. destruct (IH r) as [s' Hs'].
  exists (s ++ s'). rewrite <- app_assoc, <- Hs'. exact Hs.
Qed.

Lemma trim_end_rev_fuel_suffix f : forall l, exists s, l = s ++ trim_end_rev_fuel f l.
Proof.
  induction f as [|f IH]; intros l; cbn [trim_end_rev_fuel]; [exists []; reflexivity|].
  destruct (strip_ws_back_rev l) as [r|] eqn:E; [|exists []; reflexivity].
  apply strip_ws_back_rev_suffix in E. destruct E as [s Hs]. destruct (IH r) as [s' Hs'].
  exists (s ++ s'). rewrite <- app_assoc, <- Hs'. exact Hs.
Qed.

Lemma trim_start_suffix l : exists s, l = s ++ trim_start l.
Proof. apply trim_start_fuel_suffix. Qed.

Lemma trim_end_prefix l : exists s, l = trim_end l ++ s.
Proof.
  unfold trim_end. destruct (trim_end_rev_fuel_suffix (length l) (rev l)) as [s Hs].
  exists (rev s). rewrite <- rev_app_distr, <- Hs. symmetry. apply rev_involutive.
Qed.

(* a fixed point of trim does not end with CR (nor any other whitespace) *)
Lemma trim_id_parts l : trim l = l -> trim_start l = l /\ trim_end l = l.
Proof.
  intros H. destruct (trim_start_suffix l) as [s Hs]. destruct (trim_end_prefix (trim_start l)) as [s' Hs'].
  unfold trim in H. rewrite H in Hs'.
  assert (Hl : (length s = 0 /\ length s' = 0)%nat).
  { pose proof (f_equal (@length N) Hs) as L1. pose proof (f_equal (@length N) Hs') as L2.
    rewrite app_length in L1, L2. lia. }
  destruct Hl as [L1 L2]. destruct s; [|discriminate]. destruct s'; [|discriminate].
  rewrite app_nil_r in Hs'. split; [exact Hs'|]. rewrite Hs' in H. exact H.
Qed.

Lemma trim_id_no_cr l : trim l = l -> ends_with 13 l = false.
Proof.
  intros H. apply trim_id_parts in H as [_ H].
  rewrite ends_with_rev. destruct (rev l) as [|x r] eqn:Er; [reflexivity|].
  destruct (x =? 13) eqn:Ex; [|reflexivity]. exfalso.
  apply N.eqb_eq in Ex. subst x. unfold trim_end in H. rewrite Er in H.
  assert (Hlen : length l = S (length r)).
  { rewrite <- (rev_length l), Er. reflexivity. }
  rewrite Hlen in H. cbn [trim_end_rev_fuel] in H.
  change (strip_ws_back_rev (13 :: r)) with (Some r) in H.
  destruct (trim_end_rev_fuel_suffix (length r) r) as [s2 Hs2].
  apply (f_equal (@length N)) in H. rewrite rev_length in H.
  apply (f_equal (@length N)) in Hs2. rewrite app_length in Hs2. lia.
Qed.

(* ================================================================== *)
(** * lines *)

Lemma lines_nil : lines [] = [].
Proof. reflexivity. Qed.

Lemma split_nl_app l : forall cur rest, lacks 10 l = true ->
  split_nl cur (l ++ 10 :: rest) = rev (strip_cr_rev (rev l ++ cur)) :: split_nl [] rest.
Proof.
  induction l as [|x l IH]; intros cur rest H.
  - cbn [app split_nl rev]. rewrite N.eqb_refl. reflexivity.
  - rewrite lacks_cons in H. apply andb_prop in H as [Hx Hl]. apply negb_true_iff in Hx.
    cbn [app split_nl]. rewrite Hx. rewrite (IH _ _ Hl). cbn [rev]. rewrite <- app_assoc. reflexivity.
Qed.

Lemma strip_cr_rev_no_cr l : ends_with 13 l = false -> strip_cr_rev (rev l) = rev l.
Proof.
  rewrite ends_with_rev. destruct (rev l) as [|x r]; [reflexivity|]. intros H.
  cbn [strip_cr_rev]. rewrite H. reflexivity.
Qed.

Theorem lines_app l rest : lacks 10 l = true -> ends_with 13 l = false ->
  lines (l ++ [10] ++ rest) = l :: lines rest.
Proof.
  intros Hl Hc. unfold lines. cbn [app]. rewrite (split_nl_app _ _ _ Hl). rewrite app_nil_r.
  rewrite (strip_cr_rev_no_cr _ Hc), rev_involutive. reflexivity.
Qed.

(* ================================================================== *)
(** * UTF-8 validity of concatenations *)

Lemma utf8_valid_app_aux n : forall a b, (length a <= n)%nat -> utf8_valid a = true ->
  utf8_valid (a ++ b) = utf8_valid b.
Proof.
  induction n as [|n IH]; intros a b Hl Ha.
  - destruct a; [reflexivity|]. cbn [length] in Hl. lia.
  - destruct a as [|b0 r0]; [reflexivity|].
    cbn [length] in Hl. cbn [app utf8_valid] in *.
    destruct (b0 <? 128). { apply IH; [lia|exact Ha]. }
    destruct r0 as [|b1 r1]; [discriminate|]. cbn [app length] in *.
    destruct (inr 194 223 b0).
    { apply andb_prop in Ha as [H1 H2]. rewrite H1. cbn [andb]. apply IH; [lia|exact H2]. }
    destruct r1 as [|b2 r2]; [discriminate|]. cbn [app length] in *.
    destruct (b0 =? 224).
    { apply andb_prop in Ha as [H1 H2]. rewrite H1. cbn [andb]. apply IH; [lia|exact H2]. }
    destruct (inr 225 236 b0 || inr 238 239 b0).
    { apply andb_prop in Ha as [H1 H2]. rewrite H1. cbn [andb]. apply IH; [lia|exact H2]. }
    destruct (b0 =? 237).
    { apply andb_prop in Ha as [H1 H2]. rewrite H1. cbn [andb]. apply IH; [lia|exact H2]. }
    destruct r2 as [|b3 r3]; [discriminate|]. cbn [app length] in *.
    destruct (b0 =? 240).
    { apply andb_prop in Ha as [H1 H2]. rewrite H1. cbn [andb]. apply IH; [lia|exact H2]. }
    destruct (inr 241 243 b0).
    { apply andb_prop in Ha as [H1 H2]. rewrite H1. cbn [andb]. apply IH; [lia|exact H2]. }
    destruct (b0 =? 244).
    { apply andb_prop in Ha as [H1 H2]. rewrite H1. cbn [andb]. apply IH; [lia|exact H2]. }
    discriminate.
Qed.

Theorem utf8_valid_app a b : utf8_valid a = true -> utf8_valid (a ++ b) = utf8_valid b.
Proof. apply (utf8_valid_app_aux (length a)). lia. Qed.

Corollary utf8_valid_app_true a b : utf8_valid a = true -> utf8_valid b = true -> utf8_valid (a ++ b) = true.
Proof. intros Ha Hb. rewrite (utf8_valid_app _ _ Ha). exact Hb. Qed.

Lemma utf8_valid_ascii l : forallb (fun x => x <? 128) l = true -> utf8_valid l = true.
Proof.
  induction l as [|x l IH]; intros H; [reflexivity|].
  cbn [forallb] in H. apply andb_prop in H as [Hx Hl]. cbn [utf8_valid]. rewrite Hx. apply IH. exact Hl.
Qed.

Lemma digits_ascii l : forallb is_digit l = true -> forallb (fun x => x <? 128) l = true.
Proof.
  induction l as [|x l IH]; intros H; [reflexivity|].
  cbn [forallb] in *. apply andb_prop in H as [Hx Hl]. rewrite (IH Hl), andb_true_r.
  apply is_digit_range in Hx. apply N.ltb_lt. lia.
Qed.

Lemma digits_lacks c l : is_digit c = false -> forallb is_digit l = true -> lacks c l = true.
Proof.
  intros Hc. induction l as [|x l IH]; intros H; [reflexivity|].
  cbn [forallb] in H. apply andb_prop in H as [Hx Hl]. rewrite lacks_cons, (IH Hl), andb_true_r.
  apply negb_true_iff. apply N.eqb_neq. intros ->. congruence.
Qed.

(* ================================================================== *)
(** * Frames *)

(* Necessary and sufficient for a single frame (see the counterexamples at the end). *)
Definition wf_frame (f : frame) : bool :=
  let '(c, m, fl, n) := f in
  match fl with
  | Some fi => lacks 40 c && lacks 40 m && lacks 46 m && lacks 58 fi && (n <? U64)
  | None => false
  end.

Lemma print_frame_shape c m fi n :
  print_frame (c, m, Some fi, n) = 97 :: 116 :: 32 :: ((c ++ 46 :: m) ++ 40 :: (fi ++ 58 :: print_dec n)) ++ [41].
Proof.
  unfold print_frame, at_space. cbn [app]. rewrite <- !app_assoc. cbn [app]. rewrite <- !app_assoc. reflexivity.
Qed.

Lemma trim_at_paren body : trim (97 :: 116 :: 32 :: body ++ [41]) = 97 :: 116 :: 32 :: body ++ [41].
Proof.
  apply trim_fixed; [reflexivity|].
  change (97 :: 116 :: 32 :: body ++ [41]) with ((97 :: 116 :: 32 :: body) ++ [41]).
  rewrite rev_unit. apply strip_ws_back_ascii. reflexivity.
Qed.

Lemma parse_frame_shape c m fi n : wf_frame (c, m, Some fi, n) = true ->
  parse_frame (97 :: 116 :: 32 :: ((c ++ 46 :: m) ++ 40 :: (fi ++ 58 :: print_dec n)) ++ [41])
  = Some (c, m, Some fi, n).
Proof.
  unfold wf_frame. intros H.
  apply andb_prop in H as [H Hn]. apply andb_prop in H as [H Hf]. apply andb_prop in H as [H Hmd].
  apply andb_prop in H as [Hc Hm]. apply N.ltb_lt in Hn.
  unfold parse_frame. cbv zeta. rewrite trim_at_paren.
  unfold at_space. cbn [strip_prefix]. rewrite !N.eqb_refl.
  set (body := (c ++ 46 :: m) ++ 40 :: fi ++ 58 :: print_dec n).
  change (97 :: 116 :: 32 :: body ++ [41]) with ((97 :: 116 :: 32 :: body) ++ [41]).
  rewrite ends_with_last. cbn [negb]. rewrite removelast_last.
  unfold body.
  rewrite split_once_app.
  2:{ rewrite lacks_app, lacks_cons, Hc, Hm. reflexivity. }
  rewrite rsplit_once_app by exact Hmd.
  rewrite split_once_app by exact Hf.
  rewrite (parse_print_dec n Hn). reflexivity.
Qed.

Theorem C17_frame f : wf_frame f = true -> parse_frame (print_frame f) = Some f.
Proof.
  destruct f as [[[c m] [fi|]] n]; intros H; [|discriminate H].
  rewrite print_frame_shape. apply parse_frame_shape. exact H.
Qed.
Print Assumptions C17_frame.

Lemma parse_frame_indent l : parse_frame (indent ++ l) = parse_frame l.
Proof. unfold parse_frame. cbv zeta. rewrite trim_indent. reflexivity. Qed.

Theorem C17_frame_indent f : wf_frame f = true -> parse_frame (indent ++ print_frame f) = Some f.
Proof. intros H. rewrite parse_frame_indent. apply C17_frame. exact H. Qed.
Print Assumptions C17_frame_indent.

Example C17_frame_ex :
  let f := ([195;169;46;70;111;111;36;49], [60;105;110;105;116;62], Some [70;32;40;120;41;46;106;97;118;97], MAX64) in
  wf_frame f = true /\ parse_frame (indent ++ print_frame f) = Some f.
Proof. vm_compute. split; reflexivity. Qed.

(* the printed frame line is never taken for a throwable *)
Lemma parse_throwable_at l : parse_throwable (97 :: 116 :: 32 :: l ++ [41]) = None.
Proof.
  unfold parse_throwable. rewrite trim_at_paren.
  change (find_sub colon_space [] (97 :: 116 :: 32 :: l ++ [41]))
    with (find_sub colon_space [32; 116; 97] (l ++ [41])).
  destruct (find_sub colon_space [32; 116; 97] (l ++ [41])) as [[a b]|] eqn:E.
  - apply find_sub_acc in E. destruct E as [x Hx]. subst a. reflexivity.
  - reflexivity.
Qed.

Lemma parse_throwable_indent l : parse_throwable (indent ++ l) = parse_throwable l.
Proof. unfold parse_throwable. rewrite trim_indent. reflexivity. Qed.

Lemma parse_throwable_frame_line c m fi n :
  parse_throwable (indent ++ print_frame (c, m, Some fi, n)) = None.
Proof. rewrite parse_throwable_indent, print_frame_shape. apply parse_throwable_at. Qed.

(* ================================================================== *)
(** * Throwables *)

(* the class has no space, and the printed line is a fixed point of trim
   (no leading / trailing Unicode whitespace; see [edges_ok_trim] for a simple sufficient condition).
   The class may be empty; the message may contain ": ", "Caused by: ", frame-like text. *)
Definition wf_throwable (t : throwable) : bool :=
  lacks 32 (fst t) && str_eqb (trim (print_throwable t)) (print_throwable t).

Theorem C17_throwable t : wf_throwable t = true -> parse_throwable (print_throwable t) = Some t.
Proof.
  unfold wf_throwable. intros H. apply andb_prop in H as [Hc Ht]. apply str_eqb_eq in Ht.
  unfold parse_throwable. rewrite Ht.
  destruct t as [c [m|]]; unfold print_throwable; cbn [fst snd] in *.
  - unfold colon_space at 2. cbn [app]. rewrite (find_sub_colon_space_app c [] m Hc). cbn [rev app].
    rewrite (contains_lacks _ _ Hc). reflexivity.
  - rewrite (find_sub_colon_space_none c [] Hc). rewrite (contains_lacks _ _ Hc). reflexivity.
Qed.
Print Assumptions C17_throwable.

Example C17_throwable_ex :
  let t := ([195;169;46;69], Some [97;58;32;67;97;117;115;101;100;32;98;121;58;32;97;116;32;120;46;121;40;122;58;49;41]) in
  wf_throwable t = true /\ parse_throwable (print_throwable t) = Some t.
Proof. vm_compute. split; reflexivity. Qed.

(* ================================================================== *)
(** * Whole traces *)

(* induction principle with a hypothesis for the nested cause *)
Fixpoint trace_ind' (P : trace -> Prop)
  (H0 : forall e fs, P (Trace e fs None))
  (H1 : forall e fs c, P c -> P (Trace e fs (Some c))) (t : trace) : P t :=
  match t with
  | Trace e fs None => H0 e fs
  | Trace e fs (Some c) => H1 e fs c (trace_ind' P H0 H1 c)
  end.

(* trace-level conditions on the components: no LF (CR is allowed: [lines] only strips a CR that
   directly precedes an LF, and no printed line ends with CR), valid UTF-8 *)
Definition wf_frame_t (f : frame) : bool :=
  wf_frame f &&
  let '(c, m, fl, _) := f in
  lacks 10 c && lacks 10 m && utf8_valid c && utf8_valid m &&
  match fl with Some fi => lacks 10 fi && utf8_valid fi | None => true end.

Definition wf_throwable_t (t : throwable) : bool :=
  wf_throwable t && lacks 10 (fst t) && utf8_valid (fst t) &&
  match snd t with Some m => lacks 10 m && utf8_valid m | None => true end.

Definition has_exc (t : trace) : bool := match t with Trace (Some _) _ _ => true | _ => false end.
Definition has_frames (t : trace) : bool := match t with Trace _ (_ :: _) _ => true | _ => false end.

Fixpoint wf_rec (t : trace) : bool :=
  match t with
  | Trace exc fs cause =>
      match exc with Some e => wf_throwable_t e | None => true end
      && forallb wf_frame_t fs
      && match cause with Some c => has_exc c && wf_rec c | None => true end
  end.

Definition wf_trace (t : trace) : bool := wf_rec t && (has_exc t || has_frames t).

(* ---------- the printed lines ---------- *)
Definition frame_line (f : frame) : str := indent ++ print_frame f.

Lemma wf_frame_t_some f : wf_frame_t f = true ->
  exists c m fi n, f = (c, m, Some fi, n) /\ wf_frame f = true /\
    lacks 10 c = true /\ lacks 10 m = true /\ lacks 10 fi = true /\
    utf8_valid c = true /\ utf8_valid m = true /\ utf8_valid fi = true /\ n < U64.
Proof.
  unfold wf_frame_t. destruct f as [[[c m] [fi|]] n]; intros H; apply andb_prop in H as [Hw H]; [|discriminate Hw].
  exists c, m, fi, n.
  apply andb_prop in H as [H H5]. apply andb_prop in H as [H H4]. apply andb_prop in H as [H H3].
  apply andb_prop in H as [H1 H2]. apply andb_prop in H5 as [H5 H6].
  assert (Hn : n < U64).
  { unfold wf_frame in Hw. apply andb_prop in Hw as [_ Hn]. apply N.ltb_lt. exact Hn. }
  repeat split; assumption.
Qed.

Lemma frame_line_facts f : wf_frame_t f = true ->
  lacks 10 (frame_line f) = true /\ ends_with 13 (frame_line f) = false /\ utf8_valid (frame_line f) = true.
Proof.
  intros H. destruct (wf_frame_t_some f H) as (c & m & fi & n & -> & Hw & Hc & Hm & Hf & Uc & Um & Uf & Hn).
  pose proof (print_dec_digits n Hn) as Hd.
  unfold frame_line. repeat split.
  - unfold print_frame. rewrite !lacks_app. rewrite Hc, Hm, Hf.
    rewrite (digits_lacks 10 (print_dec n) eq_refl Hd). reflexivity.
  - unfold print_frame. rewrite !app_assoc. rewrite ends_with_app_last. reflexivity.
  - unfold print_frame.
    rewrite (utf8_valid_app indent) by reflexivity.
    rewrite (utf8_valid_app at_space) by reflexivity.
    rewrite (utf8_valid_app c) by exact Uc.
    rewrite (utf8_valid_app [46]) by reflexivity.
    rewrite (utf8_valid_app m) by exact Um.
    rewrite (utf8_valid_app [40]) by reflexivity.
    rewrite (utf8_valid_app fi) by exact Uf.
    rewrite (utf8_valid_app [58]) by reflexivity.
    rewrite (utf8_valid_app (print_dec n)) by (apply utf8_valid_ascii, digits_ascii, Hd).
    reflexivity.
Qed.

Lemma wf_throwable_t_facts e : wf_throwable_t e = true ->
  wf_throwable e = true /\ lacks 10 (print_throwable e) = true /\ ends_with 13 (print_throwable e) = false /\
  utf8_valid (print_throwable e) = true.
Proof.
  unfold wf_throwable_t. intros H.
  apply andb_prop in H as [H Hm]. apply andb_prop in H as [H Uc]. apply andb_prop in H as [Hw Lc].
  split; [exact Hw|]. split; [|split].
  - destruct e as [c [m|]]; unfold print_throwable; cbn [fst snd] in *; [|exact Lc].
    apply andb_prop in Hm as [Lm _]. rewrite !lacks_app, Lc, Lm. reflexivity.
  - apply trim_id_no_cr. unfold wf_throwable in Hw. apply andb_prop in Hw as [_ Ht].
    apply str_eqb_eq. exact Ht.
  - destruct e as [c [m|]]; unfold print_throwable; cbn [fst snd] in *; [|exact Uc].
    apply andb_prop in Hm as [_ Um].
    rewrite (utf8_valid_app c) by exact Uc. rewrite (utf8_valid_app colon_space) by reflexivity. exact Um.
Qed.

Lemma ends_with_app c a b : b <> [] -> ends_with c (a ++ b) = ends_with c b.
Proof.
  intros Hb. induction a as [|x a IH]; [reflexivity|]. cbn [app ends_with].
  destruct (a ++ b) eqn:E; [|exact IH]. destruct a; [|discriminate]. cbn [app] in E. congruence.
Qed.

Lemma cause_line_facts e : wf_throwable_t e = true ->
  lacks 10 (caused_by ++ print_throwable e) = true /\ ends_with 13 (caused_by ++ print_throwable e) = false /\
  utf8_valid (caused_by ++ print_throwable e) = true.
Proof.
  intros H. destruct (wf_throwable_t_facts e H) as (_ & L & E & U). repeat split.
  - rewrite lacks_app, L. reflexivity.
  - destruct (print_throwable e) as [|x r] eqn:Ep.
    + reflexivity.
    + rewrite ends_with_app by discriminate. exact E.
  - rewrite (utf8_valid_app caused_by) by reflexivity. exact U.
Qed.

(* ---------- the text after the first throwable line ---------- *)
Definition frames_text (fs : list frame) : str := flat_map (fun f => indent ++ print_frame f ++ [10]) fs.
Definition cause_text (c : option trace) : str :=
  match c with Some c => caused_by ++ print_trace c | None => [] end.
Definition body_text (fs : list frame) (c : option trace) : str := frames_text fs ++ cause_text c.

Lemma print_trace_eq exc fs cause :
  print_trace (Trace exc fs cause) =
  (match exc with Some e => print_throwable e ++ [10] | None => [] end) ++ body_text fs cause.
Proof. reflexivity. Qed.

Lemma body_text_cons f fs cause : body_text (f :: fs) cause = frame_line f ++ [10] ++ body_text fs cause.
Proof.
  unfold body_text, frames_text, frame_line. cbn [flat_map]. rewrite <- !app_assoc. reflexivity.
Qed.

Lemma body_text_cause e fs c :
  body_text [] (Some (Trace (Some e) fs c)) = (caused_by ++ print_throwable e) ++ [10] ++ body_text fs c.
Proof.
  unfold body_text at 1. unfold frames_text, cause_text. cbn [flat_map].
  rewrite print_trace_eq. rewrite <- !app_assoc. reflexivity.
Qed.

(* ---------- classification of the later lines ---------- *)
Lemma parse_frame_C l : parse_frame (67 :: l) = None.
Proof.
  unfold parse_frame. cbv zeta. unfold trim, trim_start.
  rewrite trim_start_fuel_none by (apply strip_ws_front_ascii; reflexivity).
  destruct (trim_end_prefix (67 :: l)) as [s Hs].
  destruct (trim_end (67 :: l)) as [|x p]; [reflexivity|].
  cbn [app] in Hs. injection Hs as Hx _. subst x. reflexivity.
Qed.

Lemma strip_prefix_same pre x : strip_prefix pre (pre ++ x) = Some x.
Proof. induction pre as [|p pre IH]; [reflexivity|]. cbn [app strip_prefix]. rewrite N.eqb_refl. exact IH. Qed.

Lemma parse_body_frame l rest f fs c :
  parse_frame l = Some f -> parse_body rest = (fs, c) -> parse_body (l :: rest) = (f :: fs, c).
Proof. intros Hl Hr. cbn [parse_body]. rewrite Hl, Hr. reflexivity. Qed.

Lemma parse_body_cause e rest fs c : wf_throwable e = true ->
  parse_body rest = (fs, c) ->
  parse_body ((caused_by ++ print_throwable e) :: rest) = ([], Some (Trace (Some e) fs c)).
Proof.
  intros He Hr. cbn [parse_body].
  assert (Hf : parse_frame (caused_by ++ print_throwable e) = None).
  { unfold caused_by. cbn [app]. apply parse_frame_C. }
  rewrite Hf, strip_prefix_same, Hr, (C17_throwable e He). reflexivity.
Qed.

Lemma parse_body_frames cause : forall fs, forallb wf_frame_t fs = true ->
  parse_body (lines (body_text [] cause)) = ([], cause) ->
  parse_body (lines (body_text fs cause)) = (fs, cause).
Proof.
  intros fs Hfs Hbase. induction fs as [|f fs IH]; [exact Hbase|].
  cbn [forallb] in Hfs. apply andb_prop in Hfs as [Hf Hfs].
  destruct (frame_line_facts f Hf) as (L & E & _).
  rewrite body_text_cons, (lines_app _ _ L E).
  apply parse_body_frame; [|apply IH; exact Hfs].
  unfold frame_line. apply C17_frame_indent.
  unfold wf_frame_t in Hf. apply andb_prop in Hf as [Hw _]. exact Hw.
Qed.

Lemma parse_body_rec t : wf_rec t = true ->
  match t with Trace _ fs cause => parse_body (lines (body_text fs cause)) = (fs, cause) end.
Proof.
  induction t as [exc fs|exc fs c IH] using trace_ind'; intros H; cbn [wf_rec] in H;
    apply andb_prop in H as [H Hc]; apply andb_prop in H as [_ Hfs].
  - apply parse_body_frames; [exact Hfs|]. reflexivity.
  - apply andb_prop in Hc as [Hex Hc]. specialize (IH Hc).
    apply parse_body_frames; [exact Hfs|].
    destruct c as [[e|] fs' c']; [|discriminate Hex].
    cbn [wf_rec] in Hc. apply andb_prop in Hc as [Hc _]. apply andb_prop in Hc as [He _].
    destruct (cause_line_facts e He) as (L & E & _).
    rewrite body_text_cause, (lines_app _ _ L E).
    apply parse_body_cause; [|exact IH].
    apply (wf_throwable_t_facts e He).
Qed.

(* ---------- UTF-8 validity of the printed text ---------- *)
Lemma utf8_frames_text fs rest : forallb wf_frame_t fs = true ->
  utf8_valid (frames_text fs ++ rest) = utf8_valid rest.
Proof.
  induction fs as [|f fs IH]; intros H; [reflexivity|].
  cbn [forallb] in H. apply andb_prop in H as [Hf Hfs].
  destruct (frame_line_facts f Hf) as (_ & _ & U).
  unfold frames_text. cbn [flat_map]. fold (frames_text fs).
  rewrite <- !app_assoc. rewrite app_assoc. fold (frame_line f).
  rewrite (utf8_valid_app (frame_line f)) by exact U.
  rewrite (utf8_valid_app [10]) by reflexivity. apply IH. exact Hfs.
Qed.

Lemma utf8_print_trace t : wf_rec t = true -> utf8_valid (print_trace t) = true.
Proof.
  induction t as [exc fs|exc fs c IH] using trace_ind'; intros H; cbn [wf_rec] in H;
    apply andb_prop in H as [H Hc]; apply andb_prop in H as [He Hfs];
    rewrite print_trace_eq; unfold body_text.
  - assert (U : utf8_valid (match exc with Some e => print_throwable e ++ [10] | None => [] end) = true).
    { destruct exc as [e|]; [|reflexivity]. destruct (wf_throwable_t_facts e He) as (_ & _ & _ & U).
      rewrite (utf8_valid_app _ _ U). reflexivity. }
    rewrite (utf8_valid_app _ _ U). rewrite (utf8_frames_text _ _ Hfs). reflexivity.
  - assert (U : utf8_valid (match exc with Some e => print_throwable e ++ [10] | None => [] end) = true).
    { destruct exc as [e|]; [|reflexivity]. destruct (wf_throwable_t_facts e He) as (_ & _ & _ & U).
      rewrite (utf8_valid_app _ _ U). reflexivity. }
    rewrite (utf8_valid_app _ _ U). rewrite (utf8_frames_text _ _ Hfs).
    apply andb_prop in Hc as [_ Hc]. unfold cause_text.
    rewrite (utf8_valid_app caused_by) by reflexivity. apply IH. exact Hc.
Qed.

(* ---------- the first line ---------- *)
Lemma parse_trace_lines_exc l r e fs c :
  parse_throwable l = Some e -> parse_body r = (fs, c) ->
  parse_trace_lines (l :: r) = Some (Trace (Some e) fs c).
Proof. intros Hl Hr. unfold parse_trace_lines. rewrite Hl, Hr. reflexivity. Qed.

Lemma parse_trace_lines_noexc ls l r f fs c :
  ls = l :: r -> parse_throwable l = None -> parse_body ls = (f :: fs, c) ->
  parse_trace_lines ls = Some (Trace None (f :: fs) c).
Proof. intros -> Hl Hb. unfold parse_trace_lines. rewrite Hl, Hb. reflexivity. Qed.

Theorem C17_trace_lines t : wf_trace t = true -> parse_trace_lines (lines (print_trace t)) = Some t.
Proof.
  unfold wf_trace. intros H. apply andb_prop in H as [Hr Hne].
  pose proof (parse_body_rec t Hr) as Hb.
  destruct t as [[e|] fs cause]; rewrite print_trace_eq.
  - cbn [wf_rec] in Hr. apply andb_prop in Hr as [Hr _]. apply andb_prop in Hr as [He _].
    destruct (wf_throwable_t_facts e He) as (Hw & L & E & _).
    rewrite <- app_assoc, (lines_app _ _ L E).
    apply parse_trace_lines_exc; [apply C17_throwable; exact Hw|exact Hb].
  - destruct fs as [|f fs]; [discriminate Hne|]. cbn [app].
    cbn [wf_rec forallb] in Hr. apply andb_prop in Hr as [Hr _]. apply andb_prop in Hr as [_ Hr].
    apply andb_prop in Hr as [Hf _].
    destruct (frame_line_facts f Hf) as (L & E & _).
    destruct (wf_frame_t_some f Hf) as (c & m & fi & n & Ef & _).
    apply (parse_trace_lines_noexc _ (frame_line f) (lines (body_text fs cause))).
    + rewrite body_text_cons. apply (lines_app _ _ L E).
    + subst f. apply parse_throwable_frame_line.
    + exact Hb.
Qed.

Theorem C17_trace t : wf_trace t = true -> parse_trace (print_trace t) = Some t.
Proof.
  intros H. unfold parse_trace. rewrite utf8_print_trace.
  - apply C17_trace_lines. exact H.
  - unfold wf_trace in H. apply andb_prop in H as [Hr _]. exact Hr.
Qed.
Print Assumptions C17_trace.

Corollary C17_reprint t : wf_trace t = true ->
  option_map print_trace (parse_trace (print_trace t)) = Some (print_trace t).
Proof. intros H. rewrite (C17_trace t H). reflexivity. Qed.
Print Assumptions C17_reprint.

Example C17_trace_ex :
  let t := Trace (Some ([69], Some [109; 58; 32; 120])) [([97], [98], Some [70], 1)]
                 (Some (Trace (Some ([88], None)) [] None)) in
  wf_trace t = true /\ parse_trace (print_trace t) = Some t /\
  option_map print_trace (parse_trace (print_trace t)) = Some (print_trace t).
Proof. vm_compute. repeat split; reflexivity. Qed.
(* larger examples and the counterexamples behind each condition: module Examples below *)

(* a simple sufficient condition for wf_throwable: no space in the class, the printed line starts
   and ends with a non-whitespace ASCII byte *)
Lemma wf_throwable_edges t :
  lacks 32 (fst t) = true -> edges_ok (print_throwable t) = true -> wf_throwable t = true.
Proof.
  intros Hc He. unfold wf_throwable. rewrite Hc, (edges_ok_trim _ He). apply str_eqb_refl.
Qed.

(* ================================================================== *)
(** * Examples and counterexamples *)
Module Examples.
Import Coq.Strings.String Coq.Strings.Ascii.
Fixpoint s (x : string) : list N :=
  match x with EmptyString => [] | String a r => N_of_ascii a :: s r end.

(* a depth-2 trace: non-ASCII class, <init> method, line 2^64-1, messages containing ": ",
   "Caused by: ", frame-like text, a CR; a cause without frames; file names with spaces and parens *)
Definition ex_trace : trace :=
  Trace (Some ([195;169] ++ s ".Boom", Some (s "a: b: Caused by: x" ++ [13] ++ s " at a.b(c:1)")))
        [ (s "com.ex" ++ [195;169] ++ s ".Foo$1", s "<init>", Some (s "Foo (gen).java"), MAX64);
          (s "", s "run", Some (s ""), 0) ]
        (Some (Trace (Some (s "java.io.IOException", None)) []
          (Some (Trace (Some (s "X", Some (s "Caused by: at y.z(w:3)")))
                       [ (s "a b.", s "m)", Some (s "<unknown>"), 7) ] None)))).

Example ex_depth : depth ex_trace = 2%nat. Proof. reflexivity. Qed.
Example ex_wf : wf_trace ex_trace = true. Proof. vm_compute. reflexivity. Qed.
Example ex_roundtrip : parse_trace (print_trace ex_trace) = Some ex_trace.
Proof. vm_compute. reflexivity. Qed.
Example ex_reprint :
  option_map print_trace (parse_trace (print_trace ex_trace)) = Some (print_trace ex_trace).
Proof. apply C17_reprint. exact ex_wf. Qed.

(* a trace without a top-level exception *)
Definition ex_trace2 : trace :=
  Trace None [ (s "a.B", s "c", Some (s "B.java"), 12) ] (Some (Trace (Some (s "E", Some (s "m"))) [] None)).
Example ex2_wf : wf_trace ex_trace2 = true. Proof. vm_compute. reflexivity. Qed.
Example ex2_roundtrip : parse_trace (print_trace ex_trace2) = Some ex_trace2.
Proof. apply C17_trace. exact ex2_wf. Qed.

(* the empty class name round-trips *)
Example ex_empty_class :
  wf_trace (Trace (Some ([], None)) [] (Some (Trace (Some ([], Some (s "m"))) [] None))) = true.
Proof. vm_compute. reflexivity. Qed.

(* --- counterexamples: each condition of the well-formedness predicates is needed --- *)
(* no file: "<unknown>" is printed and read back as a file name *)
Example cx_frame_nofile :
  parse_frame (print_frame (s "a.B", s "c", None, 1)) = Some (s "a.B", s "c", Some unknown, 1).
Proof. vm_compute. reflexivity. Qed.
(* '(' in the class or the method *)
Example cx_frame_paren_class :
  parse_frame (print_frame (s "a(.B", s "c", Some (s "F"), 1)) = None.
Proof. vm_compute. reflexivity. Qed.
Example cx_frame_paren_method :
  parse_frame (print_frame (s "a.B", s "c(d", Some (s "F:"), 1)) = None.
Proof. vm_compute. reflexivity. Qed.
(* '.' in the method: the split moves *)
Example cx_frame_dot_method :
  parse_frame (print_frame (s "a", s "B.c", Some (s "F"), 1)) = Some (s "a.B", s "c", Some (s "F"), 1).
Proof. vm_compute. reflexivity. Qed.
(* ':' in the file name *)
Example cx_frame_colon_file :
  parse_frame (print_frame (s "a", s "c", Some (s "F:1"), 2)) = None.
Proof. vm_compute. reflexivity. Qed.
(* line number outside u64 (not representable in the Rust type) *)
Example cx_frame_big : parse_frame (print_frame (s "a", s "c", Some (s "F"), U64)) = None.
Proof. vm_compute. reflexivity. Qed.
(* throwable: space in the class; empty message; surrounding whitespace *)
Example cx_thr_space : parse_throwable (print_throwable (s "a b", None)) = None.
Proof. vm_compute. reflexivity. Qed.
Example cx_thr_space2 : parse_throwable (print_throwable (s "a: b", None)) = Some (s "a", Some (s "b")).
Proof. vm_compute. reflexivity. Qed.
Example cx_thr_empty_msg : parse_throwable (print_throwable (s "E", Some [])) = Some (s "E:", None).
Proof. vm_compute. reflexivity. Qed.
Example cx_thr_trailing : parse_throwable (print_throwable (s "E", Some (s "m "))) = Some (s "E", Some (s "m")).
Proof. vm_compute. reflexivity. Qed.
Example cx_thr_nbsp : parse_throwable (print_throwable ([194;160] ++ s "E", None)) = Some (s "E", None).
Proof. vm_compute. reflexivity. Qed.
(* a cause without exception is glued to its first frame line *)
Example cx_cause_noexc :
  parse_trace (print_trace (Trace (Some (s "E", None)) [] (Some (Trace None [(s "a", s "b", Some (s "F"), 1)] None))))
  = Some (Trace (Some (s "E", None)) [] (Some (Trace None [] None))).
Proof. vm_compute. reflexivity. Qed.
(* neither exception nor frames at the top *)
Example cx_empty_top : parse_trace (print_trace (Trace None [] None)) = None.
Proof. vm_compute. reflexivity. Qed.
Example cx_empty_top2 : parse_trace (print_trace (Trace None [] (Some (Trace (Some (s "E", None)) [] None)))) = None.
Proof. vm_compute. reflexivity. Qed.
(* LF inside a component *)
Example cx_lf :
  parse_trace (print_trace (Trace (Some (s "E", Some (s "a" ++ [10] ++ s "b"))) [] None))
  = Some (Trace (Some (s "E", Some (s "a"))) [] None).
Proof. vm_compute. reflexivity. Qed.
(* invalid UTF-8 *)
Example cx_utf8 : parse_trace (print_trace (Trace (Some ([200], None)) [] None)) = None.
Proof. vm_compute. reflexivity. Qed.
End Examples.
