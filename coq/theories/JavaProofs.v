(* JavaProofs.v — C16: correctness of JVM method-descriptor deobfuscation (model: Java.v,
   code: src/java.rs and DeobfuscatedSignature::format_signature in src/mapper.rs).

   Contents
     1. descriptor grammar (jty, encode, render, encode_desc) and well-formedness
     2. helper lemmas on the Base.v string functions
     3. the tokenizer: fuel sufficiency, fuel-free unfolding, behaviour on encoded types
     4. to_java on encoded types
     5. C16_valid
     6. C16_format
     7. C16_invalid
     8. C16_agree
     9. arbitrary strings: exact decomposition of [deobfuscate]; every token converts
    10. examples *)
From PG Require Import Base Java.
From Coq Require Import Lia.

(* ------------------------------------------------------------------------------------ *)
(** * 1. Grammar *)

Inductive jty := JPrim (code : N) | JObj (name : list N) | JArr (t : jty).

(* 'L' = 76, ';' = 59, '[' = 91, '(' = 40, ')' = 41, 'V' = 86 *)
Fixpoint encode (t : jty) : list N :=
  match t with
  | JPrim c => [c]
  | JObj n => [76] ++ n ++ [59]
  | JArr t => 91 :: encode t
  end.

Fixpoint render (rc : list N -> option (list N)) (t : jty) : list N :=
  match t with
  | JPrim c => match base_type c with Some kw => kw | None => [] end
  | JObj n => let d := dots n in match rc d with Some orig => orig | None => d end
  | JArr t => render rc t ++ [91;93]
  end.

Definition encode_desc (ps : list jty) (r : jty) : list N :=
  [40] ++ concat (map encode ps) ++ [41] ++ encode r.

Definition is_some {A} (o : option A) : bool := match o with Some _ => true | None => false end.

(* The most liberal conditions under which C16_valid holds (see the report at the end of the
   file for the counterexamples showing each condition is needed):
     parameter position: primitive codes are primitive letters (void INCLUDED: the code accepts
       "(V)V"); object names contain no ';' (they may be empty and may contain 'L', '[', '(', ')').
     return position: primitive codes are primitive letters; object names contain no ')'
       (they may be empty and may contain ';'). *)
Fixpoint wf_param (t : jty) : bool :=
  match t with
  | JPrim c => is_some (base_type c)
  | JObj n => negb (contains 59 n)
  | JArr t => wf_param t
  end.
Fixpoint wf_ret (t : jty) : bool :=
  match t with
  | JPrim c => is_some (base_type c)
  | JObj n => negb (contains 41 n)
  | JArr t => wf_ret t
  end.

(* the only condition [to_java] itself needs: primitive codes are primitive letters *)
Fixpoint prims_ok (t : jty) : bool :=
  match t with
  | JPrim c => is_some (base_type c)
  | JObj _ => true
  | JArr t => prims_ok t
  end.

(* The conditions as requested in the task (JVMS-like): field types exclude void, names are
   non-empty and ';'-free; the return type is a field type or void and its encoding has no ')'. *)
Fixpoint jvm_field (t : jty) : bool :=
  match t with
  | JPrim c => is_some (base_type c) && negb (c =? 86)
  | JObj n => negb (is_empty n) && negb (contains 59 n)
  | JArr t => jvm_field t
  end.
Definition is_void (t : jty) : bool := match t with JPrim c => c =? 86 | _ => false end.
Definition jvm_ret (r : jty) : bool :=
  (jvm_field r || is_void r) && negb (contains 41 (encode r)).

(* ------------------------------------------------------------------------------------ *)
(** * 2. Helpers on Base.v functions *)

Lemma contains_app c a b : contains c (a ++ b) = contains c a || contains c b.
Proof. unfold contains. apply existsb_app. Qed.

Lemma contains_cons c x l : contains c (x :: l) = (x =? c) || contains c l.
Proof. reflexivity. Qed.

Lemma contains_rev c l : contains c (rev l) = contains c l.
Proof.
  induction l as [|x l IH]; [reflexivity|].
  cbn [rev]. rewrite contains_app, IH, contains_cons. cbn [contains existsb].
  rewrite orb_false_r. apply orb_comm.
Qed.

Lemma split_once_app c a b : contains c a = false -> split_once c (a ++ c :: b) = Some (a, b).
Proof.
  induction a as [|x a IH]; intros H.
  - cbn [app split_once]. rewrite N.eqb_refl. reflexivity.
  - rewrite contains_cons in H. apply orb_false_iff in H. destruct H as [Hx Ha].
    cbn [app split_once]. rewrite Hx, (IH Ha). reflexivity.
Qed.

Lemma split_once_none c l : contains c l = false -> split_once c l = None.
Proof.
  induction l as [|x l IH]; intros H; [reflexivity|].
  rewrite contains_cons in H. apply orb_false_iff in H. destruct H as [Hx Hl].
  cbn [split_once]. rewrite Hx, (IH Hl). reflexivity.
Qed.

Lemma split_once_inv c l a b :
  split_once c l = Some (a, b) -> l = a ++ c :: b /\ contains c a = false.
Proof.
  revert a b. induction l as [|x l IH]; intros a b H; [discriminate|].
  cbn [split_once] in H. destruct (x =? c) eqn:E.
  - apply N.eqb_eq in E. inversion H; subst. split; reflexivity.
  - destruct (split_once c l) as [[a' b']|] eqn:E2; [|discriminate].
    inversion H; subst. destruct (IH _ _ eq_refl) as [-> Hc].
    split; [reflexivity|]. rewrite contains_cons, E, Hc. reflexivity.
Qed.

Lemma rsplit_once_app c a b : contains c b = false -> rsplit_once c (a ++ c :: b) = Some (a, b).
Proof.
  intros H. unfold rsplit_once. rewrite rev_app_distr. cbn [rev]. rewrite <- app_assoc.
  cbn [app]. rewrite split_once_app by (rewrite contains_rev; exact H).
  rewrite !rev_involutive. reflexivity.
Qed.

Lemma rsplit_once_none c l : contains c l = false -> rsplit_once c l = None.
Proof.
  intros H. unfold rsplit_once. rewrite split_once_none by (rewrite contains_rev; exact H).
  reflexivity.
Qed.

Lemma rsplit_once_inv c l a b :
  rsplit_once c l = Some (a, b) -> l = a ++ c :: b /\ contains c b = false.
Proof.
  unfold rsplit_once. intros H.
  destruct (split_once c (rev l)) as [[a' b']|] eqn:E; [|discriminate].
  inversion H; subst. apply split_once_inv in E. destruct E as [E Hc].
  split; [|rewrite contains_rev; exact Hc].
  rewrite <- (rev_involutive l), E, rev_app_distr. cbn [rev]. rewrite <- app_assoc. reflexivity.
Qed.

Lemma strip_prefix1_inv c s r : strip_prefix [c] s = Some r -> s = c :: r.
Proof.
  destruct s as [|x s]; cbn [strip_prefix]; [discriminate|].
  destruct (c =? x) eqn:E; [|discriminate]. apply N.eqb_eq in E. intros H. inversion H; subst.
  reflexivity.
Qed.

Lemma ends_with_snoc c l x : ends_with c (l ++ [x]) = (x =? c).
Proof.
  induction l as [|y l IH]; [reflexivity|].
  cbn [app ends_with]. destruct (l ++ [x]) as [|z l'] eqn:E.
  - destruct l; discriminate.
  - exact IH.
Qed.

Lemma is_empty_snoc {A} (l : list A) x : is_empty (l ++ [x]) = false.
Proof. destruct l; reflexivity. Qed.

Lemma str_eqb_eq a b : str_eqb a b = true <-> a = b.
Proof.
  revert b. induction a as [|x a IH]; intros [|y b]; cbn [str_eqb]; split; intros H;
    try reflexivity; try discriminate.
  - apply andb_true_iff in H. destruct H as [H1 H2]. apply N.eqb_eq in H1. apply IH in H2.
    subst. reflexivity.
  - inversion H; subst. rewrite N.eqb_refl. cbn [andb]. apply IH. reflexivity.
Qed.

(* primitive letters are none of the structural bytes *)
Lemma base_type_some c kw :
  base_type c = Some kw -> (c =? 76) = false /\ (c =? 91) = false /\ (c =? 59) = false /\ (c =? 41) = false.
Proof.
  intros H. repeat split; apply N.eqb_neq; intros ->; vm_compute in H; discriminate.
Qed.

Lemma is_some_base c : is_some (base_type c) = true -> exists kw, base_type c = Some kw.
Proof. destruct (base_type c) as [kw|]; [exists kw; reflexivity|discriminate]. Qed.

(* ------------------------------------------------------------------------------------ *)
(** * 3. The tokenizer *)

Lemma scan_obj_app n : forall cur rest,
  contains 59 n = false -> scan_obj cur (n ++ 59 :: rest) = (59 :: rev n ++ cur, rest, true).
Proof.
  induction n as [|x n IH]; intros cur rest H.
  - reflexivity.
  - rewrite contains_cons in H. apply orb_false_iff in H. destruct H as [Hx Hn].
    cbn [app scan_obj]. rewrite Hx, (IH _ _ Hn). cbn [rev]. rewrite <- app_assoc. reflexivity.
Qed.

Lemma scan_obj_unterminated l : forall cur,
  contains 59 l = false -> scan_obj cur l = (rev l ++ cur, [], false).
Proof.
  induction l as [|x l IH]; intros cur H.
  - reflexivity.
  - rewrite contains_cons in H. apply orb_false_iff in H. destruct H as [Hx Hl].
    cbn [scan_obj]. rewrite Hx, (IH _ Hl). cbn [rev]. rewrite <- app_assoc. reflexivity.
Qed.

Lemma scan_obj_len l : forall cur ty rest tm,
  scan_obj cur l = (ty, rest, tm) -> (length rest <= length l)%nat.
Proof.
  induction l as [|x l IH]; intros cur ty rest tm H; cbn [scan_obj] in H.
  - inversion H; subst. cbn [length]. lia.
  - destruct (x =? 59).
    + inversion H; subst. cbn [length]. lia.
    + apply IH in H. cbn [length]. lia.
Qed.

(* exact shape of a scan: either terminated at the first ';' or ran off the end *)
Lemma scan_obj_inv l : forall cur ty rest tm,
  scan_obj cur l = (ty, rest, tm) ->
  (tm = true /\ exists n, contains 59 n = false /\ l = n ++ 59 :: rest /\ ty = 59 :: rev n ++ cur)
  \/ (tm = false /\ contains 59 l = false /\ rest = [] /\ ty = rev l ++ cur).
Proof.
  induction l as [|x l IH]; intros cur ty rest tm H; cbn [scan_obj] in H.
  - inversion H; subst. right. repeat split; reflexivity.
  - destruct (x =? 59) eqn:E.
    + apply N.eqb_eq in E. inversion H; subst. left. split; [reflexivity|].
      exists []. repeat split; reflexivity.
    + apply IH in H. destruct H as [[-> [n [Hn [-> ->]]]]|[-> [Hl [-> ->]]]].
      * left. split; [reflexivity|]. exists (x :: n). rewrite contains_cons, E, Hn.
        cbn [rev]. rewrite <- app_assoc. repeat split; reflexivity.
      * right. rewrite contains_cons, E, Hl. cbn [rev]. rewrite <- app_assoc.
        repeat split; reflexivity.
Qed.

(* Any two fuels that are at least the length of the input give the same result. *)
Lemma tokenize_fuel_eq : forall f g l cur,
  (length l <= f)%nat -> (length l <= g)%nat -> tokenize f cur l = tokenize g cur l.
Proof.
  induction f as [|f IH]; intros g l cur Hf Hg.
  - destruct l; [|cbn [length] in Hf; lia]. destruct g; reflexivity.
  - destruct g as [|g].
    + destruct l; [|cbn [length] in Hg; lia]. reflexivity.
    + destruct l as [|c r]; [reflexivity|]. cbn [length] in Hf, Hg. cbn [tokenize].
      destruct (c =? 76).
      * destruct (scan_obj (c :: cur) r) as [[ty rest] tm] eqn:E.
        destruct tm; [|reflexivity]. apply scan_obj_len in E.
        rewrite (IH g rest []) by lia. reflexivity.
      * destruct (c =? 91); [apply IH; lia|].
        destruct (base_type c); [rewrite (IH g r []) by lia; reflexivity|apply IH; lia].
Qed.

(* The fuel [S (length params)] used by [deobfuscate] is always sufficient (more fuel never
   changes the result). *)
Theorem tokenize_fuel_sufficient l k cur :
  tokenize (S (length l + k)) cur l = tokenize (S (length l)) cur l.
Proof. apply tokenize_fuel_eq; lia. Qed.
Print Assumptions tokenize_fuel_sufficient.

(* fuel-free tokenizer and its unfolding equations *)
Definition tok (cur l : list N) : option (list (list N)) := tokenize (length l) cur l.

Lemma tokenize_tok f cur l : (length l <= f)%nat -> tokenize f cur l = tok cur l.
Proof. intros H. apply tokenize_fuel_eq; [exact H|lia]. Qed.

Lemma tok_nil cur : tok cur [] = Some [].
Proof. reflexivity. Qed.

Lemma tok_cons cur c r :
  tok cur (c :: r) =
    if c =? 76 then
      let '(ty, rest, term) := scan_obj (c :: cur) r in
      if term then match tok [] rest with Some ts => Some (rev ty :: ts) | None => None end
      else None
    else if c =? 91 then tok (c :: cur) r
    else match base_type c with
         | Some _ => match tok [] r with Some ts => Some (rev (c :: cur) :: ts) | None => None end
         | None => tok (c :: cur) r
         end.
Proof.
  unfold tok at 1. cbn [length tokenize].
  destruct (c =? 76).
  - destruct (scan_obj (c :: cur) r) as [[ty rest] tm] eqn:E.
    destruct tm; [|reflexivity]. apply scan_obj_len in E.
    rewrite (tokenize_tok _ [] rest E). reflexivity.
  - reflexivity.
Qed.

Definition opt_cons {A} (x : A) (o : option (list A)) : option (list A) :=
  match o with Some l => Some (x :: l) | None => None end.
Definition opt_app {A} (x : list A) (o : option (list A)) : option (list A) :=
  match o with Some l => Some (x ++ l) | None => None end.

(* One encoded parameter type, preceded by already-consumed '['s (cur), followed by anything. *)
Lemma tok_encode t : wf_param t = true -> forall cur rest,
  tok cur (encode t ++ rest) = opt_cons (rev cur ++ encode t) (tok [] rest).
Proof.
  induction t as [c|n|t IH]; intros H cur rest; cbn [wf_param] in H.
  - apply is_some_base in H. destruct H as [kw H].
    destruct (base_type_some _ _ H) as [H1 [H2 _]].
    cbn [encode app]. rewrite tok_cons, H1, H2, H. cbn [rev]. reflexivity.
  - apply negb_true_iff in H.
    cbn [encode app]. rewrite <- app_assoc. cbn [app].
    rewrite tok_cons. change (76 =? 76) with true. cbv iota.
    rewrite (scan_obj_app n _ rest H). cbv iota beta.
    replace (rev (59 :: rev n ++ 76 :: cur)) with (rev cur ++ 76 :: n ++ [59]).
    + reflexivity.
    + cbn [rev]. rewrite rev_app_distr, rev_involutive. cbn [rev].
      rewrite <- !app_assoc. reflexivity.
  - cbn [encode app]. rewrite tok_cons. change (91 =? 76) with false. change (91 =? 91) with true.
    cbv iota. rewrite (IH H). cbn [rev]. rewrite <- app_assoc. reflexivity.
Qed.

Lemma tok_encode_list ps : forallb wf_param ps = true -> forall rest,
  tok [] (concat (map encode ps) ++ rest) = opt_app (map encode ps) (tok [] rest).
Proof.
  induction ps as [|p ps IH]; intros H rest.
  - cbn [map concat app opt_app]. destruct (tok [] rest); reflexivity.
  - cbn [forallb] in H. apply andb_true_iff in H. destruct H as [Hp Hps].
    cbn [map concat]. rewrite <- app_assoc, (tok_encode p Hp), (IH Hps).
    destruct (tok [] rest); reflexivity.
Qed.

(* the lemma requested in the task, in its fuel form *)
Lemma tokenize_params ps n :
  forallb wf_param ps = true -> (length (concat (map encode ps)) <= n)%nat ->
  tokenize (S n) [] (concat (map encode ps)) = Some (map encode ps).
Proof.
  intros H Hn. rewrite tokenize_tok by lia.
  rewrite <- (app_nil_r (concat _)), (tok_encode_list ps H), tok_nil. cbn [opt_app].
  rewrite app_nil_r. reflexivity.
Qed.

(* ------------------------------------------------------------------------------------ *)
(** * 4. to_java on encoded types *)

(* the suffix accumulator only ever holds k copies of "[]" *)
Fixpoint brackets (k : nat) : list N := match k with O => [] | S k => [91;93] ++ brackets k end.

Lemma brackets_snoc k : brackets k ++ [91;93] = brackets (S k).
Proof.
  induction k as [|k IH]; [reflexivity|].
  cbn [brackets app] in *. rewrite IH. reflexivity.
Qed.

(* The statement "to_java rc suffix (encode t) = Some (render rc t ++ suffix)" suggested in the
   task is FALSE for a general suffix (the code appends "[]" at the END of the suffix:
   to_java rc [1] (encode (JArr (JPrim 73))) = Some "int" ++ [1] ++ "[]"; see Example below);
   it holds for every suffix that the function itself can build, i.e. brackets k. *)
Lemma to_java_encode rc t : prims_ok t = true ->
  forall k, to_java rc (brackets k) (encode t) = Some (render rc t ++ brackets k).
Proof.
  induction t as [c|n|t IH]; intros H k; cbn [prims_ok] in H.
  - apply is_some_base in H. destruct H as [kw Hkw]. destruct (base_type_some _ _ Hkw) as [H1 [H2 _]].
    cbn [encode to_java render]. rewrite H1, H2, Hkw. reflexivity.
  - cbn [encode app to_java render]. change (76 =? 76) with true. cbv iota.
    rewrite is_empty_snoc, ends_with_snoc. change (59 =? 59) with true. cbv iota.
    rewrite removelast_last. cbv zeta. destruct (rc (dots n)); reflexivity.
  - cbn [encode to_java render]. change (91 =? 76) with false. change (91 =? 91) with true.
    cbv iota. rewrite brackets_snoc, (IH H). cbn [brackets]. rewrite <- app_assoc. reflexivity.
Qed.

Lemma wf_param_prims t : wf_param t = true -> prims_ok t = true.
Proof. induction t as [c|n|t IH]; cbn [wf_param prims_ok]; intros H; [exact H|reflexivity|exact (IH H)]. Qed.
Lemma wf_ret_prims t : wf_ret t = true -> prims_ok t = true.
Proof. induction t as [c|n|t IH]; cbn [wf_ret prims_ok]; intros H; [exact H|reflexivity|exact (IH H)]. Qed.

Lemma to_java_param rc t : wf_param t = true -> to_java rc [] (encode t) = Some (render rc t).
Proof.
  intros H. rewrite <- (app_nil_r (render rc t)).
  exact (to_java_encode rc t (wf_param_prims t H) O).
Qed.

Lemma to_java_ret rc t : wf_ret t = true -> to_java rc [] (encode t) = Some (render rc t).
Proof.
  intros H. rewrite <- (app_nil_r (render rc t)).
  exact (to_java_encode rc t (wf_ret_prims t H) O).
Qed.

Example to_java_general_suffix_false :
  to_java (fun _ => None) [1] (encode (JArr (JPrim 73)))
  = Some ([105;110;116] ++ [1] ++ [91;93])
  /\ render (fun _ => None) (JArr (JPrim 73)) ++ [1] = [105;110;116] ++ [91;93] ++ [1].
Proof. split; reflexivity. Qed.

Lemma encode_nonempty t : is_empty (encode t) = false.
Proof. destruct t; reflexivity. Qed.

Lemma wf_ret_no_paren t : wf_ret t = true -> contains 41 (encode t) = false.
Proof.
  induction t as [c|n|t IH]; intros H; cbn [wf_ret] in H.
  - apply is_some_base in H. destruct H as [kw H]. destruct (base_type_some _ _ H) as [_ [_ [_ H4]]].
    cbn [encode]. rewrite contains_cons, H4. reflexivity.
  - apply negb_true_iff in H. cbn [encode]. rewrite !contains_app, H. reflexivity.
  - cbn [encode]. rewrite contains_cons. change (91 =? 41) with false. exact (IH H).
Qed.

(* ------------------------------------------------------------------------------------ *)
(** * 5. C16_valid *)

Definition conv (rc : list N -> option (list N)) (tys : list (list N)) : list (list N) :=
  flat_map (fun t => if is_empty t then []
                     else match to_java rc [] t with Some j => [j] | None => [] end) tys.

(* [deobfuscate] on a string that has been split by hand *)
Lemma deobfuscate_split rc P R : contains 41 R = false ->
  deobfuscate rc ([40] ++ P ++ [41] ++ R) =
    if is_empty R then None else
    match tok [] P with
    | None => None
    | Some tys => match to_java rc [] R with Some r => Some (conv rc tys, r) | None => None end
    end.
Proof.
  intros H. unfold deobfuscate. cbn [app strip_prefix]. change (40 =? 40) with true. cbv iota.
  rewrite (rsplit_once_app 41 P R H). destruct (is_empty R); [reflexivity|].
  rewrite tokenize_tok by lia. reflexivity.
Qed.

Lemma conv_encode rc ps : forallb wf_param ps = true ->
  conv rc (map encode ps) = map (render rc) ps.
Proof.
  induction ps as [|p ps IH]; intros H; [reflexivity|].
  cbn [forallb] in H. apply andb_true_iff in H. destruct H as [Hp Hps].
  unfold conv in *. cbn [map flat_map]. rewrite encode_nonempty, (to_java_param rc p Hp), (IH Hps).
  reflexivity.
Qed.

Theorem C16_valid rc ps r :
  forallb wf_param ps = true -> wf_ret r = true ->
  deobfuscate rc (encode_desc ps r) = Some (map (render rc) ps, render rc r).
Proof.
  intros Hps Hr. unfold encode_desc.
  rewrite deobfuscate_split by (apply wf_ret_no_paren; exact Hr).
  rewrite encode_nonempty.
  rewrite <- (app_nil_r (concat _)), (tok_encode_list ps Hps), tok_nil. cbn [opt_app].
  rewrite app_nil_r, (to_java_ret rc r Hr), (conv_encode rc ps Hps). reflexivity.
Qed.
Print Assumptions C16_valid.

(* the conditions requested in the task imply the liberal ones *)
Lemma jvm_field_wf_param t : jvm_field t = true -> wf_param t = true.
Proof.
  induction t as [c|n|t IH]; cbn [jvm_field wf_param]; intros H.
  - apply andb_true_iff in H. apply H.
  - apply andb_true_iff in H. apply H.
  - exact (IH H).
Qed.

Lemma jvm_field_prims t : jvm_field t = true ->
  prims_ok t = true.
Proof.
  induction t as [c|n|t IH]; cbn [jvm_field]; intros H.
  - apply andb_true_iff in H. apply H.
  - reflexivity.
  - exact (IH H).
Qed.

Lemma no_paren_wf_ret t :
  prims_ok t = true ->
  contains 41 (encode t) = false -> wf_ret t = true.
Proof.
  induction t as [c|n|t IH]; intros H1 H2; cbn [wf_ret].
  - exact H1.
  - cbn [encode] in H2. rewrite !contains_app in H2. apply orb_false_iff in H2.
    destruct H2 as [_ H2]. apply orb_false_iff in H2. destruct H2 as [H2 _]. rewrite H2. reflexivity.
  - cbn [encode] in H2. rewrite contains_cons in H2. apply orb_false_iff in H2. apply IH; [exact H1|apply H2].
Qed.

Lemma jvm_ret_wf_ret r : jvm_ret r = true -> wf_ret r = true.
Proof.
  unfold jvm_ret. intros H. apply andb_true_iff in H. destruct H as [H1 H2].
  apply negb_true_iff in H2. apply no_paren_wf_ret; [|exact H2].
  apply orb_true_iff in H1. destruct H1 as [H1|H1].
  - apply jvm_field_prims. exact H1.
  - destruct r as [c| |]; try discriminate. cbn [is_void] in H1. apply N.eqb_eq in H1. subst.
    reflexivity.
Qed.

Corollary C16_valid_jvm rc ps r :
  forallb jvm_field ps = true -> jvm_ret r = true ->
  deobfuscate rc (encode_desc ps r) = Some (map (render rc) ps, render rc r).
Proof.
  intros Hps Hr. apply C16_valid; [|apply jvm_ret_wf_ret; exact Hr].
  apply forallb_forall. intros t Ht. apply jvm_field_wf_param.
  rewrite forallb_forall in Hps. apply Hps. exact Ht.
Qed.
Print Assumptions C16_valid_jvm.

(* ------------------------------------------------------------------------------------ *)
(** * 6. C16_format *)

(* specification of str::join *)
Fixpoint join (sep : list N) (l : list (list N)) : list N :=
  match l with
  | [] => []
  | a :: rest => match rest with [] => a | _ :: _ => a ++ sep ++ join sep rest end
  end.

Lemma join_comma_cons p rest :
  p ++ flat_map (fun q => [44;32] ++ q) rest = join [44;32] (p :: rest).
Proof.
  revert p. induction rest as [|q rest IH]; intros p.
  - cbn [flat_map join]. apply app_nil_r.
  - cbn [flat_map]. change (join [44;32] (p :: q :: rest)) with (p ++ [44;32] ++ join [44;32] (q :: rest)).
    rewrite <- IH, <- !app_assoc. reflexivity.
Qed.

Lemma join_comma_join ps : join_comma ps = join [44;32] ps.
Proof. destruct ps as [|p rest]; [reflexivity|]. apply join_comma_cons. Qed.

Example join_comma_3 a b c : join_comma [a; b; c] = a ++ [44;32] ++ b ++ [44;32] ++ c.
Proof. rewrite join_comma_join. reflexivity. Qed.
Example join_comma_1 a : join_comma [a] = a.
Proof. rewrite join_comma_join. reflexivity. Qed.
Example join_comma_0 : join_comma [] = [].
Proof. reflexivity. Qed.

(* "(" ++ join ", " ps ++ ")" ++ (if r is empty or "void" then "" else ": " ++ r) *)
Theorem C16_format ps r :
  format_sig (ps, r) =
    [40] ++ join [44;32] ps ++ [41] ++
    (if is_empty r || str_eqb r void_kw then [] else [58;32] ++ r).
Proof. unfold format_sig. rewrite join_comma_join. reflexivity. Qed.
Print Assumptions C16_format.

Theorem C16_format_noret ps r :
  r = [] \/ r = void_kw -> format_sig (ps, r) = [40] ++ join [44;32] ps ++ [41].
Proof.
  intros H. rewrite C16_format.
  replace (is_empty r || str_eqb r void_kw) with true; [rewrite app_nil_r; reflexivity|].
  destruct H as [->| ->]; reflexivity.
Qed.
Print Assumptions C16_format_noret.

Theorem C16_format_ret ps r :
  r <> [] -> r <> void_kw -> format_sig (ps, r) = [40] ++ join [44;32] ps ++ [41] ++ [58;32] ++ r.
Proof.
  intros H1 H2. rewrite C16_format.
  replace (is_empty r || str_eqb r void_kw) with false; [reflexivity|].
  symmetry. apply orb_false_iff. split.
  - destruct r; [contradiction|reflexivity].
  - destruct (str_eqb r void_kw) eqn:E; [|reflexivity]. apply str_eqb_eq in E. contradiction.
Qed.
Print Assumptions C16_format_ret.

Lemma render_void rc : render rc (JPrim 86) = void_kw.
Proof. reflexivity. Qed.

(* end to end, return type void: no ": ret" suffix *)
Theorem C16_format_void rc ps :
  forallb wf_param ps = true ->
  option_map format_sig (deobfuscate rc (encode_desc ps (JPrim 86)))
  = Some ([40] ++ join [44;32] (map (render rc) ps) ++ [41]).
Proof.
  intros H. rewrite (C16_valid rc ps (JPrim 86) H eq_refl). cbn [option_map].
  rewrite C16_format_noret by (right; reflexivity). reflexivity.
Qed.
Print Assumptions C16_format_void.

(* end to end, any return type *)
Theorem C16_format_valid rc ps r :
  forallb wf_param ps = true -> wf_ret r = true ->
  option_map format_sig (deobfuscate rc (encode_desc ps r))
  = Some ([40] ++ join [44;32] (map (render rc) ps) ++ [41] ++
          (if is_empty (render rc r) || str_eqb (render rc r) void_kw then []
           else [58;32] ++ render rc r)).
Proof.
  intros H1 H2. rewrite (C16_valid rc ps r H1 H2). cbn [option_map]. rewrite C16_format. reflexivity.
Qed.
Print Assumptions C16_format_valid.

(* ------------------------------------------------------------------------------------ *)
(** * 7. C16_invalid *)

Theorem C16_no_open_paren rc s : strip_prefix [40] s = None -> deobfuscate rc s = None.
Proof. intros H. unfold deobfuscate. rewrite H. reflexivity. Qed.
Print Assumptions C16_no_open_paren.

Theorem C16_no_close_paren rc s : contains 41 s = false -> deobfuscate rc s = None.
Proof.
  intros H. unfold deobfuscate. destruct (strip_prefix [40] s) as [rest|] eqn:E; [|reflexivity].
  apply strip_prefix1_inv in E. subst. rewrite contains_cons in H. apply orb_false_iff in H.
  rewrite rsplit_once_none by apply H. reflexivity.
Qed.
Print Assumptions C16_no_close_paren.

(* empty return type, for EVERY parameter string p *)
Theorem C16_no_return rc p : deobfuscate rc ([40] ++ p ++ [41]) = None.
Proof.
  change ([40] ++ p ++ [41]) with ([40] ++ p ++ [41] ++ []).
  rewrite deobfuscate_split by reflexivity. reflexivity.
Qed.
Print Assumptions C16_no_return.

(* an 'L' never followed by ';' *)
Lemma tokenize_unterminated f cur rest :
  contains 59 rest = false -> tokenize (S f) cur (76 :: rest) = None.
Proof.
  intros H. cbn [tokenize]. change (76 =? 76) with true. cbv iota.
  rewrite scan_obj_unterminated by exact H. reflexivity.
Qed.

Lemma tok_unterminated cur rest : contains 59 rest = false -> tok cur (76 :: rest) = None.
Proof. intros H. unfold tok. cbn [length]. apply tokenize_unterminated. exact H. Qed.

(* junk only needs to be ';'-free (it may contain ')' and '('), R only ')'-free *)
Theorem C16_unterminated rc ps junk R :
  forallb wf_param ps = true -> contains 59 junk = false -> contains 41 R = false ->
  deobfuscate rc ([40] ++ concat (map encode ps) ++ 76 :: junk ++ [41] ++ R) = None.
Proof.
  intros Hps Hj HR.
  replace ([40] ++ concat (map encode ps) ++ 76 :: junk ++ [41] ++ R)
    with ([40] ++ (concat (map encode ps) ++ 76 :: junk) ++ [41] ++ R)
    by (rewrite <- app_assoc; reflexivity).
  rewrite deobfuscate_split by exact HR.
  rewrite (tok_encode_list ps Hps), (tok_unterminated [] junk Hj). cbn [opt_app].
  destruct (is_empty R); reflexivity.
Qed.
Print Assumptions C16_unterminated.

(* bad return type: whenever to_java fails on it *)
Theorem C16_bad_return rc P R :
  contains 41 R = false -> to_java rc [] R = None -> deobfuscate rc ([40] ++ P ++ [41] ++ R) = None.
Proof.
  intros HR H. rewrite deobfuscate_split by exact HR. rewrite H.
  destruct (is_empty R); [reflexivity|]. destruct (tok [] P); reflexivity.
Qed.
Print Assumptions C16_bad_return.

(* bytes [to_java] steps over: everything except 'L' and the primitive letters ('[' included) *)
Definition skip (c : N) : bool := negb (c =? 76) && negb (is_some (base_type c)).

Lemma skip_inv c : skip c = true -> (c =? 76) = false /\ base_type c = None.
Proof.
  unfold skip. intros H. apply andb_true_iff in H. destruct H as [H1 H2].
  apply negb_true_iff in H1. apply negb_true_iff in H2. split; [exact H1|].
  destruct (base_type c); [discriminate|reflexivity].
Qed.

Lemma to_java_skip_step rc s c l : skip c = true ->
  to_java rc s (c :: l) = to_java rc (if c =? 91 then s ++ [91;93] else s) l.
Proof.
  intros H. apply skip_inv in H. destruct H as [H1 H2].
  cbn [to_java]. rewrite H1, H2. destruct (c =? 91); reflexivity.
Qed.

Lemma to_java_skip rc j : forallb skip j = true -> forall s l,
  exists s', to_java rc s (j ++ l) = to_java rc s' l.
Proof.
  induction j as [|c j IH]; intros H s l.
  - exists s. reflexivity.
  - cbn [forallb] in H. apply andb_true_iff in H. destruct H as [Hc Hj].
    cbn [app]. rewrite (to_java_skip_step rc s c _ Hc). apply (IH Hj).
Qed.

(* (a) no 'L' and no primitive letter at all: "x", "[", "[[[", "" ... *)
Lemma to_java_none_skip rc j s : forallb skip j = true -> to_java rc s j = None.
Proof.
  intros H. destruct (to_java_skip rc j H s []) as [s' E]. rewrite app_nil_r in E.
  rewrite E. reflexivity.
Qed.

(* (b) the first significant byte is an 'L' whose remainder does not end in ';':
       "L", "Lfoo", "[Lfoo", "Lfoo;x" *)
Lemma to_java_none_L rc j r s :
  forallb skip j = true -> ends_with 59 r = false -> to_java rc s (j ++ 76 :: r) = None.
Proof.
  intros Hj Hr. destruct (to_java_skip rc j Hj s (76 :: r)) as [s' E]. rewrite E.
  cbn [to_java]. change (76 =? 76) with true. cbv iota. rewrite Hr.
  destruct (is_empty r); reflexivity.
Qed.

Corollary C16_bad_return_skip rc P R :
  forallb skip R = true -> contains 41 R = false -> deobfuscate rc ([40] ++ P ++ [41] ++ R) = None.
Proof. intros H1 H2. apply C16_bad_return; [exact H2|]. apply to_java_none_skip. exact H1. Qed.

Corollary C16_bad_return_L rc P j r :
  forallb skip j = true -> ends_with 59 r = false -> contains 41 (j ++ 76 :: r) = false ->
  deobfuscate rc ([40] ++ P ++ [41] ++ j ++ 76 :: r) = None.
Proof. intros H1 H2 H3. apply C16_bad_return; [exact H3|]. apply to_java_none_L; assumption. Qed.
Print Assumptions C16_bad_return_skip.
Print Assumptions C16_bad_return_L.

(* ------------------------------------------------------------------------------------ *)
(** * 8. C16_agree: the mapping is used only through the class lookup *)

Lemma to_java_ext rc1 rc2 : (forall c, rc1 c = rc2 c) ->
  forall l s, to_java rc1 s l = to_java rc2 s l.
Proof.
  intros H. induction l as [|c r IH]; intros s; [reflexivity|].
  cbn [to_java]. destruct (c =? 76).
  - rewrite H. reflexivity.
  - destruct (c =? 91); [apply IH|]. destruct (base_type c); [reflexivity|apply IH].
Qed.

Lemma conv_ext rc1 rc2 : (forall c, rc1 c = rc2 c) -> forall tys, conv rc1 tys = conv rc2 tys.
Proof.
  intros H. induction tys as [|t tys IH]; [reflexivity|].
  unfold conv in *. cbn [flat_map]. rewrite IH, (to_java_ext rc1 rc2 H). reflexivity.
Qed.

Theorem C16_agree rc1 rc2 s :
  (forall c, rc1 c = rc2 c) -> deobfuscate rc1 s = deobfuscate rc2 s.
Proof.
  intros H. unfold deobfuscate.
  destruct (strip_prefix [40] s) as [rest|]; [|reflexivity].
  destruct (rsplit_once 41 rest) as [[params ret]|]; [|reflexivity].
  destruct (is_empty ret); [reflexivity|].
  destruct (tokenize (S (length params)) [] params) as [tys|]; [|reflexivity].
  fold (conv rc1 tys). fold (conv rc2 tys).
  rewrite (conv_ext rc1 rc2 H), (to_java_ext rc1 rc2 H). reflexivity.
Qed.
Print Assumptions C16_agree.

(* ------------------------------------------------------------------------------------ *)
(** * 9. Arbitrary strings *)

(* Exact decomposition: [deobfuscate] succeeds iff the string is "(" P ")" R with R non-empty
   and ')'-free, the tokenizer accepts P and to_java accepts R. *)
Theorem deobfuscate_spec rc s ps r :
  deobfuscate rc s = Some (ps, r) <->
  exists P R tys, s = [40] ++ P ++ [41] ++ R /\ contains 41 R = false /\ R <> [] /\
                  tok [] P = Some tys /\ conv rc tys = ps /\ to_java rc [] R = Some r.
Proof.
  split.
  - intros H. unfold deobfuscate in H.
    destruct (strip_prefix [40] s) as [rest|] eqn:E1; [|discriminate].
    destruct (rsplit_once 41 rest) as [[P R]|] eqn:E2; [|discriminate].
    destruct (is_empty R) eqn:E3; [discriminate|].
    rewrite tokenize_tok in H by lia.
    destruct (tok [] P) as [tys|] eqn:E4; [|discriminate].
    fold (conv rc tys) in H.
    destruct (to_java rc [] R) as [r'|] eqn:E5; [|discriminate].
    inversion H; subst. apply strip_prefix1_inv in E1. apply rsplit_once_inv in E2.
    destruct E2 as [-> HR]. exists P, R, tys. repeat split; try assumption; try reflexivity.
    intros ->. discriminate.
  - intros [P [R [tys [-> [HR [Hne [Ht [Hc Hj]]]]]]]].
    rewrite deobfuscate_split by exact HR. rewrite Ht, Hj, Hc.
    destruct R; [contradiction|reflexivity].
Qed.
Print Assumptions deobfuscate_spec.

(* Every token the tokenizer emits is accepted by to_java (with any suffix) and is
   non-empty: the two filters in deobfuscate_bytecode_signature never drop anything. *)
Definition convertible rc (t : list N) : Prop := forall s, exists j, to_java rc s t = Some j.

Lemma convertible_skip rc c t : skip c = true -> convertible rc t -> convertible rc (c :: t).
Proof. intros Hc Ht s. rewrite (to_java_skip_step rc s c t Hc). apply Ht. Qed.

Lemma convertible_rev_skip rc cur : forallb skip cur = true -> forall t,
  convertible rc t -> convertible rc (rev cur ++ t).
Proof.
  induction cur as [|c cur IH]; intros H t Ht; [exact Ht|].
  cbn [forallb] in H. apply andb_true_iff in H. destruct H as [Hc Hcur].
  cbn [rev]. rewrite <- app_assoc. cbn [app]. apply (IH Hcur). apply convertible_skip; assumption.
Qed.

Lemma convertible_obj rc n : convertible rc (76 :: n ++ [59]).
Proof.
  intros s. cbn [to_java]. change (76 =? 76) with true. cbv iota.
  rewrite is_empty_snoc, ends_with_snoc. change (59 =? 59) with true. cbv iota zeta.
  destruct (rc (dots (removelast (n ++ [59])))) as [m|]; eexists; reflexivity.
Qed.

Lemma convertible_prim rc c kw : base_type c = Some kw -> convertible rc [c].
Proof.
  intros H s. destruct (base_type_some _ _ H) as [H1 [H2 _]].
  cbn [to_java]. rewrite H1, H2, H. eexists; reflexivity.
Qed.

Lemma tokenize_convertible rc : forall f l cur toks,
  forallb skip cur = true -> tokenize f cur l = Some toks -> Forall (convertible rc) toks.
Proof.
  induction f as [|f IH]; intros l cur toks Hcur H.
  - inversion H; subst. constructor.
  - destruct l as [|c r]; [inversion H; subst; constructor|].
    cbn [tokenize] in H. destruct (c =? 76) eqn:E76.
    + apply N.eqb_eq in E76. subst c.
      destruct (scan_obj (76 :: cur) r) as [[ty rest] tm] eqn:Es.
      destruct tm; [|discriminate].
      destruct (tokenize f [] rest) as [ts|] eqn:Et; [|discriminate].
      inversion H; subst. apply scan_obj_inv in Es.
      destruct Es as [[_ [n [Hn [-> ->]]]]|[Hd _]]; [|discriminate].
      constructor; [|exact (IH _ [] _ eq_refl Et)].
      replace (rev (59 :: rev n ++ 76 :: cur)) with (rev cur ++ 76 :: n ++ [59]).
      * apply convertible_rev_skip; [exact Hcur|apply convertible_obj].
      * cbn [rev]. rewrite rev_app_distr, rev_involutive. cbn [rev].
        rewrite <- !app_assoc. reflexivity.
    + destruct (c =? 91) eqn:E91.
      * apply N.eqb_eq in E91. subst c. apply (IH r (91 :: cur)); [|exact H].
        cbn [forallb]. rewrite Hcur. reflexivity.
      * destruct (base_type c) as [kw|] eqn:Eb.
        -- destruct (tokenize f [] r) as [ts|] eqn:Et; [|discriminate].
           inversion H; subst. constructor; [|exact (IH _ [] _ eq_refl Et)].
           cbn [rev]. apply convertible_rev_skip; [exact Hcur|]. exact (convertible_prim rc c kw Eb).
        -- apply (IH r (c :: cur)); [|exact H].
           cbn [forallb]. rewrite Hcur. unfold skip. rewrite E76, Eb. reflexivity.
Qed.

Lemma conv_convertible rc tys : Forall (convertible rc) tys ->
  conv rc tys = map (fun t => match to_java rc [] t with Some j => j | None => [] end) tys.
Proof.
  induction 1 as [|t tys Ht _ IH]; [reflexivity|].
  unfold conv in *. cbn [flat_map map]. rewrite IH.
  destruct (Ht []) as [j Hj]. rewrite Hj.
  destruct t; [discriminate|reflexivity].
Qed.

Theorem deobfuscate_no_drop rc s ps r :
  deobfuscate rc s = Some (ps, r) ->
  exists P R tys, s = [40] ++ P ++ [41] ++ R /\ tok [] P = Some tys /\
    Forall (convertible rc) tys /\ length ps = length tys.
Proof.
  intros H. apply deobfuscate_spec in H.
  destruct H as [P [R [tys [-> [_ [_ [Ht [Hc _]]]]]]]].
  exists P, R, tys. assert (Hf : Forall (convertible rc) tys).
  { unfold tok in Ht. exact (tokenize_convertible rc _ _ [] _ eq_refl Ht). }
  repeat split; try assumption.
  rewrite <- Hc, (conv_convertible rc tys Hf), map_length. reflexivity.
Qed.
Print Assumptions deobfuscate_no_drop.

(* ------------------------------------------------------------------------------------ *)
(** * 10. Examples (hypotheses are satisfiable; counterexamples for the side conditions) *)

From Coq Require Import Strings.String Strings.Ascii.

Module Examples.
Definition b (s : string) : list N := List.map N_of_ascii (list_ascii_of_string s).

(* a mapper knowing one class: obfuscated "x.Long" is originally "com.example.Foo" *)
Definition rc1 (c : list N) : option (list N) :=
  if str_eqb c (b "x.Long") then Some (b "com.example.Foo") else None.
Definition rc0 (c : list N) : option (list N) := None.

Definition ps1 : list jty := [JPrim 73; JObj (b "java/lang/String"); JArr (JArr (JObj (b "x/Long")))].

(* C16_valid: the descriptor of the task, its hypotheses, and the result *)
Example ex_desc : encode_desc ps1 (JPrim 86) = b "(ILjava/lang/String;[[Lx/Long;)V".
Proof. reflexivity. Qed.
Example ex_valid_hyps :
  forallb wf_param ps1 = true /\ wf_ret (JPrim 86) = true /\
  forallb jvm_field ps1 = true /\ jvm_ret (JPrim 86) = true.
Proof. repeat split; reflexivity. Qed.
Example ex_valid :
  deobfuscate rc1 (b "(ILjava/lang/String;[[Lx/Long;)V")
  = Some ([b "int"; b "java.lang.String"; b "com.example.Foo[][]"], b "void").
Proof. vm_compute. reflexivity. Qed.
Example ex_valid_by_thm :
  deobfuscate rc1 (b "(ILjava/lang/String;[[Lx/Long;)V")
  = Some (List.map (render rc1) ps1, render rc1 (JPrim 86)).
Proof. exact (C16_valid rc1 ps1 (JPrim 86) eq_refl eq_refl). Qed.
Example ex_valid_unmapped :
  deobfuscate rc0 (b "(ILjava/lang/String;[[Lx/Long;)V")
  = Some ([b "int"; b "java.lang.String"; b "x.Long[][]"], b "void").
Proof. vm_compute. reflexivity. Qed.

(* class names that are, or start with, primitive letters / 'L' *)
Definition ps2 : list jty := [JObj (b "I"); JObj (b "Lib"); JObj (b "x/Long"); JArr (JObj (b "[V"))].
Example ex_names_hyps :
  forallb jvm_field ps2 = true /\ jvm_ret (JObj (b "I")) = true /\
  encode_desc ps2 (JObj (b "I")) = b "(LI;LLib;Lx/Long;[L[V;)LI;".
Proof. repeat split; reflexivity. Qed.
Example ex_names :
  deobfuscate rc1 (b "(LI;LLib;Lx/Long;[L[V;)LI;")
  = Some ([b "I"; b "Lib"; b "com.example.Foo"; b "[V[]"], b "I").
Proof. vm_compute. reflexivity. Qed.

(* What the liberal conditions allow beyond the requested ones: void parameter, empty names,
   '(' and ')' inside parameter names, ';' inside the return name. *)
Example ex_liberal :
  wf_param (JPrim 86) = true /\ wf_param (JObj []) = true /\ wf_param (JObj (b "a)b(c")) = true /\
  wf_ret (JObj (b "a;b")) = true /\
  deobfuscate rc0 (b "(V)V") = Some ([b "void"], b "void") /\
  deobfuscate rc0 (b "(L;)L;") = Some ([[]], []) /\
  deobfuscate rc0 (b "(La)b(c;)V") = Some ([b "a)b(c"], b "void") /\
  deobfuscate rc0 (b "()La;b;") = Some ([], b "a;b").
Proof. repeat split; vm_compute; reflexivity. Qed.

(* Each remaining side condition is necessary. *)
(* ';' inside a parameter name: the token ends at the first ';' *)
Example cex_param_semicolon :
  encode_desc [JObj (b "a;b")] (JPrim 86) = b "(La;b;)V" /\
  deobfuscate rc0 (b "(La;b;)V") = Some ([b "a"], b "void") /\
  List.map (render rc0) [JObj (b "a;b")] = [b "a;b"].
Proof. repeat split; vm_compute; reflexivity. Qed.
(* ')' inside the return name: the descriptor is split at the LAST ')' *)
Example cex_ret_paren :
  encode_desc [] (JObj (b "a)b")) = b "()La)b;" /\ deobfuscate rc0 (b "()La)b;") = None.
Proof. split; vm_compute; reflexivity. Qed.
(* a non-primitive letter as "primitive": silently skipped (parameter) / rejected (return) *)
Example cex_nonprim :
  deobfuscate rc0 (encode_desc [JPrim 120] (JPrim 86)) = Some ([], b "void") /\
  List.map (render rc0) [JPrim 120] = [[]] /\
  deobfuscate rc0 (encode_desc [] (JPrim 120)) = None.
Proof. repeat split; vm_compute; reflexivity. Qed.

(* C16_format *)
Example ex_format_void :
  option_map format_sig (deobfuscate rc1 (b "(ILjava/lang/String;[[Lx/Long;)V"))
  = Some (b "(int, java.lang.String, com.example.Foo[][])").
Proof. vm_compute. reflexivity. Qed.
Example ex_format_ret :
  option_map format_sig (deobfuscate rc1 (b "([I)Lx/Long;")) = Some (b "(int[]): com.example.Foo") /\
  option_map format_sig (deobfuscate rc1 (b "()I")) = Some (b "(): int").
Proof. split; vm_compute; reflexivity. Qed.
Example ex_format_hyps :
  (b "void" = [] \/ b "void" = void_kw) /\ b "int" <> [] /\ b "int" <> void_kw.
Proof. split; [right; reflexivity|]. split; discriminate. Qed.
(* a class whose ORIGINAL name is "void", and the empty name, also print no return type *)
Example ex_format_odd :
  format_sig ([], render (fun _ => Some void_kw) (JObj (b "a"))) = b "()" /\
  format_sig ([], render rc0 (JObj [])) = b "()".
Proof. split; reflexivity. Qed.

(* C16_invalid *)
Example ex_no_open : strip_prefix [40] (b "I)V") = None /\ deobfuscate rc1 (b "I)V") = None.
Proof. split; reflexivity. Qed.
Example ex_no_close : contains 41 (b "(IV") = false /\ deobfuscate rc1 (b "(IV") = None.
Proof. split; reflexivity. Qed.
Example ex_no_return : deobfuscate rc1 (b "(ILfoo;)") = None /\ b "(ILfoo;)" = [40] ++ b "ILfoo;" ++ [41].
Proof. split; reflexivity. Qed.
Example ex_unterminated :
  forallb wf_param [JPrim 73; JObj (b "a")] = true /\ contains 59 (b "fo)o") = false /\
  contains 41 (b "V") = false /\
  [40] ++ List.concat (List.map encode [JPrim 73; JObj (b "a")]) ++ 76 :: b "fo)o" ++ [41] ++ b "V"
    = b "(ILa;Lfo)o)V" /\
  deobfuscate rc1 (b "(ILa;Lfo)o)V") = None.
Proof. repeat split; vm_compute; reflexivity. Qed.
Example ex_bad_return :
  deobfuscate rc1 (b "(I)L") = None /\ deobfuscate rc1 (b "(I)Lfoo") = None /\
  deobfuscate rc1 (b "(I)[") = None /\ deobfuscate rc1 (b "(I)x") = None /\
  deobfuscate rc1 (b "(I)[[Lfoo;x") = None.
Proof. repeat split; vm_compute; reflexivity. Qed.
Example ex_bad_return_hyps :
  (contains 41 (b "Lfoo") = false /\ to_java rc1 [] (b "Lfoo") = None) /\
  (forallb skip (b "[x[") = true /\ contains 41 (b "[x[") = false) /\
  (forallb skip (b "[[") = true /\ ends_with 59 (b "foo;x") = false /\
   contains 41 (b "[[" ++ 76 :: b "foo;x") = false).
Proof. repeat split; vm_compute; reflexivity. Qed.

(* C16_agree: two different implementations of the same lookup *)
Definition rc1' (c : list N) : option (list N) := assoc_get c [(b "x.Long", b "com.example.Foo")].
Example ex_agree_hyp : forall c, rc1 c = rc1' c.
Proof. intros c. reflexivity. Qed.
Example ex_agree s : deobfuscate rc1 s = deobfuscate rc1' s.
Proof. apply C16_agree. exact ex_agree_hyp. Qed.

(* fuel *)
Example ex_fuel :
  tokenize (S (List.length (b "ILa;[[J") + 7)) [] (b "ILa;[[J") = Some [b "I"; b "La;"; b "[[J"].
Proof. vm_compute. reflexivity. Qed.

(* Arbitrary strings: the code is lenient.  Junk bytes before a type are absorbed into its token
   and skipped by to_java; trailing junk and trailing '[' in the parameters are dropped; of the
   return type only the first significant type is used, and an object return type extends to
   the LAST ';'. *)
Example ex_lenient :
  deobfuscate rc0 (b "(xI[)V") = Some ([b "int"], b "void") /\
  deobfuscate rc0 (b "(I)xI") = Some ([b "int"], b "int") /\
  deobfuscate rc0 (b "(I)IJLfoo") = Some ([b "int"], b "int") /\
  deobfuscate rc0 (b "(I)[x[Lfoo;bar;") = Some ([b "int"], b "foo;bar[][]") /\
  deobfuscate rc0 (b "((()I") = Some ([], b "int") /\
  deobfuscate rc0 (b "(IL);)V") = Some ([b "int"; b ")"], b "void").
Proof. repeat split; vm_compute; reflexivity. Qed.
Example ex_spec :
  deobfuscate rc0 (b "(xI[)V") = Some ([b "int"], b "void") /\
  tok [] (b "xI[") = Some [b "xI"].
Proof. split; vm_compute; reflexivity. Qed.
End Examples.

(* ------------------------------------------------------------------------------------ *)
(* Report: deviations from the statements as first proposed.
   1. wf conditions.  C16_valid is proved under conditions strictly more liberal than the proposed
      ones (C16_valid_jvm is the proposed statement, a corollary):
        parameters: void IS accepted as a parameter ("(V)V" -> (["void"], "void")); object names may
          be empty and may contain any byte except ';' (in particular 'L', '[', '(' and ')').
        return: object names may be empty and may contain any byte except ')' (in particular ';').
      Necessity: cex_param_semicolon, cex_ret_paren, cex_nonprim.
   2. The proposed generalisation "to_java rc suffix (encode t) = Some (render rc t ++ suffix)" is
      false for arbitrary suffixes (to_java_general_suffix_false): "[]" is pushed at the END of
      the suffix.  It holds for suffix = brackets k (to_java_encode), which is all the code builds.
   3. C16_unterminated needs junk only ';'-free (not ')'-free) and R only ')'-free.
   4. Findings on arbitrary strings (deobfuscate_spec, deobfuscate_no_drop, ex_lenient): the two
      filters in deobfuscate_bytecode_signature are dead code (every token is non-empty and
      converts); junk bytes are silently skipped; of the return type only the first type is used;
      a return/original name equal to "void" or "" suppresses the ": ret" suffix (ex_format_odd). *)
