(* CacheStructDefs.v — the parsed view of a written structure and its size side conditions. *)
From PG Require Import Base Mapping Spec CacheWriter CacheReader.

Definition cache_of_struct (s : cache_struct) : cache :=
  {| k_classes := map class_words (cs_classes s); k_members := map member_words (cs_members s);
     k_byparams := map member_words (cs_byparams s); k_strings := cs_strings s |}.

(* all stored words fit 32 bits, header counts are the true counts, string bytes are bytes *)
Definition word_ok (w : N) : bool := w <? U32.
Definition struct_wf (s : cache_struct) : bool :=
  forallb (fun c => forallb word_ok (class_words c)) (cs_classes s) &&
  forallb (fun m => forallb word_ok (member_words m)) (cs_members s) &&
  forallb (fun m => forallb word_ok (member_words m)) (cs_byparams s) &&
  forallb (fun b => b <? 256) (cs_strings s) &&
  (lenN (cs_classes s) <? U32) && (lenN (cs_strings s) <? U32) &&
  (cs_num_members s =? lenN (cs_members s)) && (lenN (cs_members s) <? U32) &&
  (cs_num_byparams s =? lenN (cs_byparams s)) && (lenN (cs_byparams s) <? U32).
