(* CrossRelease.v — C10 across releases: the PINNED release's cache reader (Pinned.v, section F5:
   unchecked `original_start + line - start`) and the CURRENT cache reader (CacheReader.v) give the same
   answer to every line-based frame query on every cache file written from an in-domain mapping, by the
   current writer (write_struct) or by the pinned writer (Pinned.write_struct_pinned, finding F1).

   1. c_with_lines_pinned_coincides_gen / _filtered, c_remap_frame_lines_pinned_coincides(_filtered):
      the pinned reader cannot panic, and agrees, when every member row that passes the range filter and
      whose answer depends on the frame line has start <= line and original start + line < 2^64.
   2. written_members_inv / written_rows_safe: the member rows the writer stores for an in-domain mapping
      have all words < 2^32 and either end > 0 or (start, end, original start, original end) = (0, 0, 0, MAX32).
   3. C10_current_files_same_answers.
   4. pinned_writer_sections, C10_pinned_files_same_answers, struct_wf_pinned, C10_pinned_files_parse.
   5. examples. *)
From Coq Require Import String Ascii.
From Coq Require Import Lia.
From PG Require Import Base Mapping Spec Mapper CacheWriter CacheReader CacheStructDefs Domain.
From PG Require Import BinSearchProofs SafetyProofs BtLemmas WriterInv CacheBytesProofs CacheProofs Pinned.

(* ========================================================================================== *)
(* 1. coincidence of the two readers, constraining only the rows that matter                    *)
(* ========================================================================================== *)

(* the range filter of iterate_with_lines: the row is skipped by both readers *)
Definition filtered_out (line : N) (m : list N) : bool :=
  (0 <? w m 2) && ((line <? w m 1) || (w m 2 <? line)).
(* the answer's line is the stored original start line: no arithmetic on the frame line *)
Definition line_indep (m : list N) : bool := (w m 7 =? MAX32) || (w m 7 =? w m 6).

Definition row_safe (line : N) (m : list N) : Prop :=
  filtered_out line m = true \/ line_indep m = true \/ cline_fits line m.

Lemma c_with_lines_pinned_coincides_gen : forall c fclass ffile line ms,
  Forall (row_safe line) ms ->
  c_with_lines_pinned c fclass ffile line ms = Ok (c_with_lines c fclass ffile line ms).
Proof.
  intros c fclass ffile line. induction ms as [|m rest IH]; intros H; [reflexivity|].
  inversion H as [|x l Hm Hr]; subst x l.
  cbn [c_with_lines_pinned c_with_lines]. rewrite (IH Hr).
  unfold row_safe, filtered_out, line_indep in Hm.
  destruct ((0 <? w m 2) && ((line <? w m 1) || (w m 2 <? line))) eqn:Ef; [reflexivity|].
  destruct ((w m 7 =? MAX32) || (w m 7 =? w m 6)) eqn:Ei.
  - (destruct (negb (w m 4 =? MAX32));
     [destruct (read_string (k_strings c) (w m 4)) as [fname|]; [|reflexivity];
      destruct (str_eqb fname synthetic)
     |destruct (negb (w m 3 =? MAX32))]);
    destruct (read_string (k_strings c) (w m 5)); reflexivity.
  - destruct Hm as [Hm|[Hm|[H1 H2]]]; [discriminate Hm|discriminate Hm|].
    replace (U64 <=? w m 6 + line) with false by (symmetry; apply N.leb_gt; exact H2).
    replace (w m 6 + line <? w m 1) with false by (symmetry; apply N.ltb_ge; lia).
    replace (line <? w m 1) with false by (symmetry; apply N.ltb_ge; exact H1).
    replace (U64 <=? line - w m 1 + w m 6) with false by (symmetry; apply N.leb_gt; lia).
    replace (line - w m 1 + w m 6) with (w m 6 + line - w m 1) by lia.
    cbn [orb].
    (destruct (negb (w m 4 =? MAX32));
     [destruct (read_string (k_strings c) (w m 4)) as [fname|]; [|reflexivity];
      destruct (str_eqb fname synthetic)
     |destruct (negb (w m 3 =? MAX32))]);
    destruct (read_string (k_strings c) (w m 5)); reflexivity.
Qed.

(* the statement as requested: filtered out, or cline_fits *)
Lemma c_with_lines_pinned_coincides_filtered : forall c fclass ffile line ms,
  Forall (fun m => ((0 <? w m 2) && ((line <? w m 1) || (w m 2 <? line))) = true \/ cline_fits line m) ms ->
  c_with_lines_pinned c fclass ffile line ms = Ok (c_with_lines c fclass ffile line ms).
Proof.
  intros c fclass ffile line ms H. apply c_with_lines_pinned_coincides_gen.
  eapply Forall_impl; [|exact H]. intros m [Hm|Hm]; [left; exact Hm|right; right; exact Hm].
Qed.

(* Pinned.c_with_lines_pinned_coincides is the special case without the first disjunct *)
Corollary c_with_lines_pinned_coincides_again : forall c fclass ffile line ms,
  Forall (cline_fits line) ms ->
  c_with_lines_pinned c fclass ffile line ms = Ok (c_with_lines c fclass ffile line ms).
Proof.
  intros c fclass ffile line ms H. apply c_with_lines_pinned_coincides_filtered.
  eapply Forall_impl; [|exact H]. intros m Hm. right. exact Hm.
Qed.

(* slice and find_range return contiguous pieces of their input (SafetyProofs.slice_sublist,
   find_range_sub): properties of all rows are inherited *)
Lemma slice_Forall {A} (P : A -> Prop) (l : list A) start len r :
  slice l start len = Some r -> Forall P l -> Forall P r.
Proof.
  intros H Hl. apply slice_sublist in H. destruct H as (p & s & ->).
  apply Forall_app in Hl. destruct Hl as [_ Hl]. apply Forall_app in Hl. exact (proj1 Hl).
Qed.

Lemma find_range_Forall {A} (P : A -> Prop) (f : A -> comparison) d l r :
  find_range f d l = Some r -> Forall P l -> Forall P r.
Proof.
  intros H Hl. apply find_range_sub in H. destruct H as [(p & q & ->) _].
  apply Forall_app in Hl. destruct Hl as [_ Hl]. apply Forall_app in Hl. exact (proj1 Hl).
Qed.

Lemma c_remap_frame_lines_pinned_coincides : forall c cls m line file,
  Forall (row_safe line) (k_members c) ->
  c_remap_frame_lines_pinned c cls m line file = Ok (c_remap_frame_lines c cls m line file).
Proof.
  intros c cls m line file H. unfold c_remap_frame_lines_pinned, c_remap_frame_lines.
  destruct (get_class c cls) as [cl|]; [|reflexivity].
  destruct (read_string (k_strings c) (w cl 1)) as [oc|]; [|reflexivity].
  destruct (slice (k_members c) (w cl 3) (w cl 4)) as [ms|] eqn:Es; [|reflexivity].
  destruct (find_range (fun r => cmp_str (k_strings c) (w r 0) m) [] ms) as [rng|] eqn:Er; [|reflexivity].
  apply c_with_lines_pinned_coincides_gen.
  eapply find_range_Forall; [exact Er|]. eapply slice_Forall; [exact Es|exact H].
Qed.

Lemma c_remap_frame_lines_pinned_coincides_filtered : forall c cls m line file,
  Forall (fun r => ((0 <? w r 2) && ((line <? w r 1) || (w r 2 <? line))) = true \/ cline_fits line r) (k_members c) ->
  c_remap_frame_lines_pinned c cls m line file = Ok (c_remap_frame_lines c cls m line file).
Proof.
  intros c cls m line file H. apply c_remap_frame_lines_pinned_coincides.
  eapply Forall_impl; [|exact H]. intros r [Hr|Hr]; [left; exact Hr|right; right; exact Hr].
Qed.

(* ========================================================================================== *)
(* 2. the member rows of written files                                                          *)
(* ========================================================================================== *)

(* what the writer stores per member: nine 32-bit words; a record WITH a line mapping has end > 0
   (rec_ok), a record WITHOUT one stores (start, end, original start, original end) = (0, 0, 0, MAX32)
   (CacheWriter.member_lines) *)
Definition member_inv (m : member) : Prop :=
  forallb word_ok (member_words m) = true /\
  (0 < m_end m \/ (m_start m = 0 /\ m_end m = 0 /\ m_os m = 0 /\ m_oe m = MAX32)).

Lemma member_words_ok m :
  forallb word_ok (member_words m) = true <->
  (m_obf m < U32 /\ m_start m < U32 /\ m_end m < U32 /\ m_ocls m < U32 /\ m_ofile m < U32 /\
   m_oname m < U32 /\ m_os m < U32 /\ m_oe m < U32 /\ m_params m < U32).
Proof.
  cbn [member_words forallb]. unfold word_ok. rewrite !andb_true_iff, !N.ltb_lt. tauto.
Qed.

Lemma MAX32_lt : MAX32 < U32.
Proof. unfold MAX32, U32. lia. Qed.

Lemma member_lines_inv lm s e os oe : lm_ok lm = true -> member_lines lm = (s, e, os, oe) ->
  s < U32 /\ e < U32 /\ os < U32 /\ oe < U32 /\ (0 < e \/ (s = 0 /\ e = 0 /\ os = 0 /\ oe = MAX32)).
Proof.
  destruct lm as [l|].
  - cbn [lm_ok]. intros H.
    apply andb_true_iff in H. destruct H as [H _]. apply andb_true_iff in H. destruct H as [H _].
    apply andb_true_iff in H. destruct H as [H H3]. apply andb_true_iff in H. destruct H as [_ H2].
    apply N.ltb_lt in H3. pose proof (num_ok_u32 _ H2) as E2.
    unfold member_lines. destruct (lm_os l) as [x|]; [destruct (lm_oe l) as [y|]|];
      intros E; inversion E; subst s e os oe;
      repeat split; try apply u32_lt; try apply MAX32_lt; left; rewrite E2; exact H3.
  - intros _ E. cbn [member_lines] in E. inversion E; subst s e os oe.
    pose proof MAX32_lt. unfold U32 in *.
    repeat split; lia.
Qed.

Lemma bt_push_flat_In {K V} (cmp : K -> K -> comparison) k (v : V) G x :
  In x (flat_map snd (bt_push cmp k v G)) -> x = v \/ In x (flat_map snd G).
Proof.
  induction G as [|[k0 vs0] r IH]; cbn [bt_push].
  - cbn [flat_map snd app]. intros [H|[]]. left. symmetry. exact H.
  - destruct (cmp k k0); cbn [flat_map snd]; intros H.
    + apply in_app_or in H. destruct H as [H|H].
      * apply in_app_or in H. destruct H as [H|[H|[]]].
        -- right. apply in_or_app. left. exact H.
        -- left. symmetry. exact H.
      * right. apply in_or_app. right. exact H.
    + destruct H as [H|H]; [left; symmetry; exact H|right; exact H].
    + apply in_app_or in H. destruct H as [H|H].
      * right. apply in_or_app. left. exact H.
      * destruct (IH H) as [E|E]; [left; exact E|right; apply in_or_app; right; exact E].
Qed.

Definition cip_minv (c : cip) : Prop := forall m, In m (flat_map snd (cip_members c)) -> member_inv m.

Definition wstate_inv (st : wstate) : Prop :=
  c_file (cip_class (w_cur st)) < U32 /\ cip_minv (w_cur st) /\
  (forall kc, In kc (w_classes st) -> cip_minv (snd kc)).

Lemma wstate_init_inv : wstate_inv wstate_init.
Proof.
  unfold wstate_inv, wstate_init, cip_minv.
  cbn [w_cur w_classes cip_default cip_class cip_members class_default c_file flat_map].
  split; [apply MAX32_lt|]. split; [intros m []|intros kc []].
Qed.

Lemma flush_inv st : wstate_inv st -> forall kc, In kc (flush st) -> cip_minv (snd kc).
Proof.
  intros (_ & Hc & Hcl) kc H. unfold flush in H.
  destruct (is_empty (cip_name (w_cur st))); [apply Hcl; exact H|].
  apply bt_insert_In in H. destruct H as [->|H]; [exact Hc|apply Hcl; exact H].
Qed.

Lemma wstep_inv st r next : rec_ok r = true -> wstate_inv st -> wstate_inv (wstep st r next).
Proof.
  intros Hr Hst. pose proof (flush_inv st Hst) as Hfl. destruct Hst as (Hf & Hc & Hcl).
  destruct r as [k v|orig obf|ty orig obf|ty orig obf args ocls lm].
  - cbn [wstep]. destruct (str_eqb k source_file); [|exact (conj Hf (conj Hc Hcl))].
    destruct v as [f|].
    + destruct (stab_insert (w_tab st) f) as [t off]. unfold wstate_inv, cip_minv.
      cbn [w_cur w_classes with_class cip_class cip_members set_file c_file].
      split; [apply u32_lt|]. split; [exact Hc|exact Hcl].
    + unfold wstate_inv, cip_minv.
      cbn [w_cur w_classes with_class cip_class cip_members set_file c_file].
      split; [apply MAX32_lt|]. split; [exact Hc|exact Hcl].
  - cbn [wstep]. destruct (stab_insert (w_tab st) obf) as [t1 o1]. destruct (stab_insert t1 orig) as [t2 o2].
    unfold wstate_inv, cip_minv. cbn [w_cur w_classes cip_class cip_members c_file flat_map].
    split; [apply MAX32_lt|]. split; [intros m []|exact Hfl].
  - cbn [wstep]. exact (conj Hf (conj Hc Hcl)).
  - pose proof (lm_ok_of_rec _ _ _ _ _ _ Hr) as Hlm.
    unfold wstep. destruct (member_lines lm) as [[[s e] os] oe] eqn:Eml.
    destruct (member_lines_inv lm s e os oe Hlm Eml) as (Hs & He & Hos & Hoe & Hz).
    destruct (stab_insert (w_tab st) obf) as [t1 o1]. destruct (stab_insert t1 orig) as [t2 o2].
    assert (Hoc : exists t3 oc, (match ocls with
                                 | Some c => let '(t', o) := stab_insert t2 c in (t', u32 o)
                                 | None => (t2, MAX32)
                                 end) = (t3, oc) /\ oc < U32).
    { destruct ocls as [c|].
      - destruct (stab_insert t2 c) as [t3 o3]. exists t3, (u32 o3). split; [reflexivity|apply u32_lt].
      - exists t2, MAX32. split; [reflexivity|apply MAX32_lt]. }
    destruct Hoc as (t3 & oc & -> & Hoc).
    destruct (stab_insert t3 args) as [t4 o4].
    assert (Hnew : forall x,
      In x (flat_map snd (bt_push lex_cmp obf
             {| m_obf := u32 o1; m_start := s; m_end := e; m_ocls := oc;
                m_ofile := c_file (cip_class (w_cur st)); m_oname := u32 o2;
                m_os := os; m_oe := oe; m_params := u32 o4 |} (cip_members (w_cur st)))) -> member_inv x).
    { intros x Hx. apply bt_push_flat_In in Hx. destruct Hx as [->|Hx]; [|apply Hc; exact Hx].
      split.
      - apply member_words_ok. cbn [m_obf m_start m_end m_ocls m_ofile m_oname m_os m_oe m_params].
        repeat split; try assumption; apply u32_lt.
      - cbn [m_start m_end m_os m_oe]. exact Hz. }
    match goal with |- wstate_inv (if ?b then _ else _) => destruct b end;
      unfold wstate_inv, cip_minv;
      cbn [w_cur w_classes cip_class cip_members c_file bump_m bump_p];
      (split; [exact Hf|]); (split; [exact Hnew|exact Hcl]).
Qed.

Lemma wrun_inv rs : forall st, forallb rec_ok rs = true -> wstate_inv st -> wstate_inv (wrun st rs).
Proof.
  induction rs as [|r rest IH]; intros st H Hst; cbn [wrun]; [exact Hst|].
  cbn [forallb] in H. apply andb_true_iff in H. destruct H as [Hr Hrest].
  apply IH; [exact Hrest|]. apply wstep_inv; assumption.
Qed.

(* the member-row invariant of written files *)
Theorem written_members_inv : forall rs, dom32 rs = true ->
  Forall member_inv (cs_members (write_struct rs)).
Proof.
  intros rs Hd. destruct (write_struct_eq rs) as (_ & -> & _).
  apply Forall_forall. intros m Hm. unfold fl_ms in Hm. apply in_flat_map in Hm.
  destruct Hm as (kc & Hk & Hm).
  exact (flush_inv _ (wrun_inv rs _ Hd wstate_init_inv) kc Hk m Hm).
Qed.
Print Assumptions written_members_inv.

Lemma w_member_words m :
  w (member_words m) 1 = m_start m /\ w (member_words m) 2 = m_end m /\
  w (member_words m) 6 = m_os m /\ w (member_words m) 7 = m_oe m.
Proof. repeat split; reflexivity. Qed.

(* every row satisfying the invariant is safe for every frame line, 2^64 and above included *)
Lemma member_inv_row_safe : forall m line, member_inv m -> row_safe line (member_words m).
Proof.
  intros m line [Hw Hz]. apply member_words_ok in Hw.
  destruct Hw as (_ & Hs & He & _ & _ & _ & Hos & _ & _).
  unfold row_safe, filtered_out, line_indep, cline_fits.
  destruct (w_member_words m) as (-> & -> & -> & ->).
  destruct Hz as [Hz|(Z1 & Z2 & Z3 & Z4)].
  - destruct ((line <? m_start m) || (m_end m <? line)) eqn:Ef.
    + left. apply andb_true_iff. split; [apply N.ltb_lt; exact Hz|reflexivity].
    + right. right. apply orb_false_iff in Ef. destruct Ef as [E1 E2].
      apply N.ltb_ge in E1. apply N.ltb_ge in E2. unfold U32, U64 in *. split; lia.
  - right. left. rewrite Z4, N.eqb_refl. reflexivity.
Qed.

(* the disjunction of item 1 (without the [line_indep] alternative) needs the frame line to fit usize:
   a row without line mapping has start = original start = 0, so cline_fits is [0 + line < 2^64] *)
Lemma member_inv_row_filtered : forall m line, member_inv m -> line < U64 ->
  ((0 <? w (member_words m) 2) && ((line <? w (member_words m) 1) || (w (member_words m) 2 <? line))) = true
  \/ cline_fits line (member_words m).
Proof.
  intros m line Hm Hl. destruct (member_inv_row_safe m line Hm) as [H|[H|H]]; [left; exact H| |right; exact H].
  destruct Hm as [Hw Hz]. apply member_words_ok in Hw.
  destruct Hw as (_ & Hs & He & _ & _ & _ & Hos & _ & _).
  unfold cline_fits. destruct (w_member_words m) as (-> & -> & -> & _).
  destruct Hz as [Hz|(Z1 & Z2 & Z3 & Z4)].
  - destruct ((line <? m_start m) || (m_end m <? line)) eqn:Ef.
    + left. apply andb_true_iff. split; [apply N.ltb_lt; exact Hz|reflexivity].
    + right. apply orb_false_iff in Ef. destruct Ef as [E1 E2].
      apply N.ltb_ge in E1. apply N.ltb_ge in E2. unfold U32, U64 in *. split; lia.
  - right. rewrite Z1, Z3. split; lia.
Qed.

Theorem written_rows_safe : forall rs line, dom32 rs = true ->
  Forall (row_safe line) (k_members (C rs)).
Proof.
  intros rs line Hd. unfold C, cache_of_struct. cbn [k_members].
  apply Forall_forall. intros r Hr. apply in_map_iff in Hr. destruct Hr as (m & <- & Hm).
  apply member_inv_row_safe. exact (proj1 (Forall_forall _ _) (written_members_inv rs Hd) m Hm).
Qed.
Print Assumptions written_rows_safe.

Theorem written_rows_filtered : forall rs line, dom32 rs = true -> line < U64 ->
  Forall (fun r => ((0 <? w r 2) && ((line <? w r 1) || (w r 2 <? line))) = true \/ cline_fits line r)
         (k_members (C rs)).
Proof.
  intros rs line Hd Hl. unfold C, cache_of_struct. cbn [k_members].
  apply Forall_forall. intros r Hr. apply in_map_iff in Hr. destruct Hr as (m & <- & Hm).
  apply member_inv_row_filtered; [|exact Hl].
  exact (proj1 (Forall_forall _ _) (written_members_inv rs Hd) m Hm).
Qed.
Print Assumptions written_rows_filtered.

(* ========================================================================================== *)
(* 3. files of the current writer                                                               *)
(* ========================================================================================== *)

(* no bound on the frame line is needed *)
Theorem C10_current_files_same_answers_any_line : forall rs cls m line file, dom32 rs = true ->
  c_remap_frame_lines_pinned (C rs) cls m line file = Ok (c_remap_frame_lines (C rs) cls m line file).
Proof.
  intros rs cls m line file Hd. apply c_remap_frame_lines_pinned_coincides. apply written_rows_safe. exact Hd.
Qed.
Print Assumptions C10_current_files_same_answers_any_line.

(* the statement as requested *)
Theorem C10_current_files_same_answers : forall rs cls m line file, dom32 rs = true -> line < U64 ->
  c_remap_frame_lines_pinned (C rs) cls m line file = Ok (c_remap_frame_lines (C rs) cls m line file).
Proof.
  intros rs cls m line file Hd Hl. apply c_remap_frame_lines_pinned_coincides_filtered.
  apply written_rows_filtered; assumption.
Qed.
Print Assumptions C10_current_files_same_answers.

(* ========================================================================================== *)
(* 4. files of the pinned writer                                                                *)
(* ========================================================================================== *)

Definition Cp (rs : list record) : cache := cache_of_struct (write_struct_pinned rs).

(* the class section of the pinned writer: both offsets are the running MEMBER count *)
Fixpoint fl_cs_pinned (L : list (list N * cip)) (nm : N) : list classrec :=
  match L with
  | [] => []
  | kc :: r => set_offs (cip_class (snd kc)) nm nm :: fl_cs_pinned r (nm + lenN (cls_ms kc))
  end.

Lemma flatten_pinned_eq L : forall nm np, flatten_pinned L nm np = (fl_cs_pinned L nm, fl_ms L, fl_ps L).
Proof.
  induction L as [|[k c] r IH]; intros nm np; cbn [flatten_pinned]; [reflexivity|].
  rewrite IH. reflexivity.
Qed.

(* the two writers differ only in the class section *)
Theorem pinned_writer_sections : forall rs,
  cs_members (write_struct_pinned rs) = cs_members (write_struct rs) /\
  cs_byparams (write_struct_pinned rs) = cs_byparams (write_struct rs) /\
  cs_strings (write_struct_pinned rs) = cs_strings (write_struct rs) /\
  cs_num_members (write_struct_pinned rs) = cs_num_members (write_struct rs) /\
  cs_num_byparams (write_struct_pinned rs) = cs_num_byparams (write_struct rs) /\
  cs_classes (write_struct_pinned rs) = fl_cs_pinned (flush (wrun wstate_init rs)) 0 /\
  cs_classes (write_struct rs) = fl_cs (flush (wrun wstate_init rs)) 0 0.
Proof.
  intros rs. unfold write_struct_pinned, write_struct_with, write_struct.
  rewrite wrun_with_current, flatten_pinned_eq, flatten_eq. repeat split; reflexivity.
Qed.
Print Assumptions pinned_writer_sections.

Theorem C10_pinned_files_same_answers_any_line : forall rs cls m line file, dom32 rs = true ->
  c_remap_frame_lines_pinned (Cp rs) cls m line file = Ok (c_remap_frame_lines (Cp rs) cls m line file).
Proof.
  intros rs cls m line file Hd. apply c_remap_frame_lines_pinned_coincides.
  unfold Cp, cache_of_struct. cbn [k_members].
  rewrite (proj1 (pinned_writer_sections rs)). exact (written_rows_safe rs line Hd).
Qed.
Print Assumptions C10_pinned_files_same_answers_any_line.

Theorem C10_pinned_files_same_answers : forall rs cls m line file, dom32 rs = true -> line < U64 ->
  c_remap_frame_lines_pinned (Cp rs) cls m line file = Ok (c_remap_frame_lines (Cp rs) cls m line file).
Proof.
  intros rs cls m line file Hd Hl. apply c_remap_frame_lines_pinned_coincides_filtered.
  unfold Cp, cache_of_struct. cbn [k_members].
  rewrite (proj1 (pinned_writer_sections rs)). exact (written_rows_filtered rs line Hd Hl).
Qed.
Print Assumptions C10_pinned_files_same_answers.

(* the pinned file is well formed whenever the current one is: the only words that differ are the
   by-params offsets, which the writer narrows to 32 bits ([set_offs] applies [u32]) *)
Lemma fl_cs_pinned_words L : forall nm np nm',
  forallb (fun c => forallb word_ok (class_words c)) (fl_cs L nm np) = true ->
  forallb (fun c => forallb word_ok (class_words c)) (fl_cs_pinned L nm') = true.
Proof.
  induction L as [|kc r IH]; intros nm np nm' H; [reflexivity|].
  cbn [fl_cs fl_cs_pinned forallb] in *. apply andb_true_iff in H. destruct H as [H1 H2].
  apply andb_true_iff. split; [|eapply IH; exact H2].
  cbn [class_words set_offs c_obf c_orig c_file c_moff c_mlen c_poff c_plen forallb] in *.
  rewrite !andb_true_iff in *. destruct H1 as (A1 & A2 & A3 & _ & A5 & _ & A7 & _).
  assert (Hu : word_ok (u32 nm') = true) by (apply N.ltb_lt; apply u32_lt).
  repeat split; assumption.
Qed.

Lemma fl_cs_pinned_length L : forall nm np nm',
  length (fl_cs_pinned L nm') = length (fl_cs L nm np).
Proof.
  induction L as [|kc r IH]; intros nm np nm'; [reflexivity|].
  cbn [fl_cs fl_cs_pinned length]. f_equal. apply IH.
Qed.

Theorem struct_wf_pinned : forall rs, struct_wf (write_struct rs) = true -> struct_wf (write_struct_pinned rs) = true.
Proof.
  intros rs H. destruct (pinned_writer_sections rs) as (Em & Ep & Es & Enm & Enp & Ec & Ec').
  unfold struct_wf in *. rewrite Em, Ep, Es, Enm, Enp.
  assert (El : lenN (cs_classes (write_struct_pinned rs)) = lenN (cs_classes (write_struct rs))).
  { rewrite Ec, Ec'. unfold lenN. f_equal. apply fl_cs_pinned_length. }
  rewrite El. rewrite !andb_true_iff in *.
  destruct H as (((((((((H1 & H2) & H3) & H4) & H5) & H6) & H7) & H8) & H9) & H10).
  repeat split; try assumption.
  rewrite Ec. rewrite Ec' in H1. eapply fl_cs_pinned_words. exact H1.
Qed.
Print Assumptions struct_wf_pinned.

(* so the pinned release's file is accepted by the (unchanged) parser, and parses to [Cp rs] *)
Theorem C10_pinned_files_parse : forall rs, struct_wf (write_struct rs) = true ->
  parse (ser (write_struct_pinned rs)) = POk (Cp rs).
Proof. intros rs H. unfold Cp. apply parse_ser. apply struct_wf_pinned. exact H. Qed.
Print Assumptions C10_pinned_files_parse.

(* ========================================================================================== *)
(* 5. non-vacuity                                                                               *)
(* ========================================================================================== *)

(* two classes; f1/f2 are an inline pair (same obfuscated range 1:3, f2 is the caller line 20);
   h has a proper range mapping (the line arithmetic is exercised); g has no line mapping *)
Definition map10 : list N :=
  ln "A -> a:" ++
  ln "    1:3:void f1():10:12 -> m" ++
  ln "    1:3:void f2():20 -> m" ++
  ln "    5:9:void h():100:104 -> m" ++
  ln "    void g(int) -> n" ++
  ln "B -> b:" ++
  ln "    2:4:void k():7:9 -> p".
Definition rs10 : list record := recs map10.

Example rs10_shape :
  dom32 rs10 = true /\ sizes_ok rs10 = true /\ length (cs_classes (write_struct rs10)) = 2%nat /\
  map (fun m => (m_start m, m_end m, m_os m, m_oe m)) (cs_members (write_struct rs10)) =
    [(1, 3, 10, 12); (1, 3, 20, MAX32); (5, 9, 100, 104); (0, 0, 0, MAX32); (2, 4, 7, 9)] /\
  (* both shapes of member_inv occur *)
  Forall member_inv (cs_members (write_struct rs10)) /\
  (* the two writers produce different files: class b's by-params offset is 3 resp. 4 *)
  map c_poff (cs_classes (write_struct rs10)) = [0; 3] /\
  map c_poff (cs_classes (write_struct_pinned rs10)) = [0; 4] /\
  Cp rs10 <> C rs10.
Proof.
  split; [vmr|]. split; [vmr|]. split; [vmr|]. split; [vmr|].
  split; [apply written_members_inv; vmr|]. split; [vmr|]. split; [vmr|vmd].
Qed.

(* hit queries, checked by evaluation on the file of either writer: the inline pair at line 2
   (11 = 2 - 1 + 10, and the caller's fixed line 20), the range mapping at line 7 (102 = 7 - 5 + 100) *)
Example C10_current_files_ex :
  c_remap_frame_lines (C rs10) (s2b "a") (s2b "m") 2 None
    = [(s2b "A", s2b "f1", None, 11); (s2b "A", s2b "f2", None, 20)] /\
  c_remap_frame_lines_pinned (C rs10) (s2b "a") (s2b "m") 2 None
    = Ok (c_remap_frame_lines (C rs10) (s2b "a") (s2b "m") 2 None) /\
  c_remap_frame_lines_pinned (C rs10) (s2b "a") (s2b "m") 7 (Some (s2b "X.java"))
    = Ok [(s2b "A", s2b "h", Some (s2b "X.java"), 102)] /\
  c_remap_frame_lines (C rs10) (s2b "a") (s2b "m") 7 (Some (s2b "X.java"))
    = [(s2b "A", s2b "h", Some (s2b "X.java"), 102)] /\
  c_remap_frame_lines_pinned (C rs10) (s2b "b") (s2b "p") 3 None = Ok [(s2b "B", s2b "k", None, 8)] /\
  c_remap_frame_lines (C rs10) (s2b "b") (s2b "p") 3 None = [(s2b "B", s2b "k", None, 8)].
Proof. vm_compute. repeat split; reflexivity. Qed.

Example C10_pinned_files_ex :
  c_remap_frame_lines (Cp rs10) (s2b "a") (s2b "m") 2 None
    = [(s2b "A", s2b "f1", None, 11); (s2b "A", s2b "f2", None, 20)] /\
  c_remap_frame_lines_pinned (Cp rs10) (s2b "a") (s2b "m") 2 None
    = Ok (c_remap_frame_lines (Cp rs10) (s2b "a") (s2b "m") 2 None) /\
  c_remap_frame_lines_pinned (Cp rs10) (s2b "a") (s2b "m") 7 (Some (s2b "X.java"))
    = Ok [(s2b "A", s2b "h", Some (s2b "X.java"), 102)] /\
  c_remap_frame_lines (Cp rs10) (s2b "a") (s2b "m") 7 (Some (s2b "X.java"))
    = [(s2b "A", s2b "h", Some (s2b "X.java"), 102)] /\
  c_remap_frame_lines_pinned (Cp rs10) (s2b "b") (s2b "p") 3 None = Ok [(s2b "B", s2b "k", None, 8)] /\
  c_remap_frame_lines (Cp rs10) (s2b "b") (s2b "p") 3 None = [(s2b "B", s2b "k", None, 8)] /\
  (* the pinned file goes through the bytes *)
  struct_wf (write_struct rs10) = true /\
  parse (ser (write_struct_pinned rs10)) = POk (Cp rs10).
Proof. vm_compute. repeat split; reflexivity. Qed.

(* the theorems instantiated (their hypotheses hold on rs10), also for Pinned.rs1 *)
Example C10_instances :
  (forall cls m line file,
     c_remap_frame_lines_pinned (C rs10) cls m line file = Ok (c_remap_frame_lines (C rs10) cls m line file)) /\
  (forall cls m line file,
     c_remap_frame_lines_pinned (Cp rs10) cls m line file = Ok (c_remap_frame_lines (Cp rs10) cls m line file)) /\
  (forall cls m line file,
     c_remap_frame_lines_pinned (Cp rs1) cls m line file = Ok (c_remap_frame_lines (Cp rs1) cls m line file)) /\
  parse (ser (write_struct_pinned rs10)) = POk (Cp rs10).
Proof.
  split; [intros; apply C10_current_files_same_answers_any_line; vmr|].
  split; [intros; apply C10_pinned_files_same_answers_any_line; vmr|].
  split; [intros; apply C10_pinned_files_same_answers_any_line; vmr|].
  apply C10_pinned_files_parse. vmr.
Qed.

(* a frame line of 2^64 + 5 (not a usize; the model allows it): the method without line mapping
   answers through [line_indep], no arithmetic; this is why no bound on [line] is needed *)
Example C10_huge_line_ex :
  c_remap_frame_lines_pinned (Cp rs10) (s2b "a") (s2b "n") (U64 + 5) None = Ok [(s2b "A", s2b "g", None, 0)] /\
  c_remap_frame_lines (Cp rs10) (s2b "a") (s2b "n") (U64 + 5) None = [(s2b "A", s2b "g", None, 0)] /\
  c_remap_frame_lines_pinned (C rs10) (s2b "a") (s2b "m") (U64 + 5) None = Ok [].
Proof. vm_compute. repeat split; reflexivity. Qed.

(* the row hypothesis is needed: Pinned.s5 is a (corrupted, still well-formed and parseable) file whose
   only member row has end = 0, start = 5, original 1..9.  For frame line 0 the row is not filtered
   (end = 0), depends on the line (9 <> 1, 9 <> MAX32) and 0 < 5 = start: the row is not safe, the
   pinned reader panics on `1 + 0 - 5`, the current one skips the row *)
Example C10_row_hypothesis_needed :
  k_members (cache_of_struct s5) = [[4; 5; 0; MAX32; MAX32; 6; 1; 9; MAX32]] /\
  struct_wf s5 = true /\ parse (ser s5) = POk (cache_of_struct s5) /\
  ~ Forall (row_safe 0) (k_members (cache_of_struct s5)) /\
  ~ Forall member_inv (cs_members s5) /\
  c_remap_frame_lines_pinned (cache_of_struct s5) (s2b "a") (s2b "m") 0 None = Panic /\
  c_remap_frame_lines (cache_of_struct s5) (s2b "a") (s2b "m") 0 None = [] /\
  c_remap_frame_lines_pinned (cache_of_struct s5) (s2b "a") (s2b "m") 0 None
    <> Ok (c_remap_frame_lines (cache_of_struct s5) (s2b "a") (s2b "m") 0 None).
Proof.
  split; [vmr|]. split; [vmr|]. split; [vmr|].
  assert (Hp : c_remap_frame_lines_pinned (cache_of_struct s5) (s2b "a") (s2b "m") 0 None = Panic) by vmr.
  assert (Hn : ~ Forall (row_safe 0) (k_members (cache_of_struct s5))).
  { intros H. rewrite (c_remap_frame_lines_pinned_coincides _ (s2b "a") (s2b "m") 0 None H) in Hp. discriminate Hp. }
  split; [exact Hn|]. split.
  - intros H. apply Hn. unfold cache_of_struct. cbn [k_members].
    apply Forall_forall. intros r Hr. apply in_map_iff in Hr. destruct Hr as (m & <- & Hm).
    apply member_inv_row_safe. exact (proj1 (Forall_forall _ _) H m Hm).
  - split; [exact Hp|]. split; [vmr|]. rewrite Hp. discriminate.
Qed.

(* and so is dom32: Pinned.map5 (end line 2^32, narrowed to 0 by the writer) is outside the domain,
   its written file has the same unsafe row, and the two readers differ on it *)
Example C10_dom32_needed :
  dom32 (recs map5) = false /\
  c_remap_frame_lines_pinned (C (recs map5)) (s2b "a") (s2b "m") 0 None = Panic /\
  c_remap_frame_lines (C (recs map5)) (s2b "a") (s2b "m") 0 None = [].
Proof. vm_compute. repeat split; reflexivity. Qed.

(* ---- summary ----------------------------------------------------------------------------- *)
Check c_with_lines_pinned_coincides_filtered.
Check c_remap_frame_lines_pinned_coincides_filtered.
Check written_members_inv.
Check C10_current_files_same_answers.
Check C10_pinned_files_same_answers.
Check C10_pinned_files_parse.
Print Assumptions c_with_lines_pinned_coincides_gen.
Print Assumptions c_with_lines_pinned_coincides_filtered.
Print Assumptions c_remap_frame_lines_pinned_coincides.
Print Assumptions c_remap_frame_lines_pinned_coincides_filtered.
Print Assumptions C10_instances.
Print Assumptions C10_row_hypothesis_needed.

(* ========================================================================================== *)
(* 6. files of the COMPLETE snapshot writer (F1 + F7; with the F2 parser in front: snapshot_write) *)
(* ========================================================================================== *)
From PG Require CacheLayout.

Definition Cs (rs : list record) : cache := cache_of_struct (write_struct_snapshot rs).

(* The snapshot's record step ignores a header without value.  The current step ignores every header
   whose key is not "sourceFile", and looks at the NEXT record only to see whether it is a method with
   the same range.  So the snapshot's run over [rs] IS the current run over [rs] with every value-less
   header replaced by a header that the current step ignores too. *)
Definition neutral (r : record) : record :=
  match r with
  | RHeader _ None => RHeader [] None
  | _ => r
  end.

Lemma next_same_range_neutral lm next :
  next_same_range lm (match option_map neutral next with Some n => [n] | None => [] end)
  = next_same_range lm (match next with Some n => [n] | None => [] end).
Proof. destruct lm as [l|]; destruct next as [[k [v|]|o b|t o b|t o b a c lm']|]; reflexivity. Qed.

Lemma wstep_pinned_neutral st r next : wstep_pinned st r next = wstep st (neutral r) (option_map neutral next).
Proof.
  destruct r as [k [v|]|o b|t o b|t o b a c lm]; cbn [wstep_pinned neutral]; try reflexivity.
  unfold wstep. rewrite next_same_range_neutral. reflexivity.
Qed.

Lemma wrun_with_pinned_neutral : forall rs st, wrun_with wstep_pinned st rs = wrun st (map neutral rs).
Proof.
  induction rs as [|r rest IH]; intros st; cbn [wrun_with wrun map]; [reflexivity|].
  rewrite wstep_pinned_neutral. replace (hd_error (map neutral rest)) with (option_map neutral (hd_error rest))
    by (destruct rest; reflexivity).
  apply IH.
Qed.

(* the snapshot writer is the F1-only pinned writer (resp. the current writer, for F7 alone) on the
   neutralised records *)
Theorem write_struct_snapshot_neutral : forall rs, write_struct_snapshot rs = write_struct_pinned (map neutral rs).
Proof.
  intros rs. unfold write_struct_snapshot, write_struct_pinned, write_struct_with.
  rewrite wrun_with_pinned_neutral, wrun_with_current. reflexivity.
Qed.
Print Assumptions write_struct_snapshot_neutral.

Theorem write_struct_pinned7_neutral : forall rs, write_struct_pinned7 rs = write_struct (map neutral rs).
Proof.
  intros rs. unfold write_struct_pinned7, write_struct_with, write_struct.
  rewrite wrun_with_pinned_neutral. reflexivity.
Qed.

Lemma rec_ok_neutral r : rec_ok (neutral r) = rec_ok r.
Proof.
  destruct r as [k [v|]|o b|t o b|t o b a c lm]; try reflexivity.
  cbn [neutral rec_ok]. destruct (str_eqb k source_file); destruct (str_eqb [] source_file); reflexivity.
Qed.

Lemma dom32_neutral rs : dom32 (map neutral rs) = dom32 rs.
Proof.
  unfold dom32. induction rs as [|r rest IH]; [reflexivity|].
  cbn [map forallb]. rewrite rec_ok_neutral, IH. reflexivity.
Qed.

(* item 5: without value-less headers the snapshot writer is the F1-only pinned writer *)
Lemma map_neutral_id rs : (forall k, ~ In (RHeader k None) rs) -> map neutral rs = rs.
Proof.
  induction rs as [|r rest IH]; intros H; [reflexivity|]. cbn [map]. f_equal.
  - destruct r as [k [v|]|o b|t o b|t o b a c lm]; try reflexivity.
    exfalso. apply (H k). left. reflexivity.
  - apply IH. intros k Hk. apply (H k). right. exact Hk.
Qed.

Theorem write_struct_snapshot_coincides : forall rs,
  (forall k, ~ In (RHeader k None) rs) -> write_struct_snapshot rs = write_struct_pinned rs.
Proof. intros rs H. rewrite write_struct_snapshot_neutral, (map_neutral_id rs H). reflexivity. Qed.
Print Assumptions write_struct_snapshot_coincides.

(* the invariant also carries over directly, for any record step that preserves it *)
Lemma wrun_with_inv (step : wstate -> record -> option record -> wstate) :
  (forall st r next, rec_ok r = true -> wstate_inv st -> wstate_inv (step st r next)) ->
  forall rs st, forallb rec_ok rs = true -> wstate_inv st -> wstate_inv (wrun_with step st rs).
Proof.
  intros Hstep. induction rs as [|r rest IH]; intros st H Hst; cbn [wrun_with]; [exact Hst|].
  cbn [forallb] in H. apply andb_true_iff in H. destruct H as [Hr Hrest].
  apply IH; [exact Hrest|]. apply Hstep; assumption.
Qed.

Lemma wstep_pinned_inv st r next : rec_ok r = true -> wstate_inv st -> wstate_inv (wstep_pinned st r next).
Proof.
  intros Hr Hst. destruct r as [k [v|]|o b|t o b|t o b a c lm]; cbn [wstep_pinned];
    try (apply wstep_inv; assumption). exact Hst.
Qed.

(* item 1 *)
Theorem snapshot_members_inv : forall rs, dom32 rs = true ->
  Forall member_inv (cs_members (write_struct_snapshot rs)).
Proof.
  intros rs Hd. rewrite write_struct_snapshot_neutral, (proj1 (pinned_writer_sections _)).
  apply written_members_inv. rewrite dom32_neutral. exact Hd.
Qed.
Print Assumptions snapshot_members_inv.

Theorem snapshot_rows_safe : forall rs line, dom32 rs = true -> Forall (row_safe line) (k_members (Cs rs)).
Proof.
  intros rs line Hd. unfold Cs, cache_of_struct. cbn [k_members].
  apply Forall_forall. intros r Hr. apply in_map_iff in Hr. destruct Hr as (m & <- & Hm).
  apply member_inv_row_safe. exact (proj1 (Forall_forall _ _) (snapshot_members_inv rs Hd) m Hm).
Qed.

(* item 2 *)
Theorem C10_snapshot_files_same_answers : forall rs cls m line file, dom32 rs = true ->
  c_remap_frame_lines_pinned (Cs rs) cls m line file = Ok (c_remap_frame_lines (Cs rs) cls m line file).
Proof.
  intros rs cls m line file Hd. apply c_remap_frame_lines_pinned_coincides. apply snapshot_rows_safe. exact Hd.
Qed.
Print Assumptions C10_snapshot_files_same_answers.

(* item 3 *)
Theorem C10_snapshot_files_parse : forall rs, struct_wf (write_struct_snapshot rs) = true ->
  parse (ser (write_struct_snapshot rs)) = POk (Cs rs).
Proof. intros rs H. unfold Cs. apply parse_ser. exact H. Qed.
Print Assumptions C10_snapshot_files_parse.

(* the hypothesis from the current writer: on the neutralised records its structure is well formed;
   that holds in the domain when the four section sizes fit 32 bits (CacheLayout.cache_struct_wf) *)
Theorem struct_wf_snapshot : forall rs,
  struct_wf (write_struct (map neutral rs)) = true -> struct_wf (write_struct_snapshot rs) = true.
Proof. intros rs H. rewrite write_struct_snapshot_neutral. apply struct_wf_pinned. exact H. Qed.
Print Assumptions struct_wf_snapshot.

Theorem struct_wf_snapshot_dom : forall rs, dom32 rs = true -> sizes_ok (map neutral rs) = true ->
  struct_wf (write_struct_snapshot rs) = true.
Proof.
  intros rs Hd Hs. apply struct_wf_snapshot. apply CacheLayout.cache_struct_wf; [|exact Hs].
  rewrite dom32_neutral. exact Hd.
Qed.
Print Assumptions struct_wf_snapshot_dom.

(* item 4: from the bytes of a mapping, through the snapshot's parser *)
Theorem C10_snapshot_bytes_same_answers : forall b cls m line file, dom32 (recs_pinned b) = true ->
  c_remap_frame_lines_pinned (Cs (recs_pinned b)) cls m line file
  = Ok (c_remap_frame_lines (Cs (recs_pinned b)) cls m line file).
Proof. intros b cls m line file H. apply C10_snapshot_files_same_answers. exact H. Qed.
Print Assumptions C10_snapshot_bytes_same_answers.

Theorem C10_snapshot_bytes_parse : forall b, struct_wf (write_struct_snapshot (recs_pinned b)) = true ->
  parse (snapshot_write b) = POk (Cs (recs_pinned b)).
Proof. intros b H. unfold snapshot_write. apply C10_snapshot_files_parse. exact H. Qed.
Print Assumptions C10_snapshot_bytes_parse.

(* ---- item 6: non-vacuity -------------------------------------------------------------------- *)

(* Pinned.map7, the F7 witness (a `# sourceFile` reset before g): the snapshot keeps Foo.kt for g *)
Example C10_snapshot_map7_ex :
  dom32 (recs_pinned map7) = true /\ sizes_ok (map neutral (recs_pinned map7)) = true /\
  struct_wf (write_struct_snapshot (recs_pinned map7)) = true /\
  In (RHeader source_file None) (recs_pinned map7) /\
  parse (snapshot_write map7) = POk (Cs (recs_pinned map7)) /\
  c_remap_frame_lines (Cs (recs_pinned map7)) (s2b "a") (s2b "m") 2 (Some (s2b "SF.java"))
    = [(s2b "A", s2b "g", Some (s2b "Foo.kt"), 20)] /\
  c_remap_frame_lines_pinned (Cs (recs_pinned map7)) (s2b "a") (s2b "m") 2 (Some (s2b "SF.java"))
    = Ok (c_remap_frame_lines (Cs (recs_pinned map7)) (s2b "a") (s2b "m") 2 (Some (s2b "SF.java"))) /\
  (* the current release writes other bytes, and answers with the frame's file *)
  snapshot_write map7 <> write_bytes map7 /\
  c_remap_frame_lines (C (recs map7)) (s2b "a") (s2b "m") 2 (Some (s2b "SF.java"))
    = [(s2b "A", s2b "g", Some (s2b "SF.java"), 20)].
Proof.
  split; [vmr|]. split; [vmr|]. split; [vmr|]. split; [vm_compute; tauto|]. split; [vmr|].
  split; [vmr|]. split; [vmr|]. split; [vmd|vmr].
Qed.

(* F1 + F7 together with line arithmetic: an inline pair (class a: 3 members, 2 by-params entries),
   a `# sourceFile` reset, a range mapping after it, a second class *)
Definition map17 : list N :=
  ln "A -> a:" ++
  ln "# {""id"":""sourceFile"",""fileName"":""Foo.kt""}" ++
  ln "    1:3:void f1():10:12 -> m" ++
  ln "    1:3:void f2():20 -> m" ++
  ln "# sourceFile" ++
  ln "    5:9:void h():100:104 -> m" ++
  ln "B -> b:" ++
  ln "    2:4:void k():7:9 -> p".

Example C10_snapshot_map17_ex :
  dom32 (recs_pinned map17) = true /\ struct_wf (write_struct_snapshot (recs_pinned map17)) = true /\
  map c_poff (cs_classes (write_struct_snapshot (recs_pinned map17))) = [0; 3] /\
  map c_poff (cs_classes (write_struct (recs map17))) = [0; 2] /\
  parse (snapshot_write map17) = POk (Cs (recs_pinned map17)) /\
  c_remap_frame_lines (Cs (recs_pinned map17)) (s2b "a") (s2b "m") 2 None
    = [(s2b "A", s2b "f1", Some (s2b "Foo.kt"), 11); (s2b "A", s2b "f2", Some (s2b "Foo.kt"), 20)] /\
  c_remap_frame_lines_pinned (Cs (recs_pinned map17)) (s2b "a") (s2b "m") 2 None
    = Ok (c_remap_frame_lines (Cs (recs_pinned map17)) (s2b "a") (s2b "m") 2 None) /\
  c_remap_frame_lines (Cs (recs_pinned map17)) (s2b "a") (s2b "m") 7 (Some (s2b "SF.java"))
    = [(s2b "A", s2b "h", Some (s2b "Foo.kt"), 102)] /\
  c_remap_frame_lines_pinned (Cs (recs_pinned map17)) (s2b "a") (s2b "m") 7 (Some (s2b "SF.java"))
    = Ok [(s2b "A", s2b "h", Some (s2b "Foo.kt"), 102)] /\
  c_remap_frame_lines_pinned (Cs (recs_pinned map17)) (s2b "b") (s2b "p") 3 None = Ok [(s2b "B", s2b "k", None, 8)] /\
  snapshot_write map17 <> write_bytes map17.
Proof. repeat (split; [vmr|]). vmd. Qed.

(* F2: an unterminated sourceFile header; the snapshot's parser swallows the next two lines into the
   file name, so h becomes a member of class a (the current parser sees f in a, and h in b).
   Also Pinned.W2 (no members: only the hypotheses and the bytes) *)
Definition map12 : list N :=
  ln "A -> a:" ++
  ln "# {""id"":""sourceFile"",""fileName"":""abc" ++
  ln "    1:3:void f():10:12 -> m" ++
  ln "B -> b:""}" ++
  ln "    5:9:void h():100:104 -> m".
Definition v12 : list N := s2b "abc" ++ [10] ++ s2b "    1:3:void f():10:12 -> m" ++ [10] ++ s2b "B -> b:".

Example C10_snapshot_map12_ex :
  length (recs_pinned map12) = 3%nat /\ length (recs map12) = 4%nat /\
  dom32 (recs_pinned map12) = true /\ struct_wf (write_struct_snapshot (recs_pinned map12)) = true /\
  parse (snapshot_write map12) = POk (Cs (recs_pinned map12)) /\
  c_remap_frame_lines (Cs (recs_pinned map12)) (s2b "a") (s2b "m") 7 None = [(s2b "A", s2b "h", Some v12, 102)] /\
  c_remap_frame_lines_pinned (Cs (recs_pinned map12)) (s2b "a") (s2b "m") 7 None
    = Ok [(s2b "A", s2b "h", Some v12, 102)] /\
  c_remap_frame_lines (C (recs map12)) (s2b "a") (s2b "m") 7 None = [] /\
  snapshot_write map12 <> write_bytes map12 /\
  dom32 (recs_pinned W2) = true /\ struct_wf (write_struct_snapshot (recs_pinned W2)) = true /\
  parse (snapshot_write W2) = POk (Cs (recs_pinned W2)) /\ snapshot_write W2 <> write_bytes W2.
Proof.
  repeat (split; [vmr|]). split; [vmd|]. repeat (split; [vmr|]). vmd.
Qed.

(* the theorems instantiated on the three inputs *)
Example C10_snapshot_instances :
  (forall cls m line file,
     c_remap_frame_lines_pinned (Cs (recs_pinned map7)) cls m line file
     = Ok (c_remap_frame_lines (Cs (recs_pinned map7)) cls m line file)) /\
  (forall cls m line file,
     c_remap_frame_lines_pinned (Cs (recs_pinned map17)) cls m line file
     = Ok (c_remap_frame_lines (Cs (recs_pinned map17)) cls m line file)) /\
  (forall cls m line file,
     c_remap_frame_lines_pinned (Cs (recs_pinned map12)) cls m line file
     = Ok (c_remap_frame_lines (Cs (recs_pinned map12)) cls m line file)) /\
  parse (snapshot_write map17) = POk (Cs (recs_pinned map17)) /\
  struct_wf (write_struct_snapshot (recs_pinned map17)) = true.
Proof.
  split; [intros; apply C10_snapshot_bytes_same_answers; vmr|].
  split; [intros; apply C10_snapshot_bytes_same_answers; vmr|].
  split; [intros; apply C10_snapshot_bytes_same_answers; vmr|].
  split; [apply C10_snapshot_bytes_parse; vmr|].
  apply struct_wf_snapshot_dom; vmr.
Qed.

(* coincidence (item 5) on an input without value-less header, and its failure on map7 *)
Example C10_snapshot_coincides_ex :
  (forall k, ~ In (RHeader k None) rs10) /\ write_struct_snapshot rs10 = write_struct_pinned rs10 /\
  write_struct_snapshot (recs map7) <> write_struct_pinned (recs map7).
Proof.
  split; [|split; [vmr|vmd]].
  intros k H. vm_compute in H. repeat (destruct H as [H|H]; [discriminate H|]). exact H.
Qed.

Check snapshot_members_inv.
Check C10_snapshot_files_same_answers.
Check C10_snapshot_files_parse.
Check C10_snapshot_bytes_same_answers.
Check C10_snapshot_bytes_parse.
Check write_struct_snapshot_coincides.
Print Assumptions C10_snapshot_instances.
