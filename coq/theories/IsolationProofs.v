(* IsolationProofs.v — two structural theorems about the record parser model of Mapping.v:
   (1) no string component of a yielded Ok record contains a line terminator;
   (2) parsing resynchronises at every line break: the Ok records of A ++ nl ++ B are
       those of A followed by those of B. *)
From Coq Require Import Lia Arith Wf_nat.
From PG Require Import Base Mapping MappingProofs.

Definition nlfree (s : list N) : Prop := forallb (fun c => negb (is_nl c)) s = true.
Definition record_strings (r : record) : list (list N) :=
  match r with
  | RHeader k v => k :: match v with Some x => [x] | None => [] end
  | RClass o b => [o; b]
  | RField t o b => [t; o; b]
  | RMethod t o b a c _ => [t; o; b; a] ++ match c with Some x => [x] | None => [] end
  end.

(* ====================================================================== *)
(* Part 1: no terminator inside a yielded component                       *)
(* ====================================================================== *)

Lemma nlfree_In s : nlfree s <-> (forall x, In x s -> is_nl x = false).
Proof.
  unfold nlfree. rewrite forallb_forall. split; intros H x Hx.
  - apply negb_true_iff. apply H. exact Hx.
  - apply negb_true_iff. apply H. exact Hx.
Qed.

Lemma nlfree_incl a b : incl a b -> nlfree b -> nlfree a.
Proof. intros Hi Hb. apply nlfree_In. intros x Hx. apply (proj1 (nlfree_In b) Hb). apply Hi. exact Hx. Qed.

Lemma nlfree_nil : nlfree [].
Proof. reflexivity. Qed.

Lemma nlfree_cons x s : nlfree (x :: s) <-> is_nl x = false /\ nlfree s.
Proof.
  unfold nlfree. cbn [forallb]. rewrite andb_true_iff, negb_true_iff. reflexivity.
Qed.

Lemma span_nlfree p l : (forall x, is_nl x = true -> p x = true) -> nlfree (fst (span p l)).
Proof.
  intros Hp. induction l as [|x xs IH]; cbn [span].
  - reflexivity.
  - destruct (p x) eqn:Ex; [reflexivity|].
    destruct (span p xs) as [a b]. cbn [fst] in *. apply nlfree_cons. split; [|exact IH].
    destruct (is_nl x) eqn:En; [|reflexivity]. rewrite (Hp x En) in Ex. discriminate.
Qed.

Lemma parse_until_nlfree p l a b :
  (forall x, is_nl x = true -> p x = true) -> parse_until p l = Some (a, b) -> nlfree a.
Proof.
  intros Hp. unfold parse_until. pose proof (span_nlfree p l Hp) as Hs.
  destruct (span p l) as [a' b']. cbn [fst] in Hs. destruct (utf8_valid a'); [|discriminate].
  intros H. inversion H; subst. exact Hs.
Qed.

Lemma punn_nlfree p l a b : parse_until_no_newline p l = Some (a, b) -> nlfree a.
Proof.
  unfold parse_until_no_newline. intros H. bind_some H as [a' b'] E.
  destruct (head_is_nl b'); [discriminate|]. inversion H; subst.
  eapply parse_until_nlfree; [|exact E]. intros x Hx. cbn beta. rewrite Hx. reflexivity.
Qed.

(* trim returns elements of its argument *)
Lemma strip_ws_front_incl l r : strip_ws_front l = Some r -> incl r l.
Proof.
  unfold strip_ws_front. destruct l as [|a [|b [|c r3]]]; try discriminate.
  - destruct (ws1 a); [|discriminate]. intros H; inversion H; subst. apply incl_tl, incl_refl.
  - destruct (ws1 a); [intros H; inversion H; subst; apply incl_tl, incl_refl|].
    destruct (ws2 a b); [|discriminate]. intros H; inversion H; subst. apply incl_tl, incl_tl, incl_refl.
  - destruct (ws1 a); [intros H; inversion H; subst; apply incl_tl, incl_refl|].
    destruct (ws2 a b); [intros H; inversion H; subst; apply incl_tl, incl_tl, incl_refl|].
    destruct (ws3 a b c); [|discriminate]. intros H; inversion H; subst.
    apply incl_tl, incl_tl, incl_tl, incl_refl.
Qed.

Lemma strip_ws_back_rev_incl l r : strip_ws_back_rev l = Some r -> incl r l.
Proof.
  unfold strip_ws_back_rev. destruct l as [|a [|b [|c r3]]]; try discriminate.
  - destruct (ws1 a); [|discriminate]. intros H; inversion H; subst. apply incl_tl, incl_refl.
  - destruct (ws1 a); [intros H; inversion H; subst; apply incl_tl, incl_refl|].
    destruct (ws2 b a); [|discriminate]. intros H; inversion H; subst. apply incl_tl, incl_tl, incl_refl.
  - destruct (ws1 a); [intros H; inversion H; subst; apply incl_tl, incl_refl|].
    destruct (ws2 b a); [intros H; inversion H; subst; apply incl_tl, incl_tl, incl_refl|].
    destruct (ws3 c b a); [|discriminate]. intros H; inversion H; subst.
    apply incl_tl, incl_tl, incl_tl, incl_refl.
Qed.

Lemma trim_start_fuel_incl f l : incl (trim_start_fuel f l) l.
Proof.
  revert l. induction f as [|f IH]; intros l; cbn [trim_start_fuel]; [apply incl_refl|].
  destruct (strip_ws_front l) as [r|] eqn:E; [|apply incl_refl].
  eapply incl_tran; [apply IH|]. apply strip_ws_front_incl. exact E.
Qed.

Lemma trim_end_rev_fuel_incl f l : incl (trim_end_rev_fuel f l) l.
Proof.
  revert l. induction f as [|f IH]; intros l; cbn [trim_end_rev_fuel]; [apply incl_refl|].
  destruct (strip_ws_back_rev l) as [r|] eqn:E; [|apply incl_refl].
  eapply incl_tran; [apply IH|]. apply strip_ws_back_rev_incl. exact E.
Qed.

Lemma trim_incl l : incl (trim l) l.
Proof.
  unfold trim, trim_end, trim_start. intros x Hx.
  apply in_rev in Hx. apply trim_end_rev_fuel_incl in Hx. apply in_rev in Hx.
  apply trim_start_fuel_incl in Hx. exact Hx.
Qed.

Lemma trim_nlfree l : nlfree l -> nlfree (trim l).
Proof. apply nlfree_incl, trim_incl. Qed.

Lemma split_last_dot_incl l : forall acc c o,
  split_last_dot acc l = Some (c, o) -> incl c (acc ++ l) /\ incl o l.
Proof.
  induction l as [|x r IH]; intros acc c o H; cbn [split_last_dot] in H; [discriminate|].
  destruct (split_last_dot (acc ++ [x]) r) as [[c' o']|] eqn:E.
  - inversion H; subst. apply IH in E. destruct E as [E1 E2]. rewrite <- app_assoc in E1. cbn [app] in E1.
    split; [exact E1|]. apply incl_tl. exact E2.
  - destruct (x =? 46); [|discriminate]. inversion H; subst. split.
    + apply incl_appl, incl_refl.
    + apply incl_tl, incl_refl.
Qed.

Lemma source_file_nlfree : nlfree source_file.
Proof. reflexivity. Qed.

Ltac fa := repeat apply Forall_cons; try apply Forall_nil; try assumption.

Lemma parse_header_nlfree l r rest : parse_header l = Some (r, rest) -> Forall nlfree (record_strings r).
Proof.
  unfold parse_header. intros H. bind_some H as l0 E.
  destruct (strip_prefix source_file_prefix l0) as [l1|] eqn:E1.
  - bind_some H as [v l2] Ev. bind_some H as l3 Eq. inversion H; subst. cbn [record_strings].
    apply punn_nlfree in Ev. fa. exact source_file_nlfree.
  - bind_some H as [k l2] Ek. bind_some H as [v l3] Ev. inversion H; subst. cbn [record_strings].
    apply parse_until_nlfree in Ek; [|intros x Hx; cbn beta; rewrite Hx; apply orb_true_r].
    constructor; [apply trim_nlfree; exact Ek|].
    destruct (strip_prefix [58] l2) as [l'|] eqn:E3.
    + bind_some Ev as [v' l''] Ev'. inversion Ev; subst. cbn [option_map].
      apply parse_until_nlfree in Ev'; [|intros x Hx; exact Hx].
      fa. apply trim_nlfree. exact Ev'.
    + inversion Ev; subst. cbn [option_map]. constructor.
Qed.

Lemma parse_class_nlfree l r rest : parse_class l = Some (r, rest) -> Forall nlfree (record_strings r).
Proof.
  unfold parse_class. intros H.
  bind_some H as [o l1] Eo. bind_some H as l2 Ea. bind_some H as [ob l3] Eb. bind_some H as l4 Ec.
  inversion H; subst. cbn [record_strings].
  apply punn_nlfree in Eo. apply punn_nlfree in Eb. fa.
Qed.

Lemma parse_member_nlfree l r rest : parse_member l = Some (r, rest) -> Forall nlfree (record_strings r).
Proof.
  unfold parse_member. intros H. bind_some H as l0 E.
  destruct (match parse_usize l0 with Some (v, l') => (Some v, l') | None => (None, l0) end)
    as [startline l1] eqn:E1.
  bind_some H as [endline l2] Eend.
  bind_some H as [ty l3] Ety. apply punn_nlfree in Ety.
  bind_some H as l4 Esp.
  bind_some H as [original l5] Eor. apply punn_nlfree in Eor.
  bind_some H as [arguments l6] Earg.
  bind_some H as [os l7] Eos.
  bind_some H as [oe l8] Eoe.
  bind_some H as l9 Earr.
  bind_some H as [obf l10] Eobf. apply parse_until_nlfree in Eobf; [|intros x Hx; exact Hx].
  destruct arguments as [args|].
  - assert (Hargs : nlfree args).
    { destruct (strip_prefix [40] l5) as [l'|] eqn:E6.
      - bind_some Earg as [a l''] Ea. bind_some Earg as lb Eb. inversion Earg; subst.
        apply punn_nlfree in Ea. exact Ea.
      - inversion Earg. }
    destruct (split_last_dot [] original) as [[c o]|] eqn:Esd; inversion H; subst; cbn [record_strings app].
    + apply split_last_dot_incl in Esd. cbn [app] in Esd. destruct Esd as [Hc Ho].
      fa; eapply nlfree_incl; eassumption.
    + fa.
  - inversion H; subst. cbn [record_strings]. fa.
Qed.

Lemma dispatch_nlfree l r rest : dispatch l = Some (r, rest) -> Forall nlfree (record_strings r).
Proof.
  unfold dispatch. destruct (starts_with [35] l); [apply parse_header_nlfree|].
  destruct (starts_with four_spaces l); [apply parse_member_nlfree|apply parse_class_nlfree].
Qed.

Lemma parse_record_nlfree b r : fst (parse_record b) = IOk r -> Forall nlfree (record_strings r).
Proof.
  unfold parse_record. destruct (dispatch (drop_nl b)) as [[r' rest]|] eqn:E.
  - cbn [fst]. intros H. inversion H; subst. eapply dispatch_nlfree. exact E.
  - destruct (split_line (drop_nl b)). cbn [fst]. discriminate.
Qed.

Theorem items_no_terminator : forall (b : list N) (r : record),
  In (IOk r) (items b) -> Forall nlfree (record_strings r).
Proof.
  intros b. remember (length b) as n eqn:En. revert b En.
  induction n as [n IH] using lt_wf_ind. intros b En r Hin.
  destruct b as [|x xs]; [rewrite items_nil in Hin; destruct Hin|].
  rewrite items_cons in Hin by discriminate.
  destruct Hin as [Hin|Hin].
  - eapply parse_record_nlfree. exact Hin.
  - pose proof (parse_record_progress (x :: xs) ltac:(discriminate)) as Hp.
    eapply (IH (length (snd (parse_record (x :: xs))))); [subst n; exact Hp|reflexivity|exact Hin].
Qed.
Print Assumptions items_no_terminator.

Example items_no_terminator_ex :
  let b := [97;32;45;62;32;98;58;10;32;32;32;32;49;58;50;58;118;32;120;46;102;40;41;32;45;62;32;109;13;10] in
  In (IOk (RMethod [118] [102] [109] [] (Some [120])
             (Some {| lm_start := 1; lm_end := 2; lm_os := None; lm_oe := None |}))) (items b).
Proof. vm_compute. right. left. reflexivity. Qed.

(* ====================================================================== *)
(* Part 2: resynchronisation at line breaks                               *)
(* ====================================================================== *)

Lemma is_nl_cases c : is_nl c = true -> c = 13 \/ c = 10.
Proof.
  unfold is_nl. intros H. apply orb_true_iff in H. destruct H as [H|H]; apply N.eqb_eq in H; auto.
Qed.

Ltac nonempty l :=
  let y := fresh "y" in let t := fresh "t" in let E := fresh "E" in
  destruct l as [|y t]; [reflexivity|]; cbn [bind]; remember (y :: t) as l eqn:E; clear E y t.

Section Ext.
  Variable c : N.
  Variable B : list N.
  Hypothesis Hc : is_nl c = true.

  (* the remaining slice after the long run, given the remaining slice [rest] of the short run
     (every successful parser ends with drop_nl) *)
  Definition ext (rest : list N) : list N :=
    match rest with [] => drop_nl B | _ => rest ++ c :: B end.
  Definition extp {T} (o : option (T * list N)) : option (T * list N) :=
    match o with Some (a, b) => Some (a, b ++ c :: B) | None => None end.
  Definition extn {T} (o : option (T * list N)) : option (T * list N) :=
    match o with Some (a, []) => None | Some (a, b) => Some (a, b ++ c :: B) | None => None end.
  Definition extd {T} (o : option (T * list N)) : option (T * list N) :=
    match o with Some (a, b) => Some (a, ext b) | None => None end.

  Lemma drop_nl_ext l : drop_nl (l ++ c :: B) = ext (drop_nl l).
  Proof.
    induction l as [|x xs IH]; cbn [app drop_nl].
    - rewrite Hc. reflexivity.
    - destruct (is_nl x); [exact IH|]. reflexivity.
  Qed.

  Lemma strip_prefix_ext pre l : nlfree pre ->
    strip_prefix pre (l ++ c :: B) = option_map (fun r => r ++ c :: B) (strip_prefix pre l).
  Proof.
    revert l. induction pre as [|p ps IH]; intros l Hn; cbn [strip_prefix option_map]; [reflexivity|].
    apply nlfree_cons in Hn. destruct Hn as [Hp Hps].
    destruct l as [|x xs]; cbn [app].
    - destruct (p =? c) eqn:E; [|reflexivity]. apply N.eqb_eq in E. subst. congruence.
    - destruct (p =? x); [apply IH; exact Hps|reflexivity].
  Qed.

  Lemma starts_with_ext pre l : nlfree pre -> starts_with pre (l ++ c :: B) = starts_with pre l.
  Proof.
    intros Hn. unfold starts_with. rewrite strip_prefix_ext by exact Hn.
    destruct (strip_prefix pre l); reflexivity.
  Qed.

  Lemma span_ext p l : (forall x, is_nl x = true -> p x = true) ->
    span p (l ++ c :: B) = (fst (span p l), snd (span p l) ++ c :: B).
  Proof.
    intros Hp. induction l as [|x xs IH]; cbn [app span].
    - rewrite (Hp c Hc). reflexivity.
    - destruct (p x); [reflexivity|]. rewrite IH. destruct (span p xs) as [a b]. reflexivity.
  Qed.

  Lemma parse_until_ext p l : (forall x, is_nl x = true -> p x = true) ->
    parse_until p (l ++ c :: B) = extp (parse_until p l).
  Proof.
    intros Hp. unfold parse_until. rewrite span_ext by exact Hp.
    destruct (span p l) as [a b]. cbn [fst snd]. destruct (utf8_valid a); reflexivity.
  Qed.

  Lemma punn_ext p l :
    parse_until_no_newline p (l ++ c :: B) = extn (parse_until_no_newline p l).
  Proof.
    unfold parse_until_no_newline. rewrite parse_until_ext.
    2:{ intros x Hx. cbn beta. rewrite Hx. reflexivity. }
    destruct (parse_until _ l) as [[a b]|]; cbn [extp bind]; [|reflexivity].
    destruct b as [|y b']; cbn [app head_is_nl].
    - rewrite Hc. reflexivity.
    - destruct (is_nl y); reflexivity.
  Qed.

  Lemma nl_not_numeric x : is_nl x = true -> negb (is_numeric x) = true.
  Proof. intros H. apply is_nl_cases in H. destruct H; subst; reflexivity. Qed.

  Lemma parse_usize_ext l : parse_usize (l ++ c :: B) = extp (parse_usize l).
  Proof.
    unfold parse_usize. rewrite span_ext by exact nl_not_numeric.
    destruct (span _ l) as [a b]. cbn [fst snd]. destruct (utf8_valid a); [|reflexivity].
    destruct (parse_uint U64 a); reflexivity.
  Qed.

  Lemma opt_colon_usize_ext en l : opt_colon_usize en (l ++ c :: B) = extp (opt_colon_usize en l).
  Proof.
    unfold opt_colon_usize. destruct en; [|reflexivity].
    rewrite strip_prefix_ext by reflexivity.
    destruct (strip_prefix [58] l) as [l'|]; cbn [option_map]; [|reflexivity].
    rewrite parse_usize_ext. destruct (parse_usize l') as [[v l'']|]; reflexivity.
  Qed.

  Lemma parse_class_ext l : parse_class (l ++ c :: B) = extd (parse_class l).
  Proof.
    unfold parse_class.
    rewrite punn_ext. destruct (parse_until_no_newline _ l) as [[o l1]|]; cbn [extn bind]; [|reflexivity].
    destruct l1 as [|y1 l1']; [reflexivity|]. cbn [bind]. remember (y1 :: l1') as l1 eqn:El1. clear El1.
    rewrite strip_prefix_ext by reflexivity.
    destruct (strip_prefix arrow l1) as [l2|]; cbn [option_map bind]; [|reflexivity].
    rewrite punn_ext. destruct (parse_until_no_newline _ l2) as [[ob l3]|]; cbn [extn bind]; [|reflexivity].
    destruct l3 as [|y3 l3']; [reflexivity|]. cbn [bind]. remember (y3 :: l3') as l3 eqn:El3. clear El3.
    rewrite strip_prefix_ext by reflexivity.
    destruct (strip_prefix [58] l3) as [l4|]; cbn [option_map bind]; [|reflexivity].
    rewrite drop_nl_ext. reflexivity.
  Qed.

  Ltac s_punn a b :=
    rewrite punn_ext;
    match goal with |- context[extn (parse_until_no_newline ?p ?l)] =>
      destruct (parse_until_no_newline p l) as [[a b]|] end;
    cbn [extn bind]; [|reflexivity]; nonempty b.
  Ltac s_strip r :=
    rewrite strip_prefix_ext by reflexivity;
    match goal with |- context[option_map _ (strip_prefix ?p ?l)] =>
      destruct (strip_prefix p l) as [r|] end;
    cbn [option_map bind]; [|reflexivity].
  Ltac s_until a b :=
    rewrite parse_until_ext by (let x := fresh "x" in let Hx := fresh "Hx" in
                                intros x Hx; cbn beta; rewrite ?Hx; auto using orb_true_r);
    match goal with |- context[extp (parse_until ?p ?l)] =>
      destruct (parse_until p l) as [[a b]|] end;
    cbn [extp bind]; [|reflexivity].
  Ltac s_usize a b :=
    rewrite parse_usize_ext;
    match goal with |- context[extp (parse_usize ?l)] =>
      destruct (parse_usize l) as [[a b]|] end;
    cbn [extp bind]; [|reflexivity].
  Ltac s_ocu a b :=
    rewrite opt_colon_usize_ext;
    match goal with |- context[extp (opt_colon_usize ?e ?l)] =>
      destruct (opt_colon_usize e l) as [[a b]|] end;
    cbn [extp bind]; [|reflexivity].

  Lemma parse_header_ext l : parse_header (l ++ c :: B) = extd (parse_header l).
  Proof.
    unfold parse_header.
    s_strip l0.
    rewrite strip_prefix_ext by reflexivity.
    destruct (strip_prefix source_file_prefix l0) as [l1|]; cbn [option_map].
    - s_punn v l2. s_strip l3. rewrite drop_nl_ext. reflexivity.
    - s_until k l2.
      rewrite strip_prefix_ext by reflexivity.
      destruct (strip_prefix [58] l2) as [l3|]; cbn [option_map bind].
      + s_until v l4. rewrite drop_nl_ext. reflexivity.
      + rewrite drop_nl_ext. reflexivity.
  Qed.

  Ltac member_tail :=
    let ty := fresh "ty" in let l3 := fresh "l3" in let l4 := fresh "l4" in
    let orig := fresh "orig" in let l5 := fresh "l5" in let l5' := fresh "l5'" in
    let a := fresh "a" in let l5'' := fresh "l5''" in let l6 := fresh "l6" in
    let os := fresh "os" in let l7 := fresh "l7" in let oe := fresh "oe" in let l8 := fresh "l8" in
    let l9 := fresh "l9" in let obf := fresh "obf" in let l10 := fresh "l10" in
    s_punn ty l3; s_strip l4; s_punn orig l5;
    rewrite strip_prefix_ext by reflexivity;
    destruct (strip_prefix [40] l5) as [l5'|]; cbn [option_map bind];
    [ s_punn a l5''; s_strip l6; cbn [is_some];
      s_ocu os l7; s_ocu oe l8; s_strip l9; s_until obf l10;
      destruct (split_last_dot [] orig) as [[? ?]|]; rewrite drop_nl_ext; reflexivity
    | cbn [is_some opt_colon_usize bind]; s_strip l9; s_until obf l10;
      rewrite drop_nl_ext; reflexivity ].

  Lemma parse_member_ext l : parse_member (l ++ c :: B) = extd (parse_member l).
  Proof.
    unfold parse_member.
    s_strip l0.
    rewrite parse_usize_ext.
    destruct (parse_usize l0) as [[sv l1]|]; cbn [extp].
    - s_strip la. s_usize e lb. s_strip l2. member_tail.
    - cbn [bind]. member_tail.
  Qed.

  Lemma dispatch_ext l : dispatch (l ++ c :: B) = extd (dispatch l).
  Proof.
    unfold dispatch. rewrite !starts_with_ext by reflexivity.
    destruct (starts_with [35] l); [apply parse_header_ext|].
    destruct (starts_with four_spaces l); [apply parse_member_ext|apply parse_class_ext].
  Qed.
End Ext.

Lemma drop_nl_idem l : drop_nl (drop_nl l) = drop_nl l.
Proof.
  induction l as [|x xs IH]; cbn [drop_nl]; [reflexivity|].
  destruct (is_nl x) eqn:E; [exact IH|]. cbn [drop_nl]. rewrite E. reflexivity.
Qed.

Lemma parse_record_drop_nl l : parse_record (drop_nl l) = parse_record l.
Proof. unfold parse_record. rewrite drop_nl_idem. reflexivity. Qed.

Lemma ok_records_cons_ok r its : ok_records (IOk r :: its) = r :: ok_records its.
Proof. reflexivity. Qed.
Lemma ok_records_cons_err e its : ok_records (IErr e :: its) = ok_records its.
Proof. reflexivity. Qed.

(* leading terminators are invisible (the phantom [IErr []] of an all-terminator input is not a record) *)
Lemma recs_drop_nl l : recs (drop_nl l) = recs l.
Proof.
  destruct l as [|x xs]; [reflexivity|].
  unfold recs. rewrite (items_cons (x :: xs)) by discriminate.
  destruct (drop_nl (x :: xs)) as [|y ys] eqn:E.
  - unfold parse_record. rewrite E. reflexivity.
  - rewrite <- E. rewrite items_cons by (rewrite E; discriminate).
    rewrite parse_record_drop_nl. reflexivity.
Qed.

Lemma recs_nl_one c : is_nl c = true -> forall B A, recs (A ++ c :: B) = recs A ++ recs B.
Proof.
  intros Hc B A. remember (length A) as n eqn:En. revert A En.
  induction n as [n IH] using lt_wf_ind. intros A En.
  assert (Hext : forall rest, (length rest < n)%nat -> recs (ext c B rest) = recs rest ++ recs B).
  { intros rest Hl. destruct rest as [|y ys]; cbn [ext].
    - rewrite recs_drop_nl. reflexivity.
    - apply (IH _ Hl). reflexivity. }
  destruct (drop_nl A) as [|y ys] eqn:EA.
  - rewrite <- (recs_drop_nl (A ++ c :: B)), <- (recs_drop_nl A).
    rewrite drop_nl_ext by exact Hc. rewrite EA. cbn [ext]. rewrite recs_drop_nl. reflexivity.
  - assert (HA : A <> []) by (intros ->; discriminate).
    pose proof (parse_record_progress A HA) as Hp. rewrite <- En in Hp.
    unfold recs in *. rewrite (items_cons A HA).
    rewrite (items_cons (A ++ c :: B)) by (destruct A; discriminate).
    unfold parse_record in *. rewrite drop_nl_ext by exact Hc. rewrite EA in *. cbn [ext].
    rewrite dispatch_ext by exact Hc.
    destruct (dispatch (y :: ys)) as [[r rest]|]; cbn [extd fst snd] in *.
    + rewrite !ok_records_cons_ok. rewrite Hext by exact Hp. reflexivity.
    + unfold split_line in *. rewrite span_ext by (exact Hc || (intros x Hx; exact Hx)).
      destruct (span is_nl (y :: ys)) as [a b]. cbn [fst snd] in *.
      destruct b as [|z b']; cbn [app fst snd] in *; rewrite !ok_records_cons_err.
      * reflexivity.
      * apply (IH _ Hp). reflexivity.
Qed.

Theorem recs_isolation : forall (A B nl : list N),
  In nl [[10]; [13]; [13;10]] -> recs (A ++ nl ++ B) = recs A ++ recs B.
Proof.
  intros A B nl Hin. cbn [In] in Hin.
  destruct Hin as [H|[H|[H|[]]]]; subst nl; cbn [app].
  - apply recs_nl_one. reflexivity.
  - apply recs_nl_one. reflexivity.
  - rewrite (recs_nl_one 13 eq_refl). f_equal.
    apply (recs_nl_one 10 eq_refl B []).
Qed.
Print Assumptions recs_isolation.

(* "a -> b:    void f() -> m" yields two records from one physical line; CRLF; "# k: v\n\r\n" *)
Example recs_isolation_ex :
  let A := [97;32;45;62;32;98;58;32;32;32;32;118;111;105;100;32;102;40;41;32;45;62;32;109] in
  let B := [35;32;107;58;32;118;10;13;10] in
  In [13;10] [[10]; [13]; [13;10]] /\
  recs (A ++ [13;10] ++ B) = recs A ++ recs B /\
  recs (A ++ [13;10] ++ B) =
    [RClass [97] [98]; RMethod [118;111;105;100] [102] [109] [] None None; RHeader [107] (Some [118])].
Proof. vm_compute. repeat split. right. right. left. reflexivity. Qed.

(* why the statement is on [recs] and not on [items]: error payloads keep the terminator byte *)
Example items_not_isolated :
  items ([120] ++ [10] ++ []) = [IErr [120;10]] /\ items [120] ++ items [] = [IErr [120]].
Proof. vm_compute. split; reflexivity. Qed.

(* corollary: any number of blank lines / mixed terminators between two chunks *)
Corollary recs_isolation_nls : forall (A B nls : list N),
  nls <> [] -> forallb is_nl nls = true -> recs (A ++ nls ++ B) = recs A ++ recs B.
Proof.
  intros A B nls Hne Hall. destruct nls as [|c cs]; [congruence|]. clear Hne.
  cbn [forallb] in Hall. apply andb_true_iff in Hall. destruct Hall as [Hc Hcs].
  cbn [app]. rewrite (recs_nl_one c Hc). f_equal.
  rewrite <- (recs_drop_nl (cs ++ B)). rewrite <- (recs_drop_nl B). f_equal.
  induction cs as [|d ds IH]; [reflexivity|].
  cbn [forallb] in Hcs. apply andb_true_iff in Hcs. destruct Hcs as [Hd Hds].
  cbn [app drop_nl]. rewrite Hd. apply IH. exact Hds.
Qed.
Print Assumptions recs_isolation_nls.

Check items_no_terminator : forall (b : list N) (r : record),
  In (IOk r) (items b) -> Forall nlfree (record_strings r).
Check recs_isolation : forall (A B nl : list N),
  In nl [[10]; [13]; [13;10]] -> recs (A ++ nl ++ B) = recs A ++ recs B.
