(* SinkProofs.v — property C15: write_all over an arbitrary scripted sink delivers exactly the
   canonical bytes on success, a prefix of them on failure, never reports success after a
   non-retryable failure, retries Interrupted, and the fuel of [run_sink] always suffices. *)
From Coq Require Import List NArith Bool Lia Arith.
From PG Require Import Base Sink.
Import ListNotations.
Local Open Scope N_scope.

(* ------------------------------------------------------------------------------------------ *)
(* 1. One-step unfoldings and a functional induction principle for [write_all]                *)
(* ------------------------------------------------------------------------------------------ *)

Definition bump (st : sstate) : sstate :=
  {| ss_calls := ss_calls st + 1; ss_acc := ss_acc st |}.
Definition take (st : sstate) (d : list N) : sstate :=
  {| ss_calls := ss_calls st + 1; ss_acc := ss_acc st ++ d |}.

Lemma write_all_nil : forall fuel s st, write_all fuel s st [] = (WOk, st).
Proof. intros [|fuel] s st; reflexivity. Qed.

Lemma write_all_O : forall s st b t, write_all 0 s st (b :: t) = (WOutOfFuel, st).
Proof. reflexivity. Qed.

Lemma write_all_S : forall fuel s st b t,
  write_all (S fuel) s st (b :: t) =
  match script_get (ss_calls st) (sk_script s) with
  | Interrupted => write_all fuel s (bump st) (b :: t)
  | Fail => (WErrFail, bump st)
  | r => let n := accept_n s r (lenN (b :: t)) in
         if n =? 0 then (WErrZero, bump st)
         else write_all fuel s (take st (firstn (N.to_nat n) (b :: t))) (skipn (N.to_nat n) (b :: t))
  end.
Proof. intros. cbn [write_all]. destruct (script_get (ss_calls st) (sk_script s)); reflexivity. Qed.

(* what the sink accepts: at most what is offered; zero only on [Short 0] *)
Lemma accept_n_le : forall s r L, accept_n s r L <= L.
Proof.
  intros s r L. unfold accept_n.
  destruct r as [|k| |]; try (destruct (sk_max s =? 0)); lia.
Qed.

Lemma accept_n_zero : forall s r L,
  0 < L -> r <> Interrupted -> r <> Fail -> accept_n s r L = 0 -> r = Short 0.
Proof.
  intros s r L HL Hi Hf H. unfold accept_n in H.
  destruct r as [|k| |]; try congruence.
  - destruct (sk_max s =? 0) eqn:E; [lia|]. apply N.eqb_neq in E. lia.
  - f_equal. lia.
Qed.

Lemma accept_n_short0 : forall s L, accept_n s (Short 0) L = 0.
Proof. intros. unfold accept_n. lia. Qed.

Lemma lenN_cons_pos : forall (b : N) t, 0 < lenN (b :: t).
Proof. intros. unfold lenN. cbn [length]. lia. Qed.

(* functional induction principle: the five ways one loop iteration can go *)
Lemma write_all_rect_gen (s : sink) (P : nat -> sstate -> list N -> wres * sstate -> Prop) :
  (forall fuel st, P fuel st [] (WOk, st)) ->
  (forall st b t, P O st (b :: t) (WOutOfFuel, st)) ->
  (forall fuel st b t,
      script_get (ss_calls st) (sk_script s) = Interrupted ->
      P fuel (bump st) (b :: t) (write_all fuel s (bump st) (b :: t)) ->
      P (S fuel) st (b :: t) (write_all fuel s (bump st) (b :: t))) ->
  (forall fuel st b t,
      script_get (ss_calls st) (sk_script s) = Fail ->
      P (S fuel) st (b :: t) (WErrFail, bump st)) ->
  (forall fuel st b t,
      script_get (ss_calls st) (sk_script s) = Short 0 ->
      P (S fuel) st (b :: t) (WErrZero, bump st)) ->
  (forall fuel st b t n,
      script_get (ss_calls st) (sk_script s) <> Interrupted ->
      script_get (ss_calls st) (sk_script s) <> Fail ->
      script_get (ss_calls st) (sk_script s) <> Short 0 ->
      (1 <= n <= length (b :: t))%nat ->
      P fuel (take st (firstn n (b :: t))) (skipn n (b :: t))
        (write_all fuel s (take st (firstn n (b :: t))) (skipn n (b :: t))) ->
      P (S fuel) st (b :: t)
        (write_all fuel s (take st (firstn n (b :: t))) (skipn n (b :: t)))) ->
  forall fuel st buf, P fuel st buf (write_all fuel s st buf).
Proof.
  intros Hnil HO Hint Hfail Hzero Hacc.
  induction fuel as [|fuel IH]; intros st buf.
  - destruct buf as [|b t]; [rewrite write_all_nil; apply Hnil | rewrite write_all_O; apply HO].
  - destruct buf as [|b t]; [rewrite write_all_nil; apply Hnil|].
    rewrite write_all_S.
    destruct (script_get (ss_calls st) (sk_script s)) as [|k| |] eqn:Er.
    + (* Normal *)
      cbv zeta.
      destruct (accept_n s Normal (lenN (b :: t)) =? 0) eqn:En.
      * apply N.eqb_eq in En.
        apply accept_n_zero in En; [discriminate | apply lenN_cons_pos | discriminate | discriminate].
      * apply N.eqb_neq in En.
        pose proof (accept_n_le s Normal (lenN (b :: t))) as Hle.
        set (n := accept_n s Normal (lenN (b :: t))) in *. clearbody n.
        apply Hacc; try (rewrite Er; discriminate).
        -- unfold lenN in Hle. lia.
        -- apply IH.
    + (* Short k *)
      cbv zeta.
      destruct (accept_n s (Short k) (lenN (b :: t)) =? 0) eqn:En.
      * apply N.eqb_eq in En.
        apply accept_n_zero in En; [| apply lenN_cons_pos | discriminate | discriminate].
        apply Hzero. rewrite Er. exact En.
      * apply N.eqb_neq in En.
        pose proof (accept_n_le s (Short k) (lenN (b :: t))) as Hle.
        assert (Hk0 : k <> 0) by (intros ->; rewrite accept_n_short0 in En; lia).
        set (n := accept_n s (Short k) (lenN (b :: t))) in *. clearbody n.
        apply Hacc; try (rewrite Er; discriminate).
        -- rewrite Er. intro Hk. injection Hk as Hk. contradiction.
        -- unfold lenN in Hle. lia.
        -- apply IH.
    + apply Hint; [exact Er | apply IH].
    + apply Hfail; exact Er.
Qed.

(* ------------------------------------------------------------------------------------------ *)
(* 2. Bytes: what is accepted is a prefix of what is offered, all of it on success             *)
(* ------------------------------------------------------------------------------------------ *)

Definition bytes_spec (st : sstate) (buf : list N) (res : wres * sstate) : Prop :=
  exists done rest, buf = done ++ rest /\ ss_acc (snd res) = ss_acc st ++ done /\
                    (fst res = WOk -> rest = []).

Lemma write_all_bytes : forall s fuel st buf, bytes_spec st buf (write_all fuel s st buf).
Proof.
  intros s.
  apply (write_all_rect_gen s (fun _ st buf res => bytes_spec st buf res)); unfold bytes_spec.
  - intros fuel st. exists [], []. cbn [fst snd app]. rewrite app_nil_r. auto.
  - intros st b t. exists [], (b :: t). cbn [fst snd app]. rewrite app_nil_r.
    repeat split; auto. discriminate.
  - intros fuel st b t _ (d & rest & H1 & H2 & H3). exists d, rest. auto.
  - intros fuel st b t _. exists [], (b :: t). cbn [fst snd app bump ss_acc]. rewrite app_nil_r.
    repeat split; auto. discriminate.
  - intros fuel st b t _. exists [], (b :: t). cbn [fst snd app bump ss_acc]. rewrite app_nil_r.
    repeat split; auto. discriminate.
  - intros fuel st b t n _ _ _ _ (d & rest & H1 & H2 & H3).
    exists (firstn n (b :: t) ++ d), rest. repeat split.
    + rewrite <- app_assoc, <- H1. symmetry. apply firstn_skipn.
    + rewrite H2. unfold take. cbn [ss_acc]. rewrite app_assoc. reflexivity.
    + exact H3.
Qed.

Lemma write_chunks_bytes : forall s fuel chunks st r st',
  write_chunks fuel s st chunks = (r, st') ->
  exists rest, ss_acc st ++ concat chunks = ss_acc st' ++ rest /\ (r = WOk -> rest = []).
Proof.
  intros s fuel. induction chunks as [|c cs IH]; intros st r st' H.
  - cbn [write_chunks] in H. injection H as <- <-. exists []. cbn [concat]. auto.
  - cbn [write_chunks] in H.
    destruct (write_all_bytes s fuel st c) as (d & rest & H1 & H2 & H3).
    destruct (write_all fuel s st c) as [r1 st1] eqn:E. cbn [fst snd] in H2, H3.
    assert (Hother : r1 <> WOk -> (r1, st1) = (r, st') ->
              exists rest0, ss_acc st ++ concat (c :: cs) = ss_acc st' ++ rest0 /\ (r = WOk -> rest0 = [])).
    { intros Hne Heq. injection Heq as <- <-. exists (rest ++ concat cs). split.
      - cbn [concat]. rewrite H2, H1, <- !app_assoc. reflexivity.
      - intros Hr. contradiction. }
    destruct r1; try (apply Hother; [discriminate | exact H]).
    specialize (H3 eq_refl). subst rest. rewrite app_nil_r in H1. subst d.
    apply IH in H. destruct H as (rest & Ha & Hb). exists rest. split; [|exact Hb].
    cbn [concat]. rewrite app_assoc, <- H2. exact Ha.
Qed.

(* ------------------------------------------------------------------------------------------ *)
(* 3. Calls: which responses were consumed                                                     *)
(* ------------------------------------------------------------------------------------------ *)

(* the calls with index in [a, b) met neither [Fail] nor [Short 0] *)
Definition clean (s : sink) (a b : N) : Prop :=
  forall i, a <= i < b ->
    script_get i (sk_script s) <> Fail /\ script_get i (sk_script s) <> Short 0.

Definition calls_spec (s : sink) (st : sstate) (res : wres * sstate) : Prop :=
  ss_calls st <= ss_calls (snd res) /\
  match fst res with
  | WOk | WOutOfFuel => clean s (ss_calls st) (ss_calls (snd res))
  | WErrFail => ss_calls st < ss_calls (snd res) /\
                clean s (ss_calls st) (ss_calls (snd res) - 1) /\
                script_get (ss_calls (snd res) - 1) (sk_script s) = Fail
  | WErrZero => ss_calls st < ss_calls (snd res) /\
                clean s (ss_calls st) (ss_calls (snd res) - 1) /\
                script_get (ss_calls (snd res) - 1) (sk_script s) = Short 0
  end.

Lemma clean_empty : forall s a b, b <= a -> clean s a b.
Proof. intros s a b H i Hi. lia. Qed.

Lemma clean_step : forall s a b,
  script_get a (sk_script s) <> Fail -> script_get a (sk_script s) <> Short 0 ->
  clean s (a + 1) b -> clean s a b.
Proof.
  intros s a b H1 H2 H i Hi. destruct (N.eq_dec i a) as [->|Hne]; [auto|]. apply H. lia.
Qed.

Lemma clean_trans : forall s a b c, clean s a b -> clean s b c -> clean s a c.
Proof.
  intros s a b c H1 H2 i Hi. destruct (N.lt_ge_cases i b); [apply H1 | apply H2]; lia.
Qed.

Lemma calls_spec_step : forall s st st1 res,
  ss_calls st1 = ss_calls st + 1 ->
  script_get (ss_calls st) (sk_script s) <> Fail ->
  script_get (ss_calls st) (sk_script s) <> Short 0 ->
  calls_spec s st1 res -> calls_spec s st res.
Proof.
  intros s st st1 [r st'] Hc Hf Hz [Hle H]. unfold calls_spec. cbn [fst snd] in *. rewrite Hc in *.
  split; [lia|].
  destruct r.
  - apply clean_step; auto.
  - destruct H as (Hlt & Hcl & Hg). split; [lia | split; [|exact Hg]]. apply clean_step; auto.
  - destruct H as (Hlt & Hcl & Hg). split; [lia | split; [|exact Hg]]. apply clean_step; auto.
  - apply clean_step; auto.
Qed.

Lemma write_all_calls : forall s fuel st buf, calls_spec s st (write_all fuel s st buf).
Proof.
  intros s.
  apply (write_all_rect_gen s (fun _ st _ res => calls_spec s st res)).
  - intros fuel st. split; cbn [fst snd]; [lia | apply clean_empty; lia].
  - intros st b t. split; cbn [fst snd]; [lia | apply clean_empty; lia].
  - intros fuel st b t Hr IH. apply calls_spec_step with (st1 := bump st); auto.
    + rewrite Hr. discriminate.
    + rewrite Hr. discriminate.
  - intros fuel st b t Hr. split; cbn [fst snd bump ss_calls]; [lia|].
    replace (ss_calls st + 1 - 1) with (ss_calls st) by lia.
    split; [lia | split; [apply clean_empty; lia | exact Hr]].
  - intros fuel st b t Hr. split; cbn [fst snd bump ss_calls]; [lia|].
    replace (ss_calls st + 1 - 1) with (ss_calls st) by lia.
    split; [lia | split; [apply clean_empty; lia | exact Hr]].
  - intros fuel st b t n _ Hf Hz _ IH.
    apply calls_spec_step with (st1 := take st (firstn n (b :: t))); auto.
Qed.

Lemma write_chunks_calls : forall s fuel chunks st,
  calls_spec s st (write_chunks fuel s st chunks).
Proof.
  intros s fuel. induction chunks as [|c cs IH]; intros st.
  - cbn [write_chunks]. split; cbn [fst snd]; [lia | apply clean_empty; lia].
  - cbn [write_chunks].
    pose proof (write_all_calls s fuel st c) as H1.
    destruct (write_all fuel s st c) as [r1 st1] eqn:E.
    destruct r1; try exact H1.
    specialize (IH st1). destruct H1 as [Hle1 Hc1]. cbn [fst snd] in Hle1, Hc1.
    destruct (write_chunks fuel s st1 cs) as [r st'].
    destruct IH as [Hle2 Hc2]. cbn [fst snd] in Hle2, Hc2.
    split; cbn [fst snd]; [lia|].
    destruct r.
    + eapply clean_trans; eauto.
    + destruct Hc2 as (Hlt & Hcl & Hg). split; [lia | split; [|exact Hg]]. eapply clean_trans; eauto.
    + destruct Hc2 as (Hlt & Hcl & Hg). split; [lia | split; [|exact Hg]]. eapply clean_trans; eauto.
    + eapply clean_trans; eauto.
Qed.

(* ------------------------------------------------------------------------------------------ *)
(* 4. Fuel: [length buf + pending script entries] iterations suffice                           *)
(* ------------------------------------------------------------------------------------------ *)

(* script entries whose call index has not been passed yet *)
Definition pend (c : N) (l : list (N * resp)) : nat :=
  length (filter (fun p => c <=? fst p) l).

Lemma pend_le_length : forall c l, (pend c l <= length l)%nat.
Proof.
  intros c l. unfold pend. induction l as [|p l IH]; cbn [filter length]; [lia|].
  destruct (c <=? fst p); cbn [length]; lia.
Qed.

Lemma pend_antitone : forall c c' l, c <= c' -> (pend c' l <= pend c l)%nat.
Proof.
  intros c c' l Hc. unfold pend. induction l as [|p l IH]; cbn [filter length]; [lia|].
  destruct (c' <=? fst p) eqn:E1; destruct (c <=? fst p) eqn:E2; cbn [length]; try lia.
  apply N.leb_le in E1. apply N.leb_gt in E2. lia.
Qed.

Lemma pend_in : forall c r l, In (c, r) l -> (S (pend (c + 1) l) <= pend c l)%nat.
Proof.
  intros c r l. unfold pend. induction l as [|p l IH]; intros Hin; [destruct Hin|].
  cbn [filter].
  destruct Hin as [->|Hin].
  - cbn [fst]. replace (c + 1 <=? c) with false by (symmetry; apply N.leb_gt; lia).
    rewrite N.leb_refl. cbn [length].
    pose proof (pend_antitone c (c + 1) l ltac:(lia)) as H. unfold pend in H. lia.
  - specialize (IH Hin).
    destruct (c + 1 <=? fst p) eqn:E1; destruct (c <=? fst p) eqn:E2; cbn [length]; try lia.
    apply N.leb_le in E1. apply N.leb_gt in E2. lia.
Qed.

Lemma script_get_in : forall i l, script_get i l <> Normal -> In (i, script_get i l) l.
Proof.
  intros i l. induction l as [|[j r] l IH]; cbn [script_get]; intros H; [congruence|].
  destruct (i =? j) eqn:E.
  - apply N.eqb_eq in E. subst j. left. reflexivity.
  - right. apply IH. exact H.
Qed.

Lemma write_all_fuel : forall s fuel st buf,
  (length buf + pend (ss_calls st) (sk_script s) <= fuel)%nat ->
  fst (write_all fuel s st buf) <> WOutOfFuel.
Proof.
  intros s.
  apply (write_all_rect_gen s (fun fuel st buf res =>
    (length buf + pend (ss_calls st) (sk_script s) <= fuel)%nat -> fst res <> WOutOfFuel)).
  - intros; discriminate.
  - intros st b t H. cbn [length] in H. lia.
  - intros fuel st b t Hr IH H. apply IH. cbn [bump ss_calls].
    pose proof (script_get_in (ss_calls st) (sk_script s)) as Hin. rewrite Hr in Hin.
    specialize (Hin ltac:(discriminate)). apply pend_in in Hin. lia.
  - intros; discriminate.
  - intros; discriminate.
  - intros fuel st b t n _ _ _ Hn IH H. apply IH. cbn [take ss_calls].
    rewrite skipn_length.
    pose proof (pend_antitone (ss_calls st) (ss_calls st + 1) (sk_script s) ltac:(lia)). lia.
Qed.

Lemma write_chunks_fuel : forall s fuel chunks st,
  (length (concat chunks) + pend (ss_calls st) (sk_script s) <= fuel)%nat ->
  fst (write_chunks fuel s st chunks) <> WOutOfFuel.
Proof.
  intros s fuel. induction chunks as [|c cs IH]; intros st H.
  - cbn [write_chunks fst]. discriminate.
  - cbn [write_chunks]. cbn [concat] in H. rewrite app_length in H.
    pose proof (write_all_fuel s fuel st c ltac:(lia)) as H1.
    pose proof (write_all_calls s fuel st c) as [Hle _].
    destruct (write_all fuel s st c) as [r1 st1] eqn:E. cbn [fst snd] in H1, Hle.
    destruct r1; try exact H1.
    apply IH.
    pose proof (pend_antitone _ _ (sk_script s) Hle). lia.
Qed.

(* ------------------------------------------------------------------------------------------ *)
(* 5. Main theorems (C15)                                                                      *)
(* ------------------------------------------------------------------------------------------ *)

Definition st0 : sstate := {| ss_calls := 0; ss_acc := [] |}.

Lemma run_sink_unfold : forall s chunks,
  run_sink s chunks = write_chunks (sink_fuel s chunks) s st0 chunks.
Proof. reflexivity. Qed.

(* the fuel of [run_sink] always suffices: the model never cuts the loop short *)
Theorem C15_no_out_of_fuel : forall s chunks, fst (run_sink s chunks) <> WOutOfFuel.
Proof.
  intros s chunks. rewrite run_sink_unfold. apply write_chunks_fuel.
  unfold sink_fuel. cbn [st0 ss_calls].
  pose proof (pend_le_length 0 (sk_script s)). lia.
Qed.
Print Assumptions C15_no_out_of_fuel.

(* whatever the outcome, only a prefix of the canonical bytes was delivered, in order *)
Theorem C15_prefix : forall s chunks r st,
  run_sink s chunks = (r, st) -> exists rest, concat chunks = ss_acc st ++ rest.
Proof.
  intros s chunks r st H. rewrite run_sink_unfold in H.
  apply write_chunks_bytes in H. destruct H as (rest & H & _). exists rest. exact H.
Qed.
Print Assumptions C15_prefix.

(* success: the accepted bytes are exactly the canonical serialisation *)
Theorem C15_success : forall s chunks st,
  run_sink s chunks = (WOk, st) -> ss_acc st = concat chunks.
Proof.
  intros s chunks st H. rewrite run_sink_unfold in H.
  apply write_chunks_bytes in H. destruct H as (rest & H & Hr).
  rewrite (Hr eq_refl), app_nil_r in H. symmetry. exact H.
Qed.
Print Assumptions C15_success.

(* success implies that no [Fail] (and no [Short 0]) response was consumed *)
Theorem C15_failure_ok : forall s chunks st,
  run_sink s chunks = (WOk, st) ->
  forall i, i < ss_calls st ->
    script_get i (sk_script s) <> Fail /\ script_get i (sk_script s) <> Short 0.
Proof.
  intros s chunks st H i Hi.
  pose proof (write_chunks_calls s (sink_fuel s chunks) chunks st0) as Hc.
  rewrite <- run_sink_unfold, H in Hc. destruct Hc as [_ Hc]. cbn [fst snd st0 ss_calls] in Hc.
  apply Hc. lia.
Qed.
Print Assumptions C15_failure_ok.

(* [WErrFail] is reported exactly when the last call made met a [Fail] response
   (and every earlier call met neither [Fail] nor [Short 0]) *)
Theorem C15_failure_fail : forall s chunks st,
  run_sink s chunks = (WErrFail, st) ->
  0 < ss_calls st /\
  script_get (ss_calls st - 1) (sk_script s) = Fail /\
  (forall i, i < ss_calls st - 1 ->
     script_get i (sk_script s) <> Fail /\ script_get i (sk_script s) <> Short 0).
Proof.
  intros s chunks st H.
  pose proof (write_chunks_calls s (sink_fuel s chunks) chunks st0) as Hc.
  rewrite <- run_sink_unfold, H in Hc. destruct Hc as [_ (Hlt & Hcl & Hg)].
  cbn [fst snd st0 ss_calls] in *. repeat split; auto; apply Hcl; lia.
Qed.
Print Assumptions C15_failure_fail.

(* [WErrZero] (std's ErrorKind::WriteZero) arises only from a [Short 0] response *)
Theorem C15_failure_zero : forall s chunks st,
  run_sink s chunks = (WErrZero, st) ->
  0 < ss_calls st /\
  script_get (ss_calls st - 1) (sk_script s) = Short 0 /\
  (forall i, i < ss_calls st - 1 ->
     script_get i (sk_script s) <> Fail /\ script_get i (sk_script s) <> Short 0).
Proof.
  intros s chunks st H.
  pose proof (write_chunks_calls s (sink_fuel s chunks) chunks st0) as Hc.
  rewrite <- run_sink_unfold, H in Hc. destruct Hc as [_ (Hlt & Hcl & Hg)].
  cbn [fst snd st0 ss_calls] in *. repeat split; auto; apply Hcl; lia.
Qed.
Print Assumptions C15_failure_zero.

(* direct form: if some call made met a non-retryable failure, writing reports that failure,
   and what was delivered is a prefix of the canonical bytes (never success with a truncated file) *)
Theorem C15_failure : forall s chunks r st i,
  run_sink s chunks = (r, st) ->
  i < ss_calls st -> script_get i (sk_script s) = Fail ->
  r = WErrFail /\ i = ss_calls st - 1 /\ exists rest, concat chunks = ss_acc st ++ rest.
Proof.
  intros s chunks r st i H Hi Hf.
  pose proof (C15_prefix _ _ _ _ H) as Hp.
  pose proof (C15_no_out_of_fuel s chunks) as Hfuel. rewrite H in Hfuel. cbn [fst] in Hfuel.
  destruct r.
  - destruct (C15_failure_ok _ _ _ H i Hi) as [Hn _]. contradiction.
  - destruct (C15_failure_zero _ _ _ H) as (_ & Hg & Hcl).
    destruct (N.eq_dec i (ss_calls st - 1)) as [->|Hne]; [congruence|].
    destruct (Hcl i ltac:(lia)) as [Hn _]. contradiction.
  - destruct (C15_failure_fail _ _ _ H) as (_ & Hg & Hcl).
    destruct (N.eq_dec i (ss_calls st - 1)) as [->|Hne]; [auto|].
    destruct (Hcl i ltac:(lia)) as [Hn _]. contradiction.
  - congruence.
Qed.
Print Assumptions C15_failure.

(* same for a zero-length accept *)
Theorem C15_failure_short0 : forall s chunks r st i,
  run_sink s chunks = (r, st) ->
  i < ss_calls st -> script_get i (sk_script s) = Short 0 ->
  r = WErrZero /\ i = ss_calls st - 1 /\ exists rest, concat chunks = ss_acc st ++ rest.
Proof.
  intros s chunks r st i H Hi Hf.
  pose proof (C15_prefix _ _ _ _ H) as Hp.
  pose proof (C15_no_out_of_fuel s chunks) as Hfuel. rewrite H in Hfuel. cbn [fst] in Hfuel.
  destruct r.
  - destruct (C15_failure_ok _ _ _ H i Hi) as [_ Hn]. contradiction.
  - destruct (C15_failure_zero _ _ _ H) as (_ & Hg & Hcl).
    destruct (N.eq_dec i (ss_calls st - 1)) as [->|Hne]; [auto|].
    destruct (Hcl i ltac:(lia)) as [_ Hn]. contradiction.
  - destruct (C15_failure_fail _ _ _ H) as (_ & Hg & Hcl).
    destruct (N.eq_dec i (ss_calls st - 1)) as [->|Hne]; [congruence|].
    destruct (Hcl i ltac:(lia)) as [_ Hn]. contradiction.
  - congruence.
Qed.
Print Assumptions C15_failure_short0.

(* a script is benign when no call can meet [Fail] or [Short 0] *)
Definition benign (s : sink) : Prop :=
  forall i, script_get i (sk_script s) <> Fail /\ script_get i (sk_script s) <> Short 0.

(* decidable sufficient condition on the script entries *)
Definition benign_resp (r : resp) : bool :=
  match r with Fail => false | Short k => negb (k =? 0) | _ => true end.
Definition benignb (s : sink) : bool := forallb (fun p => benign_resp (snd p)) (sk_script s).

Lemma benignb_benign : forall s, benignb s = true -> benign s.
Proof.
  intros s H i. unfold benignb in H.
  assert (Hb : benign_resp (script_get i (sk_script s)) = true).
  { induction (sk_script s) as [|[j r] l IH]; cbn [script_get]; [reflexivity|].
    cbn [forallb snd] in H. apply andb_true_iff in H. destruct H as [H1 H2].
    destruct (i =? j); [exact H1 | apply IH; exact H2]. }
  destruct (script_get i (sk_script s)) as [|k| |]; cbn [benign_resp] in Hb; try discriminate.
  - split; discriminate.
  - split; [discriminate|]. intros Hk. injection Hk as ->. discriminate.
  - split; discriminate.
Qed.

(* Interrupted responses and short writes alone never cause an error *)
Theorem C15_interrupted_retried : forall s chunks,
  benign s -> fst (run_sink s chunks) = WOk.
Proof.
  intros s chunks Hb.
  pose proof (C15_no_out_of_fuel s chunks) as Hfuel.
  destruct (run_sink s chunks) as [r st] eqn:H. cbn [fst] in *.
  destruct r; try congruence.
  - destruct (C15_failure_zero _ _ _ H) as (_ & Hg & _).
    destruct (Hb (ss_calls st - 1)) as [_ Hn]. contradiction.
  - destruct (C15_failure_fail _ _ _ H) as (_ & Hg & _).
    destruct (Hb (ss_calls st - 1)) as [Hn _]. contradiction.
Qed.
Print Assumptions C15_interrupted_retried.

Theorem C15_benign_canonical : forall s chunks,
  benign s -> exists st, run_sink s chunks = (WOk, st) /\ ss_acc st = concat chunks.
Proof.
  intros s chunks Hb. pose proof (C15_interrupted_retried s chunks Hb) as H.
  destruct (run_sink s chunks) as [r st] eqn:E. cbn [fst] in H. subst r.
  exists st. split; [reflexivity|]. eapply C15_success; eauto.
Qed.
Print Assumptions C15_benign_canonical.

(* the delivered bytes do not depend on how the sink chunks the writes *)
Theorem C15_chunking_independent : forall s1 s2 chunks,
  benign s1 -> benign s2 ->
  ss_acc (snd (run_sink s1 chunks)) = ss_acc (snd (run_sink s2 chunks)).
Proof.
  intros s1 s2 chunks H1 H2.
  destruct (C15_benign_canonical s1 chunks H1) as (t1 & E1 & A1).
  destruct (C15_benign_canonical s2 chunks H2) as (t2 & E2 & A2).
  rewrite E1, E2. cbn [snd]. congruence.
Qed.
Print Assumptions C15_chunking_independent.

(* the call counter only grows *)
Theorem C15_calls_monotone : forall s fuel chunks st,
  ss_calls st <= ss_calls (snd (write_chunks fuel s st chunks)).
Proof. intros. apply (write_chunks_calls s fuel chunks st). Qed.
Print Assumptions C15_calls_monotone.

(* sinks accepting at most k >= 1 bytes per call, with any pattern of Interrupted responses *)
Corollary C15_max_k : forall k script chunks,
  forallb (fun p => match snd p with Interrupted | Normal => true | Short j => negb (j =? 0) | Fail => false end)
          script = true ->
  exists st, run_sink {| sk_max := k; sk_script := script |} chunks = (WOk, st) /\
             ss_acc st = concat chunks.
Proof.
  intros k script chunks H. apply C15_benign_canonical. apply benignb_benign.
  unfold benignb. cbn [sk_script]. rewrite <- H. clear H.
  induction script as [|[j r] l IH]; [reflexivity|]. cbn [forallb snd]. rewrite IH.
  destruct r; reflexivity.
Qed.
Print Assumptions C15_max_k.

(* ------------------------------------------------------------------------------------------ *)
(* 6. Examples                                                                                 *)
(* ------------------------------------------------------------------------------------------ *)

Definition ex_chunks : list (list N) := [[1;2;3;4;5]; []; [6;7]].

(* the sink of the task statement: max 3, interrupted at call 2, short at 4, failing at 6 *)
Definition ex_sink : sink :=
  {| sk_max := 3; sk_script := [(2, Interrupted); (4, Short 1); (6, Fail)] |}.

(* calls: 0 -> 3 bytes, 1 -> 2 bytes (chunk 1 done), 2 Interrupted, 3 -> [6;7]: done in 4 calls,
   the Fail at call 6 is never reached *)
Example ex_sink_run :
  run_sink ex_sink ex_chunks = (WOk, {| ss_calls := 4; ss_acc := [1;2;3;4;5;6;7] |}).
Proof. vm_compute. reflexivity. Qed.

(* sink accepting one byte per call: 7 calls *)
Example ex_max1 :
  run_sink {| sk_max := 1; sk_script := [] |} ex_chunks
  = (WOk, {| ss_calls := 7; ss_acc := concat ex_chunks |}).
Proof. vm_compute. reflexivity. Qed.

(* unlimited sink that is short exactly once *)
Example ex_short_once :
  run_sink {| sk_max := 0; sk_script := [(0, Short 2)] |} ex_chunks
  = (WOk, {| ss_calls := 3; ss_acc := concat ex_chunks |}).
Proof. vm_compute. reflexivity. Qed.

(* interrupted at calls 0, 1 and 3; duplicated script index (first entry wins) *)
Example ex_interrupted :
  run_sink {| sk_max := 4; sk_script := [(0, Interrupted); (1, Interrupted); (3, Interrupted); (3, Fail)] |}
           ex_chunks
  = (WOk, {| ss_calls := 6; ss_acc := concat ex_chunks |}).
Proof. vm_compute. reflexivity. Qed.

(* failing at call 3 (the 4th call): error, and a strict prefix was delivered *)
Example ex_fail3 :
  run_sink {| sk_max := 2; sk_script := [(3, Fail)] |} ex_chunks
  = (WErrFail, {| ss_calls := 4; ss_acc := [1;2;3;4;5] |}).
Proof. vm_compute. reflexivity. Qed.

Example ex_fail3_prefix :
  concat ex_chunks = ss_acc (snd (run_sink {| sk_max := 2; sk_script := [(3, Fail)] |} ex_chunks)) ++ [6;7].
Proof. vm_compute. reflexivity. Qed.

(* Ok(0) from the sink: WriteZero error, strict prefix *)
Example ex_zero :
  run_sink {| sk_max := 2; sk_script := [(1, Short 0)] |} ex_chunks
  = (WErrZero, {| ss_calls := 2; ss_acc := [1;2] |}).
Proof. vm_compute. reflexivity. Qed.

(* hypotheses of the theorems are satisfiable *)
Example ex_benign : benignb {| sk_max := 1; sk_script := [(0, Interrupted); (5, Short 1)] |} = true.
Proof. reflexivity. Qed.

Example ex_C15_failure_hyp :
  let s := {| sk_max := 2; sk_script := [(3, Fail)] |} in
  3 < ss_calls (snd (run_sink s ex_chunks)) /\ script_get 3 (sk_script s) = Fail.
Proof. vm_compute. split; reflexivity. Qed.

Example ex_C15_failure_ok_hyp :
  fst (run_sink ex_sink ex_chunks) = WOk /\ script_get 2 (sk_script ex_sink) = Interrupted.
Proof. vm_compute. split; reflexivity. Qed.

(* the fuel bound is tight up to the +1: every script entry is an Interrupted that is met *)
Example ex_fuel_tight :
  let s := {| sk_max := 1; sk_script := [(0, Interrupted); (1, Interrupted); (3, Interrupted)] |} in
  run_sink s [[1;2]] = (WOk, {| ss_calls := 5; ss_acc := [1;2] |}) /\ sink_fuel s [[1;2]] = 6%nat.
Proof. vm_compute. split; reflexivity. Qed.

(* chunking independence on two concrete sinks *)
Example ex_chunking :
  ss_acc (snd (run_sink {| sk_max := 1; sk_script := [(2, Interrupted)] |} ex_chunks))
  = ss_acc (snd (run_sink {| sk_max := 0; sk_script := [(0, Short 3)] |} ex_chunks)).
Proof. vm_compute. reflexivity. Qed.
