(* Domain.v — the representable domain of the cache (property C02's quantifier), as executable
   booleans.  Definitions only: extracted, and evaluated on every generated case so that the
   hypotheses of the cache theorems are known to hold for the cases compared. *)
From PG Require Import Base Mapping Spec CacheWriter.

Definition str_ok (s : list N) : bool := negb (is_empty s) && utf8_valid s.
Definition num_ok (n : N) : bool := n <? MAX32.
Definition lm_ok (lm : option line_mapping) : bool :=
  match lm with
  | None => true
  | Some l => num_ok (lm_start l) && num_ok (lm_end l) && (0 <? lm_end l) &&
              (match lm_os l with Some x => num_ok x | None => true end) &&
              (match lm_oe l with Some x => num_ok x | None => true end)
  end.
Definition rec_ok (r : record) : bool :=
  match r with
  | RHeader k v => if str_eqb k source_file then match v with Some f => str_ok f | None => true end else true
  | RClass o b => str_ok o && str_ok b
  | RField _ _ _ => true
  | RMethod _ orig obf args ocls lm =>
      str_ok orig && str_ok obf && utf8_valid args && (match ocls with Some c => str_ok c | None => true end) &&
      (match lm with None => true | Some l => num_ok (lm_start l) && num_ok (lm_end l) && (0 <? lm_end l) &&
           (match lm_os l with Some x => num_ok x | None => true end) && (match lm_oe l with Some x => num_ok x | None => true end) end)
  end.
Definition dom32 (rs : list record) : bool := forallb rec_ok rs.
Definition sizes_ok (rs : list record) : bool :=
  let s := write_struct rs in
  (lenN (cs_strings s) <? U32) && (lenN (cs_classes s) <? U32) && (lenN (cs_members s) <? U32) && (lenN (cs_byparams s) <? U32).

