(* Stacktrace.v — model of src/stacktrace.rs (parsers, printers) and of the text / typed
   stack trace remapping loops of src/mapper.rs and src/cache/mod.rs, which are one
   function of the two lookups (class lookup, frame remapping). *)
From PG Require Import Base Mapping Spec.

Notation throwable := (str * option str)%type (only parsing).

Definition colon_space : str := [58;32].
Definition at_space : str := [97;116;32].
Definition caused_by : str := [67;97;117;115;101;100;32;98;121;58;32].
Definition indent : str := [32;32;32;32].
Definition unknown : str := [60;117;110;107;110;111;119;110;62].

(* parse_throwable *)
Definition parse_throwable (line : str) : option throwable :=
  let line := trim line in
  let '(cls, msg) := match find_sub colon_space [] line with
                     | Some (a, b) => (a, Some b)
                     | None => (line, None)
                     end in
  if contains 32 cls then None else Some (cls, msg).

(* parse_frame; the slice line[3..len-1] is in bounds because the trimmed line starts
   with "at " and ends with ')' *)
Definition parse_frame (line : str) : option frame :=
  let line := trim line in
  match strip_prefix at_space line with
  | None => None
  | Some rest =>
    if negb (ends_with 41 line) then None else
    let inner := removelast rest in
    match split_once 40 inner with
    | None => None
    | Some (msplit, fsplit) =>
      match rsplit_once 46 msplit with
      | None => None
      | Some (cls, meth) =>
        match split_once 58 fsplit with
        | None => None
        | Some (file, ln) =>
            match parse_uint U64 ln with
            | Some n => Some (cls, meth, Some file, n)
            | None => None
            end
        end
      end
    end
  end.

(* Display *)
Definition print_frame (f : frame) : str :=
  let '(c, m, fl, l) := f in
  at_space ++ c ++ [46] ++ m ++ [40] ++ (match fl with Some x => x | None => unknown end)
  ++ [58] ++ print_dec l ++ [41].
Definition print_throwable (t : throwable) : str :=
  match snd t with
  | Some m => fst t ++ colon_space ++ m
  | None => fst t
  end.

Inductive trace := Trace (exc : option throwable) (frames : list frame) (cause : option trace).

Fixpoint print_trace (t : trace) : str :=
  match t with
  | Trace exc frames cause =>
      (match exc with Some e => print_throwable e ++ [10] | None => [] end)
      ++ flat_map (fun f => indent ++ print_frame f ++ [10]) frames
      ++ (match cause with Some c => caused_by ++ print_trace c | None => [] end)
  end.

(* parse_stacktrace: the loop over the lines after the optional first throwable *)
Fixpoint parse_body (ls : list str) : list frame * option trace :=
  match ls with
  | [] => ([], None)
  | l :: rest =>
    match parse_frame l with
    | Some f => let '(fs, c) := parse_body rest in (f :: fs, c)
    | None =>
      match strip_prefix caused_by l with
      | Some r => let '(fs, c) := parse_body rest in ([], Some (Trace (parse_throwable r) fs c))
      | None => parse_body rest
      end
    end
  end.

Definition parse_trace_lines (ls : list str) : option trace :=
  let exc := match ls with l :: _ => parse_throwable l | [] => None end in
  let body := match exc, ls with Some _, _ :: rest => rest | _, _ => ls end in
  let '(fs, c) := parse_body body in
  if is_some exc || negb (is_empty fs) then Some (Trace exc fs c) else None.

(* StackTrace::try_parse on bytes *)
Definition parse_trace (b : str) : option trace :=
  if utf8_valid b then parse_trace_lines (lines b) else None.

Section Remap.
Variable remap_class : str -> option str.
Variable remap_frame : str -> str -> N -> option str -> list frame.

Definition remap_throwable (t : throwable) : option throwable :=
  match remap_class (fst t) with Some c => Some (c, snd t) | None => None end.

Definition do_frame (f : frame) : list frame := let '(c, m, fl, l) := f in remap_frame c m l fl.

(* format_frames *)
Definition fmt_frames (line : str) (fs : list frame) : str :=
  match fs with
  | [] => line ++ [10]
  | _ => flat_map (fun f => indent ++ print_frame f ++ [10]) fs
  end.

Definition later_line (line : str) : str :=
  match parse_frame line with
  | Some f => fmt_frames line (do_frame f)
  | None =>
    match strip_prefix caused_by line with
    | Some rest =>
      match parse_throwable rest with
      | Some t => match remap_throwable t with
                  | Some t' => caused_by ++ print_throwable t' ++ [10]
                  | None => line ++ [10]
                  end
      | None => line ++ [10]
      end
    | None => line ++ [10]
    end
  end.
Definition first_line (line : str) : str :=
  match parse_throwable line with
  | Some t => match remap_throwable t with
              | Some t' => print_throwable t' ++ [10]
              | None => line ++ [10]
              end
  | None => match parse_frame line with
            | Some f => fmt_frames line (do_frame f)
            | None => line ++ [10]
            end
  end.
(* remap_stacktrace *)
Definition remap_text (input : str) : str :=
  match lines input with
  | [] => []
  | l0 :: ls => first_line l0 ++ flat_map later_line ls
  end.

(* remap_stacktrace_typed *)
Fixpoint remap_typed (t : trace) : trace :=
  match t with
  | Trace exc frames cause =>
      Trace (option_map (fun e => match remap_throwable e with Some e' => e' | None => e end) exc)
            (flat_map (fun f => match do_frame f with [] => [f] | fs => fs end) frames)
            (option_map remap_typed cause)
  end.
End Remap.

Fixpoint depth (t : trace) : nat :=
  match t with Trace _ _ (Some c) => S (depth c) | Trace _ _ None => O end.
