(* MappingProofs.v — proofs about the record parser model (C06, C05, C19 build on it). *)
From Coq Require Import Lia Arith Wf_nat.
From PG Require Import Base Mapping.

(* ---------- decomposition lemmas: every sub-parser returns a suffix ---------- *)
Lemma span_app p l a b : span p l = (a, b) -> l = a ++ b.
Proof.
  revert a b. induction l as [|x xs IH]; intros a b H; cbn [span] in H.
  - inversion H. reflexivity.
  - destruct (p x).
    + inversion H. reflexivity.
    + destruct (span p xs) as [a' b'] eqn:E. inversion H; subst. cbn [app]. f_equal. apply IH. reflexivity.
Qed.

Lemma strip_prefix_app pre l r : strip_prefix pre l = Some r -> l = pre ++ r.
Proof.
  revert l r. induction pre as [|p ps IH]; intros l r H; cbn [strip_prefix] in H.
  - inversion H. reflexivity.
  - destruct l as [|x xs]; [discriminate|]. destruct (p =? x) eqn:E; [|discriminate].
    apply N.eqb_eq in E. subst. cbn [app]. f_equal. apply IH. exact H.
Qed.

Lemma strip_prefix_len pre l r : strip_prefix pre l = Some r -> length l = (length pre + length r)%nat.
Proof. intros H. apply strip_prefix_app in H. subst. apply app_length. Qed.

Lemma drop_nl_len l : (length (drop_nl l) <= length l)%nat.
Proof. induction l as [|x xs IH]; cbn [drop_nl]; [lia|]. destruct (is_nl x); cbn [length]; lia. Qed.

Lemma parse_until_len p l a b : parse_until p l = Some (a, b) -> length l = (length a + length b)%nat.
Proof.
  unfold parse_until. destruct (span p l) as [a' b'] eqn:E. destruct (utf8_valid a'); [|discriminate].
  intros H. inversion H; subst. apply span_app in E. subst. apply app_length.
Qed.

Lemma parse_until_nn_len p l a b :
  parse_until_no_newline p l = Some (a, b) -> length l = (length a + length b)%nat.
Proof.
  unfold parse_until_no_newline.
  destruct (parse_until _ l) as [[a' b']|] eqn:E; cbn [bind]; [|discriminate].
  destruct (head_is_nl b'); [discriminate|]. intros H. inversion H; subst.
  eapply parse_until_len. exact E.
Qed.

Lemma parse_usize_len l v b : parse_usize l = Some (v, b) -> (length b <= length l)%nat.
Proof.
  unfold parse_usize. destruct (span _ l) as [a' b'] eqn:E. destruct (utf8_valid a'); [|discriminate].
  destruct (parse_uint U64 a'); cbn [bind]; [|discriminate]. intros H. inversion H; subst.
  apply span_app in E. subst. rewrite app_length. lia.
Qed.

Lemma opt_colon_usize_len en l v b : opt_colon_usize en l = Some (v, b) -> (length b <= length l)%nat.
Proof.
  unfold opt_colon_usize. destruct en.
  - destruct (strip_prefix [58] l) as [l'|] eqn:E.
    + destruct (parse_usize l') as [[v' l'']|] eqn:E2; cbn [bind]; [|discriminate].
      intros H. inversion H; subst. apply strip_prefix_len in E. apply parse_usize_len in E2.
      cbn [length] in E. lia.
    + intros H. inversion H; subst. lia.
  - intros H. inversion H; subst. lia.
Qed.

Ltac bind_some H :=
  match type of H with
  | bind ?e _ = Some _ =>
      let E := fresh "E" in
      destruct e eqn:E; cbn [bind] in H; [|discriminate H]
  end.
(* same, naming the bound value and the equation *)
Tactic Notation "bind_some" hyp(H) "as" simple_intropattern(x) ident(E) :=
  match type of H with
  | bind ?e _ = Some _ => destruct e as [x|] eqn:E; cbn [bind] in H; [|discriminate H]
  end.

Lemma parse_header_len l r rest : parse_header l = Some (r, rest) -> (length rest < length l)%nat.
Proof.
  unfold parse_header. intros H. bind_some H as l0 E.
  apply strip_prefix_len in E. cbn [length] in E.
  destruct (strip_prefix source_file_prefix l0) as [l1|] eqn:E1.
  - bind_some H as [v l2] Ev. bind_some H as l3 Eq. inversion H; subst.
    apply strip_prefix_len in E1. apply parse_until_nn_len in Ev. apply strip_prefix_len in Eq.
    pose proof (drop_nl_len l3). lia.
  - bind_some H as [k l2] Ek. bind_some H as [v l3] Ev. inversion H; subst.
    apply parse_until_len in Ek.
    assert (length l3 <= length l2)%nat.
    { destruct (strip_prefix [58] l2) as [l'|] eqn:E3.
      - bind_some Ev as [v' l''] Ev'. inversion Ev; subst.
        apply strip_prefix_len in E3. apply parse_until_len in Ev'. cbn [length] in E3. lia.
      - inversion Ev; subst. lia. }
    pose proof (drop_nl_len l3). lia.
Qed.

Lemma parse_class_len l r rest : parse_class l = Some (r, rest) -> (length rest < length l)%nat.
Proof.
  unfold parse_class. intros H.
  bind_some H as [o l1] Eo. bind_some H as l2 Ea. bind_some H as [ob l3] Eb. bind_some H as l4 Ec.
  inversion H; subst.
  apply parse_until_nn_len in Eo. apply strip_prefix_len in Ea. apply parse_until_nn_len in Eb.
  apply strip_prefix_len in Ec. cbn [length arrow] in *. pose proof (drop_nl_len l4). lia.
Qed.

Lemma parse_member_len l r rest : parse_member l = Some (r, rest) -> (length rest < length l)%nat.
Proof.
  unfold parse_member. intros H. bind_some H as l0 E.
  apply strip_prefix_len in E. cbn [length four_spaces] in E.
  destruct (match parse_usize l0 with Some (v, l') => (Some v, l') | None => (None, l0) end)
    as [startline l1] eqn:E1.
  assert (L1 : (length l1 <= length l0)%nat).
  { destruct (parse_usize l0) as [[v l']|] eqn:E2; inversion E1; subst; [|lia].
    eapply parse_usize_len; eauto. }
  bind_some H as [endline l2] Eend.
  assert (L2 : (length l2 <= length l1)%nat).
  { destruct startline.
    - bind_some Eend as la Ea. bind_some Eend as [e lb] Eb. bind_some Eend as lc Ec. inversion Eend; subst.
      apply strip_prefix_len in Ea. apply parse_usize_len in Eb. apply strip_prefix_len in Ec.
      cbn [length] in *. lia.
    - inversion Eend; subst. lia. }
  bind_some H as [ty l3] Ety. apply parse_until_nn_len in Ety.
  bind_some H as l4 Esp. apply strip_prefix_len in Esp.
  bind_some H as [original l5] Eor. apply parse_until_nn_len in Eor.
  bind_some H as [arguments l6] Earg.
  assert (L6 : (length l6 <= length l5)%nat).
  { destruct (strip_prefix [40] l5) as [l'|] eqn:E6.
    - bind_some Earg as [a l''] Ea. bind_some Earg as lb Eb. inversion Earg; subst.
      apply strip_prefix_len in E6. apply parse_until_nn_len in Ea. apply strip_prefix_len in Eb.
      cbn [length] in *. lia.
    - inversion Earg; subst. lia. }
  bind_some H as [os l7] Eos. apply opt_colon_usize_len in Eos.
  bind_some H as [oe l8] Eoe. apply opt_colon_usize_len in Eoe.
  bind_some H as l9 Earr. apply strip_prefix_len in Earr.
  bind_some H as [obf l10] Eobf. apply parse_until_len in Eobf.
  cbn [length arrow] in *.
  assert (length rest <= length l10)%nat.
  { destruct arguments.
    - destruct (split_last_dot [] original) as [[c o]|]; inversion H; subst; apply drop_nl_len.
    - inversion H; subst. apply drop_nl_len. }
  lia.
Qed.

Lemma split_line_len l line rest : l <> [] -> split_line l = (line, rest) -> (length rest < length l)%nat.
Proof.
  unfold split_line. intros Hne. destruct (span is_nl l) as [a b] eqn:E. apply span_app in E. subst.
  destruct b as [|x b']; intros H; inversion H as [[Hl Hr]]; subst line rest.
  - rewrite app_nil_r in *. destruct a; [congruence|]. cbn [length]. lia.
  - rewrite app_length. cbn [length]. lia.
Qed.

(* C06: the iterator always advances *)
Theorem parse_record_progress b : b <> [] -> (length (snd (parse_record b)) < length b)%nat.
Proof.
  intros Hne. unfold parse_record. pose proof (drop_nl_len b) as Hd.
  destruct (dispatch (drop_nl b)) as [[r rest]|] eqn:E.
  - cbn [snd]. unfold dispatch in E.
    destruct (starts_with [35] (drop_nl b)).
    + apply parse_header_len in E. lia.
    + destruct (starts_with four_spaces (drop_nl b)).
      * apply parse_member_len in E. lia.
      * apply parse_class_len in E. lia.
  - destruct (split_line (drop_nl b)) as [line rest] eqn:E2. cbn [snd].
    destruct (drop_nl b) as [|x xs] eqn:E3.
    + unfold split_line in E2. cbn in E2. inversion E2; subst. destruct b; [congruence|]. cbn [length]. lia.
    + apply split_line_len in E2; [lia|discriminate].
Qed.

(* the fuel of the iterator model is never exhausted: more fuel gives the same stream *)
Lemma items_fuel_enough : forall f b, (length b <= f)%nat -> items_fuel f b = items_fuel (length b) b.
Proof.
  intros f b. remember (length b) as n eqn:En. revert f b En.
  induction n as [n IH] using lt_wf_ind. intros f b En Hf.
  destruct b as [|x xs].
  - destruct f; cbn [items_fuel length] in *; subst; reflexivity.
  - destruct f as [|f]; [cbn [length] in *; lia|]. subst n. cbn [length items_fuel].
    pose proof (parse_record_progress (x :: xs) ltac:(discriminate)) as Hp.
    destruct (parse_record (x :: xs)) as [it rest] eqn:E. cbn [snd length] in Hp. f_equal.
    rewrite (IH (length rest) ltac:(cbn [length]; lia) f rest eq_refl ltac:(cbn [length] in Hf; lia)).
    rewrite (IH (length rest) ltac:(cbn [length]; lia) (length xs) rest eq_refl ltac:(lia)).
    reflexivity.
Qed.

(* the unfolding equation of the iterator *)
Lemma items_cons b : b <> [] ->
  items b = fst (parse_record b) :: items (snd (parse_record b)).
Proof.
  intros Hne. unfold items. destruct b as [|x xs]; [congruence|]. cbn [length items_fuel].
  pose proof (parse_record_progress (x :: xs) ltac:(discriminate)) as Hp.
  destruct (parse_record (x :: xs)) as [it rest] eqn:E. cbn [fst snd length] in *. f_equal.
  apply items_fuel_enough. lia.
Qed.

Lemma items_nil : items [] = [].
Proof. reflexivity. Qed.

(* C06: at most one item per input byte *)
Theorem items_length_bound b : (length (items b) <= length b)%nat.
Proof.
  remember (length b) as n eqn:En. revert b En. induction n as [n IH] using lt_wf_ind. intros b En.
  destruct b as [|x xs]; [cbn; lia|].
  rewrite items_cons by discriminate. cbn [length].
  pose proof (parse_record_progress (x :: xs) ltac:(discriminate)) as Hp.
  specialize (IH (length (snd (parse_record (x :: xs)))) ltac:(subst; exact Hp) _ eq_refl).
  subst n. cbn [length] in *. lia.
Qed.
