(* PropC02.v — property C02: a cache written from a mapping answers every query exactly like
   the mapper.  Refinement chain: bytes --parse∘ser = id (CacheBytesProofs)--> written structure
   --reader on the structure = specification (CacheProofs)--> Spec <--mapper = specification
   (MapperProofs)-- mapper.  Text / typed trace remapping and signature deobfuscation are one
   Gallina function of the class lookup and the frame remapping (Stacktrace.v, Java.v), so their
   agreement follows from the agreement of the lookups. *)
From PG Require Import Base Mapping Spec Mapper CacheWriter CacheReader CacheStructDefs
  MapperProofs CacheBytesProofs Domain WriterInv CacheProofs CacheLayout Stacktrace Java JavaProofs
  BridgeC02 BridgeUtf8 Bridges SizeBounds.

(* reading back the written bytes gives exactly the written structure *)
Theorem C02_bytes_roundtrip : forall rs, dom32 rs = true -> sizes_ok rs = true ->
  parse (write rs) = POk (cache_of_struct (write_struct rs)).
Proof. intros rs Hd Hs. unfold write. apply parse_ser. apply cache_struct_wf; assumption. Qed.

Section Agreement.
Variable rs : list record.
Hypothesis Hdom : dom32 rs = true.
Hypothesis Hsize : sizes_ok rs = true.
Hypothesis Hnames : wf_class_names rs = true.
Hypothesis Hlines : wf_line_mappings rs = true.
Let K := cache_of_struct (write_struct rs).

Theorem C02_class : forall ix c, c_remap_class K c = m_remap_class (build ix rs) c.
Proof. intros ix c. unfold K. change (cache_of_struct (write_struct rs)) with (C rs). rewrite (cache_class rs Hdom Hsize c), (mapper_class ix rs c Hnames). reflexivity. Qed.

Theorem C02_method : forall ix c m, c_remap_method K c m = m_remap_method (build ix rs) c m.
Proof. intros ix c m. unfold K. change (cache_of_struct (write_struct rs)) with (C rs). rewrite (cache_method rs Hdom Hsize c m), (mapper_method ix rs c m Hnames). reflexivity. Qed.

Theorem C02_frame_by_line : forall ix c m line file,
  Ok (c_remap_frame_lines K c m line file) = m_remap_frame_lines (build ix rs) c m line file.
Proof.
  intros ix c m line file. unfold K. change (cache_of_struct (write_struct rs)) with (C rs).
  rewrite (cache_lines rs Hdom Hsize c m line file), (mapper_lines ix rs c m line file Hnames Hlines). reflexivity.
Qed.

Theorem C02_frame_by_params : forall c m p,
  c_remap_frame_params K c m p = m_remap_frame_params (build true rs) c m p.
Proof. intros c m p. unfold K. change (cache_of_struct (write_struct rs)) with (C rs). rewrite (cache_params rs Hdom Hsize c m p), (mapper_params rs c m p Hnames). reflexivity. Qed.

(* signature deobfuscation: same function of lookups that agree on every class *)
Theorem C02_signature : forall ix s,
  deobfuscate (c_remap_class K) s = deobfuscate (m_remap_class (build ix rs)) s.
Proof. intros ix s. apply C16_agree. intros c. apply C02_class. Qed.
End Agreement.

(* line-based answers of the mapper are the same whether or not the parameter index was requested *)
Theorem C02_index_irrelevant : forall rs c m line file,
  wf_class_names rs = true -> wf_line_mappings rs = true ->
  m_remap_frame_lines (build true rs) c m line file = m_remap_frame_lines (build false rs) c m line file.
Proof. exact mapper_index_irrelevant. Qed.

(* whole-stack-trace remapping, text and typed: cache = mapper (= the loop instantiated with the
   specification lookups), under the representable domain only *)
Theorem C02_text_trace : forall rs ix, dom32 rs = true -> sizes_ok rs = true -> forall input,
  remap_text (c_remap_class (C rs)) (c_remap_frame_lines (C rs)) input
  = remap_text (m_remap_class (build ix rs))
               (fun c m l f => frames_of (m_remap_frame_lines (build ix rs) c m l f)) input
  /\ remap_text (c_remap_class (C rs)) (c_remap_frame_lines (C rs)) input
     = remap_text (Sclass rs) (Sline rs) input.
Proof. exact C02_text_dom. Qed.

Theorem C02_typed_trace : forall rs ix, dom32 rs = true -> sizes_ok rs = true -> forall t,
  remap_typed (c_remap_class (C rs)) (c_remap_frame_lines (C rs)) t
  = remap_typed (m_remap_class (build ix rs))
                (fun c m l f => frames_of (m_remap_frame_lines (build ix rs) c m l f)) t
  /\ remap_typed (c_remap_class (C rs)) (c_remap_frame_lines (C rs)) t
     = remap_typed (Sclass rs) (Sline rs) t.
Proof. exact C02_typed_dom. Qed.

(* for records parsed from bytes the domain reduces to: names non-empty, numbers < 2^32-1
   (UTF-8 validity and positive end lines are theorems about parser output) *)
Theorem C02_domain_of_parsed_bytes : forall b, simple_ok (recs b) = true -> dom32 (recs b) = true.
Proof. exact dom32_recs_simple. Qed.

(* purely input-level form: for every mapping file below 2 GiB whose records have non-empty names
   and numbers < 2^32-1, the bytes written parse back and the cache answers every line query as the
   specification (the size side condition is a theorem: the string section is at most twice the file) *)
Theorem C02_from_bytes : forall b, lenN b < 2147483648 -> simple_ok (recs b) = true ->
  parse (write_bytes b) = POk (C (recs b)) /\
  (forall c m line file, c_remap_frame_lines (C (recs b)) c m line file = Sline (recs b) c m line file) /\
  (forall c m p, c_remap_frame_params (C (recs b)) c m p = Sparams (recs b) c m p) /\
  (forall c, c_remap_class (C (recs b)) c = Sclass (recs b) c) /\
  (forall c m, c_remap_method (C (recs b)) c m = Smethod (recs b) c m).
Proof.
  intros b Hl Hs. repeat split; intros.
  - apply parse_write_bytes; assumption.
  - apply cache_lines_bytes; assumption.
  - apply cache_params_bytes; assumption.
  - apply cache_class_bytes; assumption.
  - apply cache_method_bytes; assumption.
Qed.

Theorem C02_sizes_from_length : forall b : list N, lenN b < 2147483648 -> sizes_ok (recs b) = true.
Proof. exact sizes_ok_of_length. Qed.
