(* PropC08.v — property C08: typed remapping keeps every element and agrees with the text API. *)
From PG Require Import Base Spec Stacktrace RemapProofs StacktraceRoundtrip BridgeC08 Iterative.

Theorem C08_same_depth : forall rc rf t, depth (remap_typed rc rf t) = depth t.
Proof. exact C08_depth. Qed.

(* node by node: the exception is remapped or kept, every frame is replaced by its remapped
   frames or kept when it does not resolve; nothing is dropped *)
Theorem C08_node_by_node : forall rc rf t,
  nodes (remap_typed rc rf t) =
  map (fun '(e, fs) =>
         (option_map (fun e => match remap_throwable rc e with Some e' => e' | None => e end) e,
          flat_map (fun f => match do_frame rf f with [] => [f] | fs' => fs' end) fs))
      (nodes t).
Proof. exact C08_shape. Qed.

(* for traces in canonical printed form, printing the typed result is the text API's output *)
Theorem C08_typed_print_is_text : forall rc rf t,
  canonical t -> print_trace (remap_typed rc rf t) = remap_text rc rf (print_trace t).
Proof. exact C08_print. Qed.
Theorem C08_typed_print_is_text_b : forall rc rf t,
  canonicalb t = true -> print_trace (remap_typed rc rf t) = remap_text rc rf (print_trace t).
Proof. exact C08_print_b. Qed.

(* the same under the syntactic well-formedness of C17 (plus: no CR inside components) *)
Theorem C08_typed_print_is_text_wf : forall t, wf_trace_nocr t = true -> forall rc rf,
  print_trace (remap_typed rc rf t) = remap_text rc rf (print_trace t).
Proof. exact C08_print_wf. Qed.

(* the code as written since fix 5c75dfb: collect the levels of the cause chain in a loop, remap each level
   on its own, rebuild the chain from the innermost level; `unwrap` of the rebuilt chain never fails.
   The loop is the recursive model function, for every trace of every depth. *)
Theorem C08_iterative_code : forall rc rf t, remap_typed_iter rc rf t = Some (remap_typed rc rf t).
Proof. exact remap_typed_iter_correct. Qed.
Theorem C08_levels_preserved : forall rc rf t,
  levels (remap_typed rc rf t) = map (remap_level rc rf) (levels t).
Proof. exact levels_remap_typed. Qed.

Check C08_same_depth : forall rc rf t, depth (remap_typed rc rf t) = depth t.
Check C08_typed_print_is_text : forall rc rf t,
  canonical t -> print_trace (remap_typed rc rf t) = remap_text rc rf (print_trace t).
