(* PropC04.v — property C04: exact class lookup, unambiguous method lookup. *)
From PG Require Import Base Mapping Spec Mapper CacheWriter CacheReader MapperProofs Domain WriterInv CacheProofs Roundtrip FileLevel.

Theorem C04_class_mapper : forall ix rs c, wf_class_names rs = true ->
  m_remap_class (build ix rs) c = Sclass rs c.
Proof. exact mapper_class. Qed.

Theorem C04_method_mapper : forall ix rs c m, wf_class_names rs = true ->
  m_remap_method (build ix rs) c m = Smethod rs c m.
Proof. exact mapper_method. Qed.

Theorem C04_class_cache : forall rs c, dom32 rs = true -> sizes_ok rs = true ->
  c_remap_class (C rs) c = Sclass rs c.
Proof. intros rs c Hd Hs. apply cache_class; assumption. Qed.

Theorem C04_method_cache : forall rs c m, dom32 rs = true -> sizes_ok rs = true ->
  c_remap_method (C rs) c m = Smethod rs c m.
Proof. intros rs c m Hd Hs. apply cache_method; assumption. Qed.

(* whenever method lookup answers, every line-based frame carries that method name *)
Theorem C04_consistent : forall rs c m k o line file,
  Smethod rs c m = Some (k, o) -> Forall (fun fr => snd (fst (fst fr)) = o) (Sline rs c m line file).
Proof. exact method_lines_consistent. Qed.

(* whole files: class and method lookup depend only on the grammar lines of the file *)
Theorem C04_file_independent : forall f1 f2 c m,
  wf_file f1 = true -> wf_file f2 = true -> file_lines f1 = file_lines f2 ->
  Sclass (recs (print_file f1)) c = Sclass (recs (print_file f2)) c /\
  Smethod (recs (print_file f1)) c m = Smethod (recs (print_file f2)) c m.
Proof. intros f1 f2 c m H1 H2 H. split.
  - exact (Sclass_file_independent f1 f2 H1 H2 H c).
  - exact (Smethod_file_independent f1 f2 H1 H2 H c m). Qed.

Check C04_class_mapper : forall ix rs c, wf_class_names rs = true -> m_remap_class (build ix rs) c = Sclass rs c.
Check C04_method_mapper : forall ix rs c m, wf_class_names rs = true -> m_remap_method (build ix rs) c m = Smethod rs c m.
