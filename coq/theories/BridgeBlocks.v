(* BridgeBlocks.v — bridge (3): the order of distinctly named class blocks is irrelevant for every
   query of the specification (property C01, last clause); in general [block_of] is the LAST block
   with the given obfuscated name. *)
From Coq Require Import Lia Permutation.
From PG Require Import Base Mapping Spec MapperProofs.

(* ------------------------------------------------------------------ *)
(* find                                                                 *)
(* ------------------------------------------------------------------ *)
Lemma find_none_iff {A} (p : A -> bool) l : find p l = None <-> Forall (fun x => p x = false) l.
Proof.
  induction l as [|x l IH]; cbn [find].
  - split; [constructor|reflexivity].
  - destruct (p x) eqn:E.
    + split; [discriminate|]. intros H. inversion H as [|x0 l0 Hx _]. congruence.
    + rewrite IH. split; [intros H; constructor; assumption|intros H; inversion H; assumption].
Qed.

(* the first match *)
Lemma find_first_iff {A} (p : A -> bool) l b :
  find p l = Some b <->
  exists l1 l2, l = l1 ++ b :: l2 /\ p b = true /\ Forall (fun x => p x = false) l1.
Proof.
  induction l as [|x l IH]; cbn [find].
  - split; [discriminate|]. intros (l1 & l2 & H & _). destruct l1; discriminate H.
  - destruct (p x) eqn:E.
    + split.
      * intros H. injection H as ->. exists [], l. repeat split; [exact E|constructor].
      * intros (l1 & l2 & H & Hb & Hl1). destruct l1 as [|y l1].
        -- cbn [app] in H. injection H as -> _. reflexivity.
        -- cbn [app] in H. injection H as -> _. inversion Hl1 as [|y0 l0 Hy _]. congruence.
    + rewrite IH. split.
      * intros (l1 & l2 & -> & Hb & Hl1). exists (x :: l1), l2. repeat split; [exact Hb|constructor; assumption].
      * intros (l1 & l2 & H & Hb & Hl1). destruct l1 as [|y l1].
        -- cbn [app] in H. injection H as -> _. congruence.
        -- cbn [app] in H. injection H as -> ->. inversion Hl1; subst. exists l1, l2. repeat split; assumption.
Qed.

(* in the reversed list: the last match *)
Lemma find_rev_last_iff {A} (p : A -> bool) l b :
  find p (rev l) = Some b <->
  exists l1 l2, l = l1 ++ b :: l2 /\ p b = true /\ Forall (fun x => p x = false) l2.
Proof.
  rewrite find_first_iff. split.
  - intros (l1 & l2 & H & Hb & Hl1). exists (rev l2), (rev l1). repeat split; [|exact Hb|].
    + rewrite <- (rev_involutive l), H, rev_app_distr. cbn [rev]. rewrite <- app_assoc. reflexivity.
    + apply Forall_rev. exact Hl1.
  - intros (l1 & l2 & -> & Hb & Hl2). exists (rev l2), (rev l1). repeat split; [|exact Hb|].
    + rewrite rev_app_distr. cbn [rev]. rewrite <- app_assoc. reflexivity.
    + apply Forall_rev. exact Hl2.
Qed.

(* with pairwise distinct keys [find] is a function of the set of elements *)
Section Keyed.
Variable key : block -> str.
Let p (c : str) (b : block) : bool := str_eqb (key b) c.

Lemma find_key_unique c l b : NoDup (map key l) -> In b l -> key b = c -> find (p c) l = Some b.
Proof.
  induction l as [|x l IH]; intros Hnd Hin Hk; [destruct Hin|]. cbn [map] in Hnd. inversion Hnd as [|k ks Hx Hnd']; subst k ks.
  cbn [find]. unfold p at 1. destruct (str_eqb (key x) c) eqn:E.
  - apply str_eqb_eq in E. destruct Hin as [->|Hin]; [reflexivity|].
    exfalso. apply Hx. rewrite E, <- Hk. apply in_map. exact Hin.
  - destruct Hin as [->|Hin].
    + apply str_eqb_neq in E. contradiction.
    + apply IH; assumption.
Qed.

Lemma find_key_perm c l1 l2 : NoDup (map key l1) -> Permutation l1 l2 -> find (p c) l1 = find (p c) l2.
Proof.
  intros Hnd HP.
  assert (Hnd2 : NoDup (map key l2)) by (eapply Permutation_NoDup; [apply Permutation_map; exact HP|exact Hnd]).
  destruct (find (p c) l1) as [b|] eqn:E.
  - apply find_some in E. destruct E as [Hin Hb]. unfold p in Hb. apply str_eqb_eq in Hb.
    symmetry. apply find_key_unique; [exact Hnd2| |exact Hb]. eapply Permutation_in; eassumption.
  - symmetry. apply find_none_iff. apply find_none_iff in E. rewrite Forall_forall in *.
    intros x Hx. apply E. eapply Permutation_in; [apply Permutation_sym; exact HP|exact Hx].
Qed.
End Keyed.

(* ------------------------------------------------------------------ *)
(* blocks of a flattened block list                                     *)
(* ------------------------------------------------------------------ *)
Definition bodies_class_free (bs : list block) : Prop := Forall (fun b => no_class (b_body b) = true) bs.

Lemma split_blocks_body body rest : no_class body = true ->
  split_blocks (body ++ rest) = (body ++ fst (split_blocks rest), snd (split_blocks rest)).
Proof.
  induction body as [|r body IH]; intros H.
  - cbn [app]. destruct (split_blocks rest); reflexivity.
  - cbn [no_class forallb] in H. apply andb_true_iff in H. destruct H as [Hr H]. fold (no_class body) in H.
    specialize (IH H). cbn [app].
    destruct r as [k v|o ob|ty o ob|ty orig obf args ocls lm]; [|discriminate Hr| |];
      cbn [split_blocks]; rewrite IH; reflexivity.
Qed.

Lemma split_blocks_unblocks bs : bodies_class_free bs -> split_blocks (unblocks bs) = ([], bs).
Proof.
  induction bs as [|b bs IH]; intros H; [reflexivity|]. inversion H as [|b0 bs0 Hb Hbs]; subst b0 bs0.
  cbn [unblocks flat_map]. fold (unblocks bs). unfold unblock at 1. cbn [app split_blocks].
  rewrite (split_blocks_body _ _ Hb), (IH Hbs). cbn [fst snd]. rewrite app_nil_r. destruct b; reflexivity.
Qed.

Lemma split_blocks_pre_unblocks pre bs : no_class pre = true -> bodies_class_free bs ->
  split_blocks (pre ++ unblocks bs) = (pre, bs).
Proof.
  intros Hp Hb. rewrite (split_blocks_body _ _ Hp), (split_blocks_unblocks bs Hb). cbn [fst snd].
  rewrite app_nil_r. reflexivity.
Qed.

Theorem blocks_unblocks bs : bodies_class_free bs -> blocks (unblocks bs) = bs.
Proof. intros H. unfold blocks. rewrite (split_blocks_unblocks bs H). reflexivity. Qed.

(* the hypothesis describes exactly what split_blocks produces *)
Lemma blocks_class_free rs : bodies_class_free (blocks rs).
Proof.
  unfold blocks. destruct (split_blocks rs) as [pre bs] eqn:E.
  destruct (split_blocks_inv rs pre bs E) as (_ & _ & H). exact H.
Qed.

(* ------------------------------------------------------------------ *)
(* block_of is the last block with that name                            *)
(* ------------------------------------------------------------------ *)
Theorem block_of_last rs c b :
  block_of rs c = Some b <->
  exists l1 l2, blocks rs = l1 ++ b :: l2 /\ b_obf b = c /\ Forall (fun b' => b_obf b' <> c) l2.
Proof.
  unfold block_of. rewrite find_rev_last_iff. split.
  - intros (l1 & l2 & H & Hb & Hl). exists l1, l2. repeat split; [exact H|apply str_eqb_eq; exact Hb|].
    eapply Forall_impl; [|exact Hl]. intros x Hx. apply str_eqb_neq. exact Hx.
  - intros (l1 & l2 & H & Hb & Hl). exists l1, l2. repeat split; [exact H|apply str_eqb_eq; exact Hb|].
    eapply Forall_impl; [|exact Hl]. intros x Hx. apply str_eqb_neq. exact Hx.
Qed.

Theorem block_of_none rs c :
  block_of rs c = None <-> Forall (fun b => b_obf b <> c) (blocks rs).
Proof.
  unfold block_of. rewrite find_none_iff. split; intros H.
  - apply Forall_rev in H. rewrite rev_involutive in H.
    eapply Forall_impl; [|exact H]. intros x Hx. apply str_eqb_neq. exact Hx.
  - apply Forall_rev. eapply Forall_impl; [|exact H]. intros x Hx. apply str_eqb_neq. exact Hx.
Qed.
Print Assumptions block_of_last.
Print Assumptions block_of_none.

(* on flattened block lists *)
Corollary block_of_unblocks_last bs c b : bodies_class_free bs ->
  (block_of (unblocks bs) c = Some b <->
   exists l1 l2, bs = l1 ++ b :: l2 /\ b_obf b = c /\ Forall (fun b' => b_obf b' <> c) l2).
Proof. intros H. rewrite block_of_last, (blocks_unblocks bs H). reflexivity. Qed.

(* ------------------------------------------------------------------ *)
(* permutation of distinctly named blocks                               *)
(* ------------------------------------------------------------------ *)
(* most general form: any two record lists whose block lists are permutations of each other *)
Theorem block_of_perm rs1 rs2 : NoDup (map b_obf (blocks rs1)) -> Permutation (blocks rs1) (blocks rs2) ->
  forall c, block_of rs1 c = block_of rs2 c.
Proof.
  intros Hnd HP c. unfold block_of. apply (find_key_perm b_obf c).
  - rewrite map_rev. eapply Permutation_NoDup; [apply Permutation_rev|exact Hnd].
  - eapply Permutation_trans; [apply Permutation_sym, Permutation_rev|].
    eapply Permutation_trans; [exact HP|apply Permutation_rev].
Qed.

Theorem block_of_unblocks_perm bs1 bs2 :
  bodies_class_free bs1 -> bodies_class_free bs2 -> NoDup (map b_obf bs1) -> Permutation bs1 bs2 ->
  forall c, block_of (unblocks bs1) c = block_of (unblocks bs2) c.
Proof.
  intros H1 H2 Hnd HP. apply block_of_perm; rewrite ?(blocks_unblocks bs1 H1), ?(blocks_unblocks bs2 H2); assumption.
Qed.
Print Assumptions block_of_perm.
Print Assumptions block_of_unblocks_perm.

(* every specification query is a function of block_of *)
Section Queries.
Variables rs1 rs2 : list record.
Hypothesis Hb : forall c, block_of rs1 c = block_of rs2 c.

Lemma Sclass_block_ext c : Sclass rs1 c = Sclass rs2 c.
Proof. unfold Sclass. rewrite Hb. reflexivity. Qed.
Lemma Smethod_block_ext c m : Smethod rs1 c m = Smethod rs2 c m.
Proof. unfold Smethod. rewrite Hb. reflexivity. Qed.
Lemma Sline_block_ext c m line file : Sline rs1 c m line file = Sline rs2 c m line file.
Proof. unfold Sline. rewrite Hb. reflexivity. Qed.
Lemma Sparams_block_ext c m p : Sparams rs1 c m p = Sparams rs2 c m p.
Proof. unfold Sparams. rewrite Hb. reflexivity. Qed.
End Queries.

Theorem C01_block_order bs1 bs2 :
  bodies_class_free bs1 -> bodies_class_free bs2 -> NoDup (map b_obf bs1) -> Permutation bs1 bs2 ->
  (forall c, Sclass (unblocks bs1) c = Sclass (unblocks bs2) c) /\
  (forall c m, Smethod (unblocks bs1) c m = Smethod (unblocks bs2) c m) /\
  (forall c m line file, Sline (unblocks bs1) c m line file = Sline (unblocks bs2) c m line file) /\
  (forall c m p, Sparams (unblocks bs1) c m p = Sparams (unblocks bs2) c m p).
Proof.
  intros H1 H2 Hnd HP. pose proof (block_of_unblocks_perm bs1 bs2 H1 H2 Hnd HP) as Hb.
  repeat split; intros.
  - apply Sclass_block_ext, Hb.
  - apply Smethod_block_ext, Hb.
  - apply Sline_block_ext, Hb.
  - apply Sparams_block_ext, Hb.
Qed.
Print Assumptions C01_block_order.

(* the same with a common or different class-free preamble (headers / members before the first
   class line do not matter), stated on arbitrary record lists *)
Theorem C01_block_order_records rs1 rs2 :
  NoDup (map b_obf (blocks rs1)) -> Permutation (blocks rs1) (blocks rs2) ->
  (forall c, Sclass rs1 c = Sclass rs2 c) /\
  (forall c m, Smethod rs1 c m = Smethod rs2 c m) /\
  (forall c m line file, Sline rs1 c m line file = Sline rs2 c m line file) /\
  (forall c m p, Sparams rs1 c m p = Sparams rs2 c m p).
Proof.
  intros Hnd HP. pose proof (block_of_perm rs1 rs2 Hnd HP) as Hb.
  repeat split; intros.
  - apply Sclass_block_ext, Hb.
  - apply Smethod_block_ext, Hb.
  - apply Sline_block_ext, Hb.
  - apply Sparams_block_ext, Hb.
Qed.
Print Assumptions C01_block_order_records.

(* ------------------------------------------------------------------ *)
(* examples                                                             *)
(* ------------------------------------------------------------------ *)
Module Examples.
  Import MapperProofs.Tests.
  Definition b1 := {| b_orig := A; b_obf := X; b_body := [RMethod V f X I None (Some lm1); RField V f X] |}.
  Definition b2 := {| b_orig := B; b_obf := Y; b_body := [RHeader source_file (Some [70]); RMethod V g X I (Some [68]) (Some lm2)] |}.
  Definition b3 := {| b_orig := [67]; b_obf := [122]; b_body := [] |}.

  Example hyps_ex : bodies_class_free [b1; b2; b3] /\ bodies_class_free [b3; b1; b2] /\
                    NoDup (map b_obf [b1; b2; b3]) /\ Permutation [b1; b2; b3] [b3; b1; b2].
  Proof.
    repeat split.
    - repeat constructor.
    - repeat constructor.
    - repeat constructor; cbn [map In]; intros H; repeat (destruct H as [H|H]; [discriminate H|]); exact H.
    - apply Permutation_sym. change [b3; b1; b2] with ([b3] ++ [b1; b2]).
      change [b1; b2; b3] with ([b1; b2] ++ [b3]). apply Permutation_app_comm.
  Qed.
  Example order_ex :
    Sline (unblocks [b1; b2; b3]) X X 5 None = Sline (unblocks [b3; b1; b2]) X X 5 None /\
    Sline (unblocks [b1; b2; b3]) X X 5 None = [(A, f, None, 12)].
  Proof. split; vm_compute; reflexivity. Qed.

  (* NoDup is needed: with two blocks of the same name the later one wins *)
  Definition b1' := {| b_orig := B; b_obf := X; b_body := [] |}.
  Example nodup_needed :
    Permutation [b1; b1'] [b1'; b1] /\
    Sclass (unblocks [b1; b1']) X = Some B /\ Sclass (unblocks [b1'; b1]) X = Some A.
  Proof. split; [apply perm_swap|split; vm_compute; reflexivity]. Qed.

  (* the last-block characterisation on the records of MapperProofs.Tests *)
  Example last_ex : exists b, block_of rs1 X = Some b /\ b_orig b = [67].
  Proof. eexists. split; vm_compute; reflexivity. Qed.
End Examples.
