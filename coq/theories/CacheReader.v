(* CacheReader.v — model of ProguardCache::parse and the cache queries
   (src/cache/raw.rs, src/cache/mod.rs), watto::StringTable::read, leb128::read,
   and the slice::binary_search_by of the toolchain.  Buffers are 8-aligned. *)
From PG Require Import Base Mapping Spec CacheWriter.

(* little-endian u32 at the head of a list *)
Definition rd32 (l : list byte) : option (N * list byte) :=
  match l with
  | a :: b :: c :: d :: r => Some (a + 256 * b + 65536 * c + 16777216 * d, r)
  | _ => None
  end.

Fixpoint take_exact {A} (n : nat) (l : list A) : option (list A * list A) :=
  match n with
  | O => Some ([], l)
  | S n' => match l with
            | [] => None
            | x :: r => match take_exact n' r with Some (a, b) => Some (x :: a, b) | None => None end
            end
  end.

Fixpoint rd_words (k : nat) (l : list byte) : option (list N * list byte) :=
  match k with
  | O => Some ([], l)
  | S k' => match rd32 l with
            | Some (w, r) => match rd_words k' r with Some (ws, r') => Some (w :: ws, r') | None => None end
            | None => None
            end
  end.
Fixpoint rd_recs (wpr : nat) (n : nat) (l : list byte) : option (list (list N) * list byte) :=
  match n with
  | O => Some ([], l)
  | S n' => match rd_words wpr l with
            | Some (ws, r) => match rd_recs wpr n' r with Some (rs, r') => Some (ws :: rs, r') | None => None end
            | None => None
            end
  end.

Inductive cerr := WrongEndianness | WrongFormat | WrongVersion | InvalidHeader | InvalidClasses | InvalidMembers
                | UnexpectedStringBytes (expected found : N).

(* a parsed cache: records as word lists, in file order *)
Record cache := { k_classes : list (list N); k_members : list (list N); k_byparams : list (list N);
                  k_strings : list byte }.

(* watto::align_to: skip padding so that absolute position pos becomes a multiple of 8 *)
Definition align8 (pos : N) (l : list byte) : option (N * list byte) :=
  let p := pad_len pos in
  match take_exact (N.to_nat p) l with Some (_, r) => Some (pos + p, r) | None => None end.

Inductive presult := POk (c : cache) | PErr (e : cerr).

(* slice_from_prefix: n records of wpr words; the size check comes first so that huge counts
   never make the model iterate *)
Definition rd_section (wpr : nat) (n : N) (l : list byte) : option (list (list N) * list byte) :=
  if lenN l <? 4 * N.of_nat wpr * n then None else rd_recs wpr (N.to_nat n) l.

Definition parse (buf : list byte) : presult :=
  match rd_words 6 buf with
  | None => PErr InvalidHeader
  | Some (hdr, rest) =>
    let magic := nth 0 hdr 0 in let version := nth 1 hdr 0 in
    let nc := nth 2 hdr 0 in let nm := nth 3 hdr 0 in let np := nth 4 hdr 0 in let sb := nth 5 hdr 0 in
    if magic =? cache_magic_flipped then PErr WrongEndianness
    else if negb (magic =? cache_magic) then PErr WrongFormat
    else if negb (version =? cache_version) then PErr WrongVersion
    else
      match align8 24 rest with
      | None => PErr InvalidClasses
      | Some (pos, rest) =>
        match rd_section 7 nc rest with
        | None => PErr InvalidClasses
        | Some (cls, rest) =>
          match align8 (pos + 28 * nc) rest with
          | None => PErr InvalidMembers
          | Some (pos, rest) =>
            match rd_section 9 nm rest with
            | None => PErr InvalidMembers
            | Some (ms, rest) =>
              match align8 (pos + 36 * nm) rest with
              | None => PErr InvalidMembers
              | Some (pos, rest) =>
                match rd_section 9 np rest with
                | None => PErr InvalidMembers
                | Some (ps, rest) =>
                  match align8 (pos + 36 * np) rest with
                  | None => PErr (UnexpectedStringBytes sb 0)
                  | Some (_, rest) =>
                    if lenN rest <? sb then PErr (UnexpectedStringBytes sb (lenN rest))
                    else POk {| k_classes := cls; k_members := ms; k_byparams := ps; k_strings := rest |}
                  end
                end
              end
            end
          end
        end
      end
  end.

(* leb128::read::unsigned on a slice; value and rest *)
Fixpoint leb_read (f : nat) (shift : N) (acc : N) (l : list byte) : option (N * list byte) :=
  match f with
  | O => None
  | S f' =>
    match l with
    | [] => None
    | b :: r =>
      if (shift =? 63) && negb (b =? 0) && negb (b =? 1) then None
      else let acc' := acc + (b mod 128) * 2 ^ shift in
           if b <? 128 then Some (acc', r) else leb_read f' (shift + 7) acc' r
    end
  end.

Definition skipn_exact {A} (n : N) (l : list A) : option (list A) :=
  if lenN l <? n then None else Some (skipn (N.to_nat n) l).

(* watto::StringTable::read *)
Definition read_string (sb : list byte) (off : N) : option str :=
  match skipn_exact off sb with
  | None => None
  | Some r => match leb_read 11 0 0 r with
              | None => None
              | Some (len, r') => if lenN r' <? len then None
                                  else let s := firstn (N.to_nat len) r' in
                                       if utf8_valid s then Some s else None
              end
  end.

(* slice::binary_search_by of this toolchain (branch-free loop, final probe at base) *)
Section BS.
Context {A : Type} (f : A -> comparison) (d : A).
Fixpoint bs_loop (fuel : nat) (l : list A) (base size : nat) : nat :=
  match fuel with
  | O => base
  | S fuel' =>
    if Nat.leb size 1 then base else
    let half := Nat.div size 2 in
    let mid := (base + half)%nat in
    let base' := match f (nth mid l d) with Gt => base | _ => mid end in
    bs_loop fuel' l base' (size - half)
  end.
Definition binary_search (l : list A) : option nat :=   (* Some i = Ok(i); None = Err(_) *)
  match l with
  | [] => None
  | _ => let base := bs_loop (length l) l 0 (length l) in
         match f (nth base l d) with Eq => Some base | _ => None end
  end.

(* find_range_by_binary_search *)
Fixpoint take_while_eq (l : list A) : list A :=
  match l with
  | [] => []
  | x :: r => match f x with Eq => x :: take_while_eq r | _ => [] end
  end.
Definition find_range (l : list A) : option (list A) :=
  match binary_search l with
  | None => None
  | Some mid =>
      let before := rev (take_while_eq (rev (firstn mid l))) in
      let after := take_while_eq (skipn mid l) in
      Some (before ++ after)
  end.
End BS.

Definition cmp_str (sb : list byte) (off : N) (name : str) : comparison :=
  match read_string sb off with None => Gt | Some s => lex_cmp s name end.

Definition w (r : list N) (i : nat) : N := nth i r 0.

Definition get_class (c : cache) (name : str) : option (list N) :=
  match binary_search (fun r => cmp_str (k_strings c) (w r 0) name) [] (k_classes c) with
  | Some i => nth_error (k_classes c) i
  | None => None
  end.

(* slice.get(start..start+len); checked_add cannot overflow for u32 operands in usize *)
Definition slice {A} (l : list A) (start len : N) : option (list A) :=
  if lenN l <? start + len then None else Some (firstn (N.to_nat len) (skipn (N.to_nat start) l)).

Definition c_remap_class (c : cache) (name : str) : option str :=
  match get_class c name with
  | Some cl => read_string (k_strings c) (w cl 1)
  | None => None
  end.

Definition c_remap_method (c : cache) (cls m : str) : option (str * str) :=
  match get_class c cls with
  | None => None
  | Some cl =>
    match slice (k_members c) (w cl 3) (w cl 4) with
    | None => None
    | Some ms =>
      match find_range (fun r => cmp_str (k_strings c) (w r 0) m) [] ms with
      | None => None
      | Some [] => None
      | Some (first :: rest) =>
        if forallb (fun r => w r 5 =? w first 5) rest then
          match read_string (k_strings c) (w cl 1), read_string (k_strings c) (w first 5) with
          | Some oc, Some om => Some (oc, om)
          | _, _ => None
          end
        else None
      end
    end
  end.

(* iterate_with_lines over a member list.  The line arithmetic is checked (entries that
   would under/overflow are skipped), so no Panic can arise here. *)
Fixpoint c_with_lines (c : cache) (fclass : str) (ffile : option str) (line : N) (ms : list (list N))
  : list frame :=
  match ms with
  | [] => []
  | m :: rest =>
    let continue_ := c_with_lines c fclass ffile line rest in
    let startl := w m 1 in let endl := w m 2 in let os := w m 6 in let oe := w m 7 in
    if (0 <? endl) && ((line <? startl) || (endl <? line)) then continue_
    else
      let lineo : option N :=
        if (oe =? MAX32) || (oe =? os) then Some os
        else if line <? startl then None                                (* checked_sub *)
        else if U64 <=? line - startl + os then None                    (* checked_add *)
        else Some (line - startl + os) in
      match lineo with
      | None => continue_
      | Some ln =>
        let cls := match read_string (k_strings c) (w m 3) with Some s => s | None => fclass end in
        let fileo : option (option str) :=
          if negb (w m 4 =? MAX32) then
            match read_string (k_strings c) (w m 4) with
            | None => None
            | Some fname => if str_eqb fname synthetic then Some (Some (outer_simple_name cls))
                            else Some (Some fname)
            end
          else if negb (w m 3 =? MAX32) then Some None else Some ffile in
        match fileo with
        | None => continue_
        | Some fl =>
          match read_string (k_strings c) (w m 5) with
          | None => continue_
          | Some meth => (cls, meth, fl, ln) :: continue_
          end
        end
      end
  end.

(* iterate_without_lines: stops at the first member whose method name is unreadable *)
Fixpoint c_without_lines (c : cache) (fclass : str) (ms : list (list N)) : list (str * str) :=
  match ms with
  | [] => []
  | m :: rest =>
    let cls := match read_string (k_strings c) (w m 3) with Some s => s | None => fclass end in
    match read_string (k_strings c) (w m 5) with
    | None => []
    | Some meth => (cls, meth) :: c_without_lines c fclass rest
    end
  end.

Definition cmp_name_params (sb : list byte) (m : list N) (name params : str) : comparison :=
  match read_string sb (w m 0) with
  | None => Gt
  | Some n => let p := match read_string sb (w m 8) with Some p => p | None => [] end in
              pair_cmp (n, p) (name, params)
  end.

Definition c_remap_frame_lines (c : cache) (cls m : str) (line : N) (file : option str) : list frame :=
  match get_class c cls with
  | None => []
  | Some cl =>
    match read_string (k_strings c) (w cl 1) with
    | None => []
    | Some oc =>
      match slice (k_members c) (w cl 3) (w cl 4) with
      | None => []
      | Some ms =>
        match find_range (fun r => cmp_str (k_strings c) (w r 0) m) [] ms with
        | None => []
        | Some rng => c_with_lines c oc file line rng
        end
      end
    end
  end.

Definition c_remap_frame_params (c : cache) (cls m p : str) : list (str * str) :=
  match get_class c cls with
  | None => []
  | Some cl =>
    match read_string (k_strings c) (w cl 1) with
    | None => []
    | Some oc =>
      match slice (k_byparams c) (w cl 5) (w cl 6) with
      | None => []
      | Some ms =>
        match find_range (fun r => cmp_name_params (k_strings c) r m p) [] ms with
        | None => []
        | Some rng => c_without_lines c oc rng
        end
      end
    end
  end.
