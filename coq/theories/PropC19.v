(* PropC19.v — property C19: file-level metadata answers equal a fold over the complete
   record stream. *)
From PG Require Import Base Mapping Metadata MetadataProofs GuardParser GuardMeta FileLevel.
From PG.Gen Require Extracted.

Theorem C19_has_line_info : forall b, has_line_info b = existsb method_with_lines (items b).
Proof. exact has_line_info_spec. Qed.

Theorem C19_summary : forall b, let s := summarize b in
  s_classes s = N.of_nat (length (filter is_class (items b))) /\
  s_methods s = N.of_nat (length (filter is_method (items b))) /\
  s_compiler s = (match last_header k_compiler (items b) with Some v => v | None => None end) /\
  s_version s = (match last_header k_compiler_version (items b) with Some v => v | None => None end) /\
  s_min_api s = (match last_header k_min_api (items b) with Some (Some x) => parse_uint U32 x | _ => None end).
Proof. exact summary_spec. Qed.

(* last_header really is the value of the LAST header with that key *)
Theorem C19_last_header : forall k its v,
  last_header k its = Some v <->
  exists pre post, its = pre ++ IOk (RHeader k v) :: post /\
                   forallb (fun it => negb (is_header_with k it)) post = true.
Proof. exact last_header_some. Qed.

Theorem C19_is_valid : forall b, is_valid b = true <->
  exists pre c mid m post, firstn valid_window (items b) = pre ++ c :: mid ++ m :: post /\
                           is_class c = true /\ is_member_rec m = true.
Proof. exact is_valid_spec. Qed.

(* the window of the code (re-read by the translator on every run) is the 50 of the property *)
Theorem C19_window_is_50 : GuardParser.agrees Extracted.is_valid_window 50 /\ valid_window = 50%nat.
Proof. split; [exact guard_window_50|exact valid_window_50]. Qed.

(* the answers that ignore error items are functions of the Ok-records, hence local to lines *)
Theorem C19_has_line_info_concat : forall A B nl, In nl [[10];[13];[13;10]] ->
  has_line_info (A ++ nl ++ B) = has_line_info A || has_line_info B.
Proof. exact has_line_info_concat. Qed.
Theorem C19_summary_concat : forall A B nl, In nl [[10];[13];[13;10]] ->
  summarize (A ++ nl ++ B) = fold_left summary_step (map IOk (recs B)) (summarize A).
Proof. exact summarize_concat. Qed.

Check C19_has_line_info : forall b, has_line_info b = existsb method_with_lines (items b).
