(* BridgeC02.v — bridge (1): text / typed stack trace remapping of the cache and of the mapper
   agree (property C02, last clause).  The remapping loops are one Gallina function of the class
   lookup and the frame remapping; they are extensional in both (proved without functional
   extensionality), and the lookups agree by CacheProofs / MapperProofs. *)
From Coq Require Import Lia.
From PG Require Import Base Mapping Spec Mapper CacheWriter CacheReader CacheStructDefs
  MapperProofs Domain CacheProofs Stacktrace RemapProofs.

(* ------------------------------------------------------------------ *)
(* extensionality of the loops                                          *)
(* ------------------------------------------------------------------ *)
Section Ext.
Variables rc1 rc2 : str -> option str.
Variables rf1 rf2 : str -> str -> N -> option str -> list frame.
Hypothesis Hrc : forall c, rc1 c = rc2 c.
Hypothesis Hrf : forall c m l f, rf1 c m l f = rf2 c m l f.

Lemma remap_throwable_ext t : remap_throwable rc1 t = remap_throwable rc2 t.
Proof. unfold remap_throwable. rewrite Hrc. reflexivity. Qed.

Lemma do_frame_ext f : do_frame rf1 f = do_frame rf2 f.
Proof. destruct f as [[[c m] fl] l]. unfold do_frame. apply Hrf. Qed.

Lemma later_line_ext l : later_line rc1 rf1 l = later_line rc2 rf2 l.
Proof.
  unfold later_line. destruct (parse_frame l) as [f|].
  - rewrite do_frame_ext. reflexivity.
  - destruct (strip_prefix caused_by l) as [rest|]; [|reflexivity].
    destruct (parse_throwable rest) as [t|]; [|reflexivity].
    rewrite remap_throwable_ext. reflexivity.
Qed.

Lemma first_line_ext l : first_line rc1 rf1 l = first_line rc2 rf2 l.
Proof.
  unfold first_line. destruct (parse_throwable l) as [t|].
  - rewrite remap_throwable_ext. reflexivity.
  - destruct (parse_frame l) as [f|]; [|reflexivity]. rewrite do_frame_ext. reflexivity.
Qed.

Theorem remap_text_ext : forall input, remap_text rc1 rf1 input = remap_text rc2 rf2 input.
Proof.
  intros input. unfold remap_text. destruct (lines input) as [|l0 ls]; [reflexivity|].
  rewrite first_line_ext. f_equal. apply flat_map_ext. exact later_line_ext.
Qed.

Theorem remap_typed_ext : forall t, remap_typed rc1 rf1 t = remap_typed rc2 rf2 t.
Proof.
  assert (Hnode : forall e fs,
    option_map (fun e => match remap_throwable rc1 e with Some e' => e' | None => e end) e =
    option_map (fun e => match remap_throwable rc2 e with Some e' => e' | None => e end) e /\
    flat_map (fun f => match do_frame rf1 f with [] => [f] | fs => fs end) fs =
    flat_map (fun f => match do_frame rf2 f with [] => [f] | fs => fs end) fs).
  { intros e fs. split.
    - destruct e as [e|]; [|reflexivity]. cbn [option_map]. rewrite remap_throwable_ext. reflexivity.
    - apply flat_map_ext. intros f. rewrite do_frame_ext. reflexivity. }
  intros t. induction t as [e fs|e fs c IH] using trace_ind'.
  - cbn [remap_typed option_map]. destruct (Hnode e fs) as [-> ->]. reflexivity.
  - cbn [remap_typed option_map]. destruct (Hnode e fs) as [-> ->]. rewrite IH. reflexivity.
Qed.
End Ext.
Print Assumptions remap_text_ext.
Print Assumptions remap_typed_ext.

(* ------------------------------------------------------------------ *)
(* the well-formedness side conditions follow from dom32                *)
(* ------------------------------------------------------------------ *)
Lemma dom32_wf_class_names rs : dom32 rs = true -> wf_class_names rs = true.
Proof.
  unfold dom32, wf_class_names. induction rs as [|r rs IH]; intros H; [reflexivity|].
  cbn [forallb] in *. apply andb_true_iff in H. destruct H as [Hr H]. rewrite (IH H), andb_true_r.
  destruct r as [k v|o ob|ty o ob|ty orig obf args ocls lm]; try reflexivity.
  cbn [rec_ok] in Hr. apply andb_true_iff in Hr. destruct Hr as [Ho _].
  unfold str_ok in Ho. apply andb_true_iff in Ho. exact (proj1 Ho).
Qed.

Lemma dom32_wf_line_mappings rs : dom32 rs = true -> wf_line_mappings rs = true.
Proof.
  unfold dom32, wf_line_mappings. induction rs as [|r rs IH]; intros H; [reflexivity|].
  cbn [forallb] in *. apply andb_true_iff in H. destruct H as [Hr H]. rewrite (IH H), andb_true_r.
  destruct r as [k v|o ob|ty o ob|ty orig obf args ocls lm]; try reflexivity.
  destruct lm as [l|]; [|reflexivity].
  cbn [rec_ok] in Hr. apply andb_true_iff in Hr. destruct Hr as [_ Hl].
  apply andb_true_iff in Hl; destruct Hl as [Hl _].
  apply andb_true_iff in Hl; destruct Hl as [Hl _].
  apply andb_true_iff in Hl. exact (proj2 Hl).
Qed.
Print Assumptions dom32_wf_class_names.
Print Assumptions dom32_wf_line_mappings.

(* ------------------------------------------------------------------ *)
(* agreement                                                            *)
(* ------------------------------------------------------------------ *)
Definition frames_of (o : outcome (list frame)) : list frame :=
  match o with Ok fs => fs | Panic => [] end.

Definition m_frames (ix : bool) (rs : list record) : str -> str -> N -> option str -> list frame :=
  fun c m l f => frames_of (m_remap_frame_lines (build ix rs) c m l f).

Section Agreement.
Variable rs : list record.
Hypothesis Hdom : dom32 rs = true.
Hypothesis Hsize : sizes_ok rs = true.
Hypothesis Hnames : wf_class_names rs = true.
Hypothesis Hlines : wf_line_mappings rs = true.
Variable ix : bool.

Lemma cache_frames_spec c m l f : c_remap_frame_lines (C rs) c m l f = Sline rs c m l f.
Proof. apply cache_lines; assumption. Qed.
Lemma mapper_frames_spec c m l f :
  frames_of (m_remap_frame_lines (build ix rs) c m l f) = Sline rs c m l f.
Proof. rewrite (mapper_lines ix rs c m l f Hnames Hlines). reflexivity. Qed.

Theorem C02_text_spec : forall input,
  remap_text (c_remap_class (C rs)) (c_remap_frame_lines (C rs)) input = remap_text (Sclass rs) (Sline rs) input /\
  remap_text (m_remap_class (build ix rs))
             (fun c m l f => frames_of (m_remap_frame_lines (build ix rs) c m l f)) input
    = remap_text (Sclass rs) (Sline rs) input.
Proof.
  intros input. split; apply remap_text_ext.
  - apply cache_class; assumption.
  - apply cache_frames_spec.
  - intros c. apply mapper_class; assumption.
  - apply mapper_frames_spec.
Qed.

Theorem C02_text : forall input,
  remap_text (c_remap_class (C rs)) (c_remap_frame_lines (C rs)) input
  = remap_text (m_remap_class (build ix rs))
               (fun c m l f => frames_of (m_remap_frame_lines (build ix rs) c m l f)) input.
Proof. intros input. destruct (C02_text_spec input) as [-> ->]. reflexivity. Qed.

Theorem C02_typed_spec : forall t,
  remap_typed (c_remap_class (C rs)) (c_remap_frame_lines (C rs)) t = remap_typed (Sclass rs) (Sline rs) t /\
  remap_typed (m_remap_class (build ix rs))
              (fun c m l f => frames_of (m_remap_frame_lines (build ix rs) c m l f)) t
    = remap_typed (Sclass rs) (Sline rs) t.
Proof.
  intros t. split; apply remap_typed_ext.
  - apply cache_class; assumption.
  - apply cache_frames_spec.
  - intros c. apply mapper_class; assumption.
  - apply mapper_frames_spec.
Qed.

Theorem C02_typed : forall t,
  remap_typed (c_remap_class (C rs)) (c_remap_frame_lines (C rs)) t
  = remap_typed (m_remap_class (build ix rs))
                (fun c m l f => frames_of (m_remap_frame_lines (build ix rs) c m l f)) t.
Proof. intros t. destruct (C02_typed_spec t) as [-> ->]. reflexivity. Qed.

(* the panic outcome mapped away by [frames_of] never occurs *)
Lemma mapper_frames_ok c m l f :
  m_remap_frame_lines (build ix rs) c m l f = Ok (frames_of (m_remap_frame_lines (build ix rs) c m l f)).
Proof. rewrite (mapper_lines ix rs c m l f Hnames Hlines). reflexivity. Qed.
End Agreement.
Print Assumptions C02_text.
Print Assumptions C02_text_spec.
Print Assumptions C02_typed.
Print Assumptions C02_typed_spec.

(* ------------------------------------------------------------------ *)
(* restated with the domain predicates only                             *)
(* ------------------------------------------------------------------ *)
Theorem C02_text_dom rs ix : dom32 rs = true -> sizes_ok rs = true -> forall input,
  remap_text (c_remap_class (C rs)) (c_remap_frame_lines (C rs)) input
  = remap_text (m_remap_class (build ix rs))
               (fun c m l f => frames_of (m_remap_frame_lines (build ix rs) c m l f)) input
  /\ remap_text (c_remap_class (C rs)) (c_remap_frame_lines (C rs)) input
     = remap_text (Sclass rs) (Sline rs) input.
Proof.
  intros Hd Hs input. split.
  - apply C02_text; auto using dom32_wf_class_names, dom32_wf_line_mappings.
  - apply (C02_text_spec rs Hd Hs (dom32_wf_class_names rs Hd) (dom32_wf_line_mappings rs Hd) ix input).
Qed.

Theorem C02_typed_dom rs ix : dom32 rs = true -> sizes_ok rs = true -> forall t,
  remap_typed (c_remap_class (C rs)) (c_remap_frame_lines (C rs)) t
  = remap_typed (m_remap_class (build ix rs))
                (fun c m l f => frames_of (m_remap_frame_lines (build ix rs) c m l f)) t
  /\ remap_typed (c_remap_class (C rs)) (c_remap_frame_lines (C rs)) t
     = remap_typed (Sclass rs) (Sline rs) t.
Proof.
  intros Hd Hs t. split.
  - apply C02_typed; auto using dom32_wf_class_names, dom32_wf_line_mappings.
  - apply (C02_typed_spec rs Hd Hs (dom32_wf_class_names rs Hd) (dom32_wf_line_mappings rs Hd) ix t).
Qed.

(* the mapper never panics on the representable domain *)
Corollary mapper_no_panic_dom rs ix c m l f : dom32 rs = true ->
  m_remap_frame_lines (build ix rs) c m l f <> Panic.
Proof. intros Hd. apply mapper_no_panic; auto using dom32_wf_class_names, dom32_wf_line_mappings. Qed.
Print Assumptions C02_text_dom.
Print Assumptions C02_typed_dom.

(* ------------------------------------------------------------------ *)
(* examples                                                             *)
(* ------------------------------------------------------------------ *)
Module Examples.
  Import CacheProofs.Ex.
  Example hyps_ex : dom32 rs_ex = true /\ sizes_ok rs_ex = true /\
                    wf_class_names rs_ex = true /\ wf_line_mappings rs_ex = true.
  Proof. vm_compute. repeat split; reflexivity. Qed.

  (* "x: boom\n    at x.x(Z:5)\nCaused by: y\n" *)
  Definition text_ex : str :=
    [120;58;32;98;111;111;109;10] ++ indent ++ print_frame ([120],[120],Some [90],5) ++ [10]
    ++ caused_by ++ [121;10].
  Definition trace_ex : trace :=
    Trace (Some ([120], Some [98;111;111;109])) [([120],[120],Some [90],5)] (Some (Trace (Some ([121], None)) [] None)).

  Example C02_text_ex :
    remap_text (c_remap_class (C rs_ex)) (c_remap_frame_lines (C rs_ex)) text_ex
    = remap_text (m_remap_class (build true rs_ex)) (m_frames true rs_ex) text_ex
    /\ remap_text (c_remap_class (C rs_ex)) (c_remap_frame_lines (C rs_ex)) text_ex <> text_ex.
  Proof. vm_compute. split; [reflexivity|discriminate]. Qed.

  Example C02_typed_ex :
    remap_typed (c_remap_class (C rs_ex)) (c_remap_frame_lines (C rs_ex)) trace_ex
    = remap_typed (m_remap_class (build false rs_ex)) (m_frames false rs_ex) trace_ex
    /\ remap_typed (c_remap_class (C rs_ex)) (c_remap_frame_lines (C rs_ex)) trace_ex <> trace_ex.
  Proof. vm_compute. split; [reflexivity|discriminate]. Qed.
End Examples.
