From PG Require Import Base Metadata.
From PG.Gen Require Extracted.
Lemma guard_window : Extracted.is_valid_window = N.of_nat valid_window.
Proof. reflexivity. Qed.
Lemma guard_window_50 : Extracted.is_valid_window = 50.
Proof. reflexivity. Qed.
