From PG Require Import Base Metadata GuardParser.
From PG.Gen Require Extracted.
Lemma guard_window : agrees Extracted.is_valid_window (N.of_nat valid_window).
Proof. first [reflexivity | exact I]. Qed.
Lemma guard_window_50 : agrees Extracted.is_valid_window 50.
Proof. first [reflexivity | exact I]. Qed.
