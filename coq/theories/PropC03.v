(* PropC03.v — property C03: parameter-based retrace. *)
From PG Require Import Base Mapping Spec Mapper CacheWriter CacheReader MapperProofs Domain WriterInv CacheProofs Roundtrip FileLevel.

Theorem C03_mapper : forall rs c m p, wf_class_names rs = true ->
  m_remap_frame_params (build true rs) c m p = Sparams rs c m p.
Proof. exact mapper_params. Qed.

Theorem C03_cache : forall rs c m p, dom32 rs = true -> sizes_ok rs = true ->
  c_remap_frame_params (C rs) c m p = Sparams rs c m p.
Proof. intros rs c m p Hd Hs. apply cache_params; assumption. Qed.

(* what the specification guarantees: answers come from pairwise distinct (obf, args, orig) keys,
   never from inlined callees, cover every non-inlined entry with that name and arguments, and
   depend on nothing but the class block (no state leaks between blocks) *)
Theorem C03_spec_properties : forall rs c m p,
  (forall b, block_of rs c = Some b ->
     exists es,
       Sparams rs c m p = map (param_frame b) es /\
       NoDup (map key_of es) /\
       Forall (fun e => e_inlined e = false /\ e_obf e = m /\ e_args e = p /\ In e (block_entries b)) es /\
       (forall e, In e (block_entries b) -> e_inlined e = false -> e_obf e = m -> e_args e = p ->
                  exists e', In e' es /\ key_of e' = key_of e) /\
       NoDup (map snd (Sparams rs c m p))) /\
  (block_of rs c = None -> Sparams rs c m p = []) /\
  (forall rs', block_of rs c = block_of rs' c -> Sparams rs c m p = Sparams rs' c m p).
Proof. exact sparams_props. Qed.

(* whole files: the answer depends only on the grammar lines of the file, not on the terminator style
   (LF / CR / CRLF, mixed) nor on blank or unparseable lines between them *)
Theorem C03_file_independent : forall f1 f2 c m p,
  wf_file f1 = true -> wf_file f2 = true -> file_lines f1 = file_lines f2 ->
  Sparams (recs (print_file f1)) c m p = Sparams (recs (print_file f2)) c m p.
Proof. intros f1 f2 c m p H1 H2 H. exact (Sparams_file_independent f1 f2 H1 H2 H c m p). Qed.

Check C03_mapper : forall rs c m p, wf_class_names rs = true ->
  m_remap_frame_params (build true rs) c m p = Sparams rs c m p.
