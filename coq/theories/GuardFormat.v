(* guard of property C10: a change of the byte layout, the sentinels or the magic is only
   possible together with a change of the format version *)
From Coq Require Import List NArith String.
Import ListNotations.
From PG.Gen Require Extracted.
Open Scope string_scope. Open Scope N_scope.

Definition pinned_version : N := 1.
Definition pinned_layout :=
  (["magic"; "version"; "num_classes"; "num_members"; "num_members_by_params"; "string_bytes"],
   ["obfuscated_name_offset"; "original_name_offset"; "file_name_offset"; "members_offset"; "members_len";
    "members_by_params_offset"; "members_by_params_len"],
   ["obfuscated_name_offset"; "startline"; "endline"; "original_class_offset"; "original_file_offset";
    "original_name_offset"; "original_startline"; "original_endline"; "params_offset"],
   [80; 82; 71; 67],
   [("obfuscated_name_offset", 4294967295); ("original_name_offset", 4294967295); ("file_name_offset", 4294967295);
    ("members_offset", 4294967295); ("members_len", 0); ("members_by_params_offset", 4294967295);
    ("members_by_params_len", 0)]).
(* each component the translator could read (Some) must equal the pinned one; a component it could not
   read (None: the source spells it in a way the translator does not understand) is not an alarm here —
   the cross-release run of the correspondence check compares the bytes and answers of both releases *)
Definition agrees {A} (o : option A) (v : A) : Prop := match o with Some x => x = v | None => True end.
Definition layout_agrees : Prop :=
  let '(h, c, m, magic, d) := pinned_layout in
  agrees Extracted.header_fields h /\ agrees Extracted.class_fields c /\ agrees Extracted.member_fields m /\
  Extracted.cache_magic_bytes = magic /\ agrees Extracted.class_defaults d.

Lemma guard_layout_or_version_bump :
  Extracted.cache_version <> pinned_version \/ layout_agrees.
Proof.
  first [ right; unfold layout_agrees, pinned_layout, agrees; cbv beta iota zeta;
          repeat split; first [reflexivity | exact I]
        | left; vm_compute; discriminate ].
Qed.
