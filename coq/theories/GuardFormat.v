(* guard of property C10: a change of the byte layout, the sentinels or the magic is only
   possible together with a change of the format version *)
From Coq Require Import List NArith String.
Import ListNotations.
From PG.Gen Require Extracted.
Open Scope string_scope. Open Scope N_scope.

Definition pinned_version : N := 1.
Definition pinned_layout :=
  (["magic"; "version"; "num_classes"; "num_members"; "num_members_by_params"; "string_bytes"],
   ["obfuscated_name_offset"; "original_name_offset"; "file_name_offset"; "members_offset"; "members_len";
    "members_by_params_offset"; "members_by_params_len"],
   ["obfuscated_name_offset"; "startline"; "endline"; "original_class_offset"; "original_file_offset";
    "original_name_offset"; "original_startline"; "original_endline"; "params_offset"],
   [80; 82; 71; 67],
   [("obfuscated_name_offset", 4294967295); ("original_name_offset", 4294967295); ("file_name_offset", 4294967295);
    ("members_offset", 4294967295); ("members_len", 0); ("members_by_params_offset", 4294967295);
    ("members_by_params_len", 0)]).
Definition current_layout :=
  (Extracted.header_fields, Extracted.class_fields, Extracted.member_fields, Extracted.cache_magic_bytes,
   Extracted.class_defaults).

Lemma guard_layout_or_version_bump :
  Extracted.cache_version <> pinned_version \/ current_layout = pinned_layout.
Proof. first [ right; reflexivity | left; vm_compute; discriminate ]. Qed.
