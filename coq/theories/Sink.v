(* Sink.v — model of std::io::Write::write_all over a scripted sink and of the sequence of
   write_all calls issued by ProguardCache::write (src/cache/raw.rs, write_aligned). *)
From PG Require Import Base.

(* what the sink does on one `write` call *)
Inductive resp :=
| Normal              (* accept up to the sink's per-call maximum *)
| Short (k : N)       (* accept at most k bytes on this call (k = 0: Ok(0)) *)
| Interrupted         (* Err(ErrorKind::Interrupted): retryable *)
| Fail.               (* any other error: not retryable *)

(* a sink obeying the I/O contract: per-call maximum (0 = unlimited) and scripted calls *)
Record sink := { sk_max : N; sk_script : list (N * resp) }.

Fixpoint script_get (i : N) (l : list (N * resp)) : resp :=
  match l with
  | [] => Normal
  | (j, r) :: rest => if i =? j then r else script_get i rest
  end.

Inductive wres := WOk | WErrZero | WErrFail | WOutOfFuel.

Record sstate := { ss_calls : N; ss_acc : list byte }.   (* calls made; bytes accepted so far *)

Definition accept_n (s : sink) (r : resp) (offered : N) : N :=
  match r with
  | Short k => N.min k offered
  | _ => if sk_max s =? 0 then offered else N.min (sk_max s) offered
  end.

(* std's write_all loop *)
Fixpoint write_all (fuel : nat) (s : sink) (st : sstate) (buf : list byte) : wres * sstate :=
  match buf with
  | [] => (WOk, st)
  | _ :: _ =>
    match fuel with
    | O => (WOutOfFuel, st)
    | S fuel' =>
      let r := script_get (ss_calls st) (sk_script s) in
      let st1 := {| ss_calls := ss_calls st + 1; ss_acc := ss_acc st |} in
      match r with
      | Interrupted => write_all fuel' s st1 buf
      | Fail => (WErrFail, st1)
      | _ =>
        let n := accept_n s r (lenN buf) in
        if n =? 0 then (WErrZero, st1)
        else write_all fuel' s
               {| ss_calls := ss_calls st + 1; ss_acc := ss_acc st ++ firstn (N.to_nat n) buf |}
               (skipn (N.to_nat n) buf)
      end
    end
  end.

(* the `?`-chained sequence of write_all calls *)
Fixpoint write_chunks (fuel : nat) (s : sink) (st : sstate) (chunks : list (list byte)) : wres * sstate :=
  match chunks with
  | [] => (WOk, st)
  | c :: rest =>
    match write_all fuel s st c with
    | (WOk, st') => write_chunks fuel s st' rest
    | other => other
    end
  end.

(* enough for every chunk: each loop iteration consumes a byte or a scripted call *)
Definition sink_fuel (s : sink) (chunks : list (list byte)) : nat :=
  S (length (concat chunks) + length (sk_script s)).

Definition run_sink (s : sink) (chunks : list (list byte)) : wres * sstate :=
  write_chunks (sink_fuel s chunks) s {| ss_calls := 0; ss_acc := [] |} chunks.
