(* PropC12.v — property C12: no buffer accepted as a cache can make a query panic, overflow or
   read outside; every returned string is a slice of the buffer or of the query.
   The reader model has no Panic outcome because the Rust code uses checked operations
   (get / checked_add / checked_sub, unreadable entries are skipped); the remaining index
   expressions (members[..mid], members[mid..] in find_range_by_binary_search) are shown in
   bounds for EVERY buffer, sorted or not.  Memory safety of watto's unsafe Pod casts on an aligned
   buffer is assumed, not modelled. *)
From PG Require Import Base Spec CacheReader BinSearchProofs SafetyProofs.

(* the index returned by the binary search is inside the slice, for arbitrary (corrupted) data *)
Theorem C12_search_index_in_bounds : forall (A : Type) (f : A -> comparison) (d : A) l mid,
  binary_search f d l = Some mid -> (mid <= length l)%nat.
Proof. exact find_range_indices_in_bounds. Qed.

(* the binary search loop terminates: its fuel (the slice length) is never exhausted *)
Theorem C12_search_terminates : forall (A : Type) (f : A -> comparison) (d : A) l fuel',
  (length l <= fuel')%nat -> bs_loop f d fuel' l 0 (length l) = bs_loop f d (length l) l 0 (length l).
Proof. exact bs_loop_fuel_enough. Qed.

(* every string of every answer is a contiguous piece of the buffer, or the query's own file *)
Theorem C12_class_is_buffer_slice : forall buf c name s,
  parse buf = POk c -> c_remap_class c name = Some s -> sub s buf.
Proof. exact C12_class_from_buffer. Qed.
Theorem C12_method_is_buffer_slice : forall buf c cls m a b,
  parse buf = POk c -> c_remap_method c cls m = Some (a, b) -> sub a buf /\ sub b buf.
Proof. exact C12_method_from_buffer. Qed.
Theorem C12_frames_are_buffer_slices : forall buf c cls m line file fr,
  parse buf = POk c -> In fr (c_remap_frame_lines c cls m line file) -> frame_from buf file fr.
Proof. exact C12_frames_from_buffer. Qed.
Theorem C12_params_frames_are_buffer_slices : forall buf c cls m p kl me,
  parse buf = POk c -> In (kl, me) (c_remap_frame_params c cls m p) -> sub kl buf /\ sub me buf.
Proof. exact C12_params_from_buffer. Qed.
