(* PropC16.v — property C16: valid JVM descriptors deobfuscate to the right Java types,
   invalid ones to none; mapper and cache agree on every string. *)
From PG Require Import Base Java JavaProofs.

(* one Java type per descriptor parameter, in order, and the return type *)
Theorem C16_valid_descriptor : forall rc ps r,
  forallb wf_param ps = true -> wf_ret r = true ->
  deobfuscate rc (encode_desc ps r) = Some (map (render rc) ps, render rc r).
Proof. exact C16_valid. Qed.

(* the formatted signature: parameters joined by ", ", return type appended unless void/empty *)
Theorem C16_formatted : forall rc ps r,
  forallb wf_param ps = true -> wf_ret r = true ->
  option_map format_sig (deobfuscate rc (encode_desc ps r))
  = Some ([40] ++ join [44;32] (map (render rc) ps) ++ [41] ++
          (if is_empty (render rc r) || str_eqb (render rc r) void_kw then []
           else [58;32] ++ render rc r)).
Proof. exact C16_format_valid. Qed.

Theorem C16_invalid_no_open_paren : forall rc s, strip_prefix [40] s = None -> deobfuscate rc s = None.
Proof. exact C16_no_open_paren. Qed.
Theorem C16_invalid_no_close_paren : forall rc s, contains 41 s = false -> deobfuscate rc s = None.
Proof. exact C16_no_close_paren. Qed.
Theorem C16_invalid_no_return : forall rc p, deobfuscate rc ([40] ++ p ++ [41]) = None.
Proof. exact C16_no_return. Qed.
Theorem C16_invalid_unterminated : forall rc ps junk R,
  forallb wf_param ps = true -> contains 59 junk = false -> contains 41 R = false ->
  deobfuscate rc ([40] ++ concat (map encode ps) ++ 76 :: junk ++ [41] ++ R) = None.
Proof. exact C16_unterminated. Qed.

(* the result depends on the mapping only through the class lookup: two lookups that agree
   (mapper and cache do, by C04) give the same answer on EVERY string *)
Theorem C16_lookups_agree : forall rc1 rc2 s,
  (forall c, rc1 c = rc2 c) -> deobfuscate rc1 s = deobfuscate rc2 s.
Proof. exact C16_agree. Qed.

Check C16_valid_descriptor : forall rc ps r,
  forallb wf_param ps = true -> wf_ret r = true ->
  deobfuscate rc (encode_desc ps r) = Some (map (render rc) ps, render rc r).
