(* SafetyProofs.v — panic freedom and provenance (properties C12 and C13).

   The models are total Gallina functions; the places where the Rust code could panic are
   modelled explicitly:
   (a) Mapper.m_with_lines has an [outcome] result with [Panic] for the usize subtraction
       [frame.line - member.startline] (src/mapper.rs);
   (b) the cache reader uses checked arithmetic and [.get()] everywhere except the index
       expressions [members[..mid]] / [members[mid..]] of find_range_by_binary_search
       (src/cache/mod.rs:276-298), which are in bounds iff [mid <= len];
   (c) the cache writer narrows with [as u32] (cannot panic) and counts members with u32
       additions that overflow only with 2^32 members.

   Part 1: the mapper never panics, for EVERY mapping file and every query (no hypothesis).
   Part 2: in-bounds facts and provenance of every string returned by the cache reader.
   Part 3: the member / class counts of the writer are bounded by the input length. *)
From Coq Require Import Lia Arith.
From PG Require Import Base Mapping Spec Mapper CacheWriter CacheReader.
From PG Require Import MappingProofs MapperProofs ParserFacts BinSearchProofs.

(* ========================================================================= *)
(** * Part 1 (C13): the mapper never panics *)

(* a stored member mapping is safe when an original end line is only present together with a
   positive end line: exactly what [entry_lines] yields from a parsed (positive) line mapping *)
Definition mm_safe (mm : member_mapping) : bool :=
  match mm_oe mm with Some _ => 0 <? mm_end mm | None => true end.

Definition mms_safe (l : list member_mapping) : Prop := Forall (fun mm => mm_safe mm = true) l.

Definition members_safe (cm : class_members) : Prop :=
  mms_safe (cm_all cm) /\ Forall (fun kv => mms_safe (snd kv)) (cm_byparams cm).

Definition class_safe (c : class_mapping) : Prop :=
  Forall (fun kv => members_safe (snd kv)) (cl_members c).

Definition mapper_safe (m : list (str * class_mapping)) : Prop :=
  Forall (fun kv => class_safe (snd kv)) m.

Definition bstate_safe (st : bstate) : Prop :=
  mapper_safe (bs_classes st) /\ class_safe (bs_class st).

Lemma assoc_get_Forall {V} (P : V -> Prop) k : forall (l : list (str * V)) v,
  Forall (fun kv => P (snd kv)) l -> assoc_get k l = Some v -> P v.
Proof.
  induction l as [|[k' v'] l IH]; intros v Hl H; cbn [assoc_get] in H; [discriminate|].
  inversion Hl as [|? ? Hv Hl']; subst. cbn [snd] in Hv.
  destruct (str_eqb k k'); [inversion H; subst; exact Hv|eapply IH; eassumption].
Qed.

Definition lm_opt_positive (lm : option line_mapping) : bool :=
  match lm with Some l => (0 <? lm_start l) && (0 <? lm_end l) | None => true end.

Lemma entry_lines_safe lm s e os oe :
  lm_opt_positive lm = true -> entry_lines lm = (s, e, os, oe) ->
  match oe with Some _ => 0 <? e | None => true end = true.
Proof.
  unfold entry_lines, lm_opt_positive. destruct lm as [l|].
  - intros Hp H. apply andb_prop in Hp as [_ He].
    destruct (lm_os l) as [x|]; inversion H; subst.
    + destruct (lm_oe l); [exact He|reflexivity].
    + exact He.
  - intros _ H. inversion H; subst. reflexivity.
Qed.

Lemma mms_safe_snoc l mm : mms_safe l -> mm_safe mm = true -> mms_safe (l ++ [mm]).
Proof. intros Hl Hm. apply Forall_app. split; [exact Hl|]. constructor; [exact Hm|constructor]. Qed.

Lemma cm_empty_safe : members_safe cm_empty.
Proof. split; constructor. Qed.

Lemma build_step_safe ix st r next :
  lm_positive r = true -> bstate_safe st -> bstate_safe (build_step ix st r next).
Proof.
  intros Hr [Hc Hk]. destruct r as [k v|orig obf|ty orig obf|ty orig obf args ocls lm]; unfold build_step.
  - destruct (str_eqb k source_file); [|split; assumption].
    split; cbn [bs_classes bs_class]; [assumption|]. exact Hk.
  - split; cbn [bs_classes bs_class].
    + unfold flush_class. destruct (is_empty (cl_orig (bs_class st))); [assumption|].
      constructor; assumption.
    + constructor.
  - split; assumption.
  - destruct (entry_lines lm) as [[[s e] os] oe] eqn:E.
    assert (Hp : lm_opt_positive lm = true) by (destruct lm; exact Hr).
    pose proof (entry_lines_safe _ _ _ _ _ Hp E) as Hoe.
    set (members := match assoc_get obf (cl_members (bs_class st)) with Some m => m | None => cm_empty end).
    assert (Hmem : members_safe members).
    { unfold members. destruct (assoc_get obf (cl_members (bs_class st))) as [m0|] eqn:Eg.
      - exact (assoc_get_Forall members_safe obf _ _ Hk Eg).
      - exact cm_empty_safe. }
    destruct Hmem as [Hall Hbp].
    set (mm := {| mm_start := s; mm_end := e; mm_ocls := ocls; mm_ofile := cl_file (bs_class st);
                  mm_orig := orig; mm_os := os; mm_oe := oe |}).
    assert (Hmm : mm_safe mm = true) by exact Hoe.
    destruct (negb ix || next_same_range lm match next with Some n => [n] | None => [] end
              || existsb (Mapper.key3_eqb (obf, args, orig)) (bs_unique st)).
    + split; cbn [bs_classes bs_class]; [assumption|].
      unfold class_safe, set_members. cbn [cl_members]. constructor; [|exact Hk].
      cbn [snd]. split; cbn [cm_all cm_byparams]; [apply mms_safe_snoc; assumption|exact Hbp].
    + split; cbn [bs_classes bs_class]; [assumption|].
      unfold class_safe, set_members. cbn [cl_members]. constructor; [|exact Hk].
      cbn [snd]. split; cbn [cm_all cm_byparams]; [apply mms_safe_snoc; assumption|].
      constructor; [|exact Hbp]. cbn [snd]. apply mms_safe_snoc; [|exact Hmm].
      destruct (assoc_get args (cm_byparams members)) as [l0|] eqn:Eg; [|constructor].
      exact (assoc_get_Forall mms_safe args _ _ Hbp Eg).
Qed.

Lemma build_run_safe ix : forall rs st,
  forallb lm_positive rs = true -> bstate_safe st -> bstate_safe (build_run ix st rs).
Proof.
  induction rs as [|r rs IH]; intros st Hrs Hst; cbn [build_run]; [exact Hst|].
  cbn [forallb] in Hrs. apply andb_prop in Hrs as [Hr Hrs].
  apply IH; [exact Hrs|]. apply build_step_safe; assumption.
Qed.

Lemma bstate_init_safe : bstate_safe bstate_init.
Proof. split; constructor. Qed.

Theorem build_safe ix rs : forallb lm_positive rs = true -> mapper_safe (build ix rs).
Proof.
  intros Hrs. unfold build. destruct (build_run_safe ix rs bstate_init Hrs bstate_init_safe) as [Hc Hk].
  unfold flush_class. destruct (is_empty _); [exact Hc|]. constructor; assumption.
Qed.

(* the heart: over safe member mappings the usize subtraction is never reached with line < start *)
Lemma m_with_lines_total fclass ffile line : forall ms,
  mms_safe ms -> exists fs, m_with_lines fclass ffile line ms = Ok fs.
Proof.
  induction ms as [|mm ms IH]; intros Hs; cbn [m_with_lines]; [eexists; reflexivity|].
  inversion Hs as [|? ? Hmm Hs']; subst. destruct (IH Hs') as [fs Hfs].
  destruct ((0 <? mm_end mm) && ((line <? mm_start mm) || (mm_end mm <? line))) eqn:F; [eauto|].
  rewrite Hfs. unfold mm_safe in Hmm.
  destruct (mm_oe mm) as [oe|]; [|eexists; reflexivity].
  destruct (oe =? mm_os mm); [eexists; reflexivity|].
  destruct (line <? mm_start mm) eqn:L; [|eexists; reflexivity].
  rewrite Hmm in F. cbn [andb orb] in F. discriminate F.
Qed.

Lemma remap_frame_lines_total M c m line file :
  mapper_safe M -> exists fs, m_remap_frame_lines M c m line file = Ok fs.
Proof.
  intros HM. unfold m_remap_frame_lines.
  destruct (assoc_get c M) as [cls|] eqn:Ec; [|eexists; reflexivity].
  pose proof (assoc_get_Forall class_safe c _ _ HM Ec) as Hcls.
  destruct (assoc_get m (cl_members cls)) as [ms|] eqn:Em; [|eexists; reflexivity].
  destruct (assoc_get_Forall members_safe m _ _ Hcls Em) as [Hall _].
  apply m_with_lines_total. exact Hall.
Qed.

(* record-list version: the only hypothesis is the positivity the parser guarantees *)
Theorem mapper_never_panics_recs : forall ix rs, forallb lm_positive rs = true ->
  forall c m line file, m_remap_frame_lines (build ix rs) c m line file <> Panic.
Proof.
  intros ix rs Hrs c m line file.
  destruct (remap_frame_lines_total (build ix rs) c m line file (build_safe ix rs Hrs)) as [fs ->].
  discriminate.
Qed.
Print Assumptions mapper_never_panics_recs.

Theorem mapper_never_panics : forall ix (b : list N) c m line file,
  m_remap_frame_lines (build ix (recs b)) c m line file <> Panic.
Proof. intros ix b. apply mapper_never_panics_recs. apply recs_lm_positive. Qed.
Print Assumptions mapper_never_panics.

(* the other three queries ([m_remap_class], [m_remap_method], [m_remap_frame_params]) have plain
   result types: there is no Panic outcome to exclude.  Summary: *)
Theorem C13_mapper_total : forall ix b c m line file,
  exists fs, m_remap_frame_lines (build ix (recs b)) c m line file = Ok fs.
Proof.
  intros ix b c m line file. apply remap_frame_lines_total. apply build_safe. apply recs_lm_positive.
Qed.
Print Assumptions C13_mapper_total.

(* Why a hypothesis is needed for arbitrary record lists: a hand-made record with end line 0 and
   a range on the right-hand side reaches the subtraction ([MapperProofs.Examples.rs_bad_lm]-like). *)
Module SafetyExamples1.
  Definition lm_bad := {| lm_start := 5; lm_end := 0; lm_os := None; lm_oe := None |}.
  Definition rs_bad : list record := [ RClass [65] [120]; RMethod [86] [102] [120] [73] None (Some lm_bad) ].
  Example unsafe_records_panic : m_remap_frame_lines (build true rs_bad) [120] [120] 3 None = Panic.
  Proof. vm_compute. reflexivity. Qed.
  Example unsafe_records_not_positive : forallb lm_positive rs_bad = false.
  Proof. vm_compute. reflexivity. Qed.

  (* "A -> x:\n    3:7:V f(I):10:14 -> x\n    0:0:V g(I):1:2 -> x\n" : the second member line has
     zero lines, the parser drops its line mapping *)
  Definition bytes1 : list N :=
    [65;32;45;62;32;120;58;10;
     32;32;32;32;51;58;55;58;86;32;102;40;73;41;58;49;48;58;49;52;32;45;62;32;120;10;
     32;32;32;32;48;58;48;58;86;32;103;40;73;41;58;49;58;50;32;45;62;32;120;10].
  Example recs_bytes1 : length (recs bytes1) = 3%nat.
  Proof. vm_compute. reflexivity. Qed.
  Example never_panics_bytes1 :
    m_remap_frame_lines (build true (recs bytes1)) [120] [120] 5 None
    = Ok [([65], [102], None, 12); ([65], [103], None, 0)].
  Proof. vm_compute. reflexivity. Qed.
  Example never_panics_bytes1_low :
    m_remap_frame_lines (build true (recs bytes1)) [120] [120] 1 None = Ok [([65], [103], None, 0)].
  Proof. vm_compute. reflexivity. Qed.
End SafetyExamples1.

(* ========================================================================= *)
(** * Part 2 (C12/C13): the cache reader stays in bounds; provenance of its answers *)

(* [s] is a contiguous piece of [big] *)
Definition sub {A} (s big : list A) : Prop := exists p q, big = p ++ s ++ q.
(* [r] is a tail of [l] *)
Definition suffix {A} (r l : list A) : Prop := exists p, l = p ++ r.

Lemma sub_refl {A} (s : list A) : sub s s.
Proof. exists [], []. rewrite app_nil_r. reflexivity. Qed.

Lemma sub_trans {A} (a b c : list A) : sub a b -> sub b c -> sub a c.
Proof.
  intros (p1 & q1 & ->) (p2 & q2 & ->). exists (p2 ++ p1), (q1 ++ q2).
  rewrite <- !app_assoc. reflexivity.
Qed.

Lemma suffix_refl {A} (l : list A) : suffix l l.
Proof. exists []. reflexivity. Qed.

Lemma suffix_trans {A} (a b c : list A) : suffix a b -> suffix b c -> suffix a c.
Proof. intros (p1 & ->) (p2 & ->). exists (p2 ++ p1). rewrite app_assoc. reflexivity. Qed.

Lemma suffix_sub {A} (r l : list A) : suffix r l -> sub r l.
Proof. intros (p & ->). exists p, []. rewrite app_nil_r. reflexivity. Qed.

Lemma prefix_sub {A} (a q : list A) : sub a (a ++ q).
Proof. exists [], q. reflexivity. Qed.

Lemma sub_length {A} (s big : list A) : sub s big -> (length s <= length big)%nat.
Proof. intros (p & q & ->). rewrite !app_length. lia. Qed.

(* ---- the index expressions of find_range_by_binary_search ---- *)

(* [members[..mid]] and [members[mid..]] are in bounds: [mid < len], for EVERY list and comparator *)
Theorem find_range_indices_in_bounds : forall A (f : A -> comparison) d l mid,
  binary_search f d l = Some mid -> (mid <= length l)%nat.
Proof. intros A f d l mid H. apply binary_search_bound in H. lia. Qed.
Print Assumptions find_range_indices_in_bounds.

(* hence the model's [firstn mid l] / [skipn mid l] are exactly the two Rust slices *)
Corollary find_range_split : forall A (f : A -> comparison) d l mid,
  binary_search f d l = Some mid ->
  l = firstn mid l ++ skipn mid l /\ length (firstn mid l) = mid /\ (length (skipn mid l) = length l - mid)%nat.
Proof.
  intros A f d l mid H. apply find_range_indices_in_bounds in H.
  rewrite firstn_skipn, firstn_length, skipn_length. repeat split; lia.
Qed.

(* the final [members.get(start..end)]: the answer is a contiguous non-empty piece of the list *)
Theorem find_range_sub : forall A (f : A -> comparison) d l r,
  find_range f d l = Some r -> sub r l /\ r <> [].
Proof. intros A f d l r H. destruct (find_range_total f d l r H) as (_ & Hs & Hne). split; assumption. Qed.
Print Assumptions find_range_sub.

Lemma sub_In {A} (r l : list A) x : sub r l -> In x r -> In x l.
Proof. intros (p & q & ->) H. apply in_or_app. right. apply in_or_app. left. exact H. Qed.

(* the fuel of the binary search loop is never exhausted: any fuel >= size gives the same result *)
Lemma bs_loop_fuel_irrelevant {A} (f : A -> comparison) d l : forall fuel1 fuel2 base size,
  (size <= fuel1)%nat -> (size <= fuel2)%nat -> bs_loop f d fuel1 l base size = bs_loop f d fuel2 l base size.
Proof.
  induction fuel1 as [|fuel1 IH]; intros fuel2 base size H1 H2.
  - assert (size = 0%nat) by lia. subst size. destruct fuel2; reflexivity.
  - destruct fuel2 as [|fuel2].
    + assert (size = 0%nat) by lia. subst size. reflexivity.
    + cbn [bs_loop]. destruct (Nat.leb size 1) eqn:E; [reflexivity|].
      apply Nat.leb_gt in E.
      assert (Hh : (1 <= size / 2)%nat) by (apply Nat.div_le_lower_bound; lia).
      apply IH; lia.
Qed.

Theorem bs_loop_fuel_enough : forall A (f : A -> comparison) d l fuel',
  (length l <= fuel')%nat -> bs_loop f d fuel' l 0 (length l) = bs_loop f d (length l) l 0 (length l).
Proof. intros A f d l fuel' H. apply bs_loop_fuel_irrelevant; lia. Qed.
Print Assumptions bs_loop_fuel_enough.

(* with enough fuel the loop ends because the window has shrunk to at most one element, i.e. it
   behaves like the fuel-free loop: one more unit of fuel never changes the result *)
Corollary bs_loop_converged : forall A (f : A -> comparison) d l,
  bs_loop f d (S (length l)) l 0 (length l) = bs_loop f d (length l) l 0 (length l).
Proof. intros. apply bs_loop_fuel_enough. lia. Qed.

(* ---- get / slice / read_string ---- *)

Theorem get_class_in_bounds : forall c name cl, get_class c name = Some cl -> In cl (k_classes c).
Proof.
  intros c name cl. unfold get_class.
  destruct (binary_search _ _ (k_classes c)) as [i|]; [|discriminate].
  apply nth_error_In.
Qed.
Print Assumptions get_class_in_bounds.

Theorem slice_sublist : forall A (l : list A) start len r,
  slice l start len = Some r -> exists p s, l = p ++ r ++ s.
Proof.
  intros A l start len r. unfold slice. destruct (lenN l <? start + len); [discriminate|].
  intros H. inversion H; subst.
  exists (firstn (N.to_nat start) l), (skipn (N.to_nat len) (skipn (N.to_nat start) l)).
  rewrite !firstn_skipn. reflexivity.
Qed.
Print Assumptions slice_sublist.

(* the slice really has the requested length and lies inside: start + len <= length *)
Lemma slice_in_bounds {A} (l : list A) start len r :
  slice l start len = Some r -> start + len <= lenN l /\ lenN r = len.
Proof.
  unfold slice. destruct (N.ltb_spec (lenN l) (start + len)) as [Hlt|Hge]; [discriminate|].
  intros H. inversion H; subst. split; [exact Hge|].
  unfold lenN in *. rewrite firstn_length, skipn_length. lia.
Qed.

Lemma leb_read_suffix : forall f shift acc l v r, leb_read f shift acc l = Some (v, r) -> suffix r l.
Proof.
  induction f as [|f IH]; intros shift acc l v r H; cbn [leb_read] in H; [discriminate|].
  destruct l as [|b l']; [discriminate|].
  destruct ((shift =? 63) && negb (b =? 0) && negb (b =? 1)); [discriminate|].
  destruct (b <? 128).
  - inversion H; subst. exists [b]. reflexivity.
  - apply IH in H. destruct H as (p & ->). exists (b :: p). reflexivity.
Qed.

Theorem read_string_sublist : forall sb off s, read_string sb off = Some s -> exists p q, sb = p ++ s ++ q.
Proof.
  intros sb off s. unfold read_string, skipn_exact.
  destruct (lenN sb <? off); [discriminate|].
  destruct (leb_read 11 0 0 (skipn (N.to_nat off) sb)) as [[len r']|] eqn:E; [|discriminate].
  destruct (lenN r' <? len); [discriminate|].
  destruct (utf8_valid (firstn (N.to_nat len) r')); [|discriminate].
  intros H. inversion H; subst. apply leb_read_suffix in E. destruct E as (p & Hp).
  exists (firstn (N.to_nat off) sb ++ p), (skipn (N.to_nat len) r').
  rewrite <- app_assoc, firstn_skipn, <- Hp, firstn_skipn. reflexivity.
Qed.
Print Assumptions read_string_sublist.

Lemma read_string_sub sb off s : read_string sb off = Some s -> sub s sb.
Proof. exact (read_string_sublist sb off s). Qed.

(* the returned string is valid UTF-8 (from_utf8 succeeded) and lies after the offset *)
Lemma read_string_utf8 sb off s : read_string sb off = Some s -> utf8_valid s = true.
Proof.
  unfold read_string. destruct (skipn_exact off sb); [|discriminate].
  destruct (leb_read 11 0 0 l) as [[len r']|]; [|discriminate].
  destruct (lenN r' <? len); [discriminate|].
  destruct (utf8_valid (firstn (N.to_nat len) r')) eqn:E; [|discriminate].
  intros H. inversion H; subst. exact E.
Qed.

(* ---- outer_simple_name ---- *)

Lemma after_last_dot_suffix : forall s acc,
  after_last_dot acc s = acc \/ suffix (after_last_dot acc s) s.
Proof.
  induction s as [|c s IH]; intros acc; cbn [after_last_dot]; [left; reflexivity|].
  destruct (c =? 46).
  - right. destruct (IH s) as [E|(p & Hp)].
    + rewrite E. exists [c]. reflexivity.
    + exists (c :: p). cbn [app]. rewrite <- Hp. reflexivity.
  - destruct (IH acc) as [E|(p & Hp)]; [left; exact E|right].
    exists (c :: p). cbn [app]. rewrite <- Hp. reflexivity.
Qed.

Lemma before_dollar_prefix : forall s, exists q, s = before_dollar s ++ q.
Proof.
  induction s as [|c s (q & Hq)]; cbn [before_dollar]; [exists []; reflexivity|].
  destruct (c =? 36).
  - exists (c :: s). reflexivity.
  - exists q. cbn [app]. rewrite <- Hq. reflexivity.
Qed.

Theorem outer_simple_name_sub : forall s, sub (outer_simple_name s) s.
Proof.
  intros s. unfold outer_simple_name.
  assert (Hs : suffix (after_last_dot s s) s).
  { destruct (after_last_dot_suffix s s) as [E|H]; [rewrite E; apply suffix_refl|exact H]. }
  destruct Hs as (p & Hp). destruct (before_dollar_prefix (after_last_dot s s)) as (q & Hq).
  exists p, q. rewrite <- Hq. exact Hp.
Qed.
Print Assumptions outer_simple_name_sub.

(* ---- provenance of the answers ---- *)

Theorem c_remap_class_provenance : forall c name s, c_remap_class c name = Some s -> sub s (k_strings c).
Proof.
  intros c name s. unfold c_remap_class. destruct (get_class c name) as [cl|]; [|discriminate].
  apply read_string_sub.
Qed.
Print Assumptions c_remap_class_provenance.

Theorem c_remap_method_provenance : forall c cls m a b,
  c_remap_method c cls m = Some (a, b) -> sub a (k_strings c) /\ sub b (k_strings c).
Proof.
  intros c cls m a b. unfold c_remap_method.
  destruct (get_class c cls) as [cl|]; [|discriminate].
  destruct (slice (k_members c) (w cl 3) (w cl 4)) as [ms|]; [|discriminate].
  destruct (find_range _ _ ms) as [[|first rest]|]; try discriminate.
  destruct (forallb _ rest); [|discriminate].
  destruct (read_string (k_strings c) (w cl 1)) as [oc|] eqn:E1; [|discriminate].
  destruct (read_string (k_strings c) (w first 5)) as [om|] eqn:E2; [|discriminate].
  intros H. inversion H; subst. split; eapply read_string_sub; eassumption.
Qed.
Print Assumptions c_remap_method_provenance.

Definition frame_from (sb : list N) (file : option str) (fr : str * str * option str * N) : Prop :=
  let '(kl, me, fl, ln) := fr in
  sub kl sb /\ sub me sb /\
  match fl with None => True | Some f => sub f sb \/ Some f = file end.

Lemma c_with_lines_provenance c oc file line : sub oc (k_strings c) -> forall ms fr,
  In fr (c_with_lines c oc file line ms) -> frame_from (k_strings c) file fr.
Proof.
  intros Hoc. induction ms as [|m ms IH]; intros fr H; cbn [c_with_lines] in H; [destruct H|].
  cbv zeta in H.
  destruct ((0 <? w m 2) && ((line <? w m 1) || (w m 2 <? line))); [exact (IH fr H)|].
  match type of H with
  | In _ (match ?lo with Some _ => _ | None => _ end) => destruct lo as [ln|]; [|exact (IH fr H)]
  end.
  set (cls := match read_string (k_strings c) (w m 3) with Some s => s | None => oc end) in *.
  assert (Hcls : sub cls (k_strings c)).
  { unfold cls. destruct (read_string (k_strings c) (w m 3)) as [s|] eqn:E; [|exact Hoc].
    eapply read_string_sub; eassumption. }
  match type of H with
  | In _ (match ?fo with Some _ => _ | None => _ end) =>
      assert (Hfo : forall fl, fo = Some fl ->
                match fl with None => True | Some f => sub f (k_strings c) \/ Some f = file end);
      [|destruct fo as [fl|]; [specialize (Hfo fl eq_refl)|exact (IH fr H)]]
  end.
  { intros fl. destruct (negb (w m 4 =? MAX32)).
    - destruct (read_string (k_strings c) (w m 4)) as [fname|] eqn:E; [|discriminate].
      destruct (str_eqb fname synthetic); intros Hfl; inversion Hfl; subst; left.
      + eapply sub_trans; [apply outer_simple_name_sub|exact Hcls].
      + eapply read_string_sub; eassumption.
    - destruct (negb (w m 3 =? MAX32)); intros Hfl; inversion Hfl as [Hf]; [exact I|].
      destruct fl as [f|]; [right; reflexivity|exact I]. }
  destruct (read_string (k_strings c) (w m 5)) as [meth|] eqn:E; [|exact (IH fr H)].
  destruct H as [H|H]; [|exact (IH fr H)]. subst fr. unfold frame_from.
  split; [exact Hcls|]. split; [eapply read_string_sub; eassumption|exact Hfo].
Qed.

Theorem c_frames_provenance : forall c cls m line file fr,
  In fr (c_remap_frame_lines c cls m line file) ->
  let '(kl, me, fl, ln) := fr in
  sub kl (k_strings c) /\ sub me (k_strings c) /\
  (match fl with None => True | Some f => sub f (k_strings c) \/ Some f = file end).
Proof.
  intros c cls m line file fr. unfold c_remap_frame_lines.
  destruct (get_class c cls) as [cl|]; [|intros []].
  destruct (read_string (k_strings c) (w cl 1)) as [oc|] eqn:E; [|intros []].
  destruct (slice (k_members c) (w cl 3) (w cl 4)) as [ms|]; [|intros []].
  destruct (find_range _ _ ms) as [rng|]; [|intros []].
  intros H. apply read_string_sub in E.
  exact (c_with_lines_provenance c oc file line E rng fr H).
Qed.
Print Assumptions c_frames_provenance.

Lemma c_without_lines_provenance c oc : sub oc (k_strings c) -> forall ms kl me,
  In (kl, me) (c_without_lines c oc ms) -> sub kl (k_strings c) /\ sub me (k_strings c).
Proof.
  intros Hoc. induction ms as [|m ms IH]; intros kl me H; cbn [c_without_lines] in H; [destruct H|].
  cbv zeta in H.
  destruct (read_string (k_strings c) (w m 5)) as [meth|] eqn:E5; [|destruct H].
  destruct H as [H|H]; [|exact (IH kl me H)]. inversion H; subst. split.
  - destruct (read_string (k_strings c) (w m 3)) as [s|] eqn:E3; [|exact Hoc].
    eapply read_string_sub; eassumption.
  - eapply read_string_sub; eassumption.
Qed.

Theorem c_params_provenance : forall c cls m p kl me,
  In (kl, me) (c_remap_frame_params c cls m p) -> sub kl (k_strings c) /\ sub me (k_strings c).
Proof.
  intros c cls m p kl me. unfold c_remap_frame_params.
  destruct (get_class c cls) as [cl|]; [|intros []].
  destruct (read_string (k_strings c) (w cl 1)) as [oc|] eqn:E; [|intros []].
  destruct (slice (k_byparams c) (w cl 5) (w cl 6)) as [ms|]; [|intros []].
  destruct (find_range _ _ ms) as [rng|]; [|intros []].
  intros H. apply read_string_sub in E.
  exact (c_without_lines_provenance c oc E rng kl me H).
Qed.
Print Assumptions c_params_provenance.

(* ---- the string section is the tail of the accepted buffer ---- *)

Lemma rd32_suffix l v r : rd32 l = Some (v, r) -> suffix r l.
Proof.
  destruct l as [|a [|b [|c [|d l']]]]; try discriminate. cbn [rd32].
  intros H. inversion H; subst. exists [a; b; c; d]. reflexivity.
Qed.

Lemma rd_words_suffix : forall k l ws r, rd_words k l = Some (ws, r) -> suffix r l.
Proof.
  induction k as [|k IH]; intros l ws r H; cbn [rd_words] in H.
  - inversion H; subst. apply suffix_refl.
  - destruct (rd32 l) as [[v r1]|] eqn:E; [|discriminate].
    destruct (rd_words k r1) as [[ws' r2]|] eqn:E2; [|discriminate]. inversion H; subst.
    eapply suffix_trans; [eapply IH; eassumption|eapply rd32_suffix; eassumption].
Qed.

Lemma rd_recs_suffix wpr : forall n l rs r, rd_recs wpr n l = Some (rs, r) -> suffix r l.
Proof.
  induction n as [|n IH]; intros l rs r H; cbn [rd_recs] in H.
  - inversion H; subst. apply suffix_refl.
  - destruct (rd_words wpr l) as [[ws r1]|] eqn:E; [|discriminate].
    destruct (rd_recs wpr n r1) as [[rs' r2]|] eqn:E2; [|discriminate]. inversion H; subst.
    eapply suffix_trans; [eapply IH; eassumption|eapply rd_words_suffix; eassumption].
Qed.

Lemma rd_section_suffix wpr n l rs r : rd_section wpr n l = Some (rs, r) -> suffix r l.
Proof.
  unfold rd_section. destruct (lenN l <? 4 * N.of_nat wpr * n); [discriminate|]. apply rd_recs_suffix.
Qed.

Lemma take_exact_suffix {A} : forall n (l a r : list A), take_exact n l = Some (a, r) -> l = a ++ r.
Proof.
  induction n as [|n IH]; intros l a r H; cbn [take_exact] in H.
  - inversion H; subst. reflexivity.
  - destruct l as [|x l']; [discriminate|].
    destruct (take_exact n l') as [[a' r']|] eqn:E; [|discriminate]. inversion H; subst.
    cbn [app]. f_equal. apply IH. exact E.
Qed.

Lemma align8_suffix pos l pos' r : align8 pos l = Some (pos', r) -> suffix r l.
Proof.
  unfold align8. destruct (take_exact (N.to_nat (pad_len pos)) l) as [[a r']|] eqn:E; [|discriminate].
  intros H. inversion H; subst. exists a. apply take_exact_suffix in E. exact E.
Qed.

Theorem parse_strings_suffix : forall buf c, parse buf = POk c -> suffix (k_strings c) buf.
Proof.
  intros buf c. unfold parse.
  destruct (rd_words 6 buf) as [[hdr r0]|] eqn:E0; [|discriminate]. cbv zeta.
  destruct (nth 0 hdr 0 =? cache_magic_flipped); [discriminate|].
  destruct (negb (nth 0 hdr 0 =? cache_magic)); [discriminate|].
  destruct (negb (nth 1 hdr 0 =? cache_version)); [discriminate|].
  destruct (align8 24 r0) as [[p1 r1]|] eqn:E1; [|discriminate].
  destruct (rd_section 7 (nth 2 hdr 0) r1) as [[cls r2]|] eqn:E2; [|discriminate].
  destruct (align8 (p1 + 28 * nth 2 hdr 0) r2) as [[p3 r3]|] eqn:E3; [|discriminate].
  destruct (rd_section 9 (nth 3 hdr 0) r3) as [[ms r4]|] eqn:E4; [|discriminate].
  destruct (align8 (p3 + 36 * nth 3 hdr 0) r4) as [[p5 r5]|] eqn:E5; [|discriminate].
  destruct (rd_section 9 (nth 4 hdr 0) r5) as [[ps r6]|] eqn:E6; [|discriminate].
  destruct (align8 (p5 + 36 * nth 4 hdr 0) r6) as [[p7 r7]|] eqn:E7; [|discriminate].
  destruct (lenN r7 <? nth 5 hdr 0); [discriminate|].
  intros H. inversion H; subst. cbn [k_strings].
  apply rd_words_suffix in E0. apply align8_suffix in E1. apply rd_section_suffix in E2.
  apply align8_suffix in E3. apply rd_section_suffix in E4. apply align8_suffix in E5.
  apply rd_section_suffix in E6. apply align8_suffix in E7.
  repeat (eapply suffix_trans; [eassumption|]). apply suffix_refl.
Qed.
Print Assumptions parse_strings_suffix.

Theorem parse_strings_sub : forall buf c, parse buf = POk c -> sub (k_strings c) buf.
Proof. intros buf c H. apply suffix_sub. apply parse_strings_suffix. exact H. Qed.
Print Assumptions parse_strings_sub.

(* C12, provenance, end to end: every string of every answer of a query on an accepted buffer is a
   contiguous piece of the buffer (or the query's own class-derived / file strings) *)
Theorem C12_frames_from_buffer : forall buf c cls m line file fr,
  parse buf = POk c -> In fr (c_remap_frame_lines c cls m line file) -> frame_from buf file fr.
Proof.
  intros buf c cls m line file [[[kl me] fl] ln] Hp H. apply parse_strings_sub in Hp.
  pose proof (c_frames_provenance c cls m line file _ H) as (Hk & Hm & Hf). cbv beta iota in *.
  unfold frame_from. split; [eapply sub_trans; eassumption|]. split; [eapply sub_trans; eassumption|].
  destruct fl as [f|]; [|exact I]. destruct Hf as [Hf|Hf]; [left; eapply sub_trans; eassumption|right; exact Hf].
Qed.
Print Assumptions C12_frames_from_buffer.

Theorem C12_class_from_buffer : forall buf c name s,
  parse buf = POk c -> c_remap_class c name = Some s -> sub s buf.
Proof.
  intros buf c name s Hp H. eapply sub_trans; [eapply c_remap_class_provenance; eassumption|].
  apply parse_strings_sub. exact Hp.
Qed.

Theorem C12_method_from_buffer : forall buf c cls m a b,
  parse buf = POk c -> c_remap_method c cls m = Some (a, b) -> sub a buf /\ sub b buf.
Proof.
  intros buf c cls m a b Hp H. apply parse_strings_sub in Hp.
  destruct (c_remap_method_provenance c cls m a b H) as [Ha Hb].
  split; eapply sub_trans; eassumption.
Qed.

Theorem C12_params_from_buffer : forall buf c cls m p kl me,
  parse buf = POk c -> In (kl, me) (c_remap_frame_params c cls m p) -> sub kl buf /\ sub me buf.
Proof.
  intros buf c cls m p kl me Hp H. apply parse_strings_sub in Hp.
  destruct (c_params_provenance c cls m p kl me H) as [Ha Hb].
  split; eapply sub_trans; eassumption.
Qed.
Print Assumptions C12_params_from_buffer.

(* ========================================================================= *)
(** * Part 3 (C13): the counters of the cache writer cannot overflow *)

(* the narrowing casts [as u32] are total and yield a u32 *)
Lemma u32_lt n : u32 n < U32.
Proof. unfold u32. apply N.mod_lt. discriminate. Qed.

Lemma u32_id n : n < U32 -> u32 n = n.
Proof. intros H. unfold u32. apply N.mod_small. exact H. Qed.

Definition cnt_m (c : cip) : nat := length (flat_map snd (cip_members c)).
Definition cnt_p (c : cip) : nat := length (flat_map snd (cip_byparams c)).
Definition tot (f : cip -> nat) (cs : list (str * cip)) : nat := list_sum (map (fun kv => f (snd kv)) cs).
Definition nz (c : cip) : nat := if is_empty (cip_name c) then 0%nat else 1%nat.

Lemma bt_insert_tot (f : cip -> nat) cmp k v : forall l,
  (tot f (bt_insert cmp k v l) <= tot f l + f v)%nat.
Proof.
  unfold tot, list_sum. induction l as [|[k' v'] l IH]; cbn [bt_insert map list_sum fold_right snd]; [lia|].
  destruct (cmp k k'); cbn [map list_sum fold_right snd]; lia.
Qed.

Lemma bt_insert_length {K V} (cmp : K -> K -> comparison) k (v : V) : forall l,
  (length (bt_insert cmp k v l) <= S (length l))%nat.
Proof.
  induction l as [|[k' v'] l IH]; cbn [bt_insert length]; [lia|].
  destruct (cmp k k'); cbn [length]; lia.
Qed.

(* entry(k).or_default().push(v) adds exactly one element *)
Lemma bt_push_count {K V} (cmp : K -> K -> comparison) k (v : V) : forall l,
  length (flat_map snd (bt_push cmp k v l)) = S (length (flat_map snd l)).
Proof.
  induction l as [|[k' vs] l IH]; cbn [bt_push flat_map snd app length]; [reflexivity|].
  destruct (cmp k k'); cbn [flat_map snd app length].
  - rewrite !app_length. cbn [length]. lia.
  - reflexivity.
  - rewrite !app_length, IH. lia.
Qed.

Lemma flush_tot f st : (tot f (flush st) <= tot f (w_classes st) + f (w_cur st))%nat.
Proof. unfold flush. destruct (is_empty (cip_name (w_cur st))); [lia|apply bt_insert_tot]. Qed.

Lemma flush_length st : (length (flush st) <= length (w_classes st) + nz (w_cur st))%nat.
Proof.
  unfold flush, nz. destruct (is_empty (cip_name (w_cur st))); [lia|].
  pose proof (bt_insert_length lex_cmp (cip_name (w_cur st)) (w_cur st) (w_classes st)). lia.
Qed.

(* after [n] records: at most [n] members, [n] by-params members, [n] classes, in total *)
Definition winv (st : wstate) (n : nat) : Prop :=
  (tot cnt_m (w_classes st) + cnt_m (w_cur st) <= n)%nat /\
  (tot cnt_p (w_classes st) + cnt_p (w_cur st) <= n)%nat /\
  (length (w_classes st) + nz (w_cur st) <= n)%nat.

Lemma wstep_inv st r next n : winv st n -> winv (wstep st r next) (S n).
Proof.
  intros (Hm & Hp & Hc).
  destruct r as [k v|orig obf|ty orig obf|ty orig obf args ocls lm]; unfold wstep.
  - destruct (str_eqb k source_file); [|repeat split; lia].
    destruct v as [f|]; [destruct (stab_insert (w_tab st) f) as [t off]|];
      unfold winv, cnt_m, cnt_p, nz, with_class in *;
      cbn [w_classes w_cur cip_members cip_byparams cip_name]; repeat split; lia.
  - destruct (stab_insert (w_tab st) obf) as [t1 o1]. destruct (stab_insert t1 orig) as [t2 o2].
    pose proof (flush_tot cnt_m st). pose proof (flush_tot cnt_p st). pose proof (flush_length st).
    unfold winv. cbn [w_classes w_cur]. unfold cnt_m at 2, cnt_p at 2, nz at 1.
    cbn [cip_members cip_byparams cip_name flat_map length].
    destruct (is_empty obf); repeat split; lia.
  - repeat split; lia.
  - destruct (member_lines lm) as [[[s e] os] oe].
    destruct (stab_insert (w_tab st) obf) as [t1 o1]. destruct (stab_insert t1 orig) as [t2 o2].
    destruct (match ocls with
              | Some c => let '(t', o) := stab_insert t2 c in (t', u32 o)
              | None => (t2, MAX32) end) as [t3 o3].
    destruct (stab_insert t3 args) as [t4 o4].
    match goal with |- winv (if ?b then _ else _) _ => destruct b end;
      unfold winv, cnt_m, cnt_p, nz in *;
      cbn [w_classes w_cur cip_members cip_byparams cip_name];
      rewrite ?bt_push_count; repeat split; lia.
Qed.

Lemma wrun_inv : forall rs st n, winv st n -> winv (wrun st rs) (n + length rs).
Proof.
  induction rs as [|r rs IH]; intros st n H; cbn [wrun length].
  - rewrite Nat.add_0_r. exact H.
  - rewrite Nat.add_succ_r. apply (IH _ (S n)). apply wstep_inv. exact H.
Qed.

Lemma winv_init : winv wstate_init 0.
Proof. unfold winv. cbn. repeat split; lia. Qed.

Lemma flatten_counts : forall cs nm np crs ms ps, flatten cs nm np = (crs, ms, ps) ->
  length crs = length cs /\ length ms = tot cnt_m cs /\ length ps = tot cnt_p cs.
Proof.
  induction cs as [|[k c] cs IH]; intros nm np crs ms ps H; cbn [flatten] in H.
  - inversion H; subst. repeat split.
  - cbv zeta in H.
    destruct (flatten cs (nm + lenN (flat_map snd (cip_members c))) (np + lenN (flat_map snd (cip_byparams c))))
      as [[crs' mss] pss] eqn:E.
    inversion H; subst. destruct (IH _ _ _ _ _ E) as (H1 & H2 & H3).
    unfold tot, list_sum in *. cbn [length map list_sum fold_right snd]. rewrite !app_length. unfold cnt_m at 1, cnt_p at 1.
    repeat split; lia.
Qed.

(* each record contributes at most one member, one by-params member and one class *)
Theorem write_counts_le : forall rs,
  (length (cs_members (write_struct rs)) <= length rs)%nat /\
  (length (cs_byparams (write_struct rs)) <= length rs)%nat /\
  (length (cs_classes (write_struct rs)) <= length rs)%nat.
Proof.
  intros rs. unfold write_struct. cbv zeta.
  destruct (flatten (flush (wrun wstate_init rs)) 0 0) as [[crs ms] ps] eqn:E.
  cbn [cs_members cs_byparams cs_classes].
  destruct (flatten_counts _ _ _ _ _ _ E) as (H1 & H2 & H3).
  destruct (wrun_inv rs wstate_init 0%nat winv_init) as (Hm & Hp & Hc). cbn [Nat.add] in *.
  pose proof (flush_tot cnt_m (wrun wstate_init rs)). pose proof (flush_tot cnt_p (wrun wstate_init rs)).
  pose proof (flush_length (wrun wstate_init rs)). repeat split; lia.
Qed.
Print Assumptions write_counts_le.

Corollary write_counts_leN : forall rs,
  lenN (cs_members (write_struct rs)) <= lenN rs /\
  lenN (cs_byparams (write_struct rs)) <= lenN rs /\
  lenN (cs_classes (write_struct rs)) <= lenN rs.
Proof. intros rs. destruct (write_counts_le rs) as (H1 & H2 & H3). unfold lenN. repeat split; lia. Qed.

(* at most one record per input byte *)
Lemma ok_records_length its : (length (ok_records its) <= length its)%nat.
Proof.
  unfold ok_records. induction its as [|[r|e] its IH]; cbn [flat_map app length]; lia.
Qed.

Theorem recs_length_bound : forall b, (length (recs b) <= length b)%nat.
Proof.
  intros b. unfold recs. pose proof (ok_records_length (items b)). pose proof (items_length_bound b). lia.
Qed.
Print Assumptions recs_length_bound.

(* for a mapping file of fewer than 2^32 bytes no counter of the writer reaches 2^32: the u32
   additions [members_len += 1], [.sum::<u32>()] cannot overflow and the [as u32] casts of the
   counts are lossless *)
Theorem write_counts_bounded : forall b, lenN b < U32 ->
  let s := write_struct (recs b) in
  lenN (cs_members s) < U32 /\ lenN (cs_byparams s) < U32 /\ lenN (cs_classes s) < U32.
Proof.
  intros b Hb. cbv zeta. destruct (write_counts_le (recs b)) as (H1 & H2 & H3).
  pose proof (recs_length_bound b) as Hr. unfold lenN in *. repeat split; lia.
Qed.
Print Assumptions write_counts_bounded.

(* ---- no wrap-around happened: the u32 counters hold the true counts ---- *)

(* the per-class counters are the true counts modulo 2^32 — unconditionally *)
Definition cip_ok (c : cip) : Prop :=
  c_mlen (cip_class c) = u32 (N.of_nat (cnt_m c)) /\ c_plen (cip_class c) = u32 (N.of_nat (cnt_p c)).
Definition wok (st : wstate) : Prop :=
  Forall (fun kv => cip_ok (snd kv)) (w_classes st) /\ cip_ok (w_cur st).

Lemma u32_succ a k : a = u32 (N.of_nat k) -> u32 (a + 1) = u32 (N.of_nat (S k)).
Proof. intros ->. unfold u32. rewrite N.add_mod_idemp_l by discriminate. f_equal. lia. Qed.

Lemma bt_insert_Forall {K V} (P : K * V -> Prop) cmp k v : forall l,
  Forall P l -> P (k, v) -> Forall P (bt_insert cmp k v l).
Proof.
  induction l as [|[k' v'] l IH]; intros Hl Hv; cbn [bt_insert]; [constructor; [exact Hv|constructor]|].
  inversion Hl as [|? ? Hx Hl']; subst. destruct (cmp k k').
  - constructor; assumption.
  - constructor; assumption.
  - constructor; [exact Hx|apply IH; assumption].
Qed.

Lemma wstep_ok st r next : wok st -> wok (wstep st r next).
Proof.
  intros (Hcs & Hm & Hp).
  destruct r as [k v|orig obf|ty orig obf|ty orig obf args ocls lm]; unfold wstep.
  - destruct (str_eqb k source_file); [|split; [exact Hcs|split; assumption]].
    destruct v as [f|]; [destruct (stab_insert (w_tab st) f) as [t off]|];
      (split; cbn [w_classes w_cur]; [exact Hcs|]); split; assumption.
  - destruct (stab_insert (w_tab st) obf) as [t1 o1]. destruct (stab_insert t1 orig) as [t2 o2].
    split; cbn [w_classes w_cur].
    + unfold flush. destruct (is_empty (cip_name (w_cur st))); [exact Hcs|].
      apply bt_insert_Forall; [exact Hcs|]. cbn [snd]. split; assumption.
    + split; reflexivity.
  - split; [exact Hcs|split; assumption].
  - destruct (member_lines lm) as [[[s e] os] oe].
    destruct (stab_insert (w_tab st) obf) as [t1 o1]. destruct (stab_insert t1 orig) as [t2 o2].
    destruct (match ocls with
              | Some c => let '(t', o) := stab_insert t2 c in (t', u32 o)
              | None => (t2, MAX32) end) as [t3 o3].
    destruct (stab_insert t3 args) as [t4 o4].
    match goal with |- wok (if ?b then _ else _) => destruct b end;
      (split; cbn [w_classes w_cur]; [exact Hcs|]);
      unfold cip_ok, cnt_m, cnt_p, bump_p, bump_m in *;
      cbn [cip_class cip_members cip_byparams c_mlen c_plen]; rewrite ?bt_push_count;
      split; try assumption; apply u32_succ; assumption.
Qed.

Lemma wrun_ok : forall rs st, wok st -> wok (wrun st rs).
Proof.
  induction rs as [|r rs IH]; intros st H; cbn [wrun]; [exact H|]. apply IH. apply wstep_ok. exact H.
Qed.

Lemma wok_init : wok wstate_init.
Proof. split; [constructor|split; reflexivity]. Qed.

Lemma flush_ok st : wok st -> Forall (fun kv => cip_ok (snd kv)) (flush st).
Proof.
  intros (Hcs & Hc). unfold flush. destruct (is_empty (cip_name (w_cur st))); [exact Hcs|].
  apply bt_insert_Forall; [exact Hcs|exact Hc].
Qed.

Lemma u32_add a b : u32 (u32 a + u32 b) = u32 (a + b).
Proof. unfold u32. rewrite <- N.add_mod by discriminate. reflexivity. Qed.

(* the [.sum::<u32>()] of the per-class counters is the true total modulo 2^32 *)
Lemma fold_counts (g : classrec -> N) (cnt : cip -> nat) cs :
  Forall (fun kv => g (cip_class (snd kv)) = u32 (N.of_nat (cnt (snd kv)))) cs -> forall a,
  fold_left (fun a c => u32 (a + g (cip_class (snd c)))) cs (u32 a) = u32 (a + N.of_nat (tot cnt cs)).
Proof.
  unfold tot, list_sum.
  induction 1 as [|x l Hx Hl IH]; intros a; cbn [fold_left map fold_right].
  - rewrite N.add_0_r. reflexivity.
  - rewrite Hx, u32_add, IH. f_equal. lia.
Qed.

Theorem write_counts_exact : forall rs, lenN rs < U32 ->
  let s := write_struct rs in
  cs_num_members s = lenN (cs_members s) /\ cs_num_byparams s = lenN (cs_byparams s).
Proof.
  intros rs Hrs. cbv zeta. destruct (write_counts_le rs) as (L1 & L2 & _). revert L1 L2.
  unfold write_struct. cbv zeta.
  destruct (flatten (flush (wrun wstate_init rs)) 0 0) as [[crs ms] ps] eqn:E.
  cbn [cs_members cs_byparams cs_num_members cs_num_byparams]. intros L1 L2.
  destruct (flatten_counts _ _ _ _ _ _ E) as (_ & H2 & H3).
  pose proof (flush_ok _ (wrun_ok rs _ wok_init)) as Hok.
  assert (F : forall g cnt, Forall (fun kv => g (cip_class (snd kv)) = u32 (N.of_nat (cnt (snd kv)))) (flush (wrun wstate_init rs)) ->
             fold_left (fun a c => u32 (a + g (cip_class (snd c)))) (flush (wrun wstate_init rs)) 0
             = u32 (N.of_nat (tot cnt (flush (wrun wstate_init rs))))).
  { intros g cnt Hg. pose proof (fold_counts g cnt _ Hg 0) as F. rewrite N.add_0_l in F. exact F. }
  split.
  - rewrite (F c_mlen cnt_m).
    + rewrite <- H2. apply u32_id. unfold lenN in *. lia.
    + eapply Forall_impl; [|exact Hok]. intros kv Hk. exact (proj1 Hk).
  - rewrite (F c_plen cnt_p).
    + rewrite <- H3. apply u32_id. unfold lenN in *. lia.
    + eapply Forall_impl; [|exact Hok]. intros kv Hk. exact (proj2 Hk).
Qed.
Print Assumptions write_counts_exact.

(* for a mapping file below 4 GiB the header counts written to the cache are the true counts *)
Corollary write_bytes_counts_exact : forall b, lenN b < U32 ->
  let s := write_struct (recs b) in
  cs_num_members s = lenN (cs_members s) /\ cs_num_byparams s = lenN (cs_byparams s).
Proof.
  intros b Hb. apply write_counts_exact. pose proof (recs_length_bound b). unfold lenN in *. lia.
Qed.
Print Assumptions write_bytes_counts_exact.

(* ========================================================================= *)
(** * Examples: the hypotheses are satisfiable, the conclusions are not vacuous *)
Module SafetyExamples2.
  Definition empty_cache := {| k_classes := []; k_members := []; k_byparams := []; k_strings := [] |}.
  Definition cache_of (buf : list N) : cache := match parse buf with POk c => c | PErr _ => empty_cache end.

  (* class p.O$I -> x, in a synthetic source file; one member with a line range and one inlined
     from another class without *)
  Definition rsS : list record :=
    [ RClass [112;46;79;36;73] [120];
      RHeader source_file (Some synthetic);
      RMethod [86] [102] [109] [73] None (Some {| lm_start := 3; lm_end := 7; lm_os := Some 10; lm_oe := Some 14 |});
      RMethod [86] [103] [109] [73] (Some [113;46;75]) None ].
  Definition bufS := write rsS.
  Definition kS := cache_of bufS.

  Example bufS_accepted : parse bufS = POk kS.
  Proof. vm_compute. reflexivity. Qed.
  Example bufS_strings_tail : skipn 200 bufS = k_strings kS /\ length bufS = 239%nat.
  Proof. vm_compute. split; reflexivity. Qed.

  (* file [79] = "O" = outer_simple_name "p.O$I": a piece of the class name, itself in the buffer *)
  Example frames_S : c_remap_frame_lines kS [120] [109] 5 (Some [70])
    = [([112;46;79;36;73], [102], Some [79], 12); ([113;46;75], [103], Some [75], 0)].
  Proof. vm_compute. reflexivity. Qed.
  Example frames_S_below_range : c_remap_frame_lines kS [120] [109] 1 (Some [70])
    = [([113;46;75], [103], Some [75], 0)].
  Proof. vm_compute. reflexivity. Qed.
  Example params_S : c_remap_frame_params kS [120] [109] [73]
    = [([112;46;79;36;73], [102]); ([113;46;75], [103])].
  Proof. vm_compute. reflexivity. Qed.
  Example class_S : c_remap_class kS [120] = Some [112;46;79;36;73].
  Proof. vm_compute. reflexivity. Qed.
  Example get_class_S : get_class kS [120] = Some [0; 2; 8; 0; 2; 0; 2].
  Proof. vm_compute. reflexivity. Qed.
  Example outer_S : outer_simple_name [112;46;79;36;73] = [79].
  Proof. vm_compute. reflexivity. Qed.
  Example read_string_S : read_string (k_strings kS) 2 = Some [112;46;79;36;73].
  Proof. vm_compute. reflexivity. Qed.
  Example slice_S : slice (k_members kS) 0 2 = Some (k_members kS) /\ slice (k_members kS) 1 2 = None.
  Proof. vm_compute. split; reflexivity. Qed.

  (* the file of the query is handed back when the mapping has none *)
  Definition k1 := cache_of (write_bytes SafetyExamples1.bytes1).
  Example frames_1 : c_remap_frame_lines k1 [120] [120] 5 (Some [70])
    = [([65], [102], Some [70], 12); ([65], [103], Some [70], 0)].
  Proof. vm_compute. reflexivity. Qed.

  (* a single-method class: the line-less method query answers *)
  Definition kM := cache_of (write [RClass [65;46;66] [120]; RMethod [86] [102;111;111] [109] [73] None None]).
  Example method_M : c_remap_method kM [120] [109] = Some ([65;46;66], [102;111;111]).
  Proof. vm_compute. reflexivity. Qed.

  Import BinSearchExamples.
  (* the binary search on a corrupted (unsorted) list still yields an index in bounds *)
  Example bs_corrupt : binary_search cmp5 0%nat corrupt_l = Some 4%nat /\ length corrupt_l = 9%nat.
  Proof. vm_compute. split; reflexivity. Qed.
  Example find_range_corrupt : find_range cmp5 0%nat corrupt_l = Some [5; 5]%nat.
  Proof. vm_compute. reflexivity. Qed.
  Example bs_loop_more_fuel :
    bs_loop cmp5 0%nat 100 corrupt_l 0 (length corrupt_l) = bs_loop cmp5 0%nat 9 corrupt_l 0 (length corrupt_l).
  Proof. vm_compute. reflexivity. Qed.

  (* the counters of the writer on a 58-byte mapping: 3 records, 2 members, 2 by-params, 1 class *)
  Example counts_1 :
    let s := write_struct (recs SafetyExamples1.bytes1) in
    (length (cs_members s), length (cs_byparams s), length (cs_classes s),
     length (recs SafetyExamples1.bytes1), length SafetyExamples1.bytes1) = (2, 2, 1, 3, 58)%nat.
  Proof. vm_compute. reflexivity. Qed.
  Example bytes1_small : lenN SafetyExamples1.bytes1 < U32.
  Proof. vm_compute. reflexivity. Qed.
  (* the theorems instantiated on these values *)
  Example frames_S_provenance : forall fr,
    In fr (c_remap_frame_lines kS [120] [109] 5 (Some [70])) -> frame_from bufS (Some [70]) fr.
  Proof. intros fr. apply C12_frames_from_buffer. exact bufS_accepted. Qed.
  Example class_S_provenance : sub [112;46;79;36;73] bufS.
  Proof. exact (C12_class_from_buffer bufS kS [120] _ bufS_accepted class_S). Qed.
  Example get_class_S_in : In [0; 2; 8; 0; 2; 0; 2] (k_classes kS).
  Proof. exact (get_class_in_bounds kS [120] _ get_class_S). Qed.
  Example bs_corrupt_in_bounds : (4 <= length corrupt_l)%nat.
  Proof. exact (find_range_indices_in_bounds _ cmp5 0%nat corrupt_l 4%nat (proj1 bs_corrupt)). Qed.
  Example counts_bounded_1 :
    let s := write_struct (recs SafetyExamples1.bytes1) in
    lenN (cs_members s) < U32 /\ lenN (cs_byparams s) < U32 /\ lenN (cs_classes s) < U32.
  Proof. exact (write_counts_bounded SafetyExamples1.bytes1 bytes1_small). Qed.
  Example counts_exact_1 :
    let s := write_struct (recs SafetyExamples1.bytes1) in cs_num_members s = 2 /\ cs_num_byparams s = 2.
  Proof. vm_compute. split; reflexivity. Qed.
  Example mapper_total_1 : exists fs,
    m_remap_frame_lines (build true (recs SafetyExamples1.bytes1)) [120] [120] 1 None = Ok fs.
  Proof. apply C13_mapper_total. Qed.
End SafetyExamples2.
