(* PropC05.v — property C05: well-formed mapping lines parse to exactly their parts;
   malformed ones are errors carrying the offending line.  AST, printer and wf predicate are in
   Roundtrip.v, proofs in RoundtripProofs.v. *)
From PG Require Import Base Mapping Roundtrip RoundtripProofs FileLevel.

Theorem C05_line_roundtrip : forall a t, wf_line a = true -> In t [[]; [10]; [13;10]; [10;10]] ->
  try_parse (print_line a ++ t) = IOk (record_of a).
Proof. exact C05_roundtrip. Qed.

(* as part of a file, with any terminator and any following content *)
Theorem C05_line_in_file : forall a nl rest, wf_line a = true -> In nl [[10]; [13]; [13;10]] ->
  items (print_line a ++ nl ++ rest) = IOk (record_of a) :: items (drop_nl rest).
Proof. exact C05_in_file. Qed.

(* the documented malformations are errors carrying the offending line *)
Theorem C05_missing_class_colon : forall o b, wf_line (LClass o b) = true ->
  try_parse (print_bad_class_nocolon o b) = IErr (print_bad_class_nocolon o b).
Proof. exact bad_class_nocolon. Qed.
Theorem C05_unspaced_arrow : forall o b, wf_line (LClass o b) = true -> lacks 32 b = true ->
  try_parse (print_bad_class_arrow o b) = IErr (print_bad_class_arrow o b).
Proof. exact bad_class_arrow. Qed.
Theorem C05_wrong_indentation : forall a, is_member a = true -> wf_line a = true -> member_nonblank a = true ->
  try_parse (print_bad_indent a) = IErr (print_bad_indent a).
Proof. exact bad_indent. Qed.
Theorem C05_start_without_end : forall s a, is_member a = true -> wf_line a = true -> no_line_prefix a = true -> s < U64 ->
  try_parse (print_bad_noend s a) = IErr (print_bad_noend s a).
Proof. exact bad_noend. Qed.
Theorem C05_missing_return_type : forall lines ty ocls n args ol b,
  wf_line (LMethod lines ty ocls n args ol b) = true ->
  lacks 32 args = true -> first_not_numeric (print_orig ocls n) = true -> starts_with [45; 62; 32] b = false ->
  try_parse (print_bad_noret ocls n args ol b) = IErr (print_bad_noret ocls n args ol b).
Proof. exact bad_noret. Qed.

(* a whole file: grammar lines and noise (blank / unparseable lines), each with its own terminator
   (LF, CR or CRLF), parse to exactly the records of the grammar lines, in order; the last line may lack
   its terminator *)
Theorem C05_file_records : forall f, wf_file f = true ->
  recs (print_file f) = map record_of (file_lines f).
Proof. exact recs_print_file_lines. Qed.
Theorem C05_file_last_unterminated : forall f e, wf_file f = true -> wf_elem e = true ->
  recs (print_file f ++ print_elem e) = recs (print_file f) ++ elem_records e.
Proof. exact recs_print_file_last. Qed.

Check C05_line_roundtrip : forall a t, wf_line a = true -> In t [[]; [10]; [13;10]; [10;10]] ->
  try_parse (print_line a ++ t) = IOk (record_of a).
