(* PipelineTotal.v — the remaining clause of property C13 for EVERY byte string (no representable-domain
   hypothesis): writing the cache of any mapping file below 2 GiB yields a well-formed structure
   ([struct_wf]) and the reader parses the written bytes back to exactly that structure.

   Three ingredients beyond the counters (SafetyProofs.v) and the size of the string section (SizeBounds.v):
   1. every string component of a parsed record consists of bytes of the input  ([recs_bytes]);
   2. hence the string section consists of bytes                                  ([strings_bytes]);
   3. every word of every class / member record the writer holds is < 2^32        ([wrun_words]). *)
From Coq Require Import Lia Arith Wf_nat.
From PG Require Import Base Mapping Spec Mapper CacheWriter CacheReader CacheStructDefs
  MappingProofs StringTableProofs WriterInv SafetyProofs IsolationProofs CacheBytesProofs SizeBounds.
From PG Require CacheLayout.
From Coq Require String Ascii.

Definition bytes_ok (b : list N) : bool := forallb (fun x => x <? 256) b.

(* ------------------------------------------------------------------ *)
(* 1. components of parsed records are made of input bytes              *)
(* ------------------------------------------------------------------ *)
Definition BY (l : list N) : Prop := forall x, In x l -> x < 256.

Lemma BY_iff l : BY l <-> bytes_ok l = true.
Proof.
  unfold BY, bytes_ok. rewrite forallb_forall. split; intros H x Hx.
  - apply N.ltb_lt. apply H. exact Hx.
  - apply N.ltb_lt. apply H. exact Hx.
Qed.

Lemma BY_nil : BY [].
Proof. intros x []. Qed.

Lemma BY_incl a b : incl a b -> BY b -> BY a.
Proof. intros Hi Hb x Hx. apply Hb. apply Hi. exact Hx. Qed.

Lemma BY_app a b : BY (a ++ b) -> BY a /\ BY b.
Proof.
  intros H. split; intros x Hx; apply H; apply in_or_app; [left|right]; exact Hx.
Qed.

Lemma span_BY p l a b : span p l = (a, b) -> BY l -> BY a /\ BY b.
Proof. intros H Hl. apply span_app in H. subst. apply BY_app. exact Hl. Qed.

Lemma strip_prefix_BY pre l r : strip_prefix pre l = Some r -> BY l -> BY r.
Proof. intros H Hl. apply strip_prefix_app in H. subst. apply (BY_app _ _ Hl). Qed.

Lemma parse_until_BY p l a b : parse_until p l = Some (a, b) -> BY l -> BY a /\ BY b.
Proof.
  unfold parse_until. destruct (span p l) as [a' b'] eqn:E. destruct (utf8_valid a'); [|discriminate].
  intros H. inversion H; subst. eapply span_BY. exact E.
Qed.

Lemma punn_BY p l a b : parse_until_no_newline p l = Some (a, b) -> BY l -> BY a /\ BY b.
Proof.
  unfold parse_until_no_newline. intros H. bind_some H as [a' b'] E.
  destruct (head_is_nl b'); [discriminate|]. inversion H; subst. eapply parse_until_BY. exact E.
Qed.

Lemma parse_usize_BY l v b : parse_usize l = Some (v, b) -> BY l -> BY b.
Proof.
  unfold parse_usize. destruct (span _ l) as [a' b'] eqn:E. destruct (utf8_valid a'); [|discriminate].
  destruct (parse_uint U64 a'); cbn [bind]; [|discriminate]. intros H. inversion H; subst.
  intros Hl. exact (proj2 (span_BY _ _ _ _ E Hl)).
Qed.

Lemma opt_colon_usize_BY en l v b : opt_colon_usize en l = Some (v, b) -> BY l -> BY b.
Proof.
  unfold opt_colon_usize. destruct en.
  - destruct (strip_prefix [58] l) as [l'|] eqn:E.
    + destruct (parse_usize l') as [[v' l'']|] eqn:E2; cbn [bind]; [|discriminate].
      intros H Hl. inversion H; subst. eapply parse_usize_BY; [exact E2|]. eapply strip_prefix_BY; eassumption.
    + intros H Hl. inversion H; subst. exact Hl.
  - intros H Hl. inversion H; subst. exact Hl.
Qed.

Lemma drop_nl_incl l : incl (drop_nl l) l.
Proof.
  induction l as [|x xs IH]; cbn [drop_nl]; [apply incl_refl|].
  destruct (is_nl x); [apply incl_tl; exact IH|apply incl_refl].
Qed.

Lemma drop_nl_BY l : BY l -> BY (drop_nl l).
Proof. apply BY_incl, drop_nl_incl. Qed.

Lemma trim_BY l : BY l -> BY (trim l).
Proof. apply BY_incl, trim_incl. Qed.

Lemma source_file_BY : BY source_file.
Proof. apply BY_iff. reflexivity. Qed.

Ltac fb := repeat apply Forall_cons; try apply Forall_nil; try assumption.

Lemma parse_header_BY l r rest : parse_header l = Some (r, rest) -> BY l ->
  Forall BY (record_strings r) /\ BY rest.
Proof.
  unfold parse_header. intros H Hl. bind_some H as l0 E. pose proof (strip_prefix_BY _ _ _ E Hl) as H0.
  destruct (strip_prefix source_file_prefix l0) as [l1|] eqn:E1.
  - pose proof (strip_prefix_BY _ _ _ E1 H0) as H1.
    bind_some H as [v l2] Ev. bind_some H as l3 Eq. inversion H; subst. cbn [record_strings].
    destruct (punn_BY _ _ _ _ Ev H1) as [Hv H2]. pose proof (strip_prefix_BY _ _ _ Eq H2) as H3.
    split; [fb; exact source_file_BY|apply drop_nl_BY; exact H3].
  - bind_some H as [k l2] Ek. bind_some H as [v l3] Ev. inversion H; subst. cbn [record_strings].
    destruct (parse_until_BY _ _ _ _ Ek H0) as [Hk H2].
    destruct (strip_prefix [58] l2) as [l'|] eqn:E3.
    + bind_some Ev as [v' l''] Ev'. inversion Ev; subst. cbn [option_map].
      destruct (parse_until_BY _ _ _ _ Ev' (strip_prefix_BY _ _ _ E3 H2)) as [Hv H3].
      split; [fb; apply trim_BY; assumption|apply drop_nl_BY; exact H3].
    + inversion Ev; subst. cbn [option_map].
      split; [fb; apply trim_BY; assumption|apply drop_nl_BY; exact H2].
Qed.

Lemma parse_class_BY l r rest : parse_class l = Some (r, rest) -> BY l ->
  Forall BY (record_strings r) /\ BY rest.
Proof.
  unfold parse_class. intros H Hl.
  bind_some H as [o l1] Eo. bind_some H as l2 Ea. bind_some H as [ob l3] Eb. bind_some H as l4 Ec.
  inversion H; subst. cbn [record_strings].
  destruct (punn_BY _ _ _ _ Eo Hl) as [Ho H1]. pose proof (strip_prefix_BY _ _ _ Ea H1) as H2.
  destruct (punn_BY _ _ _ _ Eb H2) as [Hob H3]. pose proof (strip_prefix_BY _ _ _ Ec H3) as H4.
  split; [fb|apply drop_nl_BY; exact H4].
Qed.

Lemma parse_member_BY l r rest : parse_member l = Some (r, rest) -> BY l ->
  Forall BY (record_strings r) /\ BY rest.
Proof.
  unfold parse_member. intros H Hl. bind_some H as l0 E. pose proof (strip_prefix_BY _ _ _ E Hl) as H0.
  destruct (match parse_usize l0 with Some (v, l') => (Some v, l') | None => (None, l0) end)
    as [startline l1] eqn:E1.
  assert (H1 : BY l1).
  { destruct (parse_usize l0) as [[v l']|] eqn:E2; inversion E1; subst; [|exact H0].
    eapply parse_usize_BY; eauto. }
  bind_some H as [endline l2] Eend.
  assert (H2 : BY l2).
  { destruct startline.
    - bind_some Eend as la Ea. bind_some Eend as [e lb] Eb. bind_some Eend as lc Ec. inversion Eend; subst.
      eapply strip_prefix_BY; [exact Ec|]. eapply parse_usize_BY; [exact Eb|]. eapply strip_prefix_BY; eassumption.
    - inversion Eend; subst. exact H1. }
  bind_some H as [ty l3] Ety. destruct (punn_BY _ _ _ _ Ety H2) as [Hty H3].
  bind_some H as l4 Esp. pose proof (strip_prefix_BY _ _ _ Esp H3) as H4.
  bind_some H as [original l5] Eor. destruct (punn_BY _ _ _ _ Eor H4) as [Hor H5].
  bind_some H as [arguments l6] Earg.
  assert (H6 : match arguments with Some a => BY a | None => True end /\ BY l6).
  { destruct (strip_prefix [40] l5) as [l'|] eqn:E6.
    - bind_some Earg as [a l''] Ea. bind_some Earg as lb Eb. inversion Earg; subst.
      destruct (punn_BY _ _ _ _ Ea (strip_prefix_BY _ _ _ E6 H5)) as [Ha Hl''].
      split; [exact Ha|]. eapply strip_prefix_BY; eassumption.
    - inversion Earg; subst. split; [exact I|exact H5]. }
  destruct H6 as [Hargs H6].
  bind_some H as [os l7] Eos. pose proof (opt_colon_usize_BY _ _ _ _ Eos H6) as H7.
  bind_some H as [oe l8] Eoe. pose proof (opt_colon_usize_BY _ _ _ _ Eoe H7) as H8.
  bind_some H as l9 Earr. pose proof (strip_prefix_BY _ _ _ Earr H8) as H9.
  bind_some H as [obf l10] Eobf. destruct (parse_until_BY _ _ _ _ Eobf H9) as [Hobf H10].
  destruct arguments as [args|].
  - destruct (split_last_dot [] original) as [[c o]|] eqn:Esd; inversion H; subst; cbn [record_strings app].
    + apply split_last_dot_incl in Esd. cbn [app] in Esd. destruct Esd as [Hc Ho].
      split; [|apply drop_nl_BY; exact H10].
      fb; eapply BY_incl; eassumption.
    + split; [fb|apply drop_nl_BY; exact H10].
  - inversion H; subst. cbn [record_strings]. split; [fb|apply drop_nl_BY; exact H10].
Qed.

Lemma dispatch_BY l r rest : dispatch l = Some (r, rest) -> BY l -> Forall BY (record_strings r) /\ BY rest.
Proof.
  unfold dispatch. destruct (starts_with [35] l); [apply parse_header_BY|].
  destruct (starts_with four_spaces l); [apply parse_member_BY|apply parse_class_BY].
Qed.

Lemma parse_record_BY l : BY l ->
  BY (snd (parse_record l)) /\ forall r, fst (parse_record l) = IOk r -> Forall BY (record_strings r).
Proof.
  intros Hl. unfold parse_record. pose proof (drop_nl_BY l Hl) as Hd.
  destruct (dispatch (drop_nl l)) as [[r' rest]|] eqn:E.
  - cbn [fst snd]. destruct (dispatch_BY _ _ _ E Hd) as [Hr Hrest].
    split; [exact Hrest|]. intros r H. inversion H; subst. exact Hr.
  - unfold split_line. destruct (span is_nl (drop_nl l)) as [a b] eqn:Es.
    destruct (span_BY _ _ _ _ Es Hd) as [_ Hb].
    destruct b as [|x b']; cbn [fst snd]; (split; [|discriminate]); [exact BY_nil|].
    intros y Hy. apply Hb. right. exact Hy.
Qed.

Theorem items_bytes : forall (b : list N), BY b -> forall r, In (IOk r) (items b) -> Forall BY (record_strings r).
Proof.
  intros b. remember (length b) as n eqn:En. revert b En.
  induction n as [n IH] using lt_wf_ind. intros b En Hb r Hin.
  destruct b as [|x xs]; [rewrite items_nil in Hin; destruct Hin|].
  rewrite items_cons in Hin by discriminate.
  destruct (parse_record_BY (x :: xs) Hb) as [Hrest Hrec].
  destruct Hin as [Hin|Hin].
  - apply Hrec. exact Hin.
  - pose proof (parse_record_progress (x :: xs) ltac:(discriminate)) as Hp.
    eapply (IH (length (snd (parse_record (x :: xs))))); [subst n; exact Hp|reflexivity|exact Hrest|exact Hin].
Qed.

Lemma ok_records_In r its : In r (ok_records its) -> In (IOk r) its.
Proof.
  unfold ok_records. intros H. apply in_flat_map in H. destruct H as (i & Hi & Hr).
  destruct i as [r'|e]; [|destruct Hr]. destruct Hr as [<-|[]]. exact Hi.
Qed.

(* the statement requested: every component of every parsed record consists of bytes *)
Theorem recs_bytes : forall b, bytes_ok b = true -> forall r, In r (recs b) ->
  Forall (fun s => forallb (fun x => x <? 256) s = true) (record_strings r).
Proof.
  intros b Hb r Hr. apply BY_iff in Hb. unfold recs in Hr. apply ok_records_In in Hr.
  eapply Forall_impl; [|exact (items_bytes b Hb r Hr)]. intros s Hs. apply BY_iff in Hs. exact Hs.
Qed.
Print Assumptions recs_bytes.

(* ------------------------------------------------------------------ *)
(* 2. the string section consists of bytes                              *)
(* ------------------------------------------------------------------ *)
Lemma BY_app_intro a b : BY a -> BY b -> BY (a ++ b).
Proof. intros Ha Hb x Hx. apply in_app_or in Hx. destruct Hx as [Hx|Hx]; [apply Ha|apply Hb]; exact Hx. Qed.

(* the strings the writer inserts for a record are components of the record *)
Lemma rec_strings_incl r : incl (rec_strings r) (record_strings r).
Proof.
  destruct r as [k v|o ob|ty o ob|ty orig obf args ocls lm]; cbn [rec_strings record_strings]; intros s Hs.
  - destruct (str_eqb k source_file); [|destruct Hs]. destruct v as [f|]; [|destruct Hs].
    destruct Hs as [<-|[]]. right. left. reflexivity.
  - cbn [In] in *. tauto.
  - destruct Hs.
  - destruct ocls as [c|]; cbn [app In] in *; tauto.
Qed.

Lemma stab_insert_all_BY l : forall t,
  BY (stab_bytes t) -> Forall BY l -> BY (stab_bytes (stab_insert_all t l)).
Proof.
  induction l as [|s l IH]; intros t Ht Hl; unfold stab_insert_all; cbn [fold_left]; [exact Ht|].
  inversion Hl as [|s0 l0 Hs Hl']; subst.
  destruct (stab_insert t s) as [t1 off] eqn:E. cbn [fst]. fold (stab_insert_all t1 l).
  apply IH; [|exact Hl']. rewrite (stab_insert_bytes_exact _ _ _ _ E).
  apply BY_app_intro; [exact Ht|].
  destruct (is_empty s); [exact BY_nil|]. destruct (assoc_get s (st_index t)); [exact BY_nil|].
  apply BY_app_intro; [|exact Hs].
  intros x Hx. exact (proj1 (Forall_forall _ _) (leb128_bytes_lt_256 (lenN s)) x Hx).
Qed.

Lemma write_struct_strings rs : cs_strings (write_struct rs) = stab_bytes (w_tab (wrun wstate_init rs)).
Proof.
  unfold write_struct. cbv zeta. destruct (flatten (flush (wrun wstate_init rs)) 0 0) as [[crs ms] ps].
  reflexivity.
Qed.

(* record-list version: any record list whose inserted strings are bytes *)
Theorem strings_bytes_recs rs : (forall r, In r rs -> Forall BY (rec_strings r)) ->
  BY (cs_strings (write_struct rs)).
Proof.
  intros H. rewrite write_struct_strings, w_tab_wrun. apply stab_insert_all_BY.
  - cbn [wstate_init w_tab]. exact BY_nil.
  - apply Forall_forall. intros s Hs. apply in_flat_map in Hs. destruct Hs as (r & Hr & Hs).
    exact (proj1 (Forall_forall _ _) (H r Hr) s Hs).
Qed.

Theorem strings_bytes b : bytes_ok b = true ->
  forallb (fun x => x <? 256) (cs_strings (write_struct (recs b))) = true.
Proof.
  intros Hb. apply BY_iff. apply strings_bytes_recs. intros r Hr.
  apply Forall_forall. intros s Hs. apply rec_strings_incl in Hs.
  apply BY_iff. exact (proj1 (Forall_forall _ _) (recs_bytes b Hb r Hr) s Hs).
Qed.
Print Assumptions strings_bytes.

(* ------------------------------------------------------------------ *)
(* 3. every stored word fits 32 bits — for ANY record list              *)
(* ------------------------------------------------------------------ *)
Definition W (x : N) : Prop := x < U32.

Lemma W_u32 n : W (u32 n).
Proof. apply SafetyProofs.u32_lt. Qed.
Lemma W_max : W MAX32.
Proof. reflexivity. Qed.
Lemma W_0 : W 0.
Proof. reflexivity. Qed.

Definition mem_ok (m : member) : Prop :=
  W (m_obf m) /\ W (m_start m) /\ W (m_end m) /\ W (m_ocls m) /\ W (m_ofile m) /\ W (m_oname m) /\
  W (m_os m) /\ W (m_oe m) /\ W (m_params m).
Definition cls_ok (c : classrec) : Prop :=
  W (c_obf c) /\ W (c_orig c) /\ W (c_file c) /\ W (c_moff c) /\ W (c_mlen c) /\ W (c_poff c) /\ W (c_plen c).

Lemma word_ok_W x : W x -> word_ok x = true.
Proof. intros H. unfold word_ok. apply N.ltb_lt. exact H. Qed.

Lemma mem_ok_wf m : mem_ok m -> forallb word_ok (member_words m) = true.
Proof.
  intros (H1 & H2 & H3 & H4 & H5 & H6 & H7 & H8 & H9). unfold member_words. cbn [forallb].
  rewrite !word_ok_W by assumption. reflexivity.
Qed.
Lemma cls_ok_wf c : cls_ok c -> forallb word_ok (class_words c) = true.
Proof.
  intros (H1 & H2 & H3 & H4 & H5 & H6 & H7). unfold class_words. cbn [forallb].
  rewrite !word_ok_W by assumption. reflexivity.
Qed.

Definition groups_ok {K} (l : list (K * list member)) : Prop := Forall (fun kv => Forall mem_ok (snd kv)) l.
Definition cipW (c : cip) : Prop :=
  cls_ok (cip_class c) /\ groups_ok (cip_members c) /\ groups_ok (cip_byparams c).
Definition wW (st : wstate) : Prop :=
  Forall (fun kv => cipW (snd kv)) (w_classes st) /\ cipW (w_cur st).

Lemma bt_push_groups {K} (cmp : K -> K -> comparison) k m : forall l,
  groups_ok l -> mem_ok m -> groups_ok (bt_push cmp k m l).
Proof.
  unfold groups_ok.
  induction l as [|[k' vs] l IH]; intros Hl Hm; cbn [bt_push].
  - constructor; [|constructor]. cbn [snd]. constructor; [exact Hm|constructor].
  - inversion Hl as [|? ? Hx Hl']; subst. cbn [snd] in Hx. destruct (cmp k k').
    + constructor; [|exact Hl']. cbn [snd]. apply Forall_app. split; [exact Hx|]. constructor; [exact Hm|constructor].
    + constructor; [|exact Hl]. cbn [snd]. constructor; [exact Hm|constructor].
    + constructor; [exact Hx|]. apply IH; assumption.
Qed.

Lemma member_lines_W lm s e os oe : member_lines lm = (s, e, os, oe) -> W s /\ W e /\ W os /\ W oe.
Proof.
  unfold member_lines. destruct lm as [l|].
  - destruct (lm_os l) as [x|]; [destruct (lm_oe l) as [y|]|]; intros H; inversion H; subst;
      repeat split; try apply W_u32; exact W_max.
  - intros H. inversion H; subst. repeat split; try exact W_0; exact W_max.
Qed.

Lemma wstep_W st r next : wW st -> wW (wstep st r next).
Proof.
  intros (Hcs & Hc & Hm & Hp). pose proof Hc as (C1 & C2 & C3 & C4 & C5 & C6 & C7).
  destruct r as [k v|orig obf|ty orig obf|ty orig obf args ocls lm]; unfold wstep.
  - destruct (str_eqb k source_file); [|split; [exact Hcs|split; [exact Hc|split; assumption]]].
    destruct v as [f|]; [destruct (stab_insert (w_tab st) f) as [t off]|];
      (split; cbn [w_classes w_cur]; [exact Hcs|]);
      unfold cipW, with_class, set_file, cls_ok; cbn [cip_class cip_members cip_byparams c_obf c_orig c_file c_moff c_mlen c_poff c_plen];
      repeat split; first [assumption|apply W_u32|exact W_max].
  - destruct (stab_insert (w_tab st) obf) as [t1 o1]. destruct (stab_insert t1 orig) as [t2 o2].
    split; cbn [w_classes w_cur].
    + unfold flush. destruct (is_empty (cip_name (w_cur st))); [exact Hcs|].
      apply bt_insert_Forall; [exact Hcs|]. cbn [snd]. split; [exact Hc|split; assumption].
    + unfold cipW, cls_ok, groups_ok. cbn [cip_class cip_members cip_byparams c_obf c_orig c_file c_moff c_mlen c_poff c_plen].
      repeat split; try apply W_u32; try exact W_max; try exact W_0; constructor.
  - split; [exact Hcs|split; [exact Hc|split; assumption]].
  - destruct (member_lines lm) as [[[s e] os] oe] eqn:Eml.
    destruct (member_lines_W _ _ _ _ _ Eml) as (Ws & We & Wos & Woe).
    destruct (stab_insert (w_tab st) obf) as [t1 o1]. destruct (stab_insert t1 orig) as [t2 o2].
    assert (H3 : forall t3 o3, match ocls with
              | Some c => let '(t', o) := stab_insert t2 c in (t', u32 o)
              | None => (t2, MAX32) end = (t3, o3) -> W o3).
    { intros t3 o3. destruct ocls as [c|].
      - destruct (stab_insert t2 c) as [t' o]. intros H. inversion H; subst. apply W_u32.
      - intros H. inversion H; subst. exact W_max. }
    destruct (match ocls with
              | Some c => let '(t', o) := stab_insert t2 c in (t', u32 o)
              | None => (t2, MAX32) end) as [t3 o3].
    specialize (H3 t3 o3 eq_refl).
    destruct (stab_insert t3 args) as [t4 o4].
    set (m := {| m_obf := u32 o1; m_start := s; m_end := e; m_ocls := o3;
                 m_ofile := c_file (cip_class (w_cur st)); m_oname := u32 o2;
                 m_os := os; m_oe := oe; m_params := u32 o4 |}).
    assert (Hmo : mem_ok m).
    { unfold mem_ok, m. cbn [m_obf m_start m_end m_ocls m_ofile m_oname m_os m_oe m_params].
      repeat split; try apply W_u32; assumption. }
    match goal with |- wW (if ?b then _ else _) => destruct b end;
      (split; cbn [w_classes w_cur]; [exact Hcs|]);
      unfold cipW, cls_ok, bump_p, bump_m;
      cbn [cip_class cip_members cip_byparams c_obf c_orig c_file c_moff c_mlen c_poff c_plen];
      repeat split; try assumption; try apply W_u32; apply bt_push_groups; assumption.
Qed.

Lemma wrun_W : forall rs st, wW st -> wW (wrun st rs).
Proof.
  induction rs as [|r rs IH]; intros st H; cbn [wrun]; [exact H|]. apply IH. apply wstep_W. exact H.
Qed.

Lemma wW_init : wW wstate_init.
Proof.
  split; [constructor|]. unfold cipW, cls_ok, groups_ok. cbn.
  repeat split; try exact W_max; try exact W_0; constructor.
Qed.

Lemma flush_W st : wW st -> Forall (fun kv => cipW (snd kv)) (flush st).
Proof.
  intros (Hcs & Hc). unfold flush. destruct (is_empty (cip_name (w_cur st))); [exact Hcs|].
  apply bt_insert_Forall; [exact Hcs|exact Hc].
Qed.

Lemma groups_flat {K} (l : list (K * list member)) : groups_ok l -> Forall mem_ok (flat_map snd l).
Proof.
  unfold groups_ok. induction 1 as [|kv l Hx _ IH]; cbn [flat_map]; [constructor|].
  apply Forall_app. split; assumption.
Qed.

Lemma flatten_W : forall cs nm np crs ms ps,
  Forall (fun kv => cipW (snd kv)) cs -> flatten cs nm np = (crs, ms, ps) ->
  Forall cls_ok crs /\ Forall mem_ok ms /\ Forall mem_ok ps.
Proof.
  induction cs as [|[k c] cs IH]; intros nm np crs ms ps Hcs H; cbn [flatten] in H.
  - inversion H; subst. repeat split; constructor.
  - cbv zeta in H.
    destruct (flatten cs (nm + lenN (flat_map snd (cip_members c))) (np + lenN (flat_map snd (cip_byparams c))))
      as [[crs' mss] pss] eqn:E.
    inversion H; subst. inversion Hcs as [|? ? Hc Hcs']; subst. cbn [snd] in Hc.
    destruct Hc as ((C1 & C2 & C3 & C4 & C5 & C6 & C7) & Hm & Hp).
    destruct (IH _ _ _ _ _ Hcs' E) as (I1 & I2 & I3). split; [|split].
    + constructor; [|exact I1]. unfold cls_ok, set_offs. cbn [c_obf c_orig c_file c_moff c_mlen c_poff c_plen].
      repeat split; try assumption; apply W_u32.
    + apply Forall_app. split; [apply groups_flat; exact Hm|exact I2].
    + apply Forall_app. split; [apply groups_flat; exact Hp|exact I3].
Qed.

(* no hypothesis at all: whatever the records contain, the writer stores only 32-bit words *)
Theorem write_words : forall rs,
  Forall cls_ok (cs_classes (write_struct rs)) /\ Forall mem_ok (cs_members (write_struct rs)) /\
  Forall mem_ok (cs_byparams (write_struct rs)).
Proof.
  intros rs. unfold write_struct. cbv zeta.
  destruct (flatten (flush (wrun wstate_init rs)) 0 0) as [[crs ms] ps] eqn:E.
  cbn [cs_classes cs_members cs_byparams].
  apply (flatten_W _ _ _ _ _ _ (flush_W _ (wrun_W rs _ wW_init)) E).
Qed.
Print Assumptions write_words.

Lemma Forall_forallb {A} (P : A -> Prop) (f : A -> bool) l :
  (forall x, P x -> f x = true) -> Forall P l -> forallb f l = true.
Proof. intros Hf H. apply forallb_forall. intros x Hx. apply Hf. exact (proj1 (Forall_forall _ _) H x Hx). Qed.

(* ------------------------------------------------------------------ *)
(* 4. the main theorems                                                 *)
(* ------------------------------------------------------------------ *)
Theorem struct_wf_total : forall b : list N, bytes_ok b = true -> lenN b < 2147483648 ->
  struct_wf (write_struct (recs b)) = true.
Proof.
  intros b Hby Hb.
  assert (Hb32 : lenN b < U32) by (unfold U32; lia).
  destruct (write_counts_bounded b Hb32) as (L2 & L3 & L1). cbv zeta in L1, L2, L3.
  destruct (write_bytes_counts_exact b Hb32) as (E2 & E3). cbv zeta in E2, E3.
  pose proof (strings_bounded b Hb) as L4. pose proof (strings_bytes b Hby) as B4.
  destruct (write_words (recs b)) as (W1 & W2 & W3).
  unfold struct_wf.
  rewrite (Forall_forallb _ _ _ cls_ok_wf W1), (Forall_forallb _ _ _ mem_ok_wf W2), (Forall_forallb _ _ _ mem_ok_wf W3), B4.
  rewrite E2, E3, !N.eqb_refl.
  apply N.ltb_lt in L1, L2, L3, L4. rewrite L1, L2, L3, L4. reflexivity.
Qed.
Print Assumptions struct_wf_total.

Theorem write_parse_total : forall b : list N, bytes_ok b = true -> lenN b < 2147483648 (* 2^31 *) ->
  struct_wf (write_struct (recs b)) = true /\
  parse (write_bytes b) = POk (cache_of_struct (write_struct (recs b))).
Proof.
  intros b Hby Hb. pose proof (struct_wf_total b Hby Hb) as Hwf. split; [exact Hwf|].
  unfold write_bytes, write. apply parse_ser. exact Hwf.
Qed.
Print Assumptions write_parse_total.

(* C13 for the whole pipeline: the mapper query completes (no Panic), the cache is written and parsed back
   without error; the reader queries on the parsed cache are total functions without a Panic outcome *)
Theorem pipeline_total : forall b, bytes_ok b = true -> lenN b < 2147483648 -> forall ix cls m line file (p : list N),
  (exists fs, m_remap_frame_lines (build ix (recs b)) cls m line file = Ok fs) /\
  (exists c, parse (write_bytes b) = POk c).
Proof.
  intros b Hby Hb ix cls m line file p. split.
  - apply C13_mapper_total.
  - destruct (write_parse_total b Hby Hb) as [_ Hp]. eexists. exact Hp.
Qed.
Print Assumptions pipeline_total.

(* ------------------------------------------------------------------ *)
(* 5. bonus: [bytes_ok] is not even needed                              *)
(* ------------------------------------------------------------------ *)
(* Every component of a record went through [from_utf8] ([parse_until] checks [utf8_valid]) before being
   trimmed / split, and well-formed UTF-8 consists of bytes.  So even for lists of arbitrary naturals
   (which no Rust caller can build) the model writes a well-formed cache. *)
Lemma utf8_BY s : utf8_valid s = true -> BY s.
Proof. intros H x Hx. exact (proj1 (Forall_forall _ _) (CacheLayout.utf8_valid_bytes s H) x Hx). Qed.

Lemma parse_until_BY0 p l a b : parse_until p l = Some (a, b) -> BY a.
Proof.
  unfold parse_until. destruct (span p l) as [a' b']. destruct (utf8_valid a') eqn:E; [|discriminate].
  intros H. inversion H; subst. apply utf8_BY. exact E.
Qed.

Lemma punn_BY0 p l a b : parse_until_no_newline p l = Some (a, b) -> BY a.
Proof.
  unfold parse_until_no_newline. intros H. bind_some H as [a' b'] E.
  destruct (head_is_nl b'); [discriminate|]. inversion H; subst. eapply parse_until_BY0. exact E.
Qed.

Lemma parse_header_BY0 l r rest : parse_header l = Some (r, rest) -> Forall BY (record_strings r).
Proof.
  unfold parse_header. intros H. bind_some H as l0 E.
  destruct (strip_prefix source_file_prefix l0) as [l1|] eqn:E1.
  - bind_some H as [v l2] Ev. bind_some H as l3 Eq. inversion H; subst. cbn [record_strings].
    apply punn_BY0 in Ev. fb. exact source_file_BY.
  - bind_some H as [k l2] Ek. bind_some H as [v l3] Ev. inversion H; subst. cbn [record_strings].
    apply parse_until_BY0 in Ek. constructor; [apply trim_BY; exact Ek|].
    destruct (strip_prefix [58] l2) as [l'|] eqn:E3.
    + bind_some Ev as [v' l''] Ev'. inversion Ev; subst. cbn [option_map].
      apply parse_until_BY0 in Ev'. fb. apply trim_BY. exact Ev'.
    + inversion Ev; subst. cbn [option_map]. constructor.
Qed.

Lemma parse_class_BY0 l r rest : parse_class l = Some (r, rest) -> Forall BY (record_strings r).
Proof.
  unfold parse_class. intros H.
  bind_some H as [o l1] Eo. bind_some H as l2 Ea. bind_some H as [ob l3] Eb. bind_some H as l4 Ec.
  inversion H; subst. cbn [record_strings].
  apply punn_BY0 in Eo. apply punn_BY0 in Eb. fb.
Qed.

Lemma parse_member_BY0 l r rest : parse_member l = Some (r, rest) -> Forall BY (record_strings r).
Proof.
  unfold parse_member. intros H. bind_some H as l0 E.
  destruct (match parse_usize l0 with Some (v, l') => (Some v, l') | None => (None, l0) end)
    as [startline l1] eqn:E1.
  bind_some H as [endline l2] Eend.
  bind_some H as [ty l3] Ety. apply punn_BY0 in Ety.
  bind_some H as l4 Esp.
  bind_some H as [original l5] Eor. apply punn_BY0 in Eor.
  bind_some H as [arguments l6] Earg.
  bind_some H as [os l7] Eos.
  bind_some H as [oe l8] Eoe.
  bind_some H as l9 Earr.
  bind_some H as [obf l10] Eobf. apply parse_until_BY0 in Eobf.
  destruct arguments as [args|].
  - assert (Hargs : BY args).
    { destruct (strip_prefix [40] l5) as [l'|] eqn:E6.
      - bind_some Earg as [a l''] Ea. bind_some Earg as lb Eb. inversion Earg; subst.
        apply punn_BY0 in Ea. exact Ea.
      - inversion Earg. }
    destruct (split_last_dot [] original) as [[c o]|] eqn:Esd; inversion H; subst; cbn [record_strings app].
    + apply split_last_dot_incl in Esd. cbn [app] in Esd. destruct Esd as [Hc Ho].
      fb; eapply BY_incl; eassumption.
    + fb.
  - inversion H; subst. cbn [record_strings]. fb.
Qed.

Lemma dispatch_BY0 l r rest : dispatch l = Some (r, rest) -> Forall BY (record_strings r).
Proof.
  unfold dispatch. destruct (starts_with [35] l); [apply parse_header_BY0|].
  destruct (starts_with four_spaces l); [apply parse_member_BY0|apply parse_class_BY0].
Qed.

Lemma parse_record_BY0 b r : fst (parse_record b) = IOk r -> Forall BY (record_strings r).
Proof.
  unfold parse_record. destruct (dispatch (drop_nl b)) as [[r' rest]|] eqn:E.
  - cbn [fst]. intros H. inversion H; subst. eapply dispatch_BY0. exact E.
  - destruct (split_line (drop_nl b)). cbn [fst]. discriminate.
Qed.

Theorem items_bytes_any : forall (b : list N) r, In (IOk r) (items b) -> Forall BY (record_strings r).
Proof.
  intros b. remember (length b) as n eqn:En. revert b En.
  induction n as [n IH] using lt_wf_ind. intros b En r Hin.
  destruct b as [|x xs]; [rewrite items_nil in Hin; destruct Hin|].
  rewrite items_cons in Hin by discriminate.
  destruct Hin as [Hin|Hin].
  - eapply parse_record_BY0. exact Hin.
  - pose proof (parse_record_progress (x :: xs) ltac:(discriminate)) as Hp.
    eapply (IH (length (snd (parse_record (x :: xs))))); [subst n; exact Hp|reflexivity|exact Hin].
Qed.

Theorem recs_bytes_any : forall (b : list N) r, In r (recs b) ->
  Forall (fun s => forallb (fun x => x <? 256) s = true) (record_strings r).
Proof.
  intros b r Hr. unfold recs in Hr. apply ok_records_In in Hr.
  eapply Forall_impl; [|exact (items_bytes_any b r Hr)]. intros s Hs. apply BY_iff in Hs. exact Hs.
Qed.
Print Assumptions recs_bytes_any.

Theorem write_parse_total_any : forall b : list N, lenN b < 2147483648 ->
  struct_wf (write_struct (recs b)) = true /\
  parse (write_bytes b) = POk (cache_of_struct (write_struct (recs b))).
Proof.
  intros b Hb.
  assert (Hwf : struct_wf (write_struct (recs b)) = true).
  { assert (Hb32 : lenN b < U32) by (unfold U32; lia).
    destruct (write_counts_bounded b Hb32) as (L2 & L3 & L1). cbv zeta in L1, L2, L3.
    destruct (write_bytes_counts_exact b Hb32) as (E2 & E3). cbv zeta in E2, E3.
    pose proof (strings_bounded b Hb) as L4.
    assert (B4 : forallb (fun x => x <? 256) (cs_strings (write_struct (recs b))) = true).
    { apply BY_iff. apply strings_bytes_recs. intros r Hr.
      apply Forall_forall. intros s Hs. apply rec_strings_incl in Hs.
      apply BY_iff. exact (proj1 (Forall_forall _ _) (recs_bytes_any b r Hr) s Hs). }
    destruct (write_words (recs b)) as (W1 & W2 & W3).
    unfold struct_wf.
    rewrite (Forall_forallb _ _ _ cls_ok_wf W1), (Forall_forallb _ _ _ mem_ok_wf W2), (Forall_forallb _ _ _ mem_ok_wf W3), B4.
    rewrite E2, E3, !N.eqb_refl.
    apply N.ltb_lt in L1, L2, L3, L4. rewrite L1, L2, L3, L4. reflexivity. }
  split; [exact Hwf|]. unfold write_bytes, write. apply parse_ser. exact Hwf.
Qed.
Print Assumptions write_parse_total_any.

(* ------------------------------------------------------------------ *)
(* 6. examples                                                          *)
(* ------------------------------------------------------------------ *)
Module PipelineExamples.
  Import String.
  Definition B (s : string) : list N := List.map Ascii.N_of_ascii (list_ascii_of_string s).

  (* a hostile mapping: empty class / method / type names, numbers 2^64-1 and 2^32, "# sourceFile:" with
     an empty value (both spellings), a class with empty names (never flushed), a duplicated class name,
     duplicated member lines, an invalid UTF-8 line, CRLF, no final newline *)
  Definition wild : list N :=
    B "a.B -> x:" ++ [10] ++
    B "# sourceFile:" ++ [10] ++
    B "    18446744073709551615:18446744073709551615: ():18446744073709551615:18446744073709551615 -> " ++ [10] ++
    B "    18446744073709551615:18446744073709551615: ():18446744073709551615:18446744073709551615 -> " ++ [10] ++
    B "    1:1:V .() -> " ++ [13;10] ++
    B "    4294967296:4294967297:void q.r.m(int,long):4294967295:18446744073709551615 -> x" ++ [10] ++
    B "    4294967296:4294967297:void q.r.m(int,long):4294967295:18446744073709551615 -> x" ++ [10] ++
    B "# {""id"":""sourceFile"",""fileName"":""""}" ++ [10] ++
    B " -> :" ++ [10] ++
    B "    7:7:V lost():7:7 -> gone" ++ [10] ++
    B "c -> y:" ++ [10] ++
    B "# sourceFile: F.java " ++ [10] ++
    B "    int f -> x" ++ [10] ++
    [255; 254; 10] ++
    B "    0:0:V x() -> x" ++ [10] ++
    B "c -> y:" ++ [10] ++
    B "    1:2:V x() -> x".

  Example wild_hyps : bytes_ok wild = true /\ lenN wild = 567 /\ lenN wild < 2147483648.
  Proof. vm_compute. repeat split. Qed.

  (* the parser really yields empty names, an empty source file and 2^64-1 *)
  Example wild_recs_head :
    firstn 4 (recs wild) =
      [RClass [97;46;66] [120]; RHeader source_file (Some []);
       RMethod [] [] [] [] None
         (Some {| lm_start := 18446744073709551615; lm_end := 18446744073709551615;
                  lm_os := Some 18446744073709551615; lm_oe := Some 18446744073709551615 |});
       RMethod [] [] [] [] None
         (Some {| lm_start := 18446744073709551615; lm_end := 18446744073709551615;
                  lm_os := Some 18446744073709551615; lm_oe := Some 18446744073709551615 |})]
    /\ In (RClass [] []) (recs wild) /\ List.length (recs wild) = 16%nat.
  Proof. split; [vm_compute; reflexivity|split; [|vm_compute; reflexivity]]. vm_compute. do 8 right. left. reflexivity. Qed.

  Example wild_struct_wf : struct_wf (write_struct (recs wild)) = true.
  Proof. vm_compute. reflexivity. Qed.

  (* the numbers are truncated to 32 bits, the empty strings become the sentinel *)
  Example wild_first_member :
    hd [] (map member_words (cs_members (write_struct (recs wild)))) = repeat MAX32 9 /\
    map class_words (cs_classes (write_struct (recs wild))) =
      [[0; 2; MAX32; 0; 5; 0; 2]; [31; 33; MAX32; 5; 1; 2; 1]].
  Proof. vm_compute. split; reflexivity. Qed.

  Example wild_parse : parse (write_bytes wild) = POk (cache_of_struct (write_struct (recs wild))).
  Proof. vm_compute. reflexivity. Qed.

  (* the same facts from the theorems *)
  Example wild_by_theorem :
    struct_wf (write_struct (recs wild)) = true /\
    parse (write_bytes wild) = POk (cache_of_struct (write_struct (recs wild))).
  Proof. apply write_parse_total; [vm_compute; reflexivity|vm_compute; reflexivity]. Qed.

  Example wild_pipeline :
    (exists fs, m_remap_frame_lines (build true (recs wild)) [120] [] 18446744073709551615 None = Ok fs) /\
    (exists c, parse (write_bytes wild) = POk c).
  Proof. apply (pipeline_total wild); [vm_compute; reflexivity|vm_compute; reflexivity|exact []]. Qed.

  (* the queries on the parsed cache answer (total functions): class x, the method with the empty name *)
  Definition wildK := cache_of_struct (write_struct (recs wild)).
  Example wild_query_class : c_remap_class wildK [120] = Some [97;46;66].
  Proof. vm_compute. reflexivity. Qed.
  Example wild_query_lines :
    c_remap_frame_lines wildK [121] [120] 1 None = [([99], [120], None, 1)] /\
    c_remap_frame_lines wildK [120] [] 4294967295 None = [] /\
    c_remap_method wildK [120] [] = None /\ c_remap_frame_params wildK [120] [] [] = [].
  Proof. vm_compute. repeat split. Qed.
  Example wild_mapper_query :
    m_remap_frame_lines (build true (recs wild)) [120] [] 18446744073709551615 None =
      Ok [([97;46;66], [], Some [], 18446744073709551615); ([97;46;66], [], Some [], 18446744073709551615)].
  Proof. vm_compute. reflexivity. Qed.

  (* non-bytes never reach the cache: a "byte" 300 makes its line an error item *)
  Example not_bytes : bytes_ok (B "a -> " ++ [300] ++ B ":") = false /\
                      recs (B "a -> " ++ [300] ++ B ":") = [] /\
                      struct_wf (write_struct (recs (B "a -> " ++ [300] ++ B ":"))) = true.
  Proof. vm_compute. repeat split. Qed.
End PipelineExamples.
