(* PropC13.v — property C13: no mapping bytes and no query can make the library panic or
   overflow.  The mapper's only unchecked arithmetic (frame.line - member.startline) is modelled
   with a Panic outcome and shown unreachable for the records of EVERY byte string; the cache
   reader uses checked arithmetic (see C12); the writer's u32 counters cannot wrap for mappings
   below 2^32 bytes.  Runtime behaviour the model cannot exhibit: stack depth.  The typed API
   used to recurse on the cause chain (remap, Display, Drop) and exhausted the stack for chains of
   about 3*10^4 causes (finding F8, repaired by fix commit 5c75dfb); the check probes chains of
   1000 and 200000 causes in a subprocess with an 8 MiB stack. *)
From PG Require Import Base Mapping Spec Mapper CacheWriter CacheReader CacheStructDefs SafetyProofs PipelineTotal.

Theorem C13_mapper_never_panics : forall ix (b : list N) c m line file,
  exists fs, m_remap_frame_lines (build ix (recs b)) c m line file = Ok fs.
Proof. exact C13_mapper_total. Qed.

Theorem C13_writer_counts_do_not_wrap : forall b, lenN b < U32 ->
  let s := write_struct (recs b) in
  lenN (cs_members s) < U32 /\ lenN (cs_byparams s) < U32 /\ lenN (cs_classes s) < U32.
Proof. exact write_counts_bounded. Qed.

Theorem C13_writer_counts_exact : forall b, lenN b < U32 ->
  let s := write_struct (recs b) in
  cs_num_members s = lenN (cs_members s) /\ cs_num_byparams s = lenN (cs_byparams s).
Proof. exact write_bytes_counts_exact. Qed.

(* the whole pipeline, for EVERY byte string below 2 GiB (no domain restriction: empty names,
   numbers up to 2^64-1, invalid UTF-8 lines, duplicates): the mapper answers without panic, the
   written structure is well-formed and the written bytes parse back to exactly it *)
Theorem C13_pipeline_total : forall b : list N, lenN b < 2147483648 ->
  (forall ix cls m line file, exists fs, m_remap_frame_lines (build ix (recs b)) cls m line file = Ok fs) /\
  struct_wf (write_struct (recs b)) = true /\
  parse (write_bytes b) = POk (cache_of_struct (write_struct (recs b))).
Proof.
  intros b Hl. split; [|exact (write_parse_total_any b Hl)].
  intros ix cls m line file. apply C13_mapper_total.
Qed.
