(* PropC13.v — property C13: no mapping bytes and no query can make the library panic or
   overflow.  The mapper's only unchecked arithmetic (frame.line - member.startline) is modelled
   with a Panic outcome and shown unreachable for the records of EVERY byte string; the cache
   reader uses checked arithmetic (see C12); the writer's u32 counters cannot wrap for mappings
   below 2^32 bytes.  Runtime behaviour the model cannot exhibit: the typed API recurses on the
   cause chain (remap, Display, Drop) and exhausts the stack for chains of about 2*10^4 causes
   (known finding F8, probed by the check in a subprocess). *)
From PG Require Import Base Mapping Spec Mapper CacheWriter SafetyProofs.

Theorem C13_mapper_never_panics : forall ix (b : list N) c m line file,
  exists fs, m_remap_frame_lines (build ix (recs b)) c m line file = Ok fs.
Proof. exact C13_mapper_total. Qed.

Theorem C13_writer_counts_do_not_wrap : forall b, lenN b < U32 ->
  let s := write_struct (recs b) in
  lenN (cs_members s) < U32 /\ lenN (cs_byparams s) < U32 /\ lenN (cs_classes s) < U32.
Proof. exact write_counts_bounded. Qed.

Theorem C13_writer_counts_exact : forall b, lenN b < U32 ->
  let s := write_struct (recs b) in
  cs_num_members s = lenN (cs_members s) /\ cs_num_byparams s = lenN (cs_byparams s).
Proof. exact write_bytes_counts_exact. Qed.
