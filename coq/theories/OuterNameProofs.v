(* OuterNameProofs.v — the file name derived for a class whose source file is "R8$$SyntheticClass"
   (src/mapper.rs extract_class_name, src/cache/mod.rs extract_class_name; model: Spec.outer_simple_name,
   used by Spec, Mapper and CacheReader alike).

   Complete characterisation, for EVERY class name: the derived name is the piece of the class name after
   its last '.' (the whole name when it has none) and before the first '$' of that piece (the whole piece
   when it has none).  In particular it is EMPTY when that piece starts with '$' ("com.example.$Proxy0",
   "$Top") or is empty ("pkg.") — the corner a seeded change (C02_r5m1) moved in the cache reader only. *)
From Coq Require Import Lia Arith.
From PG Require Import Base Mapping Spec.

Lemma after_last_dot_nodot : forall t acc, ~ In 46 t -> after_last_dot acc t = acc.
Proof.
  induction t as [|c t IH]; intros acc H; cbn [after_last_dot]; [reflexivity|].
  destruct (N.eqb_spec c 46) as [E|E].
  - exfalso. apply H. left. exact E.
  - apply IH. intros Hin. apply H. right. exact Hin.
Qed.

Lemma after_last_dot_app : forall p t acc,
  ~ In 46 t -> after_last_dot acc (p ++ 46 :: t) = t.
Proof.
  induction p as [|c p IH]; intros t acc H; cbn [app after_last_dot].
  - rewrite N.eqb_refl. apply after_last_dot_nodot. exact H.
  - destruct (c =? 46); apply IH; exact H.
Qed.

Lemma before_dollar_nodollar : forall q, ~ In 36 q -> before_dollar q = q.
Proof.
  induction q as [|c q IH]; intros H; cbn [before_dollar]; [reflexivity|].
  destruct (N.eqb_spec c 36) as [E|E].
  - exfalso. apply H. left. exact E.
  - f_equal. apply IH. intros Hin. apply H. right. exact Hin.
Qed.

Lemma before_dollar_app : forall q r, ~ In 36 q -> before_dollar (q ++ 36 :: r) = q.
Proof.
  induction q as [|c q IH]; intros r H; cbn [app before_dollar].
  - rewrite N.eqb_refl. reflexivity.
  - destruct (N.eqb_spec c 36) as [E|E].
    + exfalso. apply H. left. exact E.
    + f_equal. apply IH. intros Hin. apply H. right. exact Hin.
Qed.

(* the four shapes a class name can have; together they cover every byte string *)
Theorem outer_simple_name_pkg_dollar : forall p q r,
  ~ In 46 q -> ~ In 36 q -> ~ In 46 r ->
  outer_simple_name (p ++ 46 :: q ++ 36 :: r) = q.
Proof.
  intros p q r Hq1 Hq2 Hr. unfold outer_simple_name.
  rewrite after_last_dot_app.
  - apply before_dollar_app. exact Hq2.
  - intros Hin. apply in_app_or in Hin. destruct Hin as [Hin|[Hin|Hin]]; [auto|discriminate Hin|auto].
Qed.

Theorem outer_simple_name_pkg_plain : forall p q,
  ~ In 46 q -> ~ In 36 q -> outer_simple_name (p ++ 46 :: q) = q.
Proof.
  intros p q Hq1 Hq2. unfold outer_simple_name.
  rewrite after_last_dot_app by exact Hq1. apply before_dollar_nodollar. exact Hq2.
Qed.

Theorem outer_simple_name_nopkg_dollar : forall q r,
  ~ In 46 q -> ~ In 36 q -> ~ In 46 r -> outer_simple_name (q ++ 36 :: r) = q.
Proof.
  intros q r Hq1 Hq2 Hr. unfold outer_simple_name.
  rewrite after_last_dot_nodot.
  - apply before_dollar_app. exact Hq2.
  - intros Hin. apply in_app_or in Hin. destruct Hin as [Hin|[Hin|Hin]]; [auto|discriminate Hin|auto].
Qed.

Theorem outer_simple_name_nopkg_plain : forall q,
  ~ In 46 q -> ~ In 36 q -> outer_simple_name q = q.
Proof.
  intros q Hq1 Hq2. unfold outer_simple_name.
  rewrite after_last_dot_nodot by exact Hq1. apply before_dollar_nodollar. exact Hq2.
Qed.

(* exhaustiveness: every string has one of the four shapes *)
Lemma split_first : forall (x : N) (s : str),
  ~ In x s \/ exists q r, s = q ++ x :: r /\ ~ In x q.
Proof.
  intros x. induction s as [|c s IH]; [left; intros []|].
  destruct (N.eq_dec c x) as [E|E].
  - right. exists [], s. subst c. split; [reflexivity|intros []].
  - destruct IH as [H|(q & r & Hs & Hq)].
    + left. intros [Hc|Hin]; [exact (E Hc)|exact (H Hin)].
    + right. exists (c :: q), r. subst s. split; [reflexivity|].
      intros [Hc|Hin]; [exact (E Hc)|exact (Hq Hin)].
Qed.

Lemma split_last : forall (x : N) (s : str),
  ~ In x s \/ exists p t, s = p ++ x :: t /\ ~ In x t.
Proof.
  intros x. induction s as [|c s IH]; [left; intros []|].
  destruct IH as [H|(p & t & Hs & Ht)].
  - destruct (N.eq_dec c x) as [E|E].
    + right. exists [], s. subst c. split; [reflexivity|exact H].
    + left. intros [Hc|Hin]; [exact (E Hc)|exact (H Hin)].
  - right. exists (c :: p), t. subst s. split; [reflexivity|exact Ht].
Qed.

Theorem outer_simple_name_shapes : forall s,
  (exists p q r, s = p ++ 46 :: q ++ 36 :: r /\ ~ In 46 q /\ ~ In 36 q /\ ~ In 46 r) \/
  (exists p q, s = p ++ 46 :: q /\ ~ In 46 q /\ ~ In 36 q) \/
  (exists q r, s = q ++ 36 :: r /\ ~ In 46 q /\ ~ In 36 q /\ ~ In 46 r) \/
  (~ In 46 s /\ ~ In 36 s).
Proof.
  intros s. destruct (split_last 46 s) as [Hnd|(p & t & Hs & Ht)].
  - destruct (split_first 36 s) as [Hn|(q & r & Hs & Hq)].
    + right; right; right. split; assumption.
    + right; right; left. exists q, r. subst s. repeat split; [|exact Hq|].
      * intros Hin. apply Hnd. apply in_or_app. left. exact Hin.
      * intros Hin. apply Hnd. apply in_or_app. right. right. exact Hin.
  - destruct (split_first 36 t) as [Hn|(q & r & Hq & Hq36)].
    + right; left. exists p, t. repeat split; assumption.
    + left. exists p, q, r. subst t. repeat split; [exact Hs| |exact Hq36|].
      * intros Hin. apply Ht. apply in_or_app. left. exact Hin.
      * intros Hin. apply Ht. apply in_or_app. right. right. exact Hin.
Qed.

(* the derived name never contains a separator, for every class name *)
Theorem outer_simple_name_no_separator : forall s,
  ~ In 46 (outer_simple_name s) /\ ~ In 36 (outer_simple_name s).
Proof.
  intros s.
  destruct (outer_simple_name_shapes s) as
    [(p & q & r & E & H1 & H2 & H3)|[(p & q & E & H1 & H2)|[(q & r & E & H1 & H2 & H3)|(H1 & H2)]]]; subst.
  - rewrite outer_simple_name_pkg_dollar by assumption. split; assumption.
  - rewrite outer_simple_name_pkg_plain by assumption. split; assumption.
  - rewrite outer_simple_name_nopkg_dollar by assumption. split; assumption.
  - rewrite outer_simple_name_nopkg_plain by assumption. split; assumption.
Qed.

(* the corner of seeded change C02_r5m1: a last segment that starts with '$' gives the EMPTY name *)
Corollary outer_simple_name_dollar_first : forall p r,
  ~ In 46 r -> outer_simple_name (p ++ 46 :: 36 :: r) = [].
Proof.
  intros p r Hr. apply (outer_simple_name_pkg_dollar p [] r); [intros []|intros []|exact Hr].
Qed.

(* non-vacuity: "com.example.$Proxy0" -> "", "p.O$I" -> "O", "$Top" -> "", "pkg." -> "" *)
Example outer_proxy :
  outer_simple_name [99;111;109;46;101;120;97;109;112;108;101;46;36;80;114;111;120;121;48] = [].
Proof. reflexivity. Qed.
Example outer_inner : outer_simple_name [112;46;79;36;73] = [79].
Proof. reflexivity. Qed.
Example outer_top : outer_simple_name [36;84;111;112] = [].
Proof. reflexivity. Qed.
Example outer_trailing_dot : outer_simple_name [112;107;103;46] = [].
Proof. reflexivity. Qed.

Print Assumptions outer_simple_name_pkg_dollar.
Print Assumptions outer_simple_name_shapes.
Print Assumptions outer_simple_name_no_separator.
Print Assumptions outer_simple_name_dollar_first.
