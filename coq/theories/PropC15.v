(* PropC15.v — property C15: cache writing is independent of sink chunking and propagates
   sink errors.  [chunks s] is the sequence of buffers handed to write_all by the writer;
   their concatenation is the canonical serialisation [ser s]. *)
From PG Require Import Base CacheWriter Sink SinkProofs.

Theorem C15_canonical : forall s, concat (chunks s) = ser s.
Proof. reflexivity. Qed.

(* success => the sink received exactly the canonical bytes, however few bytes it accepts per call *)
Theorem C15_success_means_canonical : forall sk cs st,
  run_sink sk cs = (WOk, st) -> ss_acc st = concat cs.
Proof. exact C15_success. Qed.

(* a consumed non-retryable failure => an error is reported, and only a prefix was delivered *)
Theorem C15_failure_reported : forall sk cs r st i,
  run_sink sk cs = (r, st) -> i < ss_calls st -> script_get i (sk_script sk) = Fail ->
  r = WErrFail /\ i = ss_calls st - 1 /\ exists rest, concat cs = ss_acc st ++ rest.
Proof. exact C15_failure. Qed.

(* whatever happens, the delivered bytes are a prefix of the canonical bytes *)
Theorem C15_only_a_prefix : forall sk cs r st,
  run_sink sk cs = (r, st) -> exists rest, concat cs = ss_acc st ++ rest.
Proof. exact C15_prefix. Qed.

(* interrupted calls are retried; short writes are completed *)
Theorem C15_retry_and_short_writes : forall sk cs, benign sk ->
  exists st, run_sink sk cs = (WOk, st) /\ ss_acc st = concat cs.
Proof. exact C15_benign_canonical. Qed.

(* the model's fuel is never exhausted *)
Theorem C15_model_total : forall sk cs, fst (run_sink sk cs) <> WOutOfFuel.
Proof. exact C15_no_out_of_fuel. Qed.
