(* Uuid.v — SHA-1 (FIPS 180-4) over N words mod 2^32 and version-5 UUIDs (RFC 4122),
   the "independent SHA-1 based computation" the mapping UUID is compared with
   (ProguardMapping::uuid, src/mapping.rs:222-232). *)
From PG Require Import Base.

Definition W32 : N := 4294967296.
Definition add32 (a b : N) : N := (a + b) mod W32.
Definition not32 (a : N) : N := 4294967295 - a.
Definition rotl (n : N) (x : N) : N := ((x * 2 ^ n) mod W32) + (x / 2 ^ (32 - n)).

(* big-endian word from four bytes *)
Definition be32 (a b c d : N) : N := a * 16777216 + b * 65536 + c * 256 + d.
Fixpoint words_of (l : list N) : list N :=
  match l with
  | a :: b :: c :: d :: r => be32 a b c d :: words_of r
  | _ => []
  end.
Definition bytes_of_word (w : N) : list N :=
  [w / 16777216; (w / 65536) mod 256; (w / 256) mod 256; w mod 256].

(* message padding: 0x80, zeros up to 56 mod 64, 64-bit big-endian bit length *)
Definition be64 (n : N) : list N :=
  [ (n / 72057594037927936) mod 256; (n / 281474976710656) mod 256; (n / 1099511627776) mod 256;
    (n / 4294967296) mod 256; (n / 16777216) mod 256; (n / 65536) mod 256; (n / 256) mod 256; n mod 256 ].
Definition pad (msg : list N) : list N :=
  let len := lenN msg in
  let zeros := (119 - len mod 64) mod 64 in     (* (55 - len) mod 64 *)
  msg ++ [128] ++ repeat 0 (N.to_nat zeros) ++ be64 (8 * len).

(* message schedule: ws is kept reversed (most recent word first) *)
Fixpoint schedule (k : nat) (ws : list N) : list N :=
  match k with
  | O => ws
  | S k' =>
    let w := rotl 1 (N.lxor (N.lxor (nth 2 ws 0) (nth 7 ws 0)) (N.lxor (nth 13 ws 0) (nth 15 ws 0))) in
    schedule k' (w :: ws)
  end.

Definition f_k (t : nat) (b c d : N) : N * N :=
  if Nat.ltb t 20 then (N.lor (N.land b c) (N.land (not32 b) d), 1518500249)
  else if Nat.ltb t 40 then (N.lxor (N.lxor b c) d, 1859775393)
  else if Nat.ltb t 60 then (N.lor (N.lor (N.land b c) (N.land b d)) (N.land c d), 2400959708)
  else (N.lxor (N.lxor b c) d, 3395469782).

Record st5 := { ha : N; hb : N; hc : N; hd : N; he : N }.

Fixpoint rounds (t : nat) (ws : list N) (s : st5) : st5 :=
  match ws with
  | [] => s
  | w :: rest =>
    let '(f, k) := f_k t (hb s) (hc s) (hd s) in
    let tmp := add32 (add32 (add32 (add32 (rotl 5 (ha s)) f) (he s)) k) w in
    rounds (S t) rest {| ha := tmp; hb := ha s; hc := rotl 30 (hb s); hd := hc s; he := hd s |}
  end.

Definition block (s : st5) (blk : list N) : st5 :=
  let ws := rev (schedule 64 (rev (words_of blk))) in
  let r := rounds 0 ws s in
  {| ha := add32 (ha s) (ha r); hb := add32 (hb s) (hb r); hc := add32 (hc s) (hc r);
     hd := add32 (hd s) (hd r); he := add32 (he s) (he r) |}.

Fixpoint blocks (fuel : nat) (s : st5) (l : list N) : st5 :=
  match fuel with
  | O => s
  | S f => match l with
           | [] => s
           | _ => blocks f (block s (firstn 64 l)) (skipn 64 l)
           end
  end.

Definition sha1_init := {| ha := 1732584193; hb := 4023233417; hc := 2562383102; hd := 271733878; he := 3285377520 |}.
Definition sha1 (msg : list N) : list N :=
  let p := pad msg in
  let s := blocks (S (Nat.div (length p) 64)) sha1_init p in
  bytes_of_word (ha s) ++ bytes_of_word (hb s) ++ bytes_of_word (hc s) ++ bytes_of_word (hd s) ++ bytes_of_word (he s).

(* version-5 UUID: SHA-1 of namespace ++ name, first 16 bytes, version and variant bits *)
Definition set_version_variant (b : list N) : list N :=
  match b with
  | b0 :: b1 :: b2 :: b3 :: b4 :: b5 :: b6 :: b7 :: b8 :: rest =>
      b0 :: b1 :: b2 :: b3 :: b4 :: b5 :: (b6 mod 16 + 80) :: b7 :: (b8 mod 64 + 128) :: rest
  | _ => b
  end.
Definition uuid_v5 (ns name : list N) : list N := set_version_variant (firstn 16 (sha1 (ns ++ name))).

(* 6ba7b810-9dad-11d1-80b4-00c04fd430c8 *)
Definition ns_dns : list N := [107;167;184;16;157;173;17;209;128;180;0;192;79;212;48;200].
Definition guardsquare : list N := [103;117;97;114;100;115;113;117;97;114;101;46;99;111;109].   (* "guardsquare.com" *)
Definition ns_proguard : list N := uuid_v5 ns_dns guardsquare.
Definition mapping_uuid (b : list N) : list N := uuid_v5 ns_proguard b.
