(* MapperProofs.v — the in-memory mapper model (Mapper.v, shaped like src/mapper.rs) computes
   exactly the declarative specification of Spec.v (properties C01-C04 for the mapper). *)
From Coq Require Import Lia.
From PG Require Import Base Mapping Spec Mapper.

(* ------------------------------------------------------------------ *)
(* well-formedness of the record stream                                 *)
(* ------------------------------------------------------------------ *)

(* every class record has a non-empty original name *)
Definition wf_class_names (rs : list record) : bool :=
  forallb (fun r => match r with RClass o _ => negb (is_empty o) | _ => true end) rs.
(* every line mapping has a positive end line: true for everything mk_line_mapping produces *)
Definition wf_line_mappings (rs : list record) : bool :=
  forallb (fun r => match r with RMethod _ _ _ _ _ (Some l) => (0 <? lm_end l) | _ => true end) rs.

Definition WfClassNames (rs : list record) : Prop := wf_class_names rs = true.
Definition WfLineMappings (rs : list record) : Prop := wf_line_mappings rs = true.

(* ------------------------------------------------------------------ *)
(* strings                                                              *)
(* ------------------------------------------------------------------ *)
Lemma str_eqb_refl a : str_eqb a a = true.
Proof. induction a as [|x a IH]; cbn [str_eqb]; [reflexivity|]. rewrite N.eqb_refl, IH. reflexivity. Qed.

Lemma str_eqb_eq a b : str_eqb a b = true <-> a = b.
Proof.
  split.
  - revert b. induction a as [|x a IH]; intros [|y b] H; cbn [str_eqb] in H; try discriminate; [reflexivity|].
    apply andb_true_iff in H. destruct H as [H1 H2]. apply N.eqb_eq in H1. apply IH in H2. subst. reflexivity.
  - intros ->. apply str_eqb_refl.
Qed.

Lemma str_eqb_sym a b : str_eqb a b = str_eqb b a.
Proof.
  revert b. induction a as [|x a IH]; intros [|y b]; cbn [str_eqb]; try reflexivity.
  rewrite N.eqb_sym, IH. reflexivity.
Qed.

Lemma str_eqb_neq a b : str_eqb a b = false <-> a <> b.
Proof.
  split.
  - intros H E. subst. rewrite str_eqb_refl in H. discriminate.
  - intros H. destruct (str_eqb a b) eqn:E; [|reflexivity]. apply str_eqb_eq in E. contradiction.
Qed.

(* ------------------------------------------------------------------ *)
(* the abstraction: entries <-> member mappings, lookups with default   *)
(* ------------------------------------------------------------------ *)
Definition mm_of_entry (e : entry) : member_mapping :=
  {| mm_start := e_start e; mm_end := e_end e; mm_ocls := e_ocls e; mm_ofile := e_file e;
     mm_orig := e_orig e; mm_os := e_os e; mm_oe := e_oe e |}.

Definition key_of (e : entry) : str * str * str := (e_obf e, e_args e, e_orig e).

Definition mk_entry (cf : option str) (orig obf args : str) (ocls : option str)
           (lm : option line_mapping) (inl : bool) : entry :=
  let '(s, e, os, oe) := entry_lines lm in
  {| e_obf := obf; e_start := s; e_end := e; e_os := os; e_oe := oe; e_ocls := ocls;
     e_file := cf; e_orig := orig; e_args := args; e_inlined := inl |}.

Lemma entries_method cf ty orig obf args ocls lm rest :
  entries cf (RMethod ty orig obf args ocls lm :: rest) =
  mk_entry cf orig obf args ocls lm (next_same_range lm rest) :: entries cf rest.
Proof. cbn [entries]. unfold mk_entry. destruct (entry_lines lm) as [[[s e] os] oe]. reflexivity. Qed.

Lemma mk_entry_obf cf orig obf args ocls lm inl : e_obf (mk_entry cf orig obf args ocls lm inl) = obf.
Proof. unfold mk_entry. destruct (entry_lines lm) as [[[s e] os] oe]. reflexivity. Qed.
Lemma mk_entry_args cf orig obf args ocls lm inl : e_args (mk_entry cf orig obf args ocls lm inl) = args.
Proof. unfold mk_entry. destruct (entry_lines lm) as [[[s e] os] oe]. reflexivity. Qed.
Lemma mk_entry_orig cf orig obf args ocls lm inl : e_orig (mk_entry cf orig obf args ocls lm inl) = orig.
Proof. unfold mk_entry. destruct (entry_lines lm) as [[[s e] os] oe]. reflexivity. Qed.
Lemma mk_entry_inlined cf orig obf args ocls lm inl : e_inlined (mk_entry cf orig obf args ocls lm inl) = inl.
Proof. unfold mk_entry. destruct (entry_lines lm) as [[[s e] os] oe]. reflexivity. Qed.

(* lookups with default: all queries of the mapper factor through these two *)
Definition all_of (M : list (str * class_members)) (m : str) : list member_mapping :=
  match assoc_get m M with Some x => cm_all x | None => [] end.
Definition byp_of (M : list (str * class_members)) (m p : str) : list member_mapping :=
  match assoc_get m M with
  | Some x => match assoc_get p (cm_byparams x) with Some l => l | None => [] end
  | None => []
  end.

Lemma key3_key_eqb e s : key3_eqb (key_of e) (key_of s) = key_eqb e s.
Proof. reflexivity. Qed.

Lemma existsb_key3 e seen :
  existsb (key3_eqb (key_of e)) (map key_of seen) = existsb (key_eqb e) seen.
Proof.
  induction seen as [|s seen IH]; cbn [map existsb]; [reflexivity|].
  rewrite key3_key_eqb, IH. reflexivity.
Qed.

Lemma key_eqb_spec a b : key_eqb a b = true <-> key_of a = key_of b.
Proof.
  unfold key_eqb, key_of. rewrite !andb_true_iff, !str_eqb_eq. split.
  - intros [[H1 H2] H3]. congruence.
  - intros H. inversion H. auto.
Qed.

(* ------------------------------------------------------------------ *)
(* one step of the builder on a method record                           *)
(* ------------------------------------------------------------------ *)
Definition la (next : option record) : list record := match next with Some n => [n] | None => [] end.

Lemma step_method ix st ty orig obf args ocls lm next :
  let e := mk_entry (cl_file (bs_class st)) orig obf args ocls lm (next_same_range lm (la next)) in
  let st' := build_step ix st (RMethod ty orig obf args ocls lm) next in
  let M := cl_members (bs_class st) in
  let M' := cl_members (bs_class st') in
  bs_classes st' = bs_classes st /\
  cl_orig (bs_class st') = cl_orig (bs_class st) /\
  cl_obf (bs_class st') = cl_obf (bs_class st) /\
  cl_file (bs_class st') = cl_file (bs_class st) /\
  (forall m, all_of M' m = all_of M m ++ (if str_eqb (e_obf e) m then [mm_of_entry e] else [])) /\
  (if negb ix || e_inlined e || existsb (key3_eqb (key_of e)) (bs_unique st)
   then bs_unique st' = bs_unique st /\ forall m p, byp_of M' m p = byp_of M m p
   else bs_unique st' = key_of e :: bs_unique st /\
        forall m p, byp_of M' m p =
                    byp_of M m p ++ (if str_eqb (e_obf e) m && str_eqb (e_args e) p then [mm_of_entry e] else [])).
Proof.
  cbv zeta. unfold mk_entry, build_step, la. destruct (entry_lines lm) as [[[s en] os] oe].
  unfold key_of, mm_of_entry. cbn [e_obf e_args e_inlined e_orig e_start e_end e_os e_oe e_ocls e_file].
  set (inl := next_same_range lm match next with Some n => [n] | None => [] end).
  set (cls := bs_class st).
  set (members := match assoc_get obf (cl_members cls) with Some m => m | None => cm_empty end).
  assert (Hall : cm_all members = all_of (cl_members cls) obf).
  { unfold members, all_of. destruct (assoc_get obf (cl_members cls)); reflexivity. }
  assert (Hbyp : forall p, match assoc_get p (cm_byparams members) with Some l => l | None => [] end
                           = byp_of (cl_members cls) obf p).
  { intros p. unfold members, byp_of. destruct (assoc_get obf (cl_members cls)); reflexivity. }
  destruct (negb ix || inl || existsb (key3_eqb (obf, args, orig)) (bs_unique st)) eqn:Eskip;
    cbn [bs_classes bs_class bs_unique set_members cl_orig cl_obf cl_file cl_members];
    (repeat split; try reflexivity).
  - intros m. unfold all_of at 1. cbn [assoc_get]. rewrite (str_eqb_sym m obf).
    destruct (str_eqb obf m) eqn:E.
    + apply str_eqb_eq in E. subst m. cbn [cm_all]. rewrite Hall. reflexivity.
    + rewrite app_nil_r. reflexivity.
  - intros m p. unfold byp_of at 1. cbn [assoc_get]. rewrite (str_eqb_sym m obf).
    destruct (str_eqb obf m) eqn:E.
    + apply str_eqb_eq in E. subst m. cbn [cm_byparams]. apply Hbyp.
    + reflexivity.
  - intros m. unfold all_of at 1. cbn [assoc_get]. rewrite (str_eqb_sym m obf).
    destruct (str_eqb obf m) eqn:E.
    + apply str_eqb_eq in E. subst m. cbn [cm_all]. rewrite Hall. reflexivity.
    + rewrite app_nil_r. reflexivity.
  - intros m p. unfold byp_of at 1. cbn [assoc_get]. rewrite (str_eqb_sym m obf).
    destruct (str_eqb obf m) eqn:E; cbn [andb].
    + apply str_eqb_eq in E. subst m. cbn [cm_byparams assoc_get]. rewrite (str_eqb_sym p args).
      destruct (str_eqb args p) eqn:E2.
      * apply str_eqb_eq in E2. subst p. rewrite Hbyp. reflexivity.
      * rewrite app_nil_r. apply Hbyp.
    + rewrite app_nil_r. reflexivity.
Qed.

(* ------------------------------------------------------------------ *)
(* running the builder over a class body                                *)
(* ------------------------------------------------------------------ *)
Definition no_class (rs : list record) : bool :=
  forallb (fun r => match r with RClass _ _ => false | _ => true end) rs.
(* what may follow a class body: the end of the stream or the next class line *)
Definition tail_ok (tail : list record) : bool :=
  match tail with [] => true | RClass _ _ :: _ => true | _ => false end.

(* build_run over [rs] when [tail] follows: the lookahead of the last record is the head of [tail] *)
Fixpoint build_run_la (ix : bool) (st : bstate) (rs tail : list record) : bstate :=
  match rs with
  | [] => st
  | r :: rest => build_run_la ix (build_step ix st r (hd_error (rest ++ tail))) rest tail
  end.

Lemma build_run_app ix a b : forall st,
  build_run ix st (a ++ b) = build_run ix (build_run_la ix st a b) b.
Proof.
  induction a as [|r a IH]; intros st; cbn [app build_run build_run_la]; [reflexivity|]. apply IH.
Qed.

(* the one-record lookahead of the code sees the same thing as the spec's look at the rest of the body *)
Lemma nsr_la lm rest tail : tail_ok tail = true ->
  next_same_range lm (la (hd_error (rest ++ tail))) = next_same_range lm rest.
Proof.
  intros Ht. destruct lm as [l|]; [|reflexivity].
  destruct rest as [|r rest]; cbn [app hd_error la].
  - destruct tail as [|t tail]; cbn [hd_error la next_same_range]; [reflexivity|].
    destruct t; try discriminate Ht. reflexivity.
  - destruct r; reflexivity.
Qed.

Definition by_obf (m : str) (e : entry) : bool := str_eqb (e_obf e) m.
Definition by_obf_args (m p : str) (e : entry) : bool := str_eqb (e_obf e) m && str_eqb (e_args e) p.
Definition not_inlined (e : entry) : bool := negb (e_inlined e).

Lemma body_run ix tail : tail_ok tail = true -> forall body st seen,
  no_class body = true ->
  bs_unique st = map key_of seen ->
  let st' := build_run_la ix st body tail in
  let es := entries (cl_file (bs_class st)) body in
  bs_classes st' = bs_classes st /\
  cl_orig (bs_class st') = cl_orig (bs_class st) /\
  cl_obf (bs_class st') = cl_obf (bs_class st) /\
  (forall m, all_of (cl_members (bs_class st')) m =
             all_of (cl_members (bs_class st)) m ++ map mm_of_entry (filter (by_obf m) es)) /\
  (ix = true -> forall m p,
     byp_of (cl_members (bs_class st')) m p =
     byp_of (cl_members (bs_class st)) m p ++
     map mm_of_entry (filter (by_obf_args m p) (dedup seen (filter not_inlined es)))).
Proof.
  intros Ht. induction body as [|r body IH]; intros st seen Hnc Hu; cbv zeta.
  - cbn [build_run_la entries filter dedup map]. repeat split; try reflexivity.
    + intros m. rewrite app_nil_r. reflexivity.
    + intros _ m p. rewrite app_nil_r. reflexivity.
  - cbn [no_class forallb] in Hnc. apply andb_true_iff in Hnc. destruct Hnc as [Hr Hnc].
    fold (no_class body) in Hnc. cbn [build_run_la].
    destruct r as [k v|o ob|ty o ob|ty orig obf args ocls lm]; [| discriminate Hr | |].
    + (* header *)
      cbn [build_step entries]. destruct (str_eqb k source_file).
      * specialize (IH {| bs_classes := bs_classes st; bs_class := set_file (bs_class st) v;
                          bs_unique := bs_unique st |} seen Hnc Hu).
        cbv zeta in IH. cbn [bs_classes bs_class set_file cl_orig cl_obf cl_file cl_members] in IH.
        exact IH.
      * apply (IH st seen Hnc Hu).
    + (* field *)
      cbn [build_step entries]. apply (IH st seen Hnc Hu).
    + (* method *)
      rewrite entries_method.
      pose proof (step_method ix st ty orig obf args ocls lm (hd_error (body ++ tail))) as Hs.
      cbv zeta in Hs. rewrite (nsr_la lm body tail Ht) in Hs.
      set (e := mk_entry (cl_file (bs_class st)) orig obf args ocls lm (next_same_range lm body)) in *.
      set (st1 := build_step ix st (RMethod ty orig obf args ocls lm) (hd_error (body ++ tail))) in *.
      destruct Hs as (Hc & Ho & Hb & Hf & Hall & Hbyp).
      rewrite Hu, existsb_key3 in Hbyp.
      destruct (negb ix || e_inlined e || existsb (key_eqb e) seen) eqn:Eskip.
      * destruct Hbyp as [Hu1 Hbyp].
        specialize (IH st1 seen Hnc Hu1). cbv zeta in IH. rewrite Hf in IH.
        destruct IH as (Hc' & Ho' & Hb' & Hall' & Hbyp').
        repeat split; try congruence.
        -- intros m. rewrite Hall', Hall. cbn [filter]. change (by_obf m e) with (str_eqb (e_obf e) m).
           destruct (str_eqb (e_obf e) m); cbn [map]; rewrite <- app_assoc; reflexivity.
        -- intros Hix m p. rewrite (Hbyp' Hix), Hbyp. f_equal. f_equal. f_equal.
           subst ix. cbn [negb orb] in Eskip. cbn [filter]. change (not_inlined e) with (negb (e_inlined e)).
           destruct (e_inlined e); cbn [negb orb] in *; [reflexivity|].
           cbn [dedup]. rewrite Eskip. reflexivity.
      * destruct Hbyp as [Hu1 Hbyp]. change (key_of e :: map key_of seen) with (map key_of (e :: seen)) in Hu1.
        specialize (IH st1 (e :: seen) Hnc Hu1). cbv zeta in IH. rewrite Hf in IH.
        destruct IH as (Hc' & Ho' & Hb' & Hall' & Hbyp').
        repeat split; try congruence.
        -- intros m. rewrite Hall', Hall. cbn [filter]. change (by_obf m e) with (str_eqb (e_obf e) m).
           destruct (str_eqb (e_obf e) m); cbn [map]; rewrite <- app_assoc; reflexivity.
        -- intros Hix m p. rewrite (Hbyp' Hix), Hbyp. rewrite <- app_assoc. f_equal.
           apply orb_false_iff in Eskip. destruct Eskip as [Eskip Eseen].
           apply orb_false_iff in Eskip. destruct Eskip as [_ Einl].
           cbn [filter]. change (not_inlined e) with (negb (e_inlined e)). rewrite Einl. cbn [negb dedup]. rewrite Eseen.
           cbn [filter]. change (by_obf_args m p e) with (str_eqb (e_obf e) m && str_eqb (e_args e) p).
           destruct (str_eqb (e_obf e) m && str_eqb (e_args e) p); reflexivity.
Qed.

(* ------------------------------------------------------------------ *)
(* the record stream as a preamble followed by class blocks             *)
(* ------------------------------------------------------------------ *)
Definition unblock (b : block) : list record := RClass (b_orig b) (b_obf b) :: b_body b.
Definition unblocks (bs : list block) : list record := flat_map unblock bs.

Lemma tail_ok_unblocks bs : tail_ok (unblocks bs) = true.
Proof. destruct bs; reflexivity. Qed.

Lemma split_blocks_inv rs : forall pre bs, split_blocks rs = (pre, bs) ->
  rs = pre ++ unblocks bs /\ no_class pre = true /\ Forall (fun b => no_class (b_body b) = true) bs.
Proof.
  induction rs as [|r rs IH]; intros pre bs H.
  - cbn [split_blocks] in H. inversion H. repeat split; constructor.
  - destruct (split_blocks rs) as [pre0 bs0] eqn:E.
    destruct (IH pre0 bs0 eq_refl) as (Hrs & Hpre & Hbs).
    destruct r as [k v|o ob|ty o ob|ty orig obf args ocls lm]; cbn [split_blocks] in H; rewrite E in H;
      inversion H; subst pre bs; clear H.
    2:{ cbn [app unblocks flat_map unblock b_orig b_obf b_body].
        fold (unblocks bs0). rewrite <- Hrs. split; [reflexivity|split; [reflexivity|constructor; assumption]]. }
    all: cbn [app no_class forallb andb]; fold (no_class pre0); rewrite <- Hrs; repeat split; assumption.
Qed.

(* a per-record boolean property holds in every block body *)
Lemma split_blocks_forallb (P : record -> bool) rs : forall pre bs, split_blocks rs = (pre, bs) ->
  forallb P rs = true -> forallb P pre = true /\ Forall (fun b => forallb P (b_body b) = true) bs.
Proof.
  induction rs as [|r rs IH]; intros pre bs H HP.
  - cbn [split_blocks] in H. inversion H. split; constructor.
  - cbn [forallb] in HP. apply andb_true_iff in HP. destruct HP as [Hr HP].
    destruct (split_blocks rs) as [pre0 bs0] eqn:E.
    destruct (IH pre0 bs0 eq_refl HP) as (Hpre & Hbs).
    destruct r as [k v|o ob|ty o ob|ty orig obf args ocls lm]; cbn [split_blocks] in H; rewrite E in H;
      inversion H; subst pre bs; clear H.
    2:{ split; [reflexivity|]. constructor; assumption. }
    all: cbn [forallb]; rewrite Hr, Hpre; split; [reflexivity|assumption].
Qed.

Lemma split_blocks_names rs : forall pre bs, split_blocks rs = (pre, bs) ->
  wf_class_names rs = true -> Forall (fun b => is_empty (b_orig b) = false) bs.
Proof.
  induction rs as [|r rs IH]; intros pre bs H HP.
  - cbn [split_blocks] in H. inversion H. constructor.
  - cbn [wf_class_names forallb] in HP. apply andb_true_iff in HP. destruct HP as [Hr HP].
    destruct (split_blocks rs) as [pre0 bs0] eqn:E.
    pose proof (IH pre0 bs0 eq_refl HP) as Hbs.
    destruct r as [k v|o ob|ty o ob|ty orig obf args ocls lm]; cbn [split_blocks] in H; rewrite E in H;
      inversion H; subst pre bs; clear H; try assumption.
    constructor; [|assumption]. cbn [b_orig]. apply negb_true_iff in Hr. exact Hr.
Qed.

(* ------------------------------------------------------------------ *)
(* the representation invariant                                         *)
(* ------------------------------------------------------------------ *)
Definition block_entries (b : block) : list entry := entries None (b_body b).
Definition block_param_entries (b : block) : list entry := dedup [] (filter not_inlined (block_entries b)).

Definition class_rep (ix : bool) (cls : class_mapping) (b : block) : Prop :=
  cl_orig cls = b_orig b /\ cl_obf cls = b_obf b /\
  (forall m, all_of (cl_members cls) m = map mm_of_entry (filter (by_obf m) (block_entries b))) /\
  (ix = true -> forall m p,
     byp_of (cl_members cls) m p = map mm_of_entry (filter (by_obf_args m p) (block_param_entries b))).

Definition kv_rep (ix : bool) (kv : str * class_mapping) (b : block) : Prop :=
  fst kv = b_obf b /\ class_rep ix (snd kv) b.

Lemma run_blocks ix bs :
  Forall (fun b => no_class (b_body b) = true) bs ->
  Forall (fun b => is_empty (b_orig b) = false) bs ->
  forall st, exists L,
    flush_class (build_run ix st (unblocks bs)) = L ++ flush_class st /\
    Forall2 (kv_rep ix) L (rev bs).
Proof.
  induction bs as [|b bs IH]; intros Hnc Hne st.
  - exists []. split; [reflexivity|constructor].
  - inversion Hnc as [|b0 bs0 Hnb Hnc']; subst. inversion Hne as [|b0 bs0 Heb Hne']; subst.
    cbn [unblocks flat_map]. fold (unblocks bs). unfold unblock at 1. cbn [app build_run].
    rewrite build_run_app.
    set (st1 := build_step ix st (RClass (b_orig b) (b_obf b)) (hd_error (b_body b ++ unblocks bs))).
    assert (Hu1 : bs_unique st1 = map key_of []) by reflexivity.
    pose proof (body_run ix (unblocks bs) (tail_ok_unblocks bs) (b_body b) st1 [] Hnb Hu1) as Hb.
    cbv zeta in Hb. set (st2 := build_run_la ix st1 (b_body b) (unblocks bs)) in *.
    destruct Hb as (Hc & Ho & Hob & Hall & Hbyp).
    destruct (IH Hnc' Hne' st2) as (L & HL & HF).
    exists (L ++ [(b_obf b, bs_class st2)]). split.
    + rewrite HL. rewrite <- app_assoc. f_equal. unfold flush_class at 1.
      rewrite Ho. change (cl_orig (bs_class st1)) with (b_orig b). rewrite Heb.
      rewrite Hob, Hc. reflexivity.
    + cbn [rev]. apply Forall2_app; [exact HF|]. constructor; [|constructor].
      split; [reflexivity|]. cbn [snd]. repeat split.
      * rewrite Ho. reflexivity.
      * rewrite Hob. reflexivity.
      * intros m. rewrite Hall. reflexivity.
      * intros Hix m p. rewrite (Hbyp Hix). reflexivity.
Qed.

(* the built map, read as a list, is the list of class blocks in reverse file order *)
Theorem build_rep ix rs : wf_class_names rs = true ->
  Forall2 (kv_rep ix) (build ix rs) (rev (blocks rs)).
Proof.
  intros Hwf. unfold blocks, build. destruct (split_blocks rs) as [pre bs] eqn:E. cbn [snd].
  destruct (split_blocks_inv rs pre bs E) as (Hrs & Hpre & Hbs).
  pose proof (split_blocks_names rs pre bs E Hwf) as Hne.
  rewrite Hrs, build_run_app.
  assert (Hu : bs_unique bstate_init = map key_of []) by reflexivity.
  pose proof (body_run ix (unblocks bs) (tail_ok_unblocks bs) pre bstate_init [] Hpre Hu) as Hb.
  cbv zeta in Hb. set (st0 := build_run_la ix bstate_init pre (unblocks bs)) in *.
  destruct Hb as (Hc & Ho & _).
  destruct (run_blocks ix bs Hbs Hne st0) as (L & HL & HF).
  rewrite HL. unfold flush_class. rewrite Ho, Hc. cbn [bstate_init bs_class bs_classes class_empty cl_orig is_empty].
  rewrite app_nil_r. exact HF.
Qed.
Print Assumptions build_rep.

Lemma lookup_rep ix c : forall L B, Forall2 (kv_rep ix) L B ->
  match assoc_get c L with
  | Some cls => exists b, find (fun b => str_eqb (b_obf b) c) B = Some b /\ class_rep ix cls b
  | None => find (fun b => str_eqb (b_obf b) c) B = None
  end.
Proof.
  induction 1 as [|[k cls] b L B [Hk Hr] HF IH]; [reflexivity|].
  cbn [assoc_get find]. cbn [fst snd] in Hk, Hr. subst k. rewrite (str_eqb_sym c (b_obf b)).
  destruct (str_eqb (b_obf b) c); [|exact IH]. exists b. split; [reflexivity|exact Hr].
Qed.

Lemma build_lookup ix rs c : wf_class_names rs = true ->
  match assoc_get c (build ix rs) with
  | Some cls => exists b, block_of rs c = Some b /\ class_rep ix cls b
  | None => block_of rs c = None
  end.
Proof. intros Hwf. apply (lookup_rep ix c _ _ (build_rep ix rs Hwf)). Qed.

(* ------------------------------------------------------------------ *)
(* test data                                                            *)
(* ------------------------------------------------------------------ *)
Module Tests.
  Definition lm1 := {| lm_start := 3; lm_end := 7; lm_os := Some 10; lm_oe := Some 14 |}.
  Definition lm2 := {| lm_start := 3; lm_end := 7; lm_os := Some 20; lm_oe := None |}.
  Definition lm3 := {| lm_start := 8; lm_end := 9; lm_os := None; lm_oe := None |}.
  Definition A : str := [65]. Definition B : str := [66]. Definition X : str := [120]. Definition Y : str := [121].
  Definition f : str := [102]. Definition g : str := [103]. Definition h : str := [104].
  Definition I : str := [73]. Definition V : str := [86].
  (* records before the first class, two blocks with the same obfuscated name, a sourceFile header
     between methods, an inline group of two methods with equal ranges, duplicate entries *)
  Definition rs1 : list record :=
    [ RHeader source_file (Some [48]);
      RMethod V h X [] None None;
      RClass A X;
      RMethod V f X I None (Some lm1);
      RClass B Y;
      RField V f X;
      RClass [67] X;
      RMethod V f X I None (Some lm1);
      RMethod V g X I (Some [68]) (Some lm2);
      RHeader source_file (Some [70]);
      RMethod V h X [] None (Some lm3);
      RMethod V h X [] None None;
      RMethod V g X I None None;
      RMethod V g X I None None;
      RHeader [99] None;
      RMethod V f Y [] None (Some lm3) ].
  (* a class line with an empty original name hides the earlier class in the spec, not in the code *)
  Definition rs_empty_orig : list record := [ RClass A X; RMethod V f X I None None; RClass [] X ].
  (* a line mapping with end line 0 (never produced by the parser): usize underflow *)
  Definition lm_bad := {| lm_start := 5; lm_end := 0; lm_os := None; lm_oe := None |}.
  Definition rs_bad_lm : list record := [ RClass A X; RMethod V f X I None (Some lm_bad) ].
End Tests.

(* ------------------------------------------------------------------ *)
(* C01: classes                                                         *)
(* ------------------------------------------------------------------ *)
Theorem mapper_class : forall ix rs c, wf_class_names rs = true ->
  m_remap_class (build ix rs) c = Sclass rs c.
Proof.
  intros ix rs c Hwf. pose proof (build_lookup ix rs c Hwf) as H.
  unfold m_remap_class, Sclass. destruct (assoc_get c (build ix rs)) as [cls|].
  - destruct H as (b & Hb & Ho & _). rewrite Hb. cbn [option_map]. rewrite Ho. reflexivity.
  - rewrite H. reflexivity.
Qed.
Print Assumptions mapper_class.

Example mapper_class_hyp : wf_class_names Tests.rs1 = true /\ Sclass Tests.rs1 Tests.X = Some [67].
Proof. split; vm_compute; reflexivity. Qed.

(* wf_class_names is necessary: the code drops a class whose original name is empty *)
Example mapper_class_needs_wf :
  wf_class_names Tests.rs_empty_orig = false /\
  m_remap_class (build true Tests.rs_empty_orig) Tests.X = Some Tests.A /\
  Sclass Tests.rs_empty_orig Tests.X = Some [].
Proof. repeat split; vm_compute; reflexivity. Qed.

(* ------------------------------------------------------------------ *)
(* C02: methods without line information                                *)
(* ------------------------------------------------------------------ *)
Lemma m_remap_method_alt L c m :
  m_remap_method L c m =
  match assoc_get c L with
  | None => None
  | Some cls =>
      match all_of (cl_members cls) m with
      | [] => None
      | first :: rest =>
          if forallb (fun mm => str_eqb (mm_orig mm) (mm_orig first)) rest
          then Some (cl_orig cls, mm_orig first) else None
      end
  end.
Proof.
  unfold m_remap_method, all_of. destruct (assoc_get c L) as [cls|]; [|reflexivity].
  destruct (assoc_get m (cl_members cls)); reflexivity.
Qed.

Lemma forallb_map {A B} (f : B -> bool) (g : A -> B) l :
  forallb f (map g l) = forallb (fun x => f (g x)) l.
Proof. induction l as [|x l IH]; cbn [map forallb]; [reflexivity|]. rewrite IH. reflexivity. Qed.

Theorem mapper_method : forall ix rs c m, wf_class_names rs = true ->
  m_remap_method (build ix rs) c m = Smethod rs c m.
Proof.
  intros ix rs c m Hwf. pose proof (build_lookup ix rs c Hwf) as H.
  rewrite m_remap_method_alt. unfold Smethod. destruct (assoc_get c (build ix rs)) as [cls|].
  - destruct H as (b & Hb & Ho & _ & Hall & _). rewrite Hb, Hall, Ho.
    unfold block_entries, by_obf.
    destruct (filter (fun e => str_eqb (e_obf e) m) (entries None (b_body b))) as [|e es]; cbn [map]; [reflexivity|].
    rewrite forallb_map. reflexivity.
  - rewrite H. reflexivity.
Qed.
Print Assumptions mapper_method.

Example mapper_method_hyp :
  wf_class_names Tests.rs1 = true /\ Smethod Tests.rs1 Tests.X Tests.X = None /\
  Smethod Tests.rs1 Tests.Y Tests.X = None /\ Smethod Tests.rs1 Tests.X Tests.Y = Some ([67], Tests.f).
Proof. repeat split; vm_compute; reflexivity. Qed.

(* ------------------------------------------------------------------ *)
(* C04: frames with line information                                    *)
(* ------------------------------------------------------------------ *)
(* an entry whose original end line is present has a positive end line *)
Definition wf_entry (e : entry) : bool :=
  (0 <? e_end e) || match e_oe e with None => true | Some _ => false end.

Lemma entries_wf : forall body cf, wf_line_mappings body = true ->
  Forall (fun e => wf_entry e = true) (entries cf body).
Proof.
  induction body as [|r body IH]; intros cf H; [constructor|].
  cbn [wf_line_mappings forallb] in H. apply andb_true_iff in H. destruct H as [Hr H].
  fold (wf_line_mappings body) in H.
  destruct r as [k v|o ob|ty o ob|ty orig obf args ocls lm]; cbn [entries]; try (apply IH; exact H).
  destruct lm as [l|].
  - unfold entry_lines. destruct (lm_os l); (constructor; [|apply IH; exact H]);
      unfold wf_entry; cbn [e_end]; rewrite Hr; reflexivity.
  - cbn [entry_lines]. constructor; [reflexivity|apply IH; exact H].
Qed.

Definition sline_frames (b : block) (m : str) (line : N) (file : option str) (e : entry)
  : list (str * str * option str * N) :=
  if str_eqb (e_obf e) m && entry_applies e line
  then [(entry_class b e, e_orig e, entry_file b e file, entry_line e line)]
  else [].

Lemma with_lines_spec b file line m : forall es,
  Forall (fun e => wf_entry e = true) es ->
  m_with_lines (b_orig b) file line (map mm_of_entry (filter (by_obf m) es)) =
  Ok (flat_map (sline_frames b m line file) es).
Proof.
  induction es as [|e es IH]; intros Hwf; [reflexivity|].
  inversion Hwf as [|e0 es0 He Hwf']; subst. specialize (IH Hwf').
  cbn [filter flat_map]. unfold sline_frames at 1. change (by_obf m e) with (str_eqb (e_obf e) m).
  destruct (str_eqb (e_obf e) m); cbn [andb app]; [|exact IH].
  cbn [map m_with_lines]. unfold entry_applies. rewrite IH.
  unfold mm_of_entry. cbn [mm_start mm_end mm_ocls mm_ofile mm_orig mm_os mm_oe].
  destruct ((0 <? e_end e) && ((line <? e_start e) || (e_end e <? line))) eqn:Eskip; cbn [negb app]; [reflexivity|].
  assert (Hline : forall oe, e_oe e = Some oe -> (line <? e_start e) = false).
  { intros oe Hoe. unfold wf_entry in He. rewrite Hoe, orb_false_r in He. rewrite He in Eskip.
    cbn [andb] in Eskip. apply orb_false_iff in Eskip. apply Eskip. }
  unfold entry_line, entry_file, entry_class.
  destruct (e_oe e) as [oe|]; [|reflexivity].
  destruct (oe =? e_os e); [reflexivity|]. rewrite (Hline oe eq_refl). reflexivity.
Qed.

Lemma block_of_In rs c b : block_of rs c = Some b -> In b (blocks rs) /\ b_obf b = c.
Proof.
  unfold block_of. intros H. apply find_some in H. destruct H as [Hin Heq].
  split; [apply in_rev; exact Hin|apply str_eqb_eq; exact Heq].
Qed.

Lemma block_wf_lines rs c b : wf_line_mappings rs = true -> block_of rs c = Some b ->
  wf_line_mappings (b_body b) = true.
Proof.
  intros Hwf Hb. apply block_of_In in Hb. destruct Hb as [Hin _]. unfold blocks in Hin.
  destruct (split_blocks rs) as [pre bs] eqn:E. cbn [snd] in Hin.
  destruct (split_blocks_forallb _ rs pre bs E Hwf) as [_ HF].
  rewrite Forall_forall in HF. apply (HF b Hin).
Qed.

Lemma Sline_alt rs c m line file :
  Sline rs c m line file =
  match block_of rs c with
  | None => []
  | Some b => flat_map (sline_frames b m line file) (block_entries b)
  end.
Proof. reflexivity. Qed.

Theorem mapper_lines : forall ix rs c m line file,
  wf_class_names rs = true -> wf_line_mappings rs = true ->
  m_remap_frame_lines (build ix rs) c m line file = Ok (Sline rs c m line file).
Proof.
  intros ix rs c m line file Hwf Hlm. pose proof (build_lookup ix rs c Hwf) as H.
  rewrite Sline_alt.
  assert (Halt : m_remap_frame_lines (build ix rs) c m line file =
                 match assoc_get c (build ix rs) with
                 | None => Ok []
                 | Some cls => m_with_lines (cl_orig cls) file line (all_of (cl_members cls) m)
                 end).
  { unfold m_remap_frame_lines, all_of. destruct (assoc_get c (build ix rs)) as [cls|]; [|reflexivity].
    destruct (assoc_get m (cl_members cls)); reflexivity. }
  rewrite Halt. destruct (assoc_get c (build ix rs)) as [cls|].
  - destruct H as (b & Hb & Ho & _ & Hall & _). rewrite Hb, Hall, Ho.
    apply with_lines_spec. apply entries_wf. apply (block_wf_lines rs c b Hlm Hb).
  - rewrite H. reflexivity.
Qed.
Print Assumptions mapper_lines.

Example mapper_lines_hyp :
  wf_class_names Tests.rs1 = true /\ wf_line_mappings Tests.rs1 = true /\
  Sline Tests.rs1 Tests.X Tests.X 5 (Some [90]) =
    [([67], Tests.f, Some [90], 12); ([68], Tests.g, None, 20); ([67], Tests.h, Some [70], 0);
     ([67], Tests.g, Some [70], 0); ([67], Tests.g, Some [70], 0)].
Proof. repeat split; vm_compute; reflexivity. Qed.

(* wf_line_mappings is necessary: with an end line of 0 the range test is skipped and
   [line - start] underflows in the code, while the spec uses truncated subtraction *)
Example mapper_lines_needs_wf :
  wf_class_names Tests.rs_bad_lm = true /\ wf_line_mappings Tests.rs_bad_lm = false /\
  m_remap_frame_lines (build true Tests.rs_bad_lm) Tests.X Tests.X 3 None = Panic /\
  Sline Tests.rs_bad_lm Tests.X Tests.X 3 None = [(Tests.A, Tests.f, None, 5)].
Proof. repeat split; vm_compute; reflexivity. Qed.

Corollary mapper_index_irrelevant : forall rs c m line file,
  wf_class_names rs = true -> wf_line_mappings rs = true ->
  m_remap_frame_lines (build true rs) c m line file = m_remap_frame_lines (build false rs) c m line file.
Proof. intros rs c m line file H1 H2. rewrite !mapper_lines by assumption. reflexivity. Qed.
Print Assumptions mapper_index_irrelevant.

Corollary mapper_no_panic : forall ix rs c m line file,
  wf_class_names rs = true -> wf_line_mappings rs = true ->
  m_remap_frame_lines (build ix rs) c m line file <> Panic.
Proof. intros ix rs c m line file H1 H2. rewrite mapper_lines by assumption. discriminate. Qed.
Print Assumptions mapper_no_panic.

(* C04, last clause: when the line-less answer exists, every frame of the answer with lines
   carries that method name *)
Theorem method_lines_consistent : forall rs c m k o line file,
  Smethod rs c m = Some (k, o) ->
  Forall (fun fr => snd (fst (fst fr)) = o) (Sline rs c m line file).
Proof.
  intros rs c m k o line file H. rewrite Sline_alt. unfold Smethod in H.
  destruct (block_of rs c) as [b|]; [|constructor]. fold (block_entries b) in H.
  assert (Hall : forall e, In e (block_entries b) -> str_eqb (e_obf e) m = true -> e_orig e = o).
  { intros e Hin Hm.
    assert (Hin' : In e (filter (fun e => str_eqb (e_obf e) m) (block_entries b))) by (apply filter_In; auto).
    destruct (filter (fun e => str_eqb (e_obf e) m) (block_entries b)) as [|e0 es]; [discriminate|].
    destruct (forallb (fun e' => str_eqb (e_orig e') (e_orig e0)) es) eqn:EF; [|discriminate].
    inversion H; subst k o. destruct Hin' as [->|Hin']; [reflexivity|].
    rewrite forallb_forall in EF. apply str_eqb_eq. apply EF. exact Hin'. }
  clear H. induction (block_entries b) as [|e es IH]; [constructor|].
  cbn [flat_map]. apply Forall_app. split.
  - unfold sline_frames. destruct (str_eqb (e_obf e) m) eqn:Em; cbn [andb]; [|constructor].
    destruct (entry_applies e line); constructor; [|constructor]. cbn [fst snd].
    apply Hall; [left; reflexivity|exact Em].
  - apply IH. intros e' Hin. apply Hall. right. exact Hin.
Qed.
Print Assumptions method_lines_consistent.

Example method_lines_consistent_hyp :
  Smethod Tests.rs1 Tests.X Tests.Y = Some ([67], Tests.f) /\
  Sline Tests.rs1 Tests.X Tests.Y 8 None = [([67], Tests.f, Some [70], 8)].
Proof. split; vm_compute; reflexivity. Qed.

(* ------------------------------------------------------------------ *)
(* C03: frames with a parameter signature                               *)
(* ------------------------------------------------------------------ *)
Definition param_frame (b : block) (e : entry) : str * str := (entry_class b e, e_orig e).

Lemma Sparams_alt rs c m p :
  Sparams rs c m p =
  match block_of rs c with
  | None => []
  | Some b => map (param_frame b) (filter (by_obf_args m p) (block_param_entries b))
  end.
Proof. reflexivity. Qed.

Theorem mapper_params : forall rs c m p, wf_class_names rs = true ->
  m_remap_frame_params (build true rs) c m p = Sparams rs c m p.
Proof.
  intros rs c m p Hwf. pose proof (build_lookup true rs c Hwf) as H. rewrite Sparams_alt.
  assert (Halt : m_remap_frame_params (build true rs) c m p =
                 match assoc_get c (build true rs) with
                 | None => []
                 | Some cls => m_without_lines (cl_orig cls) (byp_of (cl_members cls) m p)
                 end).
  { unfold m_remap_frame_params, byp_of. destruct (assoc_get c (build true rs)) as [cls|]; [|reflexivity].
    destruct (assoc_get m (cl_members cls)) as [ms|]; [|reflexivity].
    destruct (assoc_get p (cm_byparams ms)); reflexivity. }
  rewrite Halt. destruct (assoc_get c (build true rs)) as [cls|].
  - destruct H as (b & Hb & Ho & _ & _ & Hbyp). rewrite Hb, (Hbyp eq_refl), Ho.
    unfold m_without_lines. rewrite map_map. reflexivity.
  - rewrite H. reflexivity.
Qed.
Print Assumptions mapper_params.

Example mapper_params_hyp :
  wf_class_names Tests.rs1 = true /\
  Sparams Tests.rs1 Tests.X Tests.X Tests.I = [([68], Tests.g)] /\
  Sparams Tests.rs1 Tests.X Tests.X [] = [([67], Tests.h)] /\
  m_remap_frame_params (build false Tests.rs1) Tests.X Tests.X Tests.I = [].
Proof. repeat split; vm_compute; reflexivity. Qed.

(* without the parameter index the code answers nothing; the theorem is for [build true] only *)

Lemma dedup_fresh : forall l seen x, In x (dedup seen l) -> existsb (key_eqb x) seen = false.
Proof.
  induction l as [|e l IH]; intros seen x Hin; cbn [dedup] in Hin; [contradiction|].
  destruct (existsb (key_eqb e) seen) eqn:E.
  - apply IH. exact Hin.
  - destruct Hin as [->|Hin]; [exact E|]. apply IH in Hin. cbn [existsb] in Hin.
    apply orb_false_iff in Hin. apply Hin.
Qed.

Lemma dedup_incl : forall l seen x, In x (dedup seen l) -> In x l.
Proof.
  induction l as [|e l IH]; intros seen x Hin; cbn [dedup] in Hin; [contradiction|].
  destruct (existsb (key_eqb e) seen).
  - right. apply (IH seen). exact Hin.
  - destruct Hin as [->|Hin]; [left; reflexivity|right; apply (IH (e :: seen)); exact Hin].
Qed.

Lemma dedup_nodup : forall l seen, NoDup (map key_of (dedup seen l)).
Proof.
  induction l as [|e l IH]; intros seen; cbn [dedup]; [constructor|].
  destruct (existsb (key_eqb e) seen); [apply IH|].
  cbn [map]. constructor; [|apply IH].
  intros Hin. apply in_map_iff in Hin. destruct Hin as (x & Hk & Hin).
  apply dedup_fresh in Hin. cbn [existsb] in Hin. apply orb_false_iff in Hin. destruct Hin as [Hin _].
  apply key_eqb_spec in Hk. congruence.
Qed.

(* every key of the input is represented: by [seen] or by the output *)
Lemma dedup_complete : forall l seen e, In e l ->
  existsb (key_eqb e) seen = true \/ exists e', In e' (dedup seen l) /\ key_of e' = key_of e.
Proof.
  induction l as [|a l IH]; intros seen e Hin; [contradiction|]. cbn [dedup].
  destruct Hin as [->|Hin].
  - destruct (existsb (key_eqb e) seen) eqn:E; [left; reflexivity|].
    right. exists e. split; [left; reflexivity|reflexivity].
  - destruct (existsb (key_eqb a) seen) eqn:E; [apply IH; exact Hin|].
    destruct (IH (a :: seen) e Hin) as [H|(e' & Hin' & Hk)].
    + cbn [existsb] in H. apply orb_true_iff in H. destruct H as [H|H]; [|left; exact H].
      right. exists a. split; [left; reflexivity|]. apply key_eqb_spec in H. congruence.
    + right. exists e'. split; [right; exact Hin'|exact Hk].
Qed.

Lemma NoDup_filter {A} (f : A -> bool) (g : A -> str * str * str) l :
  NoDup (map g l) -> NoDup (map g (filter f l)).
Proof.
  induction l as [|x l IH]; intros H; cbn [filter map] in *; [constructor|].
  inversion H as [|k ks Hn Hd]; subst. destruct (f x); [|apply IH; exact Hd].
  cbn [map]. constructor; [|apply IH; exact Hd].
  intros Hin. apply Hn. apply in_map_iff in Hin. destruct Hin as (y & Hy & Hin).
  apply filter_In in Hin. apply in_map_iff. exists y. split; [exact Hy|apply Hin].
Qed.

(* C03: the answer for (class c, method m, parameters p) is the image of a list of entries of
   the class's last block that (1) have pairwise distinct (obfuscated, arguments, original) keys,
   (2) are not inlined callees, match m and p and occur in the block, and (3) represent the key
   of every such entry of the block; (4) consequently the original method names in the answer are
   pairwise distinct; (5) the answer depends only on that block. *)
Theorem sparams_props : forall rs c m p,
  (forall b, block_of rs c = Some b ->
     exists es,
       Sparams rs c m p = map (param_frame b) es /\
       NoDup (map key_of es) /\
       Forall (fun e => e_inlined e = false /\ e_obf e = m /\ e_args e = p /\ In e (block_entries b)) es /\
       (forall e, In e (block_entries b) -> e_inlined e = false -> e_obf e = m -> e_args e = p ->
                  exists e', In e' es /\ key_of e' = key_of e) /\
       NoDup (map snd (Sparams rs c m p))) /\
  (block_of rs c = None -> Sparams rs c m p = []) /\
  (forall rs', block_of rs c = block_of rs' c -> Sparams rs c m p = Sparams rs' c m p).
Proof.
  intros rs c m p. split; [|split].
  - intros b Hb. rewrite Sparams_alt, Hb.
    set (es := filter (by_obf_args m p) (block_param_entries b)).
    assert (Hprops : Forall (fun e => e_inlined e = false /\ e_obf e = m /\ e_args e = p /\ In e (block_entries b)) es).
    { apply Forall_forall. intros e Hin. unfold es in Hin. apply filter_In in Hin. destruct Hin as [Hin Hf].
      unfold by_obf_args in Hf. apply andb_true_iff in Hf. destruct Hf as [Hm Hp].
      apply str_eqb_eq in Hm. apply str_eqb_eq in Hp.
      unfold block_param_entries in Hin. apply dedup_incl in Hin. apply filter_In in Hin.
      destruct Hin as [Hin Hni]. unfold not_inlined in Hni. apply negb_true_iff in Hni. auto. }
    assert (Hnd : NoDup (map key_of es)).
    { unfold es. apply NoDup_filter. apply dedup_nodup. }
    exists es. repeat split; try assumption.
    + intros e Hin Hinl Hm Hp.
      destruct (dedup_complete (filter not_inlined (block_entries b)) [] e) as [H|(e' & Hin' & Hk)].
      * apply filter_In. split; [exact Hin|]. unfold not_inlined. rewrite Hinl. reflexivity.
      * discriminate H.
      * exists e'. split; [|exact Hk]. unfold es. apply filter_In. split; [exact Hin'|].
        unfold key_of in Hk. inversion Hk as [[Hk1 Hk2 Hk3]]. unfold by_obf_args.
        rewrite Hk1, Hk2, Hm, Hp, !str_eqb_refl. reflexivity.
    + rewrite map_map. cbn [param_frame snd].
      (* equal obf and args: distinct keys means distinct original names *)
      clear -Hprops Hnd. induction es as [|e es IH]; cbn [map]; [constructor|].
      inversion Hprops as [|e0 es0 (_ & Hm & Hp & _) Hprops']; subst.
      cbn [map] in Hnd. inversion Hnd as [|k ks Hn Hd]; subst.
      constructor; [|apply IH; assumption].
      intros Hin. apply Hn. apply in_map_iff in Hin. destruct Hin as (y & Hy & Hin).
      apply in_map_iff. exists y. split; [|exact Hin].
      rewrite Forall_forall in Hprops'. destruct (Hprops' y Hin) as (_ & Hm' & Hp' & _).
      unfold key_of. rewrite Hm', Hp', Hy. reflexivity.
  - intros Hb. rewrite Sparams_alt, Hb. reflexivity.
  - intros rs' Hb. rewrite !Sparams_alt, Hb. reflexivity.
Qed.
Print Assumptions sparams_props.

Example sparams_props_hyp :
  exists b, block_of Tests.rs1 Tests.X = Some b /\
    map e_inlined (block_entries b) = [true; false; false; false; false; false; false] /\
    map key_of (block_param_entries b) =
      [(Tests.X, Tests.I, Tests.g); (Tests.X, [], Tests.h); (Tests.Y, [], Tests.f)].
Proof. eexists. repeat split; vm_compute; reflexivity. Qed.
