(* guards: constants of src/mapping.rs re-read by the translator equal the model's (a fact the
   translator could not read — None — is not an alarm; behaviour is compared by the correspondence) *)
From PG Require Import Base Mapping.
From PG.Gen Require Extracted.
Definition agrees {A} (o : option A) (v : A) : Prop := match o with Some x => x = v | None => True end.
Lemma guard_source_file_prefix : agrees Extracted.source_file_prefix source_file_prefix.
Proof. first [reflexivity | exact I]. Qed.
Lemma guard_source_file_key : agrees Extracted.source_file_keys [source_file].
Proof. first [reflexivity | exact I]. Qed.
