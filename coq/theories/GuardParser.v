(* guards: constants of src/mapping.rs re-read by the translator equal the model's *)
From PG Require Import Base Mapping.
From PG.Gen Require Extracted.
Lemma guard_source_file_prefix : Extracted.source_file_prefix = source_file_prefix.
Proof. reflexivity. Qed.
Lemma guard_source_file_key : Extracted.source_file_keys = [source_file].
Proof. reflexivity. Qed.
