(* CacheBytesProofs.v — the byte layer of the cache format:
   ser / chunks / header_words / le32 / pad8 (CacheWriter.v) against
   parse / rd32 / rd_words / rd_recs / rd_section / align8 / take_exact (CacheReader.v). *)
From Coq Require Import Lia Arith.
From PG Require Import Base Mapping Spec CacheWriter CacheReader CacheStructDefs.

(* ------------------------------------------------------------------------- *)
(** * Side conditions on the generated constants (re-checked when they change) *)

Lemma cache_magic_lt : cache_magic < U32.
Proof. reflexivity. Qed.
Lemma cache_magic_flipped_lt : cache_magic_flipped < U32.
Proof. reflexivity. Qed.
Lemma cache_version_lt : cache_version < U32.
Proof. reflexivity. Qed.
Lemma cache_magic_not_flipped : (cache_magic =? cache_magic_flipped) = false.
Proof. vm_compute. reflexivity. Qed.
Lemma cache_magic_neq_flipped : cache_magic <> cache_magic_flipped.
Proof. apply N.eqb_neq. exact cache_magic_not_flipped. Qed.
Lemma pad_len_24 : pad_len 24 = 0.
Proof. reflexivity. Qed.

(* ------------------------------------------------------------------------- *)
(** * Definitions *)

Definition byte_ok (b : N) : bool := b <? 256.
(* cache_of_struct, word_ok, struct_wf: see CacheStructDefs.v *)

(* the file length implied by the four header counts: the 24-byte header, then each section
   preceded by the padding that brings the running position to a multiple of 8 *)
Definition implied_length (nc nm np sb : N) : N :=
  let e2 := 24 + 28 * nc in
  let p2 := e2 + pad_len e2 in
  let e3 := p2 + 36 * nm in
  let p3 := e3 + pad_len e3 in
  let e4 := p3 + 36 * np in
  let p4 := e4 + pad_len e4 in
  p4 + sb.

(* section boundaries, as functions of the header counts *)
Definition end_classes (nc : N) : N := 24 + 28 * nc.
Definition pos_members (nc : N) : N := end_classes nc + pad_len (end_classes nc).
Definition end_members (nc nm : N) : N := pos_members nc + 36 * nm.
Definition pos_byparams (nc nm : N) : N := end_members nc nm + pad_len (end_members nc nm).
Definition end_byparams (nc nm np : N) : N := pos_byparams nc nm + 36 * np.
Definition pos_strings (nc nm np : N) : N := end_byparams nc nm np + pad_len (end_byparams nc nm np).

(* the closed form, written out *)
Lemma implied_length_explicit nc nm np sb :
  implied_length nc nm np sb =
  24 + 28 * nc + pad_len (24 + 28 * nc)
  + 36 * nm + pad_len (24 + 28 * nc + pad_len (24 + 28 * nc) + 36 * nm)
  + 36 * np + pad_len (24 + 28 * nc + pad_len (24 + 28 * nc) + 36 * nm
                       + pad_len (24 + 28 * nc + pad_len (24 + 28 * nc) + 36 * nm) + 36 * np)
  + sb.
Proof. reflexivity. Qed.

Lemma implied_length_eq nc nm np sb : implied_length nc nm np sb = pos_strings nc nm np + sb.
Proof. reflexivity. Qed.

(* ------------------------------------------------------------------------- *)
(** * lenN, N <-> nat *)

Lemma lenN_nil {A} : lenN (@nil A) = 0.
Proof. reflexivity. Qed.
Lemma lenN_cons {A} (x : A) l : lenN (x :: l) = 1 + lenN l.
Proof. unfold lenN. cbn [length]. lia. Qed.
Lemma lenN_app {A} (a b : list A) : lenN (a ++ b) = lenN a + lenN b.
Proof. unfold lenN. rewrite app_length. lia. Qed.
Lemma lenN_map {A B} (f : A -> B) l : lenN (map f l) = lenN l.
Proof. unfold lenN. rewrite map_length. reflexivity. Qed.
Lemma to_nat_lenN {A} (l : list A) : N.to_nat (lenN l) = length l.
Proof. unfold lenN. apply Nat2N.id. Qed.
Lemma lenN_firstn {A} n (l : list A) : (n <= length l)%nat -> lenN (firstn n l) = N.of_nat n.
Proof. intros H. unfold lenN. rewrite firstn_length_le by exact H. reflexivity. Qed.
Lemma lenN_lt_length {A} (a b : list A) : lenN a < lenN b <-> (length a < length b)%nat.
Proof. unfold lenN. lia. Qed.

(* ------------------------------------------------------------------------- *)
(** * le32 / rd32 *)

Lemma le32_value w : w < U32 ->
  w mod 256 + 256 * ((w / 256) mod 256) + 65536 * ((w / 65536) mod 256)
    + 16777216 * ((w / 16777216) mod 256) = w.
Proof.
  unfold U32. intros H.
  replace (w / 65536) with (w / 256 / 256) by (rewrite N.div_div by lia; reflexivity).
  replace (w / 16777216) with (w / 256 / 256 / 256) by (rewrite !N.div_div by lia; reflexivity).
  pose proof (N.div_mod w 256 ltac:(lia)) as D1. pose proof (N.mod_lt w 256 ltac:(lia)) as M1.
  set (q1 := w / 256) in *. set (m1 := w mod 256) in *. clearbody q1 m1.
  pose proof (N.div_mod q1 256 ltac:(lia)) as D2. pose proof (N.mod_lt q1 256 ltac:(lia)) as M2.
  set (q2 := q1 / 256) in *. set (m2 := q1 mod 256) in *. clearbody q2 m2.
  pose proof (N.div_mod q2 256 ltac:(lia)) as D3. pose proof (N.mod_lt q2 256 ltac:(lia)) as M3.
  set (q3 := q2 / 256) in *. set (m3 := q2 mod 256) in *. clearbody q3 m3.
  assert (Hq3 : q3 < 256) by lia.
  rewrite (N.mod_small q3 256 Hq3). lia.
Qed.

Lemma rd32_le32 w r : w < U32 -> rd32 (le32 w ++ r) = Some (w, r).
Proof.
  intros H. unfold le32, rd32. cbn [app]. rewrite (le32_value w H). reflexivity.
Qed.

Lemma le32_length w : length (le32 w) = 4%nat.
Proof. reflexivity. Qed.

Lemma le32_bytes w : forallb byte_ok (le32 w) = true.
Proof.
  unfold le32, byte_ok. cbn [forallb].
  rewrite !andb_true_iff. repeat split; apply N.ltb_lt; apply N.mod_lt; lia.
Qed.

(* four bytes decode to a 32-bit word *)
Lemma rd32_bound l w r : forallb byte_ok l = true -> rd32 l = Some (w, r) ->
  w < U32 /\ forallb byte_ok r = true.
Proof.
  intros Hb H. destruct l as [|a [|b [|c [|d r']]]]; try discriminate H.
  cbn [rd32] in H. inversion H; subst. clear H.
  cbn [forallb] in Hb. unfold byte_ok in Hb at 1 2 3 4.
  rewrite !andb_true_iff in Hb. destruct Hb as (Ha & Hb & Hc & Hd & Hr).
  apply N.ltb_lt in Ha, Hb, Hc, Hd. split; [unfold U32; lia|exact Hr].
Qed.

Lemma rd32_len l w r : rd32 l = Some (w, r) -> length l = (4 + length r)%nat.
Proof.
  intros H. destruct l as [|a [|b [|c [|d r']]]]; try discriminate H.
  cbn [rd32] in H. inversion H; subst. reflexivity.
Qed.

Lemma rd32_short l : (length l < 4)%nat -> rd32 l = None.
Proof.
  intros H. destruct l as [|a [|b [|c [|d r']]]]; try reflexivity. cbn [length] in H. lia.
Qed.

Lemma rd32_some l : (4 <= length l)%nat -> exists w r, rd32 l = Some (w, r).
Proof.
  intros H. destruct l as [|a [|b [|c [|d r']]]]; cbn [length] in H; try lia.
  cbn [rd32]. eauto.
Qed.

(* ------------------------------------------------------------------------- *)
(** * ser_words / rd_words / rd_recs *)

Lemma ser_words_nil : ser_words [] = [].
Proof. reflexivity. Qed.
Lemma ser_words_cons w ws : ser_words (w :: ws) = le32 w ++ ser_words ws.
Proof. reflexivity. Qed.
Lemma ser_words_app a b : ser_words (a ++ b) = ser_words a ++ ser_words b.
Proof. unfold ser_words. apply flat_map_app. Qed.

Lemma ser_words_length ws : length (ser_words ws) = (4 * length ws)%nat.
Proof.
  induction ws as [|w ws IH]; [reflexivity|].
  rewrite ser_words_cons, app_length, IH, le32_length. cbn [length]. lia.
Qed.
Lemma lenN_ser_words ws : lenN (ser_words ws) = 4 * lenN ws.
Proof. unfold lenN. rewrite ser_words_length. lia. Qed.

Lemma ser_words_bytes ws : forallb byte_ok (ser_words ws) = true.
Proof.
  induction ws as [|w ws IH]; [reflexivity|].
  rewrite ser_words_cons, forallb_app, le32_bytes, IH. reflexivity.
Qed.

Lemma ser_words_flat_map {A} (f : A -> list N) l :
  ser_words (flat_map f l) = concat (map (fun x => ser_words (f x)) l).
Proof.
  induction l as [|x l IH]; [reflexivity|].
  cbn [flat_map map concat]. rewrite ser_words_app, IH. reflexivity.
Qed.

Lemma rd_words_ser_words ws r : forallb word_ok ws = true ->
  rd_words (length ws) (ser_words ws ++ r) = Some (ws, r).
Proof.
  induction ws as [|w ws IH]; intros H; [reflexivity|].
  cbn [forallb] in H. apply andb_true_iff in H. destruct H as [Hw Hws].
  unfold word_ok in Hw. apply N.ltb_lt in Hw.
  cbn [length rd_words]. rewrite ser_words_cons, <- app_assoc, (rd32_le32 w _ Hw), (IH Hws).
  reflexivity.
Qed.

(* records = word lists of a fixed width *)
Definition ser_recs (recs : list (list N)) : list byte := concat (map ser_words recs).
Definition recs_ok (wpr : nat) (recs : list (list N)) : bool :=
  forallb (fun ws => Nat.eqb (length ws) wpr && forallb word_ok ws) recs.

Lemma ser_recs_length wpr recs : recs_ok wpr recs = true ->
  length (ser_recs recs) = (4 * wpr * length recs)%nat.
Proof.
  induction recs as [|ws recs IH]; intros H; [cbn [ser_recs map concat length]; lia|].
  cbn [recs_ok forallb] in H. apply andb_true_iff in H. destruct H as [H1 H2].
  apply andb_true_iff in H1. destruct H1 as [Hl _]. apply Nat.eqb_eq in Hl.
  unfold ser_recs in *. cbn [map concat length]. rewrite app_length, ser_words_length, (IH H2), Hl.
  rewrite Nat.mul_succ_r. lia.
Qed.

Lemma rd_recs_ser_recs wpr recs r : recs_ok wpr recs = true ->
  rd_recs wpr (length recs) (ser_recs recs ++ r) = Some (recs, r).
Proof.
  induction recs as [|ws recs IH]; intros H; [reflexivity|].
  cbn [recs_ok forallb] in H. apply andb_true_iff in H. destruct H as [H1 H2].
  apply andb_true_iff in H1. destruct H1 as [Hl Hw]. apply Nat.eqb_eq in Hl.
  subst wpr. unfold ser_recs in *. cbn [length rd_recs map concat]. rewrite <- app_assoc.
  rewrite (rd_words_ser_words ws _ Hw). rewrite (IH H2).
  reflexivity.
Qed.

(* length-only behaviour of the readers *)
Lemma rd_words_spec k l :
  ((length l < 4 * k)%nat /\ rd_words k l = None) \/
  (exists ws r, rd_words k l = Some (ws, r) /\ length l = (4 * k + length r)%nat /\ length ws = k).
Proof.
  revert l. induction k as [|k IH]; intros l.
  - right. exists [], l. cbn [rd_words length]. repeat split; lia.
  - cbn [rd_words]. destruct (rd32 l) as [[w r]|] eqn:E.
    + apply rd32_len in E. destruct (IH r) as [[Hlt Hn]|(ws & r' & Hs & Hlen & Hk)].
      * left. rewrite Hn. split; [lia|reflexivity].
      * right. rewrite Hs. exists (w :: ws), r'. cbn [length]. repeat split; lia.
    + left. split; [|reflexivity].
      destruct (le_lt_dec 4 (length l)) as [Hge|Hlt]; [|lia].
      destruct (rd32_some l Hge) as (w & r & Hs). congruence.
Qed.

Lemma rd_words_short k l : (length l < 4 * k)%nat -> rd_words k l = None.
Proof.
  intros H. destruct (rd_words_spec k l) as [[_ Hn]|(ws & r & _ & Hlen & _)]; [exact Hn|lia].
Qed.

Lemma rd_words_len k l ws r : rd_words k l = Some (ws, r) ->
  length l = (4 * k + length r)%nat /\ length ws = k.
Proof.
  intros H. destruct (rd_words_spec k l) as [[_ Hn]|(ws' & r' & Hs & Hlen & Hk)]; [congruence|].
  rewrite Hs in H. inversion H; subst ws' r'. split; assumption.
Qed.

Lemma rd_recs_spec wpr n l :
  ((length l < 4 * wpr * n)%nat /\ rd_recs wpr n l = None) \/
  (exists recs r, rd_recs wpr n l = Some (recs, r) /\ length l = (4 * wpr * n + length r)%nat /\
                  length recs = n /\ Forall (fun ws => length ws = wpr) recs).
Proof.
  revert l. induction n as [|n IH]; intros l.
  - right. exists [], l. cbn [rd_recs length]. repeat split; try lia. constructor.
  - cbn [rd_recs]. rewrite Nat.mul_succ_r.
    destruct (rd_words_spec wpr l) as [[Hlt Hn]|(ws & r & Hs & Hlen & Hk)].
    + left. rewrite Hn. split; [lia|reflexivity].
    + rewrite Hs. destruct (IH r) as [[Hlt Hn]|(recs & r' & Hs' & Hlen' & Hk' & Hall)].
      * left. rewrite Hn. split; [lia|reflexivity].
      * right. rewrite Hs'. exists (ws :: recs), r'. cbn [length].
        repeat split; try lia. constructor; assumption.
Qed.

(* decoded words are 32-bit when the input consists of bytes *)
Lemma rd_words_bound k l ws r : forallb byte_ok l = true -> rd_words k l = Some (ws, r) ->
  forallb word_ok ws = true /\ forallb byte_ok r = true.
Proof.
  revert l ws r. induction k as [|k IH]; intros l ws r Hb H; cbn [rd_words] in H.
  - inversion H; subst. split; [reflexivity|exact Hb].
  - destruct (rd32 l) as [[w r1]|] eqn:E; [|discriminate H].
    destruct (rd_words k r1) as [[ws' r2]|] eqn:E2; [|discriminate H]. inversion H; subst.
    destruct (rd32_bound _ _ _ Hb E) as [Hw Hr1]. destruct (IH _ _ _ Hr1 E2) as [Hws Hr].
    split; [|exact Hr]. cbn [forallb]. rewrite Hws. unfold word_ok. apply N.ltb_lt in Hw. rewrite Hw. reflexivity.
Qed.

Lemma rd_recs_bound wpr n l recs r : forallb byte_ok l = true -> rd_recs wpr n l = Some (recs, r) ->
  forallb (forallb word_ok) recs = true /\ forallb byte_ok r = true.
Proof.
  revert l recs r. induction n as [|n IH]; intros l recs r Hb H; cbn [rd_recs] in H.
  - inversion H; subst. split; [reflexivity|exact Hb].
  - destruct (rd_words wpr l) as [[ws r1]|] eqn:E; [|discriminate H].
    destruct (rd_recs wpr n r1) as [[recs' r2]|] eqn:E2; [|discriminate H]. inversion H; subst.
    destruct (rd_words_bound _ _ _ _ Hb E) as [Hw Hr1]. destruct (IH _ _ _ Hr1 E2) as [Hws Hr].
    split; [|exact Hr]. cbn [forallb]. rewrite Hw, Hws. reflexivity.
Qed.

(* ------------------------------------------------------------------------- *)
(** * take_exact / pad8 / align8 *)

Lemma take_exact_app {A} (a r : list A) : take_exact (length a) (a ++ r) = Some (a, r).
Proof.
  induction a as [|x a IH]; [reflexivity|]. cbn [length app take_exact]. rewrite IH. reflexivity.
Qed.

Lemma take_exact_spec {A} n (l : list A) :
  ((length l < n)%nat /\ take_exact n l = None) \/
  (exists a r, take_exact n l = Some (a, r) /\ l = a ++ r /\ length a = n).
Proof.
  revert l. induction n as [|n IH]; intros l.
  - right. exists [], l. repeat split.
  - cbn [take_exact]. destruct l as [|x l].
    + left. cbn [length]. split; [lia|reflexivity].
    + destruct (IH l) as [[Hlt Hn]|(a & r & Hs & Hl & Hk)].
      * left. rewrite Hn. cbn [length]. split; [lia|reflexivity].
      * right. rewrite Hs. exists (x :: a), r. subst l. cbn [length]. repeat split. lia.
Qed.

Lemma take_exact_short {A} n (l : list A) : (length l < n)%nat -> take_exact n l = None.
Proof.
  intros H. destruct (take_exact_spec n l) as [[_ Hn]|(a & r & _ & Hl & Hk)]; [exact Hn|].
  subst l. rewrite app_length in H. lia.
Qed.

Lemma pad_len_lt pos : pad_len pos < 8.
Proof. unfold pad_len. apply N.mod_lt. lia. Qed.

Lemma pad_len_aligned pos : (pos + pad_len pos) mod 8 = 0.
Proof.
  unfold pad_len.
  pose proof (N.div_mod pos 8 ltac:(lia)) as D. pose proof (N.mod_lt pos 8 ltac:(lia)) as M.
  set (q := pos / 8) in *. set (m := pos mod 8) in *. clearbody q m.
  destruct (N.eq_dec m 0) as [Hz|Hnz].
  - subst m. change (8 - 0) with 8. change (8 mod 8) with 0.
    rewrite D. rewrite N.add_0_r, N.add_0_r, N.mul_comm. apply N.mod_mul. lia.
  - rewrite (N.mod_small (8 - m) 8) by lia.
    replace (pos + (8 - m)) with ((q + 1) * 8) by lia. apply N.mod_mul. lia.
Qed.

Lemma pad_len_of_aligned pos : pos mod 8 = 0 -> pad_len pos = 0.
Proof. intros H. unfold pad_len. rewrite H. reflexivity. Qed.

Lemma pad8_length pos : length (pad8 pos) = N.to_nat (pad_len pos).
Proof. unfold pad8. apply repeat_length. Qed.
Lemma lenN_pad8 pos : lenN (pad8 pos) = pad_len pos.
Proof. unfold lenN. rewrite pad8_length. apply N2Nat.id. Qed.
Lemma pad8_bytes pos : forallb byte_ok (pad8 pos) = true.
Proof.
  unfold pad8. induction (N.to_nat (pad_len pos)) as [|n IH]; [reflexivity|].
  cbn [repeat forallb]. rewrite IH. reflexivity.
Qed.

Lemma align8_pad8 pos r : align8 pos (pad8 pos ++ r) = Some (pos + pad_len pos, r).
Proof.
  unfold align8. rewrite <- pad8_length, take_exact_app. reflexivity.
Qed.

Lemma align8_spec pos l :
  (lenN l < pad_len pos /\ align8 pos l = None) \/
  (exists r, align8 pos l = Some (pos + pad_len pos, r) /\ lenN l = pad_len pos + lenN r /\
             (forallb byte_ok l = true -> forallb byte_ok r = true)).
Proof.
  unfold align8. destruct (take_exact_spec (N.to_nat (pad_len pos)) l) as [[Hlt Hn]|(a & r & Hs & Hl & Hk)].
  - left. rewrite Hn. split; [unfold lenN; lia|reflexivity].
  - right. rewrite Hs. exists r. split; [reflexivity|]. subst l. split.
    + rewrite lenN_app. unfold lenN at 1. rewrite Hk, N2Nat.id. reflexivity.
    + rewrite forallb_app. intros H. apply andb_true_iff in H. apply H.
Qed.

(* ------------------------------------------------------------------------- *)
(** * rd_section *)

Lemma rd_section_ser_recs wpr recs r : recs_ok wpr recs = true ->
  rd_section wpr (lenN recs) (ser_recs recs ++ r) = Some (recs, r).
Proof.
  intros H. unfold rd_section.
  replace (lenN (ser_recs recs ++ r) <? 4 * N.of_nat wpr * lenN recs) with false.
  - rewrite to_nat_lenN. apply rd_recs_ser_recs. exact H.
  - symmetry. apply N.ltb_ge. rewrite lenN_app. unfold lenN. rewrite (ser_recs_length wpr recs H). lia.
Qed.

Lemma rd_section_spec wpr n l :
  (lenN l < 4 * N.of_nat wpr * n /\ rd_section wpr n l = None) \/
  (exists recs r, rd_section wpr n l = Some (recs, r) /\ lenN l = 4 * N.of_nat wpr * n + lenN r /\
                  lenN recs = n /\ Forall (fun ws => length ws = wpr) recs /\
                  (forallb byte_ok l = true ->
                   forallb (forallb word_ok) recs = true /\ forallb byte_ok r = true)).
Proof.
  unfold rd_section. destruct (N.ltb_spec (lenN l) (4 * N.of_nat wpr * n)) as [Hlt|Hge].
  - left. split; [exact Hlt|reflexivity].
  - destruct (rd_recs_spec wpr (N.to_nat n) l) as [[Hlt Hn]|(recs & r & Hs & Hlen & Hk & Hall)].
    + exfalso. unfold lenN in Hge. lia.
    + right. exists recs, r. split; [exact Hs|]. unfold lenN. repeat split; try lia; try assumption.
      * eapply rd_recs_bound; eassumption.
      * eapply rd_recs_bound; eassumption.
Qed.

Lemma rd_section_ser_recs' wpr recs n r : recs_ok wpr recs = true -> n = lenN recs ->
  rd_section wpr n (ser_recs recs ++ r) = Some (recs, r).
Proof. intros H ->. apply rd_section_ser_recs. exact H. Qed.

(* ------------------------------------------------------------------------- *)
(** * The layout of a file: header ++ body *)

(* everything after the 24 header bytes, for arbitrary record lists *)
Definition layout_body (cls ms ps : list (list N)) (strs : list byte) : list byte :=
  let nc := lenN cls in let nm := lenN ms in let np := lenN ps in
  pad8 24 ++ ser_recs cls ++ pad8 (end_classes nc) ++ ser_recs ms ++ pad8 (end_members nc nm)
  ++ ser_recs ps ++ pad8 (end_byparams nc nm np) ++ strs.

Definition body (s : cache_struct) : list byte :=
  layout_body (map class_words (cs_classes s)) (map member_words (cs_members s))
              (map member_words (cs_byparams s)) (cs_strings s).

Lemma header_len s : lenN (ser_words (header_words s)) = 24.
Proof. reflexivity. Qed.

Lemma ser_recs_map_length {A} (f : A -> list N) (k : nat) (l : list A) :
  (forall x, length (f x) = k) -> length (ser_recs (map f l)) = (4 * k * length l)%nat.
Proof.
  intros Hk. induction l as [|x l IH]; [cbn [map ser_recs concat length]; lia|].
  unfold ser_recs in *. cbn [map concat length]. rewrite app_length, ser_words_length, IH, Hk.
  rewrite Nat.mul_succ_r. lia.
Qed.

Lemma lenN_class_bytes cl : lenN (ser_recs (map class_words cl)) = 28 * lenN cl.
Proof. unfold lenN. rewrite (ser_recs_map_length class_words 7) by reflexivity. lia. Qed.
Lemma lenN_member_bytes ml : lenN (ser_recs (map member_words ml)) = 36 * lenN ml.
Proof. unfold lenN. rewrite (ser_recs_map_length member_words 9) by reflexivity. lia. Qed.

Lemma class_chunks_eq cl :
  concat (map (fun c => ser_words (class_words c)) cl) = ser_recs (map class_words cl).
Proof. unfold ser_recs. rewrite map_map. reflexivity. Qed.
Lemma member_chunk_eq ml :
  ser_words (flat_map member_words ml) = ser_recs (map member_words ml).
Proof. unfold ser_recs. rewrite ser_words_flat_map, map_map. reflexivity. Qed.

(* the chunk list concatenates to header ++ body, with the writer's running positions equal to
   the section boundaries computed from the counts *)
Theorem ser_eq s : ser s = ser_words (header_words s) ++ body s.
Proof.
  unfold ser, chunks. cbv zeta. rewrite header_len.
  rewrite class_chunks_eq, !member_chunk_eq.
  rewrite !lenN_pad8, lenN_class_bytes, !lenN_member_bytes.
  rewrite pad_len_24, N.add_0_r.
  rewrite !concat_app. cbn [concat app]. rewrite class_chunks_eq, app_nil_r.
  unfold body, layout_body. cbv zeta. rewrite !lenN_map.
  unfold end_byparams, pos_byparams, end_members, pos_members, end_classes.
  change (pad8 24) with (@nil N). cbn [app]. rewrite !app_nil_r. reflexivity.
Qed.

Lemma lenN_ser_recs wpr recs : recs_ok wpr recs = true ->
  lenN (ser_recs recs) = 4 * N.of_nat wpr * lenN recs.
Proof. intros H. unfold lenN. rewrite (ser_recs_length wpr recs H). lia. Qed.

Lemma lenN_layout_body cls ms ps strs :
  recs_ok 7 cls = true -> recs_ok 9 ms = true -> recs_ok 9 ps = true ->
  24 + lenN (layout_body cls ms ps strs) = pos_strings (lenN cls) (lenN ms) (lenN ps) + lenN strs.
Proof.
  intros Hc Hm Hp. unfold layout_body. cbv zeta.
  rewrite !lenN_app, !lenN_pad8, pad_len_24.
  rewrite (lenN_ser_recs 7 cls Hc), (lenN_ser_recs 9 ms Hm), (lenN_ser_recs 9 ps Hp).
  unfold pos_strings, end_byparams, pos_byparams, end_members, pos_members, end_classes.
  change (N.of_nat 7) with 7. change (N.of_nat 9) with 9. lia.
Qed.

(* ------------------------------------------------------------------------- *)
(** * (1) Round trip *)

(* general form: any header carrying the true record counts and a string-byte count not larger
   than what follows the last padding *)
Theorem parse_layout_ok cls ms ps strs sb :
  recs_ok 7 cls = true -> recs_ok 9 ms = true -> recs_ok 9 ps = true ->
  lenN cls < U32 -> lenN ms < U32 -> lenN ps < U32 -> sb < U32 -> sb <= lenN strs ->
  parse (ser_words [cache_magic; cache_version; lenN cls; lenN ms; lenN ps; sb]
         ++ layout_body cls ms ps strs)
  = POk {| k_classes := cls; k_members := ms; k_byparams := ps; k_strings := strs |}.
Proof.
  intros Hc Hm Hp Lc Lm Lp Lsb Hsb. unfold parse.
  set (hdr := [cache_magic; cache_version; lenN cls; lenN ms; lenN ps; sb]).
  assert (Hh : forallb word_ok hdr = true).
  { unfold hdr, word_ok. cbn [forallb]. rewrite !andb_true_iff.
    pose proof cache_magic_lt. pose proof cache_version_lt.
    repeat split; apply N.ltb_lt; assumption. }
  change 6%nat with (length hdr). rewrite (rd_words_ser_words hdr _ Hh).
  unfold hdr. cbv zeta. cbn [nth].
  rewrite cache_magic_not_flipped, !N.eqb_refl. cbn [negb].
  unfold layout_body. cbv zeta.
  rewrite align8_pad8, pad_len_24, N.add_0_r.
  rewrite (rd_section_ser_recs' 7 cls _ _ Hc eq_refl).
  fold (end_classes (lenN cls)). rewrite align8_pad8. fold (pos_members (lenN cls)).
  rewrite (rd_section_ser_recs' 9 ms _ _ Hm eq_refl).
  fold (end_members (lenN cls) (lenN ms)). rewrite align8_pad8. fold (pos_byparams (lenN cls) (lenN ms)).
  rewrite (rd_section_ser_recs' 9 ps _ _ Hp eq_refl).
  fold (end_byparams (lenN cls) (lenN ms) (lenN ps)). rewrite align8_pad8.
  replace (lenN strs <? sb) with false by (symmetry; apply N.ltb_ge; exact Hsb).
  reflexivity.
Qed.

(* consequences of struct_wf *)
Lemma struct_wf_inv s : struct_wf s = true ->
  recs_ok 7 (map class_words (cs_classes s)) = true /\
  recs_ok 9 (map member_words (cs_members s)) = true /\
  recs_ok 9 (map member_words (cs_byparams s)) = true /\
  forallb byte_ok (cs_strings s) = true /\
  lenN (cs_classes s) < U32 /\ lenN (cs_strings s) < U32 /\
  cs_num_members s = lenN (cs_members s) /\ lenN (cs_members s) < U32 /\
  cs_num_byparams s = lenN (cs_byparams s) /\ lenN (cs_byparams s) < U32.
Proof.
  unfold struct_wf. rewrite !andb_true_iff.
  intros [[[[[[[[[H1 H2] H3] H4] H5] H6] H7] H8] H9] H10].
  apply N.ltb_lt in H5, H6, H8, H10. apply N.eqb_eq in H7, H9.
  assert (R : forall {A} (f : A -> list N) k l, (forall x, length (f x) = k) ->
            forallb (fun x => forallb word_ok (f x)) l = true -> recs_ok k (map f l) = true).
  { intros A f k l Hk H. unfold recs_ok. rewrite forallb_forall in *. intros ws Hin.
    apply in_map_iff in Hin. destruct Hin as (x & <- & Hin). rewrite (H x Hin), Hk, Nat.eqb_refl. reflexivity. }
  repeat split; try assumption.
  - apply R; [reflexivity|exact H1].
  - apply R; [reflexivity|exact H2].
  - apply R; [reflexivity|exact H3].
Qed.

Lemma header_words_wf s : struct_wf s = true ->
  header_words s = [cache_magic; cache_version; lenN (cs_classes s); lenN (cs_members s);
                    lenN (cs_byparams s); lenN (cs_strings s)].
Proof.
  intros H. destruct (struct_wf_inv s H) as (_ & _ & _ & _ & Lc & Ls & Em & _ & Ep & _).
  unfold header_words, u32. rewrite Em, Ep, !N.mod_small by assumption. reflexivity.
Qed.

Theorem parse_ser : forall s, struct_wf s = true -> parse (ser s) = POk (cache_of_struct s).
Proof.
  intros s H. rewrite ser_eq, (header_words_wf s H).
  destruct (struct_wf_inv s H) as (Hc & Hm & Hp & _ & Lc & Ls & _ & Lm & _ & Lp).
  unfold body.
  rewrite <- (lenN_map class_words (cs_classes s)), <- (lenN_map member_words (cs_members s)),
          <- (lenN_map member_words (cs_byparams s)).
  rewrite parse_layout_ok; try assumption; try (rewrite lenN_map; assumption); [reflexivity|lia].
Qed.
Print Assumptions parse_ser.

(* ------------------------------------------------------------------------- *)
(** * (2) Length *)

Theorem ser_length : forall s, struct_wf s = true ->
  lenN (ser s) = implied_length (lenN (cs_classes s)) (lenN (cs_members s)) (lenN (cs_byparams s))
                                (lenN (cs_strings s)).
Proof.
  intros s H. rewrite ser_eq, lenN_app, header_len. unfold body.
  destruct (struct_wf_inv s H) as (Hc & Hm & Hp & _).
  rewrite (lenN_layout_body _ _ _ _ Hc Hm Hp), !lenN_map. reflexivity.
Qed.
Print Assumptions ser_length.

(* the length holds for every struct, well-formed or not (the header may then lie) *)
Theorem ser_length_any s :
  lenN (ser s) = implied_length (lenN (cs_classes s)) (lenN (cs_members s)) (lenN (cs_byparams s))
                                (lenN (cs_strings s)).
Proof.
  rewrite ser_eq, lenN_app, header_len. unfold body, layout_body. cbv zeta.
  rewrite !lenN_app, !lenN_pad8, pad_len_24, lenN_class_bytes, !lenN_member_bytes, !lenN_map.
  unfold implied_length, end_byparams, pos_byparams, end_members, pos_members, end_classes. cbv zeta. lia.
Qed.
Print Assumptions ser_length_any.

(* ------------------------------------------------------------------------- *)
(** * The outcome of [parse] is a function of the header and the buffer length *)

Definition layout_result (nc nm np sb L : N) : option cerr :=
  if L <? end_classes nc then Some InvalidClasses
  else if L <? end_byparams nc nm np then Some InvalidMembers
  else if L <? pos_strings nc nm np then Some (UnexpectedStringBytes sb 0)
  else if L <? pos_strings nc nm np + sb
       then Some (UnexpectedStringBytes sb (L - pos_strings nc nm np))
  else None.

Ltac ltb_is b :=
  match goal with
  | |- context [?x <? ?y] =>
      replace (x <? y) with b
        by (symmetry; first [apply N.ltb_lt | apply N.ltb_ge];
            unfold pos_strings, end_byparams, pos_byparams, end_members, pos_members, end_classes in *; lia)
  end.

Theorem parse_by_length buf hdr rest :
  rd_words 6 buf = Some (hdr, rest) ->
  nth 0 hdr 0 = cache_magic -> nth 1 hdr 0 = cache_version ->
  let nc := nth 2 hdr 0 in let nm := nth 3 hdr 0 in let np := nth 4 hdr 0 in let sb := nth 5 hdr 0 in
  match layout_result nc nm np sb (lenN buf) with
  | Some e => parse buf = PErr e
  | None => exists c, parse buf = POk c /\
              lenN (k_classes c) = nc /\ lenN (k_members c) = nm /\ lenN (k_byparams c) = np /\
              lenN buf = pos_strings nc nm np + lenN (k_strings c) /\ sb <= lenN (k_strings c) /\
              Forall (fun r => length r = 7%nat) (k_classes c) /\
              Forall (fun r => length r = 9%nat) (k_members c) /\
              Forall (fun r => length r = 9%nat) (k_byparams c) /\
              (forallb byte_ok buf = true ->
               forallb (forallb word_ok) (k_classes c) = true /\
               forallb (forallb word_ok) (k_members c) = true /\
               forallb (forallb word_ok) (k_byparams c) = true /\
               forallb byte_ok (k_strings c) = true)
  end.
Proof.
  intros Hrd Hmag Hver. cbv zeta. unfold parse. rewrite Hrd. cbv zeta.
  rewrite Hmag, Hver, cache_magic_not_flipped, !N.eqb_refl. cbn [negb].
  set (nc := nth 2 hdr 0). set (nm := nth 3 hdr 0). set (np := nth 4 hdr 0). set (sb := nth 5 hdr 0).
  assert (HL : lenN buf = 24 + lenN rest).
  { apply rd_words_len in Hrd. destruct Hrd as [Hrd _]. unfold lenN. lia. }
  assert (Hb0 : forallb byte_ok buf = true -> forallb byte_ok rest = true).
  { intros Hb. eapply rd_words_bound; eassumption. }
  set (L := lenN buf) in *. clearbody L nc nm np sb. clear Hrd Hmag Hver.
  unfold layout_result.
  destruct (align8_spec 24 rest) as [[Hl1 Ha1]|(r1 & Ha1 & Hl1 & Hb1)]; rewrite Ha1;
    rewrite pad_len_24 in *; [lia|].
  rewrite N.add_0_r. fold (end_classes nc).
  destruct (rd_section_spec 7 nc r1) as [[Hl2 Hs2]|(cls & r2 & Hs2 & Hl2 & Hn2 & Hw2 & Hb2)]; rewrite Hs2;
    change (N.of_nat 7) with 7 in *.
  { ltb_is true. reflexivity. }
  ltb_is false.
  destruct (align8_spec (end_classes nc) r2) as [[Hl3 Ha3]|(r3 & Ha3 & Hl3 & Hb3)]; rewrite Ha3.
  { ltb_is true. reflexivity. }
  fold (pos_members nc). fold (end_members nc nm).
  destruct (rd_section_spec 9 nm r3) as [[Hl4 Hs4]|(ms & r4 & Hs4 & Hl4 & Hn4 & Hw4 & Hb4)]; rewrite Hs4;
    change (N.of_nat 9) with 9 in *.
  { ltb_is true. reflexivity. }
  destruct (align8_spec (end_members nc nm) r4) as [[Hl5 Ha5]|(r5 & Ha5 & Hl5 & Hb5)]; rewrite Ha5.
  { ltb_is true. reflexivity. }
  fold (pos_byparams nc nm). fold (end_byparams nc nm np).
  destruct (rd_section_spec 9 np r5) as [[Hl6 Hs6]|(ps & r6 & Hs6 & Hl6 & Hn6 & Hw6 & Hb6)]; rewrite Hs6;
    change (N.of_nat 9) with 9 in *.
  { ltb_is true. reflexivity. }
  ltb_is false.
  destruct (align8_spec (end_byparams nc nm np) r6) as [[Hl7 Ha7]|(r7 & Ha7 & Hl7 & Hb7)]; rewrite Ha7.
  { ltb_is true. reflexivity. }
  fold (pos_strings nc nm np). ltb_is false.
  assert (HL7 : L = pos_strings nc nm np + lenN r7).
  { unfold pos_strings, end_byparams, pos_byparams, end_members, pos_members, end_classes in *. lia. }
  destruct (N.ltb_spec (lenN r7) sb) as [Hlt|Hge].
  - replace (L <? pos_strings nc nm np + sb) with true by (symmetry; apply N.ltb_lt; lia).
    replace (L - pos_strings nc nm np) with (lenN r7) by lia. reflexivity.
  - replace (L <? pos_strings nc nm np + sb) with false by (symmetry; apply N.ltb_ge; lia).
    eexists. split; [reflexivity|]. cbn [k_classes k_members k_byparams k_strings].
    do 8 (split; [assumption|]). intros Hb.
    pose proof (Hb1 (Hb0 Hb)) as B1. destruct (Hb2 B1) as [W2 B2]. pose proof (Hb3 B2) as B3.
    destruct (Hb4 B3) as [W4 B4]. pose proof (Hb5 B4) as B5. destruct (Hb6 B5) as [W6 B6].
    pose proof (Hb7 B6) as B7. repeat split; assumption.
Qed.
Print Assumptions parse_by_length.

(* ------------------------------------------------------------------------- *)
(** * (3) Every strict prefix of a written file is rejected, with a known error *)

Definition prefix_err (nc nm np sb n : N) : cerr :=
  if n <? 24 then InvalidHeader
  else if n <? end_classes nc then InvalidClasses
  else if n <? end_byparams nc nm np then InvalidMembers
  else if n <? pos_strings nc nm np then UnexpectedStringBytes sb 0
  else UnexpectedStringBytes sb (n - pos_strings nc nm np).

Lemma layout_result_prefix nc nm np sb L : 24 <= L -> L < pos_strings nc nm np + sb ->
  layout_result nc nm np sb L = Some (prefix_err nc nm np sb L).
Proof.
  intros H24 Hlt. unfold layout_result, prefix_err.
  replace (L <? 24) with false by (symmetry; apply N.ltb_ge; exact H24).
  replace (L <? pos_strings nc nm np + sb) with true by (symmetry; apply N.ltb_lt; exact Hlt).
  destruct (L <? end_classes nc); [reflexivity|].
  destruct (L <? end_byparams nc nm np); [reflexivity|].
  destruct (L <? pos_strings nc nm np); reflexivity.
Qed.

Lemma header_bytes_length s : length (ser_words (header_words s)) = 24%nat.
Proof. reflexivity. Qed.

Lemma rd_header_ser_prefix s n : struct_wf s = true -> (24 <= n)%nat ->
  rd_words 6 (firstn n (ser s)) = Some (header_words s, firstn (n - 24) (body s)).
Proof.
  intros H Hn. rewrite ser_eq, firstn_app, header_bytes_length.
  rewrite firstn_all2 by (rewrite header_bytes_length; exact Hn).
  change 6%nat with (length (header_words s)). apply rd_words_ser_words.
  rewrite (header_words_wf s H).
  destruct (struct_wf_inv s H) as (_ & _ & _ & _ & Lc & Ls & _ & Lm & _ & Lp).
  unfold word_ok. cbn [forallb]. rewrite !andb_true_iff.
  pose proof cache_magic_lt. pose proof cache_version_lt.
  repeat split; apply N.ltb_lt; assumption.
Qed.

Theorem prefix_error_kind : forall s n, struct_wf s = true -> (n < length (ser s))%nat ->
  parse (firstn n (ser s)) =
  PErr (prefix_err (lenN (cs_classes s)) (lenN (cs_members s)) (lenN (cs_byparams s))
                   (lenN (cs_strings s)) (N.of_nat n)).
Proof.
  intros s n H Hn.
  assert (HL : lenN (firstn n (ser s)) = N.of_nat n) by (apply lenN_firstn; lia).
  destruct (le_lt_dec 24 n) as [Hge|Hlt].
  - pose proof (rd_header_ser_prefix s n H Hge) as Hrd.
    pose proof (parse_by_length _ _ _ Hrd) as P. rewrite (header_words_wf s H) in P.
    cbv zeta in P. cbn [nth] in P. specialize (P eq_refl eq_refl).
    rewrite HL in P. rewrite layout_result_prefix in P; [exact P|lia|].
    rewrite <- implied_length_eq, <- (ser_length s H). unfold lenN. lia.
  - unfold parse. rewrite rd_words_short.
    + unfold prefix_err. replace (N.of_nat n <? 24) with true by (symmetry; apply N.ltb_lt; lia). reflexivity.
    + rewrite firstn_length_le by lia. lia.
Qed.
Print Assumptions prefix_error_kind.

Theorem prefix_rejected : forall s n, struct_wf s = true -> (n < length (ser s))%nat ->
  exists e, parse (firstn n (ser s)) = PErr e.
Proof. intros s n H Hn. eexists. apply prefix_error_kind; assumption. Qed.
Print Assumptions prefix_rejected.

(* the five regions, spelled out *)
Section PrefixRegions.
  Variable s : cache_struct.
  Variable n : nat.
  Hypothesis Hwf : struct_wf s = true.
  Hypothesis Hn : (n < length (ser s))%nat.
  Let nc := lenN (cs_classes s).
  Let nm := lenN (cs_members s).
  Let np := lenN (cs_byparams s).
  Let sb := lenN (cs_strings s).
  Let k := N.of_nat n.

  Lemma prefix_in_header : k < 24 -> parse (firstn n (ser s)) = PErr InvalidHeader.
  Proof.
    intros H. rewrite (prefix_error_kind s n Hwf Hn). unfold prefix_err. fold k.
    replace (k <? 24) with true by (symmetry; apply N.ltb_lt; exact H). reflexivity.
  Qed.
  (* inside the class section (the header is 8-aligned: no padding before it) *)
  Lemma prefix_in_classes : 24 <= k < end_classes nc -> parse (firstn n (ser s)) = PErr InvalidClasses.
  Proof.
    intros [H1 H2]. rewrite (prefix_error_kind s n Hwf Hn). unfold prefix_err. fold k nc.
    replace (k <? 24) with false by (symmetry; apply N.ltb_ge; exact H1).
    replace (k <? end_classes nc) with true by (symmetry; apply N.ltb_lt; exact H2). reflexivity.
  Qed.
  (* inside the padding after the classes, the members, the padding after them, or the by-params *)
  Lemma prefix_in_members : end_classes nc <= k < end_byparams nc nm np ->
    parse (firstn n (ser s)) = PErr InvalidMembers.
  Proof.
    intros [H1 H2]. rewrite (prefix_error_kind s n Hwf Hn). unfold prefix_err. fold k nc nm np.
    replace (k <? 24) with false by (symmetry; apply N.ltb_ge; unfold end_classes in H1; lia).
    replace (k <? end_classes nc) with false by (symmetry; apply N.ltb_ge; exact H1).
    replace (k <? end_byparams nc nm np) with true by (symmetry; apply N.ltb_lt; exact H2). reflexivity.
  Qed.
  (* inside the padding before the strings *)
  Lemma prefix_in_string_padding : end_byparams nc nm np <= k < pos_strings nc nm np ->
    parse (firstn n (ser s)) = PErr (UnexpectedStringBytes sb 0).
  Proof.
    intros [H1 H2]. rewrite (prefix_error_kind s n Hwf Hn). unfold prefix_err. fold k nc nm np sb.
    assert (end_classes nc <= end_byparams nc nm np /\ 24 <= end_classes nc) as [G1 G2]
      by (unfold end_byparams, pos_byparams, end_members, pos_members, end_classes; lia).
    replace (k <? 24) with false by (symmetry; apply N.ltb_ge; lia).
    replace (k <? end_classes nc) with false by (symmetry; apply N.ltb_ge; lia).
    replace (k <? end_byparams nc nm np) with false by (symmetry; apply N.ltb_ge; exact H1).
    replace (k <? pos_strings nc nm np) with true by (symmetry; apply N.ltb_lt; exact H2). reflexivity.
  Qed.
  (* inside the strings *)
  Lemma prefix_in_strings : pos_strings nc nm np <= k ->
    parse (firstn n (ser s)) = PErr (UnexpectedStringBytes sb (k - pos_strings nc nm np)).
  Proof.
    intros H1. rewrite (prefix_error_kind s n Hwf Hn). unfold prefix_err. fold k nc nm np sb.
    assert (end_classes nc <= end_byparams nc nm np /\ 24 <= end_classes nc /\
            end_byparams nc nm np <= pos_strings nc nm np) as (G1 & G2 & G3)
      by (unfold pos_strings, end_byparams, pos_byparams, end_members, pos_members, end_classes; lia).
    replace (k <? 24) with false by (symmetry; apply N.ltb_ge; lia).
    replace (k <? end_classes nc) with false by (symmetry; apply N.ltb_ge; lia).
    replace (k <? end_byparams nc nm np) with false by (symmetry; apply N.ltb_ge; lia).
    replace (k <? pos_strings nc nm np) with false by (symmetry; apply N.ltb_ge; exact H1). reflexivity.
  Qed.
End PrefixRegions.

(* ------------------------------------------------------------------------- *)
(** * (4) Header edits *)

(* for ANY buffer whose first 24 bytes decode *)
Theorem header_wrong_endianness buf hdr rest :
  rd_words 6 buf = Some (hdr, rest) -> nth 0 hdr 0 = cache_magic_flipped ->
  parse buf = PErr WrongEndianness.
Proof. intros H E. unfold parse. rewrite H. cbv zeta. rewrite E, N.eqb_refl. reflexivity. Qed.
Print Assumptions header_wrong_endianness.

Theorem header_wrong_format buf hdr rest :
  rd_words 6 buf = Some (hdr, rest) ->
  nth 0 hdr 0 <> cache_magic -> nth 0 hdr 0 <> cache_magic_flipped ->
  parse buf = PErr WrongFormat.
Proof.
  intros H E1 E2. unfold parse. rewrite H. cbv zeta.
  replace (nth 0 hdr 0 =? cache_magic_flipped) with false by (symmetry; apply N.eqb_neq; exact E2).
  replace (nth 0 hdr 0 =? cache_magic) with false by (symmetry; apply N.eqb_neq; exact E1).
  reflexivity.
Qed.
Print Assumptions header_wrong_format.

Theorem header_wrong_version buf hdr rest :
  rd_words 6 buf = Some (hdr, rest) ->
  nth 0 hdr 0 = cache_magic -> nth 1 hdr 0 <> cache_version ->
  parse buf = PErr WrongVersion.
Proof.
  intros H E1 E2. unfold parse. rewrite H. cbv zeta.
  rewrite E1, cache_magic_not_flipped, N.eqb_refl.
  replace (nth 1 hdr 0 =? cache_version) with false by (symmetry; apply N.eqb_neq; exact E2).
  reflexivity.
Qed.
Print Assumptions header_wrong_version.

Theorem header_too_short buf : lenN buf < 24 -> parse buf = PErr InvalidHeader.
Proof.
  intros H. unfold parse. rewrite rd_words_short; [reflexivity|]. unfold lenN in H. lia.
Qed.

(* declared sections that do not fit, for ANY buffer with a valid magic and version *)
Section Counts.
  Variables (buf : list byte) (hdr : list N) (rest : list byte).
  Hypothesis Hrd : rd_words 6 buf = Some (hdr, rest).
  Hypothesis Hmagic : nth 0 hdr 0 = cache_magic.
  Hypothesis Hversion : nth 1 hdr 0 = cache_version.
  Let nc := nth 2 hdr 0.
  Let nm := nth 3 hdr 0.
  Let np := nth 4 hdr 0.
  Let sb := nth 5 hdr 0.

  Lemma lenN_buf_rest : lenN buf = 24 + lenN rest.
  Proof. apply rd_words_len in Hrd. destruct Hrd as [E _]. unfold lenN. lia. Qed.

  (* lenN rest < 28 * nc *)
  Theorem classes_do_not_fit : lenN buf < end_classes nc -> parse buf = PErr InvalidClasses.
  Proof.
    intros H. pose proof (parse_by_length buf hdr rest Hrd Hmagic Hversion) as P. cbv zeta in P.
    fold nc nm np sb in P. unfold layout_result in P.
    replace (lenN buf <? end_classes nc) with true in P by (symmetry; apply N.ltb_lt; exact H).
    exact P.
  Qed.

  (* the classes fit but the members / by-params sections (with their alignment) do not *)
  Theorem members_do_not_fit : end_classes nc <= lenN buf -> lenN buf < end_byparams nc nm np ->
    parse buf = PErr InvalidMembers.
  Proof.
    intros H1 H2. pose proof (parse_by_length buf hdr rest Hrd Hmagic Hversion) as P. cbv zeta in P.
    fold nc nm np sb in P. unfold layout_result in P.
    replace (lenN buf <? end_classes nc) with false in P by (symmetry; apply N.ltb_ge; exact H1).
    replace (lenN buf <? end_byparams nc nm np) with true in P by (symmetry; apply N.ltb_lt; exact H2).
    exact P.
  Qed.

  Theorem string_padding_does_not_fit :
    end_byparams nc nm np <= lenN buf -> lenN buf < pos_strings nc nm np ->
    parse buf = PErr (UnexpectedStringBytes sb 0).
  Proof.
    intros H1 H2. pose proof (parse_by_length buf hdr rest Hrd Hmagic Hversion) as P. cbv zeta in P.
    fold nc nm np sb in P. unfold layout_result in P.
    assert (end_classes nc <= end_byparams nc nm np)
      by (unfold end_byparams, pos_byparams, end_members, pos_members; lia).
    replace (lenN buf <? end_classes nc) with false in P by (symmetry; apply N.ltb_ge; lia).
    replace (lenN buf <? end_byparams nc nm np) with false in P by (symmetry; apply N.ltb_ge; exact H1).
    replace (lenN buf <? pos_strings nc nm np) with true in P by (symmetry; apply N.ltb_lt; exact H2).
    exact P.
  Qed.

  Theorem strings_do_not_fit :
    pos_strings nc nm np <= lenN buf -> lenN buf < pos_strings nc nm np + sb ->
    parse buf = PErr (UnexpectedStringBytes sb (lenN buf - pos_strings nc nm np)).
  Proof.
    intros H1 H2. pose proof (parse_by_length buf hdr rest Hrd Hmagic Hversion) as P. cbv zeta in P.
    fold nc nm np sb in P. unfold layout_result in P.
    assert (end_classes nc <= end_byparams nc nm np /\ end_byparams nc nm np <= pos_strings nc nm np)
      as [G1 G2] by (unfold pos_strings, end_byparams, pos_byparams, end_members, pos_members; lia).
    replace (lenN buf <? end_classes nc) with false in P by (symmetry; apply N.ltb_ge; lia).
    replace (lenN buf <? end_byparams nc nm np) with false in P by (symmetry; apply N.ltb_ge; lia).
    replace (lenN buf <? pos_strings nc nm np) with false in P by (symmetry; apply N.ltb_ge; exact H1).
    replace (lenN buf <? pos_strings nc nm np + sb) with true in P by (symmetry; apply N.ltb_lt; exact H2).
    exact P.
  Qed.

  (* acceptance = the buffer is at least as long as the header implies *)
  Theorem accepted_iff_long_enough :
    (exists c, parse buf = POk c) <-> implied_length nc nm np sb <= lenN buf.
  Proof.
    pose proof (parse_by_length buf hdr rest Hrd Hmagic Hversion) as P. cbv zeta in P.
    fold nc nm np sb in P. rewrite implied_length_eq.
    destruct (layout_result nc nm np sb (lenN buf)) as [e|] eqn:E.
    - split.
      + intros [c Hc]. rewrite Hc in P. discriminate P.
      + intros Hle. exfalso. unfold layout_result in E.
        assert (end_classes nc <= end_byparams nc nm np /\ end_byparams nc nm np <= pos_strings nc nm np)
          as [G1 G2] by (unfold pos_strings, end_byparams, pos_byparams, end_members, pos_members; lia).
        replace (lenN buf <? end_classes nc) with false in E by (symmetry; apply N.ltb_ge; lia).
        replace (lenN buf <? end_byparams nc nm np) with false in E by (symmetry; apply N.ltb_ge; lia).
        replace (lenN buf <? pos_strings nc nm np) with false in E by (symmetry; apply N.ltb_ge; lia).
        replace (lenN buf <? pos_strings nc nm np + sb) with false in E by (symmetry; apply N.ltb_ge; lia).
        discriminate E.
    - destruct P as (c & Hc & _ & _ & _ & HL & Hsb & _). split.
      + intros _. lia.
      + intros _. exists c. exact Hc.
  Qed.
End Counts.
Print Assumptions classes_do_not_fit.
Print Assumptions members_do_not_fit.
Print Assumptions string_padding_does_not_fit.
Print Assumptions strings_do_not_fit.
Print Assumptions accepted_iff_long_enough.

(* ---- a well-formed file whose header is overwritten ---- *)

Definition replace_header (hdr' : list N) (buf : list byte) : list byte :=
  ser_words hdr' ++ skipn 24 buf.

Lemma skipn_header s : skipn 24 (ser s) = body s.
Proof.
  rewrite ser_eq. rewrite <- (header_bytes_length s) at 1.
  rewrite skipn_app, skipn_all, Nat.sub_diag. reflexivity.
Qed.
Lemma firstn_header s : firstn 24 (ser s) = ser_words (header_words s).
Proof.
  rewrite ser_eq. rewrite <- (header_bytes_length s) at 1.
  rewrite firstn_app, firstn_all, Nat.sub_diag, app_nil_r. reflexivity.
Qed.

Lemma replace_header_same s : replace_header (header_words s) (ser s) = ser s.
Proof. unfold replace_header. rewrite skipn_header, <- ser_eq. reflexivity. Qed.

Lemma replace_header_rd s hdr' : length hdr' = 6%nat -> forallb word_ok hdr' = true ->
  rd_words 6 (replace_header hdr' (ser s)) = Some (hdr', body s) /\
  lenN (replace_header hdr' (ser s)) = lenN (ser s).
Proof.
  intros Hl Hw. unfold replace_header. rewrite skipn_header. split.
  - rewrite <- Hl. apply rd_words_ser_words. exact Hw.
  - rewrite ser_eq, !lenN_app, !lenN_ser_words. unfold lenN. rewrite Hl. reflexivity.
Qed.

Section Edits.
  Variable s : cache_struct.
  Hypothesis Hwf : struct_wf s = true.
  Let nc := lenN (cs_classes s).
  Let nm := lenN (cs_members s).
  Let np := lenN (cs_byparams s).
  Let sb := lenN (cs_strings s).
  Let L := lenN (ser s).

  Lemma ser_len_L : L = pos_strings nc nm np + sb.
  Proof. unfold L. rewrite (ser_length s Hwf). reflexivity. Qed.

  Lemma hdr6_ok a b c d e f :
    a < U32 -> b < U32 -> c < U32 -> d < U32 -> e < U32 -> f < U32 ->
    length [a; b; c; d; e; f] = 6%nat /\ forallb word_ok [a; b; c; d; e; f] = true.
  Proof.
    intros Ha Hb Hc Hd He Hf. split; [reflexivity|]. unfold word_ok. cbn [forallb].
    rewrite !andb_true_iff. repeat split; apply N.ltb_lt; assumption.
  Qed.

  (* any replacement header with the right magic and version: the outcome is read off
     [layout_result] at the (unchanged) file length *)
  Theorem edited_header hdr' : length hdr' = 6%nat -> forallb word_ok hdr' = true ->
    nth 0 hdr' 0 = cache_magic -> nth 1 hdr' 0 = cache_version ->
    match layout_result (nth 2 hdr' 0) (nth 3 hdr' 0) (nth 4 hdr' 0) (nth 5 hdr' 0) L with
    | Some e => parse (replace_header hdr' (ser s)) = PErr e
    | None => exists c, parse (replace_header hdr' (ser s)) = POk c
    end.
  Proof.
    intros Hl Hw Hm Hv. destruct (replace_header_rd s hdr' Hl Hw) as [Hrd HL].
    pose proof (parse_by_length _ _ _ Hrd Hm Hv) as P. cbv zeta in P. rewrite HL in P. fold L in P.
    destruct (layout_result _ _ _ _ L); [exact P|]. destruct P as (c & Hc & _). exists c. exact Hc.
  Qed.

  Theorem edit_magic_flipped hdr' : length hdr' = 6%nat -> forallb word_ok hdr' = true ->
    nth 0 hdr' 0 = cache_magic_flipped -> parse (replace_header hdr' (ser s)) = PErr WrongEndianness.
  Proof.
    intros Hl Hw Hm. destruct (replace_header_rd s hdr' Hl Hw) as [Hrd _].
    eapply header_wrong_endianness; eassumption.
  Qed.
  Theorem edit_magic_other hdr' : length hdr' = 6%nat -> forallb word_ok hdr' = true ->
    nth 0 hdr' 0 <> cache_magic -> nth 0 hdr' 0 <> cache_magic_flipped ->
    parse (replace_header hdr' (ser s)) = PErr WrongFormat.
  Proof.
    intros Hl Hw Hm1 Hm2. destruct (replace_header_rd s hdr' Hl Hw) as [Hrd _].
    eapply header_wrong_format; eassumption.
  Qed.
  Theorem edit_version hdr' : length hdr' = 6%nat -> forallb word_ok hdr' = true ->
    nth 0 hdr' 0 = cache_magic -> nth 1 hdr' 0 <> cache_version ->
    parse (replace_header hdr' (ser s)) = PErr WrongVersion.
  Proof.
    intros Hl Hw Hm Hv. destruct (replace_header_rd s hdr' Hl Hw) as [Hrd _].
    eapply header_wrong_version; eassumption.
  Qed.

  Lemma counts_lt : nc < U32 /\ nm < U32 /\ np < U32 /\ sb < U32.
  Proof.
    destruct (struct_wf_inv s Hwf) as (_ & _ & _ & _ & Lc & Ls & _ & Lm & _ & Lp).
    repeat split; assumption.
  Qed.

  (* one count replaced by a value whose section no longer fits in the file *)
  Theorem edit_num_classes nc' : nc' < U32 -> L < end_classes nc' ->
    parse (replace_header [cache_magic; cache_version; nc'; nm; np; sb] (ser s)) = PErr InvalidClasses.
  Proof.
    intros Hlt Hfit. destruct counts_lt as (Lc & Lm & Lp & Ls).
    destruct (hdr6_ok cache_magic cache_version nc' nm np sb cache_magic_lt cache_version_lt Hlt Lm Lp Ls)
      as [Hl Hw].
    destruct (replace_header_rd s _ Hl Hw) as [Hrd HL].
    apply (classes_do_not_fit _ _ _ Hrd eq_refl eq_refl). cbn [nth]. rewrite HL. exact Hfit.
  Qed.

  Theorem edit_num_members nm' : nm' < U32 -> L < end_members nc nm' ->
    parse (replace_header [cache_magic; cache_version; nc; nm'; np; sb] (ser s)) = PErr InvalidMembers.
  Proof.
    intros Hlt Hfit. destruct counts_lt as (Lc & Lm & Lp & Ls).
    destruct (hdr6_ok cache_magic cache_version nc nm' np sb cache_magic_lt cache_version_lt Lc Hlt Lp Ls)
      as [Hl Hw].
    destruct (replace_header_rd s _ Hl Hw) as [Hrd HL].
    apply (members_do_not_fit _ _ _ Hrd eq_refl eq_refl); cbn [nth]; rewrite HL; fold L.
    - rewrite ser_len_L. unfold pos_strings, end_byparams, pos_byparams, end_members, pos_members. lia.
    - unfold end_byparams, pos_byparams. lia.
  Qed.

  Theorem edit_num_byparams np' : np' < U32 -> L < end_byparams nc nm np' ->
    parse (replace_header [cache_magic; cache_version; nc; nm; np'; sb] (ser s)) = PErr InvalidMembers.
  Proof.
    intros Hlt Hfit. destruct counts_lt as (Lc & Lm & Lp & Ls).
    destruct (hdr6_ok cache_magic cache_version nc nm np' sb cache_magic_lt cache_version_lt Lc Lm Hlt Ls)
      as [Hl Hw].
    destruct (replace_header_rd s _ Hl Hw) as [Hrd HL].
    apply (members_do_not_fit _ _ _ Hrd eq_refl eq_refl); cbn [nth]; rewrite HL; fold L.
    - rewrite ser_len_L. unfold pos_strings, end_byparams, pos_byparams, end_members, pos_members. lia.
    - exact Hfit.
  Qed.

  (* a larger string-byte count is always detected, and reports the true count as "found" *)
  Theorem edit_string_bytes_larger sb' : sb' < U32 -> sb < sb' ->
    parse (replace_header [cache_magic; cache_version; nc; nm; np; sb'] (ser s))
    = PErr (UnexpectedStringBytes sb' sb).
  Proof.
    intros Hlt Hgt. destruct counts_lt as (Lc & Lm & Lp & Ls).
    destruct (hdr6_ok cache_magic cache_version nc nm np sb' cache_magic_lt cache_version_lt Lc Lm Lp Hlt)
      as [Hl Hw].
    destruct (replace_header_rd s _ Hl Hw) as [Hrd HL].
    pose proof (strings_do_not_fit _ _ _ Hrd eq_refl eq_refl) as P. cbn [nth] in P.
    rewrite HL in P. fold L in P. rewrite ser_len_L in P.
    replace (pos_strings nc nm np + sb - pos_strings nc nm np) with sb in P by lia.
    apply P; lia.
  Qed.

  (* a smaller string-byte count is NOT detected: the file parses to the same cache *)
  Theorem edit_string_bytes_smaller sb' : sb' <= sb ->
    parse (replace_header [cache_magic; cache_version; nc; nm; np; sb'] (ser s))
    = POk (cache_of_struct s).
  Proof.
    intros Hle. destruct counts_lt as (Lc & Lm & Lp & Ls).
    destruct (struct_wf_inv s Hwf) as (Hc & Hm & Hp & _).
    unfold replace_header. rewrite skipn_header. unfold body, nc, nm, np.
    rewrite <- (lenN_map class_words (cs_classes s)), <- (lenN_map member_words (cs_members s)),
            <- (lenN_map member_words (cs_byparams s)).
    rewrite parse_layout_ok; try assumption; try (rewrite lenN_map; assumption).
    - reflexivity.
    - fold sb. lia.
  Qed.
End Edits.
Print Assumptions edited_header.
Print Assumptions edit_magic_flipped.
Print Assumptions edit_magic_other.
Print Assumptions edit_version.
Print Assumptions edit_num_classes.
Print Assumptions edit_num_members.
Print Assumptions edit_num_byparams.
Print Assumptions edit_string_bytes_larger.
Print Assumptions edit_string_bytes_smaller.

(* ------------------------------------------------------------------------- *)
(** * (5) Totality, inversion of acceptance, bounds *)

(* [parse] is a total Gallina function: no Panic outcome exists in its result type *)
Remark parse_total : forall buf, exists r, parse buf = r.
Proof. intros buf. eexists. reflexivity. Qed.

Theorem parse_ok_inv buf c : parse buf = POk c ->
  exists hdr rest,
    rd_words 6 buf = Some (hdr, rest) /\ nth 0 hdr 0 = cache_magic /\ nth 1 hdr 0 = cache_version /\
    lenN (k_classes c) = nth 2 hdr 0 /\ lenN (k_members c) = nth 3 hdr 0 /\
    lenN (k_byparams c) = nth 4 hdr 0 /\ nth 5 hdr 0 <= lenN (k_strings c) /\
    lenN buf = pos_strings (nth 2 hdr 0) (nth 3 hdr 0) (nth 4 hdr 0) + lenN (k_strings c) /\
    Forall (fun r => length r = 7%nat) (k_classes c) /\
    Forall (fun r => length r = 9%nat) (k_members c) /\
    Forall (fun r => length r = 9%nat) (k_byparams c) /\
    (forallb byte_ok buf = true ->
     forallb (forallb word_ok) (k_classes c) = true /\
     forallb (forallb word_ok) (k_members c) = true /\
     forallb (forallb word_ok) (k_byparams c) = true /\
     forallb byte_ok (k_strings c) = true).
Proof.
  intros H. destruct (rd_words 6 buf) as [[hdr rest]|] eqn:Hrd.
  2:{ unfold parse in H. rewrite Hrd in H. discriminate H. }
  exists hdr, rest. split; [reflexivity|].
  destruct (N.eq_dec (nth 0 hdr 0) cache_magic_flipped) as [Ef|Nf].
  { rewrite (header_wrong_endianness _ _ _ Hrd Ef) in H. discriminate H. }
  destruct (N.eq_dec (nth 0 hdr 0) cache_magic) as [Em|Nm].
  2:{ rewrite (header_wrong_format _ _ _ Hrd Nm Nf) in H. discriminate H. }
  destruct (N.eq_dec (nth 1 hdr 0) cache_version) as [Ev|Nv].
  2:{ rewrite (header_wrong_version _ _ _ Hrd Em Nv) in H. discriminate H. }
  pose proof (parse_by_length _ _ _ Hrd Em Ev) as P. cbv zeta in P.
  destruct (layout_result _ _ _ _ (lenN buf)) as [e|].
  { rewrite P in H. discriminate H. }
  destruct P as (c' & Hc & P). rewrite Hc in H. inversion H; subst c'.
  destruct P as (P1 & P2 & P3 & P4 & P5 & P6 & P7 & P8 & P9).
  repeat (split; [assumption|]). exact P9.
Qed.
Print Assumptions parse_ok_inv.

(* every word of every record of an accepted buffer of bytes is a u32 *)
Theorem parse_ok_words_bounded buf c : forallb byte_ok buf = true -> parse buf = POk c ->
  forallb (forallb word_ok) (k_classes c) = true /\
  forallb (forallb word_ok) (k_members c) = true /\
  forallb (forallb word_ok) (k_byparams c) = true /\
  forallb byte_ok (k_strings c) = true.
Proof.
  intros Hb H. destruct (parse_ok_inv buf c H) as (hdr & rest & _ & _ & _ & _ & _ & _ & _ & _ & _ & _ & _ & B).
  exact (B Hb).
Qed.
Print Assumptions parse_ok_words_bounded.

(* an accepted buffer is at least as long as its header implies *)
Theorem parse_ok_length buf c : parse buf = POk c ->
  exists hdr rest, rd_words 6 buf = Some (hdr, rest) /\
    implied_length (nth 2 hdr 0) (nth 3 hdr 0) (nth 4 hdr 0) (nth 5 hdr 0) <= lenN buf.
Proof.
  intros H. destruct (parse_ok_inv buf c H) as (hdr & rest & Hrd & _ & _ & _ & _ & _ & Hsb & HL & _).
  exists hdr, rest. split; [exact Hrd|]. rewrite implied_length_eq. lia.
Qed.
Print Assumptions parse_ok_length.

(* the output of the writer consists of bytes *)
Lemma forallb_concat {A} (p : A -> bool) (ls : list (list A)) :
  forallb p (concat ls) = forallb (forallb p) ls.
Proof.
  induction ls as [|l ls IH]; [reflexivity|]. cbn [concat forallb]. rewrite forallb_app, IH. reflexivity.
Qed.

Theorem ser_bytes s : forallb byte_ok (cs_strings s) = true -> forallb byte_ok (ser s) = true.
Proof.
  intros Hs. rewrite ser_eq. unfold body, layout_body. cbv zeta.
  assert (R : forall recs, forallb byte_ok (ser_recs recs) = true).
  { intros recs. unfold ser_recs. rewrite forallb_concat. apply forallb_forall. intros x Hin.
    apply in_map_iff in Hin. destruct Hin as (ws & <- & _). apply ser_words_bytes. }
  rewrite !forallb_app, ser_words_bytes, !pad8_bytes, !R, Hs. reflexivity.
Qed.
Print Assumptions ser_bytes.

(* ------------------------------------------------------------------------- *)
(** * Examples: the hypotheses are satisfiable, the statements agree with evaluation *)

Definition mk_class (a b c d e f g : N) : classrec :=
  {| c_obf := a; c_orig := b; c_file := c; c_moff := d; c_mlen := e; c_poff := f; c_plen := g |}.
Definition mk_member (a b c d e f g h i : N) : member :=
  {| m_obf := a; m_start := b; m_end := c; m_ocls := d; m_ofile := e; m_oname := f;
     m_os := g; m_oe := h; m_params := i |}.

(* 2 classes, 3 members, 1 by-params entry, 8 string bytes *)
Definition ex_struct : cache_struct :=
  {| cs_num_members := 3; cs_num_byparams := 1;
     cs_classes := [mk_class 0 2 MAX32 0 2 0 1; mk_class 4 2 4 2 1 1 0];
     cs_members := [mk_member 0 1 5 MAX32 MAX32 2 10 14 (u32 MAX64);
                    mk_member 0 7 9 4 MAX32 2 20 MAX32 MAX32;
                    mk_member 2 0 0 MAX32 4 0 0 MAX32 MAX32];
     cs_byparams := [mk_member 0 1 5 MAX32 MAX32 2 10 14 MAX32];
     cs_strings := [1; 97; 1; 98; 3; 102; 111; 111] |}.

Example ex_wf : struct_wf ex_struct = true.
Proof. vm_compute. reflexivity. Qed.

Eval vm_compute in (ser ex_struct).
Eval vm_compute in (parse (ser ex_struct)).

Example ex_parse : parse (ser ex_struct) = POk (cache_of_struct ex_struct).
Proof. vm_compute. reflexivity. Qed.
Example ex_parse_by_theorem : parse (ser ex_struct) = POk (cache_of_struct ex_struct).
Proof. apply parse_ser. exact ex_wf. Qed.

(* 24 + 2*28 = 80 (aligned); 80 + 3*36 = 188, padded to 192; 192 + 36 = 228, padded to 232; 232 + 8 *)
Example ex_length : lenN (ser ex_struct) = 240 /\ implied_length 2 3 1 8 = 240.
Proof. split; vm_compute; reflexivity. Qed.

Definition cerr_eqb (a b : cerr) : bool :=
  match a, b with
  | WrongEndianness, WrongEndianness | WrongFormat, WrongFormat | WrongVersion, WrongVersion
  | InvalidHeader, InvalidHeader | InvalidClasses, InvalidClasses | InvalidMembers, InvalidMembers => true
  | UnexpectedStringBytes e f, UnexpectedStringBytes e' f' => (e =? e') && (f =? f')
  | _, _ => false
  end.

(* all 240 strict prefixes, evaluated, agree with [prefix_err]; the full file is accepted *)
Example ex_prefixes :
  forallb (fun n => match parse (firstn n (ser ex_struct)) with
                    | PErr e => cerr_eqb e (prefix_err 2 3 1 8 (N.of_nat n))
                    | POk _ => false
                    end) (seq 0 240) = true.
Proof. vm_compute. reflexivity. Qed.

Example ex_prefix_regions :
  parse (firstn 23 (ser ex_struct)) = PErr InvalidHeader /\
  parse (firstn 24 (ser ex_struct)) = PErr InvalidClasses /\
  parse (firstn 79 (ser ex_struct)) = PErr InvalidClasses /\
  parse (firstn 80 (ser ex_struct)) = PErr InvalidMembers /\
  parse (firstn 190 (ser ex_struct)) = PErr InvalidMembers /\     (* padding after the members *)
  parse (firstn 227 (ser ex_struct)) = PErr InvalidMembers /\
  parse (firstn 228 (ser ex_struct)) = PErr (UnexpectedStringBytes 8 0) /\   (* padding before strings *)
  parse (firstn 231 (ser ex_struct)) = PErr (UnexpectedStringBytes 8 0) /\
  parse (firstn 232 (ser ex_struct)) = PErr (UnexpectedStringBytes 8 0) /\   (* aligned, no string byte *)
  parse (firstn 239 (ser ex_struct)) = PErr (UnexpectedStringBytes 8 7).
Proof. vm_compute. repeat split; reflexivity. Qed.

(* one class: the class section ends at 52 and is followed by 4 padding bytes.  A prefix ending
   inside that padding is reported as InvalidMembers, not InvalidClasses (deviation from the
   informal expectation in the task statement; it is what src/cache/raw.rs does: the align_to
   after the class slice maps to InvalidMembers). *)
Definition ex_struct1 : cache_struct :=
  {| cs_num_members := 0; cs_num_byparams := 0;
     cs_classes := [mk_class 0 2 MAX32 0 0 0 0]; cs_members := []; cs_byparams := [];
     cs_strings := [1; 97; 1; 98] |}.
Example ex1_wf : struct_wf ex_struct1 = true.
Proof. vm_compute. reflexivity. Qed.
Example ex1_class_padding :
  lenN (ser ex_struct1) = 60 /\
  parse (firstn 51 (ser ex_struct1)) = PErr InvalidClasses /\
  parse (firstn 52 (ser ex_struct1)) = PErr InvalidMembers /\
  parse (firstn 54 (ser ex_struct1)) = PErr InvalidMembers /\
  parse (firstn 56 (ser ex_struct1)) = PErr (UnexpectedStringBytes 4 0) /\
  parse (firstn 60 (ser ex_struct1)) = POk (cache_of_struct ex_struct1).
Proof. vm_compute. repeat split; reflexivity. Qed.

(* hypotheses of the generic-buffer theorems *)
Example ex_rd_header :
  rd_words 6 (ser ex_struct) = Some ([cache_magic; cache_version; 2; 3; 1; 8], body ex_struct).
Proof. vm_compute. reflexivity. Qed.

(* header edits, evaluated *)
Example ex_edits :
  parse (replace_header [cache_magic_flipped; cache_version; 2; 3; 1; 8] (ser ex_struct))
    = PErr WrongEndianness /\
  parse (replace_header [cache_magic + 1; cache_version; 2; 3; 1; 8] (ser ex_struct)) = PErr WrongFormat /\
  parse (replace_header [cache_magic; cache_version + 1; 2; 3; 1; 8] (ser ex_struct)) = PErr WrongVersion /\
  parse (replace_header [cache_magic; cache_version; 8; 3; 1; 8] (ser ex_struct)) = PErr InvalidClasses /\
  parse (replace_header [cache_magic; cache_version; 2; 5; 1; 8] (ser ex_struct)) = PErr InvalidMembers /\
  parse (replace_header [cache_magic; cache_version; 2; 3; 2; 8] (ser ex_struct)) = PErr InvalidMembers /\
  parse (replace_header [cache_magic; cache_version; 2; 3; 1; 9] (ser ex_struct))
    = PErr (UnexpectedStringBytes 9 8) /\
  parse (replace_header [cache_magic; cache_version; 2; 3; 1; 7] (ser ex_struct))
    = POk (cache_of_struct ex_struct).
Proof. vm_compute. repeat split; reflexivity. Qed.

(* the side conditions of the edit theorems hold for these edits *)
Example ex_edit_conditions :
  lenN (ser ex_struct) < end_classes 8 /\ lenN (ser ex_struct) < end_members 2 5 /\
  lenN (ser ex_struct) < end_byparams 2 3 2 /\
  cache_magic + 1 <> cache_magic /\ cache_magic + 1 <> cache_magic_flipped /\
  cache_version + 1 <> cache_version.
Proof. vm_compute. repeat split; congruence. Qed.

(* a count edited upward whose section still "fits" shifts the later sections instead:
   3 classes declared in the 2-class file: the members are read from the wrong place, and the
   error (if any) comes from a later stage *)
Eval vm_compute in (parse (replace_header [cache_magic; cache_version; 3; 3; 1; 8] (ser ex_struct))).
Eval vm_compute in (layout_result 3 3 1 8 240).

Example ex_bytes : forallb byte_ok (ser ex_struct) = true.
Proof. vm_compute. reflexivity. Qed.
