(* SizeBounds.v — the size side condition [sizes_ok] of the cache theorems follows from a bound on the
   LENGTH OF THE MAPPING FILE alone.

   The three record-count conjuncts are SafetyProofs.write_counts_bounded.  Here: the string section.
     (1) one insertion into the string table appends at most  2 * length s  bytes
         (nothing for an empty or known string; otherwise the LEB128 length prefix, which is one byte for
         lengths < 128 and never more than 10 bytes, so never longer than the non-empty string itself);
     (2) the strings the writer inserts for ONE parsed record ([WriterInv.rec_strings]) are disjoint
         pieces of the input consumed for that record, so over the whole stream their lengths sum to at
         most the length of the file;
     (3) hence  |string section| <= 2 * |file|,  and  |file| < 2^31  gives  sizes_ok.

   Main results: [strings_le_twice_input], [sizes_ok_of_length] (constant 2^31; the requested 2^27 is
   the corollary [sizes_ok_of_length_128MiB]), and the input-level forms of the cache theorems
   [cache_class_bytes], [cache_method_bytes], [cache_lines_bytes], [cache_params_bytes],
   [parse_write_bytes], [C02_text_len], [C02_typed_len]. *)
From Coq Require Import Lia Arith Wf_nat.
From PG Require Import Base Mapping Spec Mapper CacheWriter CacheReader CacheStructDefs Domain
  MappingProofs StringTableProofs WriterInv SafetyProofs MapperProofs CacheProofs CacheBytesProofs
  CacheLayout Stacktrace RemapProofs Bridges.

(* ------------------------------------------------------------------ *)
(* 0. total length of a list of strings                                 *)
(* ------------------------------------------------------------------ *)
Fixpoint sumlen (l : list (list N)) : nat :=
  match l with
  | [] => O
  | s :: r => (length s + sumlen r)%nat
  end.

Lemma sumlen_app a b : sumlen (a ++ b) = (sumlen a + sumlen b)%nat.
Proof. induction a as [|s a IH]; cbn [app sumlen]; [reflexivity|]. rewrite IH. lia. Qed.

(* ------------------------------------------------------------------ *)
(* 1. LEB128 length; the cost of one insertion                          *)
(* ------------------------------------------------------------------ *)
Lemma leb128_fuel_length f : forall v, (length (leb128_fuel f v) <= f)%nat.
Proof.
  induction f as [|f IH]; intros v; cbn [leb128_fuel]; [cbn [length]; lia|].
  destruct (v / 128 =? 0); cbn [length]; [lia|]. specialize (IH (v / 128)). lia.
Qed.

Theorem leb128_length_le_10 v : (length (leb128 v) <= 10)%nat.
Proof. unfold leb128. apply leb128_fuel_length. Qed.

Lemma leb128_small v : v < 128 -> length (leb128 v) = 1%nat.
Proof.
  intros H. unfold leb128. cbn [leb128_fuel]. rewrite (N.div_small v 128 H).
  rewrite N.eqb_refl. reflexivity.
Qed.

(* the length prefix of a non-empty string is not longer than the string *)
Theorem leb128_length_le_value v : 0 < v -> (length (leb128 v) <= N.to_nat v)%nat.
Proof.
  intros Hv. destruct (N.lt_ge_cases v 128) as [H|H].
  - rewrite (leb128_small v H). lia.
  - pose proof (leb128_length_le_10 v). lia.
Qed.

(* LEB128 of a value below 128^k takes at most k bytes (5 bytes below 2^35) *)
Fixpoint p128 (k : nat) : N := match k with O => 1 | S k' => 128 * p128 k' end.

Lemma leb128_fuel_length_pow k : forall f v, v < p128 (S k) -> (length (leb128_fuel f v) <= S k)%nat.
Proof.
  induction k as [|k IH]; intros f v Hv; destruct f as [|f]; cbn [leb128_fuel length]; try lia.
  - cbn [p128] in Hv. rewrite (N.div_small v 128 ltac:(lia)), N.eqb_refl. cbn [length]. lia.
  - destruct (v / 128 =? 0); cbn [length]; [lia|].
    assert (Hq : v / 128 < p128 (S k)).
    { apply N.div_lt_upper_bound; [lia|]. exact Hv. }
    specialize (IH f (v / 128) Hq). lia.
Qed.

Theorem leb128_length_u32 v : v < U32 -> (length (leb128 v) <= 5)%nat.
Proof.
  intros Hv. unfold leb128. apply (leb128_fuel_length_pow 4).
  change (p128 5) with 34359738368. unfold U32 in Hv. lia.
Qed.

Lemma length_stab_empty : stab_bytes stab_empty = [].
Proof. reflexivity. Qed.

Lemma stab_insert_cost t s t' off : stab_insert t s = (t', off) ->
  (length (stab_bytes t') <= length (stab_bytes t) + 2 * length s)%nat.
Proof.
  intros H. rewrite (stab_insert_bytes_exact _ _ _ _ H), app_length.
  destruct s as [|x s]; cbn [is_empty]; [cbn [length]; lia|].
  destruct (assoc_get (x :: s) (st_index t)); [cbn [length]; lia|].
  rewrite app_length.
  pose proof (leb128_length_le_value (lenN (x :: s))) as HL.
  unfold lenN in *. rewrite Nat2N.id in HL. cbn [length] in *.
  specialize (HL ltac:(lia)). lia.
Qed.

(* (1) inserting a list of strings *)
Theorem stab_insert_all_cost strs : forall t,
  (length (stab_bytes (stab_insert_all t strs)) <= length (stab_bytes t) + 2 * sumlen strs)%nat.
Proof.
  induction strs as [|s strs IH]; intros t; unfold stab_insert_all; cbn [fold_left sumlen]; [lia|].
  destruct (stab_insert t s) as [t1 off] eqn:E. cbn [fst]. fold (stab_insert_all t1 strs).
  pose proof (stab_insert_cost _ _ _ _ E). specialize (IH t1). lia.
Qed.

(* the string section of the writer, for ANY record list *)
Theorem strings_le_twice_components rs :
  (length (cs_strings (write_struct rs)) <= 2 * sumlen (flat_map rec_strings rs))%nat.
Proof.
  destruct (write_struct_eq rs) as (_ & _ & _ & E & _). cbv zeta in E. rewrite E, w_tab_wrun.
  pose proof (stab_insert_all_cost (flat_map rec_strings rs) (w_tab wstate_init)) as H.
  cbn [wstate_init w_tab] in *. rewrite length_stab_empty in H. cbn [length] in H. lia.
Qed.

(* ------------------------------------------------------------------ *)
(* 2. trim and split_last_dot do not lengthen                           *)
(* ------------------------------------------------------------------ *)
Lemma strip_ws_front_len l r : strip_ws_front l = Some r -> (length r < length l)%nat.
Proof.
  unfold strip_ws_front. destruct l as [|a r1]; [discriminate|].
  destruct (ws1 a); [intros H; inversion H; subst; cbn [length]; lia|].
  destruct r1 as [|b r2]; [discriminate|].
  destruct (ws2 a b); [intros H; inversion H; subst; cbn [length]; lia|].
  destruct r2 as [|c r3]; [discriminate|].
  destruct (ws3 a b c); [intros H; inversion H; subst; cbn [length]; lia|discriminate].
Qed.

Lemma strip_ws_back_rev_len l r : strip_ws_back_rev l = Some r -> (length r < length l)%nat.
Proof.
  unfold strip_ws_back_rev. destruct l as [|c r1]; [discriminate|].
  destruct (ws1 c); [intros H; inversion H; subst; cbn [length]; lia|].
  destruct r1 as [|b r2]; [discriminate|].
  destruct (ws2 b c); [intros H; inversion H; subst; cbn [length]; lia|].
  destruct r2 as [|a r3]; [discriminate|].
  destruct (ws3 a b c); [intros H; inversion H; subst; cbn [length]; lia|discriminate].
Qed.

Lemma trim_start_fuel_len f : forall l, (length (trim_start_fuel f l) <= length l)%nat.
Proof.
  induction f as [|f IH]; intros l; cbn [trim_start_fuel]; [lia|].
  destruct (strip_ws_front l) as [r|] eqn:E; [|lia].
  apply strip_ws_front_len in E. specialize (IH r). lia.
Qed.

Lemma trim_end_rev_fuel_len f : forall l, (length (trim_end_rev_fuel f l) <= length l)%nat.
Proof.
  induction f as [|f IH]; intros l; cbn [trim_end_rev_fuel]; [lia|].
  destruct (strip_ws_back_rev l) as [r|] eqn:E; [|lia].
  apply strip_ws_back_rev_len in E. specialize (IH r). lia.
Qed.

Theorem trim_len l : (length (trim l) <= length l)%nat.
Proof.
  unfold trim, trim_end, trim_start. rewrite rev_length.
  pose proof (trim_end_rev_fuel_len (length (trim_start_fuel (length l) l)) (rev (trim_start_fuel (length l) l))) as H1.
  rewrite rev_length in H1. pose proof (trim_start_fuel_len (length l) l). lia.
Qed.

Lemma split_last_dot_len l : forall acc c o, split_last_dot acc l = Some (c, o) ->
  (length c + length o + 1 = length acc + length l)%nat.
Proof.
  induction l as [|x l IH]; intros acc c o H; cbn [split_last_dot] in H; [discriminate|].
  destruct (split_last_dot (acc ++ [x]) l) as [[c' o']|] eqn:E.
  - inversion H; subst. apply IH in E. rewrite app_length in E. cbn [length] in *. lia.
  - destruct (x =? 46); [|discriminate]. inversion H; subst. cbn [length]. lia.
Qed.

(* ------------------------------------------------------------------ *)
(* 3. one record: the inserted strings fit into the consumed input      *)
(* ------------------------------------------------------------------ *)
Definition rec_cost (r : record) : nat := sumlen (rec_strings r).

Lemma parse_header_cost l r rest : parse_header l = Some (r, rest) ->
  (rec_cost r + length rest <= length l)%nat.
Proof.
  unfold parse_header. intros H. bind_some H as l0 E.
  apply strip_prefix_len in E. cbn [length] in E.
  destruct (strip_prefix source_file_prefix l0) as [l1|] eqn:E1.
  - bind_some H as [v l2] Ev. bind_some H as l3 Eq. inversion H; subst.
    apply strip_prefix_len in E1. apply parse_until_nn_len in Ev. apply strip_prefix_len in Eq.
    pose proof (drop_nl_len l3). unfold rec_cost. cbn [rec_strings].
    rewrite str_eqb_refl. cbn [sumlen]. lia.
  - bind_some H as [k l2] Ek. bind_some H as [v l3] Ev. inversion H; subst.
    apply parse_until_len in Ek. pose proof (drop_nl_len l3).
    unfold rec_cost. cbn [rec_strings].
    destruct (strip_prefix [58] l2) as [l'|] eqn:E3.
    + bind_some Ev as [v' l''] Ev'. inversion Ev; subst.
      apply strip_prefix_len in E3. apply parse_until_len in Ev'. cbn [length] in E3.
      cbn [option_map]. pose proof (trim_len v').
      destruct (str_eqb (trim k) source_file); cbn [sumlen]; lia.
    + inversion Ev; subst. cbn [option_map].
      destruct (str_eqb (trim k) source_file); cbn [sumlen]; lia.
Qed.

Lemma parse_class_cost l r rest : parse_class l = Some (r, rest) ->
  (rec_cost r + length rest <= length l)%nat.
Proof.
  unfold parse_class. intros H.
  bind_some H as [o l1] Eo. bind_some H as l2 Ea. bind_some H as [ob l3] Eb. bind_some H as l4 Ec.
  inversion H; subst.
  apply parse_until_nn_len in Eo. apply strip_prefix_len in Ea. apply parse_until_nn_len in Eb.
  apply strip_prefix_len in Ec. cbn [length arrow] in *. pose proof (drop_nl_len l4).
  unfold rec_cost. cbn [rec_strings sumlen]. lia.
Qed.

Lemma parse_member_cost l r rest : parse_member l = Some (r, rest) ->
  (rec_cost r + length rest <= length l)%nat.
Proof.
  unfold parse_member. intros H. bind_some H as l0 E.
  apply strip_prefix_len in E. cbn [length four_spaces] in E.
  destruct (match parse_usize l0 with Some (v, l') => (Some v, l') | None => (None, l0) end)
    as [startline l1] eqn:E1.
  assert (L1 : (length l1 <= length l0)%nat).
  { destruct (parse_usize l0) as [[v l']|] eqn:E2; inversion E1; subst; [|lia].
    eapply parse_usize_len; eauto. }
  bind_some H as [endline l2] Eend.
  assert (L2 : (length l2 <= length l1)%nat).
  { destruct startline.
    - bind_some Eend as la Ea. bind_some Eend as [e lb] Eb. bind_some Eend as lc Ec. inversion Eend; subst.
      apply strip_prefix_len in Ea. apply parse_usize_len in Eb. apply strip_prefix_len in Ec.
      cbn [length] in *. lia.
    - inversion Eend; subst. lia. }
  bind_some H as [ty l3] Ety. apply parse_until_nn_len in Ety.
  bind_some H as l4 Esp. apply strip_prefix_len in Esp.
  bind_some H as [original l5] Eor. apply parse_until_nn_len in Eor.
  bind_some H as [arguments l6] Earg.
  assert (L6 : (match arguments with Some a => length a | None => O end + length l6 <= length l5)%nat).
  { destruct (strip_prefix [40] l5) as [l'|] eqn:E6.
    - bind_some Earg as [a l''] Ea. bind_some Earg as lb Eb. inversion Earg; subst.
      apply strip_prefix_len in E6. apply parse_until_nn_len in Ea. apply strip_prefix_len in Eb.
      cbn [length] in *. lia.
    - inversion Earg; subst. lia. }
  bind_some H as [os l7] Eos. apply opt_colon_usize_len in Eos.
  bind_some H as [oe l8] Eoe. apply opt_colon_usize_len in Eoe.
  bind_some H as l9 Earr. apply strip_prefix_len in Earr.
  bind_some H as [obf l10] Eobf. apply parse_until_len in Eobf.
  cbn [length arrow] in *. pose proof (drop_nl_len l10) as Hd.
  destruct arguments as [args|].
  - destruct (split_last_dot [] original) as [[c o]|] eqn:Esd; inversion H; subst;
      unfold rec_cost; cbn [rec_strings app sumlen].
    + apply split_last_dot_len in Esd. cbn [length] in Esd. lia.
    + lia.
  - inversion H; subst. unfold rec_cost. cbn [rec_strings sumlen]. lia.
Qed.

Lemma dispatch_cost l r rest : dispatch l = Some (r, rest) -> (rec_cost r + length rest <= length l)%nat.
Proof.
  unfold dispatch. destruct (starts_with [35] l); [apply parse_header_cost|].
  destruct (starts_with four_spaces l); [apply parse_member_cost|apply parse_class_cost].
Qed.

Theorem parse_record_cost l r rest : parse_record l = (IOk r, rest) ->
  (rec_cost r + length rest <= length l)%nat.
Proof.
  unfold parse_record. pose proof (drop_nl_len l) as Hd.
  destruct (dispatch (drop_nl l)) as [[r' rest']|] eqn:E.
  - intros H. inversion H; subst. apply dispatch_cost in E. lia.
  - destruct (split_line (drop_nl l)) as [line rest']. discriminate.
Qed.

(* ------------------------------------------------------------------ *)
(* 4. the whole stream                                                  *)
(* ------------------------------------------------------------------ *)
Definition item_strings (i : item) : list (list N) :=
  match i with IOk r => rec_strings r | IErr _ => [] end.

Lemma recs_strings_items its :
  flat_map rec_strings (ok_records its) = flat_map item_strings its.
Proof.
  induction its as [|[r|e] its IH]; [reflexivity| |].
  - unfold ok_records in *. cbn [flat_map app item_strings]. rewrite IH. reflexivity.
  - unfold ok_records in *. cbn [flat_map app item_strings]. exact IH.
Qed.

Theorem items_strings_bound b : (sumlen (flat_map item_strings (items b)) <= length b)%nat.
Proof.
  remember (length b) as n eqn:En. revert b En. induction n as [n IH] using lt_wf_ind. intros b En.
  destruct b as [|x xs]; [rewrite items_nil; cbn [flat_map sumlen]; lia|].
  rewrite items_cons by discriminate. cbn [flat_map]. rewrite sumlen_app.
  pose proof (parse_record_progress (x :: xs) ltac:(discriminate)) as Hp.
  destruct (parse_record (x :: xs)) as [it rest] eqn:E. cbn [fst snd] in *.
  specialize (IH (length rest) ltac:(subst n; exact Hp) rest eq_refl).
  destruct it as [r|e]; cbn [item_strings].
  - apply parse_record_cost in E. unfold rec_cost in E. lia.
  - cbn [sumlen]. lia.
Qed.

(* (2) the inserted strings of a parsed mapping fit into the file *)
Theorem recs_strings_bound b : (sumlen (flat_map rec_strings (recs b)) <= length b)%nat.
Proof. unfold recs. rewrite recs_strings_items. apply items_strings_bound. Qed.
Print Assumptions recs_strings_bound.

(* ------------------------------------------------------------------ *)
(* 5. the size condition from the file length                           *)
(* ------------------------------------------------------------------ *)
(* (3) the string section is at most twice the mapping file *)
Theorem strings_le_twice_input b : lenN (cs_strings (write_struct (recs b))) <= 2 * lenN b.
Proof.
  pose proof (strings_le_twice_components (recs b)). pose proof (recs_strings_bound b).
  unfold lenN. lia.
Qed.
Print Assumptions strings_le_twice_input.

Theorem strings_bounded b : lenN b < 2147483648 -> lenN (cs_strings (write_struct (recs b))) < U32.
Proof. intros Hb. pose proof (strings_le_twice_input b). unfold U32. lia. Qed.

(* the main theorem: 2^31 bytes (2 GiB) *)
Theorem sizes_ok_of_length : forall b : list N, lenN b < 2147483648 (* 2^31 *) -> sizes_ok (recs b) = true.
Proof.
  intros b Hb. unfold sizes_ok. cbv zeta.
  pose proof (strings_bounded b Hb) as H0.
  destruct (write_counts_bounded b ltac:(unfold U32; lia)) as (H1 & H2 & H3).
  apply N.ltb_lt in H0, H1, H2, H3. rewrite H0, H1, H2, H3. reflexivity.
Qed.
Print Assumptions sizes_ok_of_length.

(* the statement as requested: 2^27 bytes (128 MiB) *)
Corollary sizes_ok_of_length_128MiB : forall b : list N, lenN b < 134217728 -> sizes_ok (recs b) = true.
Proof. intros b Hb. apply sizes_ok_of_length. lia. Qed.
Print Assumptions sizes_ok_of_length_128MiB.

(* ------------------------------------------------------------------ *)
(* 6. the cache theorems at input level                                 *)
(* ------------------------------------------------------------------ *)
Theorem cache_class_bytes : forall b, lenN b < 2147483648 -> simple_ok (recs b) = true ->
  forall c, c_remap_class (C (recs b)) c = Sclass (recs b) c.
Proof. intros b Hb Hs. exact (cache_class (recs b) (dom32_recs_simple b Hs) (sizes_ok_of_length b Hb)). Qed.
Print Assumptions cache_class_bytes.

Theorem cache_method_bytes : forall b, lenN b < 2147483648 -> simple_ok (recs b) = true ->
  forall c m, c_remap_method (C (recs b)) c m = Smethod (recs b) c m.
Proof. intros b Hb Hs. exact (cache_method (recs b) (dom32_recs_simple b Hs) (sizes_ok_of_length b Hb)). Qed.
Print Assumptions cache_method_bytes.

Theorem cache_lines_bytes : forall b, lenN b < 2147483648 -> simple_ok (recs b) = true ->
  forall c m line file, c_remap_frame_lines (C (recs b)) c m line file = Sline (recs b) c m line file.
Proof. intros b Hb Hs. exact (cache_lines (recs b) (dom32_recs_simple b Hs) (sizes_ok_of_length b Hb)). Qed.
Print Assumptions cache_lines_bytes.

Theorem cache_params_bytes : forall b, lenN b < 2147483648 -> simple_ok (recs b) = true ->
  forall c m p, c_remap_frame_params (C (recs b)) c m p = Sparams (recs b) c m p.
Proof. intros b Hb Hs. exact (cache_params (recs b) (dom32_recs_simple b Hs) (sizes_ok_of_length b Hb)). Qed.
Print Assumptions cache_params_bytes.

Theorem struct_wf_bytes : forall b, lenN b < 2147483648 -> simple_ok (recs b) = true ->
  struct_wf (write_struct (recs b)) = true.
Proof. intros b Hb Hs. exact (cache_struct_wf (recs b) (dom32_recs_simple b Hs) (sizes_ok_of_length b Hb)). Qed.

(* the written cache parses back to the structure the theorems above speak about *)
Theorem parse_write_bytes : forall b, lenN b < 2147483648 -> simple_ok (recs b) = true ->
  parse (write_bytes b) = POk (C (recs b)).
Proof.
  intros b Hb Hs. unfold write_bytes, write, C. apply parse_ser. apply struct_wf_bytes; assumption.
Qed.
Print Assumptions parse_write_bytes.

(* cache and mapper agree on text and typed traces *)
Theorem C02_text_len b ix : lenN b < 2147483648 -> simple_ok (recs b) = true -> forall input,
  remap_text (c_remap_class (C (recs b))) (c_remap_frame_lines (C (recs b))) input
  = remap_text (m_remap_class (build ix (recs b)))
               (fun c m l f => frames_of (m_remap_frame_lines (build ix (recs b)) c m l f)) input.
Proof. intros Hb Hs. exact (C02_text_bytes b ix Hs (sizes_ok_of_length b Hb)). Qed.
Print Assumptions C02_text_len.

Theorem C02_typed_len b ix : lenN b < 2147483648 -> simple_ok (recs b) = true -> forall t,
  remap_typed (c_remap_class (C (recs b))) (c_remap_frame_lines (C (recs b))) t
  = remap_typed (m_remap_class (build ix (recs b)))
                (fun c m l f => frames_of (m_remap_frame_lines (build ix (recs b)) c m l f)) t.
Proof. intros Hb Hs. exact (C02_typed_bytes b ix Hs (sizes_ok_of_length b Hb)). Qed.
Print Assumptions C02_typed_len.

(* ------------------------------------------------------------------ *)
(* 7. examples                                                          *)
(* ------------------------------------------------------------------ *)
Module Examples.
  Definition input := BridgeUtf8.Examples.input.

  (* the hypotheses hold on a non-trivial mapping file (header, class, sourceFile, method with an outer
     class, an error line, a field) *)
  Example hyps_ex : lenN input < 2147483648 /\ lenN input < 134217728 /\ simple_ok (recs input) = true.
  Proof. vm_compute. repeat split; reflexivity. Qed.

  Example sizes_ex : sizes_ok (recs input) = true.
  Proof. apply sizes_ok_of_length. vm_compute. reflexivity. Qed.

  (* the quantities of the proof on this input: 131 bytes of input, 19 bytes of inserted components,
     26 bytes of string section *)
  Example numbers_ex :
    length input = 131%nat /\ sumlen (flat_map rec_strings (recs input)) = 19%nat /\
    length (cs_strings (write_struct (recs input))) = 26%nat.
  Proof. vm_compute. repeat split; reflexivity. Qed.

  Example parse_ex : parse (write_bytes input) = POk (C (recs input)).
  Proof. apply parse_write_bytes; vm_compute; reflexivity. Qed.

  Example lines_ex : forall c m line file,
    c_remap_frame_lines (C (recs input)) c m line file = Sline (recs input) c m line file.
  Proof. apply cache_lines_bytes; vm_compute; reflexivity. Qed.

  (* the per-record bound is tight: a class line  "o -> b:"  consumes 7 bytes for 2 component bytes;
     the string section adds one length byte per inserted string *)
  Example class_line_ex :
    let b := [111; 32;45;62;32; 98; 58] in
    recs b = [RClass [111] [98]] /\ cs_strings (write_struct (recs b)) = [1; 98; 1; 111].
  Proof. vm_compute. split; reflexivity. Qed.

  (* the string section can be LONGER than the mapping file (two names of 2^14 bytes need 3 length
     bytes each, the class line has only 5 bytes of punctuation): a bound  |file| < 2^32  alone would not
     do, some slack below 2^32 is necessary *)
  Definition big_class_line : list N :=
    repeat 97 (N.to_nat 16384) ++ [32;45;62;32] ++ repeat 98 (N.to_nat 16384) ++ [58].
  Example strings_exceed_input :
    lenN big_class_line = 32773 /\ lenN (cs_strings (write_struct (recs big_class_line))) = 32774.
  Proof.
    split; [vm_compute; reflexivity|].
    destruct (write_struct_eq (recs big_class_line)) as (_ & _ & _ & E & _). cbv zeta in E. rewrite E.
    unfold stab_bytes, lenN. rewrite rev_length.   (* List.rev is quadratic under vm_compute *)
    vm_compute. reflexivity.
  Qed.

  (* the factor between string section and components exceeds 1: no bound of the form
     |strings| <= |components| holds, the LEB128 prefixes are extra *)
  Example leb_lengths : length (leb128 127) = 1%nat /\ length (leb128 128) = 2%nat /\
    length (leb128 4294967295) = 5%nat /\ length (leb128 MAX64) = 10%nat.
  Proof. vm_compute. repeat split; reflexivity. Qed.
End Examples.
