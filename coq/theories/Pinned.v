(* Pinned.v — the seven repaired defects F1..F7, replayed in the model.

   The Gallina model (Mapping.v, Mapper.v, CacheWriter.v, CacheReader.v, Stacktrace.v, Sink.v)
   describes the CURRENT code of /repo/src.  That code was repaired from the upstream snapshot
   (git f3fcb84) by seven "fix:" commits.  For every repaired model function this file defines,
   next to it, the PINNED variant: the function exactly as the snapshot's code behaved.  For
   every defect it proves

     Fi_refuted : exists input, <the property instance holds for the current model>
                             /\ <the pinned variant violates it>

   on the replay input of the finding (everything by [vm_compute]), and where cheap a
   coincidence lemma: pinned = current outside the defect's trigger condition.

   fix commit   defect  property   pinned definitions
   21182e1      F1      C02/C03/C09  flatten_pinned, write_struct_pinned
   daaa8ed      F2      C06          parse_header_pinned .. recs_pinned
   a9ed7b0      F3      C08          remap_typed_pinned
   fa2dca8      F4      C13          m_with_lines_pinned, m_remap_frame_lines_pinned
   18f25f7      F5      C12/C13      c_with_lines_pinned, c_remap_frame_lines_pinned
   f539fbc      F6      C15          write_once, run_sink_pinned (and run_sink_snapshot)
   16d74b4      F7      C01/C02      wstep_pinned, write_struct_pinned7 *)
From Coq Require Import String Ascii.
From Coq Require Import Lia.
From PG Require Import Base Mapping Spec Mapper CacheWriter CacheReader CacheStructDefs Stacktrace Sink Domain.
From PG Require Import MappingProofs IsolationProofs MapperProofs RemapProofs SinkProofs.
From PG Require Layout.
From PG Require Export PinnedModel.

(* ---- readable byte strings -------------------------------------------------------------- *)
Definition s2b (s : string) : list N := map N_of_ascii (list_ascii_of_string s).
(* a line: the text followed by LF *)
Definition ln (s : string) : list N := s2b s ++ [10].

Example s2b_ex : s2b "A -> a:" = [65;32;45;62;32;97;58] /\ ln "" = [10].
Proof. vm_compute. split; reflexivity. Qed.

Ltac vmr := vm_compute; reflexivity.
Ltac vmd := let H := fresh "H" in intro H; vm_compute in H; discriminate H.

Lemma wrun_with_current : forall rs st, wrun_with wstep st rs = wrun st rs.
Proof. induction rs as [|r rest IH]; intros st; cbn [wrun_with wrun]; [reflexivity|apply IH]. Qed.

Lemma write_struct_with_current : forall rs, write_struct_with wstep flatten rs = write_struct rs.
Proof. intros rs. unfold write_struct_with, write_struct. rewrite wrun_with_current. reflexivity. Qed.

(* ========================================================================================== *)
Section F1.
(* F1 — src/cache/raw.rs, ProguardCache::write, loop over classes.into_values()
     snapshot:  c.class.members_by_params_offset = members.len() as u32;
     repaired:  c.class.members_by_params_offset = members_by_params.len() as u32;          *)

(* replay input: class A has 3 members but 2 by-params entries (f1 is an inlined callee),
   so class B's by-params range starts at 2; the snapshot stored 3 *)
Definition map1 : list N :=
  ln "A -> a:" ++
  ln "    1:1:void f1():10:10 -> m" ++
  ln "    1:1:void f2():20 -> m" ++
  ln "    void g(int) -> n" ++
  ln "B -> b:" ++
  ln "    void h(int) -> p".
Definition rs1 : list record := recs map1.

Example F1_witness_shape :
  length rs1 = 6%nat /\
  map c_poff (cs_classes (write_struct rs1)) = [0; 2] /\
  map c_poff (cs_classes (write_struct_pinned rs1)) = [0; 3] /\
  map c_moff (cs_classes (write_struct_pinned rs1)) = [0; 3] /\
  lenN (cs_byparams (write_struct_pinned rs1)) = 3.
Proof. vm_compute. repeat split; reflexivity. Qed.

(* C02/C03 (cache_params: the cache answers a by-params query like the specification) *)
Theorem F1_refuted : exists rs c m p,
  dom32 rs = true /\ sizes_ok rs = true /\
  c_remap_frame_params (cache_of_struct (write_struct rs)) c m p = Sparams rs c m p /\
  c_remap_frame_params (cache_of_struct (write_struct_pinned rs)) c m p <> Sparams rs c m p.
Proof.
  exists rs1, (s2b "b"), (s2b "p"), (s2b "int").
  split; [vmr|]. split; [vmr|]. split; [vmr|vmd].
Qed.
Print Assumptions F1_refuted.

(* the concrete answers *)
Example F1_answers :
  Sparams rs1 (s2b "b") (s2b "p") (s2b "int") = [(s2b "B", s2b "h")] /\
  m_remap_frame_params (build true rs1) (s2b "b") (s2b "p") (s2b "int") = [(s2b "B", s2b "h")] /\
  c_remap_frame_params (cache_of_struct (write_struct rs1)) (s2b "b") (s2b "p") (s2b "int") = [(s2b "B", s2b "h")] /\
  c_remap_frame_params (cache_of_struct (write_struct_pinned rs1)) (s2b "b") (s2b "p") (s2b "int") = [].
Proof. vm_compute. repeat split; reflexivity. Qed.

(* the pinned bytes are still accepted by the reader, and read back to the pinned structure:
   the wrong answer is given through the byte level as well *)
Example F1_through_bytes :
  parse (ser (write_struct_pinned rs1)) = POk (cache_of_struct (write_struct_pinned rs1)).
Proof. vmr. Qed.

(* C09 (the independent layout decoder accepts every written file): the by-params ranges of
   the pinned file do not tile the section *)
Theorem F1_layout_refuted : exists rs,
  dom32 rs = true /\ sizes_ok rs = true /\
  Layout.layout_ok (ser (write_struct rs)) = true /\
  Layout.layout_ok (ser (write_struct_pinned rs)) = false.
Proof. exists rs1. split; [vmr|]. split; [vmr|]. split; vmr. Qed.
Print Assumptions F1_layout_refuted.

Example F1_tiling_clause :
  let cls s := map class_words (cs_classes s) in
  Layout.tiles 5 6 0 (cls (write_struct rs1)) = Some 3 /\
  Layout.tiles 5 6 0 (cls (write_struct_pinned rs1)) = None /\
  Layout.tiles 3 4 0 (cls (write_struct_pinned rs1)) = Some 4.
Proof. vm_compute. repeat split; reflexivity. Qed.

(* coincidence: no difference when every class has as many by-params entries as members
   (and the two running offsets start equal) *)
Definition balanced (c : list N * cip) : Prop :=
  lenN (flat_map snd (cip_members (snd c))) = lenN (flat_map snd (cip_byparams (snd c))).

Lemma flatten_pinned_coincides : forall cs n,
  Forall balanced cs -> flatten_pinned cs n n = flatten cs n n.
Proof.
  induction cs as [|[k c] r IH]; intros n H; [reflexivity|].
  inversion H as [|x l Hc Hr]; subst x l. unfold balanced in Hc. cbn [snd] in Hc.
  cbn [flatten_pinned flatten]. rewrite <- Hc. rewrite (IH _ Hr). reflexivity.
Qed.

Lemma write_struct_pinned_coincides : forall rs,
  Forall balanced (flush (wrun wstate_init rs)) -> write_struct_pinned rs = write_struct rs.
Proof.
  intros rs H. unfold write_struct_pinned, write_struct_with, write_struct.
  rewrite wrun_with_current. rewrite (flatten_pinned_coincides _ 0 H). reflexivity.
Qed.

Example F1_coincides_ex :
  let rs := recs (ln "A -> a:" ++ ln "    void g(int) -> n" ++ ln "B -> b:" ++ ln "    void h(int) -> p") in
  write_struct_pinned rs = write_struct rs /\ length (cs_classes (write_struct rs)) = 2%nat.
Proof. vm_compute. split; reflexivity. Qed.
End F1.

(* ========================================================================================== *)
Section F2.
(* F2 — src/mapping.rs, parse_proguard_header
     snapshot:  let (value, bytes) = parse_until(bytes, |c| *c == b'"')?;
     repaired:  let (value, bytes) = parse_until_no_newline(bytes, |c| *c == b'"')?;        *)

(* replay input: an unterminated sourceFile header, closed by a quote three lines later *)
Definition A2 : list N := s2b "# {""id"":""sourceFile"",""fileName"":""abc".
Definition B2 : list N := ln "def -> g:" ++ ln "    void f() -> m""}" ++ s2b "x -> y:".
Definition W2 : list N := A2 ++ [10] ++ B2.
(* the header value the snapshot yields: it spans three lines *)
Definition v2 : list N := s2b "abc" ++ [10] ++ s2b "def -> g:" ++ [10] ++ s2b "    void f() -> m".

Example F2_witness_records :
  recs_pinned W2 = [RHeader source_file (Some v2); RClass (s2b "x") (s2b "y")] /\
  recs W2 = [RClass (s2b "def") (s2b "g");
             RMethod (s2b "void") (s2b "f") (s2b "m""}") [] None None;
             RClass (s2b "x") (s2b "y")] /\
  items W2 = IErr (A2 ++ [10]) :: map IOk (recs W2).
Proof. vm_compute. repeat split; reflexivity. Qed.

(* C06_no_terminator *)
Theorem F2_refuted_no_terminator : exists (b : list N) (r : record),
  (forall r', In (IOk r') (items b) -> Forall nlfree (record_strings r')) /\
  In (IOk r) (items_pinned b) /\ ~ Forall nlfree (record_strings r).
Proof.
  exists W2, (RHeader source_file (Some v2)).
  split; [intros r'; apply items_no_terminator|].
  split; [vm_compute; left; reflexivity|].
  intros H. rewrite Forall_forall in H.
  specialize (H v2 (or_intror (or_introl eq_refl))). vm_compute in H. discriminate H.
Qed.
Print Assumptions F2_refuted_no_terminator.

(* C06_isolation: a bad line affects only itself *)
Theorem F2_refuted_isolation : exists (A B nl : list N),
  In nl [[10]; [13]; [13;10]] /\
  recs (A ++ nl ++ B) = recs A ++ recs B /\
  recs_pinned (A ++ nl ++ B) <> recs_pinned A ++ recs_pinned B.
Proof.
  exists A2, B2, [10].
  split; [left; reflexivity|]. split; [vmr|vmd].
Qed.
Print Assumptions F2_refuted_isolation.

Example F2_split_sides :
  recs_pinned A2 = [] /\ recs_pinned B2 = recs B2 /\ length (recs B2) = 3%nat.
Proof. vm_compute. repeat split; reflexivity. Qed.

(* coincidence: whenever the repaired header parser succeeds (in particular: the value has
   no line terminator before its closing quote), the snapshot parser gave the same result *)
Lemma span_nl_or : forall (p : N -> bool) l a b,
  span (fun c => is_nl c || p c) l = (a, b) -> head_is_nl b = false -> span p l = (a, b).
Proof.
  intros p. induction l as [|x xs IH]; intros a b H Hb.
  - cbn [span] in *. exact H.
  - cbn [span] in *. destruct (is_nl x) eqn:En.
    + cbn [orb] in H. inversion H; subst a b. cbn [head_is_nl] in Hb. rewrite En in Hb. discriminate Hb.
    + cbn [orb] in H. destruct (p x) eqn:Ep; [exact H|].
      destruct (span (fun c => is_nl c || p c) xs) as [a' b'] eqn:E.
      inversion H; subst a b. rewrite (IH a' b' eq_refl Hb). reflexivity.
Qed.

Lemma punn_parse_until : forall (p : N -> bool) l a b,
  parse_until_no_newline p l = Some (a, b) -> parse_until p l = Some (a, b).
Proof.
  intros p l a b H. unfold parse_until_no_newline in H.
  bind_some H as [a' b'] E. destruct (head_is_nl b') eqn:Hh; [discriminate H|].
  inversion H; subst a' b'. unfold parse_until in *.
  destruct (span (fun c => is_nl c || p c) l) as [a1 b1] eqn:Es.
  destruct (utf8_valid a1) eqn:Eu; [|discriminate E]. inversion E; subst a1 b1.
  rewrite (span_nl_or p l a b Es Hh). rewrite Eu. reflexivity.
Qed.

Lemma parse_header_pinned_coincides : forall l x,
  parse_header l = Some x -> parse_header_pinned l = Some x.
Proof.
  intros l x H. unfold parse_header in H. unfold parse_header_pinned.
  destruct (strip_prefix [35] l) as [l1|]; [|discriminate H]. cbn [bind] in *.
  destruct (strip_prefix source_file_prefix l1) as [l2|]; [|exact H].
  bind_some H as [v l3] E. rewrite (punn_parse_until _ _ _ _ E). cbn [bind]. exact H.
Qed.

Example F2_coincides_ex :
  let l := ln "# {""id"":""sourceFile"",""fileName"":""Foo.kt""}" in
  parse_header l = Some (RHeader source_file (Some (s2b "Foo.kt")), []) /\
  parse_header_pinned l = parse_header l.
Proof. vm_compute. split; reflexivity. Qed.
End F2.

(* ========================================================================================== *)
Section F3.
(* F3 — src/mapper.rs and src/cache/mod.rs, remap_stacktrace_typed
     snapshot:  let exception = trace.exception.as_ref().and_then(|t| self.remap_throwable(t));
     repaired:  let exception = trace.exception.as_ref()
                                 .map(|t| self.remap_throwable(t).unwrap_or_else(|| t.clone()));  *)

(* Stacktrace.remap_typed with the one change *)
Fixpoint remap_typed_pinned (rc : list N -> option (list N))
  (rf : list N -> list N -> N -> option (list N) -> list (list N * list N * option (list N) * N))
  (t : trace) : trace :=
  match t with
  | Trace exc frames cause =>
      Trace (bind exc (remap_throwable rc))                              (* PINNED: and_then *)
            (flat_map (fun f => match do_frame rf f with [] => [f] | fs => fs end) frames)
            (option_map (remap_typed_pinned rc rf) cause)
  end.

(* the two lookups, backed by a mapper *)
Definition rs3 : list record := recs (ln "A -> a:" ++ ln "    1:1:void f():10:10 -> m").
Definition rc3 (c : list N) : option (list N) := m_remap_class (build false rs3) c.
Definition rf3 (c m : list N) (line : N) (file : option (list N)) :=
  match m_remap_frame_lines (build false rs3) c m line file with Ok fs => fs | Panic => [] end.

(* replay input: the exception's class is not part of the mapping, the frame's class is *)
Definition t3 : trace :=
  Trace (Some (s2b "x.Unknown", Some (s2b "boom"))) [(s2b "a", s2b "m", Some (s2b "SF.java"), 1)] None.

Example F3_witness_text :
  print_trace t3 = ln "x.Unknown: boom" ++ ln "    at a.m(SF.java:1)" /\
  remap_text rc3 rf3 (print_trace t3) = ln "x.Unknown: boom" ++ ln "    at A.f(SF.java:10)" /\
  print_trace (remap_typed rc3 rf3 t3) = ln "x.Unknown: boom" ++ ln "    at A.f(SF.java:10)" /\
  print_trace (remap_typed_pinned rc3 rf3 t3) = ln "    at A.f(SF.java:10)".
Proof. vm_compute. repeat split; reflexivity. Qed.

(* C08_node_by_node (nothing is dropped) and C08_typed_print_is_text *)
Theorem F3_refuted : exists rc rf t,
  canonicalb t = true /\
  (* current model *)
  nodes (remap_typed rc rf t) =
    map (fun '(e, fs) =>
           (option_map (fun e => match remap_throwable rc e with Some e' => e' | None => e end) e,
            flat_map (fun f => match do_frame rf f with [] => [f] | fs' => fs' end) fs))
        (nodes t) /\
  print_trace (remap_typed rc rf t) = remap_text rc rf (print_trace t) /\
  (* pinned variant *)
  nodes (remap_typed_pinned rc rf t) <>
    map (fun '(e, fs) =>
           (option_map (fun e => match remap_throwable rc e with Some e' => e' | None => e end) e,
            flat_map (fun f => match do_frame rf f with [] => [f] | fs' => fs' end) fs))
        (nodes t) /\
  print_trace (remap_typed_pinned rc rf t) <> remap_text rc rf (print_trace t).
Proof.
  exists rc3, rf3, t3.
  split; [vmr|]. split; [vmr|]. split; [vmr|]. split; vmd.
Qed.
Print Assumptions F3_refuted.

(* the exception is dropped: None where the input had Some *)
Example F3_dropped :
  map fst (nodes t3) = [Some (s2b "x.Unknown", Some (s2b "boom"))] /\
  map fst (nodes (remap_typed rc3 rf3 t3)) = [Some (s2b "x.Unknown", Some (s2b "boom"))] /\
  map fst (nodes (remap_typed_pinned rc3 rf3 t3)) = [None].
Proof. vm_compute. repeat split; reflexivity. Qed.

(* the same in a cause: the "Caused by:" throwable disappears *)
Example F3_dropped_in_cause :
  let t := Trace (Some (s2b "a", None)) [] (Some t3) in
  canonicalb t = true /\
  map fst (nodes (remap_typed_pinned rc3 rf3 t)) = [Some (s2b "A", None); None] /\
  map fst (nodes (remap_typed rc3 rf3 t)) = [Some (s2b "A", None); Some (s2b "x.Unknown", Some (s2b "boom"))].
Proof. vm_compute. repeat split; reflexivity. Qed.

(* coincidence: no difference when the class of every exception of the trace is known *)
Definition exc_known (rc : list N -> option (list N)) (n : option (list N * option (list N)) * list (list N * list N * option (list N) * N)) : Prop :=
  match fst n with Some e => rc (fst e) <> None | None => True end.

Lemma remap_typed_pinned_coincides : forall rc rf t,
  Forall (exc_known rc) (nodes t) -> remap_typed_pinned rc rf t = remap_typed rc rf t.
Proof.
  intros rc rf t. induction t as [e fs|e fs c IH] using trace_ind'; intros H;
    cbn [nodes] in H; inversion H as [|x l He Hr]; subst x l;
    unfold exc_known in He; cbn [fst] in He;
    cbn [remap_typed_pinned remap_typed option_map].
  - f_equal. destruct e as [e|]; [|reflexivity]. cbn [bind option_map].
    unfold remap_throwable in *. destruct (rc (fst e)); [reflexivity|contradiction He; reflexivity].
  - rewrite (IH Hr). f_equal. destruct e as [e|]; [|reflexivity]. cbn [bind option_map].
    unfold remap_throwable in *. destruct (rc (fst e)); [reflexivity|contradiction He; reflexivity].
Qed.

Example F3_coincides_ex :
  let t := Trace (Some (s2b "a", Some (s2b "boom"))) [(s2b "a", s2b "m", None, 1)] None in
  Forall (exc_known rc3) (nodes t) /\ remap_typed_pinned rc3 rf3 t = remap_typed rc3 rf3 t.
Proof.
  split; [|vmr]. constructor; [|constructor]. unfold exc_known. vm_compute. discriminate.
Qed.
End F3.

(* ========================================================================================== *)
Section F4.
(* F4 — src/mapper.rs, iterate_with_lines (usize arithmetic, overflow-checked build)
     snapshot:  member.original_startline + frame.line - member.startline
     repaired:  member.original_startline.saturating_add(frame.line - member.startline)     *)

(* Mapper.m_with_lines with the one change: (os + line) - start, each operation checked *)
Fixpoint m_with_lines_pinned (fclass : list N) (ffile : option (list N)) (line : N) (ms : list member_mapping)
  : outcome (list (list N * list N * option (list N) * N)) :=
  match ms with
  | [] => Ok []
  | mm :: rest =>
    if (0 <? mm_end mm) && ((line <? mm_start mm) || (mm_end mm <? line)) then m_with_lines_pinned fclass ffile line rest
    else
      let lineo : outcome N :=
        match mm_oe mm with
        | None => Ok (mm_os mm)
        | Some oe => if oe =? mm_os mm then Ok (mm_os mm)
                     else if (U64 <=? mm_os mm + line) || (mm_os mm + line <? mm_start mm) then Panic   (* PINNED *)
                     else Ok (mm_os mm + line - mm_start mm)
        end in
      match lineo with
      | Panic => Panic
      | Ok ln =>
        let cls := match mm_ocls mm with Some k => k | None => fclass end in
        let fl := match mm_ofile mm with
                  | Some f => if str_eqb f synthetic then Some (outer_simple_name cls) else Some f
                  | None => match mm_ocls mm with Some _ => None | None => ffile end
                  end in
        match m_with_lines_pinned fclass ffile line rest with
        | Panic => Panic
        | Ok fs => Ok ((cls, mm_orig mm, fl, ln) :: fs)
        end
      end
  end.

Definition m_remap_frame_lines_pinned (m : list (list N * class_mapping)) (c meth : list N) (line : N)
  (file : option (list N)) : outcome (list (list N * list N * option (list N) * N)) :=
  match assoc_get c m with
  | None => Ok []
  | Some cls =>
    match assoc_get meth (cl_members cls) with
    | None => Ok []
    | Some ms => m_with_lines_pinned (cl_orig cls) file line (cm_all ms)
    end
  end.

(* replay input: original start line usize::MAX; for frame line 2 the sum overflows *)
Definition map4 : list N := ln "A -> a:" ++ ln "    1:2:void f():18446744073709551615:3 -> m".

(* C13_mapper_never_panics *)
Theorem F4_refuted : exists ix (b : list N) c m line file,
  (exists fs, m_remap_frame_lines (build ix (recs b)) c m line file = Ok fs) /\
  m_remap_frame_lines_pinned (build ix (recs b)) c m line file = Panic.
Proof.
  exists true, map4, (s2b "a"), (s2b "m"), 2, None.
  split; [eexists; vmr|vmr].
Qed.
Print Assumptions F4_refuted.

Corollary F4_refuted_universal :
  ~ (forall ix (b : list N) c m line file,
       exists fs, m_remap_frame_lines_pinned (build ix (recs b)) c m line file = Ok fs).
Proof.
  intros H. destruct F4_refuted as [ix [b [c [m [line [file [_ Hp]]]]]]].
  destruct (H ix b c m line file) as [fs Hfs]. rewrite Hp in Hfs. discriminate Hfs.
Qed.

(* the repaired answer saturates at usize::MAX; the snapshot overflows for line 1 as well
   (usize::MAX + 1), although the exact result usize::MAX + 1 - 1 would fit *)
Example F4_answers :
  m_remap_frame_lines (build true (recs map4)) (s2b "a") (s2b "m") 2 None = Ok [(s2b "A", s2b "f", None, MAX64)] /\
  Sline (recs map4) (s2b "a") (s2b "m") 2 None = [(s2b "A", s2b "f", None, MAX64)] /\
  m_remap_frame_lines (build true (recs map4)) (s2b "a") (s2b "m") 1 None = Ok [(s2b "A", s2b "f", None, MAX64)] /\
  m_remap_frame_lines_pinned (build true (recs map4)) (s2b "a") (s2b "m") 1 None = Panic /\
  m_remap_frame_lines_pinned (build false (recs map4)) (s2b "a") (s2b "m") 2 None = Panic.
Proof. vm_compute. repeat split; reflexivity. Qed.

(* coincidence: no difference when, for every member, the frame line is not below the start
   line and original start + frame line fits usize *)
Definition line_fits (line : N) (mm : member_mapping) : Prop :=
  mm_start mm <= line /\ mm_os mm + line < U64.

Lemma m_with_lines_pinned_coincides : forall fclass ffile line ms,
  Forall (line_fits line) ms ->
  m_with_lines_pinned fclass ffile line ms = m_with_lines fclass ffile line ms.
Proof.
  intros fclass ffile line. induction ms as [|mm rest IH]; intros H; [reflexivity|].
  inversion H as [|x l [H1 H2] Hr]; subst x l.
  cbn [m_with_lines_pinned m_with_lines]. rewrite (IH Hr).
  destruct ((0 <? mm_end mm) && ((line <? mm_start mm) || (mm_end mm <? line))); [reflexivity|].
  destruct (mm_oe mm) as [oe|]; [|reflexivity].
  destruct (oe =? mm_os mm); [reflexivity|].
  replace (U64 <=? mm_os mm + line) with false by (symmetry; apply N.leb_gt; exact H2).
  replace (mm_os mm + line <? mm_start mm) with false by (symmetry; apply N.ltb_ge; lia).
  replace (line <? mm_start mm) with false by (symmetry; apply N.ltb_ge; exact H1).
  cbn [orb].
  replace (N.min MAX64 (mm_os mm + (line - mm_start mm))) with (mm_os mm + line - mm_start mm); [reflexivity|].
  unfold U64 in H2. unfold MAX64. rewrite N.min_r by lia. lia.
Qed.

Example F4_coincides_ex :
  let ms := [{| mm_start := 1; mm_end := 2; mm_ocls := None; mm_ofile := None; mm_orig := s2b "f";
                mm_os := 10; mm_oe := Some 11 |}] in
  Forall (line_fits 2) ms /\ m_with_lines [65] None 2 ms = Ok [([65], s2b "f", None, 11)].
Proof. split; [|vmr]. constructor; [|constructor]. unfold line_fits, U64. cbn [mm_start mm_os]. lia. Qed.
End F4.

(* ========================================================================================== *)
Section F5.
(* F5 — src/cache/mod.rs, iterate_with_lines (u32 fields widened to usize, unchecked)
     snapshot:  member.original_startline as usize + frame.line - member.startline as usize
     repaired:  frame.line.checked_sub(member.startline as usize)
                     .and_then(|offset| offset.checked_add(member.original_startline as usize))
                else { continue }                                                          *)

(* CacheReader.c_with_lines with the one change; the result needs an [outcome] now *)
Fixpoint c_with_lines_pinned (c : cache) (fclass : list N) (ffile : option (list N)) (line : N) (ms : list (list N))
  : outcome (list (list N * list N * option (list N) * N)) :=
  match ms with
  | [] => Ok []
  | m :: rest =>
    let continue_ := c_with_lines_pinned c fclass ffile line rest in
    let startl := w m 1 in let endl := w m 2 in let os := w m 6 in let oe := w m 7 in
    if (0 <? endl) && ((line <? startl) || (endl <? line)) then continue_
    else
      let lineo : outcome N :=
        if (oe =? MAX32) || (oe =? os) then Ok os
        else if (U64 <=? os + line) || (os + line <? startl) then Panic           (* PINNED *)
        else Ok (os + line - startl) in
      match lineo with
      | Panic => Panic
      | Ok ln =>
        let cls := match read_string (k_strings c) (w m 3) with Some s => s | None => fclass end in
        let fileo : option (option (list N)) :=
          if negb (w m 4 =? MAX32) then
            match read_string (k_strings c) (w m 4) with
            | None => None
            | Some fname => if str_eqb fname synthetic then Some (Some (outer_simple_name cls))
                            else Some (Some fname)
            end
          else if negb (w m 3 =? MAX32) then Some None else Some ffile in
        match fileo with
        | None => continue_
        | Some fl =>
          match read_string (k_strings c) (w m 5) with
          | None => continue_
          | Some meth => match continue_ with
                         | Panic => Panic
                         | Ok fs => Ok ((cls, meth, fl, ln) :: fs)
                         end
          end
        end
      end
  end.

Definition c_remap_frame_lines_pinned (c : cache) (cls m : list N) (line : N) (file : option (list N))
  : outcome (list (list N * list N * option (list N) * N)) :=
  match get_class c cls with
  | None => Ok []
  | Some cl =>
    match read_string (k_strings c) (w cl 1) with
    | None => Ok []
    | Some oc =>
      match slice (k_members c) (w cl 3) (w cl 4) with
      | None => Ok []
      | Some ms =>
        match find_range (fun r => cmp_str (k_strings c) (w r 0) m) [] ms with
        | None => Ok []
        | Some rng => c_with_lines_pinned c oc file line rng
        end
      end
    end
  end.

(* replay input 1 (C12, a corrupted file): the cache of `5:7:void f():1:9 -> m` whose member's
   end line word was overwritten by 0: start = 5, end = 0, original 1..9 *)
Definition zero_end (m : member) : member :=
  {| m_obf := m_obf m; m_start := m_start m; m_end := 0; m_ocls := m_ocls m; m_ofile := m_ofile m;
     m_oname := m_oname m; m_os := m_os m; m_oe := m_oe m; m_params := m_params m |}.
Definition s5 : cache_struct :=
  let s := write_struct (recs (ln "A -> a:" ++ ln "    5:7:void f():1:9 -> m")) in
  {| cs_num_members := cs_num_members s; cs_num_byparams := cs_num_byparams s;
     cs_classes := cs_classes s; cs_members := map zero_end (cs_members s);
     cs_byparams := cs_byparams s; cs_strings := cs_strings s |}.
Definition buf5 : list N := ser s5.

Example F5_witness_shape :
  map (fun m => (m_start m, m_end m, m_os m, m_oe m)) (cs_members s5) = [(5, 0, 1, 9)] /\
  lenN buf5 = 144 /\ struct_wf s5 = true.
Proof. vm_compute. repeat split; reflexivity. Qed.

(* C12: no buffer accepted as a cache can make a query panic *)
Theorem F5_refuted_C12 : exists buf c cls m line file,
  parse buf = POk c /\
  c_remap_frame_lines c cls m line file = [] /\
  c_remap_frame_lines_pinned c cls m line file = Panic.
Proof.
  exists buf5, (cache_of_struct s5), (s2b "a"), (s2b "m"), 0, None.
  split; [vmr|]. split; vmr.
Qed.
Print Assumptions F5_refuted_C12.

(* replay input 2 (C13, a mapping file): end line 2^32 narrows to 0 in [member_lines] *)
Definition map5 : list N := ln "A -> a:" ++ ln "    5:4294967296:void f():1:9 -> m".

Theorem F5_refuted_C13 : exists (b : list N) c cls m line file,
  parse (write_bytes b) = POk c /\
  (* current: mapper and cache agree, the entry is skipped *)
  m_remap_frame_lines (build true (recs b)) cls m line file = Ok [] /\
  c_remap_frame_lines c cls m line file = [] /\
  (* pinned *)
  c_remap_frame_lines_pinned c cls m line file = Panic.
Proof.
  exists map5, (cache_of_struct (write_struct (recs map5))), (s2b "a"), (s2b "m"), 0, None.
  split; [vmr|]. split; [vmr|]. split; vmr.
Qed.
Print Assumptions F5_refuted_C13.

Example F5_narrowing :
  map (fun m => (m_start m, m_end m, m_os m, m_oe m)) (cs_members (write_struct (recs map5))) = [(5, 0, 1, 9)] /\
  dom32 (recs map5) = false.
Proof. vm_compute. split; reflexivity. Qed.

(* the other trigger: a frame line so large that original start + line overflows usize,
   although the exact result (line - start + original start) fits *)
Example F5_overflow :
  let k' := cache_of_struct s5 in
  c_remap_frame_lines_pinned k' (s2b "a") (s2b "m") MAX64 None = Panic /\
  c_remap_frame_lines k' (s2b "a") (s2b "m") MAX64 None = [(s2b "A", s2b "f", None, 18446744073709551611)] /\
  c_remap_frame_lines_pinned k' (s2b "a") (s2b "m") 6 None = Ok [(s2b "A", s2b "f", None, 2)] /\
  c_remap_frame_lines k' (s2b "a") (s2b "m") 6 None = [(s2b "A", s2b "f", None, 2)].
Proof. vm_compute. repeat split; reflexivity. Qed.

(* coincidence: no difference when, for every member, the frame line is not below the start
   line and original start + frame line fits usize *)
Definition cline_fits (line : N) (m : list N) : Prop := w m 1 <= line /\ w m 6 + line < U64.

Lemma c_with_lines_pinned_coincides : forall c fclass ffile line ms,
  Forall (cline_fits line) ms ->
  c_with_lines_pinned c fclass ffile line ms = Ok (c_with_lines c fclass ffile line ms).
Proof.
  intros c fclass ffile line. induction ms as [|m rest IH]; intros H; [reflexivity|].
  inversion H as [|x l [H1 H2] Hr]; subst x l.
  cbn [c_with_lines_pinned c_with_lines]. rewrite (IH Hr).
  destruct ((0 <? w m 2) && ((line <? w m 1) || (w m 2 <? line))); [reflexivity|].
  replace (U64 <=? w m 6 + line) with false by (symmetry; apply N.leb_gt; exact H2).
  replace (w m 6 + line <? w m 1) with false by (symmetry; apply N.ltb_ge; lia).
  replace (line <? w m 1) with false by (symmetry; apply N.ltb_ge; exact H1).
  replace (U64 <=? line - w m 1 + w m 6) with false by (symmetry; apply N.leb_gt; lia).
  replace (line - w m 1 + w m 6) with (w m 6 + line - w m 1) by lia.
  cbn [orb].
  destruct ((w m 7 =? MAX32) || (w m 7 =? w m 6));
    (destruct (negb (w m 4 =? MAX32));
     [destruct (read_string (k_strings c) (w m 4)) as [fname|]; [|reflexivity];
      destruct (str_eqb fname synthetic)
     |destruct (negb (w m 3 =? MAX32))]);
    destruct (read_string (k_strings c) (w m 5)); reflexivity.
Qed.

Example F5_coincides_ex :
  let k := cache_of_struct s5 in
  Forall (cline_fits 6) (k_members k) /\
  c_with_lines_pinned k [65] None 6 (k_members k) = Ok (c_with_lines k [65] None 6 (k_members k)) /\
  length (k_members k) = 1%nat.
Proof.
  split; [|split; vmr]. constructor; [|constructor]. unfold cline_fits, U64. vm_compute. split; [discriminate|reflexivity].
Qed.
End F5.

(* ========================================================================================== *)
Section F6.
(* F6 — src/cache/raw.rs, ProguardCache::write, with watto-0.1.0 src/writer.rs
     snapshot:  writer.write_all(header.as_bytes())?;  writer.align_to(8)?;   (and so on)
                where  Writer::align_to  ends in   self.write(&PADDING_BYTES[0..len])
                       Writer::write     is        let written = self.inner.write(buf)?;
                                                   self.pos += written;  Ok(written)
     repaired:  write_aligned(writer, &mut pos, header.as_bytes())?;
                which sends the padding with  writer.write_all(&[0; 8][..padding])?;        *)

(* ONE `write` call for a padding buffer; the count returned is ignored.  No call at all when
   no padding is needed (align_to returns early).  `?` propagates every error of that single
   call, a retryable Interrupted included: reported as an error result. *)
Definition write_once (s : sink) (st : sstate) (buf : list N) : wres * sstate :=
  match buf with
  | [] => (WOk, st)
  | _ :: _ =>
    let r := script_get (ss_calls st) (sk_script s) in
    let st1 := {| ss_calls := ss_calls st + 1; ss_acc := ss_acc st |} in
    match r with
    | Interrupted => (WErrFail, st1)
    | Fail => (WErrFail, st1)
    | _ => let n := accept_n s r (lenN buf) in
           (WOk, {| ss_calls := ss_calls st + 1; ss_acc := ss_acc st ++ firstn (N.to_nat n) buf |})
    end
  end.

(* Sink.write_chunks over tagged chunks: true = padding (one write), false = payload (write_all) *)
Fixpoint write_chunks_pinned (fuel : nat) (s : sink) (st : sstate) (chunks : list (bool * list N)) : wres * sstate :=
  match chunks with
  | [] => (WOk, st)
  | (pad, c) :: rest =>
    match (if pad then write_once s st c else write_all fuel s st c) with
    | (WOk, st') => write_chunks_pinned fuel s st' rest
    | other => other
    end
  end.

Definition run_sink_pinned (s : sink) (chunks : list (bool * list N)) : wres * sstate :=
  write_chunks_pinned (sink_fuel s (map snd chunks)) s {| ss_calls := 0; ss_acc := [] |} chunks.

(* replay input: a sink accepting one byte per call *)
Definition sink6 : sink := {| sk_max := 1; sk_script := [] |}.
Definition chunks6 : list (bool * list N) := [(false, [1;2;3]); (true, [0;0;0;0;0]); (false, [4])].

(* C15_success_means_canonical *)
Theorem F6_refuted : exists sk pcs st st',
  run_sink sk (map snd pcs) = (WOk, st) /\ ss_acc st = concat (map snd pcs) /\
  run_sink_pinned sk pcs = (WOk, st') /\ ss_acc st' <> concat (map snd pcs).
Proof.
  exists sink6, chunks6, {| ss_calls := 9; ss_acc := [1;2;3;0;0;0;0;0;4] |},
         {| ss_calls := 5; ss_acc := [1;2;3;0;4] |}.
  split; [vmr|]. split; [vmr|]. split; [vmr|vmd].
Qed.
Print Assumptions F6_refuted.

Corollary F6_refuted_universal :
  ~ (forall sk pcs st, run_sink_pinned sk pcs = (WOk, st) -> ss_acc st = concat (map snd pcs)).
Proof.
  intros H. destruct F6_refuted as [sk [pcs [st [st' [_ [_ [Hp Hn]]]]]]]. exact (Hn (H sk pcs st' Hp)).
Qed.

(* The faithful call sequence of the snapshot: the padding length is computed by align_to from
   the number of bytes ACCEPTED so far (Writer.pos), so after a short padding write the later
   paddings change too.  [Align] = writer.align_to(8). *)
Inductive wcall := Data (b : list N) | Align.

Fixpoint write_calls_snapshot (fuel : nat) (s : sink) (st : sstate) (calls : list wcall) : wres * sstate :=
  match calls with
  | [] => (WOk, st)
  | c :: rest =>
    match (match c with
           | Data b => write_all fuel s st b
           | Align => write_once s st (pad8 (lenN (ss_acc st)))
           end) with
    | (WOk, st') => write_calls_snapshot fuel s st' rest
    | other => other
    end
  end.

(* ProguardCache::write of the snapshot, after the header/section values are known *)
Definition calls_snapshot (s : cache_struct) : list wcall :=
  [Data (ser_words (header_words s)); Align] ++
  map (fun c => Data (ser_words (class_words c))) (cs_classes s) ++
  [Align; Data (ser_words (flat_map member_words (cs_members s))); Align;
   Data (ser_words (flat_map member_words (cs_byparams s))); Align; Data (cs_strings s)].

Definition run_sink_snapshot (s : sink) (cs : cache_struct) : wres * sstate :=
  write_calls_snapshot (S (length (ser cs) + length (sk_script s))) s {| ss_calls := 0; ss_acc := [] |}
    (calls_snapshot cs).

(* the finding as it was replayed: a mapping with one class and one method (a file of 144
   bytes), a sink accepting one byte per call: Ok is reported, 135 bytes arrive
   (24 + 28 + 1 of 4 + 36 + 1 of 7 + 36 + 1 of 2 + 8); with 3 bytes per call, 141 *)
Definition cs6 : cache_struct := write_struct (recs (ln "A -> a:" ++ ln "    void f() -> m")).

Example F6_snapshot_replay :
  let good := {| sk_max := 0; sk_script := [] |} in
  let short := {| sk_max := 1; sk_script := [] |} in
  let short3 := {| sk_max := 3; sk_script := [] |} in
  (* a sink that accepts everything receives the canonical file *)
  fst (run_sink_snapshot good cs6) = WOk /\ ss_acc (snd (run_sink_snapshot good cs6)) = ser cs6 /\
  (* current writer, short sink: canonical *)
  fst (run_sink short (chunks cs6)) = WOk /\ ss_acc (snd (run_sink short (chunks cs6))) = ser cs6 /\
  (* snapshot writer, short sink: Ok, but too few bytes *)
  fst (run_sink_snapshot short cs6) = WOk /\
  lenN (ser cs6) = 144 /\ lenN (ss_acc (snd (run_sink_snapshot short cs6))) = 135 /\
  fst (run_sink_snapshot short3 cs6) = WOk /\ lenN (ss_acc (snd (run_sink_snapshot short3 cs6))) = 141 /\
  ss_acc (snd (run_sink_snapshot short cs6)) <> ser cs6.
Proof.
  cbv zeta. repeat (split; [vmr|]). vmd.
Qed.

(* coincidence: no difference for a sink that accepts every buffer completely *)
Lemma write_all_generous : forall s fuel st buf,
  sk_max s = 0 -> sk_script s = [] -> write_all (S fuel) s st buf = write_once s st buf.
Proof.
  intros s fuel st buf Hm Hs. destruct buf as [|b t]; [reflexivity|].
  rewrite write_all_S. unfold write_once. rewrite Hs. cbn [script_get]. unfold accept_n. rewrite Hm.
  change (0 =? 0) with true. cbv iota beta zeta.
  replace (lenN (b :: t) =? 0) with false by (symmetry; apply N.eqb_neq; pose proof (lenN_cons_pos b t); lia).
  unfold lenN. rewrite Nat2N.id. rewrite firstn_all, skipn_all. rewrite write_all_nil. reflexivity.
Qed.

Lemma write_chunks_pinned_generous : forall s fuel pcs st,
  sk_max s = 0 -> sk_script s = [] ->
  write_chunks_pinned (S fuel) s st pcs = write_chunks (S fuel) s st (map snd pcs).
Proof.
  intros s fuel pcs. induction pcs as [|[pad c] rest IH]; intros st Hm Hs; [reflexivity|].
  cbn [write_chunks_pinned write_chunks map snd].
  replace (if pad then write_once s st c else write_all (S fuel) s st c) with (write_all (S fuel) s st c)
    by (destruct pad; [apply write_all_generous; assumption|reflexivity]).
  destruct (write_all (S fuel) s st c) as [[| | |] st']; try reflexivity. apply IH; assumption.
Qed.

Lemma run_sink_pinned_coincides : forall s pcs,
  sk_max s = 0 -> sk_script s = [] -> run_sink_pinned s pcs = run_sink s (map snd pcs).
Proof.
  intros s pcs Hm Hs. unfold run_sink_pinned, run_sink, sink_fuel.
  apply write_chunks_pinned_generous; assumption.
Qed.

Example F6_coincides_ex :
  run_sink_pinned {| sk_max := 0; sk_script := [] |} chunks6
  = (WOk, {| ss_calls := 3; ss_acc := [1;2;3;0;0;0;0;0;4] |}).
Proof. vmr. Qed.
End F6.

(* ========================================================================================== *)
Section F7.
(* F7 — src/cache/raw.rs, ProguardCache::write, loop over the records
     snapshot:  ProguardRecord::Header { key, value: Some(file_name) } => {
                    if key == "sourceFile" {
                        current_class.class.file_name_offset = string_table.insert(file_name) as u32; } }
     repaired:  ProguardRecord::Header { key, value } => {
                    if key == "sourceFile" {
                        current_class.class.file_name_offset = value
                            .map_or(u32::MAX, |file_name| string_table.insert(file_name) as u32); } }
   (src/mapper.rs always did  `class.file_name = value`  for that header.)                 *)

(* replay input: the source file is reset before g *)
Definition map7 : list N :=
  ln "A -> a:" ++
  ln "# {""id"":""sourceFile"",""fileName"":""Foo.kt""}" ++
  ln "    1:1:void f():10:10 -> m" ++
  ln "# sourceFile" ++
  ln "    2:2:void g():20:20 -> m".
Definition rs7 : list record := recs map7.

Example F7_witness_records :
  map (fun r => match r with RHeader k v => Some (k, v) | _ => None end) rs7 =
  [None; Some (source_file, Some (s2b "Foo.kt")); None; Some (source_file, None); None].
Proof. vmr. Qed.

(* C01_cache / C02_frame_by_line: cache = specification = mapper *)
Theorem F7_refuted : exists rs c m line file,
  dom32 rs = true /\ sizes_ok rs = true /\ wf_class_names rs = true /\ wf_line_mappings rs = true /\
  (* current model *)
  c_remap_frame_lines (cache_of_struct (write_struct rs)) c m line file = Sline rs c m line file /\
  Ok (c_remap_frame_lines (cache_of_struct (write_struct rs)) c m line file)
    = m_remap_frame_lines (build true rs) c m line file /\
  (* pinned variant *)
  c_remap_frame_lines (cache_of_struct (write_struct_pinned7 rs)) c m line file <> Sline rs c m line file /\
  Ok (c_remap_frame_lines (cache_of_struct (write_struct_pinned7 rs)) c m line file)
    <> m_remap_frame_lines (build true rs) c m line file.
Proof.
  exists rs7, (s2b "a"), (s2b "m"), 2, (Some (s2b "SF.java")).
  split; [vmr|]. split; [vmr|]. split; [vmr|]. split; [vmr|]. split; [vmr|]. split; [vmr|]. split; vmd.
Qed.
Print Assumptions F7_refuted.

Example F7_answers :
  Sline rs7 (s2b "a") (s2b "m") 2 (Some (s2b "SF.java")) = [(s2b "A", s2b "g", Some (s2b "SF.java"), 20)] /\
  c_remap_frame_lines (cache_of_struct (write_struct rs7)) (s2b "a") (s2b "m") 2 (Some (s2b "SF.java"))
    = [(s2b "A", s2b "g", Some (s2b "SF.java"), 20)] /\
  c_remap_frame_lines (cache_of_struct (write_struct_pinned7 rs7)) (s2b "a") (s2b "m") 2 (Some (s2b "SF.java"))
    = [(s2b "A", s2b "g", Some (s2b "Foo.kt"), 20)] /\
  (* through the bytes as well *)
  parse (ser (write_struct_pinned7 rs7)) = POk (cache_of_struct (write_struct_pinned7 rs7)).
Proof. vm_compute. repeat split; reflexivity. Qed.

(* coincidence: no difference when the mapping has no `# sourceFile` header without value *)
Definition no_bare_source_file (r : record) : bool :=
  match r with
  | RHeader k None => negb (str_eqb k source_file)
  | _ => true
  end.

Lemma wstep_pinned_coincides : forall st r next,
  no_bare_source_file r = true -> wstep_pinned st r next = wstep st r next.
Proof.
  intros st r next H. destruct r as [k [v|]|o b|t o b|t o b a c lm]; try reflexivity.
  cbn [no_bare_source_file] in H. apply negb_true_iff in H.
  cbn [wstep_pinned wstep]. rewrite H. reflexivity.
Qed.

Lemma wrun_pinned_coincides : forall rs st,
  forallb no_bare_source_file rs = true -> wrun_with wstep_pinned st rs = wrun st rs.
Proof.
  induction rs as [|r rest IH]; intros st H; [reflexivity|].
  cbn [forallb] in H. apply andb_true_iff in H. destruct H as [Hr Hrest].
  cbn [wrun_with wrun]. rewrite (wstep_pinned_coincides _ _ _ Hr). apply IH. exact Hrest.
Qed.

Lemma write_struct_pinned7_coincides : forall rs,
  forallb no_bare_source_file rs = true -> write_struct_pinned7 rs = write_struct rs.
Proof.
  intros rs H. unfold write_struct_pinned7, write_struct_with, write_struct.
  rewrite (wrun_pinned_coincides rs _ H). reflexivity.
Qed.

Example F7_coincides_ex :
  forallb no_bare_source_file rs1 = true /\ forallb no_bare_source_file rs7 = false /\
  write_struct_pinned7 rs1 = write_struct rs1 /\ write_struct_snapshot rs1 = write_struct_pinned rs1.
Proof. vm_compute. repeat split; reflexivity. Qed.
End F7.

(* ---- summary ----------------------------------------------------------------------------- *)
Check F1_refuted. Check F1_layout_refuted.
Check F2_refuted_no_terminator. Check F2_refuted_isolation.
Check F3_refuted. Check F4_refuted. Check F5_refuted_C12. Check F5_refuted_C13.
Check F6_refuted. Check F7_refuted.
Print Assumptions F4_refuted_universal.
Print Assumptions F6_refuted_universal.
Print Assumptions flatten_pinned_coincides.
Print Assumptions parse_header_pinned_coincides.
Print Assumptions remap_typed_pinned_coincides.
Print Assumptions m_with_lines_pinned_coincides.
Print Assumptions c_with_lines_pinned_coincides.
Print Assumptions run_sink_pinned_coincides.
Print Assumptions write_struct_pinned7_coincides.
