From PG Require Import Base Java GuardParser.
From PG.Gen Require Extracted.
Lemma guard_primitives : agrees Extracted.jvm_primitives primitives.
Proof. first [reflexivity | exact I]. Qed.
