From PG Require Import Base Java.
From PG.Gen Require Extracted.
Lemma guard_primitives : Extracted.jvm_primitives = primitives.
Proof. reflexivity. Qed.
