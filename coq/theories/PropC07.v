(* PropC07.v — property C07: text trace remapping rewrites known lines and passes
   everything else through.  rc / rf are the class lookup and the frame remapping of either
   implementation (mapper or cache); the loop itself is one function of them. *)
From PG Require Import Base Spec Stacktrace RemapProofs.

(* one output chunk per input line, in order; each chunk is the line itself, a remapped
   throwable (first line / behind "Caused by: "), or the remapped frames *)
Theorem C07_line_by_line : forall rc rf input, exists outs,
  remap_text rc rf input = concat outs /\
  Forall2 (fun il o => line_out rc rf (Nat.eqb (fst il) 0) (snd il) o) (indexed (lines input)) outs.
Proof. exact C07_decomposition. Qed.

(* a mapping that knows none of the trace's classes: output = input up to terminator normalisation *)
Theorem C07_unknown_classes_identity : forall rc rf input,
  (forall l0 ls t, lines input = l0 :: ls -> parse_throwable l0 = Some t -> rc (fst t) = None) ->
  (forall l0 ls l rest t, lines input = l0 :: ls -> In l ls -> parse_frame l = None ->
      strip_prefix caused_by l = Some rest -> parse_throwable rest = Some t -> rc (fst t) = None) ->
  (forall l c m fl n, In l (lines input) -> parse_frame l = Some (c, m, fl, n) -> rf c m n fl = []) ->
  remap_text rc rf input = join_lines (lines input).
Proof. exact C07_identity_weak. Qed.

Theorem C07_empty_mapping_identity : forall rc rf input,
  (forall c, rc c = None) -> (forall c m l f, rf c m l f = []) ->
  remap_text rc rf input = join_lines (lines input).
Proof. exact C07_identity. Qed.

(* the only slice taken with computed bounds, line[3..len-1] in parse_frame, is in bounds *)
Theorem C07_frame_slice_in_bounds : forall l rest,
  strip_prefix at_space l = Some rest -> ends_with 41 l = true ->
  rest <> [] /\ l = at_space ++ removelast rest ++ [41] /\ (3 <= length l - 1)%nat.
Proof. exact parse_frame_slice_in_bounds. Qed.

Check C07_line_by_line : forall rc rf input, exists outs,
  remap_text rc rf input = concat outs /\
  Forall2 (fun il o => line_out rc rf (Nat.eqb (fst il) 0) (snd il) o) (indexed (lines input)) outs.
