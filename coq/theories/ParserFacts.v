(* ParserFacts.v — facts about the records the parser can yield, used to discharge the
   well-formedness hypotheses of the mapper / cache theorems for records coming from bytes. *)
From Coq Require Import Lia Arith Wf_nat.
From PG Require Import Base Mapping MappingProofs MapperProofs.

Definition lm_positive (r : record) : bool :=
  match r with
  | RMethod _ _ _ _ _ (Some l) => (0 <? lm_start l) && (0 <? lm_end l)
  | _ => true
  end.

Lemma mk_line_mapping_pos s e os oe l :
  mk_line_mapping s e os oe = Some l -> (0 <? lm_start l) && (0 <? lm_end l) = true.
Proof.
  unfold mk_line_mapping. destruct s as [s|]; [|discriminate]. destruct e as [e|]; [|discriminate].
  destruct ((0 <? s) && (0 <? e)) eqn:E; [|discriminate]. intros H. inversion H; subst. cbn [lm_start lm_end]. exact E.
Qed.

Lemma parse_member_pos l r rest : parse_member l = Some (r, rest) -> lm_positive r = true.
Proof.
  unfold parse_member. intros H. bind_some H as l0 E.
  destruct (match parse_usize l0 with Some (v, l') => (Some v, l') | None => (None, l0) end) as [startline l1].
  bind_some H as [endline l2] Eend. bind_some H as [ty l3] Ety. bind_some H as l4 Esp.
  bind_some H as [original l5] Eor. bind_some H as [arguments l6] Earg.
  bind_some H as [os l7] Eos. bind_some H as [oe l8] Eoe. bind_some H as l9 Earr.
  bind_some H as [obf l10] Eobf.
  destruct arguments as [args|].
  - destruct (split_last_dot [] original) as [[c o]|]; inversion H; subst; cbn [lm_positive];
      (destruct (mk_line_mapping startline endline os oe) as [lm|] eqn:Em; [eapply mk_line_mapping_pos; eauto|reflexivity]).
  - inversion H; subst. reflexivity.
Qed.

Lemma parse_header_pos l r rest : parse_header l = Some (r, rest) -> lm_positive r = true.
Proof.
  unfold parse_header. intros H. bind_some H as l0 E.
  destruct (strip_prefix source_file_prefix l0) as [l1|].
  - bind_some H as [v l2] Ev. bind_some H as l3 Eq. inversion H; subst. reflexivity.
  - bind_some H as [k l2] Ek. bind_some H as [v l3] Ev. inversion H; subst. reflexivity.
Qed.

Lemma parse_class_pos l r rest : parse_class l = Some (r, rest) -> lm_positive r = true.
Proof.
  unfold parse_class. intros H. bind_some H as [o l1] Eo. bind_some H as l2 Ea. bind_some H as [ob l3] Eb.
  bind_some H as l4 Ec. inversion H; subst. reflexivity.
Qed.

Lemma parse_record_pos b r rest : parse_record b = (IOk r, rest) -> lm_positive r = true.
Proof.
  unfold parse_record. destruct (dispatch (drop_nl b)) as [[r' rest']|] eqn:E.
  - intros H. inversion H; subst. unfold dispatch in E.
    destruct (starts_with [35] (drop_nl b)); [eapply parse_header_pos; eauto|].
    destruct (starts_with four_spaces (drop_nl b)); [eapply parse_member_pos; eauto|eapply parse_class_pos; eauto].
  - destruct (split_line (drop_nl b)). discriminate.
Qed.

Theorem recs_lm_positive : forall b, forallb lm_positive (recs b) = true.
Proof.
  intros b. remember (length b) as n eqn:En. revert b En. induction n as [n IH] using lt_wf_ind. intros b En.
  destruct b as [|x xs]; [reflexivity|].
  unfold recs. rewrite items_cons by discriminate.
  pose proof (parse_record_progress (x :: xs) ltac:(discriminate)) as Hp.
  destruct (parse_record (x :: xs)) as [it rest] eqn:E. cbn [fst snd] in *.
  specialize (IH (length rest) ltac:(subst; exact Hp) rest eq_refl). unfold recs in IH.
  cbn [ok_records flat_map]. destruct it as [r|e]; cbn [app].
  - cbn [forallb]. rewrite (parse_record_pos _ _ _ E). exact IH.
  - exact IH.
Qed.

(* every line mapping the parser yields has a positive end line: the hypothesis of mapper_lines *)
Theorem recs_wf_line_mappings : forall b, wf_line_mappings (recs b) = true.
Proof.
  intros b. pose proof (recs_lm_positive b) as H. unfold wf_line_mappings.
  induction (recs b) as [|r rs IH]; [reflexivity|]. cbn [forallb] in *.
  apply andb_prop in H as [Hr Hrs]. rewrite (IH Hrs), andb_true_r.
  destruct r as [| | |t o ob a c [l|]]; try reflexivity. cbn [lm_positive] in Hr.
  apply andb_prop in Hr as [_ He]. exact He.
Qed.
